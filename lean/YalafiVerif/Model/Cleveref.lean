/-
  Model/Cleveref.lean — the sed-file reader of `yalafi/packages/cleveref.py` as pure functions
  on `List Char` (no regular-expression engine: the three patterns `re_ref`, `re_ref_range`,
  `re_command` are written out by hand; tied to Python's `re` by the correspondence ops
  `SEDLINE` / `SEDFILE` of the driver, harness/corr_cref.py).

  All three patterns are used with `.match` (anchored at the start only) and compiled with
  `re.VERBOSE` (white space and comments of the pattern text are no part of it).  Apart from
  the final `(.*)/g` every piece is deterministic (the character behind an optional or repeated
  piece can never be matched by that piece, so back-tracking never finds a second way):

    re_ref        s/\\ (\\cref|\\Cref)           (?:\\)? (\*?) \{([^}{]+)\}                /(.*)/g
    re_ref_range  s/\\ (\\crefrange|\\Crefrange) (?:\\)? (\*?) \{([^}{]+)\} \{([^}{]+)\}   /(.*)/g
    re_command    s/\\ (\\(\[cC\])?[a-zA-Z@]+) ((?:\{\.\*\})+)? \s*                         /(.*)/g

  `(.*)/g`: `.` matches everything but '\n'; greedy with back-tracking = the text up to the LAST
  "/g" of the (rest of the) first line.
-/
import YalafiVerif.Model.Basic
namespace Yalafi.Cleveref

/-- `s` minus the prefix `p`, if `s` starts with `p` -/
def dropPrefix (p s : Str) : Option Str :=
  if startsWith s p then some (s.drop p.length) else none

/-- the text in front of the last "/g" of `s` -/
def beforeLastG : Str → Option Str
  | [] => none
  | c :: cs =>
    match beforeLastG cs with
    | some r => some (c :: r)
    | none => if c == '/' && cs.head? == some 'g' then some [] else none

/-- `/(.*)/g` at the start of `s` -/
def slashRepl (s : Str) : Option Str :=
  match s with
  | '/' :: r => beforeLastG (r.takeWhile (· != nl))
  | _ => none

def isBrace (c : Char) : Bool := c == '{' || c == '}'

/-- `\{([^}{]+)\}` at the start of `s`: (label, rest) -/
def braceArg (s : Str) : Option (Str × Str) :=
  match s with
  | '{' :: r =>
    let l := r.takeWhile (fun c => !isBrace c)
    if l.isEmpty then none else
    match r.drop l.length with
    | '}' :: r' => some (l, r')
    | _ => none
  | _ => none

/-- `s/\\(name1|name2)(?:\\)?(\*?)` : (name, star, rest) -/
def refHead (names : List Str) (s : Str) : Option (Str × Str × Str) :=
  match dropPrefix ['s', '/', '\\'] s with
  | none => none
  | some r1 =>
    match names.find? (fun n => startsWith r1 n) with
    | none => none
    | some n =>
      let r2 := r1.drop n.length
      let r3 := match r2 with | '\\' :: t => t | _ => r2
      match r3 with
      | '*' :: t => some (n, ['*'], t)
      | _ => some (n, [], r3)

structure RefMatch where
  name : Str
  star : Str
  label : Str
  repl : Str            -- group 4, raw
deriving Repr, DecidableEq, Inhabited

structure RangeMatch where
  name : Str
  star : Str
  label1 : Str
  label2 : Str
  repl : Str            -- group 5, raw
deriving Repr, DecidableEq, Inhabited

structure CmdMatch where
  /-- group 1: backslash, optional literal "[cC]", letters -/
  name : Str
  /-- group 2 took part -/
  cC : Bool
  /-- number of `{.*}` pieces of group 3 = `int((m.end(3)-m.start(3))/4)` (0 if the group took no part) -/
  nargs : Nat
  repl : Str            -- group 4, raw
deriving Repr, DecidableEq, Inhabited

def nameCref : Str := "\\cref".toList
def nameCrefU : Str := "\\Cref".toList
def nameCrefrange : Str := "\\crefrange".toList
def nameCrefrangeU : Str := "\\Crefrange".toList

/-- `re_ref.match(line)` -/
def matchRef (s : Str) : Option RefMatch :=
  match refHead [nameCref, nameCrefU] s with
  | none => none
  | some (n, st, r) =>
    match braceArg r with
    | none => none
    | some (l, r1) =>
      match slashRepl r1 with
      | none => none
      | some rep => some { name := n, star := st, label := l, repl := rep }

/-- `re_ref_range.match(line)` -/
def matchRange (s : Str) : Option RangeMatch :=
  match refHead [nameCrefrange, nameCrefrangeU] s with
  | none => none
  | some (n, st, r) =>
    match braceArg r with
    | none => none
    | some (l1, r1) =>
      match braceArg r1 with
      | none => none
      | some (l2, r2) =>
        match slashRepl r2 with
        | none => none
        | some rep => some { name := n, star := st, label1 := l1, label2 := l2, repl := rep }

def dotStar : Str := ['{', '.', '*', '}']
def cCLit : Str := ['[', 'c', 'C', ']']

/-- number of leading `{.*}` pieces and the rest behind them -/
def countDotStar : Nat → Str → Nat × Str
  | 0, s => (0, s)
  | fuel + 1, s =>
    if startsWith s dotStar then
      let r := countDotStar fuel (s.drop 4)
      (r.1 + 1, r.2)
    else (0, s)

/-- `re_command.match(line)` -/
def matchCmd (s : Str) : Option CmdMatch :=
  match dropPrefix ['s', '/', '\\', '\\'] s with
  | none => none
  | some r1 =>
    let cC := startsWith r1 cCLit
    let r2 := if cC then r1.drop 4 else r1
    let letters := r2.takeWhile macroChar
    if letters.isEmpty then none else
    let r3 := r2.drop letters.length
    let g := countDotStar r3.length r3
    match slashRepl (g.2.dropWhile isSpace) with
    | none => none
    | some rep =>
      some { name := '\\' :: ((if cC then cCLit else []) ++ letters), cC := cC, nargs := g.1, repl := rep }

/-- `re.sub` of a two-character literal `ab` by `r` (left to right, not overlapping) -/
def subst2 (a b : Char) (r : Str) : Str → Str
  | [] => []
  | [c] => [c]
  | c :: d :: t => if c == a && d == b then r ++ subst2 a b r t else c :: subst2 a b r (d :: t)

/-- `re_remove_escaped_symbols`: `\.` → `.`, then `\*` → nothing, then `\\` → `\` (this order) -/
def removeEscaped (s : Str) : Str :=
  subst2 '\\' '\\' ['\\'] (subst2 '\\' '*' [] (subst2 '\\' '.' ['.'] s))

/-- what the loop of `h_read_sed` does with one non-empty line: `re_ref` first (then `continue`);
    otherwise `re_ref_range` AND `re_command` are both tried -/
structure SedLine where
  ref : Option RefMatch := none
  range : Option RangeMatch := none
  cmd : Option CmdMatch := none
deriving Repr, DecidableEq, Inhabited

def sedLine (s : Str) : SedLine :=
  match matchRef s with
  | some m => { ref := some m }
  | none => { range := matchRange s, cmd := matchCmd s }

/-- `sed.split('\n')` -/
def splitLines : Str → Str → List Str
  | [], cur => [cur.reverse]
  | c :: cs, cur => if c == nl then cur.reverse :: splitLines cs [] else splitLines cs (c :: cur)

/-- the non-empty lines of the file, classified -/
def sedLines (sed : Str) : List SedLine :=
  ((splitLines sed []).filter (fun l => !l.isEmpty)).map sedLine

/-- a macro the sed file defines: (name, number of 'A' arguments, replacement text) -/
structure SedMacro where
  name : Str
  nargs : Nat
  repl : Str
deriving Repr, DecidableEq, Inhabited

/-- `re_cC.sub(x, group1)`: every literal "[cC]" replaced (there is at most the one behind the backslash) -/
def substcCAux (x : Char) : Nat → Str → Str
  | 0, s => s
  | _ + 1, [] => []
  | fuel + 1, c :: rest =>
    if startsWith (c :: rest) cCLit then x :: substcCAux x fuel (rest.drop 3) else c :: substcCAux x fuel rest
def substcC (x : Char) (s : Str) : Str := substcCAux x s.length s

/-- the `Macro(...)` objects one command line creates, in order -/
def cmdMacros (m : CmdMatch) : List SedMacro :=
  let str := removeEscaped m.repl
  if m.cC then
    [{ name := substcC 'c' m.name, nargs := m.nargs, repl := str },
     { name := substcC 'C' m.name, nargs := m.nargs, repl := str }]
  else [{ name := m.name, nargs := m.nargs, repl := str }]

def sedMacros (ls : List SedLine) : List SedMacro :=
  ls.flatMap (fun l => match l.cmd with | some m => cmdMacros m | none => [])

/-- `refs[name][star]` as a list in file order -/
def refTable (ls : List SedLine) (name star : Str) : List (Str × Str) :=
  ls.filterMap (fun l => match l.ref with
    | some m => if m.name == name && m.star == star then some (m.label, removeEscaped m.repl) else none
    | none => none)

def rangeTable (ls : List SedLine) (name star : Str) : List ((Str × Str) × Str) :=
  ls.filterMap (fun l => match l.range with
    | some m => if m.name == name && m.star == star then some ((m.label1, m.label2), removeEscaped m.repl) else none
    | none => none)

/-- dictionary look-up: the last entry for the key -/
def lookupLast {α} [BEq α] (tbl : List (α × Str)) (k : α) : Option Str :=
  (tbl.reverse.find? (fun e => e.1 == k)).map (·.2)

/-- a Python format string with fields `{:}` given by its literal pieces: `p0 a0 p1 a1 … pn` -/
def fmt : List Str → List Str → Str
  | [], _ => []
  | p :: ps, [] => p ++ (ps.flatten)
  | p :: ps, a :: as => if ps.isEmpty then p else p ++ a ++ fmt ps as

end Yalafi.Cleveref
