/-
  Spec/Globals.lean — the module-level objects of yalafi/ that were examined and are
  constants of the process (never mutated by processing a document): tables of required
  packages, load tables, the babel name map (changed only through the public
  `modify_language_map` of a user module), the set-once globals that `init(vars)` copies
  into the shell modules, and the local-server flag.  A module-level mutable object that is
  not listed here makes `C17_globals_accounted` fail.
-/
namespace Yalafi

def examinedGlobals : List String := ["yalafi/documentclasses/__init__.py:load_table", "yalafi/documentclasses/article.py:require_packages", "yalafi/documentclasses/book.py:require_packages", "yalafi/documentclasses/report.py:require_packages", "yalafi/documentclasses/scrartcl.py:require_packages", "yalafi/documentclasses/scrbook.py:require_packages", "yalafi/documentclasses/scrreprt.py:require_packages", "yalafi/packages/__init__.py:load_table", "yalafi/packages/amsmath.py:require_packages", "yalafi/packages/amsthm.py:require_packages", "yalafi/packages/babel.py:language_map", "yalafi/packages/babel.py:require_packages", "yalafi/packages/biblatex.py:require_packages", "yalafi/packages/circuitikz.py:require_packages", "yalafi/packages/cleveref.py:require_packages", "yalafi/packages/geometry.py:require_packages", "yalafi/packages/glossaries.py:require_packages", "yalafi/packages/glossaries_extra.py:require_packages", "yalafi/packages/graphicx.py:require_packages", "yalafi/packages/hyperref.py:require_packages", "yalafi/packages/inputenc.py:require_packages", "yalafi/packages/listings.py:require_packages", "yalafi/packages/mathtools.py:require_packages", "yalafi/packages/pgfplots.py:require_packages", "yalafi/packages/tikz.py:require_packages", "yalafi/packages/unicode_math.py:require_packages", "yalafi/packages/xcolor.py:require_packages", "yalafi/packages/xspace.py:require_packages", "yalafi/packages/xspace.py:xspace_excl", "yalafi/shell/addpacks.py:documentclass", "yalafi/shell/addpacks.py:packages", "yalafi/shell/addpacks.py:require_packages", "yalafi/shell/genhtml.py:global cmdline", "yalafi/shell/genhtml.py:global highlight_style", "yalafi/shell/genhtml.py:global json_get", "yalafi/shell/genhtml.py:global msg_LT_server_html", "yalafi/shell/genhtml.py:global number_style", "yalafi/shell/gentext.py:global cmdline", "yalafi/shell/gentext.py:global json_get", "yalafi/shell/gentext.py:global msg_LT_server_txt", "yalafi/shell/genxml.py:global cmdline", "yalafi/shell/genxml.py:global json_get", "yalafi/shell/genxml.py:global msg_LT_server_txt", "yalafi/shell/proofreader.py:global cmdline", "yalafi/shell/proofreader.py:global equation_replacements", "yalafi/shell/proofreader.py:global equation_replacements_display", "yalafi/shell/proofreader.py:global equation_replacements_inline", "yalafi/shell/proofreader.py:global json_decoder", "yalafi/shell/proofreader.py:global json_fatal", "yalafi/shell/proofreader.py:global json_get", "yalafi/shell/proofreader.py:global lt_option_map", "yalafi/shell/proofreader.py:global ltcommand", "yalafi/shell/proofreader.py:global ltserver", "yalafi/shell/proofreader.py:global ltserver_local", "yalafi/shell/proofreader.py:global ltserver_local_cmd", "yalafi/shell/proofreader.py:global ltserver_local_running", "yalafi/shell/proofreader.py:global textgears_server", "yalafi/shell/shell.py:done", "yalafi/shell/shell.py:lt_option_map"]

/-- the functions that change one of these objects in place, examined one by one:
    `babel.modify_language_map` is a public hook for user modules and is called by nothing in the
    package; `addpacks.add` / `addpacks.init_module` belong to the shell's `--add-modules` pre-pass,
    which runs once per process before any document is converted.  A new writer (for instance a
    `setdefault` on `language_map` while a document is converted) makes `C17_writers_accounted`
    fail. -/
def examinedWriters : List String := [
  "yalafi/packages/babel.py:modify_language_map:language_map:item",
  "yalafi/shell/addpacks.py:add:documentclass:item",
  "yalafi/shell/addpacks.py:add:packages:append",
  "yalafi/shell/addpacks.py:init_module:documentclass:item",
  "yalafi/shell/addpacks.py:init_module:packages:append"]

end Yalafi
