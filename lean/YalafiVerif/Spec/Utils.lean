/-
  Spec/Utils.lean — definitions used in statements about get_txt_pos, latex_error, ML.
-/
import YalafiVerif.Spec.Scanner
import YalafiVerif.Model.ML
namespace Yalafi

def isLangTok (t : Tok) : Bool := match t.kind with | .lang .. => true | _ => false

/-- all parts of a multi-language result, flattened -/
def allParts (p : Parts) : List (Str × List Nat) := (p.map (·.2)).flatten

/-- reference language stack (10-line specification of the sectioning fold):
    push / pop-if-more-than-one / replace-top -/
def langAt : List Str → List Tok → List Str
  | st, [] => st
  | st, t :: ts =>
    match t.kind with
    | .lang l back hard _ =>
      if back then langAt (if st.length > 1 then st.tail else st) ts
      else if hard then langAt (l :: st.tail) ts
      else langAt (l :: st) ts
    | _ => langAt st ts

/-- the language-change table has usable (non-empty) lists, incl. the fall-back `en` -/
def LangChangeOk (lc : LangChange) : Prop :=
  (∀ e ∈ lc, e.2 ≠ []) ∧ ("en".toList ∈ lc.map (·.1))

end Yalafi
