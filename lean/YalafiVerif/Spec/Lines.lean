/-
  Spec/Lines.lean — definitions used in statements about remove_pure_action_lines.
-/
import YalafiVerif.Spec.Utils
import YalafiVerif.Model.Lines
namespace Yalafi

/-- the visible part of a (text, positions) pair: characters that are not white space,
    each with its position -/
def nonBlankPairs (tp : Str × List Nat) : List (Char × Nat) :=
  (tp.1.zip tp.2).filter (fun cp => !isSpace cp.1)

end Yalafi
