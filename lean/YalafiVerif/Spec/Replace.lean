/-
  Spec/Replace.lean — definitions used in the statements of Properties/C13.lean.
-/
import YalafiVerif.Model.Replace
namespace Yalafi

/-- match spans as `re.finditer` yields them: non-empty, increasing, disjoint, inside the text -/
def SpansOk : Nat → Nat → List Span → Prop
  | _, _, [] => True
  | last, n, m :: ms => last ≤ m.start ∧ 1 ≤ m.len ∧ m.start + m.len ≤ n ∧ SpansOk (m.start + m.len) n ms

/-- what the property says output index by index: a character outside every match keeps
    character and position; the first character of a match is replaced by `repl`, whose
    `j`-th character maps to the position of the `min j (len-1)`-th character of the
    match; the other characters of a match vanish. -/
def substSpecAt (txt : Str) (pos : List Nat) (ms : List Span) (repl : Str) (i : Nat) : List (Char × Nat) :=
  match ms.find? (fun m => decide (m.start ≤ i ∧ i < m.start + m.len)) with
  | none => [(txt.getD i ' ', pos.getD i 0)]
  | some m =>
    if i = m.start then
      (List.range repl.length).map (fun j => (repl.getD j ' ', pos.getD (m.start + min j (m.len - 1)) 0))
    else []

end Yalafi
