/-
  Spec/Inv.lean — the range invariant of the expander (DESIGN section 4 "bundle", Appendix A)
  and the per-function specifications that the induction on fuel establishes.

  `n` (written `st.latex.length`) is the length of the text currently being parsed;
  `nroot` the length of the root document.
-/
import YalafiVerif.Model.Tex2txt
import YalafiVerif.Spec.Lines
namespace Yalafi

/-! ### well-formedness of the translated tables (decidable; `Generated/WF.lean` proves it
    for the current tables by `decide`) -/

/-- names of the declared environments that have an `end_func` -/
def endFuncNames (T : PTables) : List Str :=
  ((T.environmentDefs ++ (T.packageModules ++ T.classModules).flatMap (·.envs)).filter
    (fun e => e.endFunc != .none)).map (·.name)

/-- class invariant of `defs.py`: Action, Void and Language tokens have empty text -/
def ctlEmpty (t : Tok) : Bool :=
  match t.kind with
  | .action | .void | .lang .. => t.txt.isEmpty
  | _ => true

/-- an accent macro is a key of `accent_macros` with a non-empty name list -/
def accentOk (T : PTables) (txt : Str) : Bool :=
  match T.accents.find? (·.1 == txt) with
  | some a => !a.2.isEmpty
  | none => false

/-- table invariants of a token: a `MathBeginToken` names an equation environment, never one
    with an `end_func`; a `SpecialToken` is a key of `special_tokens`; an `AccentToken` is a key
    of `accent_macros` (the look-ups `special_tokens[tok.txt]`, `accent_macros[tok.txt][0]`
    cannot raise) -/
def mbOk (T : PTables) (t : Tok) : Bool :=
  match t.kind with
  | .mathBegin _ => !(endFuncNames T).contains t.txt
  | .special => (T.toTables.specialVal t.txt).isSome
  | .accent => accentOk T t.txt
  | _ => true

/-- tokens that may be stored in a definition (they are re-stamped on use) -/
def storedOk (T : PTables) (t : Tok) : Bool := !isMathTok t && ctlEmpty t && mbOk T t

/-- number of arguments a handler indexes (`args[k]` for `k <` this number) -/
def handlerArity : Handler → Nat
  | .none => 0
  | .newcommand => 5
  | .newtheorem => 3
  | .theorem _ => 1
  | .heading => 3
  | .phantom => 1
  | .hspace => 2
  | .cite => 1
  | .loadDefs => 1
  | .loadModule _ => 2
  | .foreignlanguage => 3
  | .selectlanguage => 1
  | .beginOtherlang => 1
  | .endOtherlang => 0
  | .endOtherlangStar => 0
  | .substack => 1
  | .proof => 1
  | .bibCite => 3
  | .footcite => 3
  | .xspace => 0
  | .gls _ _ _ => 2
  | .newacronym => 3
  | .newglossaryentry => 2
  | .parseGlsdefs => 2
  | .opaqueH _ => 0
  | .readSed => 1
  | .crefWarn => 0
  | .cref _ _ => 2
  | .crefrange _ _ => 3

/-- arguments of which a handler takes the first or last token without a test
    (`args[1][0]`, `args[2][-1]`): they must be mandatory arguments, which are never empty -/
def handlerNeedsA : Handler → List Nat
  | .newcommand => [1]
  | .heading => [2]
  | .foreignlanguage => [2]
  | _ => []

/-- a definition is consistent with its argument string: the handler finds every argument it
    indexes, and every `#k` of the replacement and extraction texts refers to an argument -/
def arityOk (m : MacroDef) : Bool :=
  decide (handlerArity m.handler ≤ m.args.length)
  && (handlerNeedsA m.handler).all (fun k => m.args[k]? == some 'A')
  && (m.repl ++ m.extract).all (fun t =>
        match argRef t with
        | some k => decide (1 ≤ k) && decide (k ≤ m.args.length)
        | none => true)

def macroToksOk (T : PTables) (m : MacroDef) : Bool :=
  m.repl.all (storedOk T) && m.defaults.all (·.all (storedOk T)) && m.extract.all (storedOk T)
  && arityOk m

/-- environment bookkeeping: an equation environment has no `end_func` name, and an
    environment with `end_func` carries one of the declared names -/
def envOk (T : PTables) (e : MacroDef) : Bool :=
  (!e.isEqu || !(endFuncNames T).contains e.name) && (e.endFunc == .none || (endFuncNames T).contains e.name)
  && decide (handlerArity e.endFunc = 0)

def allTableEnvs (T : PTables) : List MacroDef :=
  T.environmentDefs ++ (T.packageModules ++ T.classModules).flatMap (·.envs)

structure PTables.WFInv (T : PTables) : Prop where
  scan : T.toTables.WFScan
  /-- a special token's replacement is never longer than the sequence it replaces -/
  special_len : ∀ kv ∈ T.special, kv.2.length ≤ kv.1.length
  /-- the replacements of the three keys handlers create tokens for are at most one character -/
  special_small : ∀ k ∈ [['{'], ['}'], ['\\', ';']], ∃ v, T.toTables.specialVal k = some v ∧ v.length ≤ 1
  /-- accent macros are two characters long and produce at most two characters -/
  accent_len : ∀ a ∈ T.accents, a.1.length = 2
  unicode_len : ∀ u ∈ T.unicodeNames, u.2.length ≤ 2
  /-- declared replacement texts contain only storable tokens -/
  macros_ok : ∀ m ∈ T.macroDefsPython ++ T.noSpecialsMacros ++ T.environmentDefs, macroToksOk T m = true
  modules_ok : ∀ md ∈ T.packageModules ++ T.classModules, ∀ m ∈ md.macros ++ md.envs, macroToksOk T m = true
  envs_ok : ∀ e ∈ allTableEnvs T, envOk T e = true
  default_env : (endFuncNames T).contains T.mathDefaultEnv = false
  /-- accent macros have at least one Unicode name part -/
  accent_names : ∀ a ∈ T.accents, a.2 ≠ []
  /-- `#` (a parameter character without digit is a SpecialToken) is a key of `special_tokens` -/
  special_hash : (T.toTables.specialVal ['#']).isSome = true
  /-- the default settings 'en' exist; every language has non-empty placeholder collections,
      a default operator text and a non-empty `lang_change` list -/
  lang_en : (settingsOf T "en".toList).isSome = true
  langs_ok : ∀ l ∈ T.langs, l.inlineRepl ≠ [] ∧ l.displayRepl ≠ [] ∧ l.langChange ≠ [] ∧ l.opDefault.isSome = true
  /-- `item_default_label` is not empty -/
  item_labels : T.itemDefaultLabel ≠ []
  /-- babel's `language_map` knows its fall-back 'english' -/
  babel_english : (T.babelMap.find? (·.1 == "english".toList)).isSome = true
  /-- the ASCII digits are decimal digits with their usual values (`int('#7'[1])`) -/
  decimal_ascii : ∀ c ∈ "0123456789".toList, decimalValue T.decimalZeros c = some (c.toNat - 48)

/-! ### token invariants -/

/-- number of source characters a position-counting token will claim when it reaches the
    output (Appendix A): text-like tokens claim their text, a special token the text it is
    replaced by, a verbatim-environment token additionally the `\end{verbatim}` behind it;
    control tokens never reach the output as text. -/
def extent (T : PTables) (t : Tok) : Nat :=
  match t.kind with
  | .special => ((T.toTables.specialVal t.txt).getD t.txt).length
  | .verb true => t.txt.length + 14
  | .xmacro | .xbegin | .xend | .item | .mathBegin _ | .mathElem | .mathOper | .mathSpace => 0
  | _ => t.txt.length

/-- `Inv n t` of the design: the position is inside the text, a position-counting token
    lies inside the text with everything it will emit, and the class invariants hold -/
def TokOk (T : PTables) (n : Nat) (t : Tok) : Prop :=
  t.pos < n ∧ (t.fix = false → t.pos + extent T t ≤ n) ∧ ctlEmpty t = true ∧ mbOk T t = true

/-- token classes that may stand in the output list of `expand_sequence`
    (everything else is consumed by a branch of the main loop) -/
def outKind (t : Tok) : Bool :=
  match t.kind with
  | .special | .xmacro | .xbegin | .xend | .item | .mathBegin _ | .mathElem | .mathOper | .mathSpace
  | .verb _ | .accent => false
  | _ => true

/-- buffer token: in range, not a maths-class token -/
def BTok (T : PTables) (n : Nat) (t : Tok) : Prop := TokOk T n t ∧ isMathTok t = false
/-- output token: in range, of an output class -/
def OTok (T : PTables) (n : Nat) (t : Tok) : Prop := TokOk T n t ∧ outKind t = true

def BL (T : PTables) (n : Nat) (ts : List Tok) : Prop := ∀ t ∈ ts, BTok T n t
def OL (T : PTables) (n : Nat) (ts : List Tok) : Prop := ∀ t ∈ ts, OTok T n t
/-- range only (maths sections contain maths-class tokens) -/
def TL (T : PTables) (n : Nat) (ts : List Tok) : Prop := ∀ t ∈ ts, TokOk T n t

/-! ### state invariant -/

def glossOk (T : PTables) (g : List (Str × List (Str × Option (List Tok)))) : Prop :=
  ∀ e ∈ g, ∀ kv ∈ e.2, ∀ ts, kv.2 = some ts → ∀ t ∈ ts, storedOk T t = true

/-- the part of the invariant that does not depend on the frame: the detached flows
    collected so far are output-quality tokens of the root document (unless a foreign flow
    was recorded: ghost flag), stored replacement texts are storable, environments are
    consistent -/
structure G0 (T : PTables) (nroot : Nat) (st : PState) : Prop where
  flows : st.foreign = false → ∀ e ∈ st.extracted, OL T nroot e
  macros : ∀ m ∈ st.macros ++ st.envs, macroToksOk T m = true
  envs : ∀ e ∈ st.envs, envOk T e = true
  gloss : glossOk T st.glossary
  /-- `item_lab_stack` is never popped below its default -/
  items : st.itemStack ≠ []
  /-- every entry of the language stack names existing settings -/
  langs : ∀ e ∈ st.langStack, (settingsOf T e.1).isSome = true
  /-- one rotation record per language, with non-empty collections -/
  rots : (∀ l ∈ T.langs, (rotOf st l.code).isSome = true) ∧
         (∀ r ∈ st.rots, r.inl ≠ [] ∧ r.disp ≠ [] ∧ r.chg ≠ [])
  /-- C19: the list of unknown macros / environments never holds a name twice -/
  unk : st.unknowns.Nodup

/-- `G nroot st`: `G0`, the root frame (`nest = 1`) parses the root document, and we are
    inside some `parser_work` frame -/
structure G (T : PTables) (nroot : Nat) (st : PState) : Prop extends G0 T nroot st where
  root : st.nest = 1 → st.latex.length = nroot
  inFrame : st.nest ≠ 0

/-- the functions of the expander restore `latex` and the ghost nesting depth -/
def Same (st st' : PState) : Prop := st'.latex = st.latex ∧ st'.nest = st.nest

/-- Crash sites of the expander model (every place where the Python code could raise) that are
    NOT shown unreachable.  The two `opaque …` markers stand for code that is not modelled
    (a module or handler the translator does not recognise; none in the current tables:
    `C07_no_opaque_module_current`); `cap_first` raises on an
    empty TextToken.  The model can create empty text tokens in five places (title of a theorem declared with an
    empty title, `\\proof` without language settings, the empty default label of a plain `\\item`, the first half of an
    error mark at the very end of the text, `\\verb||`); that none of them ever reaches `cap_first` needs an invariant
    about buffer ORDER and positions that this token-local bundle does not carry — it is proved separately, by a second
    induction on fuel: `C07_no_capfirst_crash` (Proofs/NoEmpty*.lean, Properties/NoEmptyStmt.lean).
    `tex2txt_crashSites` states that the model crashes nowhere else. -/
def allowedCrash : List String := [
  "opaque module (not modelled)",
  "opaque handler (not modelled)",
  "glossaries.py:cap_first:txt[0]"]

/-- postcondition on an outcome: nothing is claimed for `fatal` and `outOfFuel`; a `crash`
    (an unhandled Python exception) may only come from one of the `allowedCrash` sites -/
def Post {α} (x : Outcome (α × PState)) (Q : α → PState → Prop) : Prop :=
  match x with
  | .ok (a, s) => Q a s
  | .crash site => site ∈ allowedCrash
  | _ => True

/-- standard frame: invariant kept, `latex`/`nest` restored -/
def Good (T : PTables) (nroot : Nat) (st st' : PState) : Prop := G T nroot st' ∧ Same st st'

/-! ### per-function specifications (`n` abbreviates `st.latex.length`) -/

section
variable (T : PTables) (nroot : Nat)

def SpecSeq (fuel : Nat) : Prop :=
  ∀ (buf : Buf) (envStop : Option Str) (out : List Tok) (st : PState),
    G T nroot st → BL T st.latex.length buf → OL T st.latex.length out →
    Post (expandSequence T fuel buf envStop out st) (fun r st' =>
      Good T nroot st st' ∧ BL T st.latex.length r.1 ∧ BL T st.latex.length r.2 ∧
      (envStop = none → OL T st.latex.length r.1))

def SpecText (fuel : Nat) : Prop :=
  ∀ (toks : List Tok) (st : PState), G T nroot st → BL T st.latex.length toks →
    Post (getTextExpanded T fuel toks st) (fun _ st' => Good T nroot st st')

def SpecEnvName (fuel : Nat) : Prop :=
  ∀ (buf : Buf) (tok : Tok) (st : PState), G T nroot st → BL T st.latex.length buf → BTok T st.latex.length tok →
    Post (getEnvironmentName T fuel buf tok st) (fun r st' => Good T nroot st st' ∧ BL T st.latex.length r.2)

def SpecBegin (fuel : Nat) : Prop :=
  ∀ (buf : Buf) (tok : Tok) (math : Bool) (st : PState),
    G T nroot st → BL T st.latex.length buf → BTok T st.latex.length tok →
    Post (beginEnvironment T fuel buf tok math st) (fun r st' =>
      Good T nroot st st' ∧ BL T st.latex.length r.1 ∧ BL T st.latex.length r.2)

def SpecEnd (fuel : Nat) : Prop :=
  ∀ (buf : Buf) (tok : Tok) (envStop : Option Str) (st : PState),
    G T nroot st → BL T st.latex.length buf → BTok T st.latex.length tok →
    Post (endEnvironment T fuel buf tok envStop st) (fun r st' =>
      Good T nroot st st' ∧ BL T st.latex.length r.1.1 ∧ BL T st.latex.length r.2 ∧
      (r.1.2 = true → (∀ nm, envStop = some nm → (endFuncNames T).contains nm = false) → OL T st.latex.length r.1.1))

def SpecMacro (fuel : Nat) : Prop :=
  ∀ (buf : Buf) (tok : Tok) (math : Bool) (st : PState),
    G T nroot st → BL T st.latex.length buf → BTok T st.latex.length tok →
    Post (expandMacro T fuel buf tok math st) (fun r st' =>
      Good T nroot st st' ∧ BL T st.latex.length r.1 ∧ BL T st.latex.length r.2)

def SpecArgs (fuel : Nat) : Prop :=
  ∀ (buf : Buf) (mac : MacroDef) (start : Nat) (st : PState),
    G T nroot st → BL T st.latex.length buf → macroToksOk T mac = true → start < st.latex.length →
    Post (expandArguments T fuel buf mac start st) (fun r st' =>
      Good T nroot st st' ∧ BL T st.latex.length r.1 ∧ BL T st.latex.length r.2)

def SpecItem (fuel : Nat) : Prop :=
  ∀ (buf : Buf) (tok : Tok) (outSoFar : List Tok) (st : PState),
    G T nroot st → BL T st.latex.length buf → BTok T st.latex.length tok →
    Post (expandItem T fuel buf tok outSoFar st) (fun r st' =>
      Good T nroot st st' ∧ BL T st.latex.length r.1 ∧ BL T st.latex.length r.2)

def SpecAccent (fuel : Nat) : Prop :=
  ∀ (buf : Buf) (tok : Tok) (st : PState),
    G T nroot st → BL T st.latex.length buf → BTok T st.latex.length tok → tok.kind = .accent →
    Post (expandAccent T fuel buf tok st) (fun r st' =>
      Good T nroot st st' ∧ OL T st.latex.length r.1 ∧ BL T st.latex.length r.2)

/-- `parser_work` on an arbitrary text: the returned tokens are output tokens *of that text*;
    called either from inside a frame (`nest ≠ 0`, any text) or by `parse` for the root
    document (`nest = 0`) -/
def SpecWork (fuel : Nat) : Prop :=
  ∀ (latex : Str) (st : PState), G0 T nroot st →
    (st.nest = 0 → latex.length = nroot) → (st.nest = 1 → st.latex.length = nroot) →
    Post (parserWork T fuel latex st) (fun r st' => G0 T nroot st' ∧ Same st st' ∧ OL T latex.length r)

/-- the tokens a module may inject behind its `\usepackage`: language tokens (babel) or the pinned
    text tokens of an error mark (cleveref without the option 'poorman') -/
def injOk (ts : List Tok) : Prop :=
  ∀ t ∈ ts, (isLang t = true ∧ t.txt = []) ∨ (t.kind = .text ∧ t.fix = true)

def SpecInit (fuel : Nat) : Prop :=
  ∀ (name : Str) (md : ModuleDef) (builtin : Bool) (options : List KeyVal) (position : Nat) (st : PState),
    G T nroot st → (∀ m ∈ md.macros ++ md.envs, macroToksOk T m = true) → (∀ e ∈ md.envs, envOk T e = true) →
    Post (initPackage T fuel name md builtin options position st) (fun r st' => Good T nroot st st' ∧ injOk r)

def SpecModParams (fuel : Nat) : Prop :=
  ∀ (md : ModuleDef) (options : List KeyVal) (position : Nat) (st : PState),
    G T nroot st → (∀ m ∈ md.macros ++ md.envs, macroToksOk T m = true) → (∀ e ∈ md.envs, envOk T e = true) →
    Post (modifyParameters T fuel md options position st) (fun r st' => Good T nroot st st' ∧ injOk r)

def kvOk (n : Nat) (kvs : List (Str × Option (List Tok))) : Prop :=
  ∀ kv ∈ kvs, ∀ ts, kv.2 = some ts → BL T n ts

def SpecKeyvals (fuel : Nat) : Prop :=
  ∀ (buf : Buf) (acc : List (Str × Option (List Tok))) (st : PState),
    G T nroot st → BL T st.latex.length buf → kvOk T st.latex.length acc →
    Post (parseKeyvals T fuel buf acc st) (fun r st' => Good T nroot st st' ∧ kvOk T st.latex.length r)

def SpecValue (fuel : Nat) : Prop :=
  ∀ (buf : Buf) (val : List Tok) (st : PState),
    G T nroot st → BL T st.latex.length buf → BL T st.latex.length val →
    Post (parseValue T fuel buf val st) (fun r st' =>
      Good T nroot st st' ∧ BL T st.latex.length r.1 ∧ BL T st.latex.length r.2)

def SpecExpandKv (fuel : Nat) : Prop :=
  ∀ (kvs : List (Str × Option (List Tok))) (st : PState), G T nroot st → kvOk T st.latex.length kvs →
    Post (expandKeyvals T fuel kvs st) (fun _ st' => Good T nroot st st')

def SpecModDesc (fuel : Nat) : Prop :=
  ∀ (toks : List Tok) (st : PState), G T nroot st → BL T st.latex.length toks →
    Post (modifyDescription T fuel toks st) (fun r st' => Good T nroot st st' ∧ BL T st.latex.length r)

/-- what a handler may assume about the argument list it receives -/
def HandlerArgs (h : Handler) (args : List (List Tok)) : Prop :=
  handlerArity h ≤ args.length ∧ ∀ k ∈ handlerNeedsA h, ∃ a, args[k]? = some a ∧ a ≠ []

def SpecHandler (fuel : Nat) : Prop :=
  ∀ (h : Handler) (buf : Buf) (mac : MacroDef) (args : List (List Tok)) (pos : Nat) (st : PState),
    G T nroot st → BL T st.latex.length buf → (∀ a ∈ args, BL T st.latex.length a) → pos < st.latex.length →
    HandlerArgs h args →
    Post (callHandler T fuel h buf mac args pos st) (fun r st' => Good T nroot st st' ∧ BL T st.latex.length r)

/-- the buffer of a maths section: at most one maths-class token (pushed back by the loop
    itself) in front of ordinary buffer tokens -/
def MathBuf (n : Nat) (buf : Buf) : Prop :=
  ∃ pre rest, buf = pre ++ rest ∧ pre.length ≤ 1 ∧ TL T n pre ∧ BL T n rest

def SpecMathSec (fuel : Nat) : Prop :=
  ∀ (buf : Buf) (start : Nat) (toksStop : List Str) (envStop : Option Str) (out : List Tok) (st : PState),
    G T nroot st → MathBuf T st.latex.length buf → start < st.latex.length →
    (∀ nm, envStop = some nm → (endFuncNames T).contains nm = false) →
    (∀ t ∈ out, TokOk T st.latex.length t ∧ (isMathTok t = true ∨ outKind t = true)) →
    Post (expandMathSection T fuel buf start toksStop envStop out st) (fun r st' =>
      Good T nroot st st' ∧ BL T st.latex.length r.buf ∧
      (∀ t ∈ r.out, TokOk T st.latex.length t ∧ (isMathTok t = true ∨ outKind t = true)) ∧
      (∀ t, r.term = some t → t.pos < st.latex.length))

def SpecInline (fuel : Nat) : Prop :=
  ∀ (buf : Buf) (tok : Tok) (st : PState),
    G T nroot st → BL T st.latex.length buf → BTok T st.latex.length tok →
    Post (expandInlineMath T fuel buf tok st) (fun r st' =>
      Good T nroot st st' ∧ OL T st.latex.length r.1 ∧ BL T st.latex.length r.2)

def SpecDispLoop (fuel : Nat) : Prop :=
  ∀ (buf : Buf) (start : Nat) (envName : Str) (first next : Bool) (out : List Tok) (st : PState),
    G T nroot st → BL T st.latex.length buf → start < st.latex.length → OL T st.latex.length out →
    (endFuncNames T).contains envName = false →
    Post (displayLoop T fuel buf start envName first next out st) (fun r st' =>
      Good T nroot st st' ∧ OL T st.latex.length r.1 ∧ BL T st.latex.length r.2.1 ∧ OL T st.latex.length r.2.2)

def SpecDisplay (fuel : Nat) : Prop :=
  ∀ (buf : Buf) (tok : Tok) (envName : Str) (remove : Bool) (st : PState),
    G T nroot st → BL T st.latex.length buf → BTok T st.latex.length tok →
    (endFuncNames T).contains envName = false →
    Post (expandDisplayMath T fuel buf tok envName remove st) (fun r st' =>
      Good T nroot st st' ∧ OL T st.latex.length r.1 ∧ BL T st.latex.length r.2)

/-- everything the induction on fuel carries -/
structure AllSpecs (fuel : Nat) : Prop where
  seq : SpecSeq T nroot fuel
  text : SpecText T nroot fuel
  envName : SpecEnvName T nroot fuel
  begin_ : SpecBegin T nroot fuel
  end_ : SpecEnd T nroot fuel
  macro_ : SpecMacro T nroot fuel
  args : SpecArgs T nroot fuel
  item : SpecItem T nroot fuel
  accent : SpecAccent T nroot fuel
  work : SpecWork T nroot fuel
  init : SpecInit T nroot fuel
  modParams : SpecModParams T nroot fuel
  keyvals : SpecKeyvals T nroot fuel
  value : SpecValue T nroot fuel
  expandKv : SpecExpandKv T nroot fuel
  modDesc : SpecModDesc T nroot fuel
  handler : SpecHandler T nroot fuel
  mathSec : SpecMathSec T nroot fuel
  inline : SpecInline T nroot fuel
  dispLoop : SpecDispLoop T nroot fuel
  display : SpecDisplay T nroot fuel

end

end Yalafi
