/-
  Spec/Scanner.lean — definitions used in the statements about the scanner.
-/
import YalafiVerif.Model.Scanner
namespace Yalafi

/-- the part of `T.WF` the scanner theorems need -/
structure Tables.WFScan (T : Tables) : Prop where
  special_nonempty : ∀ t ∈ T.specialSorted, t ≠ []
  /-- sorted: longer keys first (`sort(key=-len)`) -/
  sorted : T.specialSorted.Pairwise (fun a b => b.length ≤ a.length)
  /-- same keys as the dictionary -/
  keys : ∀ k, k ∈ T.specialSorted ↔ k ∈ T.special.map (·.1)
  mark_nonempty : T.mark ≠ []

/-- a token is an error mark produced by `latex_error` (fixed text token) -/
def isErrTok (s : ScanStep) : Bool := s.diag.isSome

/-- offsets of the steps: running sum of the consumed lengths -/
def stepOffsets : Nat → List ScanStep → List Nat
  | _, [] => []
  | o, s :: ss => o :: stepOffsets (o + s.len) ss

/-- `Inv n t` for scanner output (DESIGN Appendix A): position inside the source, and a
    non-fixed token's text lies inside the source -/
def TokInRange (n : Nat) (t : Tok) : Prop :=
  t.pos < n ∧ (t.fix = false → t.pos + t.txt.length ≤ n)

end Yalafi
