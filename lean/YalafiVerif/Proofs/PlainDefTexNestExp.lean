/-
  Proofs/PlainDefTexNestExp.lean — the expander level of Proofs/PlainDefTexNest.lean (nested uses: a macro
  body that calls other user macros; arguments braced or one unbraced character).

    `balToks`, `collectArg_bal`, `argBuffer_bal`   `arg_buffer` on a brace group with balanced content
    `seq_defB_step`, `seq_ddefB_step`   `\newcommand{\name}[n]{body}` / `\def\name#1…#n{body}` with a body that
                                        contains brace groups
    `PE`, `NP`, `inst`, `instCur`, `splitGroup`, `dropSp`, `takeArg`, `takeGroups`, `noSkip`, `evalPE`
                                        THE REFERENCE MACHINE: positioned elements, instantiation of a
                                        body, collection of arguments, evaluation with fuel
    `TR`, `BodyTR`                      tokens that represent positioned elements / body pieces
    `genOut_inst`                       `generate_replacements` = `inst`
    `split_collect`, `skip_dropSp`, `skipAct_dropSp`, `collect_takeGroups`
                                        `arg_buffer` / `skip_space` / `expand_arguments` = `splitGroup` /
                                        `dropSp` / `takeGroups`
    `expandMacro_call`, `sim`           the loop of the model simulates the reference machine:
                                        `evalPE env F pes = some marks` and `TR toks pes` give output tokens
                                        with these marks in at most `2 * marks.length` iterations
-/
import YalafiVerif.Proofs.PlainDefTexExp
namespace Yalafi
namespace PlainDefTexNest

open M
open PlainMacro (lbr rbr NoBrace restamp skipSpace_cons_of_not skippedLangs_cons_of_not ncDeclOk ncDeclOk_facts
  skipSpaceStopLang_cons_of_not ncName seq_brace_step plainTok_noBrace plainTok_argRef cwTok_noBrace NcOk
  find_setMacro lookup_setMacro NameOk plainTok_restamp PassTok_congr argBuffer_brace Shape bodyTxt Mark marksOf
  charsOf)
open PlainMacroArgs (argTok digitChar userMacro RefsOk txtTok argBuffer_bracket callHandler_newcommandN
  DigitOk genOut genCur genRepl_eq argAt headPos lastPos CopyTok seq_copy_run lastTokStart ArgFacts)

/-! ### brace groups with balanced content -/

/-- brace balance of a token list in which `d` braces are open -/
def balToks : Nat → List Tok → Bool
  | d, [] => d == 0
  | d, t :: ts =>
    if txtIsNV t "{" then balToks (d + 1) ts
    else if txtIsNV t "}" then (match d with | 0 => false | d' + 1 => balToks d' ts)
    else balToks d ts

theorem txtIsNV_lr {t : Tok} (h : txtIsNV t "{" = true) : txtIsNV t "}" = false := by
  simp only [txtIsNV, Bool.and_eq_true, Bool.not_eq_true', beq_iff_eq] at h
  simp [txtIsNV, h.2]

theorem collectArg_bal (q : Nat) (rest : Buf) : ∀ (ts : List Tok) (d : Nat) (acc : List Tok),
    balToks d ts = true →
    collectArg ['}'] ((d : Int) + 1) (ts ++ rbr q :: rest) acc = some (acc.reverse ++ ts, rest)
  | [], d, acc, h => by
    have hd : d = 0 := by simpa [balToks] using h
    subst hd
    simp [collectArg, rbr, txtIsNV, isVerb]
  | t :: ts, d, acc, h => by
    by_cases h1 : txtIsNV t "{" = true
    · have h2 := txtIsNV_lr h1
      have h2' : (!isVerb t && t.txt == ['}']) = false := h2
      simp only [balToks, h1, if_true] at h
      simp only [List.cons_append, collectArg, h1, h2, h2', if_true, Bool.false_eq_true, if_false,
        Bool.false_and]
      have := collectArg_bal q rest ts (d + 1) (t :: acc) h
      rw [show ((d : Int) + 1 + 1) = ((d + 1 : Nat) : Int) + 1 by omega, this]
      simp
    · have h1' : txtIsNV t "{" = false := by simpa using h1
      by_cases h2 : txtIsNV t "}" = true
      · cases d with
        | zero => simp [balToks, h1', h2] at h
        | succ d' =>
          simp only [balToks, h1', h2, if_true, Bool.false_eq_true, if_false] at h
          have h2' : (!isVerb t && t.txt == ['}']) = true := h2
          have hz : (((d' + 1 : Nat) : Int) + 1 - 1 == 0) = false := by
            simp; omega
          simp only [List.cons_append, collectArg, h1', h2, h2', if_true, Bool.false_eq_true, if_false, hz,
            Bool.and_false]
          have := collectArg_bal q rest ts d' (t :: acc) h
          rw [show (((d' + 1 : Nat) : Int) + 1 - 1) = (d' : Int) + 1 by omega, this]
          simp
      · have h2' : txtIsNV t "}" = false := by simpa using h2
        have h2'' : (!isVerb t && t.txt == ['}']) = false := h2'
        simp only [balToks, h1', h2', Bool.false_eq_true, if_false] at h
        simp only [List.cons_append, collectArg, h1', h2', h2'', Bool.false_eq_true, if_false, Bool.false_and]
        rw [collectArg_bal q rest ts d (t :: acc) h]
        simp

theorem argBuffer_bal (T : Tables) (p q : Nat) (arg : List Tok) (rest : Buf) (start : Nat)
    (st : PState) (h : balToks 0 arg = true) (hne : arg ≠ []) :
    argBuffer T (lbr p :: (arg ++ rbr q :: rest)) start true st = .ok ((arg, rest), st) := by
  have hc := collectArg_bal q rest arg 0 [] h
  have he : arg.isEmpty = false := by cases arg <;> simp_all
  have e : argBufferPure T.mark (lbr p :: (arg ++ rbr q :: rest)) start true = { arg := arg, buf := rest } := by
    unfold argBufferPure
    rw [skipSpace_cons_of_not _ _ (by rfl)]
    have h1 : ((lbr p).kind == Kind.par) = false := by rfl
    have h2 : txtIsNV (lbr p) "{" = true := by simp [txtIsNV, lbr, isVerb]
    simp only [h1, h2, Bool.false_eq_true, if_false, Bool.not_true, Bool.and_false, if_true]
    have hc' : collectArg ['}'] 1 (arg ++ rbr q :: rest) [] = some (arg, rest) := by
      have : ((0 : Nat) : Int) + 1 = 1 := by omega
      rw [this] at hc; simpa using hc
    simp only [hc', he, Bool.false_eq_true, if_false]
  unfold argBuffer
  rw [e]
  rfl

/-! ### the definition step with a body that contains brace groups
    (`PlainMacroArgs.collectArgs_defN` … `seq_def_step` with "balanced" in place of "brace-free") -/

/-- `collectArgs` on `{\name}[d]{body}` for the signature `*AOOA` -/
theorem collectArgs_defB (T : PTables) (mac : MacroDef) (hd : mac.defaults = [])
    (p1 p2 p3 p4 p5 p6 p7 : Nat) (nameTok : Tok) (hname : NoBrace nameTok) (d : Char)
    (h1 : d ≠ ']') (h2 : d ≠ '{') (h3 : d ≠ '}') (b : List Tok)
    (hb : balToks 0 b = true) (hbne : b ≠ []) (rest : Buf) (start : Nat) (st : PState) :
    collectArgs T mac ['*', 'A', 'O', 'O', 'A'] 0
        (lbr p1 :: nameTok :: rbr p2 :: txtTok p3 '[' :: txtTok p4 d :: txtTok p5 ']' :: lbr p6 ::
          (b ++ rbr p7 :: rest)) start {} st
      = .ok (({ args := [[], [nameTok], [txtTok p4 d], [], b],
                extr := [[], [nameTok], [txtTok p4 d], [], b], langs := [] }, rest), st) := by
  have hl : ∀ p, isSpaceTok (lbr p) = false := fun _ => rfl
  have hl' : isSpaceTok (txtTok p3 '[') = false := rfl
  have a1 := argBuffer_brace T.toTables p1 p2 [nameTok]
    (txtTok p3 '[' :: txtTok p4 d :: txtTok p5 ']' :: lbr p6 :: (b ++ rbr p7 :: rest)) p1 st
    (by simpa using hname) (by simp)
  have a2 := argBuffer_bracket T.toTables p3 p4 p5 d h1 h2 h3 (lbr p6 :: (b ++ rbr p7 :: rest)) p3 st
  have a3 := argBuffer_bal T.toTables p6 p7 b rest p6 st hb hbne
  simp only [List.cons_append, List.nil_append] at a1
  -- '*'
  rw [collectArgs]
  simp only [skippedLangs_cons_of_not _ _ (hl p1), skipSpace_cons_of_not _ _ (hl p1), List.append_nil,
    List.head?_cons, beq_self_eq_true, if_true, show txtIsNV (lbr p1) "*" = false by rfl,
    Bool.false_eq_true, if_false]
  -- 'A'
  rw [collectArgs]
  simp only [skippedLangs_cons_of_not _ _ (hl p1), skipSpace_cons_of_not _ _ (hl p1), List.append_nil,
    List.head?_cons, show ('A' == '*') = false by decide, show ('A' == 'O') = false by decide,
    beq_self_eq_true, if_true, show txtIsNV (lbr p1) "}" = false by rfl, Bool.false_eq_true, if_false]
  refine (M.bind_ok _ _ _ _ _ a1).trans ?_
  -- 'O': `[d]`
  rw [collectArgs]
  simp only [skippedLangs_cons_of_not _ _ hl', skipSpace_cons_of_not _ _ hl', List.append_nil,
    List.head?_cons, show ('O' == '*') = false by decide, beq_self_eq_true, if_true,
    show txtIsNV (txtTok p3 '[') "[" = true by rfl]
  refine (M.bind_ok _ _ _ _ _ a2).trans ?_
  -- 'O': no default
  rw [collectArgs]
  simp only [skippedLangs_cons_of_not _ _ (hl p6), skipSpace_cons_of_not _ _ (hl p6), List.append_nil,
    List.head?_cons, show ('O' == '*') = false by decide, beq_self_eq_true, if_true,
    show txtIsNV (lbr p6) "[" = false by rfl, Bool.false_eq_true, if_false, hd, List.getElem?_nil]
  -- 'A'
  rw [collectArgs]
  simp only [skippedLangs_cons_of_not _ _ (hl p6), skipSpace_cons_of_not _ _ (hl p6), List.append_nil,
    List.head?_cons, show ('A' == '*') = false by decide, show ('A' == 'O') = false by decide,
    beq_self_eq_true, if_true, show txtIsNV (lbr p6) "}" = false by rfl, Bool.false_eq_true, if_false]
  refine (M.bind_ok _ _ _ _ _ a3).trans ?_
  rw [collectArgs]
  rfl

theorem expandArguments_defB (T : PTables) (fuel : Nat) (mac : MacroDef) (hmac : ncDeclOk mac = true)
    (p1 p2 p3 p4 p5 p6 p7 : Nat) (nameTok : Tok) (hname : NoBrace nameTok) (hk : nameTok.kind ≠ .comment)
    (d : Char) (n : Nat) (h1 : d ≠ ']') (hdv : decimalValue T.decimalZeros d = some n)
    (b : List Tok) (hb : balToks 0 b = true) (hbr : RefsOk n b) (hbne : b ≠ [])
    (rest : Buf) (start : Nat) (st : PState) (hdp : PlainTok (txtTok p4 d))
    (hda : (activeChars T st).contains [d] = false)
    (hign : st.newcommandIgnore.contains nameTok.txt = false) :
    expandArguments T (fuel + 5)
        (lbr p1 :: nameTok :: rbr p2 :: txtTok p3 '[' :: txtTok p4 d :: txtTok p5 ']' :: lbr p6 ::
          (b ++ rbr p7 :: rest)) mac start st
      = .ok (([mkAction start], rest),
             { st with macros := setMacro st.macros (userMacro nameTok.txt n b) }) := by
  obtain ⟨ha, hh, hd, he⟩ := ncDeclOk_facts hmac
  have hnb := plainTok_noBrace hdp
  have h2 : d ≠ '{' := by
    intro e; have := hnb.1; simp [txtIsNV, txtTok, isVerb, e] at this
  have h3 : d ≠ '}' := by
    intro e; have := hnb.2; simp [txtIsNV, txtTok, isVerb, e] at this
  rw [expandArguments.eq_2, ha]
  refine (M.bind_ok _ _ _ _ _
    (collectArgs_defB T mac hd p1 p2 p3 p4 p5 p6 p7 nameTok hname d h1 h2 h3 b hb hbne rest start st)).trans ?_
  simp only [he, hh, List.isEmpty_nil, Bool.not_true, Bool.false_eq_true, if_false,
    show (Handler.newcommand != Handler.none) = true by decide, if_true]
  refine (M.bind_ok _ _ _ _ _
    (callHandler_newcommandN T fuel rest mac nameTok hk p4 d n hdv b hbr start st hdp hda hign)).trans ?_
  rfl

/-- **the definition step of `expandMacro`**: `\newcommand` followed by `{\name}[d]{body}` stores
    the macro, leaves an Action token at the position of `\newcommand` and the buffer behind the
    closing brace -/
theorem expandMacro_defB (T : PTables) (fuel : Nat) (mac : MacroDef) (hmac : ncDeclOk mac = true)
    (p1 p2 p3 p4 p5 p6 p7 : Nat) (nameTok : Tok) (hname : NoBrace nameTok) (hk : nameTok.kind ≠ .comment)
    (d : Char) (n : Nat) (h1 : d ≠ ']') (hdv : decimalValue T.decimalZeros d = some n)
    (b : List Tok) (hb : balToks 0 b = true) (hbr : RefsOk n b) (hbne : b ≠ [])
    (rest : Buf) (tok : Tok) (st : PState) (hdp : PlainTok (txtTok p4 d))
    (hda : (activeChars T st).contains [d] = false)
    (hl : lookupMacro st tok.txt = some mac)
    (hign : st.newcommandIgnore.contains nameTok.txt = false) :
    expandMacro T (fuel + 6)
        (lbr p1 :: nameTok :: rbr p2 :: txtTok p3 '[' :: txtTok p4 d :: txtTok p5 ']' :: lbr p6 ::
          (b ++ rbr p7 :: rest)) tok false st
      = .ok (([mkAction tok.pos], rest),
             { st with macros := setMacro st.macros (userMacro nameTok.txt n b) }) := by
  rw [expandMacro.eq_2]
  refine (M.bind_ok _ _ _ _ _ (rfl : M.get st = _)).trans ?_
  simp only [hl, skipSpaceStopLang_cons_of_not _ _ (rfl : isSpaceTok (lbr p1) = false)]
  exact expandArguments_defB T fuel mac hmac p1 p2 p3 p4 p5 p6 p7 nameTok hname hk d n h1 hdv b hb hbr hbne
    rest tok.pos st hdp hda hign

/-- the parser state while the document is expanded, relative to the initialised state `st1`:
    declared macros keep their meaning (what the user macros are is said by `Rel` in
    Proofs/PlainDefTexNest.lean) -/
structure StOkN (st1 st : PState) : Prop where
  lang : st.langStack = st1.langStack
  ign : st.newcommandIgnore = st1.newcommandIgnore
  decl : ∀ nm m, lookupMacro st1 nm = some m → lookupMacro st nm = some m

/-- the state after a definition -/
def defSt (st : PState) (name : Str) (n : Nat) (body : List Tok) : PState :=
  { st with macros := setMacro st.macros (userMacro ('\\' :: name) n body) }

theorem StOkN.defSt {st1 st : PState} (h : StOkN st1 st) (name : Str) (n : Nat)
    (body : List Tok) (hn : NameOk st1 name) : StOkN st1 (defSt st name n body) := by
  refine ⟨h.lang, h.ign, ?_⟩
  intro nm m hm
  rw [PlainDefTexNest.defSt, lookup_setMacro]
  have : (userMacro ('\\' :: name) n body).name ≠ nm := by
    intro e
    have : lookupMacro st1 nm = none := by rw [← e]; exact hn.undecl
    rw [this] at hm; cases hm
  rw [if_neg (by simpa using this)]
  exact h.decl nm m hm

theorem noEmptyActive_of_StOkN {T : PTables} {st1 st : PState} (h : StOkN st1 st)
    (ha : noEmptyActive T st1 = true) : noEmptyActive T st = true :=
  (noEmptyActive_congr T st1 st h.lang).trans ha

/-- **the definition step of `expandSequence`** (two iterations) for a body with balanced braces -/
theorem seq_defB_step (T : PTables) (fuel : Nat) (p q1 q2 q3 q4 q5 q6 q7 q8 : Nat) (name : Str) (n : Nat)
    (body : List Tok) (rest : Buf) (envStop : Option Str) (out : List Tok) (st1 st : PState)
    (hst : StOkN st1 st) (hnc : NcOk st1) (hn : NameOk st1 name) (hd : DigitOk T st1 n)
    (hbal : balToks 0 body = true) (hbne : body ≠ []) (hbr : RefsOk n body)
    (ha : noEmptyActive T st1 = true) :
    expandSequence T (fuel + 7)
        (cwTok p ncName :: lbr q1 :: cwTok q2 name :: rbr q3 :: txtTok q4 '[' :: txtTok q5 (digitChar n) ::
          txtTok q6 ']' :: lbr q7 :: (body ++ rbr q8 :: rest))
        envStop out st
      = expandSequence T (fuel + 5) rest envStop (out ++ [mkAction p]) (defSt st name n body) := by
  obtain ⟨m, hm, hmd⟩ := hnc
  have hm' : lookupMacro st (cwTok p ncName).txt = some m := hst.decl _ _ hm
  have hign : st.newcommandIgnore.contains (cwTok q2 name).txt = false := by
    rw [hst.ign]; exact hn.nIgn
  have hda : (activeChars T st).contains [digitChar n] = false := by
    rw [activeChars_congr T st1 st hst.lang]; exact hd.nAct
  have hmac := expandMacro_defB T fuel m hmd q1 q3 q4 q5 q6 q7 q8 (cwTok q2 name) (cwTok_noBrace q2 name)
    (by simp [cwTok]) (digitChar n) n hd.nBr hd.val body hbal hbr hbne
    rest (cwTok p ncName) st (hd.plain q5) hda hm' hign
  rw [expandSequence.eq_3]
  show M.bind' M.get _ st = _
  simp only [M.bind', M.get]
  have hk : (cwTok p ncName).kind = .xmacro := rfl
  have hdf : txtIs (cwTok p ncName) "\\def" = false := by
    have : ('\\' :: ncName) ≠ sDef := by decide
    simpa [txtIs, cwTok, sDef] using this
  simp only [hk, hdf, Bool.false_eq_true, if_false, if_true, reduceCtorEq, beq_iff_eq, beq_self_eq_true]
  refine (M.bind_ok _ _ _ _ _ hmac).trans ?_
  simp only [List.singleton_append]
  exact seq_action_step T (fuel + 5) p rest envStop out _
    (noEmptyActive_of_StOkN (hst.defSt name n body hn) ha)

/-! ### THE REFERENCE MACHINE

  The reference for nested uses is an abstract machine on *positioned elements*: what `\outer{x}` means
  is found by instantiating the body of `\outer` (`inst`), and evaluating the result from left to right
  (`evalPE`), a macro name being replaced by the instantiated body of its definition in force; the
  result is re-read ("nested uses expand fully").  Everything carries source positions. -/

/-- a positioned element -/
inductive PE where
  /-- literal text of a body; every character is pinned to the position `p` -/
  | text (s : Str) (p : Nat)
  /-- the text of an argument written in the document; its characters are at `q`, `q+1`, … -/
  | arg (q : Nat) (s : Str)
  /-- an Action mark that remembers the position `p` -/
  | act (p : Nat)
  /-- a macro name, pinned to `p` -/
  | cs (name : Str) (p : Nat)
  /-- braces, pinned to `p` -/
  | lb (p : Nat)
  | rb (p : Nat)
  /-- white space of the document at `q` (one token) in front of an argument -/
  | sp (q : Nat) (s : Str)
  /-- a visible character of the document at `q` (one token): an unbraced argument -/
  | chr (c : Char) (q : Nat)
deriving Repr, DecidableEq

/-- the position `generate_replacements` sees at the front / at the end of an element -/
def PE.hd : PE → Nat
  | .text _ p => p | .arg q _ => q | .act p => p | .cs _ p => p | .lb p => p | .rb p => p
  | .sp q _ => q | .chr _ q => q
def PE.lst : PE → Nat
  | .text _ p => p | .arg q s => q + lastTokStart s | .act p => p | .cs _ p => p | .lb p => p | .rb p => p
  | .sp q _ => q | .chr _ q => q

def hdOf (v : List PE) : Nat := match v.head? with | some e => e.hd | none => 0
def lstOf (v : List PE) : Nat := match v.getLast? with | some e => e.lst | none => 0

/-- a piece of a body: literal text, a reference `#k`, a macro name, a brace -/
inductive NP where
  | lit (s : Str)
  | par (k : Nat)
  | cs (name : Str)
  | lb
  | rb
deriving Repr, DecidableEq

/-- the k-th value (1-based) -/
def valAt (vals : List (List PE)) (k : Nat) : List PE := (vals[k - 1]?).getD []

/-- where the pieces in front of the first `#k` are pinned: the front of the value that is referenced
    LAST in the body; `cur` (the position of the call) if the body has no `#k` -/
def instCur (vals : List (List PE)) : List NP → Nat → Nat
  | [], cur => cur
  | .par k :: r, _ => instCur vals r (hdOf (valAt vals k))
  | .lit _ :: r, cur => instCur vals r cur
  | .cs _ :: r, cur => instCur vals r cur
  | .lb :: r, cur => instCur vals r cur
  | .rb :: r, cur => instCur vals r cur

/-- the body with the values substituted: literal text, names and braces are pinned to `cur`; `#k`
    is the k-th value between two Action marks, and `cur` moves to the end of that value -/
def inst (vals : List (List PE)) : List NP → Nat → List PE
  | [], _ => []
  | .lit s :: r, cur => .text s cur :: inst vals r cur
  | .par k :: r, _ =>
    .act (hdOf (valAt vals k)) :: (valAt vals k ++ .act (lstOf (valAt vals k)) :: inst vals r (lstOf (valAt vals k)))
  | .cs name :: r, cur => .cs name cur :: inst vals r cur
  | .lb :: r, cur => .lb cur :: inst vals r cur
  | .rb :: r, cur => .rb cur :: inst vals r cur

/-- the elements up to the brace that closes the group (`d` inner braces are open) -/
def splitGroup : Nat → List PE → Option (List PE × List PE)
  | _, [] => none
  | d, .lb p :: r => (splitGroup (d + 1) r).map (fun x => (.lb p :: x.1, x.2))
  | 0, .rb _ :: r => some ([], r)
  | d + 1, .rb p :: r => (splitGroup d r).map (fun x => (.rb p :: x.1, x.2))
  | d, .text s p :: r => (splitGroup d r).map (fun x => (.text s p :: x.1, x.2))
  | d, .arg q s :: r => (splitGroup d r).map (fun x => (.arg q s :: x.1, x.2))
  | d, .act p :: r => (splitGroup d r).map (fun x => (.act p :: x.1, x.2))
  | d, .cs n p :: r => (splitGroup d r).map (fun x => (.cs n p :: x.1, x.2))
  | d, .sp q s :: r => (splitGroup d r).map (fun x => (.sp q s :: x.1, x.2))
  | d, .chr c q :: r => (splitGroup d r).map (fun x => (.chr c q :: x.1, x.2))

/-- white space of the document in front is skipped -/
def dropSp : List PE → List PE
  | .sp _ _ :: r => dropSp r
  | r => r

/-- one argument: a non-empty brace group, or one visible character of the document -/
def takeArg : List PE → Option (List PE × List PE)
  | .lb _ :: r =>
    match splitGroup 0 r with
    | some (g, r') => if g.isEmpty then none else some (g, r')
    | none => none
  | .chr c q :: r => some ([.chr c q], r)
  | _ => none

/-- `n` arguments, each possibly behind white space of the document -/
def takeGroups : Nat → List PE → Option (List (List PE) × List PE)
  | 0, r => some ([], r)
  | n + 1, r =>
    match takeArg (dropSp r) with
    | some (g, r') => (takeGroups n r').map (fun x => (g :: x.1, x.2))
    | none => none

/-- the definitions in force: name (without backslash), number of parameters, body; latest first -/
abbrev EnvN := List (Str × Nat × List NP)

def lookupDefN (env : EnvN) (name : Str) : Option (Nat × List NP) := (env.find? (·.1 == name)).map (·.2)

/-- what may follow a macro name (behind white space of the document): an Action mark, a name, a brace
    or a visible character of the document (the model skips white space there, also in literal text
    of a body and beyond the end of the expansion — not covered) -/
def noSkip : List PE → Bool
  | .act _ :: _ => true
  | .cs _ _ :: _ => true
  | .lb _ :: _ => true
  | .rb _ :: _ => true
  | .chr _ _ :: _ => true
  | _ => false

/-- **evaluation**, one unit of fuel per element: text yields its characters; an Action mark and a
    brace yield a mark; a name yields a mark and is replaced by the instantiated body of its
    definition in force (`none` = not covered: name undefined, too few groups directly behind it, an
    empty group) -/
def evalPE (env : EnvN) : Nat → List PE → Option (List Mark)
  | 0, _ => none
  | _ + 1, [] => some []
  | f + 1, .text s p :: r => (evalPE env f r).map (s.map (fun c => some (c, p)) ++ ·)
  | f + 1, .arg q s :: r => (evalPE env f r).map ((posText q s).map some ++ ·)
  | f + 1, .act _ :: r => (evalPE env f r).map (none :: ·)
  | f + 1, .lb _ :: r => (evalPE env f r).map (none :: ·)
  | f + 1, .rb _ :: r => (evalPE env f r).map (none :: ·)
  | f + 1, .sp q s :: r => (evalPE env f r).map ((posText q s).map some ++ ·)
  | f + 1, .chr c q :: r => (evalPE env f r).map (some (c, q) :: ·)
  | f + 1, .cs name p :: r =>
    match lookupDefN env name with
    | none => none
    | some (n, body) =>
      if body.isEmpty || !noSkip (dropSp r) then none else
      match takeGroups n (dropSp r) with
      | none => none
      | some (vals, r') => (evalPE env f (inst vals body (instCur vals body p) ++ r')).map (none :: ·)

/-! ### tokens that represent positioned elements -/

/-- a macro name that may be called: not `\\def`, not declared in the initialised parser -/
structure CsOk (st1 : PState) (name : Str) : Prop where
  nDef : ('\\' :: name) ≠ sDef
  undecl : lookupMacro st1 ('\\' :: name) = none

theorem CsOk.of_nameOk {st1 : PState} {name : Str} (h : NameOk st1 name) : CsOk st1 name := ⟨h.nDef, h.undecl⟩

/-- `toks` represents the elements `pes` (`sp`: one space token of the document; `chr`: one text token
    of one visible character of the document):
    * `text s p`: one or more plain, never active tokens that spell `s`, re-stamped to `p`;
    * `arg q s`: the tokens of an argument of the document (`ArgFacts`: they spell `s` from `q` on);
    * `act p`: an Action token; `cs`, `lb`, `rb`: a macro token / brace token at that position -/
inductive TR (T : PTables) (st1 : PState) : List Tok → List PE → Prop
  | nil : TR T st1 [] []
  | text (ts : List Tok) (s : Str) (p : Nat) (toks : List Tok) (pes : List PE) :
      ts ≠ [] → (∀ t ∈ ts, PlainTok t ∧ Shape t ∧ (activeChars T st1).contains t.txt = false) →
      bodyTxt ts = s → TR T st1 toks pes → TR T st1 (ts.map (restamp p) ++ toks) (.text s p :: pes)
  | arg (ts : List Tok) (q : Nat) (s : Str) (toks : List Tok) (pes : List PE) :
      ts ≠ [] → ArgFacts q s ts → (∀ t ∈ ts, PlainTok t ∧ (activeChars T st1).contains t.txt = false) →
      TR T st1 toks pes → TR T st1 (ts ++ toks) (.arg q s :: pes)
  | act (p : Nat) (toks : List Tok) (pes : List PE) :
      TR T st1 toks pes → TR T st1 (mkAction p :: toks) (.act p :: pes)
  | cs (t : Tok) (name : Str) (toks : List Tok) (pes : List PE) :
      t.kind = .xmacro → t.txt = '\\' :: name → CsOk st1 name →
      TR T st1 toks pes → TR T st1 (t :: toks) (.cs name t.pos :: pes)
  | lb (t : Tok) (toks : List Tok) (pes : List PE) :
      t.kind = .special → t.txt = ['{'] → TR T st1 toks pes → TR T st1 (t :: toks) (.lb t.pos :: pes)
  | rb (t : Tok) (toks : List Tok) (pes : List PE) :
      t.kind = .special → t.txt = ['}'] → TR T st1 toks pes → TR T st1 (t :: toks) (.rb t.pos :: pes)
  | sp (t : Tok) (toks : List Tok) (pes : List PE) :
      t.kind = .space → t.fix = false → PlainTok t → Shape t → (activeChars T st1).contains t.txt = false →
      TR T st1 toks pes → TR T st1 (t :: toks) (.sp t.pos t.txt :: pes)
  | chr (t : Tok) (c : Char) (toks : List Tok) (pes : List PE) :
      t.kind = .text → t.txt = [c] → t.fix = false → PlainTok t → Shape t →
      (activeChars T st1).contains t.txt = false →
      TR T st1 toks pes → TR T st1 (t :: toks) (.chr c t.pos :: pes)

theorem TR_append {T : PTables} {st1 : PState} {a : List Tok} {x : List PE} (h : TR T st1 a x)
    {b : List Tok} {y : List PE} (h2 : TR T st1 b y) : TR T st1 (a ++ b) (x ++ y) := by
  induction h with
  | nil => exact h2
  | text ts s p toks pes h1 h3 h4 _ ih => rw [List.append_assoc]; exact .text ts s p _ _ h1 h3 h4 ih
  | arg ts q s toks pes h1 h3 h4 _ ih => rw [List.append_assoc]; exact .arg ts q s _ _ h1 h3 h4 ih
  | act p toks pes _ ih => exact .act p _ _ ih
  | cs t name toks pes h1 h3 h4 _ ih => exact .cs t name _ _ h1 h3 h4 ih
  | lb t toks pes h1 h3 _ ih => exact .lb t _ _ h1 h3 ih
  | rb t toks pes h1 h3 _ ih => exact .rb t _ _ h1 h3 ih
  | sp t toks pes h1 h3 h4 h5 h6 _ ih => exact .sp t _ _ h1 h3 h4 h5 h6 ih
  | chr t c toks pes h1 h3 h4 h5 h6 h7 _ ih => exact .chr t c _ _ h1 h3 h4 h5 h6 h7 ih

theorem TR_ne {T : PTables} {st1 : PState} {toks : List Tok} {pes : List PE} (h : TR T st1 toks pes) :
    (toks = [] ↔ pes = []) := by
  cases h with
  | nil => simp
  | text ts s p toks pes h1 _ _ _ => cases ts <;> simp_all
  | arg ts q s toks pes h1 _ _ _ => cases ts <;> simp_all
  | act => simp
  | cs => simp
  | lb => simp
  | rb => simp
  | sp => simp
  | chr => simp

theorem headPos_append (a b : List Tok) (h : a ≠ []) : headPos (a ++ b) = headPos a := by
  cases a with
  | nil => exact absurd rfl h
  | cons x xs => rfl

theorem lastPos_append (a b : List Tok) (h : b ≠ []) : lastPos (a ++ b) = lastPos b := by
  simp only [lastPos, List.getLast?_append]
  cases hb : b.getLast? with
  | none => exact absurd (List.getLast?_eq_none_iff.mp hb) h
  | some x => rfl

theorem lastPos_cons (t : Tok) (b : List Tok) (h : b ≠ []) : lastPos (t :: b) = lastPos b :=
  lastPos_append [t] b h

theorem lstOf_cons (e : PE) (b : List PE) (h : b ≠ []) : lstOf (e :: b) = lstOf b := by
  cases b with
  | nil => exact absurd rfl h
  | cons x xs => simp [lstOf, List.getLast?_cons_cons]

theorem lastPos_map_restamp (p : Nat) (ts : List Tok) (h : ts ≠ []) : lastPos (ts.map (restamp p)) = p := by
  simp only [lastPos, List.getLast?_map]
  cases hl : ts.getLast? with
  | none => exact absurd (List.getLast?_eq_none_iff.mp hl) h
  | some x => rfl

theorem TR_head {T : PTables} {st1 : PState} {toks : List Tok} {pes : List PE} (h : TR T st1 toks pes)
    (hne : pes ≠ []) : headPos toks = hdOf pes := by
  cases h with
  | nil => exact absurd rfl hne
  | text ts s p toks pes h1 _ _ _ =>
    rw [headPos_append _ _ (by simpa using h1)]
    cases ts with
    | nil => exact absurd rfl h1
    | cons x xs => rfl
  | arg ts q s toks pes h1 hF _ _ =>
    rw [headPos_append _ _ h1, hF.head]; rfl
  | act => rfl
  | cs => rfl
  | lb => rfl
  | rb => rfl
  | sp => rfl
  | chr => rfl

theorem TR_last {T : PTables} {st1 : PState} {toks : List Tok} {pes : List PE} (h : TR T st1 toks pes) :
    pes ≠ [] → lastPos toks = lstOf pes := by
  induction h with
  | nil => intro hne; exact absurd rfl hne
  | text ts s p toks pes h1 _ _ htr ih =>
    intro _
    by_cases hp : pes = []
    · subst hp
      have := (TR_ne htr).mpr rfl
      subst this
      rw [List.append_nil, lastPos_map_restamp p ts h1]; rfl
    · rw [lastPos_append _ _ (fun e => hp ((TR_ne htr).mp e)), lstOf_cons _ _ hp]; exact ih hp
  | arg ts q s toks pes h1 hF _ htr ih =>
    intro _
    by_cases hp : pes = []
    · subst hp
      have := (TR_ne htr).mpr rfl
      subst this
      rw [List.append_nil, hF.last]; rfl
    · rw [lastPos_append _ _ (fun e => hp ((TR_ne htr).mp e)), lstOf_cons _ _ hp]; exact ih hp
  | act p toks pes htr ih =>
    intro _
    by_cases hp : pes = []
    · subst hp
      have := (TR_ne htr).mpr rfl
      subst this
      rfl
    · rw [lastPos_cons _ _ (fun e => hp ((TR_ne htr).mp e)), lstOf_cons _ _ hp]; exact ih hp
  | cs t name toks pes _ _ _ htr ih =>
    intro _
    by_cases hp : pes = []
    · subst hp
      have := (TR_ne htr).mpr rfl
      subst this
      rfl
    · rw [lastPos_cons _ _ (fun e => hp ((TR_ne htr).mp e)), lstOf_cons _ _ hp]; exact ih hp
  | lb t toks pes _ _ htr ih =>
    intro _
    by_cases hp : pes = []
    · subst hp
      have := (TR_ne htr).mpr rfl
      subst this
      rfl
    · rw [lastPos_cons _ _ (fun e => hp ((TR_ne htr).mp e)), lstOf_cons _ _ hp]; exact ih hp
  | rb t toks pes _ _ htr ih =>
    intro _
    by_cases hp : pes = []
    · subst hp
      have := (TR_ne htr).mpr rfl
      subst this
      rfl
    · rw [lastPos_cons _ _ (fun e => hp ((TR_ne htr).mp e)), lstOf_cons _ _ hp]; exact ih hp
  | sp t toks pes _ _ _ _ _ htr ih =>
    intro _
    by_cases hp : pes = []
    · subst hp
      have := (TR_ne htr).mpr rfl
      subst this
      rfl
    · rw [lastPos_cons _ _ (fun e => hp ((TR_ne htr).mp e)), lstOf_cons _ _ hp]; exact ih hp
  | chr t c toks pes _ _ _ _ _ _ htr ih =>
    intro _
    by_cases hp : pes = []
    · subst hp
      have := (TR_ne htr).mpr rfl
      subst this
      rfl
    · rw [lastPos_cons _ _ (fun e => hp ((TR_ne htr).mp e)), lstOf_cons _ _ hp]; exact ih hp

/-! ### brace groups: `splitGroup` / `takeGroups` against `collectArg` / `collectArgs` -/

theorem collectArg_skip (R : Buf) : ∀ (ts : List Tok) (lev : Int) (acc : List Tok), (∀ t ∈ ts, NoBrace t) →
    collectArg ['}'] lev (ts ++ R) acc = collectArg ['}'] lev R (ts.reverse ++ acc)
  | [], _, _, _ => rfl
  | t :: ts, lev, acc, h => by
    obtain ⟨h1, h2⟩ := h t (List.mem_cons_self ..)
    have h2' : (!isVerb t && t.txt == ['}']) = false := h2
    simp only [List.cons_append, collectArg, h1, h2, h2', Bool.false_eq_true, if_false, Bool.false_and]
    rw [collectArg_skip R ts lev (t :: acc) (fun x hx => h x (List.mem_cons_of_mem _ hx))]
    simp

theorem noBrace_mkAction (p : Nat) : NoBrace (mkAction p) := by
  constructor <;> simp [txtIsNV, mkAction]

theorem noBrace_cs {t : Tok} {name : Str} (h : t.txt = '\\' :: name) : NoBrace t := by
  constructor <;> simp [txtIsNV, h]

theorem split_collect {T : PTables} {st1 : PState} {toks : List Tok} {r : List PE} (h : TR T st1 toks r) :
    ∀ (d : Nat) (g r2 : List PE), splitGroup d r = some (g, r2) →
      ∃ gt toks2, TR T st1 gt g ∧ TR T st1 toks2 r2 ∧
        ∀ acc, collectArg ['}'] ((d : Int) + 1) toks acc = some (acc.reverse ++ gt, toks2) := by
  induction h with
  | nil => intro d g r2 hs; simp [splitGroup] at hs
  | text ts s p toks pes h1 h3 h4 _ ih =>
    intro d g r2 hs
    simp only [splitGroup, Option.map_eq_some_iff] at hs
    obtain ⟨⟨g', r'⟩, hs', he⟩ := hs
    cases he
    obtain ⟨gt, toks2, i1, i2, i3⟩ := ih d _ _ hs'
    refine ⟨ts.map (restamp p) ++ gt, toks2, .text ts s p _ _ h1 h3 h4 i1, i2, ?_⟩
    intro acc
    rw [collectArg_skip _ _ _ _ (by
      intro t ht
      obtain ⟨u, hu, rfl⟩ := List.mem_map.mp ht
      exact plainTok_noBrace (plainTok_restamp p u (h3 u hu).1)), i3]
    simp
  | arg ts q s toks pes h1 h3 h4 _ ih =>
    intro d g r2 hs
    simp only [splitGroup, Option.map_eq_some_iff] at hs
    obtain ⟨⟨g', r'⟩, hs', he⟩ := hs
    cases he
    obtain ⟨gt, toks2, i1, i2, i3⟩ := ih d _ _ hs'
    refine ⟨ts ++ gt, toks2, .arg ts q s _ _ h1 h3 h4 i1, i2, ?_⟩
    intro acc
    rw [collectArg_skip _ _ _ _ (fun t ht => plainTok_noBrace (h4 t ht).1), i3]
    simp
  | act p toks pes _ ih =>
    intro d g r2 hs
    simp only [splitGroup, Option.map_eq_some_iff] at hs
    obtain ⟨⟨g', r'⟩, hs', he⟩ := hs
    cases he
    obtain ⟨gt, toks2, i1, i2, i3⟩ := ih d _ _ hs'
    refine ⟨mkAction p :: gt, toks2, .act p _ _ i1, i2, ?_⟩
    intro acc
    have := collectArg_skip toks [mkAction p] ((d : Int) + 1) acc (by simpa using noBrace_mkAction p)
    simp only [List.singleton_append, List.reverse_singleton] at this
    rw [this, i3]
    simp
  | cs t name toks pes h1 h3 h4 _ ih =>
    intro d g r2 hs
    simp only [splitGroup, Option.map_eq_some_iff] at hs
    obtain ⟨⟨g', r'⟩, hs', he⟩ := hs
    cases he
    obtain ⟨gt, toks2, i1, i2, i3⟩ := ih d _ _ hs'
    refine ⟨t :: gt, toks2, .cs t name _ _ h1 h3 h4 i1, i2, ?_⟩
    intro acc
    have := collectArg_skip toks [t] ((d : Int) + 1) acc (by simpa using noBrace_cs h3)
    simp only [List.singleton_append, List.reverse_singleton] at this
    rw [this, i3]
    simp
  | lb t toks pes h1 h3 _ ih =>
    intro d g r2 hs
    simp only [splitGroup, Option.map_eq_some_iff] at hs
    obtain ⟨⟨g', r'⟩, hs', he⟩ := hs
    cases he
    obtain ⟨gt, toks2, i1, i2, i3⟩ := ih (d + 1) _ _ hs'
    refine ⟨t :: gt, toks2, .lb t _ _ h1 h3 i1, i2, ?_⟩
    intro acc
    have hv : isVerb t = false := by simp [isVerb, h1]
    have e1 : txtIsNV t "{" = true := by simp [txtIsNV, hv, h3]
    have e2 : txtIsNV t "}" = false := by simp [txtIsNV, h3]
    have e2' : (!isVerb t && t.txt == ['}']) = false := e2
    simp only [collectArg, e1, e2, e2', if_true, Bool.false_eq_true, if_false, Bool.false_and]
    rw [show ((d : Int) + 1 + 1) = ((d + 1 : Nat) : Int) + 1 by omega, i3]
    simp
  | rb t toks pes h1 h3 htr ih =>
    intro d g r2 hs
    have hv : isVerb t = false := by simp [isVerb, h1]
    have e1 : txtIsNV t "{" = false := by simp [txtIsNV, h3]
    have e2 : txtIsNV t "}" = true := by simp [txtIsNV, hv, h3]
    have e2' : (!isVerb t && t.txt == ['}']) = true := e2
    cases d with
    | zero =>
      simp only [splitGroup, Option.some.injEq, Prod.mk.injEq] at hs
      obtain ⟨rfl, rfl⟩ := hs
      refine ⟨[], toks, .nil, htr, ?_⟩
      intro acc
      simp [collectArg, e1, e2, e2']
    | succ d' =>
      simp only [splitGroup, Option.map_eq_some_iff] at hs
      obtain ⟨⟨g', r'⟩, hs', he⟩ := hs
      cases he
      obtain ⟨gt, toks2, i1, i2, i3⟩ := ih d' _ _ hs'
      refine ⟨t :: gt, toks2, .rb t _ _ h1 h3 i1, i2, ?_⟩
      intro acc
      have hz : (((d' + 1 : Nat) : Int) + 1 - 1 == 0) = false := by
        simp; omega
      simp only [collectArg, e1, e2, e2', if_true, Bool.false_eq_true, if_false, hz, Bool.and_false]
      rw [show (((d' + 1 : Nat) : Int) + 1 - 1) = (d' : Int) + 1 by omega, i3]
      simp
  | sp t toks pes h1 h3 h4 h5 h6 _ ih =>
    intro d g r2 hs
    simp only [splitGroup, Option.map_eq_some_iff] at hs
    obtain ⟨⟨g', r'⟩, hs', he⟩ := hs
    cases he
    obtain ⟨gt, toks2, i1, i2, i3⟩ := ih d _ _ hs'
    refine ⟨t :: gt, toks2, .sp t _ _ h1 h3 h4 h5 h6 i1, i2, ?_⟩
    intro acc
    have := collectArg_skip toks [t] ((d : Int) + 1) acc (by simpa using plainTok_noBrace h4)
    simp only [List.singleton_append, List.reverse_singleton] at this
    rw [this, i3]
    simp
  | chr t c toks pes h1 h3 h4 h5 h6 h7 _ ih =>
    intro d g r2 hs
    simp only [splitGroup, Option.map_eq_some_iff] at hs
    obtain ⟨⟨g', r'⟩, hs', he⟩ := hs
    cases he
    obtain ⟨gt, toks2, i1, i2, i3⟩ := ih d _ _ hs'
    refine ⟨t :: gt, toks2, .chr t c _ _ h1 h3 h4 h5 h6 h7 i1, i2, ?_⟩
    intro acc
    have := collectArg_skip toks [t] ((d : Int) + 1) acc (by simpa using plainTok_noBrace h5)
    simp only [List.singleton_append, List.reverse_singleton] at this
    rw [this, i3]
    simp

theorem collectArg_append (e : Str) (rest : Buf) : ∀ (a : List Tok) (lev : Int) (acc x y : List Tok),
    collectArg e lev a acc = some (x, y) → collectArg e lev (a ++ rest) acc = some (x, y ++ rest)
  | [], _, _, _, _, h => by simp [collectArg] at h
  | t :: ts, lev, acc, x, y, h => by
    have key : ∀ (c : Bool) (l : Int),
        (if c = true then some (acc.reverse, ts) else collectArg e l ts (t :: acc)) = some (x, y) →
        (if c = true then some (acc.reverse, ts ++ rest) else collectArg e l (ts ++ rest) (t :: acc))
          = some (x, y ++ rest) := by
      intro c l h
      cases c
      · simpa using collectArg_append e rest ts l (t :: acc) x y (by simpa using h)
      · simp only [if_true, Option.some.injEq, Prod.mk.injEq] at h ⊢
        exact ⟨h.1, by rw [h.2]⟩
    simp only [collectArg, List.cons_append] at h ⊢
    exact key _ _ h

theorem argBuffer_group (T : Tables) (t : Tok) (hk : t.kind = .special) (ht : t.txt = ['{']) (buf : Buf)
    (gt buf2 : List Tok) (hc : collectArg ['}'] 1 buf [] = some (gt, buf2)) (hne : gt ≠ [])
    (start : Nat) (st : PState) :
    argBuffer T (t :: buf) start true st = .ok ((gt, buf2), st) := by
  have hs : isSpaceTok t = false := by simp [isSpaceTok, hk]
  have hv : isVerb t = false := by simp [isVerb, hk]
  have he : gt.isEmpty = false := by cases gt <;> simp_all
  have e : argBufferPure T.mark (t :: buf) start true = { arg := gt, buf := buf2 } := by
    unfold argBufferPure
    rw [skipSpace_cons_of_not _ _ hs]
    have h1 : (t.kind == Kind.par) = false := by simp [hk]
    have h2 : txtIsNV t "{" = true := by simp [txtIsNV, hv, ht]
    simp only [h1, h2, Bool.false_eq_true, if_false, Bool.not_true, Bool.and_false, if_true, hc, he]
  unfold argBuffer
  rw [e]
  rfl

/-- pointwise `TR` -/
def AllTR (T : PTables) (st1 : PState) : List (List Tok) → List (List PE) → Prop
  | [], [] => True
  | a :: as, v :: vs => TR T st1 a v ∧ AllTR T st1 as vs
  | _, _ => False

theorem argBuffer_single (T : Tables) (t : Tok) (hk : t.kind = .text) (hp : PlainTok t) (buf : Buf)
    (start : Nat) (st : PState) :
    argBuffer T (t :: buf) start true st = .ok (([t], buf), st) := by
  have hs : isSpaceTok t = false := by simp [isSpaceTok, hk]
  have h6 := (plainTok_noBrace hp).1
  have e : argBufferPure T.mark (t :: buf) start true = { arg := [t], buf := buf } := by
    unfold argBufferPure
    rw [skipSpace_cons_of_not _ _ hs]
    have h1 : (t.kind == Kind.par) = false := by simp [hk]
    simp only [h1, h6, Bool.false_eq_true, if_false, Bool.not_false, Bool.and_self, if_true]
  unfold argBuffer
  rw [e]
  rfl

theorem dropSp_idem : ∀ r : List PE, dropSp (dropSp r) = dropSp r
  | [] => rfl
  | .sp _ _ :: r => by simp only [dropSp]; exact dropSp_idem r
  | .text _ _ :: _ => rfl
  | .arg _ _ :: _ => rfl
  | .act _ :: _ => rfl
  | .cs _ _ :: _ => rfl
  | .lb _ :: _ => rfl
  | .rb _ :: _ => rfl
  | .chr _ _ :: _ => rfl

/-- white space of the document in front of an argument is skipped by `skip_space` -/
theorem skip_dropSp {T : PTables} {st1 : PState} {toks : List Tok} {r : List PE} (h : TR T st1 toks r) :
    (takeArg (dropSp r)).isSome = true →
    ∃ toks0, TR T st1 toks0 (dropSp r) ∧
      ∀ rest, skipSpace (toks ++ rest) = toks0 ++ rest ∧ skippedLangs (toks ++ rest) = [] := by
  induction h with
  | nil => intro hn; simp [dropSp, takeArg] at hn
  | text => intro hn; simp [dropSp, takeArg] at hn
  | arg => intro hn; simp [dropSp, takeArg] at hn
  | act => intro hn; simp [dropSp, takeArg] at hn
  | cs => intro hn; simp [dropSp, takeArg] at hn
  | rb => intro hn; simp [dropSp, takeArg] at hn
  | lb t toks pes hk ht htr _ =>
    intro _
    have hs : isSpaceTok t = false := by simp [isSpaceTok, hk]
    exact ⟨t :: toks, .lb t _ _ hk ht htr, fun rest =>
      ⟨skipSpace_cons_of_not _ _ hs, skippedLangs_cons_of_not _ _ hs⟩⟩
  | chr t c toks pes hk ht hf hp hsh hna htr _ =>
    intro _
    have hs : isSpaceTok t = false := by simp [isSpaceTok, hk]
    exact ⟨t :: toks, .chr t c _ _ hk ht hf hp hsh hna htr, fun rest =>
      ⟨skipSpace_cons_of_not _ _ hs, skippedLangs_cons_of_not _ _ hs⟩⟩
  | sp t toks pes hk _ _ _ _ _ ih =>
    intro hn
    obtain ⟨toks0, i1, i2⟩ := ih (by simpa [dropSp] using hn)
    refine ⟨toks0, by simpa [dropSp] using i1, fun rest => ?_⟩
    obtain ⟨j1, j2⟩ := i2 rest
    have hs : isSpaceTok t = true := by simp [isSpaceTok, hk]
    have hl : isLangK t = false := by simp [isLangK, hk]
    constructor
    · simp only [List.cons_append, skipSpace, List.dropWhile_cons, hs, if_true]
      exact j1
    · simp only [List.cons_append, skippedLangs, List.takeWhile_cons, hs, if_true, List.filter_cons, hl,
        Bool.false_eq_true, if_false]
      exact j2

/-- … and by `skip_space(stop_lang, stop_action)` behind a macro name -/
theorem skipAct_dropSp {T : PTables} {st1 : PState} {toks : List Tok} {r : List PE} (h : TR T st1 toks r) :
    noSkip (dropSp r) = true →
    ∃ toks0, TR T st1 toks0 (dropSp r) ∧ ∀ rest, skipSpaceStopLangAct (toks ++ rest) = toks0 ++ rest := by
  induction h with
  | nil => intro hn; simp [dropSp, noSkip] at hn
  | text => intro hn; simp [dropSp, noSkip] at hn
  | arg => intro hn; simp [dropSp, noSkip] at hn
  | act p toks pes htr _ =>
    intro _
    exact ⟨mkAction p :: toks, .act p _ _ htr, fun rest => by simp [skipSpaceStopLangAct, mkAction]⟩
  | cs t name toks pes hk ht hn htr _ =>
    intro _
    exact ⟨t :: toks, .cs t name _ _ hk ht hn htr, fun rest =>
      skipSpaceStopLang_cons_of_not _ _ (by simp [isSpaceTok, hk])⟩
  | lb t toks pes hk ht htr _ =>
    intro _
    exact ⟨t :: toks, .lb t _ _ hk ht htr, fun rest =>
      skipSpaceStopLang_cons_of_not _ _ (by simp [isSpaceTok, hk])⟩
  | rb t toks pes hk ht htr _ =>
    intro _
    exact ⟨t :: toks, .rb t _ _ hk ht htr, fun rest =>
      skipSpaceStopLang_cons_of_not _ _ (by simp [isSpaceTok, hk])⟩
  | chr t c toks pes hk ht hf hp hsh hna htr _ =>
    intro _
    exact ⟨t :: toks, .chr t c _ _ hk ht hf hp hsh hna htr, fun rest =>
      skipSpaceStopLang_cons_of_not _ _ (by simp [isSpaceTok, hk])⟩
  | sp t toks pes hk _ _ _ _ _ ih =>
    intro hn
    obtain ⟨toks0, i1, i2⟩ := ih (by simpa [dropSp] using hn)
    refine ⟨toks0, by simpa [dropSp] using i1, fun rest => ?_⟩
    have hc : (isSpaceTok t && !isLangK t && !(t.kind == Kind.action)) = true := by
      simp [isSpaceTok, isLangK, hk]
    simp only [List.cons_append, skipSpaceStopLangAct, List.dropWhile_cons, hc, if_true]
    exact i2 rest

/-- **`collectArgs` collects what `takeGroups` takes** -/
theorem collect_takeGroups (T : PTables) (st1 : PState) :
    ∀ (n : Nat) (toks : List Tok) (pes : List PE) (vals : List (List PE)) (pes' : List PE),
      TR T st1 toks pes → takeGroups n pes = some (vals, pes') →
      ∃ As toks', (∀ (mac : MacroDef) (st : PState) (rest : Buf) (i pos0 : Nat) (acc : Args),
          collectArgs T mac (List.replicate n 'A') i (toks ++ rest) pos0 acc st
            = .ok (({ acc with args := acc.args ++ As, extr := acc.extr ++ As }, toks' ++ rest), st)) ∧
        TR T st1 toks' pes' ∧ AllTR T st1 As vals ∧ (∀ v ∈ vals, v ≠ [])
  | 0, toks, pes, vals, pes', htr, h => by
    simp only [takeGroups, Option.some.injEq, Prod.mk.injEq] at h
    obtain ⟨rfl, rfl⟩ := h
    refine ⟨[], toks, ?_, htr, trivial, by simp⟩
    intro mac st rest i pos0 acc
    simp [collectArgs]
    rfl
  | n + 1, toks, pes, vals, pes', htr, h => by
    simp only [takeGroups] at h
    cases hta : takeArg (dropSp pes) with
    | none => simp [hta] at h
    | some gr =>
      obtain ⟨g, r2⟩ := gr
      simp only [hta, Option.map_eq_some_iff] at h
      obtain ⟨⟨vals', pes''⟩, htk, he⟩ := h
      cases he
      obtain ⟨toks0, htr0, hskip⟩ := skip_dropSp htr (by rw [hta]; rfl)
      -- the argument: a group or a character
      have key : ∃ gt toks2, TR T st1 gt g ∧ TR T st1 toks2 r2 ∧ g ≠ [] ∧
          ∀ (mac : MacroDef) (st : PState) (rest : Buf) (codes : List Char) (i pos0 : Nat) (acc : Args),
            collectArgs T mac ('A' :: codes) i (toks ++ rest) pos0 acc st
              = collectArgs T mac codes (i + 1) (toks2 ++ rest)
                  (match (toks0 ++ rest).head? with | some t => t.pos | none => pos0)
                  { acc with args := acc.args ++ [gt], extr := acc.extr ++ [gt] } st := by
        cases hd : dropSp pes with
        | nil => simp [hd, takeArg] at hta
        | cons e r =>
          rw [hd] at hta htr0
          cases e with
          | text s p => simp [takeArg] at hta
          | arg q s => simp [takeArg] at hta
          | act p => simp [takeArg] at hta
          | cs nm p => simp [takeArg] at hta
          | rb p => simp [takeArg] at hta
          | sp q s => simp [takeArg] at hta
          | chr c q =>
            simp only [takeArg, Option.some.injEq, Prod.mk.injEq] at hta
            obtain ⟨rfl, rfl⟩ := hta
            cases htr0 with
            | chr t _ toks1 _ hk ht hf hp hsh hna htr1 =>
              refine ⟨[t], toks1, .chr t c _ _ hk ht hf hp hsh hna .nil, htr1, by simp, ?_⟩
              intro mac st rest codes i pos0 acc
              obtain ⟨j1, j2⟩ := hskip rest
              have hrb : txtIsNV t "}" = false := (plainTok_noBrace hp).2
              have a1 := argBuffer_single T.toTables t hk hp (toks1 ++ rest) t.pos st
              rw [collectArgs]
              simp only [j1, j2, List.append_nil, List.cons_append, List.head?_cons,
                show ('A' == '*') = false by decide, show ('A' == 'O') = false by decide,
                beq_self_eq_true, if_true, hrb, Bool.false_eq_true, if_false]
              exact M.bind_ok _ _ _ _ _ a1
          | lb p =>
            simp only [takeArg] at hta
            cases htr0 with
            | lb t toks1 _ hk ht htr1 =>
              cases hsp : splitGroup 0 r with
              | none => simp [hsp] at hta
              | some gr' =>
                obtain ⟨g', r2'⟩ := gr'
                simp only [hsp] at hta
                by_cases hge : g'.isEmpty = true
                · simp [hge] at hta
                · simp only [hge, Bool.false_eq_true, if_false, Option.some.injEq, Prod.mk.injEq] at hta
                  obtain ⟨rfl, rfl⟩ := hta
                  obtain ⟨gt, toks2, g1, g2, g3⟩ := split_collect htr1 0 g' r2' hsp
                  have hgne : g' ≠ [] := by simpa using hge
                  have hgtne : gt ≠ [] := fun e => hgne ((TR_ne g1).mp e)
                  refine ⟨gt, toks2, g1, g2, hgne, ?_⟩
                  intro mac st rest codes i pos0 acc
                  obtain ⟨j1, j2⟩ := hskip rest
                  have hrb : txtIsNV t "}" = false := by simp [txtIsNV, ht]
                  have hc : collectArg ['}'] 1 (toks1 ++ rest) [] = some (gt, toks2 ++ rest) := by
                    have := g3 []
                    have e0 : ((0 : Nat) : Int) + 1 = 1 := by omega
                    rw [e0] at this
                    exact collectArg_append _ rest _ _ _ _ _ (by simpa using this)
                  have a1 := argBuffer_group T.toTables t hk ht (toks1 ++ rest) gt (toks2 ++ rest) hc hgtne
                    t.pos st
                  rw [collectArgs]
                  simp only [j1, j2, List.append_nil, List.cons_append, List.head?_cons,
                    show ('A' == '*') = false by decide, show ('A' == 'O') = false by decide,
                    beq_self_eq_true, if_true, hrb, Bool.false_eq_true, if_false]
                  exact M.bind_ok _ _ _ _ _ a1
      obtain ⟨gt, toks2, g1, g2, hgne, g3⟩ := key
      obtain ⟨As, toks', i1, i2, i3, i4⟩ := collect_takeGroups T st1 n toks2 r2 vals' pes'' g2 htk
      refine ⟨gt :: As, toks', ?_, i2, ⟨g1, i3⟩, ?_⟩
      · intro mac st rest i pos0 acc
        rw [List.replicate_succ, g3, i1]
        simp
      · intro v hv
        rcases List.mem_cons.mp hv with rfl | hv
        · exact hgne
        · exact i4 v hv

theorem allTR_length {T : PTables} {st1 : PState} : ∀ {As : List (List Tok)} {vals : List (List PE)},
    AllTR T st1 As vals → As.length = vals.length
  | [], [], _ => rfl
  | [], _ :: _, h => nomatch h
  | _ :: _, [], h => nomatch h
  | _ :: as, _ :: vs, h => by simp [allTR_length h.2]

theorem allTR_get {T : PTables} {st1 : PState} : ∀ {As : List (List Tok)} {vals : List (List PE)},
    AllTR T st1 As vals → ∀ (j : Nat) (a : List Tok), As[j]? = some a → ∃ v, vals[j]? = some v ∧ TR T st1 a v
  | [], [], _, j, a, h => by simp at h
  | [], _ :: _, h, _, _, _ => nomatch h
  | _ :: _, [], h, _, _, _ => nomatch h
  | a0 :: as, v0 :: vs, h, j, a, hj => by
    cases j with
    | zero =>
      simp only [List.getElem?_cons_zero, Option.some.injEq] at hj
      subst hj
      exact ⟨v0, rfl, h.1⟩
    | succ j =>
      simp only [List.getElem?_cons_succ] at hj
      obtain ⟨v, h1, h2⟩ := allTR_get h.2 j a hj
      exact ⟨v, by simpa using h1, h2⟩

theorem takeGroups_length : ∀ (n : Nat) (r : List PE) (vals : List (List PE)) (r' : List PE),
    takeGroups n r = some (vals, r') → vals.length = n
  | 0, r, vals, r', h => by
    simp only [takeGroups, Option.some.injEq, Prod.mk.injEq] at h
    rw [← h.1]; rfl
  | n + 1, r, vals, r', h => by
    simp only [takeGroups] at h
    cases hta : takeArg (dropSp r) with
    | none => simp [hta] at h
    | some gr =>
      simp only [hta, Option.map_eq_some_iff] at h
      obtain ⟨⟨vals', pes''⟩, htk, he⟩ := h
      cases he
      simp [takeGroups_length n _ _ _ htk]

theorem takeArg_noSkip (r : List PE) (h : (takeArg r).isSome = true) : noSkip r = true := by
  cases r with
  | nil => simp [takeArg] at h
  | cons e r => cases e <;> first | rfl | (simp [takeArg] at h)

theorem takeGroups_noSkip (n : Nat) (r : List PE) (x : List (List PE) × List PE)
    (h : takeGroups (n + 1) r = some x) : noSkip (dropSp r) = true := by
  simp only [takeGroups] at h
  cases hta : takeArg (dropSp r) with
  | none => simp [hta] at h
  | some gr => exact takeArg_noSkip _ (by rw [hta]; rfl)

/-! ### bodies -/

/-- the tokens of a stored body represent the pieces `body` -/
inductive BodyTR (T : PTables) (st1 : PState) : List Tok → List NP → Prop
  | nil : BodyTR T st1 [] []
  | lit (ts : List Tok) (s : Str) (b : List Tok) (body : List NP) :
      ts ≠ [] → (∀ t ∈ ts, PlainTok t ∧ Shape t ∧ (activeChars T st1).contains t.txt = false) →
      bodyTxt ts = s → BodyTR T st1 b body → BodyTR T st1 (ts ++ b) (.lit s :: body)
  | par (t : Tok) (k : Nat) (b : List Tok) (body : List NP) :
      argRef t = some k → NoBrace t → BodyTR T st1 b body → BodyTR T st1 (t :: b) (.par k :: body)
  | cs (t : Tok) (name : Str) (b : List Tok) (body : List NP) :
      t.kind = .xmacro → t.txt = '\\' :: name → CsOk st1 name →
      BodyTR T st1 b body → BodyTR T st1 (t :: b) (.cs name :: body)
  | lb (t : Tok) (b : List Tok) (body : List NP) :
      t.kind = .special → t.txt = ['{'] → BodyTR T st1 b body → BodyTR T st1 (t :: b) (.lb :: body)
  | rb (t : Tok) (b : List Tok) (body : List NP) :
      t.kind = .special → t.txt = ['}'] → BodyTR T st1 b body → BodyTR T st1 (t :: b) (.rb :: body)

theorem argRef_of_kind {t : Tok} (h : t.kind = .xmacro ∨ t.kind = .special) : argRef t = none := by
  unfold argRef
  rcases h with h | h <;> simp [h]

/-- **`generate_replacements` instantiates the body** -/
theorem genOut_inst {T : PTables} {st1 : PState} {n : Nat} {As : List (List Tok)} {vals : List (List PE)}
    (hA : ∀ k, 1 ≤ k → k ≤ n → TR T st1 (argAt As k) (valAt vals k) ∧ valAt vals k ≠ [])
    {b : List Tok} {body : List NP} (h : BodyTR T st1 b body) :
    RefsOk n b → ∀ cur, TR T st1 (genOut As b cur) (inst vals body cur) ∧
      genCur As b cur = instCur vals body cur := by
  induction h with
  | nil => intro _ cur; exact ⟨.nil, rfl⟩
  | lit ts s b body h1 h2 h3 _ ih =>
    intro hr cur
    have hp : ∀ u ∈ ts, PlainTok u := fun u hu => (h2 u hu).1
    obtain ⟨i1, i2⟩ := ih hr.append_right cur
    rw [PlainMacroArgs.genOut_plain_run As b cur ts hp, PlainMacroArgs.genCur_plain_run As b cur ts hp]
    exact ⟨.text ts s cur _ _ h1 h2 h3 i1, i2⟩
  | par t k b body hk _ _ ih =>
    intro hr cur
    obtain ⟨k1, k2⟩ := hr t (List.mem_cons_self ..) k hk
    obtain ⟨a1, a2⟩ := hA k k1 k2
    have e1 := TR_head a1 a2
    have e2 := TR_last a1 a2
    obtain ⟨i1, _⟩ := ih hr.tail (lstOf (valAt vals k))
    obtain ⟨_, i2⟩ := ih hr.tail (hdOf (valAt vals k))
    simp only [genOut, genCur, hk, inst, instCur, e1, e2]
    exact ⟨.act _ _ _ (TR_append a1 (.act _ _ _ i1)), i2⟩
  | cs t name b body hk ht hn _ ih =>
    intro hr cur
    obtain ⟨i1, i2⟩ := ih hr.tail cur
    have hk' := argRef_of_kind (Or.inl hk)
    simp only [genOut, genCur, hk', inst, instCur]
    exact ⟨.cs (restamp cur t) name _ _ hk ht hn i1, i2⟩
  | lb t b body hk ht _ ih =>
    intro hr cur
    obtain ⟨i1, i2⟩ := ih hr.tail cur
    have hk' := argRef_of_kind (Or.inr hk)
    simp only [genOut, genCur, hk', inst, instCur]
    exact ⟨.lb (restamp cur t) _ _ hk ht i1, i2⟩
  | rb t b body hk ht _ ih =>
    intro hr cur
    obtain ⟨i1, i2⟩ := ih hr.tail cur
    have hk' := argRef_of_kind (Or.inr hk)
    simp only [genOut, genCur, hk', inst, instCur]
    exact ⟨.rb (restamp cur t) _ _ hk ht i1, i2⟩

theorem balToks_skip (b : List Tok) : ∀ (ts : List Tok) (d : Nat), (∀ t ∈ ts, NoBrace t) →
    balToks d (ts ++ b) = balToks d b
  | [], _, _ => rfl
  | t :: ts, d, h => by
    obtain ⟨h1, h2⟩ := h t (List.mem_cons_self ..)
    simp only [List.cons_append, balToks, h1, h2, Bool.false_eq_true, if_false]
    exact balToks_skip b ts d (fun x hx => h x (List.mem_cons_of_mem _ hx))

/-- brace balance of a body: `lb` / `rb` count, nothing else does -/
def balNP : Nat → List NP → Bool
  | d, [] => d == 0
  | d, .lb :: r => balNP (d + 1) r
  | 0, .rb :: _ => false
  | d + 1, .rb :: r => balNP d r
  | d, .lit _ :: r => balNP d r
  | d, .par _ :: r => balNP d r
  | d, .cs _ :: r => balNP d r

theorem balToks_of_BodyTR {T : PTables} {st1 : PState} {b : List Tok} {body : List NP}
    (h : BodyTR T st1 b body) : ∀ d, balToks d b = balNP d body := by
  induction h with
  | nil => intro d; rfl
  | lit ts s b body _ h2 _ _ ih =>
    intro d
    rw [balToks_skip b ts d (fun t ht => plainTok_noBrace (h2 t ht).1)]
    simpa [balNP] using ih d
  | par t k b body _ hnb _ ih =>
    intro d
    have := balToks_skip b [t] d (by simpa using hnb)
    simp only [List.singleton_append] at this
    rw [this]; simpa [balNP] using ih d
  | cs t name b body _ ht _ _ ih =>
    intro d
    have := balToks_skip b [t] d (by simpa using noBrace_cs ht)
    simp only [List.singleton_append] at this
    rw [this]; simpa [balNP] using ih d
  | lb t b body hk ht _ ih =>
    intro d
    have e1 : txtIsNV t "{" = true := by simp [txtIsNV, isVerb, hk, ht]
    simp only [balToks, e1, if_true, balNP]
    exact ih (d + 1)
  | rb t b body hk ht _ ih =>
    intro d
    have e1 : txtIsNV t "{" = false := by simp [txtIsNV, ht]
    have e2 : txtIsNV t "}" = true := by simp [txtIsNV, isVerb, hk, ht]
    cases d with
    | zero => simp [balToks, e1, e2, balNP]
    | succ d' =>
      simp only [balToks, e1, e2, if_true, Bool.false_eq_true, if_false, balNP]
      exact ih d'

theorem BodyTR.notComment {T : PTables} {st1 : PState} {b : List Tok} {body : List NP}
    (h : BodyTR T st1 b body) : ∀ t ∈ b, t.kind ≠ .comment := by
  induction h with
  | nil => intro t ht; simp at ht
  | lit ts s b body _ h2 _ _ ih =>
    intro t ht
    rcases List.mem_append.mp ht with ht | ht
    · exact (h2 t ht).1.notComment
    · exact ih t ht
  | par t k b body hk _ _ ih =>
    intro x hx
    rcases List.mem_cons.mp hx with rfl | hx
    · intro e; simp [argRef, e] at hk
    · exact ih x hx
  | cs t name b body hk _ _ _ ih =>
    intro x hx
    rcases List.mem_cons.mp hx with rfl | hx
    · simp [hk]
    · exact ih x hx
  | lb t b body hk _ _ ih =>
    intro x hx
    rcases List.mem_cons.mp hx with rfl | hx
    · simp [hk]
    · exact ih x hx
  | rb t b body hk _ _ ih =>
    intro x hx
    rcases List.mem_cons.mp hx with rfl | hx
    · simp [hk]
    · exact ih x hx

theorem TR.notComment {T : PTables} {st1 : PState} {toks : List Tok} {pes : List PE} (h : TR T st1 toks pes) :
    ∀ t ∈ toks, t.kind ≠ .comment := by
  induction h with
  | nil => intro t ht; simp at ht
  | text ts s p toks pes _ h2 _ _ ih =>
    intro t ht
    rcases List.mem_append.mp ht with ht | ht
    · obtain ⟨u, hu, rfl⟩ := List.mem_map.mp ht
      exact (plainTok_restamp p u (h2 u hu).1).notComment
    · exact ih t ht
  | arg ts q s toks pes _ _ h2 _ ih =>
    intro t ht
    rcases List.mem_append.mp ht with ht | ht
    · exact (h2 t ht).1.notComment
    · exact ih t ht
  | act p toks pes _ ih =>
    intro x hx
    rcases List.mem_cons.mp hx with rfl | hx
    · simp [mkAction]
    · exact ih x hx
  | cs t name toks pes hk _ _ _ ih =>
    intro x hx
    rcases List.mem_cons.mp hx with rfl | hx
    · simp [hk]
    · exact ih x hx
  | lb t toks pes hk _ _ ih =>
    intro x hx
    rcases List.mem_cons.mp hx with rfl | hx
    · simp [hk]
    · exact ih x hx
  | rb t toks pes hk _ _ ih =>
    intro x hx
    rcases List.mem_cons.mp hx with rfl | hx
    · simp [hk]
    · exact ih x hx
  | sp t toks pes hk _ _ _ _ _ ih =>
    intro x hx
    rcases List.mem_cons.mp hx with rfl | hx
    · simp [hk]
    · exact ih x hx
  | chr t c toks pes hk _ _ _ _ _ _ ih =>
    intro x hx
    rcases List.mem_cons.mp hx with rfl | hx
    · simp [hk]
    · exact ih x hx

/-! ### `\def` with a body that contains brace groups -/

open PlainDefTex (paramToks paramToks_length defArgs_params defArgPosMap_params defMapRepl_id defName) in
/-- `PlainDefTex.parseDefMacro_params` with "balanced" in place of "brace-free" -/
theorem parseDefMacro_paramsB (T : PTables) (q2 : Nat) (name : Str) (n q q7 q8 : Nat) (body : List Tok)
    (rest : Buf) (start : Nat) (st : PState) (hb : balToks 0 body = true) (hbne : body ≠ [])
    (hr : RefsOk n body) :
    parseDefMacro T (cwTok q2 name :: (paramToks q 1 n ++ lbr q7 :: (body ++ rbr q8 :: rest))) start st
      = .ok (([mkAction start], rest),
             { st with macros := setMacro st.macros (userMacro ('\\' :: name) n body) }) := by
  have hs : isSpaceTok (cwTok q2 name) = false := rfl
  have hk : ((cwTok q2 name).kind != Kind.xmacro) = false := by simp [cwTok]
  have hda := defArgs_params (body ++ rbr q8 :: rest) q7 n q 1
    ((paramToks q 1 n ++ lbr q7 :: (body ++ rbr q8 :: rest)).length + 1) []
    (by simp [paramToks_length]; omega)
  have ha := argBuffer_bal T.toTables q7 q8 body rest q7 st hb hbne
  unfold parseDefMacro
  simp only [skipSpace_cons_of_not _ _ hs, hk, Bool.false_eq_true, if_false, hda, List.reverse_nil,
    List.nil_append, List.head?_cons]
  refine (M.bind_ok _ _ _ _ _ ha).trans ?_
  simp only [defArgPosMap_params n q 1 [], List.nil_append, defMapRepl_id n body [] hr, List.reverse_nil,
    paramToks_length]
  rfl

open PlainDefTex (paramToks defName) in
/-- the `\def` step of `expandSequence` (one iteration) for a body with balanced braces -/
theorem seq_ddefB_step (T : PTables) (fuel : Nat) (p q2 q q7 q8 : Nat) (name : Str) (n : Nat)
    (body : List Tok) (rest : Buf) (envStop : Option Str) (out : List Tok) (st : PState)
    (hb : balToks 0 body = true) (hbne : body ≠ []) (hr : RefsOk n body) :
    expandSequence T (fuel + 1)
        (cwTok p defName :: cwTok q2 name :: (paramToks q 1 n ++ lbr q7 :: (body ++ rbr q8 :: rest)))
        envStop out st
      = expandSequence T fuel rest envStop (out ++ [mkAction p]) (defSt st name n body) := by
  have hmac := parseDefMacro_paramsB T q2 name n q q7 q8 body rest p st hb hbne hr
  rw [expandSequence.eq_3]
  show M.bind' M.get _ st = _
  simp only [M.bind', M.get]
  have hk : (cwTok p defName).kind = .xmacro := rfl
  have hdf : txtIs (cwTok p defName) "\\def" = true := by simp [txtIs, cwTok, defName]
  simp only [hk, hdf, Bool.false_eq_true, if_false, if_true, reduceCtorEq, beq_iff_eq, beq_self_eq_true]
  refine (M.bind_ok _ _ _ _ _ hmac).trans ?_
  rfl

/-! ### the simulation -/

/-- **the call step of `expandMacro`**: a user macro whose arguments `As` are collected returns an
    Action token and the instantiated body; the state is unchanged -/
theorem expandMacro_call (T : PTables) (g : Nat) (buf buf' : Buf) (tok : Tok) (st : PState) (nm : Str)
    (n : Nat) (b : List Tok) (As : List (List Tok))
    (buf0 : Buf) (hl : lookupMacro st tok.txt = some (userMacro nm n b))
    (hskip : skipSpaceStopLangAct buf = buf0)
    (hc : collectArgs T (userMacro nm n b) (List.replicate n 'A') 0 buf0 tok.pos {} st
      = .ok (({ args := As, extr := As, langs := [] }, buf'), st))
    (hne : ∀ a ∈ As, a ≠ []) (hr : RefsOk As.length b) :
    expandMacro T (g + 2) buf tok false st
      = .ok ((mkAction tok.pos :: genOut As b (genCur As b tok.pos), buf'), st) := by
  rw [expandMacro.eq_2]
  refine (M.bind_ok _ _ _ _ _ (rfl : M.get st = _)).trans ?_
  simp only [hl, hskip]
  rw [expandArguments.eq_2]
  simp only [show (userMacro nm n b).args = List.replicate n 'A' from rfl]
  refine (M.bind_ok _ _ _ _ _ hc).trans ?_
  have hgen := genRepl_eq As hne b tok.pos hr
  simp only [userMacro, List.isEmpty_nil, Bool.not_true, Bool.false_eq_true, if_false,
    show (Handler.none != Handler.none) = false by decide, hgen, List.append_nil]
  rfl

/-- the state and the environment agree on the names that are not declared in `st1` -/
def RelN (T : PTables) (st1 st : PState) (env : EnvN) : Prop :=
  ∀ name, lookupMacro st1 ('\\' :: name) = none →
    match lookupDefN env name with
    | some nb => ∃ b, lookupMacro st ('\\' :: name) = some (userMacro ('\\' :: name) nb.1 b) ∧
        BodyTR T st1 b nb.2 ∧ RefsOk nb.1 b
    | none => lookupMacro st ('\\' :: name) = none

theorem map_eq_some' {α β} {f : α → β} {o : Option α} {y : β} (h : o.map f = some y) :
    ∃ x, o = some x ∧ f x = y := Option.map_eq_some_iff.mp h

theorem shape_restamp {p : Nat} {t : Tok} (h : Shape t) : Shape (restamp p t) := h

theorem inst_ne (vals : List (List PE)) : ∀ (body : List NP) (cur : Nat), body ≠ [] → inst vals body cur ≠ []
  | [], _, h => absurd rfl h
  | .lit _ :: _, _, _ => by simp [inst]
  | .par _ :: _, _, _ => by simp [inst]
  | .cs _ :: _, _, _ => by simp [inst]
  | .lb :: _, _, _ => by simp [inst]
  | .rb :: _, _, _ => by simp [inst]

/-- **the loop of the model simulates the reference machine.**  If the machine evaluates `pes` to
    `marks`, then on tokens that represent `pes` the loop emits tokens `O` with these marks, in `k`
    iterations (at most two per mark), without changing the state. -/
theorem sim (T : PTables) (st1 st : PState) (env : EnvN) (hst : StOkN st1 st) (hrel : RelN T st1 st env)
    (ha : noEmptyActive T st1 = true) :
    ∀ (F : Nat) (pes : List PE) (marks : List Mark), evalPE env F pes = some marks →
      ∀ toks, TR T st1 toks pes →
      ∃ O k, k ≤ 2 * marks.length ∧ marksOf O = marks ∧ (∀ t ∈ O, PlainMacro.Simple t) ∧
        ∀ (fuel : Nat) (rest : Buf) (envStop : Option Str) (out : List Tok),
          expandSequence T (fuel + 1 + k) (toks ++ rest) envStop out st
            = expandSequence T (fuel + 1) rest envStop (out ++ O) st := by
  have ha' := noEmptyActive_of_StOkN hst ha
  have hact : ∀ x : Str, (activeChars T st).contains x = (activeChars T st1).contains x := by
    intro x; rw [activeChars_congr T st1 st hst.lang]
  intro F
  induction F with
  | zero => intro pes marks h; simp [evalPE] at h
  | succ F ih =>
    intro pes marks hev toks htr
    cases htr with
    | nil =>
      simp only [evalPE, Option.some.injEq] at hev
      subst hev
      exact ⟨[], 0, by simp, rfl, by simp, fun fuel rest envStop out => by simp⟩
    | text ts s p toks1 pes1 h1 h2 h3 htr1 =>
      obtain ⟨m', hm', rfl⟩ := map_eq_some' (by simpa only [evalPE] using hev)
      obtain ⟨O', k', i1, i2, i3, i4⟩ := ih pes1 m' hm' toks1 htr1
      have hp : ∀ u ∈ ts, PlainTok u := fun u hu => (h2 u hu).1
      have hlen : ts.length ≤ s.length := by
        have := PlainMacro.length_le_bodyTxt ts (fun u hu => (h2 u hu).2.1)
        rw [h3] at this; exact this
      refine ⟨ts.map (restamp p) ++ O', ts.length + k', ?_, ?_, ?_, ?_⟩
      · simp only [List.length_append, List.length_map]; omega
      · rw [PlainMacro.marksOf_append, PlainMacro.marksOf_restamp p ts hp, h3, i2]
      · intro t ht
        rcases List.mem_append.mp ht with ht | ht
        · obtain ⟨u, hu, rfl⟩ := List.mem_map.mp ht
          exact PlainMacro.simple_of_plain (plainTok_restamp p u (h2 u hu).1) (shape_restamp (h2 u hu).2.1)
        · exact i3 t ht
      · intro fuel rest envStop out
        have e : fuel + 1 + (ts.length + k') = (fuel + 1 + k') + (ts.map (restamp p)).length := by
          simp only [List.length_map]; omega
        rw [e, List.append_assoc, seq_copy_run T envStop st _ ha' (ts.map (restamp p)) _ _ (by
          intro t ht
          obtain ⟨u, hu, rfl⟩ := List.mem_map.mp ht
          exact Or.inr ⟨plainTok_restamp p u (h2 u hu).1, by rw [hact]; exact (h2 u hu).2.2⟩), i4]
        simp
    | arg ts q s toks1 pes1 h1 hF h2 htr1 =>
      obtain ⟨m', hm', rfl⟩ := map_eq_some' (by simpa only [evalPE] using hev)
      obtain ⟨O', k', i1, i2, i3, i4⟩ := ih pes1 m' hm' toks1 htr1
      have hp : ∀ u ∈ ts, PlainTok u := fun u hu => (h2 u hu).1
      have hlen : ts.length ≤ s.length := by
        have := PlainMacro.length_le_bodyTxt ts hF.shape
        rw [PlainMacroArgs.bodyTxt_of_chars _ _ _ hF.chars] at this; exact this
      refine ⟨ts ++ O', ts.length + k', ?_, ?_, ?_, ?_⟩
      · simp only [List.length_append, List.length_map]
        have : (posText q s).length = s.length := by
          have := congrArg List.length (posText_fst q s); simpa using this
        omega
      · rw [PlainMacro.marksOf_append, PlainMacroArgs.marksOf_plain ts hp, hF.chars, i2]
      · intro t ht
        rcases List.mem_append.mp ht with ht | ht
        · exact PlainMacro.simple_of_plain (hp t ht) (hF.shape t ht)
        · exact i3 t ht
      · intro fuel rest envStop out
        have e : fuel + 1 + (ts.length + k') = (fuel + 1 + k') + ts.length := by omega
        rw [e, List.append_assoc, seq_copy_run T envStop st _ ha' ts _ _ (by
          intro t ht
          exact Or.inr ⟨hp t ht, by rw [hact]; exact (h2 t ht).2⟩), i4]
        simp
    | act p toks1 pes1 htr1 =>
      obtain ⟨m', hm', rfl⟩ := map_eq_some' (by simpa only [evalPE] using hev)
      obtain ⟨O', k', i1, i2, i3, i4⟩ := ih pes1 m' hm' toks1 htr1
      refine ⟨mkAction p :: O', k' + 1, ?_, ?_, ?_, ?_⟩
      · simp only [List.length_cons]; omega
      · rw [PlainMacro.marksOf_cons, PlainMacro.tokMarks_mkAction, i2]; rfl
      · intro t ht
        rcases List.mem_cons.mp ht with rfl | ht
        · exact PlainMacro.simple_mkAction p
        · exact i3 t ht
      · intro fuel rest envStop out
        rw [show fuel + 1 + (k' + 1) = (fuel + 1 + k') + 1 by omega, List.cons_append,
          seq_action_step T _ p _ envStop out st ha', i4]
        simp
    | lb t toks1 pes1 hk ht htr1 =>
      obtain ⟨m', hm', rfl⟩ := map_eq_some' (by simpa only [evalPE] using hev)
      obtain ⟨O', k', i1, i2, i3, i4⟩ := ih pes1 m' hm' toks1 htr1
      refine ⟨mkAction t.pos :: O', k' + 1, ?_, ?_, ?_, ?_⟩
      · simp only [List.length_cons]; omega
      · rw [PlainMacro.marksOf_cons, PlainMacro.tokMarks_mkAction, i2]; rfl
      · intro u hu
        rcases List.mem_cons.mp hu with rfl | hu
        · exact PlainMacro.simple_mkAction _
        · exact i3 u hu
      · intro fuel rest envStop out
        rw [show fuel + 1 + (k' + 1) = (fuel + 1 + k') + 1 by omega, List.cons_append,
          seq_brace_step T _ t _ envStop out st hk (Or.inl ht), i4]
        simp
    | rb t toks1 pes1 hk ht htr1 =>
      obtain ⟨m', hm', rfl⟩ := map_eq_some' (by simpa only [evalPE] using hev)
      obtain ⟨O', k', i1, i2, i3, i4⟩ := ih pes1 m' hm' toks1 htr1
      refine ⟨mkAction t.pos :: O', k' + 1, ?_, ?_, ?_, ?_⟩
      · simp only [List.length_cons]; omega
      · rw [PlainMacro.marksOf_cons, PlainMacro.tokMarks_mkAction, i2]; rfl
      · intro u hu
        rcases List.mem_cons.mp hu with rfl | hu
        · exact PlainMacro.simple_mkAction _
        · exact i3 u hu
      · intro fuel rest envStop out
        rw [show fuel + 1 + (k' + 1) = (fuel + 1 + k') + 1 by omega, List.cons_append,
          seq_brace_step T _ t _ envStop out st hk (Or.inr ht), i4]
        simp
    | sp t toks1 pes1 hk hfix hp hsh hna htr1 =>
      obtain ⟨m', hm', rfl⟩ := map_eq_some' (by simpa only [evalPE] using hev)
      obtain ⟨O', k', i1, i2, i3, i4⟩ := ih pes1 m' hm' toks1 htr1
      have hlen : 1 ≤ (posText t.pos t.txt).length := by
        have := congrArg List.length (posText_fst t.pos t.txt)
        have h1 := List.length_pos_iff.mpr hsh.1
        simp at this; omega
      refine ⟨t :: O', k' + 1, ?_, ?_, ?_, ?_⟩
      · simp only [List.length_append, List.length_map]; omega
      · rw [PlainMacro.marksOf_cons, PlainMacro.tokMarks_nonaction _ hp.notAction,
          PlainMacro.tokChars_nofix t hfix, i2]
      · intro u hu
        rcases List.mem_cons.mp hu with rfl | hu
        · exact PlainMacro.simple_of_plain hp hsh
        · exact i3 u hu
      · intro fuel rest envStop out
        rw [show fuel + 1 + (k' + 1) = (fuel + 1 + k') + 1 by omega, List.cons_append,
          seq_plain_step T _ t _ envStop out st hp (Or.inl (by rw [hact]; exact hna)), i4]
        simp
    | chr t c toks1 pes1 hk ht hfix hp hsh hna htr1 =>
      obtain ⟨m', hm', rfl⟩ := map_eq_some' (by simpa only [evalPE] using hev)
      obtain ⟨O', k', i1, i2, i3, i4⟩ := ih pes1 m' hm' toks1 htr1
      refine ⟨t :: O', k' + 1, ?_, ?_, ?_, ?_⟩
      · simp only [List.length_cons]; omega
      · rw [PlainMacro.marksOf_cons, PlainMacro.tokMarks_nonaction _ hp.notAction,
          PlainMacro.tokChars_nofix t hfix, i2, ht]
        rfl
      · intro u hu
        rcases List.mem_cons.mp hu with rfl | hu
        · exact PlainMacro.simple_of_plain hp hsh
        · exact i3 u hu
      · intro fuel rest envStop out
        rw [show fuel + 1 + (k' + 1) = (fuel + 1 + k') + 1 by omega, List.cons_append,
          seq_plain_step T _ t _ envStop out st hp (Or.inl (by rw [hact]; exact hna)), i4]
        simp
    | cs t name toks1 pes1 hk ht hname htr1 =>
      simp only [evalPE] at hev
      have hR := hrel name hname.undecl
      cases hld : lookupDefN env name with
      | none => simp [hld] at hev
      | some nb =>
        obtain ⟨n, body⟩ := nb
        rw [hld] at hR
        obtain ⟨b, hlk, hbody, hrefs⟩ := hR
        simp only [hld] at hev
        by_cases hcond : (body.isEmpty || !noSkip (dropSp pes1)) = true
        · simp [hcond] at hev
        · rw [if_neg hcond] at hev
          cases htk : takeGroups n (dropSp pes1) with
          | none => simp [htk] at hev
          | some vr =>
            obtain ⟨vals, r'⟩ := vr
            simp only [htk] at hev
            obtain ⟨m', hm', rfl⟩ := map_eq_some' hev
            simp only [Bool.or_eq_true, Bool.not_eq_true', not_or, Bool.not_eq_false] at hcond
            have hbne : body ≠ [] := by simpa using hcond.1
            have hns : noSkip (dropSp pes1) = true := hcond.2
            have hvl := takeGroups_length n _ vals r' htk
            obtain ⟨toks0, htr0, hskip⟩ := skipAct_dropSp htr1 hns
            obtain ⟨As, toks', c1, c2, c3, c4⟩ := collect_takeGroups T st1 n toks0 _ vals r' htr0 htk
            have hAl : As.length = n := by rw [allTR_length c3, hvl]
            have hA : ∀ k, 1 ≤ k → k ≤ n → TR T st1 (argAt As k) (valAt vals k) ∧ valAt vals k ≠ [] := by
              intro k k1 k2
              have hlt : k - 1 < As.length := by omega
              obtain ⟨v, hv1, hv2⟩ := allTR_get c3 (k - 1) As[k - 1] (List.getElem?_eq_getElem hlt)
              have e1 : argAt As k = As[k - 1] := by
                simp only [argAt, List.getElem?_eq_getElem hlt, Option.getD_some]
              have e2 : valAt vals k = v := by simp only [valAt, hv1, Option.getD_some]
              rw [e1, e2]
              exact ⟨hv2, c4 v (List.mem_of_getElem? hv1)⟩
            have hne : ∀ a ∈ As, a ≠ [] := by
              intro a ha2
              obtain ⟨j, hj, rfl⟩ := List.mem_iff_getElem.mp ha2
              obtain ⟨v, hv1, hv2⟩ := allTR_get c3 j As[j] (List.getElem?_eq_getElem hj)
              exact fun e => c4 v (List.mem_of_getElem? hv1) ((TR_ne hv2).mp e)
            obtain ⟨g1, g2⟩ := genOut_inst hA hbody hrefs (genCur As b t.pos)
            have g2' : genCur As b t.pos = instCur vals body t.pos := (genOut_inst hA hbody hrefs t.pos).2
            rw [g2'] at g1
            obtain ⟨O', k', i1, i2, i3, i4⟩ := ih _ m' hm' _ (TR_append g1 c2)
            refine ⟨mkAction t.pos :: O', k' + 2, ?_, ?_, ?_, ?_⟩
            · simp only [List.length_cons]; omega
            · rw [PlainMacro.marksOf_cons, PlainMacro.tokMarks_mkAction, i2]; rfl
            · intro u hu
              rcases List.mem_cons.mp hu with rfl | hu
              · exact PlainMacro.simple_mkAction _
              · exact i3 u hu
            · intro fuel rest envStop out
              have hc : collectArgs T (userMacro ('\\' :: name) n b) (List.replicate n 'A') 0
                    (toks0 ++ rest) t.pos {} st
                  = .ok (({ args := As, extr := As, langs := [] }, toks' ++ rest), st) := by
                simpa using c1 (userMacro ('\\' :: name) n b) st rest 0 t.pos {}
              have hmac := expandMacro_call T (fuel + k') (toks1 ++ rest) (toks' ++ rest) t st ('\\' :: name) n b
                As (toks0 ++ rest) (by rw [ht]; exact hlk) (hskip rest) hc hne (by rw [hAl]; exact hrefs)
              have hd : txtIs t "\\def" = false := by
                simpa [txtIs, ht, sDef] using hname.nDef
              rw [show fuel + 1 + (k' + 2) = (fuel + k' + 2) + 1 by omega, List.cons_append,
                expandSequence.eq_3]
              show M.bind' M.get _ st = _
              simp only [M.bind', M.get]
              simp only [hk, hd, Bool.false_eq_true, if_false, if_true, reduceCtorEq, beq_iff_eq,
                beq_self_eq_true]
              refine (M.bind_ok _ _ _ _ _ hmac).trans ?_
              simp only [List.cons_append]
              rw [show fuel + k' + 2 = (fuel + 1 + k') + 1 by omega,
                seq_action_step T _ t.pos _ envStop out st ha', ← List.append_assoc, g2', i4]
              simp

end PlainDefTexNest
end Yalafi
