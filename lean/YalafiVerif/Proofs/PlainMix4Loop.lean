/-
  Proofs/PlainMix4Loop.lean — the ONE loop lemma `seq_mix4` of the fourth union grammar: induction over
  the (number of) pieces; it dispatches to the step lemmas of the single-construct files
  (`seq_plain_step`, `seq_special_step`, `seq_brace_step`, `seq_cw_step`, `PlainVanish.seq_van_step`,
  `Comment.seq_com_step`, `seq_verb_step`, `PlainMathRich.seq_open_step` / `inlineMath_rich`,
  `PlainRef.seq_ref_step` / `seq_cite_step` / `seq_citeN_step`, `PlainFootnote.seq_foot_step`,
  `PlainHeading.seq_head_step`, `PlainAccent.seq_acc_step`, `PlainMacroArgs.seq_def_step` /
  `seq_use_step`, `PlainDisplay.seq_open_step` / `seq_beg_equ` / `seq_mathBegin_step` /
  `expandDisplayMath_simple`, `PlainItem.seq_beg_step` / `seq_item_step` / `seq_end_step`).  The
  static conditions `PiecesOk T st1 ps` are transferred to the current state with `StOk3` (declared
  macros keep their meaning, environments and language unchanged) and `Live` (undeclared names are
  not user-defined at that point; an `\item` finds its label on the current `itemStack`).  The loop
  runs at root level (`envStop = none`: `\end{name}` of a list must not stop it).
  Definitions: Proofs/PlainMix4.lean.
-/
import YalafiVerif.Proofs.PlainMix4
namespace Yalafi
namespace PlainMix4

open M
open PlainItem (itemSt)
open PlainMacro (lbr rbr NoBrace restamp ncName NcOk NameOk bodyTxt)
open PlainMix (droppable dropWhile_prefix skip_droppable MathSt)
open PlainFootnote (CopyTok FnTok BraceTok FlowSafe addFlow)
open PlainMacroArgs (Group groupsFlat groupsOut GroupGood userMacro defSt useSt useN useBody GoodBody
  DigitOk txtTok digitChar StOk)
open PlainMathRich (OpenTok CloseTok MItem mt mout fOut)
open PlainUnkn2 (mcost)
open PlainDefTex (defName paramToks)
open PlainItemL (labArg itemLOut punctOf pvOf pvAfter punctOk punctToks)

/-! ### from `st1` to the current state -/

theorem StOk3.nea {T : PTables} {st1 st : PState} (h : StOk3 T st1 st)
    (ha : noEmptyActive T st1 = true) : noEmptyActive T st = true :=
  (noEmptyActive_congr T st1 st h.base.lang).trans ha

theorem StOk3.vanName {T : PTables} {st1 st : PState} (h : StOk3 T st1 st) {name : Str}
    (hn : PlainVanish.VanName st1 name) :
    PlainVanish.VanName st name ∧ PlainVanish.replOf st name = PlainVanish.replOf st1 name := by
  obtain ⟨h1, m, h2, h3⟩ := hn
  have h2' := h.base.decl _ _ h2
  exact ⟨⟨h1, m, h2', h3⟩, by simp [PlainVanish.replOf, h2, h2']⟩

theorem StOk3.comTok {T : PTables} {st1 st : PState} (h : StOk3 T st1 st) {t : Tok}
    (hc : Comment.ComTok T st1 t) : Comment.ComTok T st t :=
  ⟨hc.kind, hc.head, by rw [h.skip]; exact hc.nskip,
    by rw [activeChars_congr T st1 st h.base.lang]; exact hc.nact⟩

theorem StOk3.mitem {T : PTables} {st1 st : PState} (h : StOk3 T st1 st) {t : Tok}
    (hm : MItem T st1 t) (hl : t.kind = .xmacro → lookupMacro st t.txt = none) : MItem T st t := by
  rcases hm with hb | hs | hc | hx
  · exact Or.inl hb
  · exact Or.inr (Or.inl hs)
  · exact Or.inr (Or.inr (Or.inl ⟨hc.kind, hc.nStop, by rw [h.mtm]; exact hc.nText, hl hc.kind,
      hc.nSpace, hc.nIgnore⟩))
  · exact Or.inr (Or.inr (Or.inr hx))

theorem StOk3.refName {T : PTables} {st1 st : PState} (h : StOk3 T st1 st) {name : Str}
    (hn : PlainRef.RefName T st1 name) :
    PlainRef.RefName T st name ∧ PlainRef.replOf st name = PlainRef.replOf st1 name := by
  obtain ⟨h1, m, h2, h3⟩ := hn
  have h2' := h.base.decl _ _ h2
  exact ⟨⟨h1, m, h2', by rw [PlainRef.refDeclOk_congr h.base.lang]; exact h3⟩,
    by simp [PlainRef.replOf, h2, h2']⟩

theorem StOk3.citeName {T : PTables} {st1 st : PState} (h : StOk3 T st1 st) {name : Str}
    (hn : PlainRef.CiteName st1 name) : PlainRef.CiteName st name := by
  obtain ⟨h1, m, h2, h3⟩ := hn
  exact ⟨h1, m, h.base.decl _ _ h2, h3⟩

theorem StOk3.footFacts {T : PTables} {st1 st : PState} (h : StOk3 T st1 st)
    (hs : PlainFootnote.StateFacts T st1) : PlainFootnote.StateFacts T st := by
  obtain ⟨m, h1, h2⟩ := hs.mac
  exact ⟨⟨m, h.base.decl _ _ h1, h2⟩, h.ml.trans hs.single, h.nea hs.nea⟩

theorem StOk3.hdTok {T : PTables} {st1 st : PState} (h : StOk3 T st1 st) {t : Tok}
    (hd : PlainHeading.HdTok st1 t) : PlainHeading.HdTok st t := by
  obtain ⟨m, h1, h2⟩ := hd.decl
  exact ⟨hd.kind, hd.nDef, m, h.base.decl _ _ h1, h2⟩

theorem StOk3.headFacts {T : PTables} {st1 st : PState} (h : StOk3 T st1 st)
    (hs : PlainHeading.StateFacts T st1) : PlainHeading.StateFacts T st :=
  ⟨h.nea hs.nea, by rw [activeChars_congr T st1 st h.base.lang]; exact hs.dot⟩

theorem StOk3.defEnv {T : PTables} {st1 st : PState} (h : StOk3 T st1 st)
    (hd : PlainDisplay.defEnvOk T st1 = true) : PlainDisplay.defEnvOk T st = true := by
  simpa [PlainDisplay.defEnvOk, lookupEnv, h.envs] using hd

theorem useSt_langStack (st : PState) (name : Str) : (useSt st name).langStack = st.langStack := by
  unfold PlainMacroArgs.useSt; split <;> rfl

theorem useSt_rots (st : PState) (name : Str) : (useSt st name).rots = st.rots := by
  unfold PlainMacroArgs.useSt; split <;> rfl

theorem MathSt.congr {T : PTables} {st st' : PState} {rot : Rot} {ls : LangSettings}
    (hl : st'.langStack = st.langStack) (hr : st'.rots = st.rots) (h : MathSt T st rot ls) :
    MathSt T st' rot ls := by
  obtain ⟨h1, h2, h3⟩ := h
  refine ⟨?_, h2, ?_⟩
  · simpa [rotOf, curSettings, hl, hr] using h1
  · simpa [curSettings, hl] using h3

/-! ### the loop -/

/-- **the loop on the scan of a mixed document.**  The main output is the blank-line removal
    applied to `outP`; the state behind it is `finalSt` (up to the rotation records).  Fuel:
    `cost` iterations, the final one, and four more (the handler of `\newcommand` nests six
    calls deep). -/
theorem seq_mix4 (T : PTables) (envStop : Option Str) (henvStop : envStop = none) (ls : LangSettings)
    (st1 : PState) (ha1 : noEmptyActive T st1 = true) :
    ∀ (n : Nat) (ps : List Piece), ps.length ≤ n →
      ∀ (fuel : Nat) (out : List Tok) (st : PState) (rot : Rot),
      cost st ps + 5 ≤ fuel → PiecesOk T st1 ps → Live T st ps → StOk3 T st1 st →
      RotOk T st rot ls (nMath ps) (nDisp ps) → PvOk T out st (rot.inl, rot.disp) ps →
      ∃ st', expandSequence T fuel (flat ps) envStop out st
          = (match removeLines (out ++ outP T st (rot.inl, rot.disp) ps) with
             | some r => .ok ((r, []), st')
             | none => .outOfFuel) ∧
        st' = { finalSt st ps with rots := st'.rots } := by
  have hnil : ∀ (fuel : Nat) (out : List Tok) (st : PState) (rot : Rot), 0 + 5 ≤ fuel →
      ∃ st', expandSequence T fuel (flat []) envStop out st
          = (match removeLines (out ++ outP T st (rot.inl, rot.disp) []) with
             | some r => .ok ((r, []), st')
             | none => .outOfFuel) ∧
        st' = { finalSt st [] with rots := st'.rots } := by
    intro fuel out st rot hf
    obtain ⟨f, rfl⟩ : ∃ f, fuel = f + 1 := ⟨fuel - 1, by omega⟩
    refine ⟨st, ?_, rfl⟩
    simp only [flat, outP, List.append_nil]
    rw [expandSequence.eq_2]
    cases removeLines out <;> rfl
  intro n
  induction n with
  | zero =>
    intro ps hn fuel out st rot hf _ _ _ _ _
    cases ps with
    | nil => exact hnil fuel out st rot hf
    | cons => simp at hn
  | succ n ih0 =>
    intro ps hlenN fuel out st rot hf hok hlive hst hm hpv
    cases ps with
    | nil => exact hnil fuel out st rot hf
    | cons pc ps =>
    have hlen : ps.length ≤ n := by simpa using hlenN
    have ih := ih0 ps hlen
    have ha := hst.nea ha1
    have hlang := hst.base.lang
    cases pc with
    | tok t =>
      simp only [cost] at hf
      obtain ⟨f, rfl⟩ : ∃ f, fuel = f + 1 := ⟨fuel - 1, by omega⟩
      simp only [flat, Piece.toks, List.singleton_append]
      rw [seq_plain_step T f t (flat ps) envStop out st hok.1 (PlainMacro.PassTok_congr hlang hok.2.1)]
      obtain ⟨st', h1, h2⟩ := ih f (out ++ [t]) st rot (by omega) hok.2.2 hlive.2 hst hm
                (hpv.tail (fun _ => rfl))
      refine ⟨st', ?_, h2⟩
      rw [h1]
      simp only [outP, List.append_assoc, List.singleton_append]
    | spc t =>
      simp only [cost] at hf
      obtain ⟨f, rfl⟩ : ∃ f, fuel = f + 1 := ⟨fuel - 1, by omega⟩
      simp only [flat, Piece.toks, List.singleton_append]
      rw [seq_special_step T f t (flat ps) envStop out st hok.1]
      obtain ⟨st', h1, h2⟩ := ih f (out ++ expTok T.toTables t) st rot (by omega) hok.2 hlive.2 hst hm
                (hpv.tail (fun _ => rfl))
      refine ⟨st', ?_, h2⟩
      rw [h1]
      simp only [outP, List.append_assoc]
    | br t =>
      simp only [cost] at hf
      obtain ⟨f, rfl⟩ : ∃ f, fuel = f + 1 := ⟨fuel - 1, by omega⟩
      simp only [flat, Piece.toks, List.singleton_append]
      rw [PlainMacro.seq_brace_step T f t (flat ps) envStop out st hok.1.kind hok.1.txt]
      obtain ⟨st', h1, h2⟩ := ih f (out ++ [mkAction t.pos]) st rot (by omega) hok.2 hlive.2 hst hm
                (hpv.tail (fun _ => rfl))
      refine ⟨st', ?_, h2⟩
      rw [h1]
      simp only [outP, List.append_assoc, List.singleton_append]
    | cw p name sk =>
      obtain ⟨hcw, hsk, hhead, hrest⟩ := hok
      simp only [cost] at hf
      obtain ⟨f, rfl⟩ : ∃ f, fuel = f + 2 := ⟨fuel - 2, by omega⟩
      have hflat : flat (Piece.cw p name sk :: ps) = cwTok p name :: (sk ++ flat ps) := by
        simp [flat, Piece.toks]
      obtain ⟨d1, d2, d3, d4, d5, d6, d7⟩ := dropComs_facts T st1 ps hrest
      have hskip : skipSpaceStopLangAct (sk ++ flat ps) = flat (dropComs ps) := by
        rw [skip_droppable (flat ps) sk (fun x hx => (hsk x hx).1), d7]
        unfold skipSpaceStopLangAct
        have := dropWhile_prefix (fun t => isSpaceTok t && !isLangK t && !(t.kind == .action)) []
          (flat (dropComs ps)) (by simp) hhead
        simpa using this
      have hcw' : CwTokOk st (cwTok p name) := ⟨hcw.kind, hcw.nDef, hlive.1⟩
      rw [hflat, seq_cw_step T f (cwTok p name) _ envStop out st hcw' ha, hskip]
      have hf2 := d6 (nextSt st (.cw p name sk))
      obtain ⟨st', h1, h2⟩ := ih0 (dropComs ps) (Nat.le_trans (dropComs_length ps) hlen) f
          (out ++ [mkAction (cwTok p name).pos]) (nextSt st (.cw p name sk)) rot (by omega) d1
          (d5 _ hlive.2) (hst.of_eq rfl rfl rfl rfl rfl rfl rfl rfl rfl)
          (by rw [d4, nDisp_dropComs]; exact RotOk.congr (st := st) rfl rfl hm)
                (PvOk.dropComs ps _ (hpv.tail (fun _ => rfl)))
      refine ⟨st', h1.trans ?_, by rw [d3] at h2; exact h2⟩
      rw [d2]
      simp only [outP, List.append_assoc, List.singleton_append]
      rfl
    | van p q1 q2 name key repl =>
      obtain ⟨hn, hr, hkey, hrest⟩ := hok
      obtain ⟨hn', hr'⟩ := hst.vanName hn
      subst hr
      simp only [cost] at hf
      obtain ⟨f, hf'⟩ : ∃ f, fuel = f + 1 + (2 + (PlainVanish.replOf st name).length) :=
        ⟨fuel - 1 - (2 + (PlainVanish.replOf st name).length), by rw [hr']; omega⟩
      have hflat : flat (Piece.van p q1 q2 name key (PlainVanish.replOf st1 name) :: ps)
          = cwTok p name :: lbr q1 :: (key ++ rbr q2 :: flat ps) := by
        simp [flat, Piece.toks]
      rw [hflat, hf', PlainVanish.seq_van_step T f p q1 q2 name key (flat ps) envStop out st hn'
          (fun t ht => (hkey t ht).1) ha]
      obtain ⟨st', h1, h2⟩ := ih (f + 1)
        (out ++ mkAction p :: (PlainVanish.replOf st name).map (restamp p)) st rot
        (by rw [hr'] at hf'; omega) hrest hlive.2 hst hm
                (hpv.tail2 (fun _ => by simp only [outP, List.append_assoc, List.cons_append, hr']))
      refine ⟨st', ?_, h2⟩
      rw [h1, hr']
      simp only [outP, List.append_assoc, List.cons_append]
    | com t =>
      simp only [cost] at hf
      obtain ⟨f, rfl⟩ : ∃ f, fuel = f + 1 := ⟨fuel - 1, by omega⟩
      simp only [flat, Piece.toks, List.singleton_append]
      rw [Comment.seq_com_step T f t (flat ps) envStop out st (hst.comTok hok.1)]
      obtain ⟨st', h1, h2⟩ := ih f out st rot (by omega) hok.2 hlive.2 hst hm
                (hpv.tail2 (fun _ => rfl))
      refine ⟨st', ?_, h2⟩
      rw [h1]
      simp only [outP]
    | verb t =>
      simp only [cost] at hf
      obtain ⟨f, rfl⟩ : ∃ f, fuel = f + 1 := ⟨fuel - 1, by omega⟩
      simp only [flat, Piece.toks, List.singleton_append]
      rw [seq_verb_step T f t (flat ps) envStop out st hok.1]
      obtain ⟨st', h1, h2⟩ := ih f (out ++ expTokV t) st rot (by omega) hok.2 hlive.2 hst hm
                (hpv.tail (fun _ => rfl))
      refine ⟨st', ?_, h2⟩
      rw [h1]
      simp only [outP, List.append_assoc]
    | math d1 b d2 =>
      obtain ⟨hd1, hvis, hb, hd2, hrest⟩ := hok
      obtain ⟨hrot, hne, hls⟩ := hm.1 (by simp [nMath])
      have hb' : ∀ t ∈ b, MItem T st t := fun t ht => hst.mitem (hb t ht) (hlive.1 t ht)
      have hflat : flat (Piece.math d1 b d2 :: ps) = d1 :: (b ++ d2 :: flat ps) := by
        simp [flat, Piece.toks]
      rw [hflat]
      simp only [cost] at hf
      obtain ⟨f, rfl⟩ : ∃ f, fuel = f + 2 := ⟨fuel - 2, by omega⟩
      have hr := PlainMath.headD_of_ne_nil _ (rotL_ne_nil _ hne)
      have him := PlainMathRich.inlineMath_rich T st f d1 d2 b (flat ps) rot ls _ hd2 hvis hb' (by omega)
        hrot hls hr
      rw [PlainMathRich.seq_open_step T (f + 1) d1 _ envStop out st hd1]
      rw [M.bind_ok _ (fun r => expandSequence T (f + 1) r.2 envStop (out ++ r.1)) _ _ _ him]
      simp only []
      have hrot2 := PlainMath.rotOf_setRot st (curSettings st) rot (rotL rot.inl) hrot
      have hsame : SameM st (setRot st { rot with inl := rotL rot.inl }) := ⟨rfl, rfl, rfl, rfl, rfl⟩
      obtain ⟨st', h1, h2⟩ := ih (f + 1)
        (out ++ fOut T ((rotL rot.inl).headD []) d1.pos (b.flatMap (mout T st)))
        (setRot st { rot with inl := rotL rot.inl }) { rot with inl := rotL rot.inl }
        (by rw [cost_congr ps st _ hsame]; omega) hrest (Live_congr T ps st _ hsame hlive.2)
        (hst.of_eq rfl rfl rfl rfl rfl rfl rfl rfl rfl)
        ⟨fun _ => ⟨hrot2, rotL_ne_nil _ hne, hls⟩, fun h0 => ⟨hrot2, (hm.2 h0).2.1, hls⟩⟩
                ((hpv.tail (fun _ => rfl)).congr hsame)
      refine ⟨st', ?_, ?_⟩
      · rw [h1, outP_congr T ps st _ _ hsame]
        simp only [outP, List.append_assoc]
      · rw [h2]
        exact finalSt_rots ps st _ st'.rots
    | ref p q1 q2 name key repl =>
      obtain ⟨hn, hr, hkey, hrest⟩ := hok
      obtain ⟨hn', hr'⟩ := hst.refName hn
      subst hr
      simp only [cost] at hf
      obtain ⟨f, hf'⟩ : ∃ f, fuel = f + 1 + (2 + (PlainRef.replOf st name).length) :=
        ⟨fuel - 1 - (2 + (PlainRef.replOf st name).length), by rw [hr']; omega⟩
      have hflat : flat (Piece.ref p q1 q2 name key (PlainRef.replOf st1 name) :: ps)
          = cwTok p name :: lbr q1 :: (key ++ rbr q2 :: flat ps) := by
        simp [flat, Piece.toks]
      rw [hflat, hf', PlainRef.seq_ref_step T f p q1 q2 name key (flat ps) envStop out st hn'
          (fun t ht => (hkey t ht).1) ha]
      obtain ⟨st', h1, h2⟩ := ih (f + 1)
        (out ++ mkAction p :: (PlainRef.replOf st name).map (restamp p)) st rot
        (by rw [hr'] at hf'; omega) hrest hlive.2 hst hm
                (hpv.tail2 (fun _ => by simp only [outP, List.append_assoc, List.cons_append, hr']))
      refine ⟨st', ?_, h2⟩
      rw [h1, hr']
      simp only [outP, List.append_assoc, List.cons_append]
    | cite p q1 q2 name key =>
      obtain ⟨hn, hkey, hS, hrest⟩ := hok
      simp only [cost] at hf
      obtain ⟨f, hf'⟩ : ∃ f, fuel = f + 1 + 4 := ⟨fuel - 5, by omega⟩
      have hflat : flat (Piece.cite p q1 q2 name key :: ps)
          = cwTok p name :: lbr q1 :: (key ++ rbr q2 :: flat ps) := by
        simp [flat, Piece.toks]
      rw [hflat, hf', PlainRef.seq_cite_step T f p q1 q2 name key (flat ps) envStop out st
          (hst.citeName hn) (fun t ht => (hkey t ht).1) (hS.congr hlang)]
      obtain ⟨st', h1, h2⟩ := ih (f + 1) (out ++ mkAction p :: PlainRef.citeToks p) st rot (by omega)
        hrest hlive.2 hst hm
                (hpv.tail (fun _ => rfl))
      refine ⟨st', ?_, h2⟩
      rw [h1]
      simp only [outP, List.append_assoc, List.cons_append]
    | citeN p b1 b2 q1 q2 name note key =>
      obtain ⟨hn, hne, hnote, hkey, hS, hrest⟩ := hok
      simp only [cost] at hf
      obtain ⟨f, hf'⟩ : ∃ f, fuel = f + 1 + (6 + note.length) :=
        ⟨fuel - 1 - (6 + note.length), by omega⟩
      have hflat : flat (Piece.citeN p b1 b2 q1 q2 name note key :: ps)
          = cwTok p name :: PlainRef.chTok b1 '[' ::
              (note ++ PlainRef.chTok b2 ']' :: lbr q1 :: (key ++ rbr q2 :: flat ps)) := by
        simp [flat, Piece.toks]
      rw [hflat, hf', PlainRef.seq_citeN_step T f p b1 b2 q1 q2 name note key (flat ps) envStop out st
          (hst.citeName hn) (fun t ht => ⟨(hnote t ht).1.congr hlang, (hnote t ht).2⟩) hne
          (fun t ht => (hkey t ht).1) (hS.congr hlang)]
      obtain ⟨st', h1, h2⟩ := ih (f + 1) (out ++ mkAction p :: PlainRef.citeNToks p note) st rot
        (by omega) hrest hlive.2 hst hm
                (hpv.tail (fun _ => rfl))
      refine ⟨st', ?_, h2⟩
      rw [h1]
      simp only [outP, List.append_assoc, List.cons_append]
    | foot fn lb b rb =>
      obtain ⟨hfn, hlb, hrb, hne, hb, hsafe, hS, hrest⟩ := hok
      simp only [cost] at hf
      obtain ⟨f, rfl⟩ : ∃ f, fuel = f + 3 := ⟨fuel - 3, by omega⟩
      have hflat : flat (Piece.foot fn lb b rb :: ps) = fn :: lb :: (b ++ rb :: flat ps) := by
        simp [flat, Piece.toks]
      rw [hflat, PlainFootnote.seq_foot_step T f fn lb rb b (flat ps) envStop out st hfn
        (hst.footFacts hS) hlb hrb (fun t ht => (hb t ht).congr hlang) hne hsafe (by omega)]
      obtain ⟨st', h1, h2⟩ := ih (f + 1) (out ++ [mkAction fn.pos]) (nextSt st (.foot fn lb b rb)) rot
        (by omega) hrest hlive.2 (hst.of_eq rfl rfl rfl rfl rfl rfl rfl rfl rfl)
        (RotOk.congr (st := st) rfl rfl hm)
                (hpv.tail (fun _ => rfl))
      refine ⟨st', h1.trans ?_, h2⟩
      simp only [outP, List.append_assoc, List.singleton_append]
    | head hd lb b rb =>
      obtain ⟨hhd, hlb, hrb, hne, hb, hS, hrest⟩ := hok
      simp only [cost] at hf
      obtain ⟨l, hl⟩ : ∃ l, b.getLast? = some l := by
        cases hx : b.getLast? with
        | none => rw [List.getLast?_eq_none_iff] at hx; exact absurd hx hne
        | some a => exact ⟨a, rfl⟩
      obtain ⟨f, rfl⟩ : ∃ f, fuel = f + b.length + 6 := ⟨fuel - b.length - 6, by omega⟩
      have hflat : flat (Piece.head hd lb b rb :: ps) = hd :: lb :: (b ++ rb :: flat ps) := by
        simp [flat, Piece.toks]
      have hdl := PlainHeading.dotToks_length T (getTxtPos b).1 l.pos
      rw [hflat, PlainHeading.seq_head_step T f hd lb rb b l (flat ps) envStop out st (hst.hdTok hhd)
        (hst.headFacts hS) hlb hrb (fun t ht => (hb t ht).congr hlang) hl]
      have hlp : PlainHeading.lastPos b = l.pos := by simp [PlainHeading.lastPos, hl]
      obtain ⟨st', h1, h2⟩ := ih (f + 4 - (PlainHeading.dotToks T (getTxtPos b).1 l.pos).length)
        (out ++ mkAction hd.pos :: (b ++ PlainHeading.dotToks T (getTxtPos b).1 l.pos)) st rot
        (by omega) hrest hlive.2 hst hm
                (hpv.tail2 (fun _ => by simp only [outP, PlainHeading.headOut, hlp, List.append_assoc, List.cons_append]))
      refine ⟨st', ?_, h2⟩
      rw [h1]
      have hlp : PlainHeading.lastPos b = l.pos := by simp [PlainHeading.lastPos, hl]
      simp only [outP, PlainHeading.headOut, hlp, List.append_assoc, List.cons_append]
    | acc p name sp bo q l =>
      obtain ⟨hn, hsp, hu, hrest⟩ := hok
      simp only [cost] at hf
      obtain ⟨f, rfl⟩ : ∃ f, fuel = f + 4 := ⟨fuel - 4, by omega⟩
      obtain ⟨u, hu'⟩ := Option.isSome_iff_exists.mp hu
      have hflat : flat (Piece.acc p name sp bo q l :: ps)
          = PlainAccent.accTok p name :: (sp ++ (PlainAccent.argT bo q l ++ flat ps)) := by
        simp [flat, Piece.toks]
      rw [hflat, PlainAccent.seq_acc_step T f p name sp (PlainAccent.spaceKind_isSpaceTok hsp) bo q l
          (flat ps) envStop out u st hn hu']
      obtain ⟨st', h1, h2⟩ := ih (f + 3) (out ++ [PlainAccent.resTok p u]) st rot (by omega) hrest
        hlive.2 hst hm
                (hpv.tail2 (fun _ => by simp only [outP, PlainAccent.accVal, hu', Option.getD_some, List.append_assoc, List.singleton_append]))
      refine ⟨st', ?_, h2⟩
      rw [h1]
      simp only [outP, PlainAccent.accVal, hu', Option.getD_some, List.append_assoc,
        List.singleton_append]
    | defn p q1 q2 q3 q4 q5 q6 q7 q8 name n body =>
      obtain ⟨hnc, hn, hd, hb, hrest⟩ := hok
      simp only [cost] at hf
      obtain ⟨f, rfl⟩ : ∃ f, fuel = f + 7 := ⟨fuel - 7, by omega⟩
      have hflat : flat (Piece.defn p q1 q2 q3 q4 q5 q6 q7 q8 name n body :: ps)
          = cwTok p ncName :: lbr q1 :: cwTok q2 name :: rbr q3 :: txtTok q4 '[' ::
            txtTok q5 (digitChar n) :: txtTok q6 ']' :: lbr q7 :: (body ++ rbr q8 :: flat ps) := by
        simp [flat, Piece.toks]
      rw [hflat, PlainMacroArgs.seq_def_step T f p q1 q2 q3 q4 q5 q6 q7 q8 name n body (flat ps) envStop
        out st1 st hst.base hnc hn hd hb ha1]
      obtain ⟨st', h1, h2⟩ := ih (f + 5) (out ++ [mkAction p])
        (nextSt st (.defn p q1 q2 q3 q4 q5 q6 q7 q8 name n body)) rot (by omega) hrest hlive.2
        (hst.defSt name n body hn hb)
        (RotOk.congr (st := st) rfl rfl hm)
                (hpv.tail (fun _ => rfl))
      refine ⟨st', h1.trans ?_, h2⟩
      simp only [outP, List.append_assoc, List.singleton_append]
    | ddef p q2 q q7 q8 name n body =>
      obtain ⟨hn, hb, hrest⟩ := hok
      simp only [cost] at hf
      obtain ⟨f, rfl⟩ : ∃ f, fuel = f + 1 := ⟨fuel - 1, by omega⟩
      have hflat : flat (Piece.ddef p q2 q q7 q8 name n body :: ps)
          = cwTok p defName :: cwTok q2 name :: (paramToks q 1 n ++ lbr q7 :: (body ++ rbr q8 :: flat ps)) := by
        simp [flat, Piece.toks]
      rw [hflat, PlainDefTex.seq_ddef_step T f p q2 q q7 q8 name n body (flat ps) envStop out st1 st hb]
      obtain ⟨st', h1, h2⟩ := ih f (out ++ [mkAction p])
        (nextSt st (.ddef p q2 q q7 q8 name n body)) rot (by omega) hrest hlive.2
        (hst.defSt name n body hn hb)
        (RotOk.congr (st := st) rfl rfl hm)
                (hpv.tail (fun _ => rfl))
      refine ⟨st', h1.trans ?_, h2⟩
      simp only [outP, List.append_assoc, List.singleton_append]
    | ppar p sp =>
      obtain ⟨hp, hsp, hh, hrest⟩ := hok
      simp only [cost] at hf
      obtain ⟨f, rfl⟩ : ∃ f, fuel = f + 3 := ⟨fuel - 3, by omega⟩
      have hp' : PlainParEnv.ParOk st := by
        obtain ⟨m, h1, h2⟩ := hp
        exact ⟨m, hst.base.decl _ _ h1, h2⟩
      have hflat : flat (Piece.ppar p sp :: ps) = cwTok p PlainParEnv.parName :: (sp ++ flat ps) := by
        simp [flat, Piece.toks]
      rw [hflat, PlainParEnv.seq_par_step T f p sp (flat ps) envStop out st hp' ha hsp hh]
      obtain ⟨st', h1, h2⟩ := ih f (out ++ [mkAction p, PlainThm.parTok p]) st rot (by omega) hrest
        hlive.2 hst hm (hpv.tail (fun _ => rfl))
      refine ⟨st', h1.trans ?_, h2⟩
      simp only [outP, List.append_assoc, List.cons_append, List.nil_append]
    | pbeg p q1 q2 q3 q4 nt ag =>
      obtain ⟨hnt, hpe, hag, hrest⟩ := hok
      simp only [cost] at hf
      obtain ⟨f, rfl⟩ : ∃ f, fuel = f + 1 := ⟨fuel - 1, by omega⟩
      have hflat : flat (Piece.pbeg p q1 q2 q3 q4 nt ag :: ps)
          = PlainItem.begTok p :: lbr q1 :: (nt ++ rbr q2 :: lbr q3 :: (ag ++ rbr q4 :: flat ps)) := by
        simp [flat, Piece.toks]
      rw [hflat, PlainParEnv.seq_pbeg_step T f p q1 q2 q3 q4 nt ag (flat ps) envStop out st ha
        (hnt.congr hlang) (hpe.congr hst.envs) (fun t ht => (hag t ht).1) (by omega)]
      obtain ⟨st', h1, h2⟩ := ih (f - 2) (out ++ [PlainThm.parTok p, mkAction p]) st rot (by omega)
        hrest hlive.2 hst hm (hpv.tail (fun _ => rfl))
      refine ⟨st', h1.trans ?_, h2⟩
      simp only [outP, List.append_assoc, List.cons_append, List.nil_append]
    | pen p q1 q2 nt =>
      obtain ⟨hnt, hpe, hrest⟩ := hok
      simp only [cost] at hf
      obtain ⟨f, rfl⟩ : ∃ f, fuel = f + 1 := ⟨fuel - 1, by omega⟩
      have hflat : flat (Piece.pen p q1 q2 nt :: ps)
          = PlainItem.endTok p :: lbr q1 :: (nt ++ rbr q2 :: flat ps) := by
        simp [flat, Piece.toks]
      subst henvStop
      rw [hflat, PlainParEnv.seq_pend_step T f p q1 q2 nt (flat ps) out st
        (hnt.congr hlang) (hpe.congr hst.envs) (by omega)]
      obtain ⟨st', h1, h2⟩ := ih (f - 1) (out ++ [PlainThm.parTok p]) st rot (by omega)
        hrest hlive.2 hst hm (hpv.tail (fun _ => rfl))
      refine ⟨st', h1.trans ?_, h2⟩
      simp only [outP, List.append_assoc, List.cons_append, List.nil_append]
    | call p q1 q2 name b =>
      obtain ⟨hfn, hne, hb, hsafe, hml, hrest⟩ := hok
      simp only [cost] at hf
      obtain ⟨f, rfl⟩ : ∃ f, fuel = f + 3 := ⟨fuel - 3, by omega⟩
      have hflat : flat (Piece.call p q1 q2 name b :: ps)
          = cwTok p name :: lbr q1 :: (b ++ rbr q2 :: flat ps) := by
        simp [flat, Piece.toks]
      have hfn' : PlainFlows.FlowName st name := by
        obtain ⟨h0, m, h1, h2⟩ := hfn
        exact ⟨h0, m, hst.base.decl _ _ h1, h2⟩
      rw [hflat, PlainFlows.seq_call_step' T f p q1 q2 name b (flat ps) envStop out st hfn'
        ⟨hst.ml.trans hml, ha⟩ (fun t ht => (hb t ht).congr hlang) hne hsafe (by omega)]
      obtain ⟨st', h1, h2⟩ := ih (f + 1) (out ++ [mkAction p]) (nextSt st (.call p q1 q2 name b)) rot
        (by omega) hrest hlive.2 (hst.of_eq rfl rfl rfl rfl rfl rfl rfl rfl rfl)
        (RotOk.congr (st := st) rfl rfl hm) (hpv.tail (fun _ => rfl))
      refine ⟨st', h1.trans ?_, h2⟩
      simp only [outP, List.append_assoc, List.singleton_append]
    | callO p b1 b2 q1 q2 name opt b =>
      obtain ⟨hfn, hopt, hne, hb, hsafe, hml, hrest⟩ := hok
      simp only [cost] at hf
      obtain ⟨f, rfl⟩ : ∃ f, fuel = f + 3 := ⟨fuel - 3, by omega⟩
      have hflat : flat (Piece.callO p b1 b2 q1 q2 name opt b :: ps)
          = cwTok p name :: PlainRef.chTok b1 '[' ::
              (opt ++ PlainRef.chTok b2 ']' :: lbr q1 :: (b ++ rbr q2 :: flat ps)) := by
        simp [flat, Piece.toks]
      have hfn' : PlainFlows.FlowName st name := by
        obtain ⟨h0, m, h1, h2⟩ := hfn
        exact ⟨h0, m, hst.base.decl _ _ h1, h2⟩
      rw [hflat, PlainFlows.seq_callO_step T f p b1 b2 q1 q2 name opt b (flat ps) envStop out st hfn'
        ⟨hst.ml.trans hml, ha⟩ (PlainFlows.OptToks.congr (st := st1) (st' := st) hlang hopt)
        (fun t ht => (hb t ht).congr hlang) hne hsafe (by omega)]
      obtain ⟨st', h1, h2⟩ := ih (f + 1) (out ++ [mkAction p])
        (nextSt st (.callO p b1 b2 q1 q2 name opt b)) rot
        (by omega) hrest hlive.2 (hst.of_eq rfl rfl rfl rfl rfl rfl rfl rfl rfl)
        (RotOk.congr (st := st) rfl rfl hm) (hpv.tail (fun _ => rfl))
      refine ⟨st', h1.trans ?_, h2⟩
      simp only [outP, List.append_assoc, List.singleton_append]
    | fen p q1 q2 nt =>
      obtain ⟨hn, he, hrest⟩ := hok
      simp only [cost] at hf
      obtain ⟨f, rfl⟩ : ∃ f, fuel = f + 1 := ⟨fuel - 1, by omega⟩
      have hflat : flat (Piece.fen p q1 q2 nt :: ps)
          = PlainItem.endTok p :: lbr q1 :: (nt ++ rbr q2 :: flat ps) := by
        simp [flat, Piece.toks]
      subst henvStop
      rw [hflat, PlainFlows.seq_fend_step T f p q1 q2 nt (flat ps) out st ha (hn.congr hlang)
        (he.congr hst.envs) (by omega)]
      obtain ⟨st', h1, h2⟩ := ih (f - 1) (out ++ [mkAction p]) st rot (by omega) hrest hlive.2 hst hm
        (hpv.tail (fun _ => rfl))
      refine ⟨st', ?_, h2⟩
      rw [h1]
      simp only [outP, List.append_assoc, List.singleton_append]
    | fbegN p q1 q2 b1 b2 nt note =>
      obtain ⟨hn, he, hnote, hrest⟩ := hok
      simp only [cost] at hf
      obtain ⟨f, rfl⟩ : ∃ f, fuel = f + 1 := ⟨fuel - 1, by omega⟩
      have hflat : flat (Piece.fbegN p q1 q2 b1 b2 nt note :: ps)
          = PlainItem.begTok p :: lbr q1 :: (nt ++ rbr q2 :: PlainRef.chTok b1 '[' ::
              (note ++ PlainRef.chTok b2 ']' :: flat ps)) := by
        simp [flat, Piece.toks]
      rw [hflat, PlainFlows.seq_fbegN_step T f p q1 q2 b1 b2 nt note (flat ps) envStop out st ha
        (hn.congr hlang) (he.congr hst.envs)
        (PlainFlows.OptToks.congr (st := st1) (st' := st) hlang hnote) (by omega)]
      obtain ⟨st', h1, h2⟩ := ih (f - 2) (out ++ [mkAction p, mkAction p]) st rot (by omega) hrest
        hlive.2 hst hm (hpv.tail (fun _ => rfl))
      refine ⟨st', ?_, h2⟩
      rw [h1]
      simp only [outP, List.append_assoc, List.cons_append, List.nil_append]
    | fbeg p q1 q2 nt sp =>
      obtain ⟨hn, he, hsp, hh, hrest⟩ := hok
      simp only [cost] at hf
      obtain ⟨f, rfl⟩ : ∃ f, fuel = f + 1 := ⟨fuel - 1, by omega⟩
      have hflat : flat (Piece.fbeg p q1 q2 nt sp :: ps)
          = PlainItem.begTok p :: lbr q1 :: (nt ++ rbr q2 :: (sp ++ flat ps)) := by
        simp [flat, Piece.toks]
      rw [hflat, PlainFlows.seq_fbeg_step T f p q1 q2 nt sp (flat ps) envStop out st ha
        (hn.congr hlang) (he.congr hst.envs) hsp hh (by omega)]
      obtain ⟨st', h1, h2⟩ := ih (f - 2) (out ++ [mkAction p, mkAction p]) st rot (by omega) hrest
        hlive.2 hst hm (hpv.tail (fun _ => rfl))
      refine ⟨st', ?_, h2⟩
      rw [h1]
      simp only [outP, List.append_assoc, List.cons_append, List.nil_append]
    | use p name gs =>
      obtain ⟨hn, hne, hg, hrest⟩ := hok
      simp only [cost] at hf
      obtain ⟨f, hf'⟩ : ∃ f, fuel = f + (2 + (useBody st p name gs).length
          + (groupsOut (gs.drop (useN st name))).length) :=
        ⟨fuel - (2 + (useBody st p name gs).length + (groupsOut (gs.drop (useN st name))).length),
          by omega⟩
      have hflat : flat (Piece.use p name gs :: ps) = cwTok p name :: (groupsFlat gs ++ flat ps) := by
        simp [flat, Piece.toks]
      rw [hflat, hf', PlainMacroArgs.seq_use_step T f p name gs (flat ps) envStop out st1 st hst.base hn
        ha1 hne hg hlive.1]
      obtain ⟨st', h1, h2⟩ := ih f
        (out ++ mkAction p :: (useBody st p name gs ++ groupsOut (gs.drop (useN st name))))
        (nextSt st (.use p name gs)) rot (by omega) hrest hlive.2 (hst.useSt name)
        (RotOk.congr (st := st) (useSt_langStack st name) (useSt_rots st name) hm)
                (hpv.tail2 (fun _ => by simp only [outP, List.append_assoc, List.cons_append]))
      refine ⟨st', h1.trans ?_, h2⟩
      simp only [outP, List.append_assoc, List.cons_append]
    | disp ops d1 b d2 =>
      obtain ⟨hops, hdef, hds1, hd1, hel, hb, hd2, hrest⟩ := hok
      obtain ⟨hrot, hne, hls⟩ := hm.2 (by simp [nDisp])
      have hds : st.displayedSimple = false := hst.ds.trans hds1
      have hops' : st.mathOperators = ops := hst.ops.trans hops.symm
      obtain ⟨env, henv, hequ, hrem⟩ : ∃ env, lookupEnv st T.mathDefaultEnv = some env ∧
          env.isEqu = true ∧ env.remove = false := by
        have hdef' := hst.defEnv hdef
        unfold PlainDisplay.defEnvOk at hdef'
        cases hq : lookupEnv st T.mathDefaultEnv with
        | none => rw [hq] at hdef'; cases hdef'
        | some e =>
          rw [hq] at hdef'
          simp only [Bool.and_eq_true, Bool.not_eq_true'] at hdef'
          exact ⟨e, rfl, hdef'.1, hdef'.2⟩
      have hflat : flat (Piece.disp ops d1 b d2 :: ps) = d1 :: (b ++ d2 :: flat ps) := by
        simp [flat, Piece.toks]
      rw [hflat]
      simp only [cost] at hf
      have hml := PlainDisplay.length_mathToks_le b
      obtain ⟨f, rfl⟩ : ∃ f, fuel = f + 3 := ⟨fuel - 3, by omega⟩
      have hr := PlainMath.headD_of_ne_nil _ (rotL_ne_nil _ hne)
      rw [← hops'] at hel
      obtain ⟨el, hel'⟩ := Option.isSome_iff_exists.mp hel
      have hsec := PlainDisplay.mathSection_body_d T st d1.pos (some env.name) d2 (flat ps) hd2 b f
        (by omega) hb
      have hmb : ∀ t ∈ PlainMath.mathToks b, PlainMath.BodyTok T t :=
        PlainMath.mathToks_body T b (fun t ht => (hb t ht).bodyItem)
      have he1 : txtIs d2 "&" = false := by simp [txtIs, hd2.txt]
      have he2 : txtIs d2 "\\\\" = false := by simp [txtIs, hd2.txt]
      have he3 : (d2.kind == Kind.par) = false := by
        rcases hd2.kind with hk | hk | hk <;> simp [hk]
      have him := PlainDisplay.expandDisplayMath_simple T st f (b ++ d2 :: flat ps) d1 env.name
        (PlainMath.mathToks b) d2 (flat ps) rot ls _ el hsec he1 he2 he3 hmb hel' hds hrot hls hr
      rw [PlainDisplay.seq_open_step T (f + 2) d1 _ envStop out st env hd1 henv hequ, hrem]
      rw [M.bind_ok _ (fun r => expandSequence T (f + 2) r.2 envStop (out ++ r.1)) _ _ _ him]
      simp only []
      have hrot2 := PlainDisplay.rotOf_setRot_disp st (curSettings st) rot (rotL rot.disp) hrot
      have hsame : SameM st (setRot st { rot with disp := rotL rot.disp }) := ⟨rfl, rfl, rfl, rfl, rfl⟩
      have hep : PlainDisplay.elemPos T ops b = el.pos := by
        rw [← hops']
        simp [PlainDisplay.elemPos, hel']
      obtain ⟨st', h1, h2⟩ := ih (f + 2)
        (out ++ PlainDisplay.dispOut T ((rotL rot.disp).headD []) d1.pos el.pos
          (PlainMath.firstPos (PlainMath.mathToks b)) (PlainMath.bodyTxt (PlainMath.mathToks b)))
        (setRot st { rot with disp := rotL rot.disp }) { rot with disp := rotL rot.disp }
        (by rw [cost_congr ps st _ hsame]; omega) hrest (Live_congr T ps st _ hsame hlive.2)
        (hst.of_eq rfl rfl rfl rfl rfl rfl rfl rfl rfl)
        ⟨fun h0 => ⟨hrot2, (hm.1 h0).2.1, hls⟩, fun _ => ⟨hrot2, rotL_ne_nil _ hne, hls⟩⟩
                ((hpv.tail2 (fun _ => by simp only [outP, List.append_assoc, hep])).congr hsame)
      refine ⟨st', ?_, ?_⟩
      · rw [h1, outP_congr T ps st _ _ hsame]
        have hep : PlainDisplay.elemPos T ops b = el.pos := by
          rw [← hops']
          simp [PlainDisplay.elemPos, hel']
        simp only [outP, List.append_assoc, hep]
      · rw [h2]
        exact finalSt_rots ps st _ st'.rots
    | denv ops p q1 q2 nt b p' q1' q2' nt' =>
      obtain ⟨hops, hds1, hn1, hn2, hnn, hea, hx1, hx2, hel, hb, hrest⟩ := hok
      obtain ⟨hrot, hne, hls⟩ := hm.2 (by simp [nDisp])
      have hds : st.displayedSimple = false := hst.ds.trans hds1
      have hops' : st.mathOperators = ops := hst.ops.trans hops.symm
      have hn1' := hn1.congr (st' := st) hlang
      have hn2' := hn2.congr (st' := st) hlang
      have hflat : flat (Piece.denv ops p q1 q2 nt b p' q1' q2' nt' :: ps)
          = PlainItem.begTok p :: lbr q1 :: (nt ++ rbr q2 :: (b ++ PlainItem.endTok p' :: lbr q1' ::
              (nt' ++ rbr q2' :: flat ps))) := by
        simp [flat, Piece.toks]
      rw [hflat]
      simp only [cost] at hf
      have hml := PlainDisplay.length_mathToks_le b
      obtain ⟨f, rfl⟩ : ∃ f, fuel = f + (PlainMath.mathToks b).length + nt.length + nt'.length + 11 :=
        ⟨fuel - ((PlainMath.mathToks b).length + nt.length + nt'.length + 11), by omega⟩
      have hr := PlainMath.headD_of_ne_nil _ (rotL_ne_nil _ hne)
      rw [← hops'] at hel
      obtain ⟨el, hel'⟩ := Option.isSome_iff_exists.mp hel
      obtain ⟨env', hle, hoke⟩ : ∃ env', lookupEnv st (bodyTxt nt) = some env' ∧
          PlainDisplay.equEnvOk env' = true := by
        have hea' : PlainDisplay.equEnvAt st (bodyTxt nt) = true := by
          simpa [PlainDisplay.equEnvAt, lookupEnv, hst.envs] using hea
        unfold PlainDisplay.equEnvAt at hea'
        cases hq : lookupEnv st (bodyTxt nt) with
        | none => rw [hq] at hea'; cases hea'
        | some e => rw [hq] at hea'; exact ⟨e, rfl, hea'⟩
      have hmb : ∀ t ∈ PlainMath.mathToks b, PlainMath.BodyTok T t :=
        PlainMath.mathToks_body T b (fun t ht => (hb t ht).bodyItem)
      rw [show f + (PlainMath.mathToks b).length + nt.length + nt'.length + 11
          = (f + (PlainMath.mathToks b).length + nt.length + nt'.length + 7) + 4 by omega,
        PlainDisplay.seq_beg_equ T _ p q1 q2 nt _ envStop out st env' hn1' (by omega) hle hoke ha,
        PlainDisplay.seq_mathBegin_step T _ p (bodyTxt nt) _ envStop _ st hx1 hx2]
      have hsec : expandMathSection T (f + (PlainMath.mathToks b).length + nt.length + nt'.length + 5)
          (b ++ PlainItem.endTok p' :: lbr q1' :: (nt' ++ rbr q2' :: flat ps)) p PlainDisplay.dispStops
          (some (bodyTxt nt)) [] st
          = .ok ({ out := (PlainMath.mathToks b).map (PlainMath.mathTokOf st),
                   term := some (PlainItem.endTok p'), buf := flat ps }, st) := by
        rw [show f + (PlainMath.mathToks b).length + nt.length + nt'.length + 5
            = (f + nt.length + nt'.length + 5) + (PlainMath.mathToks b).length by omega,
          PlainDisplay.mathSection_run T st p _ _ b _ [] hb, List.nil_append, ← hnn]
        rw [← hnn] at hle
        exact PlainDisplay.mathSection_end T st (f + nt.length + nt'.length + 1) p p' q1' q2' nt'
          (flat ps) _ env' hn2' (by omega) hle hoke (by
            intro t ht
            obtain ⟨u, _, rfl⟩ := List.mem_map.mp ht
            exact PlainMath.isMathTok_mathTokOf st u)
      have him := PlainDisplay.expandDisplayMath_simple T st _ _ (PlainDisplay.mbTok p (bodyTxt nt))
        (bodyTxt nt) (PlainMath.mathToks b) (PlainItem.endTok p') (flat ps) rot ls _ el hsec rfl rfl rfl
        hmb hel' hds hrot hls hr
      rw [M.bind_ok _ (fun r => expandSequence T _ r.2 envStop (_ ++ r.1)) _ _ _ him]
      simp only []
      have hrot2 := PlainDisplay.rotOf_setRot_disp st (curSettings st) rot (rotL rot.disp) hrot
      have hsame : SameM st (setRot st { rot with disp := rotL rot.disp }) := ⟨rfl, rfl, rfl, rfl, rfl⟩
      have hep : PlainDisplay.elemPos T ops b = el.pos := by
        rw [← hops']
        simp [PlainDisplay.elemPos, hel']
      obtain ⟨st', h1, h2⟩ := ih (f + (PlainMath.mathToks b).length + nt.length + nt'.length + 7)
        (out ++ [mkAction p, mkAction p] ++ PlainDisplay.dispOut T ((rotL rot.disp).headD []) p el.pos
          (PlainMath.firstPos (PlainMath.mathToks b)) (PlainMath.bodyTxt (PlainMath.mathToks b)))
        (setRot st { rot with disp := rotL rot.disp }) { rot with disp := rotL rot.disp }
        (by rw [cost_congr ps st _ hsame]; omega) hrest (Live_congr T ps st _ hsame hlive.2)
        (hst.of_eq rfl rfl rfl rfl rfl rfl rfl rfl rfl)
        ⟨fun h0 => ⟨hrot2, (hm.1 h0).2.1, hls⟩, fun _ => ⟨hrot2, rotL_ne_nil _ hne, hls⟩⟩
                ((hpv.tail2 (fun _ => by simp only [outP, List.append_assoc, List.cons_append, List.nil_append, hep])).congr hsame)
      refine ⟨st', ?_, ?_⟩
      · refine Eq.trans h1 ?_
        rw [outP_congr T ps st _ _ hsame]
        have hep : PlainDisplay.elemPos T ops b = el.pos := by
          rw [← hops']
          simp [PlainDisplay.elemPos, hel']
        simp only [outP, List.append_assoc, List.cons_append, List.nil_append, hep]
      · rw [h2]
        exact finalSt_rots ps st _ st'.rots
    | beg p q1 q2 nt =>
      obtain ⟨hnt, hle, hrest⟩ := hok
      have hle' : PlainItem.listEnvAt st (bodyTxt nt) = true := by
        simpa [PlainItem.listEnvAt, lookupEnv, hst.envs] using hle
      obtain ⟨hl1, hl2, hl3⟩ := PlainItem.listEnvAt_facts hle'
      simp only [cost] at hf
      obtain ⟨f, rfl⟩ : ∃ f, fuel = f + 3 := ⟨fuel - 3, by omega⟩
      have hflat : flat (Piece.beg p q1 q2 nt :: ps)
          = PlainItem.begTok p :: lbr q1 :: (nt ++ rbr q2 :: flat ps) := by
        simp [flat, Piece.toks]
      rw [hflat, PlainItem.seq_beg_step T f p q1 q2 nt (flat ps) envStop out st
        (PlainItem.envOf st (bodyTxt nt)) (PlainItem.styleOf st (bodyTxt nt)) (hnt.congr hlang)
        (by omega) hl1 hl2 hl3 ha]
      obtain ⟨st', h1, h2⟩ := ih f
        (out ++ [PlainItem.envOut (PlainItem.envOf st (bodyTxt nt)) p, mkAction p])
        (nextSt st (.beg p q1 q2 nt)) rot (by omega) hrest hlive.2
        (hst.of_eq rfl rfl rfl rfl rfl rfl rfl rfl rfl) (RotOk.congr (st := st) rfl rfl hm)
                (hpv.tail (fun _ => rfl))
      refine ⟨st', h1.trans ?_, h2⟩
      simp only [outP, List.append_assoc, List.cons_append, List.nil_append]
    | item p sp =>
      obtain ⟨hsp, hhead, hbl, hrest⟩ := hok
      have hlab : PlainItem.labelAt T st st.itemStack = true := hlive.1
      simp only [cost] at hf
      obtain ⟨f, rfl⟩ : ∃ f, fuel = f + 5 := ⟨fuel - 5, by omega⟩
      have hflat : flat (Piece.item p sp :: ps) = PlainItem.itemTok p :: (sp ++ flat ps) := by
        simp [flat, Piece.toks]
      cases hstk : st.itemStack with
      | nil => rw [hstk] at hlab; simp [PlainItem.labelAt] at hlab
      | cons g gs =>
        rw [hstk] at hlab
        cases hil : itemLabel T.itemDefaultLabel g with
        | none => simp [PlainItem.labelAt, hil] at hlab
        | some lab =>
          have hlok : PlainItem.labOk T st lab = true := by
            simpa [PlainItem.labelAt, hil] using hlab
          have hb : (activeChars T st).contains [' '] = false := by
            rw [activeChars_congr T st1 st hlang]; exact hbl
          rw [hflat, PlainItem.seq_item_step T f p sp (flat ps) envStop out st g gs lab
            (fun t ht => by simp [isSpaceTok, isLangK, hsp t ht]) hhead.1 hhead.2 hstk hil hlok ha hb]
          obtain ⟨st', h1, h2⟩ := ih f
            (out ++ [mkAction p, PlainItem.spTok p, PlainItem.labTok p lab, PlainItem.spTok p])
            (nextSt st (.item p sp)) rot (by omega) hrest hlive.2 hst.itemSt
            (RotOk.congr (st := st) (itemSt_fields st).1 (itemSt_fields st).2.2.2.2.2.2.2.2.2.1 hm)
                (hpv.tail2 (fun _ => by simp only [outP, List.append_assoc, List.cons_append, List.nil_append, hstk, PlainItem.labOf, hil, Option.getD_some]))
          refine ⟨st', h1.trans ?_, h2⟩
          simp only [outP, List.append_assoc, List.cons_append, List.nil_append, hstk, PlainItem.labOf,
            hil, Option.getD_some]
    | itemL p sp b1 b2 lab pc =>
      obtain ⟨hsp, hlab, hbl, hpu, hrest⟩ := hok
      have hpc : punctOf T (pvOf out) = pc := hpv.head
      simp only [cost] at hf
      obtain ⟨f, rfl⟩ : ∃ f, fuel = f + (labArg b1 lab).length + 7 :=
        ⟨fuel - ((labArg b1 lab).length + 7), by omega⟩
      have hflat : flat (Piece.itemL p sp b1 b2 lab pc :: ps)
          = PlainItem.itemTok p :: (sp ++ PlainRef.chTok b1 '[' :: (lab ++ PlainRef.chTok b2 ']' :: flat ps)) := by
        simp [flat, Piece.toks]
      have hb : (activeChars T st).contains [' '] = false := by
        rw [activeChars_congr T st1 st hlang]; exact hbl
      have hpu' : punctOk T st = true := by
        have e : PlainItem.labOk T st = PlainItem.labOk T st1 := by
          funext lb; simp only [PlainItem.labOk, activeChars_congr T st1 st hlang]
        rw [PlainItemL.punctOk, e]; exact hpu
      have hpl : (punctToks pc (PlainRef.lastPos (labArg b1 lab))).length ≤ 1 := by
        cases pc <;> simp [punctToks]
      rw [hflat, PlainItemL.seq_itemL_step T f p sp b1 b2 lab (flat ps) envStop out st
        (fun t ht => by simp [isSpaceTok, isLangK, hsp t ht]) (hlab.congr hlang) ha hb hpu', hpc]
      obtain ⟨st', h1, h2⟩ := ih (f + 1 - (punctToks pc (PlainRef.lastPos (labArg b1 lab))).length)
        (out ++ itemLOut p (labArg b1 lab) pc) st rot (by omega) hrest hlive.2 hst hm
        (hpv.tail (fun _ => rfl))
      refine ⟨st', h1.trans ?_, h2⟩
      simp only [outP, List.append_assoc]
    | ubeg p q1 q2 nt =>
      obtain ⟨hn, hun, hrest⟩ := hok
      simp only [cost] at hf
      obtain ⟨f, rfl⟩ : ∃ f, fuel = f + 2 := ⟨fuel - 2, by omega⟩
      have hflat : flat (Piece.ubeg p q1 q2 nt :: ps)
          = PlainItem.begTok p :: lbr q1 :: (nt ++ rbr q2 :: flat ps) := by
        simp [flat, Piece.toks]
      have hl : lookupEnv st (bodyTxt nt) = none := by
        rw [← hun]; simp only [lookupEnv, hst.envs]
      rw [hflat, PlainUnkn2.seq_ubeg_step T f p q1 q2 nt (flat ps) envStop out st (hn.congr hlang)
        (by omega) hl ha]
      obtain ⟨st', h1, h2⟩ := ih f (out ++ [mkAction p]) (nextSt st (.ubeg p q1 q2 nt)) rot (by omega)
        hrest hlive.2 (hst.of_eq rfl rfl rfl rfl rfl rfl rfl rfl rfl)
        (RotOk.congr (st := st) rfl rfl hm) (hpv.tail (fun _ => rfl))
      refine ⟨st', h1.trans ?_, h2⟩
      simp only [outP, List.append_assoc, List.singleton_append]
    | uen p q1 q2 nt =>
      obtain ⟨hn, hun, hrest⟩ := hok
      simp only [cost] at hf
      obtain ⟨f, rfl⟩ : ∃ f, fuel = f + 2 := ⟨fuel - 2, by omega⟩
      have hflat : flat (Piece.uen p q1 q2 nt :: ps)
          = PlainItem.endTok p :: lbr q1 :: (nt ++ rbr q2 :: flat ps) := by
        simp [flat, Piece.toks]
      have hl : lookupEnv st (bodyTxt nt) = none := by
        rw [← hun]; simp only [lookupEnv, hst.envs]
      subst henvStop
      rw [hflat, PlainUnkn2.seq_uend_step T f p q1 q2 nt (flat ps) out st (hn.congr hlang)
        (by omega) hl ha]
      obtain ⟨st', h1, h2⟩ := ih f (out ++ [mkAction p]) st rot (by omega)
        hrest hlive.2 hst hm (hpv.tail (fun _ => rfl))
      refine ⟨st', h1.trans ?_, h2⟩
      simp only [outP, List.append_assoc, List.singleton_append]
    | en p q1 q2 nt =>
      obtain ⟨hnt, hle, hrest⟩ := hok
      have hle' : PlainItem.listEnvAt st (bodyTxt nt) = true := by
        simpa [PlainItem.listEnvAt, lookupEnv, hst.envs] using hle
      obtain ⟨hl1, hl2, _⟩ := PlainItem.listEnvAt_facts hle'
      simp only [cost] at hf
      obtain ⟨f, rfl⟩ : ∃ f, fuel = f + 2 := ⟨fuel - 2, by omega⟩
      have hflat : flat (Piece.en p q1 q2 nt :: ps)
          = PlainItem.endTok p :: lbr q1 :: (nt ++ rbr q2 :: flat ps) := by
        simp [flat, Piece.toks]
      subst henvStop
      rw [hflat, PlainItem.seq_end_step T f p q1 q2 nt (flat ps) out st
        (PlainItem.envOf st (bodyTxt nt)) (hnt.congr hlang) (by omega) hl1 hl2 ha]
      obtain ⟨st', h1, h2⟩ := ih f
        (out ++ [PlainItem.envOut (PlainItem.envOf st (bodyTxt nt)) p])
        (nextSt st (.en p q1 q2 nt)) rot (by omega) hrest hlive.2 hst.endSt
        (RotOk.congr (st := st) (endSt_fields st).1 (endSt_fields st).2.2.2.2.2.2.2.2.2.1 hm)
                (hpv.tail (fun _ => rfl))
      refine ⟨st', h1.trans ?_, h2⟩
      simp only [outP, List.append_assoc, List.cons_append, List.nil_append]

/-! ### `finalSt`, field by field -/

theorem useSt_unknowns (st : PState) (name : Str) :
    (useSt st name).unknowns
      = ((if (lookupMacro st ('\\' :: name)).isNone then [('\\' :: name)] else [])).foldl addU
          st.unknowns := by
  unfold PlainMacroArgs.useSt
  split <;> simp_all

/-- the fields of the state behind the buffer that the result of `tex2txt` depends on -/
theorem finalSt_fields : ∀ (ps : List Piece) (st : PState),
    (finalSt st ps).unknowns = (names st ps).foldl addU st.unknowns ∧
    (finalSt st ps).extracted = st.extracted ++ flowsOf ps ∧
    (finalSt st ps).diags = st.diags ∧ (finalSt st ps).nest = st.nest ∧
    (finalSt st ps).latex = st.latex ∧
    (finalSt st ps).foreign = (st.foreign || (!(flowsOf ps).isEmpty && st.nest != 1))
  | [], st => by simp [finalSt, names, flowsOf]
  | pc :: rest, st => by
    obtain ⟨h1, h2, h3, h4, h5, h6⟩ := finalSt_fields rest (nextSt st pc)
    cases pc with
    | cw p name sk =>
      exact ⟨by rw [finalSt, h1]; rfl, by rw [finalSt, h2]; rfl, by rw [finalSt, h3]; rfl,
        by rw [finalSt, h4]; rfl, by rw [finalSt, h5]; rfl, by rw [finalSt, h6]; rfl⟩
    | foot fn lb b rb =>
      refine ⟨by rw [finalSt, h1]; rfl, ?_, by rw [finalSt, h3]; rfl, by rw [finalSt, h4]; rfl,
        by rw [finalSt, h5]; rfl, ?_⟩
      · rw [finalSt, h2]
        simp [nextSt, addFlow, flowsOf]
      · rw [finalSt, h6]
        simp only [nextSt, addFlow, flowsOf, List.isEmpty_cons, Bool.not_false, Bool.true_and]
        cases st.foreign <;> cases (st.nest != 1) <;> cases (flowsOf rest).isEmpty <;> rfl
    | defn p q1 q2 q3 q4 q5 q6 q7 q8 name n body =>
      exact ⟨by rw [finalSt, h1]; rfl, by rw [finalSt, h2]; rfl, by rw [finalSt, h3]; rfl,
        by rw [finalSt, h4]; rfl, by rw [finalSt, h5]; rfl, by rw [finalSt, h6]; rfl⟩
    | ddef p q2 q q7 q8 name n body =>
      exact ⟨by rw [finalSt, h1]; rfl, by rw [finalSt, h2]; rfl, by rw [finalSt, h3]; rfl,
        by rw [finalSt, h4]; rfl, by rw [finalSt, h5]; rfl, by rw [finalSt, h6]; rfl⟩
    | ppar _ _ => exact ⟨h1, h2, h3, h4, h5, h6⟩
    | pbeg _ _ _ _ _ _ _ => exact ⟨h1, h2, h3, h4, h5, h6⟩
    | pen _ _ _ _ => exact ⟨h1, h2, h3, h4, h5, h6⟩
    | call p q1 q2 name b =>
      refine ⟨by rw [finalSt, h1]; rfl, ?_, by rw [finalSt, h3]; rfl, by rw [finalSt, h4]; rfl,
        by rw [finalSt, h5]; rfl, ?_⟩
      · rw [finalSt, h2]
        simp [nextSt, addFlow, flowsOf]
      · rw [finalSt, h6]
        simp only [nextSt, addFlow, flowsOf, List.isEmpty_cons, Bool.not_false, Bool.true_and]
        cases st.foreign <;> cases (st.nest != 1) <;> cases (flowsOf rest).isEmpty <;> rfl
    | callO p b1 b2 q1 q2 name opt b =>
      refine ⟨by rw [finalSt, h1]; rfl, ?_, by rw [finalSt, h3]; rfl, by rw [finalSt, h4]; rfl,
        by rw [finalSt, h5]; rfl, ?_⟩
      · rw [finalSt, h2]
        simp [nextSt, addFlow, flowsOf]
      · rw [finalSt, h6]
        simp only [nextSt, addFlow, flowsOf, List.isEmpty_cons, Bool.not_false, Bool.true_and]
        cases st.foreign <;> cases (st.nest != 1) <;> cases (flowsOf rest).isEmpty <;> rfl
    | fen _ _ _ _ => exact ⟨h1, h2, h3, h4, h5, h6⟩
    | fbegN _ _ _ _ _ _ _ => exact ⟨h1, h2, h3, h4, h5, h6⟩
    | fbeg _ _ _ _ _ => exact ⟨h1, h2, h3, h4, h5, h6⟩
    | use p name gs =>
      have e : ∀ {α} (f : PState → α), (∀ s u, f { s with unknowns := u } = f s) →
          f (nextSt st (.use p name gs)) = f st := by
        intro α f hf
        simp only [nextSt, PlainMacroArgs.useSt]
        split
        · rfl
        · exact hf _ _
      refine ⟨?_, ?_, ?_, ?_, ?_, ?_⟩
      · rw [finalSt, h1]
        simp only [names, List.foldl_append]
        rw [show (nextSt st (.use p name gs)).unknowns = (useSt st name).unknowns from rfl,
          useSt_unknowns]
      · rw [finalSt, h2, e (·.extracted) (fun _ _ => rfl)]; rfl
      · rw [finalSt, h3, e (·.diags) (fun _ _ => rfl)]
      · rw [finalSt, h4, e (·.nest) (fun _ _ => rfl)]
      · rw [finalSt, h5, e (·.latex) (fun _ _ => rfl)]
      · rw [finalSt, h6, e (·.foreign) (fun _ _ => rfl), e (·.nest) (fun _ _ => rfl)]; rfl
    | itemL _ _ _ _ _ _ => exact ⟨h1, h2, h3, h4, h5, h6⟩
    | ubeg p q1 q2 nt =>
      exact ⟨by rw [finalSt, h1]; rfl, by rw [finalSt, h2]; rfl, by rw [finalSt, h3]; rfl,
        by rw [finalSt, h4]; rfl, by rw [finalSt, h5]; rfl, by rw [finalSt, h6]; rfl⟩
    | uen _ _ _ _ => exact ⟨h1, h2, h3, h4, h5, h6⟩
    | tok _ => exact ⟨h1, h2, h3, h4, h5, h6⟩
    | spc _ => exact ⟨h1, h2, h3, h4, h5, h6⟩
    | br _ => exact ⟨h1, h2, h3, h4, h5, h6⟩
    | van _ _ _ _ _ _ => exact ⟨h1, h2, h3, h4, h5, h6⟩
    | com _ => exact ⟨h1, h2, h3, h4, h5, h6⟩
    | verb _ => exact ⟨h1, h2, h3, h4, h5, h6⟩
    | math _ _ _ => exact ⟨h1, h2, h3, h4, h5, h6⟩
    | ref _ _ _ _ _ _ => exact ⟨h1, h2, h3, h4, h5, h6⟩
    | cite _ _ _ _ _ => exact ⟨h1, h2, h3, h4, h5, h6⟩
    | citeN _ _ _ _ _ _ _ _ => exact ⟨h1, h2, h3, h4, h5, h6⟩
    | head _ _ _ _ => exact ⟨h1, h2, h3, h4, h5, h6⟩
    | acc _ _ _ _ _ _ => exact ⟨h1, h2, h3, h4, h5, h6⟩
    | disp _ _ _ _ => exact ⟨h1, h2, h3, h4, h5, h6⟩
    | denv _ _ _ _ _ _ _ _ _ _ => exact ⟨h1, h2, h3, h4, h5, h6⟩
    | beg p q1 q2 nt =>
      exact ⟨by rw [finalSt, h1]; rfl, by rw [finalSt, h2]; rfl, by rw [finalSt, h3]; rfl,
        by rw [finalSt, h4]; rfl, by rw [finalSt, h5]; rfl, by rw [finalSt, h6]; rfl⟩
    | item p sp =>
      obtain ⟨_, _, _, _, _, _, _, _, _, _, a11, a12, a13, a14, a15, a16⟩ := itemSt_fields st
      refine ⟨?_, ?_, ?_, ?_, ?_, ?_⟩
      · rw [finalSt, h1]; simp only [names, nextSt, a11]
      · rw [finalSt, h2]; simp only [flowsOf, nextSt, a12]
      · rw [finalSt, h3]; simp only [nextSt, a13]
      · rw [finalSt, h4]; simp only [nextSt, a14]
      · rw [finalSt, h5]; simp only [nextSt, a15]
      · rw [finalSt, h6]; simp only [flowsOf, nextSt, a14, a16]
    | en p q1 q2 nt =>
      obtain ⟨_, _, _, _, _, _, _, _, _, _, a11, a12, a13, a14, a15, a16⟩ := endSt_fields st
      refine ⟨?_, ?_, ?_, ?_, ?_, ?_⟩
      · rw [finalSt, h1]; simp only [names, nextSt, a11]
      · rw [finalSt, h2]; simp only [flowsOf, nextSt, a12]
      · rw [finalSt, h3]; simp only [nextSt, a13]
      · rw [finalSt, h4]; simp only [nextSt, a14]
      · rw [finalSt, h5]; simp only [nextSt, a15]
      · rw [finalSt, h6]; simp only [flowsOf, nextSt, a14, a16]

/-! ### the skip pre-pass -/

/-- the skip pre-pass of `parser_work` sees no begin marker -/
theorem PiecesOk.nobegin {T : PTables} {st : PState} : ∀ {ps : List Piece}, PiecesOk T st ps →
    ∀ t ∈ flat ps, (t.kind == .comment && startsWith t.txt st.skipBegin) = false
  | [], _, _, h => by simp [flat] at h
  | .tok t :: rest, hok, x, hx => by
    simp only [flat, Piece.toks, List.singleton_append, List.mem_cons] at hx
    rcases hx with rfl | hx
    · have := hok.1.notComment
      simp [this]
    · exact PiecesOk.nobegin hok.2.2 x hx
  | .spc t :: rest, hok, x, hx => by
    simp only [flat, Piece.toks, List.singleton_append, List.mem_cons] at hx
    rcases hx with rfl | hx
    · simp [hok.1.1]
    · exact PiecesOk.nobegin hok.2 x hx
  | .br t :: rest, hok, x, hx => by
    simp only [flat, Piece.toks, List.singleton_append, List.mem_cons] at hx
    rcases hx with rfl | hx
    · simp [hok.1.kind]
    · exact PiecesOk.nobegin hok.2 x hx
  | .cw p name sk :: rest, hok, x, hx => by
    simp only [flat, Piece.toks, List.cons_append, List.mem_cons, List.mem_append] at hx
    rcases hx with rfl | hx | hx
    · simp [cwTok]
    · have := (hok.2.1 x hx).2
      simp [this]
    · exact PiecesOk.nobegin hok.2.2.2 x hx
  | .van p q1 q2 name key repl :: rest, hok, x, hx => by
    obtain ⟨_, _, hkey, hrest⟩ := hok
    simp only [flat, Piece.toks, List.cons_append, List.append_assoc, List.mem_cons,
      List.mem_append, List.nil_append] at hx
    rcases hx with rfl | rfl | hx | rfl | hx
    · simp [cwTok]
    · simp [lbr]
    · have := (hkey x hx).2
      simp [this]
    · simp [rbr]
    · exact PiecesOk.nobegin hrest x hx
  | .com t :: rest, hok, x, hx => by
    simp only [flat, Piece.toks, List.singleton_append, List.mem_cons] at hx
    rcases hx with rfl | hx
    · simp [hok.1.nskip]
    · exact PiecesOk.nobegin hok.2 x hx
  | .verb t :: rest, hok, x, hx => by
    simp only [flat, Piece.toks, List.singleton_append, List.mem_cons] at hx
    rcases hx with rfl | hx
    · simp [hok.1]
    · exact PiecesOk.nobegin hok.2 x hx
  | .math d1 b d2 :: rest, hok, x, hx => by
    obtain ⟨h1, _, hb, h2, hrest⟩ := hok
    simp only [flat, Piece.toks, List.cons_append, List.append_assoc, List.mem_cons,
      List.mem_append, List.nil_append] at hx
    rcases hx with rfl | hx | rfl | hx
    · rcases h1.kind with h | h <;> simp [h]
    · have := (hb x hx).notComment
      simp [this]
    · rcases h2.kind with h | h <;> simp [h]
    · exact PiecesOk.nobegin hrest x hx
  | .ref p q1 q2 name key repl :: rest, hok, x, hx => by
    obtain ⟨_, _, hkey, hrest⟩ := hok
    simp only [flat, Piece.toks, List.cons_append, List.append_assoc, List.mem_cons,
      List.mem_append, List.nil_append] at hx
    rcases hx with rfl | rfl | hx | rfl | hx
    · simp [cwTok]
    · simp [lbr]
    · have := (hkey x hx).2
      simp [this]
    · simp [rbr]
    · exact PiecesOk.nobegin hrest x hx
  | .cite p q1 q2 name key :: rest, hok, x, hx => by
    obtain ⟨_, hkey, _, hrest⟩ := hok
    simp only [flat, Piece.toks, List.cons_append, List.append_assoc, List.mem_cons,
      List.mem_append, List.nil_append] at hx
    rcases hx with rfl | rfl | hx | rfl | hx
    · simp [cwTok]
    · simp [lbr]
    · have := (hkey x hx).2
      simp [this]
    · simp [rbr]
    · exact PiecesOk.nobegin hrest x hx
  | .citeN p b1 b2 q1 q2 name note key :: rest, hok, x, hx => by
    obtain ⟨_, _, hnote, hkey, _, hrest⟩ := hok
    simp only [flat, Piece.toks, List.cons_append, List.append_assoc, List.mem_cons,
      List.mem_append, List.nil_append] at hx
    rcases hx with rfl | rfl | hx | rfl | rfl | hx | rfl | hx
    · simp [cwTok]
    · simp [PlainRef.chTok]
    · have := (hnote x hx).1.plain.notComment
      simp [this]
    · simp [PlainRef.chTok]
    · simp [lbr]
    · have := (hkey x hx).2
      simp [this]
    · simp [rbr]
    · exact PiecesOk.nobegin hrest x hx
  | .foot fn lb b rb :: rest, hok, x, hx => by
    obtain ⟨hfn, hlb, hrb, _, hb, _, _, hrest⟩ := hok
    simp only [flat, Piece.toks, List.cons_append, List.append_assoc, List.mem_cons,
      List.mem_append, List.nil_append] at hx
    rcases hx with rfl | rfl | hx | rfl | hx
    · simp [hfn.kind]
    · rcases hlb.kind with h | h <;> simp [h]
    · have := (hb x hx).plain.notComment
      simp [this]
    · rcases hrb.kind with h | h <;> simp [h]
    · exact PiecesOk.nobegin hrest x hx
  | .head hd lb b rb :: rest, hok, x, hx => by
    obtain ⟨hhd, hlb, hrb, _, hb, _, hrest⟩ := hok
    simp only [flat, Piece.toks, List.cons_append, List.append_assoc, List.mem_cons,
      List.mem_append, List.nil_append] at hx
    rcases hx with rfl | rfl | hx | rfl | hx
    · simp [hhd.kind]
    · rcases hlb.kind with h | h <;> simp [h]
    · have := (hb x hx).plain.notComment
      simp [this]
    · rcases hrb.kind with h | h <;> simp [h]
    · exact PiecesOk.nobegin hrest x hx
  | .acc p name sp bo q l :: rest, hok, x, hx => by
    obtain ⟨_, hsp, _, hrest⟩ := hok
    simp only [flat, Piece.toks, List.cons_append, List.append_assoc, List.mem_cons,
      List.mem_append] at hx
    rcases hx with rfl | hx | hx | hx
    · simp [PlainAccent.accTok]
    · simp [hsp x hx]
    · cases bo with
      | none =>
        simp only [PlainAccent.argT, List.mem_singleton] at hx
        subst hx; simp [PlainAccent.letTok]
      | some qq =>
        simp only [PlainAccent.argT, List.mem_cons, List.not_mem_nil, or_false] at hx
        rcases hx with rfl | rfl | rfl <;> simp [PlainAccent.letTok, lbr, rbr]
    · exact PiecesOk.nobegin hrest x hx
  | .defn p q1 q2 q3 q4 q5 q6 q7 q8 name n body :: rest, hok, x, hx => by
    obtain ⟨_, _, _, hb, hrest⟩ := hok
    simp only [flat, Piece.toks, List.cons_append, List.append_assoc, List.mem_cons,
      List.mem_append, List.nil_append] at hx
    rcases hx with rfl | rfl | rfl | rfl | rfl | rfl | rfl | rfl | hx | rfl | hx
    · simp [cwTok]
    · simp [lbr]
    · simp [cwTok]
    · simp [rbr]
    · simp [txtTok]
    · simp [txtTok]
    · simp [txtTok]
    · simp [lbr]
    · rcases hb.2 x hx with ⟨h1, _⟩ | ⟨k, hk, _⟩
      · have := h1.notComment
        simp [this]
      · have : x.kind ≠ .comment := by
          intro e
          simp [argRef, e] at hk
        simp [this]
    · simp [rbr]
    · exact PiecesOk.nobegin hrest x hx
  | .ddef p q2 q q7 q8 name n body :: rest, hok, x, hx => by
    obtain ⟨_, hb, hrest⟩ := hok
    simp only [flat, Piece.toks, List.cons_append, List.append_assoc, List.mem_cons,
      List.mem_append, List.nil_append] at hx
    rcases hx with rfl | rfl | hx | rfl | hx | rfl | hx
    · simp [cwTok]
    · simp [cwTok]
    · have := PlainDefTex.paramToks_notComment _ _ _ x hx
      simp [this]
    · simp [lbr]
    · rcases hb.2 x hx with ⟨h1, _⟩ | ⟨k, hk, _⟩
      · have := h1.notComment
        simp [this]
      · have : x.kind ≠ .comment := by
          intro e
          simp [argRef, e] at hk
        simp [this]
    · simp [rbr]
    · exact PiecesOk.nobegin hrest x hx
  | .ppar p sp :: rest, hok, x, hx => by
    obtain ⟨_, hsp, _, hrest⟩ := hok
    simp only [flat, Piece.toks, List.cons_append, List.mem_cons, List.mem_append] at hx
    rcases hx with rfl | hx | hx
    · simp [cwTok]
    · simp [hsp x hx]
    · exact PiecesOk.nobegin hrest x hx
  | .pbeg p q1 q2 q3 q4 nt ag :: rest, hok, x, hx => by
    obtain ⟨hn, _, hat, hrest⟩ := hok
    simp only [flat, Piece.toks, List.cons_append, List.append_assoc, List.mem_cons,
      List.mem_append, List.nil_append] at hx
    rcases hx with rfl | rfl | hx | rfl | rfl | hx | rfl | hx
    · simp [PlainItem.begTok]
    · simp [lbr]
    · have := hn.notComment x hx
      simp [this]
    · simp [rbr]
    · simp [lbr]
    · have := (hat x hx).2
      simp [this]
    · simp [rbr]
    · exact PiecesOk.nobegin hrest x hx
  | .pen p q1 q2 nt :: rest, hok, x, hx => by
    obtain ⟨hn, _, hrest⟩ := hok
    simp only [flat, Piece.toks, List.cons_append, List.append_assoc, List.mem_cons,
      List.mem_append, List.nil_append] at hx
    rcases hx with rfl | rfl | hx | rfl | hx
    · simp [PlainItem.endTok]
    · simp [lbr]
    · have := hn.notComment x hx
      simp [this]
    · simp [rbr]
    · exact PiecesOk.nobegin hrest x hx
  | .call p q1 q2 name b :: rest, hok, x, hx => by
    obtain ⟨_, _, hb, _, _, hrest⟩ := hok
    simp only [flat, Piece.toks, List.cons_append, List.append_assoc, List.mem_cons,
      List.mem_append, List.nil_append] at hx
    rcases hx with rfl | rfl | hx | rfl | hx
    · simp [cwTok]
    · simp [lbr]
    · have := (hb x hx).plain.notComment
      simp [this]
    · simp [rbr]
    · exact PiecesOk.nobegin hrest x hx
  | .callO p b1 b2 q1 q2 name opt b :: rest, hok, x, hx => by
    obtain ⟨_, hopt, _, hb, _, _, hrest⟩ := hok
    simp only [flat, Piece.toks, List.cons_append, List.append_assoc, List.mem_cons,
      List.mem_append, List.nil_append] at hx
    rcases hx with rfl | rfl | hx | rfl | rfl | hx | rfl | hx
    · simp [cwTok]
    · simp [PlainRef.chTok]
    · have := (hopt x hx).1.plain.notComment
      simp [this]
    · simp [PlainRef.chTok]
    · simp [lbr]
    · have := (hb x hx).plain.notComment
      simp [this]
    · simp [rbr]
    · exact PiecesOk.nobegin hrest x hx
  | .fen p q1 q2 nt :: rest, hok, x, hx => by
    obtain ⟨hnt, _, hrest⟩ := hok
    simp only [flat, Piece.toks, List.cons_append, List.append_assoc, List.mem_cons,
      List.mem_append, List.nil_append] at hx
    rcases hx with rfl | rfl | hx | rfl | hx
    · simp [PlainItem.endTok]
    · simp [lbr]
    · have := (hnt.2 x hx).plain.notComment
      simp [this]
    · simp [rbr]
    · exact PiecesOk.nobegin hrest x hx
  | .fbegN p q1 q2 b1 b2 nt note :: rest, hok, x, hx => by
    obtain ⟨hnt, _, hnote, hrest⟩ := hok
    simp only [flat, Piece.toks, List.cons_append, List.append_assoc, List.mem_cons,
      List.mem_append, List.nil_append] at hx
    rcases hx with rfl | rfl | hx | rfl | rfl | hx | rfl | hx
    · simp [PlainItem.begTok]
    · simp [lbr]
    · have := (hnt.2 x hx).plain.notComment
      simp [this]
    · simp [rbr]
    · simp [PlainRef.chTok]
    · have := (hnote x hx).1.plain.notComment
      simp [this]
    · simp [PlainRef.chTok]
    · exact PiecesOk.nobegin hrest x hx
  | .fbeg p q1 q2 nt sp :: rest, hok, x, hx => by
    obtain ⟨hnt, _, hsp, _, hrest⟩ := hok
    simp only [flat, Piece.toks, List.cons_append, List.append_assoc, List.mem_cons,
      List.mem_append, List.nil_append] at hx
    rcases hx with rfl | rfl | hx | rfl | hx | hx
    · simp [PlainItem.begTok]
    · simp [lbr]
    · have := (hnt.2 x hx).plain.notComment
      simp [this]
    · simp [rbr]
    · simp [hsp x hx]
    · exact PiecesOk.nobegin hrest x hx
  | .use p name gs :: rest, hok, x, hx => by
    obtain ⟨_, _, hg, hrest⟩ := hok
    simp only [flat, Piece.toks, List.cons_append, List.mem_cons, List.mem_append] at hx
    rcases hx with rfl | hx | hx
    · simp [cwTok]
    · rcases PlainMacroArgs.mem_groupsFlat hx with ⟨g, hg', rfl | rfl | hx'⟩
      · simp [lbr]
      · simp [rbr]
      · have := ((hg g hg').2 x hx').1.notComment
        simp [this]
    · exact PiecesOk.nobegin hrest x hx
  | .disp ops d1 b d2 :: rest, hok, x, hx => by
    obtain ⟨_, _, _, h1, _, hb, h2, hrest⟩ := hok
    simp only [flat, Piece.toks, List.cons_append, List.append_assoc, List.mem_cons,
      List.mem_append, List.nil_append] at hx
    rcases hx with rfl | hx | rfl | hx
    · simp [h1.kind]
    · rcases hb x hx with h | h
      · simp [h.body.kind]
      · simp [h]
    · rcases h2.kind with h | h | h <;> simp [h]
    · exact PiecesOk.nobegin hrest x hx
  | .denv ops p q1 q2 nt b p' q1' q2' nt' :: rest, hok, x, hx => by
    obtain ⟨_, _, hn1, hn2, _, _, _, _, _, hb, hrest⟩ := hok
    simp only [flat, Piece.toks, List.cons_append, List.append_assoc, List.mem_cons,
      List.mem_append, List.nil_append] at hx
    rcases hx with rfl | rfl | hx | rfl | hx | rfl | rfl | hx | rfl | hx
    · simp [PlainItem.begTok]
    · simp [lbr]
    · have := (hn1.2 x hx).1.notComment
      simp [this]
    · simp [rbr]
    · rcases hb x hx with h | h
      · simp [h.body.kind]
      · simp [h]
    · simp [PlainItem.endTok]
    · simp [lbr]
    · have := (hn2.2 x hx).1.notComment
      simp [this]
    · simp [rbr]
    · exact PiecesOk.nobegin hrest x hx
  | .beg p q1 q2 nt :: rest, hok, x, hx => by
    obtain ⟨hnt, _, hrest⟩ := hok
    simp only [flat, Piece.toks, List.cons_append, List.append_assoc, List.mem_cons,
      List.mem_append, List.nil_append] at hx
    rcases hx with rfl | rfl | hx | rfl | hx
    · simp [PlainItem.begTok]
    · simp [lbr]
    · have := (hnt.2 x hx).1.notComment
      simp [this]
    · simp [rbr]
    · exact PiecesOk.nobegin hrest x hx
  | .item p sp :: rest, hok, x, hx => by
    obtain ⟨hsp, _, _, hrest⟩ := hok
    simp only [flat, Piece.toks, List.cons_append, List.mem_cons, List.mem_append] at hx
    rcases hx with rfl | hx | hx
    · simp [PlainItem.itemTok]
    · simp [hsp x hx]
    · exact PiecesOk.nobegin hrest x hx
  | .itemL p sp b1 b2 lab pc :: rest, hok, x, hx => by
    obtain ⟨hsp, hlab, _, _, hrest⟩ := hok
    simp only [flat, Piece.toks, List.cons_append, List.append_assoc, List.mem_cons,
      List.mem_append, List.nil_append] at hx
    rcases hx with rfl | hx | rfl | hx | rfl | hx
    · simp [PlainItem.itemTok]
    · simp [hsp x hx]
    · simp [PlainRef.chTok]
    · have := (hlab x hx).1.plain.notComment
      simp [this]
    · simp [PlainRef.chTok]
    · exact PiecesOk.nobegin hrest x hx
  | .ubeg p q1 q2 nt :: rest, hok, x, hx => by
    obtain ⟨hnt, _, hrest⟩ := hok
    simp only [flat, Piece.toks, List.cons_append, List.append_assoc, List.mem_cons,
      List.mem_append, List.nil_append] at hx
    rcases hx with rfl | rfl | hx | rfl | hx
    · simp [PlainItem.begTok]
    · simp [lbr]
    · have := (hnt.2 x hx).1.notComment
      simp [this]
    · simp [rbr]
    · exact PiecesOk.nobegin hrest x hx
  | .uen p q1 q2 nt :: rest, hok, x, hx => by
    obtain ⟨hnt, _, hrest⟩ := hok
    simp only [flat, Piece.toks, List.cons_append, List.append_assoc, List.mem_cons,
      List.mem_append, List.nil_append] at hx
    rcases hx with rfl | rfl | hx | rfl | hx
    · simp [PlainItem.endTok]
    · simp [lbr]
    · have := (hnt.2 x hx).1.notComment
      simp [this]
    · simp [rbr]
    · exact PiecesOk.nobegin hrest x hx
  | .en p q1 q2 nt :: rest, hok, x, hx => by
    obtain ⟨hnt, _, hrest⟩ := hok
    simp only [flat, Piece.toks, List.cons_append, List.append_assoc, List.mem_cons,
      List.mem_append, List.nil_append] at hx
    rcases hx with rfl | rfl | hx | rfl | hx
    · simp [PlainItem.endTok]
    · simp [lbr]
    · have := (hnt.2 x hx).1.notComment
      simp [this]
    · simp [rbr]
    · exact PiecesOk.nobegin hrest x hx

end PlainMix4
end Yalafi
