/-
  Proofs/HtmlTextLits.lean — every literal piece of `reportPieces` is one of the string constants of `genhtml.py`
  (`templates`), a style string of `vars` or a decimal number; the only `raw` pieces are the file name
  (`allOk_reportPieces`).
-/
import YalafiVerif.Proofs.HtmlTextReport
namespace Yalafi
namespace HtmlText
open Html

/-! ### the literals are the program's templates -/

/-- every string constant of `genhtml.py` that goes into the report of one file -/
def templates : List String :=
  ["<span style=\"", "\" title=\"", "\">", "\n", "Suggestion: ", "Context: ", "<a href=\"", "\" target=\"_blank\">",
   "</a>", "</span>", "<tr>\n<td style=\"", "\" align=\"right\" valign=\"top\">", "&nbsp;&nbsp;</td>\n<td>",
   "</td>\n</tr>\n", "<table cellspacing=\"0\">\n", "</table>\n", "<tr><td style=\"", "&nbsp;&nbsp;</td><td>",
   "</td></tr>\n", "<a id=\"", "\"></a><H3>", "</H3>\n", "<a href=\"#", "-@@@", "<H3>Overlapping message(s) found:",
   " see here</H3></a>\n", " overlapping message(s)</H3>\n"]

/-- a literal piece is a template, a style string of `vars`, or a number -/
def litOk (V : Vars) (s : Str) : Prop :=
  s ∈ templates.map String.toList ∨ s = V.highlightStyle ∨ V.highlightStyleUnsure = some s ∨ s = V.numberStyle ∨
  (∀ c ∈ s, c.isDigit = true)

/-- the only unescaped data is the file name -/
def pieceOk (V : Vars) (file : Str) : TPiece → Prop
  | .lit s => litOk V s
  | .raw s => s = file
  | _ => True

def AllOk (V : Vars) (file : Str) (ps : List TPiece) : Prop := ∀ p ∈ ps, pieceOk V file p

theorem AllOk.append {V : Vars} {file : Str} {a b : List TPiece} (ha : AllOk V file a) (hb : AllOk V file b) :
    AllOk V file (a ++ b) := by
  intro p hp; rcases List.mem_append.1 hp with h | h
  · exact ha p h
  · exact hb p h

theorem AllOk.nil {V : Vars} {file : Str} : AllOk V file [] := by intro p hp; simp at hp

theorem AllOk.cons {V : Vars} {file : Str} {p : TPiece} {ps : List TPiece} (hp : pieceOk V file p) (hps : AllOk V file ps) :
    AllOk V file (p :: ps) := by
  intro q hq; rcases List.mem_cons.1 hq with h | h
  · subst h; exact hp
  · exact hps q h

theorem pieceOk_L (V : Vars) (file : Str) (s : String) (h : s ∈ templates) : pieceOk V file (L s) :=
  Or.inl (List.mem_map.2 ⟨s, h, rfl⟩)

theorem natToStr_digits' (n : Nat) : ∀ c ∈ natToStr n, c.isDigit = true := by
  intro c hc
  have : natToStr n = Nat.toDigits 10 n := by simp [natToStr, Nat.toString_eq_repr, Nat.toList_repr]
  rw [this] at hc
  exact Nat.isDigit_of_mem_toDigits (by decide) (by decide) hc

theorem allOk_titlePieces (V : Vars) (file : Str) (d : MatchData) (lin : Int) (unsure : Bool) :
    AllOk V file (titlePieces d lin unsure) := by
  intro p hp
  simp only [titlePieces, List.mem_cons, List.not_mem_nil, or_false] at hp
  rcases hp with h | h | h | h | h | h | h | h | h | h <;> subst h <;>
    first | trivial | exact pieceOk_L V file _ (by decide)

theorem beginMatch_allOk (V : Vars) (file : Str) (m : Json) (lin : Int) (unsure : Bool) (t : Tag)
    (h : beginMatch V m lin unsure = .ok t) : AllOk V file t.1 ∧ AllOk V file (t.2 ++ endMatch) := by
  obtain ⟨d, style, url, _, hs, _, rfl⟩ := beginMatch_ok V m lin unsure t h
  have hst : pieceOk V file (.lit style) := by
    cases unsure with
    | true => exact Or.inr (Or.inr (Or.inl (by simpa using hs)))
    | false =>
      simp only [Bool.false_eq_true, ↓reduceIte, Option.some.injEq] at hs
      exact Or.inr (Or.inl hs.symm)
  constructor
  · apply AllOk.append
    · unfold spanOpen
      refine AllOk.append (AllOk.append ?_ (allOk_titlePieces V file d lin unsure)) ?_
      · exact AllOk.cons (pieceOk_L V file _ (by decide)) (AllOk.cons hst (AllOk.cons (pieceOk_L V file _ (by decide)) AllOk.nil))
      · exact AllOk.cons (pieceOk_L V file _ (by decide)) AllOk.nil
    · cases url with
      | none => exact AllOk.nil
      | some u =>
        exact AllOk.cons (pieceOk_L V file _ (by decide)) (AllOk.cons trivial (AllOk.cons (pieceOk_L V file _ (by decide)) AllOk.nil))
  · apply AllOk.append
    · cases url with
      | none => exact AllOk.nil
      | some u => exact AllOk.cons (pieceOk_L V file _ (by decide)) AllOk.nil
    · exact AllOk.cons (pieceOk_L V file _ (by decide)) AllOk.nil

theorem matchTags_allOk (V : Vars) (file : Str) (ms : List Json) (hs : List HData) (tags : List Tag)
    (h : matchTags V ms hs = .ok tags) : ∀ t ∈ tags, AllOk V file t.1 ∧ AllOk V file (t.2 ++ endMatch) := by
  induction hs generalizing tags with
  | nil => simp [matchTags] at h; subst h; simp
  | cons hd hs ih =>
    unfold matchTags at h
    split at h
    · rename_i t ht
      split at h
      · rename_i ts hts
        cases h
        intro t' ht'
        simp only [List.mem_cons] at ht'
        rcases ht' with e | e
        · subst e; exact beginMatch_allOk V file _ _ _ _ ht
        · exact ih ts hts t' e
      · cases h
      · cases h
    · cases h
    · cases h

theorem allOk_getD (V : Vars) (file : Str) (tags : List Tag)
    (h : ∀ t ∈ tags, AllOk V file t.1 ∧ AllOk V file (t.2 ++ endMatch)) (idx : Nat) :
    AllOk V file (tags.getD idx ([], [])).1 ∧ AllOk V file ((tags.getD idx ([], [])).2 ++ endMatch) := by
  rw [List.getD_eq_getElem?_getD]
  cases hg : tags[idx]? with
  | none => exact ⟨AllOk.nil, AllOk.cons (pieceOk_L V file _ (by decide)) AllOk.nil⟩
  | some t => exact h t (List.mem_of_getElem? hg)

theorem allOk_plainW (V : Vars) (file : Str) (l : Str) : AllOk V file (plainW l) :=
  AllOk.cons (show pieceOk V file (.esc l) from trivial) AllOk.nil

/-- all pieces inside the chunks are fine -/
def ItemsAllOk (V : Vars) (file : Str) (its : List Item) : Prop := ∀ ps, Item.chunk ps ∈ its → AllOk V file ps

theorem itemsAllOk_lineItems (V : Vars) (file : Str) (w : Str → List TPiece) (hw : ∀ l, AllOk V file (w l)) (s : Str) :
    ItemsAllOk V file (lineItems w s) := by
  intro ps h
  simp only [lineItems, List.mem_flatMap] at h
  obtain ⟨l, _, hm⟩ := h
  have : ps = w l.1 := by
    cases l.2 <;> simp at hm <;> exact hm
  subst this
  exact hw _

theorem allOk_wrap (V : Vars) (file : Str) (t : Tag) (h : AllOk V file t.1 ∧ AllOk V file (t.2 ++ endMatch)) (l : Str) :
    AllOk V file (wrap t l) := by
  unfold wrap
  rw [List.append_assoc]
  exact AllOk.append (AllOk.append h.1 (AllOk.cons trivial AllOk.nil)) h.2

theorem itemsAllOk_append {V : Vars} {file : Str} {a b : List Item} (ha : ItemsAllOk V file a) (hb : ItemsAllOk V file b) :
    ItemsAllOk V file (a ++ b) := by
  intro ps h; rcases List.mem_append.1 h with h | h
  · exact ha ps h
  · exact hb ps h

theorem itemsAllOk_region (V : Vars) (file : Str) (tags : List Tag)
    (ht : ∀ t ∈ tags, AllOk V file t.1 ∧ AllOk V file (t.2 ++ endMatch)) (ps : List Piece) :
    ItemsAllOk V file (regionItems tags ps) := by
  induction ps with
  | nil => intro _ h; simp [regionItems] at h
  | cons p ps ih =>
    simp only [regionItems, List.flatMap_cons] at ih ⊢
    refine itemsAllOk_append ?_ ih
    cases p with
    | plain s => exact itemsAllOk_lineItems V file _ (allOk_plainW V file) s
    | hi idx s => exact itemsAllOk_lineItems V file _ (allOk_wrap V file _ (allOk_getD V file tags ht idx)) s

theorem itemsAllOk_res (V : Vars) (file : Str) (tags : List Tag)
    (ht : ∀ t ∈ tags, AllOk V file t.1 ∧ AllOk V file (t.2 ++ endMatch)) (rep : Report) :
    ItemsAllOk V file (resItems tags rep) := by
  unfold resItems
  split
  · exact itemsAllOk_lineItems V file _ (allOk_plainW V file) _
  · generalize rep.regions = rs
    induction rs with
    | nil => intro _ h; simp at h
    | cons r rs ih =>
      simp only [List.flatMap_cons]
      refine itemsAllOk_append (itemsAllOk_append (itemsAllOk_region V file tags ht r.pieces) ?_) ih
      intro _ h; simp at h

theorem allOk_itemPieces (V : Vars) (file : Str) (its : List Item) (h : ItemsAllOk V file its) :
    AllOk V file (itemPieces its) := by
  intro p hp
  simp only [itemPieces, List.mem_flatMap] at hp
  obtain ⟨i, hi, hp⟩ := hp
  cases i with
  | brk => simp [Item.pieces] at hp; subst hp; trivial
  | chunk ps => exact h ps hi p hp

theorem rowsP_allOk (V : Vars) (file : Str) (its : List Item) (h : ItemsAllOk V file its) (acc : List TPiece)
    (hacc : AllOk V file acc) : ∀ r ∈ rowsP acc its, AllOk V file r.1 := by
  induction its generalizing acc with
  | nil =>
    rw [rowsP]; split
    · simp
    · intro r hr; simp at hr; subst hr; exact hacc
  | cons i its ih =>
    have htl : ItemsAllOk V file its := fun ps hp => h ps (by simp [hp])
    cases i with
    | brk =>
      rw [rowsP]
      intro r hr
      simp only [List.mem_cons] at hr
      rcases hr with e | e
      · subst e; exact hacc
      · exact ih htl [] AllOk.nil r e
    | chunk ps =>
      rw [rowsP]
      exact ih htl _ (AllOk.append hacc (h ps (by simp)))

theorem allOk_numberedP (V : Vars) (file : Str) (rows : List (List TPiece × Bool))
    (hrows : ∀ r ∈ rows, AllOk V file r.1) (nums : List Int) : AllOk V file (numberedP V.numberStyle rows nums) := by
  induction rows generalizing nums with
  | nil => simp [numberedP]; exact AllOk.nil
  | cons r rs ih =>
    cases nums with
    | nil => simp [numberedP]; exact AllOk.nil
    | cons n nums =>
      rw [numberedP]
      refine AllOk.append (AllOk.append (AllOk.append ?_ (hrows r (by simp))) ?_) (ih (fun r' hr' => hrows r' (by simp [hr'])) nums)
      · refine AllOk.cons (pieceOk_L V file _ (by decide)) (AllOk.cons (Or.inr (Or.inr (Or.inr (Or.inl rfl))))
          (AllOk.cons (pieceOk_L V file _ (by decide)) (AllOk.cons ?_ (AllOk.cons (pieceOk_L V file _ (by decide)) AllOk.nil))))
        refine Or.inr (Or.inr (Or.inr (Or.inr ?_)))
        unfold lineLabel
        split
        · exact natToStr_digits' _
        · simp
      · exact AllOk.cons (pieceOk_L V file _ (by decide)) AllOk.nil

/-- **every literal of the report is a template of the program** (or a style string of `vars`, or a
    number), and the only data that is written unescaped is the file name -/
theorem allOk_reportPieces (V : Vars) (file : Str) (n : Nat) (rep : Report) (tags : List Tag)
    (ht : ∀ t ∈ tags, AllOk V file t.1 ∧ AllOk V file (t.2 ++ endMatch)) :
    AllOk V file (reportPieces V file n rep tags) := by
  unfold reportPieces
  refine AllOk.append (AllOk.append ?_ ?_) ?_
  · intro p hp
    unfold prefixPieces at hp
    cases hb : (!rep.overlaps.isEmpty) <;> simp only [hb, Bool.false_eq_true, ↓reduceIte, List.append_nil,
      List.cons_append, List.nil_append, List.mem_cons, List.not_mem_nil, or_false] at hp
    · rcases hp with h | h | h | h | h <;> subst h <;> first | trivial | rfl | exact pieceOk_L V file _ (by decide)
    · rcases hp with h | h | h | h | h | h | h | h | h | h | h <;> subst h <;>
        first | trivial | rfl | exact pieceOk_L V file _ (by decide)
  · unfold tablePieces
    split
    · exact allOk_itemPieces V file _ (itemsAllOk_res V file tags ht rep)
    · refine AllOk.append (AllOk.append (AllOk.cons (pieceOk_L V file _ (by decide)) AllOk.nil) ?_)
        (AllOk.cons (pieceOk_L V file _ (by decide)) AllOk.nil)
      exact allOk_numberedP V file _ (rowsP_allOk V file _ (itemsAllOk_res V file tags ht rep) [] AllOk.nil) _
  · unfold overlapPieces
    split
    · exact AllOk.nil
    · refine AllOk.append (AllOk.append ?_ ?_) (AllOk.cons (pieceOk_L V file _ (by decide)) AllOk.nil)
      · intro p hp
        simp only [postfixHead, List.mem_cons, List.not_mem_nil, or_false] at hp
        rcases hp with h | h | h | h | h | h | h <;> subst h <;>
          first | trivial | rfl | exact pieceOk_L V file _ (by decide)
      · intro p hp
        simp only [List.mem_flatMap] at hp
        obtain ⟨o, _, hp⟩ := hp
        revert p
        show AllOk V file (overlapRow V tags o)
        unfold overlapRow
        refine AllOk.append (AllOk.append ?_ ?_) (AllOk.cons (pieceOk_L V file _ (by decide)) AllOk.nil)
        · exact AllOk.cons (pieceOk_L V file _ (by decide)) (AllOk.cons (Or.inr (Or.inr (Or.inr (Or.inl rfl))))
            (AllOk.cons (pieceOk_L V file _ (by decide)) (AllOk.cons (Or.inr (Or.inr (Or.inr (Or.inr (natToStr_digits' _)))))
              (AllOk.cons (pieceOk_L V file _ (by decide)) AllOk.nil))))
        · exact allOk_itemPieces V file _
            (itemsAllOk_lineItems V file _ (allOk_wrap V file _ (allOk_getD V file tags ht o.idx)) _)

end HtmlText
end Yalafi
