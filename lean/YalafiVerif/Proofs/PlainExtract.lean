/-
  Proofs/PlainExtract.lean — C18 (first half), end to end on the model: "with an extraction list
  (`--extr name1,name2,…`) the output consists of exactly the first mandatory arguments of the listed
  macros, in order of appearance, and nothing else; occurrences in comments are not reported".

  Documents (`Seg`, `render`): sequences of
    `txt s`             inert text (cf. Proofs/PlainFootnote.lean),
    `call name body`    `\name{body}` for a macro whose first mandatory argument is extracted in the
                        state *after* `init_extractions` (hence a listed macro, `calls_listed`),
    `skip name body`    `\name{body}` for a declared macro that is not extracted (not listed),
    `com text`          a comment line `%text⏎`; the text is arbitrary (`% \foo{hidden}`).
  Bodies are inert and non-empty; `{` stands directly behind the name; no optional argument.

  Model facts used.  `tex2txt` turns `o.extr` into `extrList o.extr` (split at commas, a backslash
  in front of every part — no stripping of blanks: `--extr "foo, bar"` lists `\ bar`, not `\bar`).
  `parse` applies `initExtractions` to the state left by `Parser.__init__`, *then* expands the
  document, drops the main flow (`main := []`) and returns, for every flow in `st.extracted`,
  `[par "\n\n\n" @ first token] ++ flow ++ [space "\n" @ last token]`.
  `initExtractions` (`updDecl`, `newDecl`, `initExtractions_declared/_undeclared/_listed`)
    * deletes handler and replacement of EVERY declared macro, listed or not (so in extraction mode
      `\section`, `\input`, `\LTinput`, `\cite`, … have no handler any more);
    * deletes the extraction text of every declared macro that is not listed (`\footnote`,
      `\footnotetext`, `\caption` are NOT extracted under `--extr foo`);
    * gives a listed declared macro the extraction text `#k`, `k` = index of its first `A`
      (`\footnote`: `OA`, `#2`; `\section`: `*OA`, `#3`), or none if it has no `A`;
    * declares a listed name that is not declared with `args='A'`, `extract='#1'`
      (`\textbf`, `\emph`, `\foo` are not declared in the default tables; `--extr textcolor` extracts
      the colour of `\textcolor{red}{x}`, its FIRST braced argument).
  The expansion of a call is that of `\footnote` in Proofs/PlainFootnote.lean, with `pre ++ "A"`
  (`pre` ∈ {`O`,`*`}*) instead of `OA`: `collectArgs` stores `[]` for every code of `pre` (no `[`, no
  `*` in front of `{`) in the extraction arguments, `generateReplacements` builds
  `Action :: body ++ [Action]`, `expandSequence` expands it behind a Language token, the blank-line
  removal drops the two Action tokens, the result is appended to `st.extracted`; the call leaves
  one Action token in the main flow.  A comment token is dropped by `expandSequence`; nothing in
  it is scanned.  The main flow is whatever the blank-line removal leaves
  (`removeLines_progress`: it terminates) — it is discarded, so no line condition is needed.

  `extrList`, `callDeclOk`, `skipDeclOk`, `stateOk`      hypotheses on the state (computable)
  (1) `collectArgs_call`
  (2) `seq_flow`, `genRepl_extract`, `expandArguments_call`, `expandMacro_call`, `seq_call_step`
      `expandArguments_skip`, `seq_skip_step`
  (3) `Piece`, `PiecesOk`, `flowsOf`, `cost`, `seq_ext`                       the loop
      `Seg`, `render`, `nameOk`, `callOk`, `skipOk`, `comOk`, `segsOk`        documents, conditions
      `flowsOut`, `refOut`                                                    reference output
      `scanSteps_braced`, `nextToken_com`, `scanSteps_segs`, `scan_segs`      scanner
      `parserWork_ext`
  (4) `parse_ext`, `tex2txt_ext_record`, `tex2txt_extract`                    end to end
      `updDecl`, `newDecl`, `initExtractions_declared`, `initExtractions_undeclared`,
      `initExtractions_listed`, `calls_listed`                                the extraction list
      `bodies`, `flowsText`, `bodiesOut`, `refOut_exact`, `tex2txt_extract_exact`   reading `refOut`

  Side conditions of `tex2txt_extract` (reasons)
    options / initialisation   `o.extr ≠ []`; no --defs, --repl, --unkn; single-language mode;
        `st1` = state after `Parser.__init__`.  ALL state hypotheses are about
        `st2 = initExtractions T st1 (extrList o.extr)`, the state in which the document is expanded.
    `stateOk T st2`   `st2.multiLanguage = false` (Language tokens produce nothing); the empty
        string is no "active character" (else Action tokens would go to `expand_short_macro`).
    `segsOk T st2 segs`
      text / body characters (`PlainFootnote.chrOk`, in the full right context): no "active
        character" of the language settings, and white space, or none of `% # \ $ { }` with no
        special sequence matching there;
      what follows a text segment does not start with white space (the white-space token would
        span the segment boundary: merge the segments);
      `nameOk` (both kinds of calls): `name` is a non-empty string of macro characters, no special
        sequence matches at the backslash, `\name` is none of `\begin \end \item \verb \def` and no
        accent macro; both braces are scanned as brace tokens; the body is non-empty and inert in
        front of `}` (hence brace-free);
      `callOk`: `lookupMacro st2 \name = some m` with `callDeclOk m` (no handler, empty
        replacement, args `pre ++ "A"`, `pre` ∈ {`O`,`*`}*, extraction = one reference to that
        argument); the body has visible text on its first and on its last line
        (`lineC (some true) body = some none`: the flow is expanded between two Action tokens and
        `remove_pure_action_lines` deletes a first / last line of white space; `\foo{ }` yields no
        text at all).  Sufficient, not necessary (`\foo{a⏎}` is rejected although the output is
        `refOut`).  A body without line break that is not blank satisfies this
        (`PlainFootnote.bodyLines_of_oneLine`);
      `skipOk`: `lookupMacro st2 \name = some m` with `skipDeclOk m` (no handler, empty
        replacement, NO extraction, args `pre ++ "A"`);
      `comOk`: the comment text has no line break; what follows the comment line does not start
        with white space (the scanner adds the white space at the start of the next line to the
        comment token — harmless, but the segment would not end at the line break); the token does
        not start with `st2.skipBegin` (`%%% LT-SKIP-BEGIN`) and is no "active character".
    NO line condition on the main text (it is discarded).
    fuel   `(render segs).length + 4 ≤ fuel`: one unit for `parserWork`, at most one iteration per
        source character, the final iteration, and two more: when the loop reaches a call with
        `F + 3` units left, the expansion of the flow needs `|body tokens| + 4 ≤ F`
        (`expandMacro`, `expandArguments`, and `|body tokens| + 4` iterations of the inner loop),
        while the call costs two iterations of the outer loop for `|name| + |body| + 3` characters.
  Positions: the three line breaks of a separator are pinned to the first body character, the final
  line break to the start of the *last token* of the body (`PlainFootnote.lastTokOff`).
  Not covered: macros with arguments behind the first `A` (`\href`-like `AA`: the following
  `{…}` would be consumed as well), optional / star arguments that are present, white space between
  the name and `{`, bodies with macros / braces / maths, calls of undeclared macros that are not
  listed (they are reported in `unknowns`; their braces and argument go to the discarded main flow),
  comment lines followed by indentation, `%%% LT-SKIP-BEGIN`, `--defs` together with `--extr`,
  multi-language mode.
-/
import YalafiVerif.Proofs.PlainFootnote
import YalafiVerif.Proofs.PlainHeading
import YalafiVerif.Proofs.PlainComment
namespace Yalafi
namespace PlainExtract

open M
open PlainFootnote (CopyTok BraceTok FlowSafe addFlow addFlows addFlows_nil addFlows_cons
  argBuffer_braced skipSpace_brace skippedLangs_brace lineC LinesOf lastTokOff TextRun braceAt
  flowOut flowToks)

/-! ### the extraction list and the declarations `init_extractions` leaves -/

/-- the macro names of the option `--extr`: the comma-separated parts, each with a backslash in
    front (`tex2txt.py`: `['\\' + s for s in options.extr.split(',')]`) -/
def extrList (e : Str) : List Str := (splitOn ',' e []).map (fun s => '\\' :: s)

theorem splitOn_ne_nil (sep : Char) : ∀ (s cur : Str), splitOn sep s cur ≠ []
  | [], cur => by simp [splitOn]
  | c :: cs, cur => by
    simp only [splitOn]
    split
    · simp
    · exact splitOn_ne_nil sep cs _

theorem extrList_isEmpty (e : Str) : (extrList e).isEmpty = false := by
  have := splitOn_ne_nil ',' e []
  cases h : splitOn ',' e [] with
  | nil => exact absurd h this
  | cons a l => simp [extrList, h]

/-- a declaration whose first mandatory argument is extracted, as far as the expander looks at it:
    no handler, empty replacement, argument codes `pre ++ "A"` with `pre` made of `O` and `*`
    only (so `A` is the last code and the first `A`), and an extraction text that is one
    reference to that argument.  This is what `init_extractions` makes of a listed macro that is
    declared with such argument codes (`\footnote`: `OA`, `\section`: `*OA`), and what it creates
    for a listed name that is not declared (`A`, `#1`). -/
def callDeclOk (m : MacroDef) : Bool :=
  m.handler == Handler.none && m.repl.isEmpty &&
  m.args.getLast? == some 'A' && m.args.dropLast.all (fun c => c == 'O' || c == '*') &&
  (match m.extract with | [t] => argRef t == some m.args.length | _ => false)

structure DeclFacts (m : MacroDef) : Prop where
  handler : m.handler = .none
  repl : m.repl = []
  args : ∃ pre : List Char, m.args = pre ++ ['A'] ∧ (∀ c ∈ pre, c = 'O' ∨ c = '*') ∧
    ∃ t, m.extract = [t] ∧ argRef t = some (pre.length + 1)

theorem eq_dropLast_append {α} (l : List α) (a : α) (h : l.getLast? = some a) :
    l = l.dropLast ++ [a] := by
  have hne : l ≠ [] := by intro e; simp [e] at h
  have h1 := List.dropLast_concat_getLast hne
  rw [List.getLast?_eq_some_getLast hne] at h
  injection h with h
  rw [← h]
  exact h1.symm

theorem declFacts {m : MacroDef} (h : callDeclOk m = true) : DeclFacts m := by
  simp only [callDeclOk, Bool.and_eq_true, beq_iff_eq, List.isEmpty_iff, List.all_eq_true,
    Bool.or_eq_true] at h
  obtain ⟨⟨⟨⟨h1, h2⟩, h3⟩, h4⟩, h5⟩ := h
  have hargs : m.args = m.args.dropLast ++ ['A'] :=
    eq_dropLast_append _ _ h3
  refine ⟨h1, h2, m.args.dropLast, hargs, h4, ?_⟩
  match hm : m.extract, h5 with
  | [t], h5 =>
    refine ⟨t, rfl, ?_⟩
    have : m.args.length = m.args.dropLast.length + 1 := by
      conv => lhs; rw [hargs]
      simp
    rw [← this]
    simpa using h5

/-- a declaration *without* extraction, as `init_extractions` leaves it for a declared macro that
    is not in the extraction list (for instance `\footnote`, `\section`, `\label` under
    `--extr foo`): no handler, empty replacement, no extraction text; argument codes
    `pre ++ "A"` as in `callDeclOk` -/
def skipDeclOk (m : MacroDef) : Bool :=
  m.handler == Handler.none && m.repl.isEmpty && m.extract.isEmpty &&
  m.args.getLast? == some 'A' && m.args.dropLast.all (fun c => c == 'O' || c == '*')

structure SkipFacts (m : MacroDef) : Prop where
  handler : m.handler = .none
  repl : m.repl = []
  extract : m.extract = []
  args : ∃ pre : List Char, m.args = pre ++ ['A'] ∧ (∀ c ∈ pre, c = 'O' ∨ c = '*')

theorem skipFacts {m : MacroDef} (h : skipDeclOk m = true) : SkipFacts m := by
  simp only [skipDeclOk, Bool.and_eq_true, beq_iff_eq, List.isEmpty_iff, List.all_eq_true,
    Bool.or_eq_true] at h
  obtain ⟨⟨⟨⟨h1, h2⟩, h3⟩, h4⟩, h5⟩ := h
  exact ⟨h1, h2, h3, m.args.dropLast, eq_dropLast_append _ _ h4, h5⟩

/-- the conditions on the parser state (they do not concern the macros): single-language mode
    (Language tokens produce nothing), and the empty string is no "active character" (otherwise
    Action tokens would be sent to `expand_short_macro`) -/
def stateOk (T : PTables) (st : PState) : Bool := !st.multiLanguage && noEmptyActive T st

structure StateFacts (T : PTables) (st : PState) : Prop where
  single : st.multiLanguage = false
  nea : noEmptyActive T st = true

theorem stateFacts {T : PTables} {st : PState} (h : stateOk T st = true) : StateFacts T st := by
  simp only [stateOk, Bool.and_eq_true, Bool.not_eq_true'] at h
  exact ⟨h.1, h.2⟩

theorem StateFacts.congr {T : PTables} {st st' : PState} (h : StateFacts T st)
    (hl : st'.langStack = st.langStack) (hs : st'.multiLanguage = st.multiLanguage) :
    StateFacts T st' :=
  ⟨hs.trans h.single, (noEmptyActive_congr T st st' hl).trans h.nea⟩

/-! ### (1) `collectArgs` for `pre ++ "A"` on `{body}` -/

theorem collectArgs_call (T : PTables) (mac : MacroDef) (lb rb : Tok) (body : List Tok)
    (rest : Buf) (st : PState) (hlb : BraceTok '{' lb) (hrb : BraceTok '}' rb)
    (hb : ∀ t ∈ body, PlainTok t) (hne : body ≠ []) :
    ∀ (pre : List Char) (n start : Nat) (acc : Args), (∀ c ∈ pre, c = 'O' ∨ c = '*') →
      acc.langs = [] →
      ∃ A, collectArgs T mac (pre ++ ['A']) n (lb :: (body ++ rb :: rest)) start acc st
        = .ok (({ args := A, extr := acc.extr ++ List.replicate pre.length [] ++ [body],
                  langs := [] }, rest), st) := by
  have h0 : txtIsNV lb "*" = false := by simp [txtIsNV, hlb.txt]
  have h1 : txtIsNV lb "[" = false := by simp [txtIsNV, hlb.txt]
  have h2 : txtIsNV lb "}" = false := by simp [txtIsNV, hlb.txt]
  intro pre
  induction pre with
  | nil =>
    intro n start acc _ hl
    refine ⟨acc.args ++ [body], ?_⟩
    simp only [List.nil_append, collectArgs, skipSpace_brace lb _ hlb, skippedLangs_brace lb _ hlb,
      List.head?_cons, h2, show ('A' == '*') = false by decide, show ('A' == 'O') = false by decide,
      show ('A' == 'A') = true by decide, Bool.false_eq_true, if_false, if_true, List.append_nil,
      hl]
    refine (M.bind_ok _ _ _ _ _ (argBuffer_braced T.toTables lb rb body rest lb.pos st hlb hrb hb hne)).trans ?_
    simp only [List.length_nil, List.replicate_zero, List.append_nil]
    rfl
  | cons c pre ih =>
    intro n start acc hpre hl
    have hc := hpre c (List.mem_cons_self ..)
    have hpre' : ∀ d ∈ pre, d = 'O' ∨ d = '*' := fun d hd => hpre d (List.mem_cons_of_mem _ hd)
    rcases hc with rfl | rfl
    · obtain ⟨A, hA⟩ := ih (n + 1) lb.pos
        { args := acc.args ++ [match mac.defaults[n]? with
            | some d => d.map (fun t => { t with pos := start, fix := true })
            | none => []], extr := acc.extr ++ [[]], langs := [] } hpre' rfl
      refine ⟨A, ?_⟩
      simp only [List.cons_append, collectArgs, skipSpace_brace lb _ hlb,
        skippedLangs_brace lb _ hlb, List.head?_cons, h1,
        show ('O' == '*') = false by decide, show ('O' == 'O') = true by decide,
        Bool.false_eq_true, if_false, if_true, List.append_nil, hl]
      refine hA.trans ?_
      simp [List.replicate_succ]
    · obtain ⟨A, hA⟩ := ih (n + 1) lb.pos
        { args := acc.args ++ [[]], extr := acc.extr ++ [[]], langs := [] } hpre' rfl
      refine ⟨A, ?_⟩
      simp only [List.cons_append, collectArgs, skipSpace_brace lb _ hlb,
        skippedLangs_brace lb _ hlb, List.head?_cons, h0,
        show ('*' == '*') = true by decide, Bool.false_eq_true, if_false, if_true,
        List.append_nil, hl]
      refine hA.trans ?_
      simp [List.replicate_succ]

/-! ### the extracted flow -/

/-- the expansion of the extraction text (`PlainFootnote.seq_flow` without its hypothesis on
    `\footnote`): the Language token vanishes, the two Action tokens are dropped by the blank-line
    removal, the state is unchanged -/
theorem seq_flow (T : PTables) (st : PState) (start : Nat) (l : Str) (p q : Nat) (b : List Tok)
    (fuel : Nat) (hs : StateFacts T st) (hb : ∀ t ∈ b, CopyTok T st t) (hsafe : FlowSafe b)
    (hf : b.length + 4 ≤ fuel) :
    expandSequence T fuel (mkLang start l false true true :: mkAction p :: (b ++ [mkAction q])) none [] st
      = .ok ((b, []), st) := by
  obtain ⟨g, rfl⟩ : ∃ g, fuel = ((g + 1 + 1) + b.length) + 1 + 1 := ⟨fuel - (b.length + 4), by omega⟩
  rw [PlainFootnote.seq_lang_step T _ start l false true true _ none [] st hs.single,
    seq_action_step T _ p _ none [] st hs.nea,
    PlainFootnote.seq_copy_prefix T st none [mkAction q] b (g + 1 + 1) _ hb,
    seq_action_step T _ q _ none _ st hs.nea, expandSequence.eq_2]
  have := hsafe p q
  simp only [List.nil_append, List.cons_append] at this ⊢
  rw [this]
  rfl

theorem getElem?_replicate_append {α} (a x : α) : ∀ k : Nat, (List.replicate k a ++ [x])[k]? = some x
  | 0 => rfl
  | k + 1 => by simp [List.replicate_succ]

theorem genRepl_extract (t : Tok) (k : Nat) (ht : argRef t = some (k + 1)) (b : List Tok) (h l : Tok)
    (start : Nat) (hh : b.head? = some h) (hl : b.getLast? = some l) :
    generateReplacements (List.replicate k [] ++ [b]) [t] start
      = some (mkAction h.pos :: (b ++ [mkAction l.pos])) := by
  have hp : pyIndex (List.replicate k [] ++ [b]) (k + 1) = some b := by
    simp only [pyIndex, Nat.add_one_ne_zero, beq_iff_eq, if_false, Nat.add_sub_cancel]
    exact getElem?_replicate_append [] b k
  simp [generateReplacements, initCurPos, genReplLoop, ht, hp, hh, hl]

/-! ### (2) `expandArguments`, `expandMacro` for a macro whose argument is extracted -/

theorem expandArguments_call (T : PTables) (fuel : Nat) (mac : MacroDef) (lb rb : Tok)
    (body : List Tok) (rest : Buf) (start : Nat) (st : PState) (hm : DeclFacts mac)
    (hs : StateFacts T st) (hlb : BraceTok '{' lb) (hrb : BraceTok '}' rb)
    (hb : ∀ t ∈ body, CopyTok T st t) (hne : body ≠ []) (hsafe : FlowSafe body)
    (hf : body.length + 4 ≤ fuel) :
    expandArguments T (fuel + 1) (lb :: (body ++ rb :: rest)) mac start st
      = .ok (([mkAction start], rest), addFlow st body) := by
  obtain ⟨pre, hargs, hpre, t, he, ht⟩ := hm.args
  obtain ⟨h, hh⟩ : ∃ h, body.head? = some h := by
    cases body with
    | nil => exact absurd rfl hne
    | cons a _ => exact ⟨a, rfl⟩
  obtain ⟨l, hl⟩ : ∃ l, body.getLast? = some l := by
    cases hx : body.getLast? with
    | none => rw [List.getLast?_eq_none_iff] at hx; exact absurd hx hne
    | some a => exact ⟨a, rfl⟩
  obtain ⟨A, hA⟩ := collectArgs_call T mac lb rb body rest st hlb hrb (fun x hx => (hb x hx).plain)
    hne pre 0 start {} hpre rfl
  rw [expandArguments.eq_2, hargs]
  refine (M.bind_ok _ _ _ _ _ hA).trans ?_
  simp only [he, hm.handler, hm.repl, PlainFootnote.genRepl_nil, List.nil_append]
  rw [if_pos (by simp)]
  refine (M.bind_ok _ _ _ _ _ (rfl : M.get st = _)).trans ?_
  simp only [genRepl_extract t pre.length ht body h l start hh hl]
  refine (M.bind_ok _ _ _ _ _ (seq_flow T st start _ h.pos l.pos body fuel hs hb hsafe hf)).trans ?_
  refine (M.bind_ok _ _ _ _ _ (rfl : M.modify _ _ = _)).trans ?_
  rw [if_neg (by simp)]
  rfl

/-- the macro token of a macro whose first mandatory argument is extracted -/
structure CallTok (st : PState) (t : Tok) : Prop where
  kind : t.kind = .xmacro
  nDef : txtIs t "\\def" = false
  decl : ∃ m, lookupMacro st t.txt = some m ∧ callDeclOk m = true

theorem CallTok.congr {st st' : PState} (hm : st'.macros = st.macros) {t : Tok} (h : CallTok st t) :
    CallTok st' t := by
  obtain ⟨m, h1, h2⟩ := h.decl
  exact ⟨h.kind, h.nDef, m, by simpa [lookupMacro, hm] using h1, h2⟩

theorem expandMacro_call (T : PTables) (fuel : Nat) (fn lb rb : Tok)
    (body : List Tok) (rest : Buf) (st : PState) (hfn : CallTok st fn)
    (hs : StateFacts T st) (hlb : BraceTok '{' lb) (hrb : BraceTok '}' rb)
    (hb : ∀ t ∈ body, CopyTok T st t) (hne : body ≠ []) (hsafe : FlowSafe body)
    (hf : body.length + 4 ≤ fuel) :
    expandMacro T (fuel + 2) (lb :: (body ++ rb :: rest)) fn false st
      = .ok (([mkAction fn.pos], rest), addFlow st body) := by
  obtain ⟨mac, hmac, hmok⟩ := hfn.decl
  have hsk : skipSpaceStopLangAct (lb :: (body ++ rb :: rest)) = lb :: (body ++ rb :: rest) := by
    simp [skipSpaceStopLangAct, hlb.notSpace]
  rw [expandMacro.eq_2]
  show M.bind' M.get _ st = _
  simp only [M.bind', M.get, hmac, hsk]
  exact expandArguments_call T fuel mac lb rb body rest fn.pos st (declFacts hmok) hs hlb hrb hb hne
    hsafe hf

/-- (3) one call in the loop: the macro token, its expansion, and the Action token that replaces
    it; the flow is appended to `extracted` -/
theorem seq_call_step (T : PTables) (fuel : Nat) (fn lb rb : Tok) (body : List Tok) (rest : Buf)
    (envStop : Option Str) (out : List Tok) (st : PState) (hfn : CallTok st fn)
    (hs : StateFacts T st) (hlb : BraceTok '{' lb) (hrb : BraceTok '}' rb)
    (hb : ∀ t ∈ body, CopyTok T st t) (hne : body ≠ []) (hsafe : FlowSafe body)
    (hf : body.length + 4 ≤ fuel) :
    expandSequence T (fuel + 3) (fn :: lb :: (body ++ rb :: rest)) envStop out st
      = expandSequence T (fuel + 1) rest envStop (out ++ [mkAction fn.pos]) (addFlow st body) := by
  rw [expandSequence.eq_3]
  show M.bind' M.get _ st = _
  simp only [M.bind', M.get]
  simp only [hfn.kind, hfn.nDef, Bool.false_eq_true, if_false, if_true, reduceCtorEq, beq_iff_eq,
    beq_self_eq_true]
  refine (M.bind_ok _ _ _ _ _ (expandMacro_call T fuel fn lb rb body rest st hfn hs
    hlb hrb hb hne hsafe hf)).trans ?_
  simp only [List.singleton_append]
  exact seq_action_step T (fuel + 1) fn.pos _ envStop out _ (by
    have : noEmptyActive T (addFlow st body) = noEmptyActive T st := noEmptyActive_congr T st _ rfl
    rw [this]; exact hs.nea)

/-! ### a call of a declared macro that is not listed -/

theorem expandArguments_skip (T : PTables) (fuel : Nat) (mac : MacroDef) (lb rb : Tok)
    (body : List Tok) (rest : Buf) (start : Nat) (st : PState) (hm : SkipFacts mac)
    (hlb : BraceTok '{' lb) (hrb : BraceTok '}' rb)
    (hb : ∀ t ∈ body, PlainTok t) (hne : body ≠ []) :
    expandArguments T (fuel + 1) (lb :: (body ++ rb :: rest)) mac start st
      = .ok (([mkAction start], rest), st) := by
  obtain ⟨pre, hargs, hpre⟩ := hm.args
  obtain ⟨A, hA⟩ := collectArgs_call T mac lb rb body rest st hlb hrb hb hne pre 0 start {} hpre rfl
  rw [expandArguments.eq_2, hargs]
  refine (M.bind_ok _ _ _ _ _ hA).trans ?_
  simp only [hm.extract, hm.handler, hm.repl, PlainFootnote.genRepl_nil, List.nil_append]
  rw [if_neg (by simp)]
  rfl

/-- the macro token of a declared macro without extraction -/
structure SkipTok (st : PState) (t : Tok) : Prop where
  kind : t.kind = .xmacro
  nDef : txtIs t "\\def" = false
  decl : ∃ m, lookupMacro st t.txt = some m ∧ skipDeclOk m = true

theorem SkipTok.congr {st st' : PState} (hm : st'.macros = st.macros) {t : Tok} (h : SkipTok st t) :
    SkipTok st' t := by
  obtain ⟨m, h1, h2⟩ := h.decl
  exact ⟨h.kind, h.nDef, m, by simpa [lookupMacro, hm] using h1, h2⟩

/-- one call of a declared macro that is not listed: only an Action token is left, nothing is
    extracted, the state is unchanged -/
theorem seq_skip_step (T : PTables) (fuel : Nat) (fn lb rb : Tok) (body : List Tok) (rest : Buf)
    (envStop : Option Str) (out : List Tok) (st : PState) (hfn : SkipTok st fn)
    (hs : StateFacts T st) (hlb : BraceTok '{' lb) (hrb : BraceTok '}' rb)
    (hb : ∀ t ∈ body, PlainTok t) (hne : body ≠ []) :
    expandSequence T (fuel + 3) (fn :: lb :: (body ++ rb :: rest)) envStop out st
      = expandSequence T (fuel + 1) rest envStop (out ++ [mkAction fn.pos]) st := by
  obtain ⟨mac, hmac, hmok⟩ := hfn.decl
  have hsk : skipSpaceStopLangAct (lb :: (body ++ rb :: rest)) = lb :: (body ++ rb :: rest) := by
    simp [skipSpaceStopLangAct, hlb.notSpace]
  have hem : expandMacro T (fuel + 2) (lb :: (body ++ rb :: rest)) fn false st
      = .ok (([mkAction fn.pos], rest), st) := by
    rw [expandMacro.eq_2]
    show M.bind' M.get _ st = _
    simp only [M.bind', M.get, hmac, hsk]
    exact expandArguments_skip T fuel mac lb rb body rest fn.pos st (skipFacts hmok) hlb hrb hb hne
  rw [expandSequence.eq_3]
  show M.bind' M.get _ st = _
  simp only [M.bind', M.get]
  simp only [hfn.kind, hfn.nDef, Bool.false_eq_true, if_false, if_true, reduceCtorEq, beq_iff_eq,
    beq_self_eq_true]
  refine (M.bind_ok _ _ _ _ _ hem).trans ?_
  simp only [List.singleton_append]
  exact seq_action_step T (fuel + 1) fn.pos _ envStop out _ hs.nea

/-! ### (3) the loop on copied tokens, calls and comments -/

/-- the pieces of a token buffer: a token that is copied, `\name{body}`, or a comment token -/
inductive Piece where
  | tok (t : Tok)
  | call (fn lb : Tok) (body : List Tok) (rb : Tok)
  | skip (fn lb : Tok) (body : List Tok) (rb : Tok)
  | com (t : Tok)

def Piece.toks : Piece → List Tok
  | .tok t => [t]
  | .call fn lb b rb => fn :: lb :: (b ++ [rb])
  | .skip fn lb b rb => fn :: lb :: (b ++ [rb])
  | .com t => [t]

/-- the token buffer -/
def flat : List Piece → List Tok
  | [] => []
  | p :: ps => p.toks ++ flat ps

def PiecesOk (T : PTables) (st : PState) : List Piece → Prop
  | [] => True
  | .tok t :: rest => CopyTok T st t ∧ PiecesOk T st rest
  | .call fn lb b rb :: rest =>
    CallTok st fn ∧ BraceTok '{' lb ∧ BraceTok '}' rb ∧ b ≠ [] ∧ (∀ t ∈ b, CopyTok T st t) ∧ FlowSafe b ∧
    PiecesOk T st rest
  | .skip fn lb b rb :: rest =>
    SkipTok st fn ∧ BraceTok '{' lb ∧ BraceTok '}' rb ∧ b ≠ [] ∧ (∀ t ∈ b, CopyTok T st t) ∧
    PiecesOk T st rest
  | .com t :: rest => Comment.ComTok T st t ∧ PiecesOk T st rest

/-- the extracted flows, in order -/
def flowsOf : List Piece → List (List Tok)
  | [] => []
  | .tok _ :: rest => flowsOf rest
  | .call _ _ b _ :: rest => b :: flowsOf rest
  | .skip _ _ _ _ :: rest => flowsOf rest
  | .com _ :: rest => flowsOf rest

/-- fuel: one unit per copied token and per comment token; for a call `|body tokens| + 4` (it
    costs two iterations of the loop, but its expansion needs `|body tokens| + 7` units when the
    loop reaches it) -/
def cost : List Piece → Nat
  | [] => 0
  | .tok _ :: rest => 1 + cost rest
  | .call _ _ b _ :: rest => b.length + 4 + cost rest
  | .skip _ _ _ _ :: rest => 2 + cost rest
  | .com _ :: rest => 1 + cost rest

theorem PiecesOk.congr {T : PTables} {st st' : PState} (hm : st'.macros = st.macros)
    (hl : st'.langStack = st.langStack) (hk : st'.skipBegin = st.skipBegin) :
    ∀ {ps : List Piece}, PiecesOk T st ps → PiecesOk T st' ps
  | [], _ => trivial
  | .tok _ :: _, h => ⟨h.1.congr hl, PiecesOk.congr hm hl hk h.2⟩
  | .call _ _ _ _ :: _, h =>
    ⟨h.1.congr hm, h.2.1, h.2.2.1, h.2.2.2.1, fun t ht => (h.2.2.2.2.1 t ht).congr hl, h.2.2.2.2.2.1,
      PiecesOk.congr hm hl hk h.2.2.2.2.2.2⟩
  | .skip _ _ _ _ :: _, h =>
    ⟨h.1.congr hm, h.2.1, h.2.2.1, h.2.2.2.1, fun t ht => (h.2.2.2.2.1 t ht).congr hl,
      PiecesOk.congr hm hl hk h.2.2.2.2.2⟩
  | .com _ :: _, h =>
    ⟨⟨h.1.kind, h.1.head, by rw [hk]; exact h.1.nskip,
      by rw [activeChars_congr T st st' hl]; exact h.1.nact⟩, PiecesOk.congr hm hl hk h.2⟩

/-- the loop on a buffer of copied tokens, calls and comments: it ends without error; the bodies
    are appended to `extracted`, in order; nothing else in the state changes.  (The main output is
    whatever the blank-line removal leaves of the copied tokens and the Action tokens of the calls;
    in extraction mode `parse` discards it.) -/
theorem seq_ext (T : PTables) (envStop : Option Str) :
    ∀ (ps : List Piece) (fuel : Nat) (out : List Tok) (st : PState),
      cost ps + 3 ≤ fuel → PiecesOk T st ps → StateFacts T st →
      ∃ r, expandSequence T fuel (flat ps) envStop out st
        = .ok ((r, []), addFlows st (flowsOf ps)) := by
  intro ps
  induction ps with
  | nil =>
    intro fuel out st hf _ _
    obtain ⟨f, rfl⟩ : ∃ f, fuel = f + 1 := ⟨fuel - 1, by omega⟩
    obtain ⟨r, hr⟩ := Option.isSome_iff_exists.mp (removeLines_progress out)
    refine ⟨r, ?_⟩
    simp only [flat, flowsOf, addFlows_nil]
    rw [expandSequence.eq_2, hr]
    rfl
  | cons p ps ih =>
    intro fuel out st hf hok hs
    cases p with
    | tok t =>
      simp only [cost] at hf
      obtain ⟨f, rfl⟩ : ∃ f, fuel = f + 1 := ⟨fuel - 1, by omega⟩
      obtain ⟨r, hr⟩ := ih f (out ++ [t]) st (by omega) hok.2 hs
      refine ⟨r, ?_⟩
      show expandSequence T (f + 1) (t :: flat ps) envStop out st = _
      rw [seq_plain_step T f t (flat ps) envStop out st hok.1.plain (Or.inl hok.1.nact), hr]
      rfl
    | call fn lb b rb =>
      obtain ⟨hfn, hlb, hrb, hne, hb, hsafe, hrest⟩ := hok
      simp only [cost] at hf
      obtain ⟨f, rfl⟩ : ∃ f, fuel = f + 3 := ⟨fuel - 3, by omega⟩
      have hflat : flat (Piece.call fn lb b rb :: ps) = fn :: lb :: (b ++ rb :: flat ps) := by
        simp [flat, Piece.toks]
      obtain ⟨r, hr⟩ := ih (f + 1) (out ++ [mkAction fn.pos]) (addFlow st b) (by omega)
        (PiecesOk.congr (st := st) (st' := addFlow st b) rfl rfl rfl hrest)
        (hs.congr (st' := addFlow st b) rfl rfl)
      refine ⟨r, ?_⟩
      rw [hflat, seq_call_step T f fn lb rb b (flat ps) envStop out st hfn hs hlb hrb hb hne hsafe
        (by omega), hr]
      simp only [flowsOf, addFlows_cons]
    | skip fn lb b rb =>
      obtain ⟨hfn, hlb, hrb, hne, hb, hrest⟩ := hok
      simp only [cost] at hf
      obtain ⟨f, rfl⟩ : ∃ f, fuel = f + 3 := ⟨fuel - 3, by omega⟩
      have hflat : flat (Piece.skip fn lb b rb :: ps) = fn :: lb :: (b ++ rb :: flat ps) := by
        simp [flat, Piece.toks]
      obtain ⟨r, hr⟩ := ih (f + 1) (out ++ [mkAction fn.pos]) st (by omega) hrest hs
      refine ⟨r, ?_⟩
      rw [hflat, seq_skip_step T f fn lb rb b (flat ps) envStop out st hfn hs hlb hrb
        (fun t ht => (hb t ht).plain) hne, hr]
      rfl
    | com t =>
      simp only [cost] at hf
      obtain ⟨f, rfl⟩ : ∃ f, fuel = f + 1 := ⟨fuel - 1, by omega⟩
      obtain ⟨r, hr⟩ := ih f out st (by omega) hok.2 hs
      refine ⟨r, ?_⟩
      show expandSequence T (f + 1) (t :: flat ps) envStop out st = _
      rw [Comment.seq_com_step T f t (flat ps) envStop out st hok.1, hr]
      rfl

/-! ### the documents -/

/-- a segment of the source: a run of text, a call `\name{body}` of a macro whose argument is
    extracted, a call `\name{body}` of a declared macro that is *not* extracted (not in the list),
    or a comment line `%text⏎` -/
inductive Seg where
  | txt (s : Str)
  | call (name body : Str)
  | skip (name body : Str)
  | com (text : Str)
deriving Repr, DecidableEq

def Seg.render : Seg → Str
  | .txt s => s
  | .call name body => '\\' :: (name ++ '{' :: (body ++ ['}']))
  | .skip name body => '\\' :: (name ++ '{' :: (body ++ ['}']))
  | .com t => '%' :: (t ++ [nl])

/-- the source text -/
def render : List Seg → Str
  | [] => []
  | s :: rest => s.render ++ render rest

/-- `\name{body}`, followed by `R`, as the scanner and `arg_buffer` see it:
    * `name` is a non-empty string of macro characters (ASCII letters and `@`); no special sequence
      of the tables matches at the backslash; `\name` is none of `\begin \end \item \verb` (for
      which `scan_macro` builds other tokens), no accent macro and not `\def` (which
      `expand_sequence` handles itself): the scanner yields the macro token `\name`, and the
      opening brace ends the name;
    * both braces are scanned as brace tokens;
    * the body is not empty and inert in front of `}` (in particular it contains no brace, no
      macro, no `%`: the closing brace is the one that ends the argument) -/
def nameOk (T : PTables) (st : PState) (name body R : Str) : Bool :=
  !name.isEmpty && name.all macroChar &&
  (matchSpecial T.toTables ('\\' :: (name ++ '{' :: (body ++ '}' :: R)))).isNone &&
  ('\\' :: name) != sBegin && ('\\' :: name) != sEnd && ('\\' :: name) != sItem &&
  ('\\' :: name) != sVerb && !T.toTables.isAccent ('\\' :: name) && ('\\' :: name) != sDef &&
  braceAt T '{' (body ++ '}' :: R) && braceAt T '}' R &&
  !body.isEmpty && PlainFootnote.textOk T st body ('}' :: R)

/-- a call whose body is extracted: `nameOk`, and
    * in `st` (the state *after* `init_extractions`) `\name` is declared with an extraction of its
      first mandatory argument (`callDeclOk`) — this implies that `\name` is in the extraction
      list, see `initExtractions_listed`;
    * the body has visible text on its first and on its last line (`lineC`; otherwise the
      blank-line removal, which sees the flow between two Action tokens, deletes part of it) -/
def callOk (T : PTables) (st : PState) (name body R : Str) : Bool :=
  nameOk T st name body R &&
  (match lookupMacro st ('\\' :: name) with | some m => callDeclOk m | none => false) &&
  (lineC (some true) body == some none)

/-- a call of a declared macro without extraction (after `init_extractions`: every declared macro
    that is not in the list, whatever it was before): `nameOk` and `skipDeclOk` -/
def skipOk (T : PTables) (st : PState) (name body R : Str) : Bool :=
  nameOk T st name body R &&
  (match lookupMacro st ('\\' :: name) with | some m => skipDeclOk m | none => false)

/-- the comment line `%text⏎`, followed by `R`: the text contains no line break, `R` does not
    start with white space (then the comment token is exactly `%text⏎`; the scanner would add the
    white space at the beginning of the next line to it), and the token is an ordinary comment
    (`Comment.comTokOk`: it does not start with the marker `%%% LT-SKIP-BEGIN`, and it is no
    "active character") -/
def comOk (T : PTables) (st : PState) (t R : Str) : Bool :=
  Comment.noNl t && R.head?.all (fun d => !isSpace d) && Comment.comTokOk T st ('%' :: (t ++ [nl]))

/-- well-formed documents: every segment is fine in front of the rendering of the following
    ones; what follows a text segment does not start with white space (a white-space token would
    span the boundary: merge the two text segments) -/
def segsOk (T : PTables) (st : PState) : List Seg → Bool
  | [] => true
  | .txt s :: rest =>
    PlainFootnote.textOk T st s (render rest) && (render rest).head?.all (fun d => !isSpace d) && segsOk T st rest
  | .call name body :: rest => callOk T st name body (render rest) && segsOk T st rest
  | .skip name body :: rest => skipOk T st name body (render rest) && segsOk T st rest
  | .com t :: rest => comOk T st t (render rest) && segsOk T st rest

/-! ### the expected result -/

/-- the flows of the extracted calls, in order (0-based source positions; `p` = offset of the
    first segment): for every such call three line breaks at the position of the first character
    of the body, the body with its own positions, one line break at the position of the last
    token of the body (`PlainFootnote.flowOut`).  Text segments, comments and calls of macros that
    are not listed contribute nothing. -/
def flowsOut : Nat → List Seg → List (Char × Nat)
  | _, [] => []
  | p, .txt s :: rest => flowsOut (p + s.length) rest
  | p, .call name body :: rest =>
    flowOut (p + name.length + 2) body ++ flowsOut (p + (name.length + body.length + 3)) rest
  | p, .skip name body :: rest => flowsOut (p + (name.length + body.length + 3)) rest
  | p, .com t :: rest => flowsOut (p + (t.length + 2)) rest

/-- the reference output of a document in extraction mode -/
def refOut (segs : List Seg) : List (Char × Nat) := flowsOut 0 segs

/-! ### pieces of copied tokens -/

def tokPieces (toks : List Tok) : List Piece := toks.map Piece.tok

theorem flat_tokPieces (ps : List Piece) : ∀ toks : List Tok, flat (tokPieces toks ++ ps) = toks ++ flat ps
  | [] => rfl
  | t :: ts => by
    show [t] ++ flat (tokPieces ts ++ ps) = _
    rw [flat_tokPieces ps ts]; rfl

theorem flowsOf_tokPieces (ps : List Piece) : ∀ toks : List Tok,
    flowsOf (tokPieces toks ++ ps) = flowsOf ps
  | [] => rfl
  | _ :: ts => flowsOf_tokPieces ps ts

theorem cost_tokPieces (ps : List Piece) : ∀ toks : List Tok,
    cost (tokPieces toks ++ ps) = toks.length + cost ps
  | [] => by simp [tokPieces]
  | t :: ts => by
    show 1 + cost (tokPieces ts ++ ps) = _
    rw [cost_tokPieces ps ts, List.length_cons]; omega

theorem PiecesOk_tokPieces {T : PTables} {st : PState} (ps : List Piece) (hps : PiecesOk T st ps) :
    ∀ toks : List Tok, (∀ t ∈ toks, CopyTok T st t) → PiecesOk T st (tokPieces toks ++ ps)
  | [], _ => hps
  | t :: ts, h =>
    ⟨h t (List.mem_cons_self ..),
      PiecesOk_tokPieces ps hps ts (fun x hx => h x (List.mem_cons_of_mem _ hx))⟩

/-! ### the scanner loop on a document -/

/-- what the scanner loop yields on a well-formed document that starts at `pos` -/
structure PieceFacts (T : PTables) (st : PState) (pos : Nat) (segs : List Seg) (ps : List Piece) :
    Prop where
  ok : PiecesOk T st ps
  flows : getTxtPos ((flowsOf ps).map flowToks).flatten
    = ((flowsOut pos segs).map (·.1), (flowsOut pos segs).map (·.2))
  cost : cost ps ≤ (render segs).length

theorem PieceFacts_nil (T : PTables) (st : PState) (pos : Nat) : PieceFacts T st pos [] [] where
  ok := trivial
  flows := rfl
  cost := Nat.le_refl _

theorem PieceFacts_txt {T : PTables} {st : PState} {pos : Nat} {s : Str} {rest : List Seg}
    {steps : List ScanStep} {ps : List Piece} (B : TextRun T st pos s steps)
    (I : PieceFacts T st (pos + s.length) rest ps) :
    PieceFacts T st pos (.txt s :: rest) (tokPieces (steps.map (·.tok)) ++ ps) where
  ok := PiecesOk_tokPieces ps I.ok _ (by
    intro t ht
    obtain ⟨x, hx, rfl⟩ := List.mem_map.mp ht
    exact (B.ok x hx).2.2)
  flows := by
    rw [flowsOf_tokPieces, I.flows]; rfl
  cost := by
    have h1 := B.len
    have h2 := I.cost
    rw [cost_tokPieces]
    simp only [render, Seg.render, List.length_append, List.length_map]
    omega

structure NameFacts (T : PTables) (st : PState) (name body R : Str) : Prop where
  ne : name ≠ []
  all : name.all macroChar = true
  special : matchSpecial T.toTables ('\\' :: (name ++ '{' :: (body ++ '}' :: R))) = none
  nBegin : ('\\' :: name) ≠ sBegin
  nEnd : ('\\' :: name) ≠ sEnd
  nItem : ('\\' :: name) ≠ sItem
  nVerb : ('\\' :: name) ≠ sVerb
  nAccent : T.toTables.isAccent ('\\' :: name) = false
  nDef : ('\\' :: name) ≠ sDef
  lb : braceAt T '{' (body ++ '}' :: R) = true
  rb : braceAt T '}' R = true
  bne : body ≠ []
  text : PlainFootnote.textOk T st body ('}' :: R) = true

theorem nameFacts {T : PTables} {st : PState} {name body R : Str}
    (h : nameOk T st name body R = true) : NameFacts T st name body R := by
  simp only [nameOk, Bool.and_eq_true, bne_iff_ne, ne_eq, Bool.not_eq_true',
    Option.isNone_iff_eq_none, List.isEmpty_eq_false_iff] at h
  obtain ⟨⟨⟨⟨⟨⟨⟨⟨⟨⟨⟨⟨h1, h2⟩, h3⟩, h4⟩, h5⟩, h6⟩, h7⟩, h8⟩, h9⟩, h11⟩, h12⟩, h13⟩, h14⟩ := h
  exact ⟨h1, h2, h3, h4, h5, h6, h7, h8, h9, h11, h12, h13, h14⟩

structure CallFacts (T : PTables) (st : PState) (name body R : Str) : Prop where
  nm : NameFacts T st name body R
  decl : ∃ m, lookupMacro st ('\\' :: name) = some m ∧ callDeclOk m = true
  lines : lineC (some true) body = some none

theorem callFacts {T : PTables} {st : PState} {name body R : Str}
    (h : callOk T st name body R = true) : CallFacts T st name body R := by
  simp only [callOk, Bool.and_eq_true, beq_iff_eq] at h
  obtain ⟨⟨h1, h2⟩, h3⟩ := h
  refine ⟨nameFacts h1, ?_, h3⟩
  cases hm : lookupMacro st ('\\' :: name) with
  | none => rw [hm] at h2; cases h2
  | some m => rw [hm] at h2; exact ⟨m, rfl, h2⟩

structure SkipSegFacts (T : PTables) (st : PState) (name body R : Str) : Prop where
  nm : NameFacts T st name body R
  decl : ∃ m, lookupMacro st ('\\' :: name) = some m ∧ skipDeclOk m = true

theorem skipSegFacts {T : PTables} {st : PState} {name body R : Str}
    (h : skipOk T st name body R = true) : SkipSegFacts T st name body R := by
  simp only [skipOk, Bool.and_eq_true] at h
  obtain ⟨h1, h2⟩ := h
  refine ⟨nameFacts h1, ?_⟩
  cases hm : lookupMacro st ('\\' :: name) with
  | none => rw [hm] at h2; cases h2
  | some m => rw [hm] at h2; exact ⟨m, rfl, h2⟩

/-- the scanner turns `\name` in front of `{` into one macro token -/
theorem nextToken_name (T : PTables) (st : PState) (src : Str) (pos : Nat) (name body R : Str)
    (h : NameFacts T st name body R) :
    nextToken T.toTables src pos ('\\' :: (name ++ '{' :: (body ++ '}' :: R)))
      = { tok := cwTok pos name, len := name.length + 1 } := by
  have facts : CwFacts T ({ macros := [] } : PState) name ('{' :: (body ++ '}' :: R)) :=
    ⟨h.ne, takeWhile_append_stop _ _ _ h.all rfl, h.special, h.nBegin, h.nEnd, h.nItem, h.nVerb,
      h.nAccent, h.nDef, rfl⟩
  exact nextToken_cw T _ src pos name _ facts

theorem nDef_cwTok {T : PTables} {st : PState} {name body R : Str}
    (h : NameFacts T st name body R) (pos : Nat) : txtIs (cwTok pos name) "\\def" = false := by
  have := h.nDef
  simpa [txtIs, cwTok, sDef] using this

/-- the scanner on `\name{body}` in front of `R`: the macro token, the brace token, the tokens of
    the body (a text run), the brace token; then it goes on with `R` -/
theorem scanSteps_braced (T : PTables) (st : PState) (src : Str) (name body R : Str)
    (F : NameFacts T st name body R) (fuel pos : Nat) (hf : name.length + body.length + 3 ≤ fuel) :
    ∃ (k1 k2 : Kind) (bsteps : List ScanStep),
      (k1 = Kind.special ∨ k1 = Kind.text) ∧ (k2 = Kind.special ∨ k2 = Kind.text) ∧
      TextRun T st (pos + name.length + 2) body bsteps ∧
      scanSteps T.toTables src fuel pos ('\\' :: (name ++ '{' :: (body ++ '}' :: R)))
        = ({ tok := cwTok pos name, len := name.length + 1 } ::
            { tok := { kind := k1, pos := pos + name.length + 1, txt := ['{'] }, len := 1 } ::
            (bsteps ++
              { tok := { kind := k2, pos := pos + name.length + 2 + body.length, txt := ['}'] },
                len := 1 } ::
              (scanSteps T.toTables src (fuel - (bsteps.length + 3))
                (pos + (name.length + body.length + 3)) R).1),
           (scanSteps T.toTables src (fuel - (bsteps.length + 3))
                (pos + (name.length + body.length + 3)) R).2) := by
  have hn1 := nextToken_name T st src pos name body R F
  obtain ⟨k1, hk1, hn2⟩ := PlainFootnote.nextToken_brace T src (pos + (name.length + 1)) '{'
    (body ++ '}' :: R) (Or.inl rfl) F.lb
  obtain ⟨k2, hk2, hn3⟩ := PlainFootnote.nextToken_brace T src
    (pos + name.length + 2 + body.length) '}' R (Or.inr rfl) F.rb
  obtain ⟨f, rfl⟩ : ∃ f, fuel = f + 2 := ⟨fuel - 2, by omega⟩
  obtain ⟨bsteps, B, hrun⟩ := PlainFootnote.scanSteps_textrun T st src ('}' :: R)
    (by simp; decide) body.length body (pos + name.length + 2) f (Nat.le_refl _) (by omega) F.text
  have hBl := B.len
  have hnl : 1 ≤ name.length := List.length_pos_iff.mpr F.ne
  obtain ⟨g, hg⟩ : ∃ g, f - bsteps.length = g + 1 := ⟨f - bsteps.length - 1, by omega⟩
  have hg' : f + 2 - (bsteps.length + 3) = g := by omega
  have hpos2 : pos + name.length + 2 + body.length + 1 = pos + (name.length + body.length + 3) := by
    omega
  have hd1 : ('\\' :: (name ++ '{' :: (body ++ '}' :: R))).drop (name.length + 1)
      = '{' :: (body ++ '}' :: R) := by simp
  refine ⟨k1, k2, bsteps, hk1, hk2, B, ?_⟩
  rw [PlainHeading.scanSteps_step T.toTables src (f + 1) pos _ _ _ hn1 (by simp)]
  simp only [hd1]
  rw [PlainHeading.scanSteps_step T.toTables src f _ _ _ _ hn2 (by simp)]
  simp only [List.drop_succ_cons, List.drop_zero]
  rw [show pos + (name.length + 1) + 1 = pos + name.length + 2 by omega, hrun, hg]
  have hn3' := PlainHeading.scanSteps_step T.toTables src g _ _ _ _ hn3 (by simp)
  simp only [List.drop_succ_cons, List.drop_zero, hpos2] at hn3'
  rw [hn3', hg', show pos + (name.length + 1) = pos + name.length + 1 by omega]

theorem PieceFacts_call {T : PTables} {st : PState} {pos : Nat} {name body : Str} {rest : List Seg}
    {bsteps : List ScanStep} {ps : List Piece} (k1 k2 : Kind)
    (hk1 : k1 = Kind.special ∨ k1 = Kind.text) (hk2 : k2 = Kind.special ∨ k2 = Kind.text)
    (F : CallFacts T st name body (render rest))
    (B : TextRun T st (pos + name.length + 2) body bsteps)
    (I : PieceFacts T st (pos + (name.length + body.length + 3)) rest ps) :
    PieceFacts T st pos (.call name body :: rest)
      (.call (cwTok pos name)
             { kind := k1, pos := pos + name.length + 1, txt := ['{'] } (bsteps.map (·.tok))
             { kind := k2, pos := pos + name.length + 2 + body.length, txt := ['}'] } :: ps) := by
  have hc : ∀ t ∈ bsteps.map (·.tok), CopyTok T st t := by
    intro t ht
    obtain ⟨x, hx, rfl⟩ := List.mem_map.mp ht
    exact (B.ok x hx).2.2
  have hbne : bsteps.map (·.tok) ≠ [] := by
    intro e
    exact F.nm.bne (B.nil_iff (by simpa using e))
  obtain ⟨h, hh⟩ : ∃ h, (bsteps.map (·.tok)).head? = some h := by
    cases hx : bsteps.map (·.tok) with
    | nil => exact absurd hx hbne
    | cons a _ => exact ⟨a, rfl⟩
  obtain ⟨l, hl⟩ : ∃ l, (bsteps.map (·.tok)).getLast? = some l := by
    cases hx : (bsteps.map (·.tok)).getLast? with
    | none => rw [List.getLast?_eq_none_iff] at hx; exact absurd hx hbne
    | some a => exact ⟨a, rfl⟩
  have hhp : h.pos = pos + name.length + 2 := by
    cases hx : bsteps.map (·.tok) with
    | nil => exact absurd hx hbne
    | cons a as =>
      rw [hx] at hh
      simp only [List.head?_cons, Option.some.injEq] at hh
      rw [← hh]; exact B.first a as hx
  have hlp : l.pos = pos + name.length + 2 + lastTokOff body := B.last l hl
  have hnl : 1 ≤ name.length := List.length_pos_iff.mpr F.nm.ne
  refine ⟨?_, ?_, ?_⟩
  · exact ⟨⟨rfl, nDef_cwTok F.nm pos, F.decl⟩, ⟨hk1, rfl⟩, ⟨hk2, rfl⟩, hbne, hc,
      PlainFootnote.flowSafe_of_lines _ body (fun t ht => (hc t ht).txt_ne) B.lines F.lines, I.ok⟩
  · simp only [flowsOf, flowsOut, List.map_cons, List.flatten_cons]
    rw [getTxtPos_append, I.flows,
      PlainFootnote.getTxtPos_flowToks _ h l body (pos + name.length + 2) hh hl B.txt, hhp, hlp]
    simp [flowOut, posText_fst, posText_snd]
  · have h1 := B.len
    have h2 := I.cost
    simp only [cost, render, Seg.render, List.length_append, List.length_cons, List.length_map,
      List.length_nil]
    omega

theorem PieceFacts_skip {T : PTables} {st : PState} {pos : Nat} {name body : Str} {rest : List Seg}
    {bsteps : List ScanStep} {ps : List Piece} (k1 k2 : Kind)
    (hk1 : k1 = Kind.special ∨ k1 = Kind.text) (hk2 : k2 = Kind.special ∨ k2 = Kind.text)
    (F : SkipSegFacts T st name body (render rest))
    (B : TextRun T st (pos + name.length + 2) body bsteps)
    (I : PieceFacts T st (pos + (name.length + body.length + 3)) rest ps) :
    PieceFacts T st pos (.skip name body :: rest)
      (.skip (cwTok pos name)
             { kind := k1, pos := pos + name.length + 1, txt := ['{'] } (bsteps.map (·.tok))
             { kind := k2, pos := pos + name.length + 2 + body.length, txt := ['}'] } :: ps) := by
  have hc : ∀ t ∈ bsteps.map (·.tok), CopyTok T st t := by
    intro t ht
    obtain ⟨x, hx, rfl⟩ := List.mem_map.mp ht
    exact (B.ok x hx).2.2
  have hbne : bsteps.map (·.tok) ≠ [] := by
    intro e
    exact F.nm.bne (B.nil_iff (by simpa using e))
  refine ⟨?_, ?_, ?_⟩
  · exact ⟨⟨rfl, nDef_cwTok F.nm pos, F.decl⟩, ⟨hk1, rfl⟩, ⟨hk2, rfl⟩, hbne, hc, I.ok⟩
  · simp only [flowsOf, flowsOut]
    exact I.flows
  · have h2 := I.cost
    simp only [cost, render, Seg.render, List.length_append, List.length_cons, List.length_nil]
    omega

theorem render_call (name body : Str) (rest : List Seg) :
    render (.call name body :: rest) = '\\' :: (name ++ '{' :: (body ++ '}' :: render rest)) := by
  simp [render, Seg.render]

theorem render_skip (name body : Str) (rest : List Seg) :
    render (.skip name body :: rest) = '\\' :: (name ++ '{' :: (body ++ '}' :: render rest)) := by
  simp [render, Seg.render]

theorem render_com (t : Str) (rest : List Seg) :
    render (.com t :: rest) = '%' :: (t ++ nl :: render rest) := by
  simp [render, Seg.render]

structure ComFacts (T : PTables) (st : PState) (t R : Str) : Prop where
  noNl : Comment.noNl t = true
  head : R.head?.all (fun d => !isSpace d) = true
  tok : Comment.comTokOk T st ('%' :: (t ++ [nl])) = true

theorem comFacts {T : PTables} {st : PState} {t R : Str} (h : comOk T st t R = true) :
    ComFacts T st t R := by
  simp only [comOk, Bool.and_eq_true] at h
  exact ⟨h.1.1, h.1.2, h.2⟩

/-- the comment token of `%t⏎` in front of something that does not start with white space -/
theorem nextToken_com (T : PTables) (st : PState) (src : Str) (pos : Nat) (t R : Str)
    (h : ComFacts T st t R) :
    nextToken T.toTables src pos ('%' :: (t ++ nl :: R))
      = { tok := { kind := .comment, pos := pos, txt := '%' :: (t ++ [nl]) }, len := t.length + 2 } := by
  have htw : R.takeWhile isSpace = [] := by
    have := PlainFootnote.takeWhile_append_head isSpace R h.head []
    simpa using this
  rw [Comment.nextToken_percent, Comment.comTxt_com t R h.noNl, Comment.span_com t R h.noNl, htw]
  simp [hasNl]

theorem comTok_of_facts {T : PTables} {st : PState} {t R : Str} (h : ComFacts T st t R) (pos : Nat) :
    Comment.ComTok T st { kind := .comment, pos := pos, txt := '%' :: (t ++ [nl]) } := by
  have := h.tok
  simp only [Comment.comTokOk, Bool.and_eq_true, Bool.not_eq_true'] at this
  exact ⟨rfl, ⟨_, rfl⟩, this.1, this.2⟩

theorem PieceFacts_com {T : PTables} {st : PState} {pos : Nat} {t : Str} {rest : List Seg}
    {ps : List Piece} (F : ComFacts T st t (render rest))
    (I : PieceFacts T st (pos + (t.length + 2)) rest ps) :
    PieceFacts T st pos (.com t :: rest)
      (.com { kind := .comment, pos := pos, txt := '%' :: (t ++ [nl]) } :: ps) where
  ok := ⟨comTok_of_facts F pos, I.ok⟩
  flows := by simp only [flowsOf, flowsOut]; exact I.flows
  cost := by
    have h2 := I.cost
    simp only [cost, render, Seg.render, List.length_append, List.length_cons, List.length_nil]
    omega

/-- the scanner loop on a well-formed document: complete, no diagnostics, the token buffer
    consists of copied tokens, calls and comment tokens -/
theorem scanSteps_segs (T : PTables) (st : PState) (src : Str) :
    ∀ (segs : List Seg) (fuel pos : Nat), (render segs).length ≤ fuel → segsOk T st segs = true →
      ∃ steps ps, scanSteps T.toTables src fuel pos (render segs) = (steps, true) ∧
        (∀ x ∈ steps, x.diag = none ∧ x.extra = []) ∧ steps.map (·.tok) = flat ps ∧
        PieceFacts T st pos segs ps := by
  intro segs
  induction segs with
  | nil =>
    intro fuel pos _ _
    exact ⟨[], [], by simp [render, scanSteps], by simp, rfl, PieceFacts_nil T st pos⟩
  | cons sg rest ih =>
    intro fuel pos hf hok
    cases sg with
    | txt s =>
      simp only [segsOk, Bool.and_eq_true] at hok
      obtain ⟨⟨htext, hhead⟩, hrest⟩ := hok
      have hlen : (render (.txt s :: rest)).length = s.length + (render rest).length := by
        simp [render, Seg.render]
      rw [hlen] at hf
      obtain ⟨bsteps, B, hrun⟩ := PlainFootnote.scanSteps_textrun T st src (render rest) hhead
        s.length s pos fuel (Nat.le_refl _) (by omega) htext
      have hBl := B.len
      obtain ⟨steps', ps', hsc, hok', hflat, I⟩ := ih (fuel - bsteps.length) (pos + s.length)
        (by omega) hrest
      refine ⟨bsteps ++ steps', tokPieces (bsteps.map (·.tok)) ++ ps', ?_, ?_, ?_, PieceFacts_txt B I⟩
      · show scanSteps T.toTables src fuel pos (s ++ render rest) = _
        rw [hrun, hsc]
      · intro x hx
        rcases List.mem_append.mp hx with hx | hx
        · exact ⟨(B.ok x hx).1, (B.ok x hx).2.1⟩
        · exact hok' x hx
      · rw [List.map_append, flat_tokPieces, hflat]
    | call name body =>
      simp only [segsOk, Bool.and_eq_true] at hok
      obtain ⟨hcall, hrest⟩ := hok
      have F := callFacts hcall
      have hlen : (render (.call name body :: rest)).length
          = name.length + body.length + 3 + (render rest).length := by
        rw [render_call]; simp; omega
      rw [hlen] at hf
      rw [render_call]
      obtain ⟨k1, k2, bsteps, hk1, hk2, B, hsteps⟩ := scanSteps_braced T st src name body (render rest)
        F.nm fuel pos (by omega)
      have hBl := B.len
      obtain ⟨steps', ps', hsc, hok', hflat, I⟩ := ih (fuel - (bsteps.length + 3))
        (pos + (name.length + body.length + 3)) (by omega) hrest
      rw [hsc] at hsteps
      refine ⟨_, _, hsteps, ?_, ?_, PieceFacts_call k1 k2 hk1 hk2 F B I⟩
      · intro x hx
        simp only [List.mem_cons, List.mem_append] at hx
        rcases hx with rfl | rfl | hx | rfl | hx
        · exact ⟨rfl, rfl⟩
        · exact ⟨rfl, rfl⟩
        · exact ⟨(B.ok x hx).1, (B.ok x hx).2.1⟩
        · exact ⟨rfl, rfl⟩
        · exact hok' x hx
      · simp [flat, Piece.toks, hflat]
    | skip name body =>
      simp only [segsOk, Bool.and_eq_true] at hok
      obtain ⟨hskip, hrest⟩ := hok
      have F := skipSegFacts hskip
      have hlen : (render (.skip name body :: rest)).length
          = name.length + body.length + 3 + (render rest).length := by
        rw [render_skip]; simp; omega
      rw [hlen] at hf
      rw [render_skip]
      obtain ⟨k1, k2, bsteps, hk1, hk2, B, hsteps⟩ := scanSteps_braced T st src name body (render rest)
        F.nm fuel pos (by omega)
      have hBl := B.len
      obtain ⟨steps', ps', hsc, hok', hflat, I⟩ := ih (fuel - (bsteps.length + 3))
        (pos + (name.length + body.length + 3)) (by omega) hrest
      rw [hsc] at hsteps
      refine ⟨_, _, hsteps, ?_, ?_, PieceFacts_skip k1 k2 hk1 hk2 F B I⟩
      · intro x hx
        simp only [List.mem_cons, List.mem_append] at hx
        rcases hx with rfl | rfl | hx | rfl | hx
        · exact ⟨rfl, rfl⟩
        · exact ⟨rfl, rfl⟩
        · exact ⟨(B.ok x hx).1, (B.ok x hx).2.1⟩
        · exact ⟨rfl, rfl⟩
        · exact hok' x hx
      · simp [flat, Piece.toks, hflat]
    | com t =>
      simp only [segsOk, Bool.and_eq_true] at hok
      obtain ⟨hcom, hrest⟩ := hok
      have F := comFacts hcom
      have hlen : (render (.com t :: rest)).length = t.length + 2 + (render rest).length := by
        rw [render_com]; simp; omega
      rw [hlen] at hf
      rw [render_com]
      obtain ⟨f, rfl⟩ : ∃ f, fuel = f + 1 := ⟨fuel - 1, by omega⟩
      obtain ⟨steps', ps', hsc, hok', hflat, I⟩ := ih f (pos + (t.length + 2)) (by omega) hrest
      have hn := nextToken_com T st src pos t (render rest) F
      have hd : ('%' :: (t ++ nl :: render rest)).drop (t.length + 2) = render rest := by
        rw [show t.length + 2 = (t.length + 1) + 1 by omega, List.drop_succ_cons,
          show t ++ nl :: render rest = (t ++ [nl]) ++ render rest by simp,
          show t.length + 1 = (t ++ [nl]).length by simp, List.drop_left]
      have hstep := PlainHeading.scanSteps_step T.toTables src f pos _ _ _ hn (by simp)
      simp only [hd, hsc] at hstep
      refine ⟨_, .com { kind := .comment, pos := pos, txt := '%' :: (t ++ [nl]) } :: ps', hstep,
        ?_, ?_, PieceFacts_com F I⟩
      · intro x hx
        rcases List.mem_cons.mp hx with rfl | hx
        · exact ⟨rfl, rfl⟩
        · exact hok' x hx
      · simp [flat, Piece.toks, hflat]

/-! ### `scan`, `parserWork`, `parse`, `tex2txt` -/

/-- the skip pre-pass of `parser_work` does not see a begin marker -/
theorem PiecesOk.nobegin {T : PTables} {st : PState} : ∀ {ps : List Piece}, PiecesOk T st ps →
    ∀ t ∈ flat ps, (t.kind == .comment && startsWith t.txt st.skipBegin) = false
  | [], _, _, h => by simp [flat] at h
  | .tok t :: rest, hok, x, hx => by
    simp only [flat, Piece.toks, List.singleton_append, List.mem_cons] at hx
    rcases hx with rfl | hx
    · have := hok.1.plain.notComment
      simp [this]
    · exact PiecesOk.nobegin hok.2 x hx
  | .call fn lb b rb :: rest, hok, x, hx => by
    obtain ⟨h1, h2, h3, _, hb, _, hrest⟩ := hok
    simp only [flat, Piece.toks, List.cons_append, List.append_assoc, List.mem_cons,
      List.mem_append, List.nil_append] at hx
    rcases hx with rfl | rfl | hx | rfl | hx
    · simp [h1.kind]
    · rcases h2.kind with k | k <;> simp [k]
    · have := (hb x hx).plain.notComment
      simp [this]
    · rcases h3.kind with k | k <;> simp [k]
    · exact PiecesOk.nobegin hrest x hx
  | .skip fn lb b rb :: rest, hok, x, hx => by
    obtain ⟨h1, h2, h3, _, hb, hrest⟩ := hok
    simp only [flat, Piece.toks, List.cons_append, List.append_assoc, List.mem_cons,
      List.mem_append, List.nil_append] at hx
    rcases hx with rfl | rfl | hx | rfl | hx
    · simp [h1.kind]
    · rcases h2.kind with k | k <;> simp [k]
    · have := (hb x hx).plain.notComment
      simp [this]
    · rcases h3.kind with k | k <;> simp [k]
    · exact PiecesOk.nobegin hrest x hx
  | .com t :: rest, hok, x, hx => by
    simp only [flat, Piece.toks, List.singleton_append, List.mem_cons] at hx
    rcases hx with rfl | hx
    · simp [hok.1.nskip]
    · exact PiecesOk.nobegin hok.2 x hx

/-- `scan` on a well-formed document: no diagnostics; the token buffer consists of copied tokens,
    calls and comment tokens -/
theorem scan_segs (T : PTables) (st : PState) (segs : List Seg) (hok : segsOk T st segs = true) :
    (scan T.toTables (render segs)).diags = [] ∧
    ∃ ps, (scan T.toTables (render segs)).toks = flat ps ∧ PieceFacts T st 0 segs ps := by
  obtain ⟨steps, ps, hsc, hok', hflat, F⟩ := scanSteps_segs T st (render segs) segs
    (render segs).length 0 (Nat.le_refl _) hok
  have he := flatten_tok_extra steps (fun s hs => (hok' s hs).2)
  have hd := flatten_diag_nil steps (fun s hs => (hok' s hs).1)
  simp only [scan, hsc]
  rw [he, hd]
  exact ⟨rfl, ps, hflat, F⟩

theorem segsOk_congr (T : PTables) (st st' : PState) (hm : st'.macros = st.macros)
    (hl : st'.langStack = st.langStack) (hk : st'.skipBegin = st.skipBegin) :
    ∀ segs : List Seg, segsOk T st' segs = segsOk T st segs
  | [] => rfl
  | .txt s :: rest => by
    simp only [segsOk, PlainFootnote.textOk_congr T st st' hl, segsOk_congr T st st' hm hl hk rest]
  | .call n b :: rest => by
    simp only [segsOk, callOk, nameOk, lookupMacro, hm, PlainFootnote.textOk_congr T st st' hl,
      segsOk_congr T st st' hm hl hk rest]
  | .skip n b :: rest => by
    simp only [segsOk, skipOk, nameOk, lookupMacro, hm, PlainFootnote.textOk_congr T st st' hl,
      segsOk_congr T st st' hm hl hk rest]
  | .com t :: rest => by
    simp only [segsOk, comOk, Comment.comTokOk, hk, activeChars_congr T st st' hl,
      segsOk_congr T st st' hm hl hk rest]

theorem stateOk_congr (T : PTables) (st st' : PState) (hl : st'.langStack = st.langStack)
    (hs : st'.multiLanguage = st.multiLanguage) : stateOk T st' = stateOk T st := by
  simp only [stateOk, hs, noEmptyActive_congr T st st' hl]

/-- **`parserWork` on a well-formed document** (root level: `nest = 0` before the call).  The
    bodies of the calls are appended to `extracted`, in order; nothing else in the state changes.
    The main tokens `main` are not described: in extraction mode `parse` discards them. -/
theorem parserWork_ext (T : PTables) (st : PState) (segs : List Seg) (fuel : Nat)
    (hf : (render segs).length + 4 ≤ fuel) (hs : stateOk T st = true)
    (hok : segsOk T st segs = true) (hn : st.nest = 0) :
    ∃ ps main, PieceFacts T st 0 segs ps ∧
      parserWork T fuel (render segs) st
        = .ok (main, { st with extracted := st.extracted ++ flowsOf ps }) := by
  obtain ⟨f, rfl⟩ : ∃ f, fuel = f + 1 := ⟨fuel - 1, by omega⟩
  obtain ⟨hd, ps, hflat, F⟩ := scan_segs T st segs hok
  have hsf := stateFacts hs
  have hcost := F.cost
  obtain ⟨main, hseq⟩ := seq_ext T none ps f [] { st with latex := render segs, nest := st.nest + 1 }
    (by omega)
    (PiecesOk.congr (st := st) (st' := { st with latex := render segs, nest := st.nest + 1 })
      rfl rfl rfl F.ok)
    (hsf.congr (st' := { st with latex := render segs, nest := st.nest + 1 }) rfl rfl)
  refine ⟨ps, main, F, ?_⟩
  rw [parserWork.eq_2]
  refine (M.bind_ok _ _ _ _ _ (rfl : M.get st = _)).trans ?_
  refine (M.bind_ok _ _ _ _ _ (rfl : M.modify _ _ = _)).trans ?_
  refine (M.bind_ok _ _ _ _ _ (rfl : M.modify _ _ = _)).trans ?_
  refine (M.bind_ok _ _ _ _ _ (rfl : M.get _ = _)).trans ?_
  simp only [hd, List.append_nil]
  rw [Comment.skipPass_nobegin { st with latex := render segs, nest := st.nest + 1 } _ _
    (fun t ht' => PiecesOk.nobegin (T := T) (st := { st with latex := render segs, nest := st.nest + 1 })
      (PiecesOk.congr (st := st) (st' := { st with latex := render segs, nest := st.nest + 1 })
        rfl rfl rfl F.ok) t (by rw [← hflat]; exact ht'))]
  simp only []
  refine (M.bind_ok _ _ _ _ _ (rfl : (pure _ : M (List Tok)) _ = _)).trans ?_
  rw [hflat]
  refine (M.bind_ok _ _ _ _ _ hseq).trans ?_
  refine (M.bind_ok _ _ _ _ _ (rfl : M.modify _ _ = _)).trans ?_
  show Outcome.ok _ = _
  simp [addFlows, hn]

/-- (4) **`parse` on a well-formed document with an extraction list** (no `--defs`): the main
    flow is discarded; every extracted flow stands between a paragraph separator (three line
    breaks, pinned to the position of its first token) and a final line break (pinned to the
    position of its last token).  The hypotheses are about the state after `init_extractions`. -/
theorem parse_ext (T : PTables) (st : PState) (extract : List Str) (segs : List Seg) (fuel : Nat)
    (hex : extract.isEmpty = false)
    (hf : (render segs).length + 4 ≤ fuel) (hs : stateOk T (initExtractions T st extract) = true)
    (hok : segsOk T (initExtractions T st extract) segs = true) :
    ∃ ps, PieceFacts T (initExtractions T st extract) 0 segs ps ∧
      parse T fuel (render segs) [] extract st
        = .ok (((flowsOf ps).map flowToks).flatten,
               { initExtractions T st extract with
                 extracted := flowsOf ps, unknowns := [], foreign := false, nest := 0 }) := by
  generalize hst2 : initExtractions T st extract = st2 at hs hok
  have hs' : stateOk T { st2 with extracted := [], unknowns := [], foreign := false, nest := 0 } = true :=
    (stateOk_congr T st2 { st2 with extracted := [], unknowns := [], foreign := false, nest := 0 }
      rfl rfl).trans hs
  have hok' : segsOk T { st2 with extracted := [], unknowns := [], foreign := false, nest := 0 } segs
      = true :=
    (segsOk_congr T st2 { st2 with extracted := [], unknowns := [], foreign := false, nest := 0 }
      rfl rfl rfl segs).trans hok
  obtain ⟨ps, main, F, hw⟩ := parserWork_ext T
    { st2 with extracted := [], unknowns := [], foreign := false, nest := 0 } segs fuel hf hs' hok' rfl
  refine ⟨ps, ⟨PiecesOk.congr
    (st := { st2 with extracted := [], unknowns := [], foreign := false, nest := 0 }) (st' := st2)
    rfl rfl rfl F.ok, F.flows, F.cost⟩, ?_⟩
  unfold parse
  simp only [hex, Bool.not_false, List.isEmpty_nil, Bool.false_eq_true, if_false, if_true]
  refine (M.bind_ok _ _ _ _ _ (rfl : M.modify _ _ = _)).trans ?_
  rw [hst2]
  refine (M.bind_ok _ _ _ _ _ (rfl : M.modify _ _ = _)).trans ?_
  refine (M.bind_ok _ _ _ _ _ (rfl : (pure _ : M (List Tok)) _ = _)).trans ?_
  refine (M.bind_ok _ _ _ _ _ (rfl : M.modify _ _ = _)).trans ?_
  refine (M.bind_ok _ _ _ _ _ hw).trans ?_
  refine (M.bind_ok _ _ _ _ _ (rfl : M.get _ = _)).trans ?_
  show Outcome.ok _ = _
  simp only [List.nil_append]
  rfl

/-- the result record of `tex2txt` on a well-formed document with the option `--extr` (no
    `--defs`, `--repl`, `--unkn`; single-language mode) -/
theorem tex2txt_ext_record (T : PTables) (o : Options) (fs : FS) (thresh : Nat) (segs : List Seg)
    (fuel : Nat) (st1 : PState)
    (hdefs : o.defs = []) (hextr : o.extr ≠ []) (hrepl : o.hasRepl = false) (hunkn : o.unkn = false)
    (hinit : initParser T fuel o (initialState T o false fs) = .ok ((), st1))
    (hst : stateOk T (initExtractions T st1 (extrList o.extr)) = true)
    (hok : segsOk T (initExtractions T st1 (extrList o.extr)) segs = true)
    (hf : (render segs).length + 4 ≤ fuel) :
    ∃ ps, PieceFacts T (initExtractions T st1 (extrList o.extr)) 0 segs ps ∧
      tex2txt T fuel (render segs) o false thresh fs
        = .ok { toks := ((flowsOf ps).map flowToks).flatten,
                txt := (refOut segs).map (·.1),
                pos := ((refOut segs).map (·.2)).map (· + 1), parts := [], unknowns := [],
                diags := st1.diags, foreign := false } := by
  obtain ⟨ps, F, hp⟩ := parse_ext T st1 (extrList o.extr) segs fuel (extrList_isEmpty _) hf hst hok
  refine ⟨ps, F, ?_⟩
  have he : o.extr.isEmpty = false := by
    cases h : o.extr with
    | nil => exact absurd h hextr
    | cons => rfl
  have hrun : (initParser T fuel o >>= fun _ => parse T fuel (render segs) o.defs
        (if o.extr.isEmpty then [] else (splitOn ',' o.extr []).map (fun s => '\\' :: s)))
        (initialState T o false fs)
      = .ok (((flowsOf ps).map flowToks).flatten,
             { initExtractions T st1 (extrList o.extr) with
               extracted := flowsOf ps, unknowns := [], foreign := false, nest := 0 }) := by
    refine (M.bind_ok _ _ _ _ _ hinit).trans ?_
    rw [hdefs, he]
    exact hp
  have htp : getTxtPos ((flowsOf ps).map flowToks).flatten
      = ((refOut segs).map (·.1), (refOut segs).map (·.2)) := F.flows
  unfold tex2txt
  simp only []
  rw [hrun]
  simp only [hrepl, hunkn, Bool.not_false, if_true, Bool.false_eq_true, if_false, htp]
  rfl

/-! ### what `init_extractions` does to the declarations -/

/-- what `init_extractions` makes of a declared macro: handler and replacement are deleted (for
    *every* declared macro, listed or not); a listed macro gets the extraction text `#k` for its
    first mandatory argument (none if it has no `A`), an unlisted one loses its extraction -/
def updDecl (T : PTables) (extracts : List Str) (m : MacroDef) : MacroDef :=
  if extracts.contains m.name then
    { m with extract := (if idxOf (· == 'A') m.args < m.args.length
                then (scan T.toTables (['#'] ++ natToStr (idxOf (· == 'A') m.args + 1))).toks else []),
             repl := [], handler := .none }
  else { m with extract := [], repl := [], handler := .none }

/-- the declaration `init_extractions` creates for a listed name that is not declared:
    `Macro(parms, name, args='A', repl='', extract='#1')` -/
def newDecl (T : PTables) (n : Str) : MacroDef :=
  { name := n, args := ['A'], repl := [], extract := (scan T.toTables "#1".toList).toks }

theorem updDecl_name (T : PTables) (l : List Str) (m : MacroDef) : (updDecl T l m).name = m.name := by
  unfold updDecl; split <;> rfl

theorem initExtractions_macros (T : PTables) (st : PState) (l : List Str) :
    (initExtractions T st l).macros
      = st.macros.map (updDecl T l) ++
        ((l.filter (fun n => !((st.macros.map (updDecl T l)).any (·.name == n)))).eraseDups).map (newDecl T) :=
  rfl

theorem find?_map_name (T : PTables) (l : List Str) (n : Str) : ∀ ms : List MacroDef,
    (ms.map (updDecl T l)).find? (·.name == n) = (ms.find? (·.name == n)).map (updDecl T l)
  | [] => rfl
  | m :: ms => by
    simp only [List.map_cons, List.find?_cons, updDecl_name]
    split
    · rfl
    · exact find?_map_name T l n ms

/-- a declared macro stays declared; its declaration is changed by `updDecl` -/
theorem initExtractions_declared (T : PTables) (st : PState) (l : List Str) (n : Str) (m : MacroDef)
    (h : lookupMacro st n = some m) :
    lookupMacro (initExtractions T st l) n = some (updDecl T l m) := by
  unfold lookupMacro at h ⊢
  rw [initExtractions_macros, List.find?_append, find?_map_name, h]
  rfl

/-- a listed name that is not declared is declared by `init_extractions` with one mandatory
    argument, which is extracted -/
theorem initExtractions_undeclared (T : PTables) (st : PState) (l : List Str) (n : Str)
    (h : lookupMacro st n = none) (hn : n ∈ l) :
    lookupMacro (initExtractions T st l) n = some (newDecl T n) := by
  unfold lookupMacro at h ⊢
  have hnone : (st.macros.map (updDecl T l)).find? (·.name == n) = none := by
    rw [find?_map_name, h]; rfl
  have hany : (st.macros.map (updDecl T l)).any (·.name == n) = false := by
    rw [List.find?_eq_none] at hnone
    rw [List.any_eq_false]
    exact fun x hx => hnone x hx
  rw [initExtractions_macros, List.find?_append, hnone, Option.none_or]
  generalize hadd : (l.filter (fun n => !((st.macros.map (updDecl T l)).any (·.name == n)))).eraseDups = add
  have hmem : n ∈ add := by
    rw [← hadd, List.mem_eraseDups, List.mem_filter]
    exact ⟨hn, by simp [hany]⟩
  cases hf : (add.map (newDecl T)).find? (·.name == n) with
  | none =>
    rw [List.find?_eq_none] at hf
    have := hf (newDecl T n) (List.mem_map.mpr ⟨n, hmem, rfl⟩)
    simp [newDecl] at this
  | some x =>
    have h1 := List.mem_of_find?_eq_some hf
    have h2 := List.find?_some hf
    obtain ⟨n', _, rfl⟩ := List.mem_map.mp h1
    have : n' = n := by simpa [newDecl] using h2
    rw [this]

/-- **only listed macros are extracted**: after `init_extractions` a macro with a non-empty
    extraction text is in the extraction list -/
theorem initExtractions_listed (T : PTables) (st : PState) (l : List Str) (n : Str) (m : MacroDef)
    (h : lookupMacro (initExtractions T st l) n = some m) (he : m.extract ≠ []) : n ∈ l := by
  unfold lookupMacro at h
  have hname : m.name = n := by simpa using List.find?_some h
  have hmem := List.mem_of_find?_eq_some h
  rw [initExtractions_macros, List.mem_append] at hmem
  rcases hmem with hmem | hmem
  · obtain ⟨m0, _, rfl⟩ := List.mem_map.mp hmem
    rw [updDecl_name] at hname
    unfold updDecl at he
    split at he
    · rename_i hc
      rw [← hname]
      simpa using hc
    · exact absurd rfl he
  · obtain ⟨n', hn', rfl⟩ := List.mem_map.mp hmem
    rw [List.mem_eraseDups, List.mem_filter] at hn'
    have : n' = n := hname
    rw [← this]
    exact hn'.1

theorem callDeclOk_extract {m : MacroDef} (h : callDeclOk m = true) : m.extract ≠ [] := by
  obtain ⟨_, _, _, _, _, t, he, _⟩ := declFacts h
  rw [he]; simp

/-- the names of the macros that are called in a document -/
def callNames : List Seg → List Str
  | [] => []
  | .txt _ :: rest => callNames rest
  | .call name _ :: rest => ('\\' :: name) :: callNames rest
  | .skip _ _ :: rest => callNames rest
  | .com _ :: rest => callNames rest

/-- in a well-formed document (with respect to the state after `init_extractions`) every macro
    that is called is in the extraction list -/
theorem calls_listed (T : PTables) (st : PState) (l : List Str) :
    ∀ segs : List Seg, segsOk T (initExtractions T st l) segs = true → ∀ n ∈ callNames segs, n ∈ l
  | [], _, n, hn => by simp [callNames] at hn
  | .txt _ :: rest, h, n, hn => by
    simp only [segsOk, Bool.and_eq_true] at h
    exact calls_listed T st l rest h.2 n hn
  | .com _ :: rest, h, n, hn => by
    simp only [segsOk, Bool.and_eq_true] at h
    exact calls_listed T st l rest h.2 n hn
  | .skip _ _ :: rest, h, n, hn => by
    simp only [segsOk, Bool.and_eq_true] at h
    exact calls_listed T st l rest h.2 n hn
  | .call name body :: rest, h, n, hn => by
    simp only [segsOk, Bool.and_eq_true] at h
    simp only [callNames, List.mem_cons] at hn
    rcases hn with rfl | hn
    · obtain ⟨m, hm, hok⟩ := (callFacts h.1).decl
      exact initExtractions_listed T st l _ m hm (callDeclOk_extract hok)
    · exact calls_listed T st l rest h.2 n hn

/-! ### reading the reference output -/

/-- the bodies of the calls, in source order -/
def bodies : List Seg → List Str
  | [] => []
  | .txt _ :: rest => bodies rest
  | .call _ body :: rest => body :: bodies rest
  | .skip _ _ :: rest => bodies rest
  | .com _ :: rest => bodies rest

/-- the output text: for every call, in order, three line breaks, the body, one line break -/
def flowsText (segs : List Seg) : Str :=
  ((bodies segs).map (fun b => [nl, nl, nl] ++ b ++ [nl])).flatten

/-- the characters of the bodies with their (0-based) source positions; `p` = offset of the first
    segment -/
def bodiesOut : Nat → List Seg → List (Char × Nat)
  | _, [] => []
  | p, .txt s :: rest => bodiesOut (p + s.length) rest
  | p, .call name body :: rest =>
    posText (p + name.length + 2) body ++ bodiesOut (p + (name.length + body.length + 3)) rest
  | p, .skip name body :: rest => bodiesOut (p + (name.length + body.length + 3)) rest
  | p, .com t :: rest => bodiesOut (p + (t.length + 2)) rest

theorem flowsOut_fst : ∀ (p : Nat) (segs : List Seg), (flowsOut p segs).map (·.1) = flowsText segs
  | _, [] => rfl
  | p, .txt _ :: rest => by
    simp only [flowsOut, flowsOut_fst _ rest]; rfl
  | p, .com _ :: rest => by
    simp only [flowsOut, flowsOut_fst _ rest]; rfl
  | p, .skip _ _ :: rest => by
    simp only [flowsOut, flowsOut_fst _ rest]; rfl
  | p, .call n b :: rest => by
    simp only [flowsOut, List.map_append, flowsOut_fst _ rest]
    simp [flowsText, bodies, flowOut, posText_fst]

theorem bodiesOut_fst : ∀ (p : Nat) (segs : List Seg), (bodiesOut p segs).map (·.1) = (bodies segs).flatten
  | _, [] => rfl
  | p, .txt _ :: rest => by
    simp only [bodiesOut, bodiesOut_fst _ rest]; rfl
  | p, .com _ :: rest => by
    simp only [bodiesOut, bodiesOut_fst _ rest]; rfl
  | p, .skip _ _ :: rest => by
    simp only [bodiesOut, bodiesOut_fst _ rest]; rfl
  | p, .call n b :: rest => by
    simp [bodiesOut, bodies, posText_fst, bodiesOut_fst _ rest]

/-- the visible (non-blank) characters of the output, with their positions, are exactly the
    visible characters of the bodies, in order: the separators are line breaks -/
theorem flowsOut_visible : ∀ (p : Nat) (segs : List Seg),
    (flowsOut p segs).filter (fun cp => !isSpace cp.1) = (bodiesOut p segs).filter (fun cp => !isSpace cp.1)
  | _, [] => rfl
  | p, .txt _ :: rest => by simp only [flowsOut, bodiesOut, flowsOut_visible _ rest]
  | p, .com _ :: rest => by simp only [flowsOut, bodiesOut, flowsOut_visible _ rest]
  | p, .skip _ _ :: rest => by simp only [flowsOut, bodiesOut, flowsOut_visible _ rest]
  | p, .call n b :: rest => by
    have hnl : isSpace nl = true := by decide
    simp [flowsOut, bodiesOut, flowOut, List.filter_append, hnl, flowsOut_visible _ rest]

theorem mem_posText : ∀ (s : Str) (p : Nat) (cp : Char × Nat), cp ∈ posText p s →
    p ≤ cp.2 ∧ cp.2 < p + s.length ∧ s[cp.2 - p]? = some cp.1
  | [], _, _, h => by simp [posText] at h
  | c :: cs, p, cp, h => by
    simp only [posText, List.mem_cons] at h
    rcases h with rfl | h
    · simp
    · obtain ⟨h1, h2, h3⟩ := mem_posText cs (p + 1) cp h
      refine ⟨by omega, by simp only [List.length_cons]; omega, ?_⟩
      rw [show cp.2 - p = (cp.2 - (p + 1)) + 1 by omega, List.getElem?_cons_succ]
      exact h3

/-- every body character stands in the source at the position it is mapped to -/
theorem bodiesOut_get : ∀ (segs : List Seg) (p : Nat) (cp : Char × Nat), cp ∈ bodiesOut p segs →
    p ≤ cp.2 ∧ (render segs)[cp.2 - p]? = some cp.1
  | [], _, _, h => by simp [bodiesOut] at h
  | .txt s :: rest, p, cp, h => by
    obtain ⟨h1, h2⟩ := bodiesOut_get rest (p + s.length) cp h
    refine ⟨by omega, ?_⟩
    show (s ++ render rest)[cp.2 - p]? = _
    rw [List.getElem?_append_right (by omega), show cp.2 - p - s.length = cp.2 - (p + s.length) by omega]
    exact h2
  | .com t :: rest, p, cp, h => by
    obtain ⟨h1, h2⟩ := bodiesOut_get rest (p + (t.length + 2)) cp h
    refine ⟨by omega, ?_⟩
    show (('%' :: (t ++ [nl])) ++ render rest)[cp.2 - p]? = _
    rw [List.getElem?_append_right (by simp; omega)]
    simp only [List.length_cons, List.length_append, List.length_nil]
    rw [show cp.2 - p - (t.length + (0 + 1) + 1) = cp.2 - (p + (t.length + 2)) by omega]
    exact h2
  | .skip n b :: rest, p, cp, h => by
    have hr : render (.skip n b :: rest) = ('\\' :: (n ++ ['{'])) ++ (b ++ ('}' :: render rest)) := by
      simp [render, Seg.render]
    have hl : ('\\' :: (n ++ ['{'])).length = n.length + 2 := by simp
    obtain ⟨h1, h2⟩ := bodiesOut_get rest _ cp h
    refine ⟨by omega, ?_⟩
    rw [hr, List.getElem?_append_right (by rw [hl]; omega), hl,
      List.getElem?_append_right (by omega), show cp.2 - p - (n.length + 2) - b.length
        = (cp.2 - (p + (n.length + b.length + 3))) + 1 by omega, List.getElem?_cons_succ]
    exact h2
  | .call n b :: rest, p, cp, h => by
    simp only [bodiesOut, List.mem_append] at h
    have hr : render (.call n b :: rest) = ('\\' :: (n ++ ['{'])) ++ (b ++ ('}' :: render rest)) := by
      simp [render, Seg.render]
    have hl : ('\\' :: (n ++ ['{'])).length = n.length + 2 := by simp
    rcases h with h | h
    · obtain ⟨h1, h2, h3⟩ := mem_posText b _ cp h
      refine ⟨by omega, ?_⟩
      rw [hr, List.getElem?_append_right (by rw [hl]; omega), hl,
        List.getElem?_append_left (by omega),
        show cp.2 - p - (n.length + 2) = cp.2 - (p + n.length + 2) by omega]
      exact h3
    · obtain ⟨h1, h2⟩ := bodiesOut_get rest _ cp h
      refine ⟨by omega, ?_⟩
      rw [hr, List.getElem?_append_right (by rw [hl]; omega), hl,
        List.getElem?_append_right (by omega), show cp.2 - p - (n.length + 2) - b.length
          = (cp.2 - (p + (n.length + b.length + 3))) + 1 by omega, List.getElem?_cons_succ]
      exact h2

theorem lastTokOff_lt (s : Str) (h : s ≠ []) : lastTokOff s < s.length := by
  unfold lastTokOff
  have := List.length_pos_iff.mpr h
  omega

theorem mem_posText_head (p : Nat) (c : Char) (cs : Str) : (c, p) ∈ posText p (c :: cs) := by
  simp [posText]

theorem posText_pos_mem : ∀ (s : Str) (p i : Nat), i < s.length → ∃ c, (c, p + i) ∈ posText p s
  | [], _, _, h => by simp at h
  | c :: cs, p, 0, _ => ⟨c, by simp [posText]⟩
  | c :: cs, p, i + 1, h => by
    obtain ⟨d, hd⟩ := posText_pos_mem cs (p + 1) i (by simpa using h)
    refine ⟨d, ?_⟩
    simp only [posText, List.mem_cons]
    right
    rw [show p + (i + 1) = p + 1 + i by omega]
    exact hd

/-- all bodies of the calls are non-empty (part of `segsOk`) -/
def bodiesNonEmpty (segs : List Seg) : Bool := (bodies segs).all (fun b => !b.isEmpty)

theorem bodiesNonEmpty_of_segsOk (T : PTables) (st : PState) : ∀ segs : List Seg,
    segsOk T st segs = true → bodiesNonEmpty segs = true
  | [], _ => rfl
  | .txt _ :: rest, h => by
    simp only [segsOk, Bool.and_eq_true] at h
    exact bodiesNonEmpty_of_segsOk T st rest h.2
  | .com _ :: rest, h => by
    simp only [segsOk, Bool.and_eq_true] at h
    exact bodiesNonEmpty_of_segsOk T st rest h.2
  | .skip _ _ :: rest, h => by
    simp only [segsOk, Bool.and_eq_true] at h
    exact bodiesNonEmpty_of_segsOk T st rest h.2
  | .call n b :: rest, h => by
    simp only [segsOk, Bool.and_eq_true] at h
    have := (callFacts h.1).nm.bne
    have ih := bodiesNonEmpty_of_segsOk T st rest h.2
    simp only [bodiesNonEmpty, bodies, List.all_cons, Bool.and_eq_true] at ih ⊢
    exact ⟨by simpa using this, ih⟩

/-- **no output position lies outside the bodies**: every position of the reference output (also
    those of the separating line breaks) is the position of a body character -/
theorem flowsOut_inBody : ∀ (segs : List Seg) (p : Nat), bodiesNonEmpty segs = true →
    ∀ cp ∈ flowsOut p segs, ∃ c, (c, cp.2) ∈ bodiesOut p segs
  | [], _, _, cp, h => by simp [flowsOut] at h
  | .txt s :: rest, p, hb, cp, h => flowsOut_inBody rest _ hb cp h
  | .com t :: rest, p, hb, cp, h => flowsOut_inBody rest _ hb cp h
  | .skip _ _ :: rest, p, hb, cp, h => flowsOut_inBody rest _ hb cp h
  | .call n b :: rest, p, hb, cp, h => by
    simp only [bodiesNonEmpty, bodies, List.all_cons, Bool.and_eq_true] at hb
    have hne : b ≠ [] := by simpa using hb.1
    simp only [flowsOut, List.mem_append] at h
    simp only [bodiesOut, List.mem_append]
    rcases h with h | h
    · simp only [flowOut, List.mem_append, List.mem_cons, List.not_mem_nil, or_false] at h
      obtain ⟨c0, cs, hb0⟩ : ∃ c0 cs, b = c0 :: cs := by
        cases b with
        | nil => exact absurd rfl hne
        | cons c0 cs => exact ⟨c0, cs, rfl⟩
      rcases h with (h | h) | h
      · have : cp.2 = p + n.length + 2 := by rcases h with rfl | rfl | rfl <;> rfl
        rw [this, hb0]
        exact ⟨c0, Or.inl (mem_posText_head _ _ _)⟩
      · exact ⟨cp.1, Or.inl h⟩
      · rw [h]
        obtain ⟨c, hc⟩ := posText_pos_mem b (p + n.length + 2) (lastTokOff b) (lastTokOff_lt b hne)
        exact ⟨c, Or.inl hc⟩
    · obtain ⟨c, hc⟩ := flowsOut_inBody rest _ hb.2 cp h
      exact ⟨c, Or.inr hc⟩

/-! ### end to end -/

/-- **C18 (extraction), end to end.**  The option `--extr` is given (`o.extr ≠ []`); the document
    is a sequence of inert text segments, comment lines `%text⏎`, calls `\name{body}` of macros
    whose first mandatory argument is extracted in the state after `init_extractions` (`.call`;
    `segsOk` implies that `\name` is in the extraction list, `calls_listed`) and calls
    `\name{body}` of declared macros that are not extracted (`.skip`: under `--extr foo` for
    instance `\footnote`, `\section`, `\label`); `st1` is the state after `Parser.__init__`; no
    `--defs`, `--repl`, `--unkn`; single-language mode.  With one unit of fuel per source character
    plus four, `tex2txt` succeeds and

    * the output text consists, for each `.call` in source order, of three line breaks, the body
      and one line break — and of nothing else: no character of a text segment, of a comment or of
      a call of a macro that is not listed appears (`flowsText`);
    * every body character maps to its own source position (1-based); the three line breaks of a
      separator map to the position of the first character of the body, the final line break to
      the position of the last token of the body (`lastTokOff`): `refOut`;
    * nothing is reported as unknown, no diagnostic is added, the ghost flag `foreign` is unset. -/
theorem tex2txt_extract (T : PTables) (o : Options) (fs : FS) (thresh : Nat) (segs : List Seg)
    (fuel : Nat) (st1 : PState)
    (hdefs : o.defs = []) (hextr : o.extr ≠ []) (hrepl : o.hasRepl = false) (hunkn : o.unkn = false)
    (hinit : initParser T fuel o (initialState T o false fs) = .ok ((), st1))
    (hst : stateOk T (initExtractions T st1 (extrList o.extr)) = true)
    (hok : segsOk T (initExtractions T st1 (extrList o.extr)) segs = true)
    (hf : (render segs).length + 4 ≤ fuel) :
    ∃ r, tex2txt T fuel (render segs) o false thresh fs = .ok r ∧
      r.txt = flowsText segs ∧
      r.txt = (refOut segs).map (·.1) ∧
      r.pos = (refOut segs).map (fun cp => cp.2 + 1) ∧
      r.unknowns = [] ∧ r.diags = st1.diags ∧ r.foreign = false := by
  obtain ⟨ps, _, ht⟩ := tex2txt_ext_record T o fs thresh segs fuel st1 hdefs hextr hrepl hunkn hinit
    hst hok hf
  refine ⟨_, ht, ?_, rfl, ?_, rfl, rfl, rfl⟩
  · exact flowsOut_fst 0 segs
  · simp only [List.map_map]; rfl

/-- **the reference output is exactly the bodies**: its visible characters are the visible
    characters of the bodies in source order, each at its own source position; every position
    that occurs (also for the separators) is the position of a body character; and every body
    character is the source character at its position -/
theorem refOut_exact (T : PTables) (st : PState) (segs : List Seg) (hok : segsOk T st segs = true) :
    (refOut segs).filter (fun cp => !isSpace cp.1) = (bodiesOut 0 segs).filter (fun cp => !isSpace cp.1) ∧
    (∀ cp ∈ refOut segs, ∃ c, (c, cp.2) ∈ bodiesOut 0 segs) ∧
    (∀ cp ∈ bodiesOut 0 segs, (render segs)[cp.2]? = some cp.1) ∧
    (bodiesOut 0 segs).map (·.1) = (bodies segs).flatten :=
  ⟨flowsOut_visible 0 segs,
   flowsOut_inBody segs 0 (bodiesNonEmpty_of_segsOk T st segs hok),
   fun cp h => (bodiesOut_get segs 0 cp h).2,
   bodiesOut_fst 0 segs⟩

/-- **C18 (extraction): the output is exactly the bodies.**  Under the hypotheses of
    `tex2txt_extract`:
    * the output text is `flowsText segs`; its visible (non-blank) characters are the visible
      characters of the concatenated bodies, in source order;
    * paired with their positions, the visible output characters are the visible body characters
      at their own (1-based) source positions;
    * every output position — also those of the separating line breaks — is the position of a
      body character: no position lies outside the bodies, none in a text segment or a comment;
    * every body character is the source character at its position. -/
theorem tex2txt_extract_exact (T : PTables) (o : Options) (fs : FS) (thresh : Nat) (segs : List Seg)
    (fuel : Nat) (st1 : PState)
    (hdefs : o.defs = []) (hextr : o.extr ≠ []) (hrepl : o.hasRepl = false) (hunkn : o.unkn = false)
    (hinit : initParser T fuel o (initialState T o false fs) = .ok ((), st1))
    (hst : stateOk T (initExtractions T st1 (extrList o.extr)) = true)
    (hok : segsOk T (initExtractions T st1 (extrList o.extr)) segs = true)
    (hf : (render segs).length + 4 ≤ fuel) :
    ∃ r, tex2txt T fuel (render segs) o false thresh fs = .ok r ∧
      r.txt = flowsText segs ∧
      r.txt.filter (fun c => !isSpace c) = (bodies segs).flatten.filter (fun c => !isSpace c) ∧
      (r.txt.zip r.pos).filter (fun cp => !isSpace cp.1)
        = ((bodiesOut 0 segs).filter (fun cp => !isSpace cp.1)).map (fun cp => (cp.1, cp.2 + 1)) ∧
      (∀ q ∈ r.pos, 1 ≤ q ∧ ∃ c, (c, q - 1) ∈ bodiesOut 0 segs) ∧
      (∀ cp ∈ bodiesOut 0 segs, (render segs)[cp.2]? = some cp.1) := by
  obtain ⟨r, hr, h1, h2, h3, _⟩ := tex2txt_extract T o fs thresh segs fuel st1 hdefs hextr hrepl hunkn
    hinit hst hok hf
  obtain ⟨e1, e2, e3, e4⟩ := refOut_exact T _ segs hok
  refine ⟨r, hr, h1, ?_, ?_, ?_, e3⟩
  · rw [h2, ← e4, List.filter_map, List.filter_map]
    exact congrArg _ e1
  · rw [h2, h3, List.zip_map', List.filter_map, ← e1]
    rfl
  · intro q hq
    rw [h3] at hq
    obtain ⟨cp, hcp, rfl⟩ := List.mem_map.mp hq
    obtain ⟨c, hc⟩ := e2 cp hcp
    exact ⟨by omega, c, by simpa using hc⟩

end PlainExtract
end Yalafi
