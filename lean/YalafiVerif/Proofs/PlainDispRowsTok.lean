/-
  Proofs/PlainDispRowsTok.lean — token level of C11 for the ROW / SECTION structure of displayed
  equations (source level and the end-to-end theorem: Proofs/PlainDispRows.lean; statements for
  Properties: Properties/PlainDispRowsStmt.lean).

  The body of an equation is   row (`\\` row)*,   row ::= section (`&` section)*,   every section a run
  of simple maths tokens (one-character text tokens that become element / operator tokens, white
  space in between; a section may be empty).

    `partStep`, `replaceStep_disp`      one maths part in display mode, any `first_part` / `next_repl`
    `SecSt`, `secNew`, `replaceSection_disp`   `replace_section` on one section
    `dispCont`, `displayLoop_unfold`    one iteration of the loop of `expand_display_math`
    `RowT`, `RowsT`, `secsNew`, `rowsNew`, `displayLoop_row`, `displayLoop_rows`   the loop on the rows
    `eqnToks`, `expandDisplayMath_rows` what `expand_display_math` returns
    `Piece`, `PiecesOk`, `outD`, `cost`, `seq_rows`    `expandSequence` on plain tokens and equations
    `lineRun_row`, `lineRun_rows`, `lineRun_eqn`, `removeLines_outD`   the blank-line removal only
                                        drops the Action tokens (first and last row visible)
-/
import YalafiVerif.Proofs.PlainDisplay
namespace Yalafi
namespace PlainDispRows

open M
open PlainMath (BodyTok BodyItem mathTokOf isMathTok_mathTokOf mathTokOf_notSpace finFilter_math
  mathToks mathToks_cons_space mathToks_cons_body mathToks_body mathSection_space_step firstPos bodyTxt
  punctChar getTextDirect_mathToks bodyTxt_nonspace partPunct_mathToks rotOf_code curSettings_setRot
  TokShape rotN headD_of_ne_nil VisibleRepls mem_rotL punctChar_mem hasNl_single
  rotN_succ rotN_headD placeholder)
open PlainDisplay (dispStops DTok DItem mathSection_run CloseTok isElemTok isElemSrc
  isElemTok_mathTokOf find_elem_map rotOf_setRot_disp mathSection_close mathSection_end OpenTok
  seq_open_step seq_mathBegin_step seq_beg_equ defEnvOk equEnvAt equEnvOk mbTok)
open PlainMacro (lbr rbr)
open PlainItem (begTok endTok NameToks)

/-! ### one maths part in display mode -/

/-- the language's word for a leading operator: `math_op_text.get(op, math_op_text[None])` -/
def opWord (opText : List (Str × Str)) (d : Str) (x : Str) : Str :=
  ((opText.find? (·.1 == x)).map (·.2)).getD d

/-- what `replace_section` (display mode) does at a maths part `ts` that starts with the token `a`
    and neither starts nor ends with maths space -/
def partStep (T : PTables) (opText : List (Str × Str)) (d : Str) (s : RsState) (ts : List Tok)
    (a : Tok) : RsState :=
  let op := a.kind == .mathOper
  let el := ts.find? (isElemTok T)
  let word := op && s.firstPart
  let r' := if (s.nextRepl || word) && el.isSome then rotL s.repls else s.repls
  let pc := partPunct T ts
  { s with
    out := s.out
      ++ (if word then [mathSp a.pos, mkFix .text a.pos (opWord opText d a.txt), mathSp a.pos] else [])
      ++ (match el with | some e => [mkFix .text e.pos (r'.headD [])] | none => [])
      ++ (match pc with | some c => [mkFix .text a.pos [c]] | none => []),
    repls := r', nextRepl := pc.isSome || (op && el.isNone) }

theorem replaceStep_disp (T : PTables) (opText : List (Str × Str)) (d : Str) (s : RsState)
    (a : Tok) (l : List Tok) (tl : Tok) (hl : (a :: l).getLast? = some tl)
    (hka : a.kind ≠ .mathSpace) (hkl : tl.kind ≠ .mathSpace) (hr : s.repls ≠ []) :
    replaceStep T opText (some d) false s (.part (a :: l)) = some (partStep T opText d s (a :: l) a) := by
  have hka' : (a.kind == Kind.mathSpace) = false := by simpa using hka
  have hkl' : (tl.kind == Kind.mathSpace) = false := by simpa using hkl
  have hns : (a :: l).all (·.kind == .mathSpace) = false := by simp [hka]
  have hfo : (a :: l).find? (fun t => t.kind != .mathSpace) = some a := by simp [hka]
  have he' : (a :: l).find? (fun t => t.kind == .mathElem && !T.mathPunctuation.contains t.txt)
      = (a :: l).find? (isElemTok T) := rfl
  have hrr : ∀ b : Bool, (if b then rotL s.repls else s.repls).head?
      = some ((if b then rotL s.repls else s.repls).headD []) := by
    intro b
    cases b
    · exact headD_of_ne_nil _ hr
    · exact headD_of_ne_nil _ (rotL_ne_nil _ hr)
  simp only [replaceStep, List.head?_cons, hl, hns, hfo, he', hka', hkl', Bool.false_eq_true, if_false,
    Bool.not_false, Bool.true_and, Bool.false_or, strip_getLast?]
  unfold partStep partPunct opWord
  have h1 := headD_of_ne_nil _ hr
  have h2 := headD_of_ne_nil _ (rotL_ne_nil _ hr)
  clear hrr
  generalize s.repls.headD [] = R1 at h1 ⊢
  generalize (rotL s.repls).headD [] = R2 at h2 ⊢
  generalize (a :: l).find? (isElemTok T) = E
  generalize lastNonBlank (getTextDirect (a :: l)) = L
  cases hop : (a.kind == Kind.mathOper) <;> cases hfp : s.firstPart <;> cases hnr : s.nextRepl <;>
    cases E <;> cases L with
    | none => simp [h1, h2]
    | some c => by_cases hp : [c] ∈ T.mathPunctuation <;> simp [hp, h1, h2]

/-! ### `replace_section` on one section of a displayed equation -/

/-- the state `expand_display_math` threads through the sections of an equation: `next_repl`, the
    (rotated) display collection, the position of the last token generated so far -/
structure SecSt where
  nr : Bool
  r : List Str
  last : Nat

/-- position of the last token of `l` (`d` if there is none) -/
def lastPos (d : Nat) (l : List Tok) : Nat := (l.getLast?.map (·.pos)).getD d

theorem lastPos_append (d : Nat) (a b : List Tok) : lastPos d (a ++ b) = lastPos (lastPos d a) b := by
  unfold lastPos
  cases b with
  | nil => simp
  | cons x xs =>
    have h : (x :: xs).getLast? = some ((x :: xs).getLast (by simp)) := List.getLast?_eq_some_getLast _
    simp only [List.getLast?_append, h, Option.map_some, Option.getD_some]
    rfl

theorem lastPos_of_ne_nil (d d' : Nat) (a : List Tok) (h : a ≠ []) : lastPos d a = lastPos d' a := by
  unfold lastPos
  cases h' : a.getLast? with
  | none => exact absurd (List.getLast?_eq_none_iff.mp h') h
  | some x => rfl

/-- the tokens `replace_section` generates for a section with the body tokens `mb` (white space
    removed), and the state behind it: `fs` = first section of its row -/
def secNew (T : PTables) (ops : List Str) (opText : List (Str × Str)) (d : Str) (fs : Bool)
    (σ : SecSt) : List Tok → List Tok × SecSt
  | [] => ([], σ)
  | t0 :: l =>
    let op := ops.contains t0.txt
    let el := (t0 :: l).find? (isElemSrc T ops)
    let word := op && !fs
    let r' := if (σ.nr || word) && el.isSome then rotL σ.r else σ.r
    let pc := punctChar T (bodyTxt (t0 :: l))
    let toks :=
      (if word then [mathSp t0.pos, mkFix .text t0.pos (opWord opText d t0.txt), mathSp t0.pos] else [])
      ++ (match el with | some e => [mkFix .text e.pos (r'.headD [])] | none => [])
      ++ (match pc with | some c => [mkFix .text t0.pos [c]] | none => [])
    (toks, { nr := pc.isSome || (op && el.isNone), r := r', last := lastPos σ.last toks })

theorem mathTokOf_oper (st : PState) (t : Tok) :
    ((mathTokOf st t).kind == Kind.mathOper) = st.mathOperators.contains t.txt := by
  unfold mathTokOf mkTok
  cases st.mathOperators.contains t.txt <;> rfl

theorem replaceSection_disp (T : PTables) (st : PState) (opText : List (Str × Str)) (d : Str)
    (fs : Bool) (σ : SecSt) (mb : List Tok) (hmb : ∀ t ∈ mb, BodyTok T t) (hr : σ.r ≠ []) :
    replaceSection T opText (some d) false (detectMathParts (mb.map (mathTokOf st)) []) fs σ.nr σ.r
      = some { firstPart := !fs, nextRepl := (secNew T st.mathOperators opText d fs σ mb).2.nr,
               repls := (secNew T st.mathOperators opText d fs σ mb).2.r,
               out := (secNew T st.mathOperators opText d fs σ mb).1 } := by
  cases mb with
  | nil => rfl
  | cons t0 l =>
    have hmne : (t0 :: l).map (mathTokOf st) ≠ [] := by simp
    have hmath : ∀ t ∈ (t0 :: l).map (mathTokOf st), isMathTok t = true := by
      intro t ht
      obtain ⟨u, _, rfl⟩ := List.mem_map.mp ht
      exact isMathTok_mathTokOf st u
    have hlk : (((t0 :: l).map (mathTokOf st)).getLast hmne).kind ≠ .mathSpace := by
      obtain ⟨u, _, hu⟩ := List.mem_map.mp (List.getLast_mem hmne)
      rw [← hu]; exact mathTokOf_notSpace st u
    rw [detectMathParts_single _ hmath hmne]
    unfold replaceSection
    simp only [List.foldlM_cons, List.foldlM_nil]
    have hstep := replaceStep_disp T opText d
      { firstPart := !fs, nextRepl := σ.nr, repls := σ.r, out := [] }
      (mathTokOf st t0) (l.map (mathTokOf st)) _ (List.getLast?_eq_some_getLast hmne)
      (mathTokOf_notSpace st t0) hlk hr
    rw [List.map_cons, hstep]
    show some _ = some _
    congr 1
    unfold partStep secNew
    have hfe := find_elem_map T st (t0 :: l)
    rw [List.map_cons] at hfe
    have hpp := partPunct_mathToks T st (t0 :: l) hmb
    rw [List.map_cons] at hpp
    rw [hfe, hpp, mathTokOf_oper]
    have hpos : (mathTokOf st t0).pos = t0.pos := rfl
    have htxt : (mathTokOf st t0).txt = t0.txt := rfl
    simp only [hpos, htxt, List.nil_append, Option.isSome_map, Option.isNone_map]
    cases (t0 :: l).find? (isElemSrc T st.mathOperators) <;> rfl

/-! ### one iteration of the loop of `expand_display_math` -/

/-- what the loop does behind a section that ended with the token `e` -/
def dispCont (T : PTables) (fuel : Nat) (start : Nat) (envName : Str) (e : Tok) (rest : Buf) (nr : Bool)
    (out1 : List Tok) (latexLen : Nat) : M (List Tok × Buf × List Tok) :=
  let lp := (out1.getLast?.map (·.pos)).getD start
  let nextStart (b : Buf) : Nat := match b.head? with | some t => t.pos | none => start
  if txtIs e "&" then
    displayLoop T fuel rest (nextStart rest) envName false nr (out1 ++ [mkFix .space lp [' ']])
  else if txtIs e "\\\\" then do
    let b ← parseNewlineOption T rest false
    displayLoop T fuel b (nextStart b) envName true nr (out1 ++ [mkFix .space lp [nl, ' ', ' ']])
  else if e.kind == .par then
    pure (out1, rest, latexErrorToks T.toTables "missing end of maths".toList start latexLen)
  else pure (out1, rest, [])

theorem displayLoop_unfold (T : PTables) (st : PState) (fuel : Nat) (buf : Buf) (start : Nat)
    (envName : Str) (fs : Bool) (σ : SecSt) (out : List Tok) (mb : List Tok) (e : Tok) (rest : Buf)
    (rot : Rot) (ls : LangSettings) (d : Str)
    (hsec : expandMathSection T fuel buf start dispStops (some envName) [] st
      = .ok ({ out := mb.map (mathTokOf st), term := some e, buf := rest }, st))
    (hmb : ∀ t ∈ mb, BodyTok T t)
    (hrot : rotOf st (curSettings st) = some rot) (hls : settingsOf T (curSettings st) = some ls)
    (hd : ls.opDefault = some d) (hσ : σ.r = rot.disp) (hne : rot.disp ≠ []) :
    displayLoop T (fuel + 1) buf start envName fs σ.nr out st
      = dispCont T fuel start envName e rest (secNew T st.mathOperators ls.opText d fs σ mb).2.nr
          (out ++ (secNew T st.mathOperators ls.opText d fs σ mb).1) st.latex.length
          (setRot st { rot with disp := (secNew T st.mathOperators ls.opText d fs σ mb).2.r }) := by
  have hrs := replaceSection_disp T st ls.opText d fs σ mb hmb (by rw [hσ]; exact hne)
  rw [hσ] at hrs
  rw [displayLoop.eq_2]
  refine (M.bind_ok _ _ _ _ _ hsec).trans ?_
  refine (M.bind_ok _ _ _ _ _ (rfl : M.get st = _)).trans ?_
  simp only [hrot, hls, hd, hrs]
  refine (M.bind_ok _ _ _ _ _ (rfl : M.modify _ _ = _)).trans ?_
  rfl

/-! ### sections, separators, terminators -/

/-- the scanner token of `&` -/
structure AmpTok (t : Tok) : Prop where
  kind : t.kind = .special
  txt : t.txt = ['&']

/-- the scanner token of `\\` -/
structure NlTok (t : Tok) : Prop where
  kind : t.kind = .special
  txt : t.txt = ['\\', '\\']

/-- a token of a section: a body token (no `&`) or a blank white-space token -/
def SItem (T : PTables) (t : Tok) : Prop := DTok T t ∨ (t.kind = .space ∧ isBlank t.txt = true)

theorem SItem.dItem {T : PTables} {t : Tok} (h : SItem T t) : DItem T t := by
  rcases h with h | h
  · exact Or.inl h
  · exact Or.inr h.1

/-- the states that differ from `st` in the rotation records only -/
def Sim (st st' : PState) : Prop := st' = { st with rots := st'.rots }

theorem Sim.refl (st : PState) : Sim st st := rfl

theorem Sim.setRot {st st' : PState} (h : Sim st st') (r : Rot) : Sim st (setRot st' r) := by
  unfold Sim at *
  rw [h]
  rfl

theorem Sim.trans {a b c : PState} (h1 : Sim a b) (h2 : Sim b c) : Sim a c := by
  unfold Sim at *
  rw [h2, h1]

theorem Sim.ops {st st' : PState} (h : Sim st st') : st'.mathOperators = st.mathOperators := by
  rw [h]
theorem Sim.cur {st st' : PState} (h : Sim st st') : curSettings st' = curSettings st := by
  rw [h]; rfl
theorem Sim.latex {st st' : PState} (h : Sim st st') : st'.latex = st.latex := by
  rw [h]
theorem Sim.simple {st st' : PState} (h : Sim st st') : st'.displayedSimple = st.displayedSimple := by
  rw [h]

/-- the buffer `tl` ends a section with the token `e` and leaves `rest`, at the cost of `F` units of
    fuel — in every state that differs from `st` in the rotation records only -/
def TermAt (T : PTables) (st : PState) (envName : Str) (tl : Buf) (e : Tok) (rest : Buf) (F : Nat) : Prop :=
  ∀ st', Sim st st' → ∀ (f start : Nat) (out : List Tok), (∀ t ∈ out, isMathTok t = true) →
    expandMathSection T (f + F) tl start dispStops (some envName) out st'
      = .ok ({ out := out, term := some e, buf := rest }, st')

theorem TermAt.sim {T : PTables} {st st1 : PState} {envName : Str} {tl : Buf} {e : Tok} {rest : Buf}
    {F : Nat} (h : TermAt T st envName tl e rest F) (hs : Sim st st1) : TermAt T st1 envName tl e rest F :=
  fun st' h' => h st' (hs.trans h')

theorem mathSection_stop (T : PTables) (st : PState) (fuel : Nat) (start : Nat) (envStop : Option Str)
    (e : Tok) (rest : Buf) (out : List Tok) (hk : e.kind = .special)
    (hs : dispStops.contains e.txt = true) (ho : ∀ t ∈ out, isMathTok t = true) :
    expandMathSection T (fuel + 1) (e :: rest) start dispStops envStop out st
      = .ok ({ out := out, term := some e, buf := rest }, st) := by
  have hsk : skipSpace (e :: rest) = e :: rest := by simp [skipSpace, isSpaceTok, hk]
  have hp : (e.kind == Kind.par) = false := by simp [hk]
  have hv : isVerb e = false := by simp [isVerb, hk]
  rw [expandMathSection.eq_2, hsk]
  simp only [hp, hv, hs, Bool.false_eq_true, if_false, if_true]
  rw [finFilter_math out ho]
  rfl

theorem termAt_stop (T : PTables) (st : PState) (envName : Str) (e : Tok) (rest : Buf)
    (hk : e.kind = .special) (hs : dispStops.contains e.txt = true) :
    TermAt T st envName (e :: rest) e rest 1 :=
  fun st' _ f start out ho => mathSection_stop T st' f start (some envName) e rest out hk hs ho

theorem AmpTok.stop {t : Tok} (h : AmpTok t) : dispStops.contains t.txt = true := by
  rw [h.txt]; decide
theorem NlTok.stop {t : Tok} (h : NlTok t) : dispStops.contains t.txt = true := by
  rw [h.txt]; decide

/-- a section in front of a terminating buffer -/
theorem mathSection_sec (T : PTables) (st st' : PState) (envName : Str) (tl : Buf) (e : Tok) (rest : Buf)
    (F : Nat) (ht : TermAt T st envName tl e rest F) (hs : Sim st st') (b : List Tok) (fuel start : Nat)
    (hf : (mathToks b).length + F ≤ fuel) (hb : ∀ t ∈ b, DItem T t) :
    expandMathSection T fuel (b ++ tl) start dispStops (some envName) [] st'
      = .ok ({ out := (mathToks b).map (mathTokOf st'), term := some e, buf := rest }, st') := by
  obtain ⟨f, rfl⟩ : ∃ f, fuel = (f + F) + (mathToks b).length :=
    ⟨fuel - (mathToks b).length - F, by omega⟩
  rw [mathSection_run T st' start (some envName) _ b (f + F) [] hb, List.nil_append]
  refine ht st' hs f start _ ?_
  intro t ht
  obtain ⟨u, _, rfl⟩ := List.mem_map.mp ht
  exact isMathTok_mathTokOf st' u

/-! ### the rows of an equation as tokens -/

/-- a row: the tokens of its first section, and the further sections, each with its `&` token -/
abbrev RowT := List Tok × List (Tok × List Tok)

/-- an equation body: the first row, and the further rows, each with its `\\` token -/
abbrev RowsT := RowT × List (Tok × RowT)

def moreBuf (more : List (Tok × List Tok)) : List Tok := more.flatMap (fun x => x.1 :: x.2)
def rowBuf (r : RowT) : List Tok := r.1 ++ moreBuf r.2
def moreRowsBuf (m : List (Tok × RowT)) : List Tok := m.flatMap (fun x => x.1 :: rowBuf x.2)
def rowsBuf (r : RowsT) : List Tok := rowBuf r.1 ++ moreRowsBuf r.2

def RowOk (T : PTables) (r : RowT) : Prop :=
  (∀ t ∈ r.1, SItem T t) ∧ ∀ x ∈ r.2, AmpTok x.1 ∧ ∀ t ∈ x.2, SItem T t

/-- the first token of a row is not `[` (it would open the optional argument of `\\`) -/
def RowHeadOk (r : RowT) : Prop := ∀ t, r.1.head? = some t → t.txt ≠ ['[']

def RowsOk (T : PTables) (r : RowsT) : Prop :=
  RowOk T r.1 ∧ ∀ x ∈ r.2, NlTok x.1 ∧ RowOk T x.2 ∧ RowHeadOk x.2

/-- fuel for a row: one unit per section and token -/
def moreCost : List (Tok × List Tok) → Nat
  | [] => 0
  | x :: xs => x.2.length + 1 + moreCost xs
def rowCost (r : RowT) : Nat := r.1.length + 1 + moreCost r.2
def moreRowsCost : List (Tok × RowT) → Nat
  | [] => 0
  | x :: xs => rowCost x.2 + moreRowsCost xs
def rowsCost (r : RowsT) : Nat := rowCost r.1 + moreRowsCost r.2

/-- the tokens generated for the sections of a row (`b0`, then `more`), joined by one blank at the
    position of the last token generated before -/
def secsNew (T : PTables) (ops : List Str) (opText : List (Str × Str)) (d : Str) :
    Bool → SecSt → List Tok → List (Tok × List Tok) → List Tok × SecSt
  | fs, σ, b0, [] => secNew T ops opText d fs σ (mathToks b0)
  | fs, σ, b0, x :: more =>
    ((secNew T ops opText d fs σ (mathToks b0)).1
        ++ mathSp (secNew T ops opText d fs σ (mathToks b0)).2.last
        :: (secsNew T ops opText d false (secNew T ops opText d fs σ (mathToks b0)).2 x.2 more).1,
     (secsNew T ops opText d false (secNew T ops opText d fs σ (mathToks b0)).2 x.2 more).2)

/-- the line break between two rows, with the indentation of the next row -/
def nlSp (p : Nat) : Tok := mkFix .space p [nl, ' ', ' ']

/-- the tokens generated for the rows of an equation, joined by line break and indentation at the
    position of the last token generated before -/
def rowsNew (T : PTables) (ops : List Str) (opText : List (Str × Str)) (d : Str) :
    SecSt → RowT → List (Tok × RowT) → List Tok × SecSt
  | σ, r0, [] => secsNew T ops opText d true σ r0.1 r0.2
  | σ, r0, x :: moreR =>
    ((secsNew T ops opText d true σ r0.1 r0.2).1
        ++ nlSp (secsNew T ops opText d true σ r0.1 r0.2).2.last
        :: (rowsNew T ops opText d (secsNew T ops opText d true σ r0.1 r0.2).2 x.2 moreR).1,
     (rowsNew T ops opText d (secsNew T ops opText d true σ r0.1 r0.2).2 x.2 moreR).2)

theorem secNew_last (T : PTables) (ops : List Str) (opText : List (Str × Str)) (d : Str) (fs : Bool)
    (σ : SecSt) (mb : List Tok) :
    (secNew T ops opText d fs σ mb).2.last = lastPos σ.last (secNew T ops opText d fs σ mb).1 := by
  cases mb with
  | nil => rfl
  | cons t0 l => rfl

theorem lastPos_out (out : List Tok) (start : Nat) (h : out ≠ []) (toks : List Tok) :
    ((out ++ toks).getLast?.map (·.pos)).getD start = lastPos (lastPos 0 out) toks := by
  rw [← lastPos_append]
  exact lastPos_of_ne_nil start 0 _ (by simp [h])

/-! ### the loop of `expand_display_math` on a row -/

theorem rotOf_sim_setRot (st : PState) (rot : Rot) (l : List Str)
    (hrot : rotOf st (curSettings st) = some rot) :
    rotOf (setRot st { rot with disp := l }) (curSettings st) = some { rot with disp := l } :=
  rotOf_setRot_disp st (curSettings st) rot l hrot

/-- the loop runs through the sections of a row and arrives behind the section parser of its last
    section, which is ended by the token `e` of the buffer `tl` -/
theorem displayLoop_row (T : PTables) (envName : Str) (ls : LangSettings) (d : Str) (ops : List Str)
    (tl : Buf) (e : Tok) (rest : Buf) (F : Nat) :
    ∀ (more : List (Tok × List Tok)) (b0 : List Tok) (f start : Nat) (fs : Bool) (σ : SecSt)
      (out : List Tok) (st : PState) (rot : Rot),
      TermAt T st envName tl e rest F → 1 ≤ F → rowCost (b0, more) + F ≤ f + (more.length + 1) →
      RowOk T (b0, more) → st.mathOperators = ops →
      rotOf st (curSettings st) = some rot → settingsOf T (curSettings st) = some ls →
      ls.opDefault = some d → σ.r = rot.disp → rot.disp ≠ [] → out ≠ [] → σ.last = lastPos 0 out →
      ∃ st' start', Sim st st' ∧
        rotOf st' (curSettings st) = some { rot with disp := (secsNew T ops ls.opText d fs σ b0 more).2.r } ∧
        displayLoop T (f + (more.length + 1)) (rowBuf (b0, more) ++ tl) start envName fs σ.nr out st
          = dispCont T f start' envName e rest (secsNew T ops ls.opText d fs σ b0 more).2.nr
              (out ++ (secsNew T ops ls.opText d fs σ b0 more).1) st.latex.length st' := by
  intro more
  induction more with
  | nil =>
    intro b0 f start fs σ out st rot hterm hF hf hok hops hrot hls hd hσ hne hout hlast
    have hml := PlainDisplay.length_mathToks_le b0
    simp only [rowCost, moreCost, List.length_nil] at hf
    have hsec := mathSection_sec T st st envName tl e rest F hterm (Sim.refl st) b0 f start (by omega)
      (fun t ht => (hok.1 t ht).dItem)
    have hmb : ∀ t ∈ mathToks b0, BodyTok T t :=
      mathToks_body T b0 (fun t ht => (hok.1 t ht).dItem.bodyItem)
    have hu := displayLoop_unfold T st f (b0 ++ tl) start envName fs σ out (mathToks b0) e rest rot ls d
      hsec hmb hrot hls hd hσ hne
    rw [hops] at hu
    refine ⟨_, start, (Sim.refl st).setRot _, rotOf_sim_setRot st rot _ hrot, ?_⟩
    simp only [rowBuf, moreBuf, List.flatMap_nil, List.append_nil, List.length_nil, Nat.zero_add, secsNew]
    exact hu
  | cons x more ih =>
    intro b0 f start fs σ out st rot hterm hF hf hok hops hrot hls hd hσ hne hout hlast
    obtain ⟨a, b⟩ := x
    have hml := PlainDisplay.length_mathToks_le b0
    simp only [rowCost, moreCost, List.length_cons] at hf
    have hbuf : rowBuf (b0, (a, b) :: more) ++ tl = b0 ++ a :: (rowBuf (b, more) ++ tl) := by
      simp [rowBuf, moreBuf]
    have ha : AmpTok a := (hok.2 (a, b) (by simp)).1
    have hsec := mathSection_sec T st st envName _ a (rowBuf (b, more) ++ tl) 1
      (termAt_stop T st envName a _ ha.kind ha.stop) (Sim.refl st) b0 (f + (more.length + 1)) start
      (by omega) (fun t ht => (hok.1 t ht).dItem)
    have hmb : ∀ t ∈ mathToks b0, BodyTok T t :=
      mathToks_body T b0 (fun t ht => (hok.1 t ht).dItem.bodyItem)
    have hu := displayLoop_unfold T st (f + (more.length + 1)) (b0 ++ a :: (rowBuf (b, more) ++ tl)) start
      envName fs σ out (mathToks b0) a _ rot ls d hsec hmb hrot hls hd hσ hne
    rw [hops] at hu
    have hamp : txtIs a "&" = true := by simp [txtIs, ha.txt]
    generalize hS : secNew T ops ls.opText d fs σ (mathToks b0) = S at hu
    have hSlast : S.2.last = lastPos (lastPos 0 out) S.1 := by
      rw [← hS, secNew_last, hlast]
    have hstep : displayLoop T (f + (more.length + 1) + 1) (b0 ++ a :: (rowBuf (b, more) ++ tl)) start
          envName fs σ.nr out st
        = displayLoop T (f + (more.length + 1)) (rowBuf (b, more) ++ tl)
            (match (rowBuf (b, more) ++ tl).head? with | some t => t.pos | none => start) envName false
            S.2.nr (out ++ S.1 ++ [mathSp S.2.last]) (setRot st { rot with disp := S.2.r }) := by
      rw [hu]
      unfold dispCont
      simp only [hamp, if_true]
      rw [lastPos_out out start hout S.1, ← hSlast]
      rfl
    have hrot1 := rotOf_sim_setRot st rot S.2.r hrot
    have hsim1 : Sim st (setRot st { rot with disp := S.2.r }) := (Sim.refl st).setRot _
    have hSne : S.2.r ≠ [] := by
      rw [← hS]
      cases hm : mathToks b0 with
      | nil => simp only [secNew]; rw [hσ]; exact hne
      | cons t0 l =>
        simp only [secNew]
        split
        · rw [hσ]; exact rotL_ne_nil _ hne
        · rw [hσ]; exact hne
    have hf' : rowCost (b, more) + F ≤ f + (more.length + 1) := by
      show b.length + 1 + moreCost more + F ≤ f + (more.length + 1)
      omega
    obtain ⟨st', start', h1, h2, h3⟩ := ih b f
      (match (rowBuf (b, more) ++ tl).head? with | some t => t.pos | none => start) false S.2
      (out ++ S.1 ++ [mathSp S.2.last]) (setRot st { rot with disp := S.2.r })
      { rot with disp := S.2.r } (hterm.sim hsim1) hF hf'
      ⟨fun t ht => (hok.2 (a, b) (by simp)).2 t ht, fun y hy => hok.2 y (by simp [hy])⟩
      (hsim1.ops.trans hops) hrot1 hls hd rfl hSne (by simp)
      (by simp [lastPos, mathSp, mkFix])
    rw [hbuf]
    simp only [List.length_cons, secsNew, hS]
    rw [show f + (more.length + 1 + 1) = f + (more.length + 1) + 1 by omega, hstep]
    refine ⟨st', start', hsim1.trans h1, h2, ?_⟩
    rw [h3]
    simp only [List.append_assoc, List.singleton_append]
    rfl

/-! ### the loop of `expand_display_math` on the rows of an equation -/

theorem secNew_r_ne (T : PTables) (ops : List Str) (opText : List (Str × Str)) (d : Str) (fs : Bool)
    (σ : SecSt) (mb : List Tok) (h : σ.r ≠ []) : (secNew T ops opText d fs σ mb).2.r ≠ [] := by
  cases mb with
  | nil => exact h
  | cons t0 l =>
    simp only [secNew]
    split
    · exact rotL_ne_nil _ h
    · exact h

theorem secsNew_r_ne (T : PTables) (ops : List Str) (opText : List (Str × Str)) (d : Str) :
    ∀ (more : List (Tok × List Tok)) (fs : Bool) (σ : SecSt) (b0 : List Tok), σ.r ≠ [] →
      (secsNew T ops opText d fs σ b0 more).2.r ≠ []
  | [], fs, σ, b0, h => secNew_r_ne T ops opText d fs σ _ h
  | x :: more, fs, σ, b0, h => by
    simp only [secsNew]
    exact secsNew_r_ne T ops opText d more false _ x.2 (secNew_r_ne T ops opText d fs σ _ h)

theorem secsNew_last (T : PTables) (ops : List Str) (opText : List (Str × Str)) (d : Str) :
    ∀ (more : List (Tok × List Tok)) (fs : Bool) (σ : SecSt) (b0 : List Tok),
      (secsNew T ops opText d fs σ b0 more).2.last
        = lastPos σ.last (secsNew T ops opText d fs σ b0 more).1
  | [], fs, σ, b0 => secNew_last T ops opText d fs σ _
  | x :: more, fs, σ, b0 => by
    simp only [secsNew]
    rw [secsNew_last T ops opText d more false _ x.2, secNew_last,
      show ∀ (a : List Tok) (t : Tok) (c : List Tok), a ++ t :: c = (a ++ [t]) ++ c by simp,
      lastPos_append, lastPos_append]
    simp [lastPos, mathSp, mkFix]

/-- the first token of the buffer is not `[` -/
def NoBrHead (buf : Buf) : Prop := ∀ t, buf.head? = some t → t.txt ≠ ['[']

theorem parseNewlineOption_id (T : PTables) (buf : Buf) (st : PState) (h : NoBrHead buf) :
    parseNewlineOption T buf false st = .ok (buf, st) := by
  unfold parseNewlineOption
  cases buf with
  | nil => rfl
  | cons t ts =>
    have : txtIsNV t "[" = false := by
      have := h t rfl
      simp [txtIsNV, this]
    simp only [Bool.false_eq_true, if_false, this]
    rfl

theorem noBrHead_rows (T : PTables) (r1 : RowT) (moreR : List (Tok × RowT)) (cb : Buf)
    (h1 : RowHeadOk r1) (h2 : RowOk T r1) (h3 : ∀ x ∈ moreR, NlTok x.1) (h4 : NoBrHead cb) :
    NoBrHead (rowsBuf (r1, moreR) ++ cb) := by
  obtain ⟨b0, more⟩ := r1
  intro t ht
  cases b0 with
  | cons t0 l =>
    simp only [rowsBuf, rowBuf, List.cons_append, List.head?_cons, Option.some.injEq] at ht
    subst ht
    exact h1 t0 rfl
  | nil =>
    cases more with
    | cons x more' =>
      simp only [rowsBuf, rowBuf, moreBuf, List.nil_append, List.flatMap_cons, List.cons_append,
        List.head?_cons, Option.some.injEq] at ht
      subst ht
      rw [(h2.2 x (by simp)).1.txt]
      decide
    | nil =>
      cases moreR with
      | cons y moreR' =>
        simp only [rowsBuf, rowBuf, moreBuf, moreRowsBuf, List.nil_append, List.flatMap_nil,
          List.flatMap_cons, List.cons_append, List.head?_cons, Option.some.injEq] at ht
        subst ht
        rw [(h3 y (by simp)).txt]
        decide
      | nil =>
        simp only [rowsBuf, rowBuf, moreBuf, moreRowsBuf, List.nil_append, List.flatMap_nil] at ht
        exact h4 t ht

/-- **the loop of `expand_display_math`** on the rows of an equation in front of the closing
    buffer `cb` (which ends the last section with the token `e`): the tokens `rowsNew` are added,
    the rotated collection is stored -/
theorem displayLoop_rows (T : PTables) (envName : Str) (ls : LangSettings) (d : Str) (ops : List Str)
    (cb : Buf) (e : Tok) (rest : Buf) (F : Nat)
    (he1 : txtIs e "&" = false) (he2 : txtIs e "\\\\" = false) (he3 : (e.kind == Kind.par) = false)
    (hcb : NoBrHead cb) :
    ∀ (moreR : List (Tok × RowT)) (r0 : RowT) (fuel start : Nat) (σ : SecSt)
      (out : List Tok) (st : PState) (rot : Rot),
      TermAt T st envName cb e rest F → 1 ≤ F → rowsCost (r0, moreR) + F ≤ fuel →
      RowsOk T (r0, moreR) → st.mathOperators = ops →
      rotOf st (curSettings st) = some rot → settingsOf T (curSettings st) = some ls →
      ls.opDefault = some d → σ.r = rot.disp → rot.disp ≠ [] → out ≠ [] → σ.last = lastPos 0 out →
      ∃ st', Sim st st' ∧
        rotOf st' (curSettings st) = some { rot with disp := (rowsNew T ops ls.opText d σ r0 moreR).2.r } ∧
        displayLoop T fuel (rowsBuf (r0, moreR) ++ cb) start envName true σ.nr out st
          = .ok ((out ++ (rowsNew T ops ls.opText d σ r0 moreR).1, rest, []), st') := by
  intro moreR
  induction moreR with
  | nil =>
    intro r0 fuel start σ out st rot hterm hF hf hok hops hrot hls hd hσ hne hout hlast
    obtain ⟨b0, more⟩ := r0
    simp only [rowsCost, moreRowsCost, Nat.add_zero] at hf
    have hc : more.length + 1 ≤ rowCost (b0, more) := by
      simp only [rowCost]
      clear hf hok
      induction more with
      | nil => simp [moreCost]
      | cons x xs ih => simp only [moreCost, List.length_cons]; omega
    obtain ⟨f, rfl⟩ : ∃ f, fuel = f + (more.length + 1) := ⟨fuel - (more.length + 1), by omega⟩
    obtain ⟨st', start', h1, h2, h3⟩ := displayLoop_row T envName ls d ops cb e rest F more b0 f start
      true σ out st rot hterm hF hf hok.1 hops hrot hls hd hσ hne hout hlast
    refine ⟨st', h1, h2, ?_⟩
    simp only [rowsBuf, moreRowsBuf, List.flatMap_nil, List.append_nil, rowsNew]
    rw [h3]
    unfold dispCont
    simp only [he1, he2, he3, Bool.false_eq_true, if_false]
    rfl
  | cons x moreR ih =>
    intro r0 fuel start σ out st rot hterm hF hf hok hops hrot hls hd hσ hne hout hlast
    obtain ⟨b0, more⟩ := r0
    obtain ⟨n, r1⟩ := x
    simp only [rowsCost, moreRowsCost] at hf
    have hc : more.length + 1 ≤ rowCost (b0, more) := by
      simp only [rowCost]
      clear hf hok
      induction more with
      | nil => simp [moreCost]
      | cons x xs ih => simp only [moreCost, List.length_cons]; omega
    have hc1 : 1 ≤ rowCost r1 := by simp only [rowCost]; omega
    obtain ⟨f, rfl⟩ : ∃ f, fuel = f + (more.length + 1) := ⟨fuel - (more.length + 1), by omega⟩
    have hn : NlTok n := (hok.2 (n, r1) (by simp)).1
    have hbuf : rowsBuf ((b0, more), (n, r1) :: moreR) ++ cb
        = rowBuf (b0, more) ++ n :: (rowsBuf (r1, moreR) ++ cb) := by
      simp [rowsBuf, moreRowsBuf]
    obtain ⟨st1, start1, h1, h2, h3⟩ := displayLoop_row T envName ls d ops
      (n :: (rowsBuf (r1, moreR) ++ cb)) n (rowsBuf (r1, moreR) ++ cb) 1 more b0 f start
      true σ out st rot (termAt_stop T st envName n _ hn.kind hn.stop) (Nat.le_refl 1) (by omega) hok.1
      hops hrot hls hd hσ hne hout hlast
    generalize hR : secsNew T ops ls.opText d true σ b0 more = R at h2 h3
    have hRlast : R.2.last = lastPos (lastPos 0 out) R.1 := by
      rw [← hR, secsNew_last, hlast]
    have hRne : R.2.r ≠ [] := by
      rw [← hR]; exact secsNew_r_ne T ops ls.opText d more true σ b0 (by rw [hσ]; exact hne)
    have hnb : NoBrHead (rowsBuf (r1, moreR) ++ cb) :=
      noBrHead_rows T r1 moreR cb (hok.2 (n, r1) (by simp)).2.2 (hok.2 (n, r1) (by simp)).2.1
        (fun y hy => (hok.2 y (by simp [hy])).1) hcb
    have hstep : displayLoop T (f + (more.length + 1)) (rowBuf (b0, more) ++ n :: (rowsBuf (r1, moreR) ++ cb))
          start envName true σ.nr out st
        = displayLoop T f (rowsBuf (r1, moreR) ++ cb)
            (match (rowsBuf (r1, moreR) ++ cb).head? with | some t => t.pos | none => start1) envName true
            R.2.nr (out ++ R.1 ++ [nlSp R.2.last]) st1 := by
      rw [h3]
      unfold dispCont
      have hn1 : txtIs n "&" = false := by simp [txtIs, hn.txt]
      have hn2 : txtIs n "\\\\" = true := by simp [txtIs, hn.txt]
      simp only [hn1, hn2, Bool.false_eq_true, if_false, if_true]
      refine (M.bind_ok _ _ _ _ _ (parseNewlineOption_id T _ st1 hnb)).trans ?_
      rw [lastPos_out out start1 hout R.1, ← hRlast]
      rfl
    have hrot1 : rotOf st1 (curSettings st1) = some { rot with disp := R.2.r } := by
      rw [h1.cur]; exact h2
    obtain ⟨st', g1, g2, g3⟩ := ih r1 f
      (match (rowsBuf (r1, moreR) ++ cb).head? with | some t => t.pos | none => start1) R.2
      (out ++ R.1 ++ [nlSp R.2.last]) st1 { rot with disp := R.2.r } (hterm.sim h1) hF
      (by simp only [rowsCost]; omega)
      ⟨(hok.2 (n, r1) (by simp)).2.1, fun y hy => hok.2 y (by simp [hy])⟩
      (h1.ops.trans hops) hrot1 (by rw [h1.cur]; exact hls) hd rfl hRne (by simp)
      (by simp [lastPos, nlSp, mkFix])
    rw [hbuf, hstep]
    simp only [rowsNew, hR]
    refine ⟨st', h1.trans g1, ?_, ?_⟩
    · rw [← h1.cur]; exact g2
    · rw [g3]
      simp only [List.append_assoc, List.singleton_append]

/-! ### `expandDisplayMath` on an equation with rows and sections -/

theorem rowsNew_r_ne (T : PTables) (ops : List Str) (opText : List (Str × Str)) (d : Str) :
    ∀ (moreR : List (Tok × RowT)) (σ : SecSt) (r0 : RowT), σ.r ≠ [] →
      (rowsNew T ops opText d σ r0 moreR).2.r ≠ []
  | [], σ, r0, h => secsNew_r_ne T ops opText d r0.2 true σ r0.1 h
  | x :: moreR, σ, r0, h => by
    simp only [rowsNew]
    exact rowsNew_r_ne T ops opText d moreR _ x.2 (secsNew_r_ne T ops opText d r0.2 true σ r0.1 h)

theorem rowsNew_last (T : PTables) (ops : List Str) (opText : List (Str × Str)) (d : Str) :
    ∀ (moreR : List (Tok × RowT)) (σ : SecSt) (r0 : RowT),
      (rowsNew T ops opText d σ r0 moreR).2.last = lastPos σ.last (rowsNew T ops opText d σ r0 moreR).1
  | [], σ, r0 => secsNew_last T ops opText d r0.2 true σ r0.1
  | x :: moreR, σ, r0 => by
    simp only [rowsNew]
    rw [rowsNew_last T ops opText d moreR _ x.2, secsNew_last,
      show ∀ (a : List Tok) (t : Tok) (c : List Tok), a ++ t :: c = (a ++ [t]) ++ c by simp,
      lastPos_append, lastPos_append]
    simp [lastPos, nlSp, mkFix]

/-- the tokens generated for the rows of an equation whose opening token stands at `p`, `l` being the
    stored display collection; and the state behind them -/
def eqnNew (T : PTables) (ops : List Str) (opText : List (Str × Str)) (d : Str) (l : List Str) (p : Nat)
    (tr : RowsT) : List Tok × SecSt :=
  rowsNew T ops opText d { nr := true, r := l, last := p } tr.1 tr.2

/-- what `expand_display_math` returns: an Action token and the indentation at the position `p` of
    the opening token, the tokens of the rows, an Action token at the position of the last of them -/
def eqnToks (T : PTables) (ops : List Str) (opText : List (Str × Str)) (d : Str) (l : List Str) (p : Nat)
    (tr : RowsT) : List Tok :=
  [mkAction p, mkFix .space p [' ', ' ']] ++ (eqnNew T ops opText d l p tr).1
    ++ [mkAction (eqnNew T ops opText d l p tr).2.last]

theorem expandDisplayMath_rows (T : PTables) (st : PState) (fuel : Nat) (tok : Tok) (envName : Str)
    (ls : LangSettings) (d : Str) (tr : RowsT) (cb : Buf) (e : Tok) (rest : Buf) (F : Nat) (rot : Rot)
    (he1 : txtIs e "&" = false) (he2 : txtIs e "\\\\" = false) (he3 : (e.kind == Kind.par) = false)
    (hcb : NoBrHead cb) (hterm : TermAt T st envName cb e rest F) (hF : 1 ≤ F)
    (hf : rowsCost tr + F ≤ fuel) (hok : RowsOk T tr) (hds : st.displayedSimple = false)
    (hrot : rotOf st (curSettings st) = some rot) (hls : settingsOf T (curSettings st) = some ls)
    (hd : ls.opDefault = some d) (hne : rot.disp ≠ []) :
    ∃ st', Sim st st' ∧
      rotOf st' (curSettings st)
        = some { rot with disp := (eqnNew T st.mathOperators ls.opText d rot.disp tok.pos tr).2.r } ∧
      expandDisplayMath T (fuel + 1) (rowsBuf tr ++ cb) tok envName false st
        = .ok ((eqnToks T st.mathOperators ls.opText d rot.disp tok.pos tr, rest), st') := by
  obtain ⟨r0, moreR⟩ := tr
  obtain ⟨st', h1, h2, h3⟩ := displayLoop_rows T envName ls d st.mathOperators cb e rest F he1 he2 he3 hcb
    moreR r0 fuel tok.pos { nr := true, r := rot.disp, last := tok.pos }
    [mkAction tok.pos, mkFix .space tok.pos [' ', ' ']] st rot hterm hF hf hok rfl hrot hls hd rfl hne
    (by simp) (by simp [lastPos, mkFix])
  refine ⟨st', h1, h2, ?_⟩
  rw [expandDisplayMath.eq_2]
  refine (M.bind_ok _ _ _ _ _ h3).trans ?_
  simp only [Bool.false_eq_true, if_false]
  refine (M.bind_ok _ _ _ _ _ (rfl : M.get _ = _)).trans ?_
  have hds' : st'.displayedSimple = false := by rw [h1.simple]; exact hds
  simp only [hds', Bool.false_eq_true, if_false]
  show Outcome.ok _ = _
  unfold eqnToks eqnNew
  rw [lastPos_out _ tok.pos (by simp) _, rowsNew_last]
  simp [lastPos, mkFix]

/-! ### the closing tokens -/

theorem termAt_close (T : PTables) (st : PState) (envName : Str) (d2 : Tok) (rest : Buf)
    (hd : CloseTok d2) : TermAt T st envName (d2 :: rest) d2 rest 1 :=
  fun st' _ f start out ho => mathSection_close T st' f start (some envName) d2 rest out hd ho

theorem Sim.langStack {st st' : PState} (h : Sim st st') : st'.langStack = st.langStack := by rw [h]
theorem Sim.envs {st st' : PState} (h : Sim st st') : st'.envs = st.envs := by rw [h]

theorem termAt_end (T : PTables) (st : PState) (p q1 q2 : Nat) (nt : List Tok) (rest : Buf)
    (env : MacroDef) (h : NameToks T st nt)
    (hl : lookupEnv st (PlainMacro.bodyTxt nt) = some env) (hok : equEnvOk env = true) :
    TermAt T st (PlainMacro.bodyTxt nt) (endTok p :: lbr q1 :: (nt ++ rbr q2 :: rest)) (endTok p) rest
      (nt.length + 5) := by
  intro st' hs f start out ho
  have hl' : lookupEnv st' (PlainMacro.bodyTxt nt) = some env := by
    rw [← hl]; simp only [lookupEnv, hs.envs]
  have := mathSection_end T st' (f + nt.length + 1) start p q1 q2 nt rest out env
    (PlainDisplay.NameToks.congr hs.langStack h) (by omega) hl' hok ho
  rw [show f + (nt.length + 5) = f + nt.length + 1 + 4 by omega]
  exact this

theorem noBrHead_close (d2 : Tok) (rest : Buf) (hd : CloseTok d2) : NoBrHead (d2 :: rest) := by
  intro t ht
  simp only [List.head?_cons, Option.some.injEq] at ht
  subst ht
  rw [hd.txt]; decide

theorem noBrHead_end (p : Nat) (rest : Buf) : NoBrHead (endTok p :: rest) := by
  intro t ht
  simp only [List.head?_cons, Option.some.injEq] at ht
  subst ht
  show sEnd ≠ ['[']
  decide

/-! ### the generated tokens in the line automaton of the blank-line removal -/

/-- a visible one-line text -/
def Vis (s : Str) : Prop := hasNl s = false ∧ isBlank s = false

/-- the operator words of the language are visible one-line texts -/
def VisWords (opText : List (Str × Str)) (d : Str) : Prop := Vis d ∧ ∀ x ∈ opText, Vis x.2

theorem opWord_vis {opText : List (Str × Str)} {d : Str} (h : VisWords opText d) (x : Str) :
    Vis (opWord opText d x) := by
  unfold opWord
  cases hf : opText.find? (·.1 == x) with
  | none => exact h.1
  | some y => exact h.2 y (List.mem_of_find?_eq_some hf)

/-- a token generated inside a row: visible text or one blank -/
def InRow (t : Tok) : Prop := (t.kind = .text ∧ Vis t.txt) ∨ (t.kind = .space ∧ t.txt = [' '])

/-- the tokens contain a text token -/
def hasText (l : List Tok) : Bool := l.any (·.kind == .text)

theorem headD_vis (l : List Str) (hv : VisibleRepls l) (hne : l ≠ []) : Vis (l.headD []) := by
  cases l with
  | nil => exact absurd rfl hne
  | cons a t => exact hv a (by simp)

theorem secNew_r_vis (T : PTables) (ops : List Str) (opText : List (Str × Str)) (d : Str) (fs : Bool)
    (σ : SecSt) (mb : List Tok) (h : VisibleRepls σ.r) : VisibleRepls (secNew T ops opText d fs σ mb).2.r := by
  cases mb with
  | nil => exact h
  | cons t0 l =>
    simp only [secNew]
    split
    · exact h.rotL
    · exact h

theorem secNew_inRow (T : PTables) (ops : List Str) (opText : List (Str × Str)) (d : Str) (fs : Bool)
    (σ : SecSt) (mb : List Tok) (hmb : ∀ t ∈ mb, BodyTok T t) (hv : VisibleRepls σ.r) (hne : σ.r ≠ [])
    (hw : VisWords opText d) : ∀ t ∈ (secNew T ops opText d fs σ mb).1, InRow t := by
  cases mb with
  | nil => intro t ht; simp [secNew] at ht
  | cons t0 l =>
    intro t ht
    simp only [secNew, List.mem_append] at ht
    rcases ht with (ht | ht) | ht
    · split at ht
      · simp only [List.mem_cons, List.not_mem_nil, or_false] at ht
        rcases ht with rfl | rfl | rfl
        · exact Or.inr ⟨rfl, rfl⟩
        · exact Or.inl ⟨rfl, opWord_vis hw _⟩
        · exact Or.inr ⟨rfl, rfl⟩
      · simp at ht
    · split at ht
      · simp only [List.mem_singleton] at ht
        subst ht
        refine Or.inl ⟨rfl, ?_⟩
        show Vis (List.headD _ [])
        split
        · exact headD_vis _ hv.rotL (rotL_ne_nil _ hne)
        · exact headD_vis _ hv hne
      · simp at ht
    · split at ht
      · rename_i c hc
        simp only [List.mem_singleton] at ht
        subst ht
        have hcs : isSpace c = false :=
          bodyTxt_nonspace T _ hmb c (punctChar_mem T _ c hc)
        exact Or.inl ⟨rfl, hasNl_single c hcs, show isBlank [c] = false by simp [isBlank, hcs]⟩
      · simp at ht

/-- a section generates text iff it has an element, a closing punctuation mark, or (not being the
    first of its row) a leading operator -/
def secVisT (T : PTables) (ops : List Str) (fs : Bool) : List Tok → Bool
  | [] => false
  | t0 :: l =>
    ((t0 :: l).find? (isElemSrc T ops)).isSome || (punctChar T (bodyTxt (t0 :: l))).isSome ||
      (ops.contains t0.txt && !fs)

theorem secNew_hasText (T : PTables) (ops : List Str) (opText : List (Str × Str)) (d : Str) (fs : Bool)
    (σ : SecSt) (mb : List Tok) : hasText (secNew T ops opText d fs σ mb).1 = secVisT T ops fs mb := by
  cases mb with
  | nil => rfl
  | cons t0 l =>
    simp only [secNew, secVisT, hasText, List.any_append]
    cases (t0 :: l).find? (isElemSrc T ops) <;> cases punctChar T (bodyTxt (t0 :: l)) <;>
      cases ops.contains t0.txt <;> cases fs <;> simp [mkFix, mathSp]

def rowVisT (T : PTables) (ops : List Str) (r : RowT) : Bool :=
  secVisT T ops true (mathToks r.1) || r.2.any (fun x => secVisT T ops false (mathToks x.2))

theorem secsNew_r_vis (T : PTables) (ops : List Str) (opText : List (Str × Str)) (d : Str) :
    ∀ (more : List (Tok × List Tok)) (fs : Bool) (σ : SecSt) (b0 : List Tok), VisibleRepls σ.r →
      VisibleRepls (secsNew T ops opText d fs σ b0 more).2.r
  | [], fs, σ, b0, h => secNew_r_vis T ops opText d fs σ _ h
  | x :: more, fs, σ, b0, h => by
    simp only [secsNew]
    exact secsNew_r_vis T ops opText d more false _ x.2 (secNew_r_vis T ops opText d fs σ _ h)

theorem secsNew_inRow (T : PTables) (ops : List Str) (opText : List (Str × Str)) (d : Str)
    (hw : VisWords opText d) :
    ∀ (more : List (Tok × List Tok)) (fs : Bool) (σ : SecSt) (b0 : List Tok), RowOk T (b0, more) →
      VisibleRepls σ.r → σ.r ≠ [] → ∀ t ∈ (secsNew T ops opText d fs σ b0 more).1, InRow t
  | [], fs, σ, b0, hok, hv, hne => by
    simp only [secsNew]
    exact secNew_inRow T ops opText d fs σ _
      (mathToks_body T b0 (fun t ht => (hok.1 t ht).dItem.bodyItem)) hv hne hw
  | x :: more, fs, σ, b0, hok, hv, hne => by
    intro t ht
    simp only [secsNew, List.mem_append, List.mem_cons] at ht
    rcases ht with ht | rfl | ht
    · exact secNew_inRow T ops opText d fs σ _
        (mathToks_body T b0 (fun t ht => (hok.1 t ht).dItem.bodyItem)) hv hne hw t ht
    · exact Or.inr ⟨rfl, rfl⟩
    · exact secsNew_inRow T ops opText d hw more false _ x.2
        ⟨fun t ht => (hok.2 x (by simp)).2 t ht, fun y hy => hok.2 y (by simp [hy])⟩
        (secNew_r_vis T ops opText d fs σ _ hv) (secNew_r_ne T ops opText d fs σ _ hne) t ht

theorem secsNew_hasText (T : PTables) (ops : List Str) (opText : List (Str × Str)) (d : Str) :
    ∀ (more : List (Tok × List Tok)) (σ : SecSt) (b0 : List Tok),
      hasText (secsNew T ops opText d false σ b0 more).1
        = (secVisT T ops false (mathToks b0) || more.any (fun x => secVisT T ops false (mathToks x.2)))
  | [], σ, b0 => by simp [secsNew, secNew_hasText]
  | x :: more, σ, b0 => by
    have ih := secsNew_hasText T ops opText d more (secNew T ops opText d false σ (mathToks b0)).2 x.2
    have h1 := secNew_hasText T ops opText d false σ (mathToks b0)
    unfold hasText at ih h1 ⊢
    simp only [secsNew, List.any_append, List.any_cons, h1, ih]
    simp [mathSp, mkFix, show (Kind.space == Kind.text) = false from rfl]

theorem row_hasText (T : PTables) (ops : List Str) (opText : List (Str × Str)) (d : Str)
    (σ : SecSt) (r : RowT) :
    hasText (secsNew T ops opText d true σ r.1 r.2).1 = rowVisT T ops r := by
  obtain ⟨b0, more⟩ := r
  cases more with
  | nil => simp [secsNew, secNew_hasText, rowVisT]
  | cons x more =>
    have ih := secsNew_hasText T ops opText d more (secNew T ops opText d true σ (mathToks b0)).2 x.2
    have h1 := secNew_hasText T ops opText d true σ (mathToks b0)
    unfold hasText at ih h1 ⊢
    simp only [secsNew, rowVisT, List.any_append, List.any_cons, h1, ih]
    simp [mathSp, mkFix, show (Kind.space == Kind.text) = false from rfl]

theorem Vis.ne_nil {s : Str} (h : Vis s) : s ≠ [] := by
  intro e; rw [e] at h; simp [Vis, isBlank] at h

theorem InRow.kept {t : Tok} (h : InRow t) : Yalafi.keepIn t = true := by
  rcases h with ⟨_, hv⟩ | ⟨_, ht⟩
  · cases hx : t.txt with
    | nil => exact absurd hx hv.ne_nil
    | cons => simp [keepIn, hx]
  · simp [keepIn, ht]

theorem filter_keepIn_inRow (l : List Tok) (h : ∀ t ∈ l, InRow t) : l.filter keepIn = l :=
  List.filter_eq_self.mpr (fun t ht => (h t ht).kept)

/-- the tokens of a row in the line automaton: blanks change nothing, text makes the line visible -/
theorem lineRun_row : ∀ (l : List Tok), (∀ t ∈ l, InRow t) → ∀ (σ : Option Bool) (tail : List LItem),
    tail ≠ [] → lineRun σ (l.map evalTok ++ tail) = lineRun (if hasText l then none else σ) tail
  | [], _, σ, tail, _ => by simp [hasText]
  | t :: l, h, σ, tail, ht => by
    have hne2 : l.map evalTok ++ tail ≠ [] := by simp [ht]
    rcases h t (by simp) with ⟨hk, hv⟩ | ⟨hk, htx⟩
    · rw [List.map_cons, List.cons_append, lineRun_txt t hk hv.1 σ _ hne2,
        lineRun_row l (fun x hx => h x (by simp [hx])) _ tail ht]
      simp [hasText, hk, hv.2]
    · have hb : isBlank t.txt = true := by rw [htx]; decide
      have hn : hasNl t.txt = false := by rw [htx]; decide
      rw [List.map_cons, List.cons_append, lineRun_ws t (Or.inl hk) hb σ _ hne2]
      simp only [hn, Bool.false_eq_true, if_false]
      rw [lineRun_row l (fun x hx => h x (by simp [hx])) _ tail ht]
      simp [hasText, hk]

/-- the last row of an equation -/
def lastRow (tr : RowsT) : RowT :=
  match tr.2.getLast? with
  | some x => x.2
  | none => tr.1

theorem lastRow_cons (r0 : RowT) (x : Tok × RowT) (m : List (Tok × RowT)) :
    lastRow (r0, x :: m) = lastRow (x.2, m) := by
  unfold lastRow
  cases m with
  | nil => rfl
  | cons y m' =>
    simp only [List.getLast?_cons_cons]
    cases h : (y :: m').getLast? with
    | none => simp at h
    | some z => rfl

theorem rowsNew_r_vis (T : PTables) (ops : List Str) (opText : List (Str × Str)) (d : Str) :
    ∀ (moreR : List (Tok × RowT)) (σ : SecSt) (r0 : RowT), VisibleRepls σ.r →
      VisibleRepls (rowsNew T ops opText d σ r0 moreR).2.r
  | [], σ, r0, h => secsNew_r_vis T ops opText d r0.2 true σ r0.1 h
  | x :: moreR, σ, r0, h => by
    simp only [rowsNew]
    exact rowsNew_r_vis T ops opText d moreR _ x.2 (secsNew_r_vis T ops opText d r0.2 true σ r0.1 h)

/-- the rows of an equation in the line automaton: if the line is not a pure Action line when the
    first line break comes, and the last row holds text, the automaton ends behind visible text -/
theorem lineRun_rows (T : PTables) (ops : List Str) (opText : List (Str × Str)) (d : Str)
    (hw : VisWords opText d) (tail : List LItem) (htail : tail ≠ []) :
    ∀ (moreR : List (Tok × RowT)) (σs : SecSt) (r0 : RowT) (σ : Option Bool),
      RowsOk T (r0, moreR) → VisibleRepls σs.r → σs.r ≠ [] →
      (σ ≠ some true ∨ rowVisT T ops r0 = true) → rowVisT T ops (lastRow (r0, moreR)) = true →
      (∀ t ∈ (rowsNew T ops opText d σs r0 moreR).1, keepIn t = true) ∧
      lineRun σ ((rowsNew T ops opText d σs r0 moreR).1.map evalTok ++ tail) = lineRun none tail
  | [], σs, r0, σ, hok, hv, hne, _, hlast => by
    have hin := secsNew_inRow T ops opText d hw r0.2 true σs r0.1 hok.1 hv hne
    refine ⟨fun t ht => (hin t ht).kept, ?_⟩
    simp only [rowsNew]
    rw [lineRun_row _ hin σ tail htail, row_hasText]
    have : rowVisT T ops r0 = true := hlast
    simp [this]
  | x :: moreR, σs, r0, σ, hok, hv, hne, hfirst, hlast => by
    have hin := secsNew_inRow T ops opText d hw r0.2 true σs r0.1 hok.1 hv hne
    rw [lastRow_cons] at hlast
    obtain ⟨ih1, ih2⟩ := lineRun_rows T ops opText d hw tail htail moreR
      (secsNew T ops opText d true σs r0.1 r0.2).2 x.2 (some false)
      ⟨(hok.2 x (by simp)).2.1, fun y hy => hok.2 y (by simp [hy])⟩
      (secsNew_r_vis T ops opText d r0.2 true σs r0.1 hv)
      (secsNew_r_ne T ops opText d r0.2 true σs r0.1 hne) (Or.inl (by simp)) hlast
    refine ⟨?_, ?_⟩
    · intro t ht
      simp only [rowsNew, List.mem_append, List.mem_cons] at ht
      rcases ht with ht | rfl | ht
      · exact (hin t ht).kept
      · rfl
      · exact ih1 t ht
    · simp only [rowsNew, List.map_append, List.map_cons, List.append_assoc, List.cons_append]
      rw [lineRun_row _ hin σ _ (by simp), row_hasText]
      have hws := lineRun_ws (nlSp (secsNew T ops opText d true σs r0.1 r0.2).2.last) (Or.inl rfl)
        (show isBlank [nl, ' ', ' '] = true by decide)
      have hnl : hasNl (nlSp (secsNew T ops opText d true σs r0.1 r0.2).2.last).txt = true := by
        show hasNl [nl, ' ', ' '] = true
        decide
      rw [hws _ _ (by simp [htail]), hnl]
      simp only [if_true]
      have hσ' : ((if rowVisT T ops r0 = true then none else σ) == some true) = false := by
        rcases hfirst with h | h
        · split
          · rfl
          · cases σ with
            | none => rfl
            | some a => cases a <;> simp at h ⊢
        · simp [h]
      rw [hσ']
      simp only [Bool.false_eq_true, if_false]
      exact ih2

/-- both the first and the last row of the equation generate text -/
def EqnVis (T : PTables) (ops : List Str) (tr : RowsT) : Prop :=
  rowVisT T ops tr.1 = true ∧ rowVisT T ops (lastRow tr) = true

/-- the line automaton passes an equation and is behind visible text afterwards -/
theorem lineRun_eqn (T : PTables) (ops : List Str) (opText : List (Str × Str)) (d : Str)
    (hw : VisWords opText d) (l : List Str) (p : Nat) (tr : RowsT) (hok : RowsOk T tr)
    (hv : VisibleRepls l) (hne : l ≠ []) (hvis : EqnVis T ops tr)
    (σ : Option Bool) (tail : List LItem) (ht : tail ≠ []) :
    lineRun σ (((eqnToks T ops opText d l p tr).filter keepIn).map evalTok ++ tail) = lineRun none tail := by
  have hA2 : ∀ q, lineRun none (evalTok (mkAction q) :: tail) = lineRun none tail := by
    intro q
    rw [lineRun_action (mkAction q) rfl none tail ht]; rfl
  obtain ⟨h1, h2⟩ := lineRun_rows T ops opText d hw (evalTok (mkAction (eqnNew T ops opText d l p tr).2.last) :: tail)
    (by simp) tr.2 { nr := true, r := l, last := p } tr.1 (σ.map fun _ => true) hok hv hne (Or.inr hvis.1) hvis.2
  have hk1 : keepIn (mkAction p) = true := rfl
  have hk0 : keepIn (mkFix .space p [' ', ' ']) = true := rfl
  have hk4 : ∀ q, keepIn (mkAction q) = true := fun _ => rfl
  unfold eqnNew at h2
  unfold eqnToks eqnNew
  simp only [List.cons_append, List.nil_append, List.filter_cons, hk0, hk1, hk4, if_true,
    List.filter_append, List.filter_nil, List.map_cons, List.map_append, List.map_nil, List.append_assoc]
  rw [List.filter_eq_self.mpr h1]
  rw [lineRun_action (mkAction p) rfl σ _ (by simp),
    lineRun_ws (mkFix .space p [' ', ' ']) (Or.inl rfl) (show isBlank [' ', ' '] = true by decide) _ _ (by simp)]
  have : hasNl (mkFix .space p [' ', ' ']).txt = false := show hasNl [' ', ' '] = false by decide
  simp only [this, Bool.false_eq_true, if_false]
  rw [h2]
  exact hA2 _

/-! ### `expandSequence` on plain tokens and equations with rows and sections -/

/-- the pieces of a token buffer: a token that is copied, an equation `\[ rows \]`, or an equation
    `\begin{name} rows \end{name}` -/
inductive Piece where
  | tok (t : Tok)
  | disp (d1 : Tok) (tr : RowsT) (d2 : Tok)
  | env (p q1 q2 : Nat) (nt : List Tok) (tr : RowsT) (p' q1' q2' : Nat) (nt' : List Tok)

def Piece.toks : Piece → List Tok
  | .tok t => [t]
  | .disp d1 tr d2 => d1 :: (rowsBuf tr ++ [d2])
  | .env p q1 q2 nt tr p' q1' q2' nt' =>
    begTok p :: lbr q1 :: (nt ++ rbr q2 :: (rowsBuf tr ++ endTok p' :: lbr q1' :: (nt' ++ [rbr q2'])))

/-- the token buffer -/
def flat : List Piece → List Tok
  | [] => []
  | p :: ps => p.toks ++ flat ps

/-- fuel the loop needs -/
def cost : List Piece → Nat
  | [] => 0
  | .tok _ :: ps => cost ps + 1
  | .disp _ tr _ :: ps => cost ps + (rowsCost tr + 3)
  | .env _ _ _ nt tr _ _ _ nt' :: ps => cost ps + (rowsCost tr + nt.length + nt'.length + 10)

/-- a buffer of plain tokens (copied by `expandSequence`) and equations -/
def PiecesOk (T : PTables) (st : PState) : List Piece → Prop
  | [] => True
  | .tok t :: rest => PlainTok t ∧ PassTok T st t (flat rest) ∧ TokShape t ∧ PiecesOk T st rest
  | .disp d1 tr d2 :: rest =>
    defEnvOk T st = true ∧ OpenTok d1 ∧ RowsOk T tr ∧ EqnVis T st.mathOperators tr ∧ CloseTok d2 ∧
      PiecesOk T st rest
  | .env _ _ _ nt tr _ _ _ nt' :: rest =>
    noEmptyActive T st = true ∧ NameToks T st nt ∧ NameToks T st nt' ∧
    PlainMacro.bodyTxt nt' = PlainMacro.bodyTxt nt ∧
    equEnvAt st (PlainMacro.bodyTxt nt) = true ∧
    PlainMacro.bodyTxt nt ≠ "$".toList ∧ PlainMacro.bodyTxt nt ≠ "\\(".toList ∧
    RowsOk T tr ∧ EqnVis T st.mathOperators tr ∧ PiecesOk T st rest

/-- what `expandSequence` emits for the pieces before the blank-line removal, `l` being the stored
    display collection -/
def outD (T : PTables) (ops : List Str) (opText : List (Str × Str)) (d : Str) :
    List Str → List Piece → List Tok
  | _, [] => []
  | l, .tok t :: rest => t :: outD T ops opText d l rest
  | l, .disp d1 tr _ :: rest =>
    eqnToks T ops opText d l d1.pos tr ++ outD T ops opText d (eqnNew T ops opText d l d1.pos tr).2.r rest
  | l, .env p _ _ _ tr _ _ _ _ :: rest =>
    mkAction p :: mkAction p ::
      (eqnToks T ops opText d l p tr ++ outD T ops opText d (eqnNew T ops opText d l p tr).2.r rest)

/-- the display collection behind the pieces -/
def finalR (T : PTables) (ops : List Str) (opText : List (Str × Str)) (d : Str) :
    List Str → List Piece → List Str
  | l, [] => l
  | l, .tok _ :: rest => finalR T ops opText d l rest
  | l, .disp d1 tr _ :: rest => finalR T ops opText d (eqnNew T ops opText d l d1.pos tr).2.r rest
  | l, .env p _ _ _ tr _ _ _ _ :: rest => finalR T ops opText d (eqnNew T ops opText d l p tr).2.r rest

theorem PiecesOk.congr {T : PTables} {st st' : PState} (hl : st'.langStack = st.langStack)
    (hm : st'.mathOperators = st.mathOperators) (he : st'.envs = st.envs) :
    ∀ {ps : List Piece}, PiecesOk T st ps → PiecesOk T st' ps
  | [], _ => trivial
  | .tok t :: rest, h => by
    refine ⟨h.1, ?_, h.2.2.1, PiecesOk.congr hl hm he h.2.2.2⟩
    unfold PassTok
    rw [activeChars_congr T st st' hl, expandShortMacro_congr T st st' hl]
    exact h.2.1
  | .disp d1 tr d2 :: rest, h => by
    obtain ⟨h0, h⟩ := h
    refine ⟨?_, h.1, h.2.1, by rw [hm]; exact h.2.2.1, h.2.2.2.1, PiecesOk.congr hl hm he h.2.2.2.2⟩
    rw [← h0]
    simp only [defEnvOk, lookupEnv, he]
  | .env _ _ _ nt tr _ _ _ nt' :: rest, h => by
    obtain ⟨h0, h1, h2, h3, h4, h5, h6, h7, h8, h9⟩ := h
    refine ⟨(noEmptyActive_congr T st st' hl).trans h0, PlainDisplay.NameToks.congr hl h1,
      PlainDisplay.NameToks.congr hl h2, h3, ?_, h5, h6, h7, by rw [hm]; exact h8,
      PiecesOk.congr hl hm he h9⟩
    rw [← h4]
    simp only [equEnvAt, lookupEnv, he]

theorem moreCost_ge (more : List (Tok × List Tok)) : more.length ≤ moreCost more := by
  induction more with
  | nil => simp [moreCost]
  | cons x xs ih => simp only [moreCost, List.length_cons]; omega

theorem eqnNew_r_ne (T : PTables) (ops : List Str) (opText : List (Str × Str)) (d : Str) (l : List Str)
    (p : Nat) (tr : RowsT) (h : l ≠ []) : (eqnNew T ops opText d l p tr).2.r ≠ [] :=
  rowsNew_r_ne T ops opText d tr.2 _ tr.1 h

theorem eqnNew_r_vis (T : PTables) (ops : List Str) (opText : List (Str × Str)) (d : Str) (l : List Str)
    (p : Nat) (tr : RowsT) (h : VisibleRepls l) : VisibleRepls (eqnNew T ops opText d l p tr).2.r :=
  rowsNew_r_vis T ops opText d tr.2 _ tr.1 h

/-- the loop on a buffer of plain tokens and equations: the output is the blank-line removal applied
    to `outD`; the state changes only in the rotation records, and the record of the current
    language holds the display collection `finalR` -/
theorem seq_rows (T : PTables) (envStop : Option Str) (ls : LangSettings) (d : Str)
    (hd : ls.opDefault = some d) :
    ∀ (ps : List Piece) (fuel : Nat) (out : List Tok) (st : PState) (rot : Rot),
      cost ps + 1 ≤ fuel → PiecesOk T st ps →
      rotOf st (curSettings st) = some rot → rot.disp ≠ [] →
      settingsOf T (curSettings st) = some ls → st.displayedSimple = false →
      ∃ st', expandSequence T fuel (flat ps) envStop out st
          = (match removeLines (out ++ outD T st.mathOperators ls.opText d rot.disp ps) with
             | some r => .ok ((r, []), st')
             | none => .outOfFuel) ∧
        Sim st st' ∧
        rotOf st' (curSettings st)
          = some { rot with disp := finalR T st.mathOperators ls.opText d rot.disp ps } := by
  intro ps
  induction ps with
  | nil =>
    intro fuel out st rot hf _ hrot _ _ _
    obtain ⟨f, rfl⟩ : ∃ f, fuel = f + 1 := ⟨fuel - 1, by omega⟩
    refine ⟨st, ?_, Sim.refl st, hrot⟩
    simp only [flat, outD, List.append_nil]
    rw [expandSequence.eq_2]
    cases removeLines out <;> rfl
  | cons p ps ih =>
    intro fuel out st rot hf hok hrot hne hls hds
    cases p with
    | tok t =>
      simp only [flat, Piece.toks, List.singleton_append, cost] at hf ⊢
      obtain ⟨f, rfl⟩ : ∃ f, fuel = f + 1 := ⟨fuel - 1, by omega⟩
      rw [seq_plain_step T f t (flat ps) envStop out st hok.1 hok.2.1]
      obtain ⟨st', h1, h2, h3⟩ := ih f (out ++ [t]) st rot (by omega) hok.2.2.2 hrot hne hls hds
      refine ⟨st', ?_, h2, h3⟩
      rw [h1]
      simp only [outD, List.append_assoc, List.singleton_append]
    | disp d1 tr d2 =>
      obtain ⟨hdef, hd1, htr, _, hd2, hrest⟩ := hok
      obtain ⟨env, henv, hequ, hrem⟩ : ∃ env, lookupEnv st T.mathDefaultEnv = some env ∧
          env.isEqu = true ∧ env.remove = false := by
        unfold defEnvOk at hdef
        cases hq : lookupEnv st T.mathDefaultEnv with
        | none => rw [hq] at hdef; cases hdef
        | some e =>
          rw [hq] at hdef
          simp only [Bool.and_eq_true, Bool.not_eq_true'] at hdef
          exact ⟨e, rfl, hdef.1, hdef.2⟩
      have hflat : flat (Piece.disp d1 tr d2 :: ps) = d1 :: (rowsBuf tr ++ d2 :: flat ps) := by
        simp [flat, Piece.toks]
      rw [hflat]
      simp only [cost] at hf
      obtain ⟨f, rfl⟩ : ∃ f, fuel = f + 2 := ⟨fuel - 2, by omega⟩
      have he1 : txtIs d2 "&" = false := by simp [txtIs, hd2.txt]
      have he2 : txtIs d2 "\\\\" = false := by simp [txtIs, hd2.txt]
      have he3 : (d2.kind == Kind.par) = false := by
        rcases hd2.kind with hk | hk | hk <;> simp [hk]
      obtain ⟨st1, s1, s2, s3⟩ := expandDisplayMath_rows T st f d1 env.name ls d tr (d2 :: flat ps) d2
        (flat ps) 1 rot he1 he2 he3 (noBrHead_close d2 _ hd2) (termAt_close T st env.name d2 _ hd2)
        (Nat.le_refl 1) (by omega) htr hds hrot hls hd hne
      rw [seq_open_step T (f + 1) d1 _ envStop out st env hd1 henv hequ, hrem]
      rw [M.bind_ok _ (fun r => expandSequence T (f + 1) r.2 envStop (out ++ r.1)) _ _ _ s3]
      simp only []
      obtain ⟨st', h1, h2, h3⟩ := ih (f + 1)
        (out ++ eqnToks T st.mathOperators ls.opText d rot.disp d1.pos tr) st1
        { rot with disp := (eqnNew T st.mathOperators ls.opText d rot.disp d1.pos tr).2.r }
        (by omega) (PiecesOk.congr (st := st) (st' := st1) s1.langStack s1.ops s1.envs hrest)
        (by rw [s1.cur]; exact s2) (eqnNew_r_ne T _ _ d _ _ tr hne) (by rw [s1.cur]; exact hls)
        (by rw [s1.simple]; exact hds)
      refine ⟨st', ?_, s1.trans h2, ?_⟩
      · rw [h1, s1.ops]
        simp only [outD, List.append_assoc]
      · rw [← s1.cur, h3, s1.ops]
        simp only [finalR]
    | env p q1 q2 nt tr p' q1' q2' nt' =>
      obtain ⟨hnea, hn1, hn2, hnn, hea, hx1, hx2, htr, _, hrest⟩ := hok
      have hflat : flat (Piece.env p q1 q2 nt tr p' q1' q2' nt' :: ps)
          = begTok p :: lbr q1 :: (nt ++ rbr q2 ::
              (rowsBuf tr ++ endTok p' :: lbr q1' :: (nt' ++ rbr q2' :: flat ps))) := by
        simp [flat, Piece.toks]
      rw [hflat]
      simp only [cost] at hf
      obtain ⟨f, rfl⟩ : ∃ f, fuel = f + 6 := ⟨fuel - 6, by omega⟩
      obtain ⟨env', hle, hoke⟩ : ∃ env', lookupEnv st (PlainMacro.bodyTxt nt) = some env' ∧
          equEnvOk env' = true := by
        unfold equEnvAt at hea
        cases hq : lookupEnv st (PlainMacro.bodyTxt nt) with
        | none => rw [hq] at hea; cases hea
        | some e => rw [hq] at hea; exact ⟨e, rfl, hea⟩
      rw [show f + 6 = (f + 2) + 4 by omega,
        seq_beg_equ T _ p q1 q2 nt _ envStop out st env' hn1 (by omega) hle hoke hnea,
        seq_mathBegin_step T _ p (PlainMacro.bodyTxt nt) _ envStop _ st hx1 hx2]
      have hterm : TermAt T st (PlainMacro.bodyTxt nt)
          (endTok p' :: lbr q1' :: (nt' ++ rbr q2' :: flat ps)) (endTok p') (flat ps) (nt'.length + 5) := by
        rw [← hnn]
        rw [← hnn] at hle
        exact termAt_end T st p' q1' q2' nt' (flat ps) env' hn2 hle hoke
      obtain ⟨st1, s1, s2, s3⟩ := expandDisplayMath_rows T st (f + 1) (mbTok p (PlainMacro.bodyTxt nt))
        (PlainMacro.bodyTxt nt) ls d tr _ (endTok p') (flat ps) (nt'.length + 5) rot rfl rfl rfl
        (noBrHead_end p' _) hterm (by omega) (by omega) htr hds hrot hls hd hne
      rw [M.bind_ok _ (fun r => expandSequence T _ r.2 envStop (_ ++ r.1)) _ _ _ s3]
      simp only []
      obtain ⟨st', h1, h2, h3⟩ := ih (f + 2)
        (out ++ [mkAction p, mkAction p] ++ eqnToks T st.mathOperators ls.opText d rot.disp p tr) st1
        { rot with disp := (eqnNew T st.mathOperators ls.opText d rot.disp p tr).2.r }
        (by omega) (PiecesOk.congr (st := st) (st' := st1) s1.langStack s1.ops s1.envs hrest)
        (by rw [s1.cur]; exact s2) (eqnNew_r_ne T _ _ d _ _ tr hne) (by rw [s1.cur]; exact hls)
        (by rw [s1.simple]; exact hds)
      refine ⟨st', ?_, s1.trans h2, ?_⟩
      · refine Eq.trans h1 ?_
        rw [s1.ops]
        simp only [outD, List.append_assoc]
        rfl
      · rw [← s1.cur, h3, s1.ops]
        simp only [finalR]

/-! ### the blank-line removal deletes nothing -/

theorem lineRun_outD (T : PTables) (st : PState) (opText : List (Str × Str)) (d : Str)
    (hw : VisWords opText d) :
    ∀ (ps : List Piece) (l : List Str) (σ : Option Bool) (tail : List LItem),
      PiecesOk T st ps → VisibleRepls l → l ≠ [] → tail ≠ [] → σ ≠ some true →
      ∃ σ', σ' ≠ some true ∧
        lineRun σ (((outD T st.mathOperators opText d l ps).filter keepIn).map evalTok ++ tail)
          = lineRun σ' tail := by
  intro ps
  induction ps with
  | nil =>
    intro l σ tail _ _ _ _ hσ
    exact ⟨σ, hσ, by simp [outD]⟩
  | cons p ps ih =>
    intro l σ tail hok hl hne ht hσ
    cases p with
    | tok t =>
      obtain ⟨hp, _, ⟨htne, hshape⟩, hrest⟩ := hok
      have hk : keepIn t = true := by
        cases hx : t.txt with
        | nil => exact absurd hx htne
        | cons => simp [keepIn, hx]
      simp only [outD, List.filter_cons, hk, if_true, List.map_cons, List.cons_append]
      have hne2 : ((outD T st.mathOperators opText d l ps).filter keepIn).map evalTok ++ tail ≠ [] := by
        simp [ht]
      rcases hshape with ⟨hkind, hnl⟩ | ⟨hkind, hbl⟩
      · rw [lineRun_txt t hkind hnl σ _ hne2]
        refine ih l _ tail hrest hl hne ht ?_
        split
        · exact hσ
        · simp
      · rw [lineRun_ws t hkind hbl σ _ hne2]
        have hσ' : (σ == some true) = false := by
          cases σ with
          | none => rfl
          | some a => cases a <;> simp at hσ ⊢
        simp only [hσ', Bool.false_eq_true, if_false]
        split
        · exact ih l _ tail hrest hl hne ht (by simp)
        · exact ih l _ tail hrest hl hne ht hσ
    | disp d1 tr d2 =>
      obtain ⟨_, _, htr, hvis, _, hrest⟩ := hok
      simp only [outD, List.filter_append, List.map_append, List.append_assoc]
      rw [lineRun_eqn T st.mathOperators opText d hw l d1.pos tr htr hl hne hvis σ _ (by simp [ht])]
      exact ih _ none tail hrest (eqnNew_r_vis T _ _ d l _ tr hl) (eqnNew_r_ne T _ _ d l _ tr hne) ht
        (by simp)
    | env p q1 q2 nt tr p' q1' q2' nt' =>
      obtain ⟨_, _, _, _, _, _, _, htr, hvis, hrest⟩ := hok
      have hk : ∀ q, keepIn (mkAction q) = true := fun _ => rfl
      simp only [outD, List.filter_cons, hk, if_true, List.map_cons, List.cons_append,
        List.filter_append, List.map_append, List.append_assoc]
      rw [lineRun_action (mkAction p) rfl σ _ (by simp),
        lineRun_action (mkAction p) rfl _ _ (by simp [ht]),
        lineRun_eqn T st.mathOperators opText d hw l p tr htr hl hne hvis _ _ (by simp [ht])]
      exact ih _ none tail hrest (eqnNew_r_vis T _ _ d l _ tr hl) (eqnNew_r_ne T _ _ d l _ tr hne) ht
        (by simp)

/-- the blank-line removal only drops the (empty) Action tokens -/
theorem removeLines_outD (T : PTables) (st : PState) (opText : List (Str × Str)) (d : Str)
    (hw : VisWords opText d) (ps : List Piece) (l : List Str)
    (hok : PiecesOk T st ps) (hl : VisibleRepls l) (hne : l ≠ []) :
    removeLines (outD T st.mathOperators opText d l ps)
      = some ((outD T st.mathOperators opText d l ps).filter keepOut) := by
  apply removeLines_safe_id
  apply lineRun_linesInit
  intro p
  obtain ⟨σ', h1, h2⟩ := lineRun_outD T st opText d hw ps l (some false) [lastItem p] hok hl hne
    (by simp) (by simp)
  rw [h2, lineRun_lastItem]
  cases σ' with
  | none => rfl
  | some a => cases a <;> simp at h1 ⊢

end PlainDispRows
end Yalafi
