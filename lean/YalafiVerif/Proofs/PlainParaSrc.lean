/-
  Proofs/PlainParaSrc.lean — C05 "text flow is preserved": the PARAGRAPH RELATION between two words of
  a document of the enlarged union grammar (`PlainMix2.Seg`, Proofs/PlainMix2E2E.lean: inert text,
  special sequences, braces / groups / undeclared control words with arguments, vanishing calls,
  comments, `\verb`, inline formulas, references, citations, footnotes, headings), a pure corollary
  layer over the end-to-end theorem `PlainMix2.tex2txt_mix2` and the mark-level facts of
  Proofs/PlainPara.lean.

  Setting.  The document is written as

        A ++ .txt (u ++ [a]) :: (Mid ++ .txt (b :: v) :: B)

  with two VISIBLE text characters `a`, `b` (no white space) that stand in `txt` segments (a `txt`
  segment may be cut anywhere, so this is every pair of visible text characters of the main flow
  that stand in `txt` segments; characters of `\verb`, notes, titles, special values are not
  covered as end points, they may stand between).  `a` has the (0-based) source position
  `posA A u`, `b` has `posB A u Mid`; the source between them is `render Mid`.

  `para_relation`: `tex2txt` succeeds and the output, as characters with (1-based) positions, is
        U ++ (a, posA + 1) :: (S ++ (b, posB + 1) :: V)
  with `S = PlainPara.sep (marks of Mid)` — the output characters strictly between `a` and `b`
  (`between`) —, `U = PlainPara.pre (marks in front)`, `V = PlainPara.post (marks behind) ++ flows`.

  The source side is read through `srcView Mid : List Cls` — the source between `a` and `b` as TeX
  sees its layout: every text character by its class (line break / other white space / ink), every
  COMMENT DROPPED (`com body` is what the scanner takes: the text up to the line break and, unless
  a blank line follows, the line break and the indentation of the next line), every other
  construct ONE INK BLOB: a control word WITH THE WHITE SPACE IT SWALLOWS, a call with its
  argument, a brace, a formula, a `\verb`, a footnote, …

    (i)+(ii)  `hasBlank (S classes) = hasBlank (srcView Mid)`   NO INVENTED BREAK and NO LOST BREAK:
              the output between `a` and `b` holds a blank line (two line breaks with white space
              only between them) IFF the source view does.  A line that holds only vanishing
              constructs (and white space) is not blank in the view — and makes no blank line;
              a line that is blank in the source (outside comments / arguments) makes one.
    (i) raw   `hasBlankLine (render (stripCom Mid)) = false → hasBlank (S classes) = false`: if the raw
              source between `a` and `b`, with the comments cut out, holds no blank line, neither
              does the output (the view only contracts constructs to ink).
    (iii)     NOT GLUED: if the view holds white space (a white-space character of a `txt`
              segment — white space that is swallowed by a control word, `cw name sp`, or stands
              inside an argument / comment is not in the view) then `S` holds white space.

    positions `between_pos`: every position in `S` lies strictly between those of `a` and `b`
              (`spcShort`: no special sequence between them has a value longer than itself;
              real tables: all values have length ≤ 1); `between_sublist`: nothing is added.
    gaps      `gap Mid`: `Mid` consists of white space, comments and vanishing constructs only
              (unknown control words, vanishing calls, braces, footnotes): then `S` is white space
              (`between_gap`), and `outNoNl`, `spcShort` hold (`outNoNl_of_gap`, `spcShort_of_gap`).

  Side conditions: those of `PlainMix2.tex2txt_mix2` (`SegsOk`) for the document; `a`, `b` visible;
  for (i)+(ii) `outNoNl T st repls Mid` (decidable): the constructs between `a` and `b` that produce
  output produce no line break — the value of a special sequence, the content of a `\verb`, the
  placeholders and punctuation of formulas, the placeholder of a reference, the note of a
  citation, the title of a heading (on the real tables, given `SegsOk`, only a note of
  `\cite[note]{…}` that contains a line break violates this; vanishing constructs are never
  concerned: `outNoNl_of_gap`).  (iii) and the decomposition need no extra condition.

  NOT covered: end points `a`, `b` outside `txt` segments; what `PlainMix2` does not cover (`\par`,
  environments: Proofs/PlainParEnv.lean; `\\`, displayed maths, multi-language mode).  The footnote
  FLOWS stand behind the main text (`V`), they are not between `a` and `b`; a footnote between `a`
  and `b` is an ink blob.
-/
import YalafiVerif.Proofs.PlainPara
import YalafiVerif.Proofs.PlainMix2Read
namespace Yalafi
namespace PlainMix2
namespace Para

open PlainMacro
open PlainPara
open PlainFootnote (lastTokOff)

/-! ### `marks` of a concatenation -/

/-- the number of source characters of a document, by kind (= `(render segs).length`, `srcLen_eq`) -/
def srcLen : List Seg → Nat
  | [] => 0
  | .txt s :: rest => s.length + srcLen rest
  | .spc key :: rest => key.length + srcLen rest
  | .opn :: rest => 1 + srcLen rest
  | .cls :: rest => 1 + srcLen rest
  | .cw name sp :: rest => (name.length + 1 + sp.length) + srcLen rest
  | .van name key :: rest => PlainVanish.vanLen name key + srcLen rest
  | .com body :: rest => (body.length + 1) + srcLen rest
  | .verb _ s :: rest => (s.length + 7) + srcLen rest
  | .math body :: rest => (body.length + 2) + srcLen rest
  | .ref name key :: rest => PlainRef.callLen name key + srcLen rest
  | .cite name key :: rest => PlainRef.callLen name key + srcLen rest
  | .citeN name note key :: rest => PlainRef.callNLen name note key + srcLen rest
  | .foot body :: rest => (body.length + 11) + srcLen rest
  | .head name title :: rest => (name.length + title.length + 3) + srcLen rest

theorem srcLen_eq : ∀ (segs : List Seg), srcLen segs = (render segs).length
  | [] => rfl
  | .txt s :: rest => by simp [srcLen, render, Seg.render, srcLen_eq rest]
  | .spc key :: rest => by simp [srcLen, render, Seg.render, srcLen_eq rest]
  | .opn :: rest => by simp [srcLen, render, Seg.render, srcLen_eq rest]; omega
  | .cls :: rest => by simp [srcLen, render, Seg.render, srcLen_eq rest]; omega
  | .cw name sp :: rest => by simp [srcLen, render, Seg.render, srcLen_eq rest]; omega
  | .van name key :: rest => by
    simp [srcLen, render, Seg.render, srcLen_eq rest, PlainVanish.vanLen]; omega
  | .com body :: rest => by simp [srcLen, render, Seg.render, srcLen_eq rest]; omega
  | .verb d s :: rest => by simp [srcLen, render, Seg.render, srcLen_eq rest]; omega
  | .math body :: rest => by simp [srcLen, render, Seg.render, srcLen_eq rest]; omega
  | .ref name key :: rest => by
    simp [srcLen, render, Seg.render, srcLen_eq rest, PlainRef.callLen]; omega
  | .cite name key :: rest => by
    simp [srcLen, render, Seg.render, srcLen_eq rest, PlainRef.callLen]; omega
  | .citeN name note key :: rest => by
    simp [srcLen, render, Seg.render, srcLen_eq rest, PlainRef.callNLen]; omega
  | .foot body :: rest => by simp [srcLen, render, Seg.render, srcLen_eq rest]; omega
  | .head name title :: rest => by simp [srcLen, render, Seg.render, srcLen_eq rest]; omega

theorem marks_append' (T : PTables) (st : PState) (repls : List Str) (Y : List Seg) :
    ∀ (X : List Seg) (k p : Nat),
      marks T st repls k p (X ++ Y)
        = marks T st repls k p X ++ marks T st repls (k + nFormulas X) (p + srcLen X) Y
  | [], k, p => by simp [marks, nFormulas, srcLen]
  | .txt s :: rest, k, p => by
    simp only [List.cons_append, marks, marks_append' T st repls Y rest, nFormulas, srcLen,
      List.append_assoc, Nat.add_assoc]
  | .spc key :: rest, k, p => by
    simp only [List.cons_append, marks, marks_append' T st repls Y rest, nFormulas, srcLen,
      List.append_assoc, Nat.add_assoc]
  | .opn :: rest, k, p => by
    simp only [List.cons_append, marks, marks_append' T st repls Y rest, nFormulas, srcLen,
      Nat.add_assoc]
  | .cls :: rest, k, p => by
    simp only [List.cons_append, marks, marks_append' T st repls Y rest, nFormulas, srcLen,
      Nat.add_assoc]
  | .cw name sp :: rest, k, p => by
    simp only [List.cons_append, marks, marks_append' T st repls Y rest, nFormulas, srcLen,
      Nat.add_assoc]
  | .van name key :: rest, k, p => by
    simp only [List.cons_append, marks, marks_append' T st repls Y rest, nFormulas, srcLen,
      Nat.add_assoc]
  | .com body :: rest, k, p => by
    simp only [List.cons_append, marks, marks_append' T st repls Y rest, nFormulas, srcLen,
      Nat.add_assoc]
  | .verb d s :: rest, k, p => by
    simp only [List.cons_append, marks, marks_append' T st repls Y rest, nFormulas, srcLen,
      List.append_assoc, Nat.add_assoc]
  | .math body :: rest, k, p => by
    have e : k + 1 + nFormulas rest = k + (nFormulas rest + 1) := by omega
    simp only [List.cons_append, marks, marks_append' T st repls Y rest, nFormulas, srcLen,
      List.append_assoc, Nat.add_assoc, e]
  | .ref name key :: rest, k, p => by
    simp only [List.cons_append, marks, marks_append' T st repls Y rest, nFormulas, srcLen,
      List.append_assoc, Nat.add_assoc]
  | .cite name key :: rest, k, p => by
    simp only [List.cons_append, marks, marks_append' T st repls Y rest, nFormulas, srcLen,
      List.append_assoc, Nat.add_assoc]
  | .citeN name note key :: rest, k, p => by
    simp only [List.cons_append, marks, marks_append' T st repls Y rest, nFormulas, srcLen,
      List.append_assoc, Nat.add_assoc]
  | .foot body :: rest, k, p => by
    simp only [List.cons_append, marks, marks_append' T st repls Y rest, nFormulas, srcLen,
      Nat.add_assoc]
  | .head name title :: rest, k, p => by
    simp only [List.cons_append, marks, marks_append' T st repls Y rest, nFormulas, srcLen,
      List.append_assoc, Nat.add_assoc]

/-- the marks of a concatenation: the second part starts behind the source of the first, and
    its formulas are counted on -/
theorem marks_append (T : PTables) (st : PState) (repls : List Str) (X Y : List Seg) (k p : Nat) :
    marks T st repls k p (X ++ Y)
      = marks T st repls k p X ++ marks T st repls (k + nFormulas X) (p + (render X).length) Y := by
  rw [marks_append', srcLen_eq]

/-! ### the source view -/

/-- **the layout of the source as TeX sees it**: text by the class of its characters, comments
    dropped, every other construct one ink blob -/
def srcView : List Seg → List Cls
  | [] => []
  | .txt s :: rest => s.map clsC ++ srcView rest
  | .com _ :: rest => srcView rest
  | _ :: rest => .ink :: srcView rest

/-- the constructs that produce output produce no line break (`repls`: the placeholder
    collection, looked at only if there is a formula) -/
def outNoNl (T : PTables) (st : PState) (repls : List Str) : List Seg → Bool
  | [] => true
  | .spc key :: rest => !hasNl (specialValD T.toTables key) && outNoNl T st repls rest
  | .verb _ s :: rest => !hasNl s && outNoNl T st repls rest
  | .math body :: rest =>
    repls.all (fun r => !hasNl r) && !hasNl (PlainMath.punctOf T body) && outNoNl T st repls rest
  | .ref name _ :: rest => !hasNl (PlainRef.phOf st name) && outNoNl T st repls rest
  | .citeN _ note _ :: rest => !hasNl note && outNoNl T st repls rest
  | .head _ title :: rest => !hasNl title && outNoNl T st repls rest
  | _ :: rest => outNoNl T st repls rest

theorem clsM_posText : ∀ (s : Str) (p : Nat), ((posText p s).map some).map clsM = s.map clsC
  | [], _ => rfl
  | c :: cs, p => by simp [posText, clsM, clsM_posText cs]

theorem clsM_fix (s : Str) (f : Char → Char × Nat) (hf : ∀ c, (f c).1 = c) :
    (s.map (fun c => some (f c))).map clsM = s.map clsC := by
  induction s with
  | nil => rfl
  | cons c cs ih => simp [clsM, hf, ih]

/-- a string without line break behind ink: no blank line inside, ink behind it -/
theorem blankGo_str : ∀ (s : Str) (r : List Cls), hasNl s = false →
    blankGo false (s.map clsC ++ r) = blankGo false r
  | [], _, _ => rfl
  | c :: cs, r, h => by
    have h' : ¬ c = nl ∧ hasNl cs = false := by
      simp only [hasNl, List.contains_cons, Bool.or_eq_false_iff, beq_eq_false_iff_ne, ne_eq] at h
      exact ⟨fun e => h.1 e.symm, h.2⟩
    have hc : clsC c ≠ .nl := by
      simp only [clsC, beq_iff_eq, h'.1, if_false]
      split <;> simp
    simp only [List.map_cons, List.cons_append]
    cases hcc : clsC c with
    | nl => exact absurd hcc hc
    | ws => simp only [blankGo]; exact blankGo_str cs r h'.2
    | ink => simp only [blankGo]; exact blankGo_str cs r h'.2

theorem hasNl_append {a b : Str} (h1 : hasNl a = false) (h2 : hasNl b = false) :
    hasNl (a ++ b) = false := by
  simp only [hasNl, List.contains_eq_mem, List.mem_append, decide_eq_false_iff_not, not_or] at *
  exact ⟨h1, h2⟩

theorem placeholder_nonl (repls : List Str) (k : Nat) (h : repls.all (fun r => !hasNl r) = true) :
    hasNl (PlainMath.placeholder repls k) = false := by
  unfold PlainMath.placeholder
  rw [List.getD_eq_getElem?_getD]
  cases hg : repls[k % repls.length]? with
  | none => rfl
  | some r =>
    have hm : r ∈ repls := List.mem_of_getElem? hg
    have := List.all_eq_true.mp h r hm
    simpa using this

theorem clsM_mathMarks (T : PTables) (ph : Str) (p : Nat) (body : Str) :
    (PlainMix.mathMarks T ph p body).map clsM
      = .ink :: (ph.map clsC ++ ((PlainMath.punctOf T body).map clsC ++ [.ink])) := by
  unfold PlainMix.mathMarks
  have e := clsM_fix (ph ++ PlainMath.punctOf T body)
    (fun c => (c, p + 1 + PlainMath.leadBlanks body)) (fun _ => rfl)
  simp only [List.map_cons, List.map_append, clsM, List.map_nil, List.append_assoc] at e ⊢
  rw [← List.append_assoc, e, List.append_assoc]

/-- the same prefix in front of two lists that the scanner cannot tell apart -/
theorem blankGo_prefix_eq : ∀ (x y y' : List Cls) (s : Bool),
    (∀ s', blankGo s' y = blankGo s' y') → blankGo s (x ++ y) = blankGo s (x ++ y')
  | [], _, _, s, h => h s
  | .nl :: x, y, y', s, h => by
    simp only [List.cons_append, blankGo, blankGo_prefix_eq x y y' true h]
  | .ws :: x, y, y', s, h => by
    simp only [List.cons_append, blankGo, blankGo_prefix_eq x y y' s h]
  | .ink :: x, y, y', s, h => by
    simp only [List.cons_append, blankGo, blankGo_prefix_eq x y y' false h]

/-- **the marks of `Mid`, read for blank lines, are the source view** -/
theorem marks_view (T : PTables) (st : PState) (repls : List Str) :
    ∀ (Mid : List Seg) (k p : Nat) (s : Bool), outNoNl T st repls Mid = true →
      blankGo s ((marks T st repls k p Mid).map clsM) = blankGo s (srcView Mid)
  | [], _, _, _, _ => rfl
  | .txt t :: rest, k, p, s, h => by
    simp only [outNoNl] at h
    simp only [marks, srcView, List.map_append, clsM_posText]
    exact blankGo_prefix_eq _ _ _ s (fun s' => marks_view T st repls rest k _ s' h)
  | .spc key :: rest, k, p, s, h => by
    simp only [outNoNl, Bool.and_eq_true, Bool.not_eq_true'] at h
    simp only [marks, srcView, List.map_cons, List.map_append, clsM, clsM_posText, blankGo]
    rw [blankGo_str _ _ h.1]
    exact marks_view T st repls rest k _ false h.2
  | .opn :: rest, k, p, s, h => by
    simp only [outNoNl] at h
    simp only [marks, srcView, List.map_cons, clsM, blankGo]
    exact marks_view T st repls rest k _ false h
  | .cls :: rest, k, p, s, h => by
    simp only [outNoNl] at h
    simp only [marks, srcView, List.map_cons, clsM, blankGo]
    exact marks_view T st repls rest k _ false h
  | .cw name sp :: rest, k, p, s, h => by
    simp only [outNoNl] at h
    simp only [marks, srcView, List.map_cons, clsM, blankGo]
    exact marks_view T st repls rest k _ false h
  | .van name key :: rest, k, p, s, h => by
    simp only [outNoNl] at h
    simp only [marks, srcView, List.map_cons, clsM, blankGo]
    exact marks_view T st repls rest k _ false h
  | .com body :: rest, k, p, s, h => by
    simp only [outNoNl] at h
    simp only [marks, srcView]
    exact marks_view T st repls rest k _ s h
  | .foot body :: rest, k, p, s, h => by
    simp only [outNoNl] at h
    simp only [marks, srcView, List.map_cons, clsM, blankGo]
    exact marks_view T st repls rest k _ false h
  | .verb d t :: rest, k, p, s, h => by
    simp only [outNoNl, Bool.and_eq_true, Bool.not_eq_true'] at h
    simp only [marks, srcView, List.map_cons, List.map_append, clsM, clsM_posText, blankGo]
    rw [blankGo_str _ _ h.1]
    exact marks_view T st repls rest k _ false h.2
  | .math body :: rest, k, p, s, h => by
    simp only [outNoNl, Bool.and_eq_true, Bool.not_eq_true'] at h
    simp only [marks, List.map_append, clsM_mathMarks, srcView, List.cons_append, List.append_assoc,
      blankGo]
    rw [blankGo_str _ _ (placeholder_nonl repls (k + 1) h.1.1), blankGo_str _ _ h.1.2]
    simp only [List.nil_append, blankGo]
    exact marks_view T st repls rest (k + 1) _ false h.2
  | .ref name key :: rest, k, p, s, h => by
    simp only [outNoNl, Bool.and_eq_true, Bool.not_eq_true'] at h
    simp only [marks, PlainRef.fixMarks, srcView, List.map_cons, List.map_append, clsM, blankGo]
    rw [clsM_fix _ (fun c => (c, p)) (fun _ => rfl), blankGo_str _ _ h.1]
    exact marks_view T st repls rest k _ false h.2
  | .cite name key :: rest, k, p, s, h => by
    simp only [outNoNl] at h
    simp only [marks, PlainRef.fixMarks, srcView, List.map_cons, List.map_append, clsM, blankGo]
    rw [clsM_fix _ (fun c => (c, p)) (fun _ => rfl), blankGo_str _ _ (by decide)]
    simp only [blankGo]
    exact marks_view T st repls rest k _ false h
  | .citeN name note key :: rest, k, p, s, h => by
    simp only [outNoNl, Bool.and_eq_true, Bool.not_eq_true'] at h
    simp only [marks, PlainRef.fixMarks, srcView, List.map_cons, List.map_append, clsM, blankGo,
      clsM_posText]
    rw [clsM_fix _ (fun c => (c, p)) (fun _ => rfl), blankGo_str _ _ (by decide),
      blankGo_str _ _ h.1]
    have : clsC ']' = .ink := by decide
    simp only [this, blankGo]
    exact marks_view T st repls rest k _ false h.2
  | .head name title :: rest, k, p, s, h => by
    simp only [outNoNl, Bool.and_eq_true, Bool.not_eq_true'] at h
    simp only [marks, dotMarks, srcView, List.map_cons, List.map_append, clsM, blankGo, clsM_posText]
    rw [blankGo_str _ _ h.1]
    have hd : clsC '.' = .ink := by decide
    split
    · simp only [List.map_cons, List.map_nil, clsM, hd, List.singleton_append, blankGo]
      exact marks_view T st repls rest k _ false h.2
    · simp only [List.map_nil, List.nil_append]
      exact marks_view T st repls rest k _ false h.2

/-! ### white space -/

theorem any_space_posText : ∀ (s : Str) (p : Nat),
    ((posText p s).map some).any spaceMark = s.any isSpace
  | [], _ => rfl
  | c :: cs, p => by simp [posText, spaceMark, any_space_posText cs]

theorem any_nonink_str : ∀ (s : Str), (s.map clsC).any (fun c => c != .ink) = s.any isSpace
  | [] => rfl
  | c :: cs => by
    have hc : (clsC c != .ink) = isSpace c := by
      unfold clsC
      by_cases h1 : (c == nl) = true
      · have : c = nl := by simpa using h1
        subst this
        decide
      · by_cases h2 : isSpace c = true <;> simp [h1, h2]
    simp [hc, any_nonink_str cs]

/-- white space in the view is a white-space character among the marks -/
theorem view_space (T : PTables) (st : PState) (repls : List Str) :
    ∀ (Mid : List Seg) (k p : Nat), (srcView Mid).any (fun c => c != .ink) = true →
      (marks T st repls k p Mid).any spaceMark = true
  | [], _, _, h => by simp [srcView] at h
  | .txt t :: rest, k, p, h => by
    simp only [srcView, List.any_append, any_nonink_str, Bool.or_eq_true] at h
    simp only [marks, List.any_append, any_space_posText, Bool.or_eq_true]
    rcases h with h | h
    · exact Or.inl h
    · exact Or.inr (view_space T st repls rest k _ h)
  | .spc key :: rest, k, p, h => by
    simp only [srcView, List.any_cons, bne_self_eq_false, Bool.false_or] at h
    simp only [marks, List.any_cons, List.any_append, Bool.or_eq_true]
    exact Or.inr (Or.inr (view_space T st repls rest k _ h))
  | .opn :: rest, k, p, h => by
    simp only [srcView, List.any_cons, bne_self_eq_false, Bool.false_or] at h
    simp only [marks, List.any_cons, Bool.or_eq_true]
    exact Or.inr (view_space T st repls rest k _ h)
  | .cls :: rest, k, p, h => by
    simp only [srcView, List.any_cons, bne_self_eq_false, Bool.false_or] at h
    simp only [marks, List.any_cons, Bool.or_eq_true]
    exact Or.inr (view_space T st repls rest k _ h)
  | .cw name sp :: rest, k, p, h => by
    simp only [srcView, List.any_cons, bne_self_eq_false, Bool.false_or] at h
    simp only [marks, List.any_cons, Bool.or_eq_true]
    exact Or.inr (view_space T st repls rest k _ h)
  | .van name key :: rest, k, p, h => by
    simp only [srcView, List.any_cons, bne_self_eq_false, Bool.false_or] at h
    simp only [marks, List.any_cons, Bool.or_eq_true]
    exact Or.inr (view_space T st repls rest k _ h)
  | .com body :: rest, k, p, h => by
    simp only [srcView] at h
    simp only [marks]
    exact view_space T st repls rest k _ h
  | .verb d t :: rest, k, p, h => by
    simp only [srcView, List.any_cons, bne_self_eq_false, Bool.false_or] at h
    simp only [marks, List.any_cons, List.any_append, Bool.or_eq_true]
    exact Or.inr (Or.inr (view_space T st repls rest k _ h))
  | .math body :: rest, k, p, h => by
    simp only [srcView, List.any_cons, bne_self_eq_false, Bool.false_or] at h
    simp only [marks, List.any_append, Bool.or_eq_true]
    exact Or.inr (view_space T st repls rest (k + 1) _ h)
  | .ref name key :: rest, k, p, h => by
    simp only [srcView, List.any_cons, bne_self_eq_false, Bool.false_or] at h
    simp only [marks, List.any_cons, List.any_append, Bool.or_eq_true]
    exact Or.inr (Or.inr (view_space T st repls rest k _ h))
  | .cite name key :: rest, k, p, h => by
    simp only [srcView, List.any_cons, bne_self_eq_false, Bool.false_or] at h
    simp only [marks, List.any_cons, List.any_append, Bool.or_eq_true]
    exact Or.inr (Or.inr (Or.inr (view_space T st repls rest k _ h)))
  | .citeN name note key :: rest, k, p, h => by
    simp only [srcView, List.any_cons, bne_self_eq_false, Bool.false_or] at h
    simp only [marks, List.any_cons, List.any_append, Bool.or_eq_true]
    exact Or.inr (Or.inr (Or.inr (Or.inr (Or.inr (view_space T st repls rest k _ h)))))
  | .foot body :: rest, k, p, h => by
    simp only [srcView, List.any_cons, bne_self_eq_false, Bool.false_or] at h
    simp only [marks, List.any_cons, Bool.or_eq_true]
    exact Or.inr (view_space T st repls rest k _ h)
  | .head name title :: rest, k, p, h => by
    simp only [srcView, List.any_cons, bne_self_eq_false, Bool.false_or] at h
    simp only [marks, List.any_cons, List.any_append, Bool.or_eq_true]
    exact Or.inr (Or.inr (Or.inr (view_space T st repls rest k _ h)))

/-! ### the view and the raw source -/

/-- the document without its comments -/
def stripCom : List Seg → List Seg
  | [] => []
  | .com _ :: rest => stripCom rest
  | s :: rest => s :: stripCom rest

/-- every special sequence starts with a visible character -/
def spcVis : List Seg → Bool
  | [] => true
  | .spc key :: rest => key.head?.any (fun c => !isSpace c) && spcVis rest
  | _ :: rest => spcVis rest

theorem spcVis_of_segsOk (T : PTables) (st : PState) : ∀ (segs : List Seg),
    segsOk T st segs = true → spcVis segs = true
  | [], _ => rfl
  | .spc key :: rest, h => by
    simp only [segsOk, Bool.and_eq_true] at h
    cases key with
    | nil => exact absurd rfl (PlainMix.spcOk_ne h.1)
    | cons c tl =>
      simp [spcVis, (PlainMix.spcOk_head h.1).1, spcVis_of_segsOk T st rest h.2]
  | .txt s :: rest, h => by
    simp only [segsOk, Bool.and_eq_true] at h; exact spcVis_of_segsOk T st rest h.2
  | .opn :: rest, h => by
    simp only [segsOk, Bool.and_eq_true] at h; exact spcVis_of_segsOk T st rest h.2
  | .cls :: rest, h => by
    simp only [segsOk, Bool.and_eq_true] at h; exact spcVis_of_segsOk T st rest h.2
  | .cw _ _ :: rest, h => by
    simp only [segsOk, Bool.and_eq_true] at h; exact spcVis_of_segsOk T st rest h.2
  | .van _ _ :: rest, h => by
    simp only [segsOk, Bool.and_eq_true] at h; exact spcVis_of_segsOk T st rest h.2
  | .com _ :: rest, h => by
    simp only [segsOk, Bool.and_eq_true] at h; exact spcVis_of_segsOk T st rest h.2
  | .verb _ _ :: rest, h => by
    simp only [segsOk, Bool.and_eq_true] at h; exact spcVis_of_segsOk T st rest h.2
  | .math _ :: rest, h => by
    simp only [segsOk, Bool.and_eq_true] at h; exact spcVis_of_segsOk T st rest h.2
  | .ref _ _ :: rest, h => by
    simp only [segsOk, Bool.and_eq_true] at h; exact spcVis_of_segsOk T st rest h.2
  | .cite _ _ :: rest, h => by
    simp only [segsOk, Bool.and_eq_true] at h; exact spcVis_of_segsOk T st rest h.2
  | .citeN _ _ _ :: rest, h => by
    simp only [segsOk, Bool.and_eq_true] at h; exact spcVis_of_segsOk T st rest h.2
  | .foot _ :: rest, h => by
    simp only [segsOk, Bool.and_eq_true] at h; exact spcVis_of_segsOk T st rest h.2
  | .head _ _ :: rest, h => by
    simp only [segsOk, Bool.and_eq_true] at h; exact spcVis_of_segsOk T st rest h.2

theorem spcVis_append : ∀ (X Y : List Seg), spcVis (X ++ Y) = (spcVis X && spcVis Y)
  | [], _ => by simp [spcVis]
  | .spc key :: rest, Y => by simp [spcVis, spcVis_append rest Y, Bool.and_assoc]
  | .txt _ :: rest, Y => by simp [spcVis, spcVis_append rest Y]
  | .opn :: rest, Y => by simp [spcVis, spcVis_append rest Y]
  | .cls :: rest, Y => by simp [spcVis, spcVis_append rest Y]
  | .cw _ _ :: rest, Y => by simp [spcVis, spcVis_append rest Y]
  | .van _ _ :: rest, Y => by simp [spcVis, spcVis_append rest Y]
  | .com _ :: rest, Y => by simp [spcVis, spcVis_append rest Y]
  | .verb _ _ :: rest, Y => by simp [spcVis, spcVis_append rest Y]
  | .math _ :: rest, Y => by simp [spcVis, spcVis_append rest Y]
  | .ref _ _ :: rest, Y => by simp [spcVis, spcVis_append rest Y]
  | .cite _ _ :: rest, Y => by simp [spcVis, spcVis_append rest Y]
  | .citeN _ _ _ :: rest, Y => by simp [spcVis, spcVis_append rest Y]
  | .foot _ :: rest, Y => by simp [spcVis, spcVis_append rest Y]
  | .head _ _ :: rest, Y => by simp [spcVis, spcVis_append rest Y]

/-- the same prefix in front of two lists -/
theorem blankGo_prefix : ∀ (x y y' : List Cls) (s : Bool),
    (∀ s', blankGo s' y = true → blankGo s' y' = true) →
    blankGo s (x ++ y) = true → blankGo s (x ++ y') = true
  | [], _, _, s, h, h1 => h s h1
  | .nl :: x, y, y', s, h, h1 => by
    simp only [List.cons_append, blankGo, Bool.or_eq_true] at h1 ⊢
    rcases h1 with h1 | h1
    · exact Or.inl h1
    · exact Or.inr (blankGo_prefix x y y' true h h1)
  | .ws :: x, y, y', s, h, h1 => by
    simp only [List.cons_append, blankGo] at h1 ⊢
    exact blankGo_prefix x y y' s h h1
  | .ink :: x, y, y', s, h, h1 => by
    simp only [List.cons_append, blankGo] at h1 ⊢
    exact blankGo_prefix x y y' false h h1

/-- a construct that starts with a visible character: a blank line of the view behind it is a
    blank line of the raw source -/
theorem blankGo_blob (c : Char) (more : Str) (y y' : List Cls) (s : Bool) (hc : isSpace c = false)
    (h : ∀ s', blankGo s' y = true → blankGo s' y' = true)
    (h1 : blankGo s (.ink :: y) = true) :
    blankGo s ((c :: more).map clsC ++ y') = true := by
  have hcc : clsC c = .ink := by
    simp [clsC, nl_of_vis hc, hc]
  simp only [blankGo] at h1
  simp only [List.map_cons, List.cons_append, hcc, blankGo]
  exact blankGo_append_right _ _ false (h false h1)

/-- **a blank line of the view is a blank line of the raw source without its comments** -/
theorem view_raw : ∀ (Mid : List Seg) (s : Bool), spcVis Mid = true →
    blankGo s (srcView Mid) = true → blankGo s ((render (stripCom Mid)).map clsC) = true
  | [], _, _, h => h
  | .txt t :: rest, s, hv, h => by
    simp only [spcVis] at hv
    simp only [srcView] at h
    simp only [stripCom, render, Seg.render, List.map_append]
    exact blankGo_prefix _ _ _ s (fun s' => view_raw rest s' hv) h
  | .com body :: rest, s, hv, h => by
    simp only [spcVis] at hv
    simp only [srcView] at h
    simp only [stripCom]
    exact view_raw rest s hv h
  | .spc key :: rest, s, hv, h => by
    simp only [spcVis, Bool.and_eq_true] at hv
    cases key with
    | nil => simp at hv
    | cons c tl =>
      have hc : isSpace c = false := by simpa using hv.1
      simp only [srcView] at h
      simp only [stripCom, render, Seg.render, List.map_append]
      exact blankGo_blob c tl _ _ s hc (fun s' => view_raw rest s' hv.2) h
  | .opn :: rest, s, hv, h => by
    simp only [spcVis] at hv
    simp only [srcView] at h
    simp only [stripCom, render, Seg.render, List.map_append]
    exact blankGo_blob '{' [] _ _ s (by decide) (fun s' => view_raw rest s' hv) h
  | .cls :: rest, s, hv, h => by
    simp only [spcVis] at hv
    simp only [srcView] at h
    simp only [stripCom, render, Seg.render, List.map_append]
    exact blankGo_blob '}' [] _ _ s (by decide) (fun s' => view_raw rest s' hv) h
  | .cw name sp :: rest, s, hv, h => by
    simp only [spcVis] at hv
    simp only [srcView] at h
    simp only [stripCom, render, Seg.render, List.map_append]
    exact blankGo_blob '\\' _ _ _ s (by decide) (fun s' => view_raw rest s' hv) h
  | .van name key :: rest, s, hv, h => by
    simp only [spcVis] at hv
    simp only [srcView] at h
    simp only [stripCom, render, Seg.render, List.map_append]
    exact blankGo_blob '\\' _ _ _ s (by decide) (fun s' => view_raw rest s' hv) h
  | .verb d t :: rest, s, hv, h => by
    simp only [spcVis] at hv
    simp only [srcView] at h
    simp only [stripCom, render, Seg.render, List.map_append]
    exact blankGo_blob '\\' _ _ _ s (by decide) (fun s' => view_raw rest s' hv) h
  | .math body :: rest, s, hv, h => by
    simp only [spcVis] at hv
    simp only [srcView] at h
    simp only [stripCom, render, Seg.render, List.map_append]
    exact blankGo_blob '$' _ _ _ s (by decide) (fun s' => view_raw rest s' hv) h
  | .ref name key :: rest, s, hv, h => by
    simp only [spcVis] at hv
    simp only [srcView] at h
    simp only [stripCom, render, Seg.render, List.map_append]
    exact blankGo_blob '\\' _ _ _ s (by decide) (fun s' => view_raw rest s' hv) h
  | .cite name key :: rest, s, hv, h => by
    simp only [spcVis] at hv
    simp only [srcView] at h
    simp only [stripCom, render, Seg.render, List.map_append]
    exact blankGo_blob '\\' _ _ _ s (by decide) (fun s' => view_raw rest s' hv) h
  | .citeN name note key :: rest, s, hv, h => by
    simp only [spcVis] at hv
    simp only [srcView] at h
    simp only [stripCom, render, Seg.render, List.map_append]
    exact blankGo_blob '\\' _ _ _ s (by decide) (fun s' => view_raw rest s' hv) h
  | .foot body :: rest, s, hv, h => by
    simp only [spcVis] at hv
    simp only [srcView] at h
    simp only [stripCom, render, Seg.render, List.map_append]
    exact blankGo_blob '\\' _ _ _ s (by decide) (fun s' => view_raw rest s' hv) h
  | .head name title :: rest, s, hv, h => by
    simp only [spcVis] at hv
    simp only [srcView] at h
    simp only [stripCom, render, Seg.render, List.map_append]
    exact blankGo_blob '\\' _ _ _ s (by decide) (fun s' => view_raw rest s' hv) h

/-! ### the paragraph relation -/

/-- the (0-based) source position of `a` in `A ++ .txt (u ++ [a]) :: …` -/
def posA (A : List Seg) (u : Str) : Nat := (render A).length + u.length

/-- the (0-based) source position of `b` in `A ++ .txt (u ++ [a]) :: (Mid ++ .txt (b :: v) :: B)` -/
def posB (A : List Seg) (u : Str) (Mid : List Seg) : Nat := posA A u + 1 + (render Mid).length

/-- the document with the two marked characters -/
def docAB (A : List Seg) (u : Str) (a : Char) (Mid : List Seg) (b : Char) (v : Str) (B : List Seg) :
    List Seg :=
  A ++ .txt (u ++ [a]) :: (Mid ++ .txt (b :: v) :: B)

/-- the marks of `Mid` in its place -/
def midMarks (T : PTables) (st : PState) (repls : List Str) (A : List Seg) (u : Str)
    (Mid : List Seg) : List Mark :=
  marks T st repls (nFormulas A) (posA A u + 1) Mid

/-- **the output characters strictly between `a` and `b`**, with 0-based positions -/
def between (T : PTables) (st : PState) (repls : List Str) (A : List Seg) (u : Str)
    (Mid : List Seg) : List (Char × Nat) :=
  sep (midMarks T st repls A u Mid)

/-- the marks in front of `a` -/
def frontMarks (T : PTables) (st : PState) (repls : List Str) (A : List Seg) (u : Str) : List Mark :=
  marks T st repls 0 0 A ++ (posText (render A).length u).map some

/-- the marks behind `b` -/
def backMarks (T : PTables) (st : PState) (repls : List Str) (A : List Seg) (u : Str)
    (Mid : List Seg) (v : Str) (B : List Seg) : List Mark :=
  (posText (posB A u Mid + 1) v).map some
    ++ marks T st repls (nFormulas A + nFormulas Mid) (posB A u Mid + 1 + v.length) B

theorem nFormulas_txt (s : Str) (rest : List Seg) : nFormulas (.txt s :: rest) = nFormulas rest := rfl

/-- the marks of the document, cut at `a` and `b` -/
theorem marks_docAB (T : PTables) (st : PState) (repls : List Str) (A : List Seg) (u : Str) (a : Char)
    (Mid : List Seg) (b : Char) (v : Str) (B : List Seg) :
    marks T st repls 0 0 (docAB A u a Mid b v B)
      = frontMarks T st repls A u ++ some (a, posA A u)
          :: (midMarks T st repls A u Mid ++ some (b, posB A u Mid)
            :: backMarks T st repls A u Mid v B) := by
  unfold docAB frontMarks midMarks backMarks posB posA
  rw [marks_append]
  simp only [Nat.zero_add, marks]
  rw [marks_append]
  simp only [marks, posText_append, List.map_append, posText, List.map_cons, List.map_nil,
    List.append_assoc, List.cons_append, List.length_append,
    List.length_cons, List.length_nil, List.nil_append]
  have e1 : (render A).length + (u.length + (0 + 1)) = (render A).length + u.length + 1 := by omega
  have e2 : (render A).length + u.length + 1 + (render Mid).length + (v.length + 1)
      = (render A).length + u.length + 1 + (render Mid).length + 1 + v.length := by omega
  rw [e1, e2]

/-- **the paragraph relation, reference level**: the reference output of the document, cut at `a`
    and `b` -/
theorem ref_docAB (T : PTables) (st : PState) (repls : List Str) (A : List Seg) (u : Str) (a : Char)
    (Mid : List Seg) (b : Char) (v : Str) (B : List Seg)
    (ha : isSpace a = false) (hb : isSpace b = false) :
    delLines (marks T st repls 0 0 (docAB A u a Mid b v B))
      = pre (frontMarks T st repls A u) ++ (a, posA A u)
          :: (between T st repls A u Mid ++ (b, posB A u Mid)
            :: post (backMarks T st repls A u Mid v B)) := by
  rw [marks_docAB]
  exact delLines_between (frontMarks T st repls A u) (midMarks T st repls A u Mid)
    (backMarks T st repls A u Mid v B) (a, posA A u) (b, posB A u Mid) ha hb

/-- (i) + (ii) on the document level -/
theorem between_blank (T : PTables) (st : PState) (repls : List Str) (A : List Seg) (u : Str)
    (Mid : List Seg) (h : outNoNl T st repls Mid = true) :
    hasBlank ((between T st repls A u Mid).map clsP) = hasBlank (srcView Mid) := by
  unfold between
  rw [sep_blank]
  exact marks_view T st repls Mid _ _ false h

/-- (i), raw source -/
theorem between_blank_raw (T : PTables) (st : PState) (repls : List Str) (A : List Seg) (u : Str)
    (Mid : List Seg) (h : outNoNl T st repls Mid = true) (hv : spcVis Mid = true)
    (hraw : hasBlankLine (render (stripCom Mid)) = false) :
    hasBlank ((between T st repls A u Mid).map clsP) = false := by
  rw [between_blank T st repls A u Mid h]
  cases hb : hasBlank (srcView Mid) with
  | false => rfl
  | true =>
    have := view_raw Mid false hv hb
    unfold hasBlankLine hasBlank at hraw
    rw [this] at hraw
    exact absurd hraw (by simp)

/-- (iii) on the document level -/
theorem between_space (T : PTables) (st : PState) (repls : List Str) (A : List Seg) (u : Str)
    (Mid : List Seg) (h : (srcView Mid).any (fun c => c != .ink) = true) :
    (between T st repls A u Mid).any (fun cp => isSpace cp.1) = true := by
  unfold between
  rw [sep_space]
  exact view_space T st repls Mid _ _ h

/-- nothing is added between `a` and `b`: the characters between them are output characters of
    `Mid` (`PlainMix2.plain`), in order -/
theorem between_sublist (T : PTables) (st : PState) (repls : List Str) (A : List Seg) (u : Str)
    (Mid : List Seg) :
    List.Sublist (between T st repls A u Mid)
      (PlainMix2.plain T st repls (nFormulas A) (posA A u + 1) Mid) := by
  have := sep_sublist (midMarks T st repls A u Mid)
  unfold midMarks at this
  rw [PlainMix2.marks_chars] at this
  exact this

/-! ### the positions between `a` and `b` -/

/-- the value of every special sequence is not longer than the sequence -/
def spcShort (T : PTables) : List Seg → Bool
  | [] => true
  | .spc key :: rest => decide ((specialValD T.toTables key).length ≤ key.length) && spcShort T rest
  | _ :: rest => spcShort T rest

open PlainVanish (mem_posText) in
open PlainRef (mem_fixChars lastTokOff_le) in
/-- every output character of `Mid` carries a position inside the source of `Mid` (if the value
    of a special sequence is not longer than the sequence — real tables: values of length ≤ 1) -/
theorem plain_pos (T : PTables) (st : PState) (repls : List Str) : ∀ (Mid : List Seg) (k p : Nat)
    (cp : Char × Nat), spcShort T Mid = true → cp ∈ plain T st repls k p Mid →
    p ≤ cp.2 ∧ cp.2 < p + srcLen Mid
  | [], _, _, _, _, h => by simp [plain] at h
  | .txt s :: rest, k, p, cp, hs, h => by
    simp only [spcShort] at hs
    simp only [plain, List.mem_append] at h
    simp only [srcLen]
    rcases h with h | h
    · have := mem_posText h; omega
    · have := plain_pos T st repls rest k _ cp hs h; omega
  | .spc key :: rest, k, p, cp, hs, h => by
    simp only [spcShort, Bool.and_eq_true, decide_eq_true_eq] at hs
    simp only [plain, List.mem_append] at h
    simp only [srcLen]
    rcases h with h | h
    · have := mem_posText h
      have := hs.1
      omega
    · have := plain_pos T st repls rest k _ cp hs.2 h; omega
  | .opn :: rest, k, p, cp, hs, h => by
    simp only [spcShort] at hs
    simp only [plain] at h
    simp only [srcLen]
    have := plain_pos T st repls rest k _ cp hs h; omega
  | .cls :: rest, k, p, cp, hs, h => by
    simp only [spcShort] at hs
    simp only [plain] at h
    simp only [srcLen]
    have := plain_pos T st repls rest k _ cp hs h; omega
  | .cw name sp :: rest, k, p, cp, hs, h => by
    simp only [spcShort] at hs
    simp only [plain] at h
    simp only [srcLen]
    have := plain_pos T st repls rest k _ cp hs h; omega
  | .van name key :: rest, k, p, cp, hs, h => by
    simp only [spcShort] at hs
    simp only [plain] at h
    simp only [srcLen]
    have := plain_pos T st repls rest k _ cp hs h; omega
  | .com body :: rest, k, p, cp, hs, h => by
    simp only [spcShort] at hs
    simp only [plain] at h
    simp only [srcLen]
    have := plain_pos T st repls rest k _ cp hs h; omega
  | .verb d t :: rest, k, p, cp, hs, h => by
    simp only [spcShort] at hs
    simp only [plain, List.mem_append] at h
    simp only [srcLen]
    rcases h with h | h
    · have := mem_posText h; omega
    · have := plain_pos T st repls rest k _ cp hs h; omega
  | .math body :: rest, k, p, cp, hs, h => by
    simp only [spcShort] at hs
    simp only [plain, List.mem_append, List.mem_map] at h
    simp only [srcLen]
    rcases h with ⟨c, _, rfl⟩ | h
    · have : PlainMath.leadBlanks body ≤ body.length := by
        unfold PlainMath.leadBlanks
        exact ScannerAux.length_takeWhile_le' isSpace body
      simp only
      omega
    · have := plain_pos T st repls rest (k + 1) _ cp hs h; omega
  | .ref name key :: rest, k, p, cp, hs, h => by
    simp only [spcShort] at hs
    simp only [plain, List.mem_append] at h
    simp only [srcLen, PlainRef.callLen]
    rcases h with h | h
    · have := mem_fixChars h; omega
    · have := plain_pos T st repls rest k _ cp hs h
      simp only [PlainRef.callLen] at this; omega
  | .cite name key :: rest, k, p, cp, hs, h => by
    simp only [spcShort] at hs
    simp only [plain, List.mem_append] at h
    simp only [srcLen, PlainRef.callLen]
    rcases h with h | h
    · have := mem_fixChars h; omega
    · have := plain_pos T st repls rest k _ cp hs h
      simp only [PlainRef.callLen] at this; omega
  | .citeN name note key :: rest, k, p, cp, hs, h => by
    simp only [spcShort] at hs
    simp only [plain, List.mem_append, List.mem_cons] at h
    simp only [srcLen, PlainRef.callNLen]
    have hl := lastTokOff_le note
    rcases h with h | h | rfl | h
    · have := mem_fixChars h; omega
    · have := mem_posText h; omega
    · simp only; omega
    · have := plain_pos T st repls rest k _ cp hs h
      simp only [PlainRef.callNLen] at this; omega
  | .foot body :: rest, k, p, cp, hs, h => by
    simp only [spcShort] at hs
    simp only [plain] at h
    simp only [srcLen]
    have := plain_pos T st repls rest k _ cp hs h; omega
  | .head name title :: rest, k, p, cp, hs, h => by
    simp only [spcShort] at hs
    simp only [plain, List.mem_append] at h
    simp only [srcLen]
    have hl := lastTokOff_le title
    rcases h with h | h | h
    · have := mem_posText h; omega
    · split at h
      · simp only [List.mem_singleton] at h
        subst h
        simp only; omega
      · simp at h
    · have := plain_pos T st repls rest k _ cp hs h; omega

/-! ### words separated by vanishing material only -/

/-- `Mid` consists of white space, comments and constructs that vanish from the output: unknown
    control words (with the white space they swallow), vanishing calls (`\label{…}`, `\index{…}`),
    braces, footnotes (they leave the main flow) -/
def gap : List Seg → Bool
  | [] => true
  | .txt s :: rest => s.all isSpace && gap rest
  | .com _ :: rest => gap rest
  | .cw _ _ :: rest => gap rest
  | .van _ _ :: rest => gap rest
  | .opn :: rest => gap rest
  | .cls :: rest => gap rest
  | .foot _ :: rest => gap rest
  | _ :: _ => false

theorem outNoNl_of_gap (T : PTables) (st : PState) (repls : List Str) : ∀ (Mid : List Seg),
    gap Mid = true → outNoNl T st repls Mid = true
  | [], _ => rfl
  | .txt s :: rest, h => by
    simp only [gap, Bool.and_eq_true] at h; simp only [outNoNl]; exact outNoNl_of_gap T st repls rest h.2
  | .com _ :: rest, h => by
    simp only [gap] at h; simp only [outNoNl]; exact outNoNl_of_gap T st repls rest h
  | .cw _ _ :: rest, h => by
    simp only [gap] at h; simp only [outNoNl]; exact outNoNl_of_gap T st repls rest h
  | .van _ _ :: rest, h => by
    simp only [gap] at h; simp only [outNoNl]; exact outNoNl_of_gap T st repls rest h
  | .opn :: rest, h => by
    simp only [gap] at h; simp only [outNoNl]; exact outNoNl_of_gap T st repls rest h
  | .cls :: rest, h => by
    simp only [gap] at h; simp only [outNoNl]; exact outNoNl_of_gap T st repls rest h
  | .foot _ :: rest, h => by
    simp only [gap] at h; simp only [outNoNl]; exact outNoNl_of_gap T st repls rest h
  | .spc _ :: rest, h => by simp [gap] at h
  | .verb _ _ :: rest, h => by simp [gap] at h
  | .math _ :: rest, h => by simp [gap] at h
  | .ref _ _ :: rest, h => by simp [gap] at h
  | .cite _ _ :: rest, h => by simp [gap] at h
  | .citeN _ _ _ :: rest, h => by simp [gap] at h
  | .head _ _ :: rest, h => by simp [gap] at h

theorem posText_space : ∀ (s : Str) (p : Nat), s.all isSpace = true →
    ∀ cp ∈ posText p s, isSpace cp.1 = true
  | [], _, _ => by simp [posText]
  | c :: cs, p, h => by
    simp only [List.all_cons, Bool.and_eq_true] at h
    intro cp hcp
    simp only [posText, List.mem_cons] at hcp
    rcases hcp with rfl | hcp
    · exact h.1
    · exact posText_space cs _ h.2 cp hcp

/-- the output characters of a gap are white space -/
theorem plain_gap (T : PTables) (st : PState) (repls : List Str) : ∀ (Mid : List Seg) (k p : Nat),
    gap Mid = true → ∀ cp ∈ plain T st repls k p Mid, isSpace cp.1 = true
  | [], _, _, _ => by simp [plain]
  | .txt s :: rest, k, p, h => by
    simp only [gap, Bool.and_eq_true] at h
    intro cp hcp
    simp only [plain, List.mem_append] at hcp
    rcases hcp with hcp | hcp
    · exact posText_space s p h.1 cp hcp
    · exact plain_gap T st repls rest k _ h.2 cp hcp
  | .com _ :: rest, k, p, h => by
    simp only [gap] at h; simp only [plain]; exact plain_gap T st repls rest k _ h
  | .cw _ _ :: rest, k, p, h => by
    simp only [gap] at h; simp only [plain]; exact plain_gap T st repls rest k _ h
  | .van _ _ :: rest, k, p, h => by
    simp only [gap] at h; simp only [plain]; exact plain_gap T st repls rest k _ h
  | .opn :: rest, k, p, h => by
    simp only [gap] at h; simp only [plain]; exact plain_gap T st repls rest k _ h
  | .cls :: rest, k, p, h => by
    simp only [gap] at h; simp only [plain]; exact plain_gap T st repls rest k _ h
  | .foot _ :: rest, k, p, h => by
    simp only [gap] at h; simp only [plain]; exact plain_gap T st repls rest k _ h
  | .spc _ :: rest, _, _, h => by simp [gap] at h
  | .verb _ _ :: rest, _, _, h => by simp [gap] at h
  | .math _ :: rest, _, _, h => by simp [gap] at h
  | .ref _ _ :: rest, _, _, h => by simp [gap] at h
  | .cite _ _ :: rest, _, _, h => by simp [gap] at h
  | .citeN _ _ _ :: rest, _, _, h => by simp [gap] at h
  | .head _ _ :: rest, _, _, h => by simp [gap] at h

/-- between two words that are separated by a gap only white space is output -/
theorem between_gap (T : PTables) (st : PState) (repls : List Str) (A : List Seg) (u : Str)
    (Mid : List Seg) (h : gap Mid = true) :
    ∀ cp ∈ between T st repls A u Mid, isSpace cp.1 = true := by
  intro cp hcp
  exact plain_gap T st repls Mid _ _ h cp ((between_sublist T st repls A u Mid).subset hcp)

/-- `Mid` stands in the middle of the document: its special sequences start visibly -/
theorem spcVis_mid (T : PTables) (st : PState) (A : List Seg) (u : Str) (a : Char) (Mid : List Seg)
    (b : Char) (v : Str) (B : List Seg) (h : segsOk T st (docAB A u a Mid b v B) = true) :
    spcVis Mid = true := by
  have := spcVis_of_segsOk T st _ h
  unfold docAB at this
  rw [spcVis_append] at this
  simp only [spcVis, Bool.and_eq_true] at this
  have h2 := this.2
  rw [spcVis_append] at h2
  simp only [Bool.and_eq_true] at h2
  exact h2.1

/-- the positions of the output characters between `a` and `b` lie strictly between the positions
    of `a` and `b` -/
theorem between_pos (T : PTables) (st : PState) (repls : List Str) (A : List Seg) (u : Str)
    (Mid : List Seg) (hs : spcShort T Mid = true) :
    ∀ cp ∈ between T st repls A u Mid, posA A u < cp.2 ∧ cp.2 < posB A u Mid := by
  intro cp hcp
  have h := plain_pos T st repls Mid _ _ cp hs ((between_sublist T st repls A u Mid).subset hcp)
  rw [srcLen_eq] at h
  unfold posB
  omega

theorem spcShort_of_gap (T : PTables) : ∀ (Mid : List Seg), gap Mid = true → spcShort T Mid = true
  | [], _ => rfl
  | .txt s :: rest, h => by
    simp only [gap, Bool.and_eq_true] at h; simp only [spcShort]; exact spcShort_of_gap T rest h.2
  | .com _ :: rest, h => by
    simp only [gap] at h; simp only [spcShort]; exact spcShort_of_gap T rest h
  | .cw _ _ :: rest, h => by
    simp only [gap] at h; simp only [spcShort]; exact spcShort_of_gap T rest h
  | .van _ _ :: rest, h => by
    simp only [gap] at h; simp only [spcShort]; exact spcShort_of_gap T rest h
  | .opn :: rest, h => by
    simp only [gap] at h; simp only [spcShort]; exact spcShort_of_gap T rest h
  | .cls :: rest, h => by
    simp only [gap] at h; simp only [spcShort]; exact spcShort_of_gap T rest h
  | .foot _ :: rest, h => by
    simp only [gap] at h; simp only [spcShort]; exact spcShort_of_gap T rest h
  | .spc _ :: rest, h => by simp [gap] at h
  | .verb _ _ :: rest, h => by simp [gap] at h
  | .math _ :: rest, h => by simp [gap] at h
  | .ref _ _ :: rest, h => by simp [gap] at h
  | .cite _ _ :: rest, h => by simp [gap] at h
  | .citeN _ _ _ :: rest, h => by simp [gap] at h
  | .head _ _ :: rest, h => by simp [gap] at h

end Para
end PlainMix2
end Yalafi
