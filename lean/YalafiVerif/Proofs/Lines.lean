/-
  Proofs/Lines.lean — lemmas about `remove_pure_action_lines` (Model/Lines.lean).
-/
import YalafiVerif.Spec.Lines
import YalafiVerif.Proofs.Utils
namespace Yalafi

/-- the work list always shrinks: the fuel `2·len+4` is never exhausted -/
theorem removeLines_progress (ts : List Tok) : (removeLines ts).isSome = true := by
  sorry

/-- range invariant (C01): tokens with text stay inside the source -/
theorem removeLines_inRange (n : Nat) (ts out : List Tok)
    (h : ∀ t ∈ ts, t.txt ≠ [] → TokInRange n t) (hr : removeLines ts = some out) :
    ∀ t ∈ out, t.txt ≠ [] → TokInRange n t := by
  sorry

/-- without Action tokens the pass only drops empty tokens -/
theorem removeLines_noaction_id (ts : List Tok) (h : ∀ t ∈ ts, isAction t = false) :
    removeLines ts = some (ts.filter keepOut) := by
  sorry

/-- no visible character is lost, duplicated, reordered or re-positioned (C02/C05) -/
theorem removeLines_nonblank (ts out : List Tok) (hr : removeLines ts = some out) :
    nonBlankPairs (getTxtPos out) = nonBlankPairs (getTxtPos ts) := by
  sorry

/-- the output text is the input text with some characters deleted (all of them white
    space, by `removeLines_nonblank`) -/
theorem removeLines_sublist (ts out : List Tok) (hr : removeLines ts = some out) :
    List.Sublist (getTxtPos out).1 (getTxtPos ts).1 := by
  sorry

/-- language tokens survive, in order (C12) -/
theorem removeLines_lang (ts out : List Tok) (hr : removeLines ts = some out) :
    out.filter isLang = ts.filter isLang := by
  sorry

/-- nothing but text and language tokens leaves the pass: no Action token, no empty token -/
theorem removeLines_kinds (ts out : List Tok) (hr : removeLines ts = some out) :
    ∀ t ∈ out, t.txt ≠ [] ∨ isLang t = true := by
  sorry

end Yalafi
