/-
  Proofs/Lines.lean — lemmas about `remove_pure_action_lines` (Model/Lines.lean).

  Structure: `linesLoop` is first turned into a fuel-free inductive relation `LinesRel`
  (one constructor per branch of the loop, `collectLine` already decomposed); termination
  (`removeLines_progress`) is proved on the function, everything else by induction on `LinesRel`.
-/
import YalafiVerif.Spec.Lines
import YalafiVerif.Proofs.Utils
namespace Yalafi

/-! ### collectLine -/

theorem collectLine_decomp (l : List LItem) (hl : l ≠ []) :
    ∃ mid lst rest', l = mid ++ lst :: rest' ∧
      (∀ i ∈ mid, i.blank = true ∧ i.ce = false) ∧
      (lst.ce = false → lst.blank = true → rest' = []) ∧
      collectLine l = (mid ++ [lst], rest', lst.ce || lst.blank) := by
  induction l with
  | nil => exact absurd rfl hl
  | cons a as ih =>
    by_cases hce : a.ce = true
    · exact ⟨[], a, as, rfl, by simp, by simp [hce], by simp [collectLine, hce]⟩
    · by_cases hb : a.blank = true
      · by_cases has : as = []
        · subst has
          refine ⟨[], a, [], rfl, by simp, by simp, ?_⟩
          simp [collectLine, hce, hb]
        · obtain ⟨mid, lst, rest', e, hm, hx, hc⟩ := ih has
          refine ⟨a :: mid, lst, rest', by simp [e], ?_, hx, ?_⟩
          · intro i hi
            simp only [List.mem_cons] at hi
            rcases hi with rfl | hi
            · exact ⟨hb, by simpa using hce⟩
            · exact hm i hi
          · simp [collectLine, hce, hb, hc]
      · refine ⟨[], a, as, rfl, by simp, ?_, ?_⟩
        · intro _ h; exact absurd h hb
        · simp at hce hb
          simp [collectLine, hce, hb]

def sentItem (t2 : Tok) : LItem := { evalTok (sentinel t2.pos) with cs := true }

theorem linesLoop_nil (fuel : Nat) (out : List Tok) : linesLoop fuel [] out = some out := by
  cases fuel <;> rfl

theorem linesLoop_skip (fuel : Nat) (t : LItem) (rest : List LItem) (out : List Tok)
    (h : t.cs = false) : linesLoop (fuel+1) (t :: rest) out = linesLoop fuel rest (out ++ [t.tok]) := by
  simp [linesLoop, h]

theorem linesLoop_one (fuel : Nat) (t : LItem) (out : List Tok)
    (h : t.cs = true) : linesLoop (fuel+1) [t] out = some (out ++ [t.tok]) := by
  simp [linesLoop, h, collectLine, linesLoop_nil]

theorem linesLoop_cs (fuel : Nat) (t : LItem) (mid : List LItem) (lst : LItem) (rest' : List LItem)
    (out : List Tok) (h : t.cs = true)
    (hc : collectLine (mid ++ lst :: rest') = (mid ++ [lst], rest', lst.ce || lst.blank)) :
    linesLoop (fuel+1) (t :: (mid ++ lst :: rest')) out =
      if ((lst.ce || lst.blank) && (t :: (mid ++ [lst])).any (fun i => isAction i.tok)) = true then
        linesLoop fuel (sentItem (trimLast lst.tok) :: evalTok (trimLast lst.tok) :: rest')
          (out ++ [trimFirst t.tok] ++ ((t :: (mid ++ [lst])).map (·.tok)).filter isLang)
      else
        linesLoop fuel (evalTok lst.tok :: rest') (out ++ (t :: mid).map (·.tok)) := by
  rw [linesLoop]
  simp only [h, hc, Bool.not_true, Bool.false_eq_true, if_false]
  have hlen : (t :: (mid ++ [lst])).length > 1 := by simp
  have hlast : ((t :: (mid ++ [lst])).getLast?.getD t) = lst := by
    simp [List.getLast?_cons]
  have hdl : (t :: (mid ++ [lst])).dropLast = t :: mid := by
    rw [← List.cons_append, List.dropLast_concat]
  simp only [hlast, hdl, hlen, decide_true, Bool.and_true, if_true, sentItem]


/-! ### the loop as a relation (fuel-free) -/

inductive LinesRel : List LItem → List Tok → Prop
  | nil : LinesRel [] []
  | skip (t : LItem) (rest : List LItem) (r : List Tok) :
      t.cs = false → LinesRel rest r → LinesRel (t :: rest) (t.tok :: r)
  | one (t : LItem) : t.cs = true → LinesRel [t] [t.tok]
  | remove (t : LItem) (mid : List LItem) (lst : LItem) (rest' : List LItem) (r : List Tok) :
      t.cs = true → (∀ i ∈ mid, i.blank = true ∧ i.ce = false) →
      (lst.ce = false → lst.blank = true → rest' = []) →
      (lst.ce || lst.blank) = true →
      (t :: (mid ++ [lst])).any (fun i => isAction i.tok) = true →
      LinesRel (sentItem (trimLast lst.tok) :: evalTok (trimLast lst.tok) :: rest') r →
      LinesRel (t :: (mid ++ lst :: rest'))
        (trimFirst t.tok :: (((t :: (mid ++ [lst])).map (·.tok)).filter isLang ++ r))
  | keep (t : LItem) (mid : List LItem) (lst : LItem) (rest' : List LItem) (r : List Tok) :
      t.cs = true → (∀ i ∈ mid, i.blank = true ∧ i.ce = false) →
      (lst.ce = false → lst.blank = true → rest' = []) →
      ((lst.ce || lst.blank) && (t :: (mid ++ [lst])).any (fun i => isAction i.tok)) = false →
      LinesRel (evalTok lst.tok :: rest') r →
      LinesRel (t :: (mid ++ lst :: rest')) (t.tok :: (mid.map (·.tok) ++ r))

theorem linesLoop_rel (fuel : Nat) (items : List LItem) (out res : List Tok)
    (h : linesLoop fuel items out = some res) : ∃ r, res = out ++ r ∧ LinesRel items r := by
  induction fuel generalizing items out with
  | zero =>
    cases items with
    | nil => simp [linesLoop] at h; exact ⟨[], by simp [h], .nil⟩
    | cons t rest => simp [linesLoop] at h
  | succ fuel ih =>
    cases items with
    | nil => simp [linesLoop] at h; exact ⟨[], by simp [h], .nil⟩
    | cons t rest =>
      by_cases hcs : t.cs = true
      · by_cases hr : rest = []
        · subst hr
          rw [linesLoop_one _ _ _ hcs] at h
          simp only [Option.some.injEq] at h
          exact ⟨[t.tok], h.symm, .one t hcs⟩
        · obtain ⟨mid, lst, rest', e, hm, hx, hc⟩ := collectLine_decomp rest hr
          subst e
          rw [linesLoop_cs _ _ _ _ _ _ hcs hc] at h
          split at h
          · rename_i hcond
            obtain ⟨r, hr1, hr2⟩ := ih _ _ h
            simp only [Bool.and_eq_true] at hcond
            refine ⟨_, ?_, .remove t mid lst rest' r hcs hm hx hcond.1 hcond.2 hr2⟩
            simp [hr1]
          · rename_i hcond
            obtain ⟨r, hr1, hr2⟩ := ih _ _ h
            refine ⟨_, ?_, .keep t mid lst rest' r hcs hm hx (by simpa using hcond) hr2⟩
            simp [hr1]
      · have hcs' : t.cs = false := by simpa using hcs
        rw [linesLoop_skip _ _ _ _ hcs'] at h
        obtain ⟨r, hr1, hr2⟩ := ih _ _ h
        exact ⟨t.tok :: r, by simp [hr1], .skip t rest r hcs' hr2⟩

theorem removeLines_rel (ts out : List Tok) (hr : removeLines ts = some out) :
    ∃ r, LinesRel (linesInit ts) r ∧ out = r.filter keepOut := by
  unfold removeLines at hr
  simp only [Option.map_eq_some_iff] at hr
  obtain ⟨res, h1, h2⟩ := hr
  obtain ⟨r, e, hrel⟩ := linesLoop_rel _ _ _ _ h1
  exact ⟨r, hrel, by simp [← h2, e]⟩

theorem getLast?_work (t : LItem) (mid : List LItem) (lst : LItem) (rest' : List LItem) :
    (t :: (mid ++ lst :: rest')).getLast? = (lst :: rest').getLast? := by
  rw [← List.cons_append, List.getLast?_append]
  simp [List.getLast?_cons]

theorem getLast?_two (a b : LItem) (rest' : List LItem) :
    (a :: b :: rest').getLast? = (b :: rest').getLast? := by
  simp [List.getLast?_cons_cons]

theorem getLast?_swap (a b : LItem) (rest' : List LItem) (P : LItem → Prop)
   (h : ∀ i, (a :: rest').getLast? = some i → P i) (hb : rest' = [] → P a → P b) :
   ∀ i, (b :: rest').getLast? = some i → P i := by
  cases rest' with
  | nil => intro i hi; simp at hi; subst hi; exact hb rfl (h a (by simp))
  | cons c cs => intro i hi; exact h i (by simpa [List.getLast?_cons_cons] using hi)

@[simp] theorem evalTok_tok (t : Tok) : (evalTok t).tok = t := by
  unfold evalTok; split <;> rfl

@[simp] theorem isAction_trimLast (t : Tok) : isAction (trimLast t) = isAction t := rfl
@[simp] theorem isLang_trimLast (t : Tok) : isLang (trimLast t) = isLang t := rfl
@[simp] theorem isAction_trimFirst (t : Tok) : isAction (trimFirst t) = isAction t := rfl
@[simp] theorem isLang_trimFirst (t : Tok) : isLang (trimFirst t) = isLang t := rfl
@[simp] theorem isAction_sentinel (p : Nat) : isAction (sentinel p) = false := rfl
@[simp] theorem isLang_sentinel (p : Nat) : isLang (sentinel p) = false := rfl
@[simp] theorem sentItem_tok (t : Tok) : (sentItem t).tok = sentinel t.pos := by
  simp [sentItem]
@[simp] theorem sentinel_txt (p : Nat) : (sentinel p).txt = [] := rfl

/-! ### progress -/

def countAct (l : List LItem) : Nat := l.countP (fun i => isAction i.tok)

def ActOK (i : LItem) : Prop := isAction i.tok = true → i.blank = true ∧ i.ce = false

theorem ActOK_evalTok (t : Tok) : ActOK (evalTok t) := by
  intro h
  simp only [evalTok_tok] at h
  simp [evalTok, h]

theorem ActOK_of_not (i : LItem) (h : isAction i.tok = false) : ActOK i := by
  intro h'; rw [h] at h'; cases h'

def LastNA (l : List LItem) : Prop := ∀ i, l.getLast? = some i → isAction i.tok = false

theorem countAct_pos_of_any (l : List LItem) (h : l.any (fun i => isAction i.tok) = true) :
    0 < countAct l := by
  unfold countAct
  rw [List.countP_pos_iff]
  simpa using h

theorem linesLoop_progress (fuel : Nat) (items : List LItem) (out : List Tok)
    (ha : ∀ i ∈ items, ActOK i) (hl : LastNA items)
    (hf : countAct items + items.length ≤ fuel) : (linesLoop fuel items out).isSome = true := by
  induction fuel generalizing items out with
  | zero =>
    cases items with
    | nil => simp [linesLoop]
    | cons t rest => simp at hf
  | succ fuel ih =>
    cases items with
    | nil => simp [linesLoop]
    | cons t rest =>
      have hcount : countAct (t :: rest) = countAct rest + (if isAction t.tok then 1 else 0) := by
        simp [countAct, List.countP_cons]
      by_cases hcs : t.cs = true
      · by_cases hr : rest = []
        · subst hr; rw [linesLoop_one _ _ _ hcs]; rfl
        · obtain ⟨mid, lst, rest', e, hm, hx, hc⟩ := collectLine_decomp rest hr
          subst e
          rw [linesLoop_cs _ _ _ _ _ _ hcs hc]
          have hlast : LastNA (lst :: rest') := by
            intro i hi; exact hl i (by rw [getLast?_work]; exact hi)
          have hrest : ∀ i ∈ rest', ActOK i := fun i hi => ha i (by simp [hi])
          have hcr : countAct (mid ++ lst :: rest') =
              countAct mid + (if isAction lst.tok then 1 else 0) + countAct rest' := by
            simp [countAct, List.countP_cons]; omega
          split
          · rename_i hcond
            simp only [Bool.and_eq_true] at hcond
            -- the last collected item is not an Action token
            have hna : isAction lst.tok = false := by
              by_cases hce : lst.ce = true
              · cases hA : isAction lst.tok with
                | false => rfl
                | true =>
                  have := (ha lst (by simp) hA).2
                  rw [hce] at this; cases this
              · have hce' : lst.ce = false := by simpa using hce
                have hb : lst.blank = true := by simpa [hce'] using hcond.1
                have := hx hce' hb
                subst this
                exact hlast lst (by simp)
            apply ih
            · intro i hi
              simp only [List.mem_cons] at hi
              rcases hi with rfl | rfl | hi
              · exact ActOK_of_not _ (by simp)
              · exact ActOK_evalTok _
              · exact hrest i hi
            · intro i hi
              rw [getLast?_two] at hi
              exact getLast?_swap lst (evalTok (trimLast lst.tok)) rest' _ hlast
                (by intro _ _; simp [hna]) i hi
            · have h1 : countAct (sentItem (trimLast lst.tok) :: evalTok (trimLast lst.tok) :: rest')
                  = countAct rest' := by
                simp [countAct, hna]
              have h2 := countAct_pos_of_any _ hcond.2
              have h3 : countAct (t :: (mid ++ [lst])) =
                  countAct mid + (if isAction t.tok then 1 else 0) := by
                simp [countAct, List.countP_cons, hna]
              rw [h1]
              rw [hcount, hcr] at hf
              simp only [hna] at hf
              simp only [List.length_cons, List.length_append] at hf ⊢
              rw [h3] at h2
              omega
          · apply ih
            · intro i hi
              simp only [List.mem_cons] at hi
              rcases hi with rfl | hi
              · exact ActOK_evalTok _
              · exact hrest i hi
            · exact getLast?_swap lst (evalTok lst.tok) rest' _ hlast (by intro _ h; simpa using h)
            · have h1 : countAct (evalTok lst.tok :: rest') =
                  countAct rest' + (if isAction lst.tok then 1 else 0) := by
                simp [countAct, List.countP_cons]
              rw [h1]
              rw [hcount, hcr] at hf
              simp only [List.length_cons, List.length_append] at hf ⊢
              omega
      · have hcs' : t.cs = false := by simpa using hcs
        rw [linesLoop_skip _ _ _ _ hcs']
        apply ih
        · exact fun i hi => ha i (by simp [hi])
        · intro i hi
          cases rest with
          | nil => simp at hi
          | cons c cs => exact hl i (by simpa [List.getLast?_cons_cons] using hi)
        · rw [hcount] at hf
          simp only [List.length_cons] at hf
          omega

def firstItem : LItem := { evalTok (sentinel 0) with cs := true }
def lastItem (p : Nat) : LItem := { evalTok (sentinel p) with ce := true }

theorem linesInit_eq (ts : List Tok) : ∃ p,
    linesInit ts = firstItem :: ((ts.filter keepIn).map evalTok ++ [lastItem p]) := ⟨_, rfl⟩

@[simp] theorem firstItem_tok : firstItem.tok = sentinel 0 := by simp [firstItem]
@[simp] theorem lastItem_tok (p : Nat) : (lastItem p).tok = sentinel p := by simp [lastItem]

theorem linesInit_ActOK (ts : List Tok) : ∀ i ∈ linesInit ts, ActOK i := by
  obtain ⟨p, e⟩ := linesInit_eq ts
  rw [e]
  intro i hi
  simp only [List.mem_cons, List.mem_append, List.mem_map, List.not_mem_nil, or_false] at hi
  rcases hi with rfl | ⟨t, _, rfl⟩ | rfl
  · exact ActOK_of_not _ (by simp)
  · exact ActOK_evalTok _
  · exact ActOK_of_not _ (by simp)

theorem countAct_le (l : List LItem) : countAct l ≤ l.length := List.countP_le_length

/-- the work list always shrinks: the fuel `2·len+4` is never exhausted -/
theorem removeLines_progress (ts : List Tok) : (removeLines ts).isSome = true := by
  unfold removeLines
  simp only [Option.isSome_map]
  apply linesLoop_progress
  · exact linesInit_ActOK ts
  · obtain ⟨p, e⟩ := linesInit_eq ts
    intro i hi
    rw [e, ← List.cons_append, List.getLast?_concat] at hi
    simp only [Option.some.injEq] at hi
    subst hi
    simp
  · have := countAct_le (linesInit ts)
    omega

/-! ### text lemmas -/

theorem split_last (s : Str) : uptoLastNl s ++ afterLastNl s = s := by
  unfold uptoLastNl afterLastNl
  rw [← List.reverse_append, List.takeWhile_append_dropWhile, List.reverse_reverse]

theorem split_first (s : Str) (h : hasNl s = true) :
    beforeFirstNl s ++ nl :: afterFirstNl s = s := by
  unfold beforeFirstNl afterFirstNl
  induction s with
  | nil => simp [hasNl] at h
  | cons c cs ih =>
    by_cases hc : c = nl
    · subst hc; simp
    · have : hasNl cs = true := by
        simp only [hasNl, List.contains_cons] at h ⊢
        have : (nl == c) = false := by simp; exact fun e => hc e.symm
        simpa [this] using h
      have hc' : (c != nl) = true := by simpa using hc
      simp only [List.takeWhile_cons, hc', if_true, List.dropWhile_cons, List.cons_append]
      rw [ih this]

theorem hasNl_of_ne_nil_trimFirst (t : Tok) (h : (trimFirst t).txt ≠ []) : hasNl t.txt = true := by
  unfold trimFirst at h
  by_cases hn : hasNl t.txt = true
  · exact hn
  · simp [hn] at h

theorem trimFirst_txt_length (t : Tok) : (trimFirst t).txt.length ≤ t.txt.length := by
  unfold trimFirst
  simp only []
  split
  · have := congrArg List.length (split_last t.txt)
    simp only [List.length_append] at this
    omega
  · simp

/-! ### range invariant -/

def RangeOK (n : Nat) (t : Tok) : Prop := t.txt ≠ [] → TokInRange n t

theorem RangeOK_sentinel (n p : Nat) : RangeOK n (sentinel p) := by
  intro h; exact absurd rfl h

theorem RangeOK_trimFirst (n : Nat) (t : Tok) (h : RangeOK n t) : RangeOK n (trimFirst t) := by
  intro hne
  have hl := trimFirst_txt_length t
  have hne' : t.txt ≠ [] := by
    intro e
    rw [e] at hl
    exact hne (List.eq_nil_of_length_eq_zero (by simpa using hl))
  have := h hne'
  unfold TokInRange at this ⊢
  refine ⟨this.1, ?_⟩
  intro hf
  have := this.2 hf
  show t.pos + (trimFirst t).txt.length ≤ n
  omega

theorem RangeOK_trimLast (n : Nat) (t : Tok) (h : RangeOK n t) : RangeOK n (trimLast t) := by
  intro hne
  by_cases hn : hasNl t.txt = true
  · have hs := congrArg List.length (split_first t.txt hn)
    simp only [List.length_append, List.length_cons] at hs
    have hne' : t.txt ≠ [] := by
      intro e; rw [e] at hn; simp [hasNl] at hn
    have hr := h hne'
    unfold TokInRange at hr ⊢
    simp only [trimLast, hn, if_true] at hne ⊢
    have hpos : 0 < (afterFirstNl t.txt).length := List.length_pos_iff.2 hne
    cases hf : t.fix with
    | true => simp [hr.1]
    | false =>
      have := hr.2 hf
      simp only [Bool.false_eq_true, if_false]
      constructor
      · omega
      · intro _; omega
  · simp [trimLast, hn] at hne

theorem LinesRel_inRange (n : Nat) (items : List LItem) (r : List Tok) (hrel : LinesRel items r)
    (h : ∀ i ∈ items, RangeOK n i.tok) : ∀ t ∈ r, RangeOK n t := by
  induction hrel with
  | nil => simp
  | skip t rest r hcs _ ih =>
    intro x hx
    simp only [List.mem_cons] at hx
    rcases hx with rfl | hx
    · exact h t (by simp)
    · exact ih (fun i hi => h i (by simp [hi])) x hx
  | one t hcs => intro x hx; simp at hx; subst hx; exact h t (by simp)
  | remove t mid lst rest' r hcs hm hx hb hany _ ih =>
    intro x hx'
    simp only [List.mem_cons, List.mem_append, List.mem_filter, List.mem_map] at hx'
    rcases hx' with rfl | ⟨⟨i, hi, rfl⟩, _⟩ | hx'
    · exact RangeOK_trimFirst n _ (h t (by simp))
    · apply h i
      simp only [List.mem_cons, List.mem_append, List.not_mem_nil, or_false] at hi ⊢
      rcases hi with rfl | hi | rfl <;> simp [*]
    · refine ih ?_ x hx'
      intro i hi
      simp only [List.mem_cons] at hi
      rcases hi with rfl | rfl | hi
      · simpa using RangeOK_sentinel n _
      · simpa using RangeOK_trimLast n _ (h lst (by simp))
      · exact h i (by simp [hi])
  | keep t mid lst rest' r hcs hm hx hb _ ih =>
    intro x hx'
    simp only [List.mem_cons, List.mem_append, List.mem_map] at hx'
    rcases hx' with rfl | ⟨i, hi, rfl⟩ | hx'
    · exact h t (by simp)
    · exact h i (by simp [hi])
    · refine ih ?_ x hx'
      intro i hi
      simp only [List.mem_cons] at hi
      rcases hi with rfl | hi
      · simpa using h lst (by simp)
      · exact h i (by simp [hi])

/-- range invariant (C01): tokens with text stay inside the source -/
theorem removeLines_inRange (n : Nat) (ts out : List Tok)
    (h : ∀ t ∈ ts, t.txt ≠ [] → TokInRange n t) (hr : removeLines ts = some out) :
    ∀ t ∈ out, t.txt ≠ [] → TokInRange n t := by
  obtain ⟨r, hrel, rfl⟩ := removeLines_rel ts out hr
  intro t ht
  simp only [List.mem_filter] at ht
  refine LinesRel_inRange n _ r hrel ?_ t ht.1
  obtain ⟨p, e⟩ := linesInit_eq ts
  rw [e]
  intro i hi
  simp only [List.mem_cons, List.mem_append, List.mem_map, List.mem_filter, List.not_mem_nil, or_false] at hi
  rcases hi with rfl | ⟨t, ht, rfl⟩ | rfl
  · simpa using RangeOK_sentinel n _
  · rw [evalTok_tok]; exact h t ht.1
  · simpa using RangeOK_sentinel n _

/-! ### kinds -/

/-- nothing but text and language tokens leaves the pass: no Action token, no empty token -/
theorem removeLines_kinds (ts out : List Tok) (hr : removeLines ts = some out) :
    ∀ t ∈ out, t.txt ≠ [] ∨ isLang t = true := by
  obtain ⟨r, _, rfl⟩ := removeLines_rel ts out hr
  intro t ht
  simp only [List.mem_filter, keepOut, Bool.or_eq_true, Bool.not_eq_eq_eq_not, Bool.not_true,
    List.isEmpty_eq_false_iff] at ht
  exact ht.2

theorem LinesRel_noaction (items : List LItem) (r : List Tok) (hrel : LinesRel items r)
    (h : ∀ i ∈ items, isAction i.tok = false) : r = items.map (·.tok) := by
  induction hrel with
  | nil => rfl
  | skip t rest r hcs _ ih => simp [ih (fun i hi => h i (by simp [hi]))]
  | one t hcs => rfl
  | remove t mid lst rest' r hcs hm hx hb hany _ ih =>
    exfalso
    simp only [List.any_eq_true] at hany
    obtain ⟨i, hi, hA⟩ := hany
    have : i ∈ t :: (mid ++ lst :: rest') := by
      simp only [List.mem_cons, List.mem_append, List.not_mem_nil, or_false] at hi ⊢
      rcases hi with rfl | hi | rfl <;> simp [*]
    rw [h i this] at hA
    cases hA
  | keep t mid lst rest' r hcs hm hx hb _ ih =>
    have := ih (by
      intro i hi
      simp only [List.mem_cons] at hi
      rcases hi with rfl | hi
      · simpa using h lst (by simp)
      · exact h i (by simp [hi]))
    simp [this]

@[simp] theorem keepOut_sentinel (p : Nat) : keepOut (sentinel p) = false := rfl

/-- without Action tokens the pass only drops empty tokens -/
theorem removeLines_noaction_id (ts : List Tok) (h : ∀ t ∈ ts, isAction t = false) :
    removeLines ts = some (ts.filter keepOut) := by
  have hp := removeLines_progress ts
  cases hr : removeLines ts with
  | none => rw [hr] at hp; cases hp
  | some out =>
    obtain ⟨r, hrel, rfl⟩ := removeLines_rel ts out hr
    obtain ⟨p, e⟩ := linesInit_eq ts
    rw [e] at hrel
    have := LinesRel_noaction _ r hrel (by
      intro i hi
      simp only [List.mem_cons, List.mem_append, List.mem_map, List.mem_filter, List.not_mem_nil,
        or_false] at hi
      rcases hi with rfl | ⟨t, ht, rfl⟩ | rfl
      · simp
      · simpa using h t ht.1
      · simp)
    subst this
    simp only [List.map_cons, List.map_append, List.map_map, List.map_nil, firstItem_tok,
      lastItem_tok, List.filter_cons, keepOut_sentinel, Bool.false_eq_true, if_false,
      List.filter_append, List.filter_nil, List.append_nil, Option.some.injEq]
    have e2 : List.map ((fun x => x.tok) ∘ evalTok) (List.filter keepIn ts) = List.filter keepIn ts := by
      rw [show ((fun x : LItem => x.tok) ∘ evalTok) = id from by funext t; simp]
      simp
    rw [e2, List.filter_filter]
    apply List.filter_congr
    intro t _
    simp only [keepOut, keepIn]
    cases t.txt.isEmpty <;> cases isLang t <;> simp

/-! ### visible pairs and text of token lists -/

def vis (s : Str) (ps : List Nat) : List (Char × Nat) := (s.zip ps).filter (fun cp => !isSpace cp.1)

def posOf (fix : Bool) (pos len : Nat) : List Nat :=
  if fix then List.replicate len pos else (List.range len).map (pos + ·)

theorem posOf_length (fix : Bool) (pos len : Nat) : (posOf fix pos len).length = len := by
  unfold posOf; split <;> simp

theorem posOf_add (fix : Bool) (pos a b : Nat) :
    posOf fix pos (a + b) = posOf fix pos a ++ posOf fix (if fix then pos else pos + a) b := by
  unfold posOf
  cases fix with
  | true => simp [List.replicate_append_replicate]
  | false =>
    simp only [Bool.false_eq_true, if_false, List.range_add, List.map_append, List.map_map]
    congr 1
    apply List.map_congr_left
    intro x _
    simp [Nat.add_assoc]

theorem tokPositions_eq (t : Tok) : tokPositions t = posOf t.fix t.pos t.txt.length := rfl

theorem vis_append (s1 s2 : Str) (p1 p2 : List Nat) (h : s1.length = p1.length) :
    vis (s1 ++ s2) (p1 ++ p2) = vis s1 p1 ++ vis s2 p2 := by
  simp [vis, List.zip_append h]

theorem vis_blank (s : Str) (ps : List Nat) (h : isBlank s = true) : vis s ps = [] := by
  unfold vis
  rw [List.filter_eq_nil_iff]
  intro cp hcp
  have := (List.of_mem_zip hcp).1
  unfold isBlank at h
  rw [List.all_eq_true] at h
  simp [h _ this]

def visTok (t : Tok) : List (Char × Nat) := vis t.txt (tokPositions t)
def Vis (ts : List Tok) : List (Char × Nat) := nonBlankPairs (getTxtPos ts)
def Txt (ts : List Tok) : Str := (getTxtPos ts).1

@[simp] theorem Vis_nil : Vis [] = [] := rfl
@[simp] theorem Txt_nil : Txt [] = [] := rfl
@[simp] theorem Txt_cons (t : Tok) (ts : List Tok) : Txt (t :: ts) = t.txt ++ Txt ts := rfl
@[simp] theorem Vis_cons (t : Tok) (ts : List Tok) : Vis (t :: ts) = visTok t ++ Vis ts := by
  have := vis_append t.txt (getTxtPos ts).1 (tokPositions t) (getTxtPos ts).2 (tokPositions_length t).symm
  simpa [Vis, nonBlankPairs, getTxtPos, visTok, vis] using this
@[simp] theorem Txt_append (a b : List Tok) : Txt (a ++ b) = Txt a ++ Txt b := by
  simp [Txt, getTxtPos_append]
@[simp] theorem Vis_append (a b : List Tok) : Vis (a ++ b) = Vis a ++ Vis b := by
  induction a with
  | nil => simp
  | cons t ts ih => simp [ih]

theorem visTok_split (t : Tok) (u a : Str) (h : t.txt = u ++ a) :
    visTok t = vis u (posOf t.fix t.pos u.length) ++
      vis a (posOf t.fix (if t.fix then t.pos else t.pos + u.length) a.length) := by
  unfold visTok
  rw [tokPositions_eq, h, List.length_append, posOf_add, vis_append _ _ _ _ (posOf_length ..).symm]

theorem visTok_blank (t : Tok) (h : isBlank t.txt = true) : visTok t = [] := vis_blank _ _ h

theorem isBlank_nil : isBlank [] = true := rfl

theorem isBlank_append (a b : Str) : isBlank (a ++ b) = (isBlank a && isBlank b) := by
  simp [isBlank]

/-- what `trimFirst` needs: the dropped tail is blank -/
def TFOK (t : Tok) : Prop :=
  (hasNl t.txt = true → isBlank (afterLastNl t.txt) = true) ∧ (hasNl t.txt = false → isBlank t.txt = true)
/-- what `trimLast` needs: the dropped head is blank -/
def TLOK (t : Tok) : Prop :=
  (hasNl t.txt = true → isBlank (beforeFirstNl t.txt) = true) ∧ (hasNl t.txt = false → isBlank t.txt = true)

theorem visTok_trimFirst (t : Tok) (h : TFOK t) : visTok (trimFirst t) = visTok t := by
  cases hn : hasNl t.txt with
  | true =>
    rw [visTok_split t _ _ (split_last t.txt).symm, vis_blank _ _ (h.1 hn), List.append_nil]
    simp [visTok, tokPositions_eq, trimFirst, hn]
  | false =>
    rw [visTok_blank t (h.2 hn)]
    simp [visTok, trimFirst, hn, vis]

theorem visTok_trimLast (t : Tok) (h : TLOK t) : visTok (trimLast t) = visTok t := by
  cases hn : hasNl t.txt with
  | true =>
    have e : t.txt = (beforeFirstNl t.txt ++ [nl]) ++ afterFirstNl t.txt := by
      simpa using (split_first t.txt hn).symm
    have hb : isBlank (beforeFirstNl t.txt ++ [nl]) = true := by
      rw [isBlank_append, h.1 hn]; decide
    rw [visTok_split t _ _ e, vis_blank _ _ hb, List.nil_append]
    simp only [visTok, tokPositions_eq, trimLast, hn, if_true, List.length_append, List.length_singleton]
  | false =>
    rw [visTok_blank t (h.2 hn)]
    simp [visTok, trimLast, hn, vis]

theorem txt_trimFirst_sublist (t : Tok) : List.Sublist (trimFirst t).txt t.txt := by
  cases hn : hasNl t.txt with
  | true =>
    simp only [trimFirst, hn, if_true]
    conv => rhs; rw [← split_last t.txt]
    exact List.sublist_append_left _ _
  | false => simp [trimFirst, hn]

theorem txt_trimLast_sublist (t : Tok) : List.Sublist (trimLast t).txt t.txt := by
  cases hn : hasNl t.txt with
  | true =>
    simp only [trimLast, hn, if_true]
    conv => rhs; rw [← split_first t.txt hn]
    exact List.sublist_append_of_sublist_right (List.sublist_cons_self _ _)
  | false => simp [trimLast, hn]

theorem getTxtPos_empty (l : List Tok) (h : ∀ t ∈ l, t.txt = []) : Vis l = [] ∧ Txt l = [] := by
  induction l with
  | nil => simp
  | cons t ts ih =>
    have := ih (fun x hx => h x (by simp [hx]))
    have ht := h t (by simp)
    simp [this, ht, visTok, vis]

theorem Vis_blank_list (l : List Tok) (h : ∀ t ∈ l, isBlank t.txt = true) : Vis l = [] := by
  induction l with
  | nil => simp
  | cons t ts ih =>
    simp [ih (fun x hx => h x (by simp [hx])), visTok_blank t (h t (by simp))]

/-! ### item invariant under the class invariant "Action/Language tokens have no text" -/

def CtlEmpty (t : Tok) : Prop := (isAction t = true ∨ isLang t = true) → t.txt = []

structure ItemOK (i : LItem) : Prop where
  ctl : CtlEmpty i.tok
  blank : i.blank = true → isBlank i.tok.txt = true
  cs : i.cs = true → TFOK i.tok ∧ isLang i.tok = false
  ce : i.ce = true → TLOK i.tok ∧ isLang i.tok = false

theorem hasNl_nil : hasNl [] = false := rfl

theorem isBlank_beforeFirstNl (s : Str) (h : isBlank s = true) : isBlank (beforeFirstNl s) = true := by
  unfold isBlank beforeFirstNl at *
  rw [List.all_eq_true] at h ⊢
  intro x hx
  exact h x ((List.takeWhile_sublist _).subset hx)

theorem TLOK_of_blank (t : Tok) (h : isBlank t.txt = true) : TLOK t :=
  ⟨fun _ => isBlank_beforeFirstNl _ h, fun _ => h⟩

theorem TFOK_of_nil (t : Tok) (h : t.txt = []) : TFOK t := by
  constructor <;> intro _ <;> simp [h, afterLastNl, isBlank]

theorem ItemOK_evalTok (t : Tok) (h : CtlEmpty t) : ItemOK (evalTok t) := by
  have hl : hasNl t.txt = true → isLang t = false := by
    intro hn
    cases hL : isLang t with
    | false => rfl
    | true => rw [h (Or.inr hL)] at hn; cases hn
  unfold evalTok
  split
  · rename_i hA
    have := h (Or.inl hA)
    exact ⟨h, by simp [this, isBlank], by simp, by simp⟩
  · refine ⟨h, ?_, ?_, ?_⟩
    · simp only [Bool.and_eq_true]; exact fun h => h.2
    · simp only [Bool.and_eq_true]
      intro ⟨h1, h2⟩
      exact ⟨⟨fun _ => h2, fun h3 => by rw [h1] at h3; cases h3⟩, hl h1⟩
    · simp only [Bool.and_eq_true]
      intro ⟨h1, h2⟩
      exact ⟨⟨fun _ => h2, fun h3 => by rw [h1] at h3; cases h3⟩, hl h1⟩

theorem ItemOK_of_sentinel (i : LItem) (p : Nat) (h : i.tok = sentinel p) : ItemOK i := by
  have hb : isBlank i.tok.txt = true := by rw [h]; rfl
  have hL : isLang i.tok = false := by rw [h]; rfl
  refine ⟨?_, fun _ => hb, fun _ => ⟨TFOK_of_nil _ (by rw [h]; rfl), hL⟩, fun _ => ⟨TLOK_of_blank _ hb, hL⟩⟩
  intro _; rw [h]; rfl

theorem CtlEmpty_trimLast (t : Tok) (h : CtlEmpty t) : CtlEmpty (trimLast t) := by
  intro hk
  have := h hk
  simp [trimLast, this, hasNl_nil]

def LastNL (l : List LItem) : Prop := ∀ i, l.getLast? = some i → isLang i.tok = false

theorem LinesRel_main (items : List LItem) (r : List Tok) (hrel : LinesRel items r)
    (hok : ∀ i ∈ items, ItemOK i) (hlast : LastNL items) :
    Vis r = Vis (items.map (·.tok)) ∧ List.Sublist (Txt r) (Txt (items.map (·.tok))) ∧
    r.filter isLang = (items.map (·.tok)).filter isLang := by
  induction hrel with
  | nil => simp
  | skip t rest r hcs _ ih =>
    have := ih (fun i hi => hok i (by simp [hi])) (by
      intro i hi
      cases rest with
      | nil => simp at hi
      | cons c cs => exact hlast i (by simpa [List.getLast?_cons_cons] using hi))
    simp only [List.map_cons, Vis_cons, Txt_cons, List.filter_cons, this.1, this.2.2]
    exact ⟨trivial, List.Sublist.append_left this.2.1 _, trivial⟩
  | one t hcs => simp
  | remove t mid lst rest' r hcs hm hx hb hany _ ih =>
    have hl' : LastNL (lst :: rest') := by
      intro i hi; exact hlast i (by rw [getLast?_work]; exact hi)
    have hokl := hok lst (by simp)
    have hokt := hok t (by simp)
    -- the last collected token: its dropped head is blank, and it is no Language token
    have hlst : TLOK lst.tok ∧ isLang lst.tok = false := by
      by_cases hce : lst.ce = true
      · exact hokl.ce hce
      · have hce' : lst.ce = false := by simpa using hce
        have hbl : lst.blank = true := by simpa [hce'] using hb
        have := hx hce' hbl
        subst this
        exact ⟨TLOK_of_blank _ (hokl.blank hbl), hl' lst (by simp)⟩
    have hmid : ∀ x ∈ mid.map (·.tok), isBlank x.txt = true := by
      intro x hx'
      simp only [List.mem_map] at hx'
      obtain ⟨i, hi, rfl⟩ := hx'
      exact (hok i (by simp [hi])).blank (hm i hi).1
    have hlangs : ∀ x ∈ ((t :: (mid ++ [lst])).map (·.tok)).filter isLang, x.txt = [] := by
      intro x hx'
      simp only [List.mem_filter, List.mem_map] at hx'
      obtain ⟨⟨i, hi, rfl⟩, hL⟩ := hx'
      refine (hok i ?_).ctl (Or.inr hL)
      simp only [List.mem_cons, List.mem_append, List.not_mem_nil, or_false] at hi ⊢
      rcases hi with rfl | hi | rfl <;> simp [*]
    have ih' := ih (by
      intro i hi
      simp only [List.mem_cons] at hi
      rcases hi with rfl | rfl | hi
      · exact ItemOK_of_sentinel _ _ (sentItem_tok _)
      · exact ItemOK_evalTok _ (CtlEmpty_trimLast _ hokl.ctl)
      · exact hok i (by simp [hi])) (by
      intro i hi
      rw [getLast?_two] at hi
      exact getLast?_swap lst (evalTok (trimLast lst.tok)) rest' _ hl'
        (by intro _ _; simp [hlst.2]) i hi)
    obtain ⟨ih1, ih2, ih3⟩ := ih'
    have he := getTxtPos_empty _ hlangs
    have hvs : visTok (sentinel (trimLast lst.tok).pos) = [] := rfl
    refine ⟨?_, ?_, ?_⟩
    · generalize ((t :: (mid ++ [lst])).map (·.tok)).filter isLang = langs at he
      simp only [Vis_cons, Vis_append, he.1, ih1, List.map_cons, List.map_append, sentItem_tok,
        evalTok_tok, hvs, Vis_blank_list _ hmid, visTok_trimFirst _ (hokt.cs hcs).1,
        visTok_trimLast _ hlst.1, List.nil_append]
    · generalize ((t :: (mid ++ [lst])).map (·.tok)).filter isLang = langs at he
      simp only [Txt_cons, Txt_append, he.2, List.map_cons, List.map_append, List.nil_append]
      simp only [List.map_cons, Txt_cons, sentItem_tok, evalTok_tok, sentinel_txt,
        List.nil_append] at ih2
      apply List.Sublist.append (txt_trimFirst_sublist _)
      apply List.sublist_append_of_sublist_right
      exact ih2.trans (List.Sublist.append_right (txt_trimLast_sublist _) _)
    · have hLt := (hokt.cs hcs).2
      simp only [List.map_cons, List.filter_cons, sentItem_tok, evalTok_tok, isLang_sentinel,
        isLang_trimLast, hlst.2, Bool.false_eq_true, if_false] at ih3
      simp only [List.filter_cons, isLang_trimFirst, hLt, Bool.false_eq_true, if_false,
        List.filter_append, List.filter_filter, Bool.and_self, ih3, List.map_cons, List.map_append,
        List.map_nil, hlst.2, List.filter_nil, List.append_nil]
  | keep t mid lst rest' r hcs hm hx hb _ ih =>
    have hl' : LastNL (lst :: rest') := by
      intro i hi; exact hlast i (by rw [getLast?_work]; exact hi)
    have hokl := hok lst (by simp)
    have ih' := ih (by
      intro i hi
      simp only [List.mem_cons] at hi
      rcases hi with rfl | hi
      · exact ItemOK_evalTok _ hokl.ctl
      · exact hok i (by simp [hi]))
      (getLast?_swap lst (evalTok lst.tok) rest' _ hl' (by intro _ h; simpa using h))
    obtain ⟨ih1, ih2, ih3⟩ := ih'
    simp only [List.map_cons, evalTok_tok] at ih1 ih2 ih3
    refine ⟨?_, ?_, ?_⟩
    · simp [ih1]
    · simp only [Txt_cons, Txt_append, List.map_cons, List.map_append]
      exact List.Sublist.append_left (List.Sublist.append_left (by simpa using ih2) _) _
    · simp only [List.map_cons, List.map_append]
      rw [← List.cons_append, ← List.cons_append, List.filter_append, List.filter_append, ih3]

theorem filter_txt (f : Tok → Bool) (hf : ∀ t, f t = false → t.txt = []) (l : List Tok) :
    Vis (l.filter f) = Vis l ∧ Txt (l.filter f) = Txt l := by
  induction l with
  | nil => simp
  | cons t ts ih =>
    cases h : f t with
    | true => simp [h, ih.1, ih.2]
    | false => simp [h, ih.1, ih.2, hf t h, visTok, vis]

theorem keepOut_txt (t : Tok) (h : keepOut t = false) : t.txt = [] := by
  simp only [keepOut, Bool.or_eq_false_iff, Bool.not_eq_eq_eq_not, Bool.not_false,
    List.isEmpty_iff] at h
  exact h.1

theorem keepIn_txt (t : Tok) (h : keepIn t = false) : t.txt = [] := by
  simp only [keepIn, Bool.or_eq_false_iff, Bool.not_eq_eq_eq_not, Bool.not_false,
    List.isEmpty_iff] at h
  exact h.1.1

theorem filter_isLang_keep (f : Tok → Bool) (hf : ∀ t, isLang t = true → f t = true) (l : List Tok) :
    (l.filter f).filter isLang = l.filter isLang := by
  rw [List.filter_filter]
  apply List.filter_congr
  intro t _
  cases h : isLang t with
  | false => simp
  | true => simp [hf t h]

theorem linesInit_toks (ts : List Tok) : ∃ p,
    (linesInit ts).map (·.tok) = sentinel 0 :: (ts.filter keepIn ++ [sentinel p]) := by
  obtain ⟨p, e⟩ := linesInit_eq ts
  refine ⟨p, ?_⟩
  rw [e]
  simp only [List.map_cons, List.map_append, List.map_map, List.map_nil, firstItem_tok, lastItem_tok]
  rw [show ((fun x : LItem => x.tok) ∘ evalTok) = id from by funext t; simp]
  simp

/-- everything the relational invariant gives for `removeLines` -/
theorem removeLines_main (ts out : List Tok)
    (hc : ∀ t ∈ ts, (isAction t = true ∨ isLang t = true) → t.txt = [])
    (hr : removeLines ts = some out) :
    Vis out = Vis ts ∧ List.Sublist (Txt out) (Txt ts) ∧ out.filter isLang = ts.filter isLang := by
  obtain ⟨r, hrel, rfl⟩ := removeLines_rel ts out hr
  obtain ⟨p, e⟩ := linesInit_eq ts
  have hok : ∀ i ∈ linesInit ts, ItemOK i := by
    rw [e]
    intro i hi
    simp only [List.mem_cons, List.mem_append, List.mem_map, List.mem_filter, List.not_mem_nil,
      or_false] at hi
    rcases hi with rfl | ⟨t, ht, rfl⟩ | rfl
    · exact ItemOK_of_sentinel _ _ firstItem_tok
    · exact ItemOK_evalTok _ (hc t ht.1)
    · exact ItemOK_of_sentinel _ _ (lastItem_tok p)
  have hlast : LastNL (linesInit ts) := by
    intro i hi
    rw [e, ← List.cons_append, List.getLast?_concat] at hi
    simp only [Option.some.injEq] at hi
    subst hi
    simp
  obtain ⟨h1, h2, h3⟩ := LinesRel_main _ r hrel hok hlast
  obtain ⟨p', e'⟩ := linesInit_toks ts
  rw [e'] at h1 h2 h3
  have fo := filter_txt keepOut keepOut_txt r
  have fi := filter_txt keepIn keepIn_txt ts
  have hvs : ∀ q, visTok (sentinel q) = [] := fun _ => rfl
  refine ⟨?_, ?_, ?_⟩
  · rw [fo.1, h1]
    simp [hvs, fi.1]
  · rw [fo.2]
    simpa [fi.2] using h2
  · rw [filter_isLang_keep keepOut (by intro t h; simp [keepOut, h]), h3]
    simp only [List.filter_cons, isLang_sentinel, Bool.false_eq_true, if_false, List.filter_append,
      List.filter_nil, List.append_nil]
    exact filter_isLang_keep keepIn (by intro t h; simp [keepIn, h]) ts

/-! ### the statements about text, positions and language tokens

  These three need the class invariant of `defs.py`: `ActionToken` and `LanguageToken` are
  created with `txt = ''`.  `evalTok` treats an Action token as blank whatever its text, and a
  Language token whose text contains a newline can start a line and is then emitted twice
  (once trimmed, once through `langToks`). -/

/-- no visible character is lost, duplicated, reordered or re-positioned (C02/C05).
    `hc` is the class invariant of defs.py (ActionToken/LanguageToken are created with txt = '');
    without it: `[text 0 "\n", action 1 "x", text 2 "\n"]` gives `[text 0 "\n"]`, losing `('x',1)`. -/
theorem removeLines_nonblank (ts out : List Tok)
    (hc : ∀ t ∈ ts, (isAction t = true ∨ isLang t = true) → t.txt = [])
    (hr : removeLines ts = some out) :
    nonBlankPairs (getTxtPos out) = nonBlankPairs (getTxtPos ts) :=
  (removeLines_main ts out hc hr).1

/-- the output text is the input text with some characters deleted (all of them white
    space, by `removeLines_nonblank`).
    `hc` is the class invariant of defs.py (ActionToken/LanguageToken are created with txt = '');
    without it: `[lang 0 "x\n", action 2 "", text 2 "\n"]` gives text `"x\nx\n"`, no sublist of `"x\n\n"`. -/
theorem removeLines_sublist (ts out : List Tok)
    (hc : ∀ t ∈ ts, (isAction t = true ∨ isLang t = true) → t.txt = [])
    (hr : removeLines ts = some out) :
    List.Sublist (getTxtPos out).1 (getTxtPos ts).1 :=
  (removeLines_main ts out hc hr).2.1

/-- language tokens survive, in order (C12).
    `hc` is the class invariant of defs.py (ActionToken/LanguageToken are created with txt = '');
    without it: `[lang 0 "\n", action 1 "", text 1 "\n"]` gives the Language token twice. -/
theorem removeLines_lang (ts out : List Tok)
    (hc : ∀ t ∈ ts, (isAction t = true ∨ isLang t = true) → t.txt = [])
    (hr : removeLines ts = some out) :
    out.filter isLang = ts.filter isLang :=
  (removeLines_main ts out hc hr).2.2

end Yalafi
