/-
  Proofs/NoEmptyTop.lean — from the bundle (`∀ fuel, AllSpecs T fuel`) to `initParser`, `parse`, `tex2txt`:
  the whole filter model never ends in `.crash "glossaries.py:cap_first:txt[0]"`.
-/
import YalafiVerif.Proofs.NoEmptyBase1
import YalafiVerif.Proofs.NoEmptyBase2
namespace Yalafi
namespace NoEmpty

open M

variable {T : PTables}

theorem forM_init_StOk (hne : tblOkB T = true) (fuel : Nat) (A : AllSpecs T fuel) (mods : List (Str × ModuleDef))
    (hm : ∀ nm ∈ mods, ModOk T nm.2) (st : PState) (hs : StOk T st) :
    Post' (mods.forM (fun nm => (do let _ ← initPackage T fuel nm.1 nm.2 false [] 0; pure () : M Unit)) st)
      (fun _ s => StOk T s) := by
  induction mods generalizing st with
  | nil => exact Post'_pure (α := PUnit) _ _ _ hs
  | cons nm rest ih =>
    apply Post'_bind (β := PUnit) _ (fun _ => rest.forM _) _ (Q := fun _ s => StOk T s)
    · apply Post'_bind _ _ _ (Q := fun _ s => StOk T s)
      · exact Post'_mono _ _ _ (A.init nm.1 nm.2 false [] 0 st hs (hm nm (List.mem_cons_self ..)))
          (fun a s h => h.1.1)
      · intro a s h; exact Post'_pure _ _ _ h
    · intro _ s h
      exact ih (fun nm' h' => hm nm' (List.mem_cons_of_mem _ h')) s h

theorem initParser_StOk (hne : tblOkB T = true) (fuel : Nat) (A : AllSpecs T fuel) (o : Options)
    (st : PState) (hs : StOk T st) :
    Post' (initParser T fuel o st) (fun _ s => StOk T s) := by
  unfold initParser
  apply Post'_bind _ _ _ (Q := fun _ s => StOk T s)
  · exact Post'_mono _ _ _ (A.init [] (builtinModule T o) true [] 0 st hs (builtinModule_ModOk hne o))
      (fun a s h => h.1.1)
  · intro _ s h
    apply forM_init_StOk hne fuel A _ _ s h
    intro nm hnm
    rcases List.mem_append.1 hnm with h' | h'
    · exact getPackages_ModOk hne _ _ nm h'
    · exact getPackages_ModOk hne _ _ nm h'

theorem parse_noCrash (hw : T.WFInv) (fuel : Nat) (A : AllSpecs T fuel) (latex define : Str)
    (extract : List Str) (st : PState) (hs : StOk T st) :
    Post' (parse T fuel latex define extract st) (fun _ _ => True) := by
  unfold parse
  split
  · apply Post'_bind _ _ _ (Q := fun _ s => StOk T s)
    · exact Post'_modify _ _ _ (initExtractions_StOk hw st extract hs)
    intro _ s1 hs1
    apply Post'_bind _ _ _ (Q := fun _ s => StOk T s)
    · exact Post'_modify _ _ _ (StOk_congr hs1 rfl rfl rfl)
    intro _ s2 hs2
    apply Post'_bind _ _ _ (Q := fun _ s => StOk T s)
    · split
      · exact Post'_pure _ _ _ hs2
      · apply Post'_bind _ _ _ (Q := fun _ s => StOk T s)
        · exact Post'_mono _ _ _ (A.work define s2 hs2) (fun a s h => h.1.1)
        · intro t s h; exact Post'_pure _ _ _ h
    intro main0 s3 hs3
    apply Post'_bind _ _ _ (Q := fun _ s => StOk T s)
    · exact Post'_modify _ _ _ (StOk_congr hs3 rfl rfl rfl)
    intro _ s4 hs4
    apply Post'_bind _ _ _ (Q := fun _ s => StOk T s)
    · exact Post'_mono _ _ _ (A.work latex s4 hs4) (fun a s h => h.1.1)
    intro body s5 hs5
    apply Post'_bind _ _ _ (Q := fun _ s => StOk T s)
    · exact Post'_get _ _ hs5
    intro st6 s6 hs6
    exact Post'_pure _ _ _ trivial
  · have hs1 := hs
    apply Post'_bind _ _ _ (Q := fun _ s => StOk T s)
    · exact Post'_modify _ _ _ (StOk_congr hs1 rfl rfl rfl)
    intro _ s2 hs2
    apply Post'_bind _ _ _ (Q := fun _ s => StOk T s)
    · split
      · exact Post'_pure _ _ _ hs2
      · apply Post'_bind _ _ _ (Q := fun _ s => StOk T s)
        · exact Post'_mono _ _ _ (A.work define s2 hs2) (fun a s h => h.1.1)
        · intro t s h; exact Post'_pure _ _ _ h
    intro main0 s3 hs3
    apply Post'_bind _ _ _ (Q := fun _ s => StOk T s)
    · exact Post'_modify _ _ _ (StOk_congr hs3 rfl rfl rfl)
    intro _ s4 hs4
    apply Post'_bind _ _ _ (Q := fun _ s => StOk T s)
    · exact Post'_mono _ _ _ (A.work latex s4 hs4) (fun a s h => h.1.1)
    intro body s5 hs5
    apply Post'_bind _ _ _ (Q := fun _ s => StOk T s)
    · exact Post'_get _ _ hs5
    intro st6 s6 hs6
    exact Post'_pure _ _ _ trivial

/-- the filter model never raises at `cap_first`, given the bundle -/
theorem tex2txt_noCapFirst (hne : tblOkB T = true) (hw : T.WFInv) (H : ∀ fuel, AllSpecs T fuel)
    (fuel : Nat) (latex : Str) (o : Options) (multi : Bool) (thresh : Nat) (fs : FS) :
    tex2txt T fuel latex o multi thresh fs ≠ .crash site := by
  have hrun : Post' ((initParser T fuel o >>= fun _ => parse T fuel latex o.defs
      (if o.extr.isEmpty then [] else (splitOn ',' o.extr []).map (fun s => '\\' :: s)))
        (initialState T o multi fs)) (fun _ _ => True) := by
    apply Post'_bind _ _ _ (Q := fun _ s => StOk T s)
    · exact initParser_StOk hne fuel (H fuel) o _ (initialState_StOk o multi fs)
    · intro _ s hs
      exact parse_noCrash hw fuel (H fuel) latex o.defs _ s hs
  unfold tex2txt
  dsimp only
  revert hrun
  generalize ((initParser T fuel o >>= fun _ => parse T fuel latex o.defs
    (if o.extr.isEmpty then [] else (splitOn ',' o.extr []).map (fun s => '\\' :: s)))
      (initialState T o multi fs)) = out
  intro hrun
  rcases out with ⟨toks, st⟩ | m | c | _
  · dsimp only
    cases multi with
    | false => simp
    | true =>
      simp only [Bool.not_true, Bool.false_eq_true, if_false]
      split
      · intro h; injection h with h; revert h; decide
      · intro h; cases h
  · intro h; cases h
  · intro h
    injection h with h
    exact hrun h
  · intro h; cases h

end NoEmpty
end Yalafi
