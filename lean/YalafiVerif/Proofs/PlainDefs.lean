/-
  Proofs/PlainDefs.lean — C09, last sentence: "the text extracted from the rest of the document is the
  same, with positions shifted by a constant, whether the definitions stand in the document or in the
  file given with --defs": the `--defs` route, end to end on the model, for the document class of
  Proofs/PlainMacroArgs.lean (inert text, definitions `\newcommand{\name}[n]{body}`, uses
  `\name{a1}…{am}`).  (The comparison with the in-document run is Proofs/PlainDefsCmp.lean.)

  What `Parser.parse` does with a definitions text `D` (model: `parse` in Model/Tex2txt.lean): it runs
  `parser_work` on `D`, keeps of the resulting tokens only the language tokens (`filter_set_toks(…, 0,
  True)`), and then runs `parser_work` on the document `X` IN THE STATE THE FIRST RUN LEFT BEHIND.  For
  a `D` of our class the first run leaves no language token, so nothing of `D` reaches the output; the
  state differs from the initialised state `st1` in the macro table (the definitions of `D`) and in the
  list of unknowns (names used in `D` before their definition; `parse` clears that list BEFORE the
  definitions are read, not after).

  Structure
    `envAfter`, `itemsEnv`      the definitions in force behind a document / behind a list of items
    `link_final`                the state after the pieces agrees with that environment (`StOk`, `Rel`)
    `parserWork_macro_env`      `parserWork` on a well-formed source, started in ANY state `st` that agrees
                                with an environment `env` (generalises `PlainMacroArgs.parserWork_macro`,
                                which is the case `st = st1`, `env = []`); also: the result holds no
                                language token, and the final state agrees with `itemsEnv env items`
    `parse_defs`, `tex2txt_defs_src`, `tex2txt_defs_route`   the lifts
    `segMarks_append`, `segUnknowns_append`, … the reference functions on `D ++ X`

  The end-to-end statement (`tex2txt_defs_route`): for `D X : List Seg`, `o.defs = render D`,
  `tex2txt T fuel (render X) o …` succeeds and
    text / 1-based positions  = `delLines (segMarks (envAfter [] D) 0 X)`: the output of the document `X`
                                read with the definitions of `D` in force, positions counted in `X`;
    unknowns                  = `(segUnknowns [] (D ++ X)).eraseDups`: exactly those of the run on `D ++ X`;
    diagnostics               = those of the initialisation.
  `D` may be ANY document of the class (text and uses in `D` are expanded and thrown away); the empty `D`
  is included (then `--defs` is absent).

  Side conditions (`DefsOk T st1 D X`, decidable): `noEmptyActive`, `ncOk` (see PlainMacroArgs);
  `segsOk T st1 D` (with NOTHING behind `D`) and `segsOk T st1 X`; `arityOk [] D` and
  `arityOk (envAfter [] D) X`; options: no --extr, --repl, --unkn, single-language mode;
  fuel: `|render D| + segInserted [] 0 D + 6 ≤ fuel` and `|render X| + segInserted (envAfter [] D) 0 X + 6 ≤ fuel`
  (the two `parser_work` runs use the same budget one after the other).

  NOT covered: everything PlainMacroArgs does not cover (optional first parameter, `\renewcommand`, `\def`,
  nested uses, …); definitions read with `\LTinput`; `--defs` together with `--extr`; multi-language mode
  (there the language tokens of `D` matter).
-/
import YalafiVerif.Proofs.PlainMacroArgs
import YalafiVerif.Proofs.Lines
namespace Yalafi
namespace PlainMacroArgs

open M
open PlainMacro (lbr rbr NoBrace restamp ncName braceAt Shape bodyTxt Mark tokChars tokMarks marksOf charsOf
  delLines NcOk ncOk NcOk_of_ncOk NameOk)

/-! ### the definitions in force behind a document -/

/-- the environment behind the segments (latest definition first) -/
def envAfter : Env → List Seg → Env
  | env, [] => env
  | env, .txt _ :: rest => envAfter env rest
  | env, .defn name n body :: rest => envAfter ((name, n, body) :: env) rest
  | env, .use _ _ :: rest => envAfter env rest

def itemsEnv : Env → List Item → Env
  | env, [] => env
  | env, .chr _ _ :: rest => itemsEnv env rest
  | env, .defn _ name n body :: rest => itemsEnv ((name, n, body) :: env) rest
  | env, .use _ _ _ :: rest => itemsEnv env rest

theorem itemsEnv_chrItems (env : Env) (items : List Item) : ∀ (s : Str) (p : Nat),
    itemsEnv env (chrItems p s ++ items) = itemsEnv env items
  | [], _ => rfl
  | c :: cs, p => by
    simp only [chrItems, List.cons_append, itemsEnv, itemsEnv_chrItems env items cs (p + 1)]

theorem itemsEnv_itemsOf : ∀ (segs : List Seg) (env : Env) (p : Nat),
    itemsEnv env (itemsOf p segs) = envAfter env segs
  | [], _, _ => rfl
  | .txt s :: rest, env, p => by
    simp only [itemsOf, envAfter, itemsEnv_chrItems, itemsEnv_itemsOf rest]
  | .defn name n body :: rest, env, p => by
    simp only [itemsOf, envAfter, itemsEnv, itemsEnv_itemsOf rest]
  | .use name args :: rest, env, p => by
    simp only [itemsOf, envAfter, itemsEnv, itemsEnv_itemsOf rest]

/-! ### the state after the pieces -/

theorem StOk.congr {T : PTables} {st1 st st' : PState} (h : StOk T st1 st)
    (hl : st'.langStack = st.langStack) (hi : st'.newcommandIgnore = st.newcommandIgnore)
    (hm : st'.macros = st.macros) : StOk T st1 st' := by
  have hlk : ∀ nm, lookupMacro st' nm = lookupMacro st nm := fun nm => by simp [lookupMacro, hm]
  exact ⟨hl.trans h.lang, hi.trans h.ign, fun nm m hd => by rw [hlk]; exact h.decl nm m hd,
    fun nm m h1 h2 => by rw [hlk] at h2; exact h.user nm m h1 h2⟩

theorem Rel.congr {st1 st st' : PState} {env : Env} (h : Rel st1 st env) (hm : st'.macros = st.macros) :
    Rel st1 st' env := by
  have hlk : ∀ nm, lookupMacro st' nm = lookupMacro st nm := fun nm => by simp [lookupMacro, hm]
  intro name hn
  have := h name hn
  simp only [hlk]
  exact this

/-- the state after the pieces agrees with the environment after the items -/
theorem link_final (T : PTables) (st1 : PState) {ps : List Piece} {items : List Item} (hl : Link ps items) :
    PiecesOk T st1 ps → ∀ (st : PState) (env : Env), StOk T st1 st → Rel st1 st env →
    StOk T st1 (finalSt st ps) ∧ Rel st1 (finalSt st ps) (itemsEnv env items) := by
  induction hl with
  | nil => intro _ st env h1 h2; exact ⟨h1, h2⟩
  | tok t ps items hfix hshape _ ih =>
    intro hok st env hst hrel
    obtain ⟨_, _, hrest⟩ := hok
    rw [itemsEnv_chrItems]
    exact ih hrest st env hst hrel
  | defn p q1 q2 q3 q4 q5 q6 q7 q8 name n body btoks ps items hb _ ih =>
    intro hok st env hst hrel
    obtain ⟨hn, _, hgb, hrest⟩ := hok
    exact ih hrest (defSt st name n btoks) ((name, n, body) :: env) (hst.defSt name n btoks hn hgb)
      (hrel.defSt name n body btoks hb)
  | use p name args gs ps items hne hgl _ ih =>
    intro hok st env hst hrel
    obtain ⟨_, _, _, hrest⟩ := hok
    exact ih hrest (useSt st name) env (hst.useSt name) (hrel.useSt name)

/-! ### `parserWork` started in a state that agrees with an environment -/

/-- **`parserWork` on a well-formed source, in any state that agrees with `env`.**  `st1` is the
    initialised state (to which the side conditions refer), `st` the current one.  The characters of
    the result are the reference output for the environment `env`; the result holds no language
    token; the state changes in the macro table and the list of unknowns and agrees with the
    environment behind the source. -/
theorem parserWork_macro_env (T : PTables) (st1 st : PState) (env : Env) (src : Str) (fuel : Nat)
    (items : List Item)
    (hf : src.length + refInserted env items + 6 ≤ fuel) (ha : noEmptyActive T st1 = true)
    (hnc : NcOk st1) (h : OkSrc T st1 0 src items) (har : refArity env items = true)
    (hst : StOk T st1 st) (hrel : Rel st1 st env) :
    ∃ r macros', parserWork T fuel src st
        = .ok (r, { st with macros := macros',
                            unknowns := (refUnknowns env items).foldl addU st.unknowns }) ∧
      charsOf r = delLines (refMarks env items) ∧ r.filter isLang = [] ∧
      StOk T st1 { st with macros := macros',
                           unknowns := (refUnknowns env items).foldl addU st.unknowns } ∧
      Rel st1 { st with macros := macros',
                        unknowns := (refUnknowns env items).foldl addU st.unknowns }
        (itemsEnv env items) := by
  obtain ⟨f, rfl⟩ : ∃ f, fuel = f + 1 := ⟨fuel - 1, by omega⟩
  obtain ⟨hd, ps, hflat, hpok, hlink⟩ := scan_macro T st1 src items h
  have hstok : StOk T st1 { st with latex := src, nest := st.nest + 1 } := StOk.congr hst rfl rfl rfl
  have hrel' : Rel st1 { st with latex := src, nest := st.nest + 1 } env := Rel.congr hrel rfl
  have S := link_sem T st1 hlink hpok { st with latex := src, nest := st.nest + 1 } env hstok hrel' har
  obtain ⟨F1, F2⟩ := link_final T st1 hlink hpok { st with latex := src, nest := st.nest + 1 } env hstok hrel'
  rw [finalSt_eq ps] at F1 F2
  have hlen := OkSrc_len h
  have hs := seq_macro T none st1 hnc ha ps f [] { st with latex := src, nest := st.nest + 1 }
    (by have := S.cost; omega) hpok S.arity hstok
  rw [List.nil_append] at hs
  obtain ⟨r, hr, hchars⟩ := PlainMacro.removeLines_simple _ S.simple
  rw [hr] at hs
  simp only [] at hs
  rw [S.marks] at hchars
  have hlang : r.filter isLang = [] := by
    rw [removeLines_lang _ r (fun t ht hc => by
      rcases hc with hc | hc
      · exact (S.simple t ht).1 hc
      · rw [(S.simple t ht).2.1] at hc; cases hc) hr]
    rw [List.filter_eq_nil_iff]
    intro t ht
    rw [(S.simple t ht).2.1]; simp
  refine ⟨r, (finalSt { st with latex := src, nest := st.nest + 1 } ps).macros, ?_, hchars, hlang,
    StOk.congr F1 rfl rfl rfl, Rel.congr F2 rfl⟩
  rw [parserWork.eq_2]
  refine (M.bind_ok _ _ _ _ _ (rfl : M.get st = _)).trans ?_
  refine (M.bind_ok _ _ _ _ _ (rfl : M.modify _ _ = _)).trans ?_
  refine (M.bind_ok _ _ _ _ _ (rfl : M.modify _ _ = _)).trans ?_
  refine (M.bind_ok _ _ _ _ _ (rfl : M.get _ = _)).trans ?_
  simp only [hd, List.append_nil]
  rw [skipPass_nocomment _ _ _ (fun t ht' => hpok.notComment t (by rw [← hflat]; exact ht'))]
  simp only []
  refine (M.bind_ok _ _ _ _ _ (rfl : (pure _ : M (List Tok)) _ = _)).trans ?_
  rw [hflat]
  refine (M.bind_ok _ _ _ _ _ hs).trans ?_
  refine (M.bind_ok _ _ _ _ _ (rfl : M.modify _ _ = _)).trans ?_
  show Outcome.ok _ = _
  rw [finalSt_eq ps, S.unk]
  simp only [Nat.add_sub_cancel]

/-! ### `parse` with a definitions text -/

theorem filterSetToks_nolang (r : List Tok) (h : r.filter isLang = []) : filterSetToks r 0 true = [] := by
  simp only [filterSetToks, Bool.not_true, Bool.false_or, h, List.map_nil]

theorem OkSrc_nil_items {T : PTables} {st : PState} {p : Nat} {items : List Item}
    (h : OkSrc T st p [] items) : items = [] := by
  cases h; rfl

/-- `parse` with the definitions text `srcD` and the document `srcX` -/
theorem parse_defs (T : PTables) (st : PState) (srcD srcX : Str) (fuel : Nat) (itemsD itemsX : List Item)
    (hfD : srcD.length + refInserted [] itemsD + 6 ≤ fuel)
    (hfX : srcX.length + refInserted (itemsEnv [] itemsD) itemsX + 6 ≤ fuel)
    (ha : noEmptyActive T st = true) (hnc : NcOk st)
    (hD : OkSrc T st 0 srcD itemsD) (hX : OkSrc T st 0 srcX itemsX)
    (harD : refArity [] itemsD = true) (harX : refArity (itemsEnv [] itemsD) itemsX = true) :
    ∃ r macros', parse T fuel srcX srcD [] st
        = .ok (r, { st with extracted := [],
                            unknowns := (refUnknowns [] itemsD
                              ++ refUnknowns (itemsEnv [] itemsD) itemsX).eraseDups,
                            foreign := false, nest := 0, macros := macros' }) ∧
      charsOf r = delLines (refMarks (itemsEnv [] itemsD) itemsX) := by
  cases hDe : srcD with
  | nil =>
    subst hDe
    have := OkSrc_nil_items hD
    subst this
    simp only [itemsEnv, refUnknowns, List.nil_append] at hfX harX ⊢
    exact parse_macro T st srcX fuel itemsX hfX ha hnc hX harX
  | cons c cs =>
    rw [← hDe]
    have hne : srcD.isEmpty = false := by rw [hDe]; rfl
    -- the definitions
    have hst0 : StOk T st { st with extracted := [], unknowns := [] } := StOk.of_eq T rfl rfl rfl
    obtain ⟨rD, mD, hwD, _, hlD, hstD, hrelD⟩ := parserWork_macro_env T st
      { st with extracted := [], unknowns := [] } [] srcD fuel itemsD hfD ha hnc hD harD hst0
      (Rel_init st _ rfl)
    -- the document
    obtain ⟨rX, mX, hwX, hcX, _, _, _⟩ := parserWork_macro_env T st
      { st with extracted := [], unknowns := (refUnknowns [] itemsD).foldl addU [], macros := mD,
                foreign := false, nest := 0 }
      (itemsEnv [] itemsD) srcX fuel itemsX hfX ha hnc hX harX
      (StOk.congr hstD rfl rfl rfl) (Rel.congr hrelD rfl)
    refine ⟨rX, mX, ?_, hcX⟩
    unfold parse
    simp only [List.isEmpty_nil, Bool.not_true, Bool.false_eq_true, if_false, if_true, hne]
    refine (M.bind_ok _ _ _ _ _ (rfl : M.modify _ _ = _)).trans ?_
    refine (M.bind_ok _ _ _ _ _ ((M.bind_ok _ _ _ _ _ hwD).trans
      (rfl : (pure (filterSetToks rD 0 true) : M (List Tok)) _ = _))).trans ?_
    refine (M.bind_ok _ _ _ _ _ (rfl : M.modify _ _ = _)).trans ?_
    refine (M.bind_ok _ _ _ _ _ hwX).trans ?_
    refine (M.bind_ok _ _ _ _ _ (rfl : M.get _ = _)).trans ?_
    show Outcome.ok _ = _
    have hu : List.foldl addU (List.foldl addU [] (refUnknowns [] itemsD))
          (refUnknowns (itemsEnv [] itemsD) itemsX)
        = (refUnknowns [] itemsD ++ refUnknowns (itemsEnv [] itemsD) itemsX).eraseDups := by
      rw [← List.foldl_append, foldl_addU_nil]
    simp [filterSetToks_nolang rD hlD, hu]

/-- the result record of `tex2txt` with `--defs` (no `--extr`, `--repl`, `--unkn`; single-language mode) -/
theorem tex2txt_defs_src (T : PTables) (o : Options) (fs : FS) (thresh : Nat) (srcD srcX : Str) (fuel : Nat)
    (st1 : PState) (itemsD itemsX : List Item)
    (hdefs : o.defs = srcD) (hextr : o.extr = []) (hrepl : o.hasRepl = false) (hunkn : o.unkn = false)
    (hinit : initParser T fuel o (initialState T o false fs) = .ok ((), st1))
    (ha : noEmptyActive T st1 = true) (hnc : NcOk st1)
    (hD : OkSrc T st1 0 srcD itemsD) (hX : OkSrc T st1 0 srcX itemsX)
    (harD : refArity [] itemsD = true) (harX : refArity (itemsEnv [] itemsD) itemsX = true)
    (hfD : srcD.length + refInserted [] itemsD + 6 ≤ fuel)
    (hfX : srcX.length + refInserted (itemsEnv [] itemsD) itemsX + 6 ≤ fuel) :
    ∃ toks, tex2txt T fuel srcX o false thresh fs
        = .ok { toks := toks, txt := (delLines (refMarks (itemsEnv [] itemsD) itemsX)).map (·.1),
                pos := (delLines (refMarks (itemsEnv [] itemsD) itemsX)).map (·.2 + 1), parts := [],
                unknowns := (refUnknowns [] itemsD ++ refUnknowns (itemsEnv [] itemsD) itemsX).eraseDups,
                diags := st1.diags, foreign := false } := by
  obtain ⟨r, macros', hp, hc⟩ := parse_defs T st1 srcD srcX fuel itemsD itemsX hfD hfX ha hnc hD hX harD harX
  refine ⟨r, ?_⟩
  have hrun : (initParser T fuel o >>= fun _ => parse T fuel srcX o.defs
        (if o.extr.isEmpty then [] else (splitOn ',' o.extr []).map (fun s => '\\' :: s)))
        (initialState T o false fs)
      = .ok (r, { st1 with extracted := [],
                           unknowns := (refUnknowns [] itemsD
                             ++ refUnknowns (itemsEnv [] itemsD) itemsX).eraseDups,
                           foreign := false, nest := 0, macros := macros' }) := by
    refine (M.bind_ok _ _ _ _ _ hinit).trans ?_
    rw [hdefs, hextr]
    exact hp
  unfold tex2txt
  simp only []
  rw [hrun]
  simp only [hrepl, hunkn, Bool.not_false, if_true, Bool.false_eq_true, if_false,
    PlainMacro.getTxtPos_charsOf, hc, List.map_map]
  rfl

/-! ### the reference functions on `D ++ X` -/

theorem render_append : ∀ (A B : List Seg), render (A ++ B) = render A ++ render B
  | [], _ => rfl
  | s :: A, B => by simp only [List.cons_append, render, render_append A B, List.append_assoc]

theorem render_defn_length (name : Str) (n : Nat) (body : List BP) :
    (Seg.defn name n body).render.length = name.length + (bodyStr body).length + 19 := by
  simp only [Seg.render, List.length_cons, List.length_append, PlainMacro.ncName_eq, List.length_nil]
  simp; omega

theorem render_use_length (name : Str) (args : List Str) :
    (Seg.use name args).render.length = name.length + 1 + argsLen args := by
  simp only [Seg.render, List.length_cons, List.length_append, argsStr_length]; omega

theorem segMarks_append : ∀ (A B : List Seg) (env : Env) (p : Nat),
    segMarks env p (A ++ B) = segMarks env p A ++ segMarks (envAfter env A) (p + (render A).length) B
  | [], _, _, _ => by simp [segMarks, envAfter, render]
  | .txt s :: A, B, env, p => by
    simp only [List.cons_append, segMarks, envAfter, render, Seg.render, List.length_append,
      segMarks_append A B, List.append_assoc, Nat.add_assoc]
  | .defn name n body :: A, B, env, p => by
    have := render_defn_length name n body
    simp only [List.cons_append, segMarks, envAfter, render, List.length_append, this,
      segMarks_append A B, Nat.add_assoc]
  | .use name args :: A, B, env, p => by
    have := render_use_length name args
    simp only [List.cons_append, segMarks, envAfter, render, List.length_append, this,
      segMarks_append A B, List.append_assoc, Nat.add_assoc]

theorem segUnknowns_append : ∀ (A B : List Seg) (env : Env),
    segUnknowns env (A ++ B) = segUnknowns env A ++ segUnknowns (envAfter env A) B
  | [], _, _ => rfl
  | .txt s :: A, B, env => by simp only [List.cons_append, segUnknowns, envAfter, segUnknowns_append A B]
  | .defn name n body :: A, B, env => by
    simp only [List.cons_append, segUnknowns, envAfter, segUnknowns_append A B]
  | .use name args :: A, B, env => by
    simp only [List.cons_append, segUnknowns, envAfter, segUnknowns_append A B, List.append_assoc]

theorem arityOk_append : ∀ (A B : List Seg) (env : Env),
    arityOk env (A ++ B) = (arityOk env A && arityOk (envAfter env A) B)
  | [], _, _ => by simp [arityOk, envAfter]
  | .txt s :: A, B, env => by simp only [List.cons_append, arityOk, envAfter, arityOk_append A B]
  | .defn name n body :: A, B, env => by
    simp only [List.cons_append, arityOk, envAfter, arityOk_append A B]
  | .use name args :: A, B, env => by
    simp only [List.cons_append, arityOk, envAfter, arityOk_append A B, Bool.and_assoc]

theorem segInserted_append : ∀ (A B : List Seg) (env : Env) (p : Nat),
    segInserted env p (A ++ B)
      = segInserted env p A + segInserted (envAfter env A) (p + (render A).length) B
  | [], _, _, _ => by simp [segInserted, envAfter, render]
  | .txt s :: A, B, env, p => by
    simp only [List.cons_append, segInserted, envAfter, render, Seg.render, List.length_append,
      segInserted_append A B, Nat.add_assoc]
  | .defn name n body :: A, B, env, p => by
    have := render_defn_length name n body
    simp only [List.cons_append, segInserted, envAfter, render, List.length_append, this,
      segInserted_append A B, Nat.add_assoc]
  | .use name args :: A, B, env, p => by
    have := render_use_length name args
    simp only [List.cons_append, segInserted, envAfter, render, List.length_append, this,
      segInserted_append A B, Nat.add_assoc]

/-! ### the end-to-end theorem -/

/-- all side conditions on the tables, the initialised parser state, the definitions text `D` and the
    document `X` -/
def DefsOk (T : PTables) (st : PState) (D X : List Seg) : Prop :=
  noEmptyActive T st = true ∧ ncOk st = true ∧ segsOk T st D = true ∧ segsOk T st X = true ∧
  arityOk [] D = true ∧ arityOk (envAfter [] D) X = true

instance (T : PTables) (st : PState) (D X : List Seg) : Decidable (DefsOk T st D X) := by
  unfold DefsOk; infer_instance

/-- **C09, the `--defs` route.**  The document `X` is read with the definitions of the text `D` given
    as `--defs` in force; nothing of `D` reaches the output; positions are those in `X`. -/
theorem tex2txt_defs_route (T : PTables) (o : Options) (fs : FS) (thresh : Nat) (D X : List Seg)
    (fuel : Nat) (st1 : PState)
    (hdefs : o.defs = render D) (hextr : o.extr = []) (hrepl : o.hasRepl = false) (hunkn : o.unkn = false)
    (hinit : initParser T fuel o (initialState T o false fs) = .ok ((), st1))
    (hok : DefsOk T st1 D X)
    (hfD : (render D).length + segInserted [] 0 D + 6 ≤ fuel)
    (hfX : (render X).length + segInserted (envAfter [] D) 0 X + 6 ≤ fuel) :
    ∃ r, tex2txt T fuel (render X) o false thresh fs = .ok r ∧
      r.txt = (delLines (segMarks (envAfter [] D) 0 X)).map (·.1) ∧
      r.pos = (delLines (segMarks (envAfter [] D) 0 X)).map (·.2 + 1) ∧
      r.unknowns = (segUnknowns [] (D ++ X)).eraseDups ∧
      r.diags = st1.diags ∧ r.parts = [] := by
  obtain ⟨ha, hnc, hsD, hsX, harD, harX⟩ := hok
  have hD := OkSrc_of_segsOk T st1 D 0 hsD
  have hX := OkSrc_of_segsOk T st1 X 0 hsX
  obtain ⟨toks, ht⟩ := tex2txt_defs_src T o fs thresh (render D) (render X) fuel st1 _ _ hdefs hextr hrepl
    hunkn hinit ha (NcOk_of_ncOk hnc) hD hX (by rw [refArity_itemsOf]; exact harD)
    (by rw [itemsEnv_itemsOf, refArity_itemsOf]; exact harX)
    (by rw [refInserted_itemsOf]; exact hfD)
    (by rw [itemsEnv_itemsOf, refInserted_itemsOf]; exact hfX)
  rw [itemsEnv_itemsOf, refMarks_itemsOf, refUnknowns_itemsOf, refUnknowns_itemsOf,
    ← segUnknowns_append] at ht
  exact ⟨_, ht, rfl, rfl, rfl, rfl, rfl⟩

end PlainMacroArgs
end Yalafi
