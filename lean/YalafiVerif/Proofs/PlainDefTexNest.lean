/-
  Proofs/PlainDefTexNest.lean — C09 "nested uses expand fully" and "arguments braced or single-token", end
  to end on the model: documents of inert text, definitions `\newcommand{\name}[n]{body}` and
  `\def\name#1…#n{body}` whose bodies may CALL other user macros, and uses `\name` followed by braced
  or unbraced single-character arguments.  (Expander level: Proofs/PlainDefTexNestExp.lean.)

  Documents
    `NP`                       a piece of a body: `lit s` (literal inert text) | `par k` (`#k`) | `cs name`
                               (the macro name `\name`) | `lb` (`{`) | `rb` (`}`); a call `\m{…}{…}` inside
                               a body is `cs m, lb, …, rb, lb, …, rb`; groups nest; arbitrary depth
    `Arg`                      an argument of a use in the document: `br sp s` (white space `sp`, then `{s}`)
                               | `tk sp c` (white space `sp`, then the ONE character `c`)
    `Seg`, `render`            text | `.defn name n body ↦ \newcommand{\name}[n]{body}` |
                               `.ddef name n body ↦ \def\name#1…#n{body}` | `.use name args ↦ \name` + arguments
    `segsOk`, `SegsOk`         the side conditions (computable)
  Reference output (the machine of PlainDefTexNestExp.lean)
    `usePE p name args`        the positioned elements of a use: the name at `p`; per argument the white
                               space (`sp`), then a brace, the argument text with its own positions, a brace
                               — or the one character (`chr`)
    `evalPE env F`             evaluation with fuel `F` (one unit per element): text ↦ its characters; an
                               Action mark / a brace ↦ a mark; a name ↦ a mark and the INSTANTIATED BODY
                               (`inst`) of the definition in force AT THE USE (TeX's dynamic binding), put
                               in front of the remaining elements and evaluated in turn — "nested uses
                               expand fully".  Arguments (`takeGroups`, `takeArg`, `dropSp`): white space of
                               the document in front is skipped; then a non-empty brace group or one character
    `inst vals body cur`       literal text, names and braces of the body pinned to `cur`; `#k` ↦ Action
                               mark, the k-th value, Action mark, and `cur` moves to the end of that value;
                               `cur` starts (`instCur`) at the front of the value referenced LAST in the body,
                               at the position of the call if the body has no `#k`
    `segMarks F`, `segUnknowns`
  The end-to-end statement (`tex2txt_nested`).  If `segMarks F [] 0 segs = some marks` for some fuel `F`
  (the machine terminates and stays inside the covered class) then `tex2txt` succeeds, text and 1-based
  positions are `delLines marks`; no diagnostic; unknowns = names used at top level while undefined.
  Consequences one reads off `inst` / `evalPE`: characters of an argument of the document keep their own
  source positions however deep they are handed down, also when duplicated; every literal character of
  every body involved is pinned to a position INSIDE the outermost call (the start of an argument, the
  last token of an argument, or the backslash of the use).

  Side conditions (`SegsOk T st1 segs`, decidable)
    `noEmptyActive`, `ncOk`, text (`textOk`): as in Proofs/PlainMacroArgs.lean
    definitions (`defOkN`, `ddefOkN`)   as `PlainMacroArgs.defOk` / `PlainDefTex.ddefOk`, the body: not empty;
                               braces balanced (the definition is collected as one group); `lit s`: not
                               empty, inert characters, not followed by another `lit` (write one); `par k`:
                               `1 ≤ k ≤ n`, the digit has the value `k`; `cs name`: a control word in its right
                               context (`cwOk`: letters, not continued by the text behind it, not declared in
                               `st1`, not `\def` `\begin` `\end` `\item` `\verb`, no accent); `lb`/`rb`:
                               scanned as braces
    uses (`useOkB`)            the name as in `PlainMacroArgs.useOk`; at least one argument; white space `sp`:
                               white-space characters, at most one line break, not active; `br`: braces scanned
                               as such, `s` non-empty inert; `tk`: `c` no white space, no structural character,
                               no special sequence matches at it (`txtAt`), not active
    the machine succeeds       `segMarks F [] 0 segs = some marks`: at every call (top level or nested)
                               the name is defined with a non-empty body; behind the name (and white space
                               OF THE DOCUMENT) comes an Action mark, a name, a brace or a character of the
                               document (`noSkip`: the model skips white space behind a name also when it is
                               literal text of a body, and beyond the end of the expansion into the text
                               that follows the use — not covered); the `n` arguments are there (a group or
                               a character of the document each; inside bodies only groups); no group is
                               empty; the evaluation ends within `F` steps (a recursive definition never
                               does).  At top level a use of an undefined name is covered (mark, white space
                               skipped, the rest copied, name listed); inside a body it is not.
    fuel                       `2 * marks.length + 6 ≤ fuel`

  NOT covered: unbraced arguments INSIDE bodies (`\i x` in a body; the tokenisation of literal text is not
  tracked), unbraced arguments that are not one plain character (a special sequence such as `--`, a
  macro name, a paragraph break), `\newcommand` / `\def` inside a body, optional arguments, empty groups,
  uses of undefined names inside bodies, calls whose arguments are completed by text that follows the
  use in the document, parameterless macros directly followed by text (`\i.`).
-/
import YalafiVerif.Proofs.PlainDefTexNestExp
import YalafiVerif.Proofs.PlainDefTex
namespace Yalafi
namespace PlainDefTexNest

open M
open PlainMacro (lbr rbr NoBrace restamp ncName braceAt Shape bodyTxt Mark tokChars tokMarks marksOf charsOf
  delLines hasNl_single inertChar_facts takeWhile_append_stop1 nextToken_brace scanSteps_step nextToken_nc
  ncName_eq NcOk ncOk NcOk_of_ncOk NameOk nameOk_of_cwFacts plainTok_argRef)
open PlainMacroArgs (digitChar txtAt RunFacts scanSteps_run argTok nextToken_arg bodyTxt_of_chars
  nextToken_txt txtAt_structural digit_ne_rbr DigitOk RefsOk userMacro txtTok ArgFacts argFacts_of_run)
open PlainDefTex (paramStr paramStr_length paramToks paramToks_length defName defName_eq nextToken_def
  scanSteps_params paramsOk paramsOk_facts paramToks_notComment)

/-! ### the documents -/

/-- an argument of a use, possibly behind white space `sp`: a brace group `{s}`, or ONE visible
    character `c` (an unbraced single-token argument) -/
inductive Arg where
  | br (sp : Str) (s : Str)
  | tk (sp : Str) (c : Char)
deriving Repr, DecidableEq

/-- a segment of the source -/
inductive Seg where
  | txt (s : Str)
  | defn (name : Str) (n : Nat) (body : List NP)
  | ddef (name : Str) (n : Nat) (body : List NP)
  | use (name : Str) (args : List Arg)
deriving Repr, DecidableEq

def NP.render : NP → Str
  | .lit s => s
  | .par k => ['#', digitChar k]
  | .cs name => '\\' :: name
  | .lb => ['{']
  | .rb => ['}']

def bodyStrN : List NP → Str
  | [] => []
  | b :: bs => b.render ++ bodyStrN bs

def Arg.render : Arg → Str
  | .br sp s => sp ++ '{' :: (s ++ ['}'])
  | .tk sp c => sp ++ [c]

def argsStrB : List Arg → Str
  | [] => []
  | a :: as => a.render ++ argsStrB as

def Arg.len : Arg → Nat
  | .br sp s => sp.length + s.length + 2
  | .tk sp _ => sp.length + 1

def argsLenB : List Arg → Nat
  | [] => 0
  | a :: as => a.len + argsLenB as

def Seg.render : Seg → Str
  | .txt s => s
  | .defn name n body =>
    '\\' :: (ncName ++ '{' :: '\\' :: (name ++ '}' :: '[' :: digitChar n :: ']' :: '{' :: (bodyStrN body ++ ['}'])))
  | .ddef name n body =>
    '\\' :: (defName ++ '\\' :: (name ++ (paramStr 1 n ++ '{' :: (bodyStrN body ++ ['}']))))
  | .use name args => '\\' :: (name ++ argsStrB args)

/-- the source text -/
def render : List Seg → Str
  | [] => []
  | s :: rest => s.render ++ render rest

/-! ### the reference output -/

/-- white space of the document at `q` -/
def spPE (q : Nat) (sp : Str) : List PE := if sp.isEmpty then [] else [.sp q sp]

/-- the arguments of a use as positioned elements; `q` = position behind the name:
    white space; a brace, the argument text with its own positions, a brace — or the one character -/
def argsPE : Nat → List Arg → List PE
  | _, [] => []
  | q, .br sp s :: as =>
    spPE q sp ++ .lb (q + sp.length) :: .arg (q + sp.length + 1) s :: .rb (q + sp.length + s.length + 1) ::
      argsPE (q + (sp.length + s.length + 2)) as
  | q, .tk sp c :: as => spPE q sp ++ .chr c (q + sp.length) :: argsPE (q + (sp.length + 1)) as

/-- the use `\name…` at position `p` -/
def usePE (p : Nat) (name : Str) (args : List Arg) : List PE :=
  .cs name p :: argsPE (p + name.length + 1) args

/-- the marks of a use at position `p`: a defined name is evaluated by the machine; an undefined one
    leaves an Action mark, the white space behind it is skipped, what follows is copied -/
def useMarks (F : Nat) (env : EnvN) (p : Nat) (name : Str) (args : List Arg) : Option (List Mark) :=
  if (lookupDefN env name).isNone then
    (evalPE env F (dropSp (argsPE (p + name.length + 1) args))).map (none :: ·)
  else evalPE env F (usePE p name args)

/-- the marks of a document that starts at position `p`, `env` being the definitions in force
    (`none`: some use is outside the covered class, or needs more than `F` steps) -/
def segMarks (F : Nat) : EnvN → Nat → List Seg → Option (List Mark)
  | _, _, [] => some []
  | env, p, .txt s :: rest => (segMarks F env (p + s.length) rest).map ((posText p s).map some ++ ·)
  | env, p, .defn name n body :: rest =>
    (segMarks F ((name, n, body) :: env) (p + (name.length + (bodyStrN body).length + 19)) rest).map (none :: ·)
  | env, p, .ddef name n body :: rest =>
    (segMarks F ((name, n, body) :: env) (p + (name.length + (bodyStrN body).length + 2 * n + 7)) rest).map
      (none :: ·)
  | env, p, .use name args :: rest =>
    match useMarks F env p name args with
    | none => none
    | some m => (segMarks F env (p + (name.length + 1 + argsLenB args)) rest).map (m ++ ·)

/-- the names (with backslash) used at top level while undefined, in order, with repetitions -/
def segUnknowns : EnvN → List Seg → List Str
  | _, [] => []
  | env, .txt _ :: rest => segUnknowns env rest
  | env, .defn name n body :: rest => segUnknowns ((name, n, body) :: env) rest
  | env, .ddef name n body :: rest => segUnknowns ((name, n, body) :: env) rest
  | env, .use name _ :: rest =>
    (if (lookupDefN env name).isNone then [('\\' :: name)] else []) ++ segUnknowns env rest

/-! ### the side conditions -/

def isLit : NP → Bool | .lit _ => true | _ => false

/-- the pieces of a body with `n` parameters, followed by `R` in the source -/
def bodyOkN (T : PTables) (st : PState) (n : Nat) : List NP → Str → Bool
  | [], _ => true
  | .lit s :: r, R =>
    !s.isEmpty && s.all (inertChar T st) && !(r.head?.any isLit) && bodyOkN T st n r R
  | .par k :: r, R =>
    decide (1 ≤ k) && decide (k ≤ n) && decimalValue T.toTables.decimalZeros (digitChar k) == some k &&
    bodyOkN T st n r R
  | .cs name :: r, R => cwOk T st name (bodyStrN r ++ R) && bodyOkN T st n r R
  | .lb :: r, R => braceAt T '{' (bodyStrN r ++ R) && bodyOkN T st n r R
  | .rb :: r, R => braceAt T '}' (bodyStrN r ++ R) && bodyOkN T st n r R

/-- `\newcommand{\name}[n]{body}`, followed by `R` (`PlainMacroArgs.defOk` with the nested body) -/
def defOkN (T : PTables) (st : PState) (name : Str) (n : Nat) (body : List NP) (R : Str) : Bool :=
  (matchSpecial T.toTables
    ('\\' :: (ncName ++ '{' :: '\\' :: (name ++ '}' :: '[' :: digitChar n :: ']' :: '{' ::
      (bodyStrN body ++ '}' :: R))))).isNone &&
  !T.toTables.isAccent ('\\' :: ncName) &&
  braceAt T '{' ('\\' :: (name ++ '}' :: '[' :: digitChar n :: ']' :: '{' :: (bodyStrN body ++ '}' :: R))) &&
  cwOk T st name ('}' :: '[' :: digitChar n :: ']' :: '{' :: (bodyStrN body ++ '}' :: R)) &&
  !st.newcommandIgnore.contains ('\\' :: name) &&
  braceAt T '}' ('[' :: digitChar n :: ']' :: '{' :: (bodyStrN body ++ '}' :: R)) &&
  txtAt T '[' (digitChar n :: ']' :: '{' :: (bodyStrN body ++ '}' :: R)) &&
  txtAt T (digitChar n) (']' :: '{' :: (bodyStrN body ++ '}' :: R)) &&
  txtAt T ']' ('{' :: (bodyStrN body ++ '}' :: R)) &&
  decide (n ≤ 9) && decimalValue T.toTables.decimalZeros (digitChar n) == some n &&
  !(activeChars T st).contains [digitChar n] &&
  braceAt T '{' (bodyStrN body ++ '}' :: R) &&
  !body.isEmpty && bodyOkN T st n body ('}' :: R) && balNP 0 body &&
  braceAt T '}' R

/-- `\def\name#1…#n{body}`, followed by `R` (`PlainDefTex.ddefOk` with the nested body) -/
def ddefOkN (T : PTables) (st : PState) (name : Str) (n : Nat) (body : List NP) (R : Str) : Bool :=
  (matchSpecial T.toTables
    ('\\' :: (defName ++ '\\' :: (name ++ (paramStr 1 n ++ '{' :: (bodyStrN body ++ '}' :: R)))))).isNone &&
  !T.toTables.isAccent ('\\' :: defName) &&
  cwOk T st name (paramStr 1 n ++ '{' :: (bodyStrN body ++ '}' :: R)) &&
  !st.newcommandIgnore.contains ('\\' :: name) &&
  paramsOk T 1 n &&
  braceAt T '{' (bodyStrN body ++ '}' :: R) &&
  !body.isEmpty && bodyOkN T st n body ('}' :: R) && balNP 0 body &&
  braceAt T '}' R

/-- white space in front of an argument: white-space characters, at most one line break (two make a
    paragraph token: an empty argument for the model), no active character -/
def spOk (T : PTables) (st : PState) (sp : Str) : Bool :=
  sp.all isSpace && decide (countNl sp < 2) && sp.all (fun c => !(activeChars T st).contains [c])

/-- the arguments of a use, followed by `R`:
    * `br sp s`: the braces are scanned as such, `s` is a non-empty string of inert characters;
    * `tk sp c`: `c` is no white space, no structural character (`% # \ $ { }` …), no special sequence
      of the tables matches at it (a sequence such as `--` would be ONE token: the model hands all of
      it to the macro), it is no active character -/
def argsOkB (T : PTables) (st : PState) : List Arg → Str → Bool
  | [], _ => true
  | .br sp s :: as, R =>
    spOk T st sp && braceAt T '{' (s ++ '}' :: (argsStrB as ++ R)) && !s.isEmpty && s.all (inertChar T st) &&
    braceAt T '}' (argsStrB as ++ R) && argsOkB T st as R
  | .tk sp c :: as, R =>
    spOk T st sp && txtAt T c (argsStrB as ++ R) && !(activeChars T st).contains [c] && argsOkB T st as R

/-- `\name…`, followed by `R`: a control word (`cwOk`), not protected; at least one argument -/
def useOkB (T : PTables) (st : PState) (name : Str) (args : List Arg) (R : Str) : Bool :=
  cwOk T st name (argsStrB args ++ R) && !st.newcommandIgnore.contains ('\\' :: name) &&
  !args.isEmpty && argsOkB T st args R

/-- well-formed documents: every segment is fine in front of the rendering of the following ones -/
def segsOk (T : PTables) (st : PState) : List Seg → Bool
  | [] => true
  | .txt s :: rest => textOk T st s (render rest) && segsOk T st rest
  | .defn name n body :: rest => defOkN T st name n body (render rest) && segsOk T st rest
  | .ddef name n body :: rest => ddefOkN T st name n body (render rest) && segsOk T st rest
  | .use name args :: rest => useOkB T st name args (render rest) && segsOk T st rest

/-! ### the scanner on a body -/

/-- what the scanner loop yields on a body -/
structure BodyRunN (T : PTables) (st : PState) (n : Nat) (body : List NP) (steps : List ScanStep) : Prop where
  ok : ∀ x ∈ steps, x.diag = none ∧ x.extra = []
  link : BodyTR T st (steps.map (·.tok)) body
  refs : RefsOk n (steps.map (·.tok))
  len : steps.length ≤ (bodyStrN body).length
  ne : body ≠ [] → steps ≠ []

theorem body_head (r : List NP) (R : Str) (h : r.head?.any isLit = false) :
    ∃ x R', bodyStrN r ++ '}' :: R = x :: R' ∧ isSpace x = false := by
  cases r with
  | nil => exact ⟨'}', R, rfl, by decide⟩
  | cons e r =>
    cases e with
    | lit s => simp [isLit] at h
    | par k => exact ⟨'#', _, rfl, by decide⟩
    | cs name => exact ⟨'\\', _, rfl, by decide⟩
    | lb => exact ⟨'{', _, rfl, by decide⟩
    | rb => exact ⟨'}', _, rfl, by decide⟩

theorem refsOk_nil (n : Nat) : RefsOk n [] := fun _ h => by simp at h

theorem refsOk_cons_none {n : Nat} {t : Tok} {b : List Tok} (ht : argRef t = none) (h : RefsOk n b) :
    RefsOk n (t :: b) := by
  intro x hx k hk
  rcases List.mem_cons.mp hx with rfl | hx
  · rw [ht] at hk; cases hk
  · exact h x hx k hk

theorem refsOk_append_plain {n : Nat} {ts b : List Tok} (hp : ∀ t ∈ ts, PlainTok t) (h : RefsOk n b) :
    RefsOk n (ts ++ b) := by
  intro x hx k hk
  rcases List.mem_append.mp hx with hx | hx
  · rw [plainTok_argRef (hp x hx)] at hk; cases hk
  · exact h x hx k hk

theorem len_par (k : Nat) (r : List NP) : (bodyStrN (.par k :: r)).length = (bodyStrN r).length + 2 := by
  simp [bodyStrN, NP.render]
theorem len_cs (name : Str) (r : List NP) :
    (bodyStrN (.cs name :: r)).length = (bodyStrN r).length + (name.length + 1) := by
  simp [bodyStrN, NP.render]; omega
theorem len_lb (r : List NP) : (bodyStrN (.lb :: r)).length = (bodyStrN r).length + 1 := by
  simp [bodyStrN, NP.render]
theorem len_rb (r : List NP) : (bodyStrN (.rb :: r)).length = (bodyStrN r).length + 1 := by
  simp [bodyStrN, NP.render]

/-- the scanner loop on a body in front of `}` -/
theorem scanSteps_bodyN (T : PTables) (st : PState) (src : Str) (n : Nat) (R : Str) :
    ∀ (body : List NP) (pos fuel : Nat), (bodyStrN body).length ≤ fuel →
      bodyOkN T st n body ('}' :: R) = true →
      ∃ steps, BodyRunN T st n body steps ∧
        scanSteps T.toTables src fuel pos (bodyStrN body ++ '}' :: R)
          = (steps ++ (scanSteps T.toTables src (fuel - steps.length) (pos + (bodyStrN body).length) ('}' :: R)).1,
             (scanSteps T.toTables src (fuel - steps.length) (pos + (bodyStrN body).length) ('}' :: R)).2)
  | [], pos, fuel, _, _ =>
    ⟨[], ⟨by simp, .nil, refsOk_nil n, by simp, by simp⟩, by simp [bodyStrN]⟩
  | .lit s :: r, pos, fuel, hf, hok => by
    simp only [bodyOkN, Bool.and_eq_true, Bool.not_eq_true', List.all_eq_true] at hok
    obtain ⟨⟨⟨h1, h2⟩, h3⟩, h4⟩ := hok
    have hsne : s ≠ [] := by simpa using h1
    simp only [bodyStrN, NP.render, List.length_append] at hf
    obtain ⟨x, R', hxR, hx⟩ := body_head r R h3
    obtain ⟨ssteps, B, hrun⟩ := scanSteps_run T st src x R' hx s.length s pos fuel (Nat.le_refl _)
      (by omega) h2
    have hBl := B.len
    obtain ⟨rsteps, C, hrest⟩ := scanSteps_bodyN T st src n R r (pos + s.length) (fuel - ssteps.length)
      (by omega) h4
    have hpl : ∀ u ∈ ssteps.map (·.tok), PlainTok u ∧ Shape u ∧ (activeChars T st).contains u.txt = false := by
      intro u hu
      obtain ⟨y, hy, rfl⟩ := List.mem_map.mp hu
      exact ⟨(B.ok y hy).2.2.1, (B.ok y hy).2.2.2.2, (B.ok y hy).2.2.2.1⟩
    refine ⟨ssteps ++ rsteps, ⟨?_, ?_, ?_, ?_, ?_⟩, ?_⟩
    · intro y hy
      rcases List.mem_append.mp hy with hy | hy
      · exact ⟨(B.ok y hy).1, (B.ok y hy).2.1⟩
      · exact C.ok y hy
    · rw [List.map_append]
      exact .lit _ s _ r (by simpa using B.ne hsne) hpl (bodyTxt_of_chars _ _ _ B.chars) C.link
    · rw [List.map_append]
      exact refsOk_append_plain (fun u hu => (hpl u hu).1) C.refs
    · have := C.len
      simp only [List.length_append, bodyStrN, NP.render]; omega
    · intro _
      have := B.ne hsne
      simp [this]
    · simp only [bodyStrN, NP.render, List.append_assoc]
      rw [hxR, hrun, ← hxR, hrest]
      simp only [List.length_append]
      have e1 : fuel - (ssteps.length + rsteps.length) = fuel - ssteps.length - rsteps.length := by omega
      have e2 : pos + s.length + (bodyStrN r).length = pos + (s.length + (bodyStrN r).length) := by omega
      rw [e1, e2]
  | .par k :: r, pos, fuel, hf, hok => by
    simp only [bodyOkN, Bool.and_eq_true, decide_eq_true_eq, beq_iff_eq] at hok
    obtain ⟨⟨⟨k1, k2⟩, k3⟩, h4⟩ := hok
    simp only [bodyStrN, NP.render, List.length_append, List.length_cons, List.length_nil] at hf
    obtain ⟨f, rfl⟩ : ∃ f, fuel = f + 1 := ⟨fuel - 1, by omega⟩
    obtain ⟨rsteps, C, hrest⟩ := scanSteps_bodyN T st src n R r (pos + 2) f (by omega) h4
    refine ⟨{ tok := argTok pos k (digitChar k), len := 2 } :: rsteps, ⟨?_, ?_, ?_, ?_, by simp⟩, ?_⟩
    · intro y hy
      rcases List.mem_cons.mp hy with rfl | hy
      · exact ⟨rfl, rfl⟩
      · exact C.ok y hy
    · exact .par _ k _ r rfl (by constructor <;> simp [txtIsNV, argTok]) C.link
    · intro x hx k' hk'
      simp only [List.map_cons, List.mem_cons] at hx
      rcases hx with rfl | hx
      · cases hk'; exact ⟨k1, k2⟩
      · exact C.refs x hx k' hk'
    · have := C.len
      simp only [List.length_cons, bodyStrN, NP.render, List.length_append, List.length_nil]; omega
    · rw [show bodyStrN (.par k :: r) ++ '}' :: R = '#' :: digitChar k :: (bodyStrN r ++ '}' :: R) by
          simp [bodyStrN, NP.render],
        scanSteps_step T.toTables src f pos '#' _ _
          (nextToken_arg T.toTables src pos (digitChar k) k _ k3) (by simp)]
      simp only [List.drop_succ_cons, List.drop_zero]
      rw [hrest, len_par]
      simp only [List.cons_append, List.length_cons]
      rw [show f + 1 - (rsteps.length + 1) = f - rsteps.length by omega,
        show pos + 2 + (bodyStrN r).length = pos + ((bodyStrN r).length + 2) by omega]
  | .cs name :: r, pos, fuel, hf, hok => by
    simp only [bodyOkN, Bool.and_eq_true] at hok
    obtain ⟨hcw, h4⟩ := hok
    have C0 := cwFacts hcw
    simp only [bodyStrN, NP.render, List.length_append, List.length_cons] at hf
    obtain ⟨f, rfl⟩ : ∃ f, fuel = f + 1 := ⟨fuel - 1, by omega⟩
    have hn1 := nextToken_cw T st src pos name (bodyStrN r ++ '}' :: R) (by simpa using C0)
    obtain ⟨rsteps, C, hrest⟩ := scanSteps_bodyN T st src n R r (pos + (name.length + 1)) f (by omega) h4
    refine ⟨{ tok := cwTok pos name, len := name.length + 1 } :: rsteps, ⟨?_, ?_, ?_, ?_, by simp⟩, ?_⟩
    · intro y hy
      rcases List.mem_cons.mp hy with rfl | hy
      · exact ⟨rfl, rfl⟩
      · exact C.ok y hy
    · exact .cs _ name _ r rfl rfl ⟨C0.nDef, C0.undecl⟩ C.link
    · exact refsOk_cons_none rfl C.refs
    · have := C.len
      simp only [List.length_cons, bodyStrN, NP.render, List.length_append]; omega
    · rw [show bodyStrN (.cs name :: r) ++ '}' :: R = '\\' :: (name ++ (bodyStrN r ++ '}' :: R)) by
          simp [bodyStrN, NP.render],
        scanSteps_step T.toTables src f pos '\\' _ _ hn1 (by simp)]
      have hd : ('\\' :: (name ++ (bodyStrN r ++ '}' :: R))).drop (name.length + 1) = bodyStrN r ++ '}' :: R := by
        simp
      simp only [hd]
      rw [hrest, len_cs]
      simp only [List.cons_append, List.length_cons]
      rw [show f + 1 - (rsteps.length + 1) = f - rsteps.length by omega,
        show pos + (name.length + 1) + (bodyStrN r).length = pos + ((bodyStrN r).length + (name.length + 1)) by omega]
  | .lb :: r, pos, fuel, hf, hok => by
    simp only [bodyOkN, Bool.and_eq_true] at hok
    obtain ⟨hb, h4⟩ := hok
    simp only [bodyStrN, NP.render, List.length_append, List.length_cons, List.length_nil] at hf
    obtain ⟨f, rfl⟩ : ∃ f, fuel = f + 1 := ⟨fuel - 1, by omega⟩
    have hn1 := nextToken_brace T src pos '{' (bodyStrN r ++ '}' :: R) (Or.inl rfl) (by simpa using hb)
    obtain ⟨rsteps, C, hrest⟩ := scanSteps_bodyN T st src n R r (pos + 1) f (by omega) h4
    refine ⟨{ tok := { kind := .special, pos := pos, txt := ['{'] }, len := 1 } :: rsteps,
      ⟨?_, ?_, ?_, ?_, by simp⟩, ?_⟩
    · intro y hy
      rcases List.mem_cons.mp hy with rfl | hy
      · exact ⟨rfl, rfl⟩
      · exact C.ok y hy
    · exact .lb _ _ r rfl rfl C.link
    · exact refsOk_cons_none rfl C.refs
    · have := C.len
      simp only [List.length_cons, bodyStrN, NP.render, List.length_append, List.length_nil]; omega
    · rw [show bodyStrN (.lb :: r) ++ '}' :: R = '{' :: (bodyStrN r ++ '}' :: R) by simp [bodyStrN, NP.render],
        scanSteps_step T.toTables src f pos '{' _ _ hn1 (by simp)]
      simp only [List.drop_succ_cons, List.drop_zero]
      rw [hrest, len_lb]
      simp only [List.cons_append, List.length_cons]
      rw [show f + 1 - (rsteps.length + 1) = f - rsteps.length by omega,
        show pos + 1 + (bodyStrN r).length = pos + ((bodyStrN r).length + 1) by omega]
  | .rb :: r, pos, fuel, hf, hok => by
    simp only [bodyOkN, Bool.and_eq_true] at hok
    obtain ⟨hb, h4⟩ := hok
    simp only [bodyStrN, NP.render, List.length_append, List.length_cons, List.length_nil] at hf
    obtain ⟨f, rfl⟩ : ∃ f, fuel = f + 1 := ⟨fuel - 1, by omega⟩
    have hn1 := nextToken_brace T src pos '}' (bodyStrN r ++ '}' :: R) (Or.inr rfl) (by simpa using hb)
    obtain ⟨rsteps, C, hrest⟩ := scanSteps_bodyN T st src n R r (pos + 1) f (by omega) h4
    refine ⟨{ tok := { kind := .special, pos := pos, txt := ['}'] }, len := 1 } :: rsteps,
      ⟨?_, ?_, ?_, ?_, by simp⟩, ?_⟩
    · intro y hy
      rcases List.mem_cons.mp hy with rfl | hy
      · exact ⟨rfl, rfl⟩
      · exact C.ok y hy
    · exact .rb _ _ r rfl rfl C.link
    · exact refsOk_cons_none rfl C.refs
    · have := C.len
      simp only [List.length_cons, bodyStrN, NP.render, List.length_append, List.length_nil]; omega
    · rw [show bodyStrN (.rb :: r) ++ '}' :: R = '}' :: (bodyStrN r ++ '}' :: R) by simp [bodyStrN, NP.render],
        scanSteps_step T.toTables src f pos '}' _ _ hn1 (by simp)]
      simp only [List.drop_succ_cons, List.drop_zero]
      rw [hrest, len_rb]
      simp only [List.cons_append, List.length_cons]
      rw [show f + 1 - (rsteps.length + 1) = f - rsteps.length by omega,
        show pos + 1 + (bodyStrN r).length = pos + ((bodyStrN r).length + 1) by omega]

/-! ### the scanner on the arguments of a use -/

theorem argsLenB_eq : ∀ args : List Arg, (argsStrB args).length = argsLenB args
  | [] => rfl
  | .br sp s :: as => by
    simp [argsStrB, Arg.render, argsLenB, Arg.len, argsLenB_eq as]; omega
  | .tk sp c :: as => by
    simp [argsStrB, Arg.render, argsLenB, Arg.len, argsLenB_eq as]; omega

structure SpFacts (T : PTables) (st : PState) (sp : Str) : Prop where
  space : ∀ c ∈ sp, isSpace c = true
  nl : countNl sp < 2
  nAct : ∀ c ∈ sp, (activeChars T st).contains [c] = false

theorem spFacts {T : PTables} {st : PState} {sp : Str} (h : spOk T st sp = true) : SpFacts T st sp := by
  simp only [spOk, Bool.and_eq_true, List.all_eq_true, decide_eq_true_eq, Bool.not_eq_true'] at h
  exact ⟨h.1.1, h.1.2, h.2⟩

/-- white space in front of a character that is none: one space token -/
theorem nextToken_sp (T : PTables) (st : PState) (src : Str) (pos : Nat) (c : Char) (cs : Str) (x : Char)
    (R : Str) (h : SpFacts T st (c :: cs)) (hx : isSpace x = false) :
    ∃ t : Tok, nextToken T.toTables src pos (c :: (cs ++ x :: R)) = { tok := t, len := cs.length + 1 } ∧
      t.kind = .space ∧ t.fix = false ∧ t.pos = pos ∧ t.txt = c :: cs ∧ PlainTok t ∧ Shape t ∧
      (activeChars T st).contains t.txt = false := by
  have hc : isSpace c = true := h.space c (by simp)
  have htw : (c :: (cs ++ x :: R)).takeWhile isSpace = c :: cs := by
    rw [show c :: (cs ++ x :: R) = (c :: cs) ++ x :: R from rfl]
    exact takeWhile_append_stop _ _ _ (List.all_eq_true.mpr h.space) (by simp [hx])
  have hk : (if countNl (c :: cs) < 2 then Kind.space else Kind.par) = Kind.space := by
    rw [if_pos h.nl]
  refine ⟨{ kind := .space, pos := pos, txt := c :: cs }, ?_, rfl, rfl, rfl, rfl, ?_, ⟨by simp, ?_⟩, ?_⟩
  · unfold nextToken
    simp only [hc, if_true, scanSpace, htw, hk, List.length_cons]
  · exact plainTok_of_head _ c cs rfl (Or.inr (Or.inl rfl)) (structuralChar_of_isSpace c hc)
  · intro _
    simp only [isBlank, List.all_eq_true]
    exact h.space
  · exact not_active_cons T st c cs (h.nAct c (by simp))

/-- the scanner loop on the optional white space in front of an argument -/
theorem scanSteps_sp (T : PTables) (st : PState) (src : Str) (sp : Str) (x : Char) (R : Str) (q fuel : Nat)
    (hf : sp.length ≤ fuel) (h : SpFacts T st sp) (hx : isSpace x = false) :
    ∃ ssteps : List ScanStep, (∀ y ∈ ssteps, y.diag = none ∧ y.extra = []) ∧ ssteps.length ≤ sp.length ∧
      (∀ toks pes, TR T st toks pes → TR T st (ssteps.map (·.tok) ++ toks) (spPE q sp ++ pes)) ∧
      scanSteps T.toTables src fuel q (sp ++ x :: R)
        = (ssteps ++ (scanSteps T.toTables src (fuel - ssteps.length) (q + sp.length) (x :: R)).1,
           (scanSteps T.toTables src (fuel - ssteps.length) (q + sp.length) (x :: R)).2) := by
  cases sp with
  | nil => exact ⟨[], by simp, by simp, fun toks pes htr => by simpa [spPE] using htr, by simp⟩
  | cons c cs =>
    obtain ⟨f, rfl⟩ : ∃ f, fuel = f + 1 := ⟨fuel - 1, by simp at hf; omega⟩
    obtain ⟨t, hn, hk, hfix, hpos, htxt, hp, hsh, hna⟩ := nextToken_sp T st src q c cs x R h hx
    refine ⟨[{ tok := t, len := cs.length + 1 }], ?_, by simp, ?_, ?_⟩
    · intro y hy
      simp only [List.mem_singleton] at hy
      subst hy; exact ⟨rfl, rfl⟩
    · intro toks pes htr
      have := TR.sp (T := T) (st1 := st) t toks pes hk hfix hp hsh hna htr
      rw [hpos, htxt] at this
      simpa [spPE] using this
    · rw [show (c :: cs) ++ x :: R = c :: (cs ++ x :: R) from rfl,
        scanSteps_step T.toTables src f q c _ _ hn (by simp)]
      have hd : (c :: (cs ++ x :: R)).drop (cs.length + 1) = x :: R := by simp
      simp only [hd, List.singleton_append, List.length_cons, List.length_nil]
      rw [show f + 1 - (0 + 1) = f by omega]

/-- what the scanner loop yields on the arguments of a use -/
structure ArgsRunB (T : PTables) (st : PState) (q : Nat) (args : List Arg) (steps : List ScanStep) : Prop where
  ok : ∀ x ∈ steps, x.diag = none ∧ x.extra = []
  tr : TR T st (steps.map (·.tok)) (argsPE q args)
  len : steps.length ≤ argsLenB args

/-- the scanner loop on the arguments of a use -/
theorem scanSteps_argsB (T : PTables) (st : PState) (src : Str) (R : Str) :
    ∀ (args : List Arg) (q fuel : Nat), argsLenB args ≤ fuel → argsOkB T st args R = true →
      ∃ steps, ArgsRunB T st q args steps ∧
        scanSteps T.toTables src fuel q (argsStrB args ++ R)
          = (steps ++ (scanSteps T.toTables src (fuel - steps.length) (q + argsLenB args) R).1,
             (scanSteps T.toTables src (fuel - steps.length) (q + argsLenB args) R).2)
  | [], q, fuel, _, _ => ⟨[], ⟨by simp, .nil, by simp⟩, by simp [argsStrB, argsLenB]⟩
  | .br sp a :: as, q, fuel, hf, hok => by
    simp only [argsOkB, Bool.and_eq_true, Bool.not_eq_true', List.all_eq_true] at hok
    obtain ⟨⟨⟨⟨⟨hsp, hb1⟩, hane⟩, hain⟩, hb2⟩, hrest⟩ := hok
    have hane' : a ≠ [] := by simpa using hane
    simp only [argsLenB, Arg.len] at hf
    obtain ⟨ssteps, s1, s2, s3, s4⟩ := scanSteps_sp T st src sp '{' (a ++ '}' :: (argsStrB as ++ R)) q fuel
      (by omega) (spFacts hsp) (by decide)
    obtain ⟨f, hf1⟩ : ∃ f, fuel - ssteps.length = f + 1 := ⟨fuel - ssteps.length - 1, by omega⟩
    have hn1 := nextToken_brace T src (q + sp.length) '{' _ (Or.inl rfl) hb1
    obtain ⟨asteps, B, hrun⟩ := scanSteps_run T st src '}' (argsStrB as ++ R) (by decide) a.length a
      (q + sp.length + 1) f (Nat.le_refl _) (by omega) hain
    have hBl := B.len
    obtain ⟨g', hg'⟩ : ∃ g', f - asteps.length = g' + 1 := ⟨f - asteps.length - 1, by omega⟩
    have hn2 := nextToken_brace T src (q + sp.length + 1 + a.length) '}' _ (Or.inr rfl) hb2
    obtain ⟨rsteps, C, hrest'⟩ := scanSteps_argsB T st src R as (q + sp.length + 1 + a.length + 1) g'
      (by omega) hrest
    have hCl := C.len
    refine ⟨ssteps ++ { tok := { kind := .special, pos := q + sp.length, txt := ['{'] }, len := 1 } ::
        (asteps ++ { tok := { kind := .special, pos := q + sp.length + 1 + a.length, txt := ['}'] }, len := 1 } ::
          rsteps), ⟨?_, ?_, ?_⟩, ?_⟩
    · intro y hy
      simp only [List.mem_cons, List.mem_append] at hy
      rcases hy with hy | rfl | hy | rfl | hy
      · exact s1 y hy
      · exact ⟨rfl, rfl⟩
      · exact ⟨(B.ok y hy).1, (B.ok y hy).2.1⟩
      · exact ⟨rfl, rfl⟩
      · exact C.ok y hy
    · simp only [List.map_append, List.map_cons, argsPE]
      refine s3 _ _ ?_
      have e1 : q + (sp.length + a.length + 2) = q + sp.length + 1 + a.length + 1 := by omega
      have e2 : q + sp.length + a.length + 1 = q + sp.length + 1 + a.length := by omega
      rw [e1, e2]
      refine TR.lb (T := T) (st1 := st) { kind := .special, pos := q + sp.length, txt := ['{'] } _ _ rfl rfl ?_
      refine TR.arg (asteps.map (·.tok)) (q + sp.length + 1) a _ _ (by simpa using B.ne hane')
        (argFacts_of_run B hane') ?_ ?_
      · intro t ht
        obtain ⟨y, hy, rfl⟩ := List.mem_map.mp ht
        exact ⟨(B.ok y hy).2.2.1, (B.ok y hy).2.2.2.1⟩
      · exact TR.rb (T := T) (st1 := st)
          { kind := .special, pos := q + sp.length + 1 + a.length, txt := ['}'] } _ _ rfl rfl C.tr
    · simp only [List.length_cons, List.length_append, argsLenB, Arg.len]
      omega
    · rw [show argsStrB (.br sp a :: as) ++ R = sp ++ '{' :: (a ++ '}' :: (argsStrB as ++ R)) by
          simp [argsStrB, Arg.render], s4, hf1,
        scanSteps_step T.toTables src f (q + sp.length) '{' _ _ hn1 (by simp)]
      simp only [List.drop_succ_cons, List.drop_zero]
      rw [hrun, hg', scanSteps_step T.toTables src g' _ '}' _ _ hn2 (by simp)]
      simp only [List.drop_succ_cons, List.drop_zero]
      rw [hrest']
      simp only [List.cons_append, List.append_assoc, List.length_cons, List.length_append, argsLenB, Arg.len]
      have e1 : fuel - (ssteps.length + (asteps.length + (rsteps.length + 1) + 1)) = g' - rsteps.length := by omega
      have e2 : q + sp.length + 1 + a.length + 1 + argsLenB as = q + (sp.length + a.length + 2 + argsLenB as) := by
        omega
      rw [e1, e2]
  | .tk sp c :: as, q, fuel, hf, hok => by
    simp only [argsOkB, Bool.and_eq_true, Bool.not_eq_true'] at hok
    obtain ⟨⟨⟨hsp, htx⟩, hna⟩, hrest⟩ := hok
    have hcs : isSpace c = false := by
      simp only [txtAt, Bool.and_eq_true, Bool.not_eq_true'] at htx
      exact htx.1.1
    simp only [argsLenB, Arg.len] at hf
    obtain ⟨ssteps, s1, s2, s3, s4⟩ := scanSteps_sp T st src sp c (argsStrB as ++ R) q fuel
      (by omega) (spFacts hsp) hcs
    obtain ⟨f, hf1⟩ : ∃ f, fuel - ssteps.length = f + 1 := ⟨fuel - ssteps.length - 1, by omega⟩
    have hn1 := nextToken_txt T src (q + sp.length) c _ htx
    obtain ⟨rsteps, C, hrest'⟩ := scanSteps_argsB T st src R as (q + sp.length + 1) f (by omega) hrest
    have hCl := C.len
    have hpl : PlainTok (txtTok (q + sp.length) c) :=
      plainTok_of_head _ c [] rfl (Or.inl rfl) (txtAt_structural htx)
    have hsh : Shape (txtTok (q + sp.length) c) := by
      refine ⟨by simp [txtTok], fun hnl => ?_⟩
      have := hasNl_single c hcs
      simp only [txtTok] at hnl
      rw [this] at hnl; cases hnl
    refine ⟨ssteps ++ { tok := txtTok (q + sp.length) c, len := 1 } :: rsteps, ⟨?_, ?_, ?_⟩, ?_⟩
    · intro y hy
      simp only [List.mem_cons, List.mem_append] at hy
      rcases hy with hy | rfl | hy
      · exact s1 y hy
      · exact ⟨rfl, rfl⟩
      · exact C.ok y hy
    · simp only [List.map_append, List.map_cons, argsPE]
      refine s3 _ _ ?_
      have e1 : q + (sp.length + 1) = q + sp.length + 1 := by omega
      rw [e1]
      exact TR.chr (T := T) (st1 := st) (txtTok (q + sp.length) c) c _ _ rfl rfl rfl hpl hsh hna C.tr
    · simp only [List.length_cons, List.length_append, argsLenB, Arg.len]
      omega
    · rw [show argsStrB (.tk sp c :: as) ++ R = sp ++ c :: (argsStrB as ++ R) by
          simp [argsStrB, Arg.render], s4, hf1,
        scanSteps_step T.toTables src f (q + sp.length) c _ _ hn1 (by simp)]
      simp only [List.drop_succ_cons, List.drop_zero]
      rw [hrest']
      simp only [List.cons_append, List.append_assoc, List.length_cons, List.length_append, argsLenB, Arg.len]
      have e1 : fuel - (ssteps.length + (rsteps.length + 1)) = f - rsteps.length := by omega
      have e2 : q + sp.length + 1 + argsLenB as = q + (sp.length + 1 + argsLenB as) := by omega
      rw [e1, e2]

/-! ### items and well-formed sources -/

/-- the source as a list of text characters, definitions and uses, with their positions -/
inductive Item where
  | chr (c : Char) (p : Nat)
  | defn (p : Nat) (name : Str) (n : Nat) (body : List NP)
  | ddef (p : Nat) (name : Str) (n : Nat) (body : List NP)
  | use (p : Nat) (name : Str) (args : List Arg)

def chrItems : Nat → Str → List Item
  | _, [] => []
  | p, c :: cs => .chr c p :: chrItems (p + 1) cs

def itemsOf : Nat → List Seg → List Item
  | _, [] => []
  | p, .txt s :: rest => chrItems p s ++ itemsOf (p + s.length) rest
  | p, .defn name n body :: rest =>
    .defn p name n body :: itemsOf (p + (name.length + (bodyStrN body).length + 19)) rest
  | p, .ddef name n body :: rest =>
    .ddef p name n body :: itemsOf (p + (name.length + (bodyStrN body).length + 2 * n + 7)) rest
  | p, .use name args :: rest => .use p name args :: itemsOf (p + (name.length + 1 + argsLenB args)) rest

/-- the same on the source text (which starts at position `p`) -/
inductive OkSrc (T : PTables) (st : PState) : Nat → Str → List Item → Prop
  | nil (p : Nat) : OkSrc T st p [] []
  | chr (p : Nat) (c : Char) (cs : Str) (items : List Item) :
      okAt T st c cs = true → OkSrc T st (p + 1) cs items →
      OkSrc T st p (c :: cs) (.chr c p :: items)
  | defn (p : Nat) (name : Str) (n : Nat) (body : List NP) (R : Str) (items : List Item) :
      defOkN T st name n body R = true →
      OkSrc T st (p + (name.length + (bodyStrN body).length + 19)) R items →
      OkSrc T st p ('\\' :: (ncName ++ '{' :: '\\' :: (name ++ '}' :: '[' :: digitChar n :: ']' :: '{' ::
          (bodyStrN body ++ '}' :: R))))
        (.defn p name n body :: items)
  | ddef (p : Nat) (name : Str) (n : Nat) (body : List NP) (R : Str) (items : List Item) :
      ddefOkN T st name n body R = true →
      OkSrc T st (p + (name.length + (bodyStrN body).length + 2 * n + 7)) R items →
      OkSrc T st p ('\\' :: (defName ++ '\\' :: (name ++ (paramStr 1 n ++ '{' :: (bodyStrN body ++ '}' :: R)))))
        (.ddef p name n body :: items)
  | use (p : Nat) (name : Str) (args : List Arg) (R : Str) (items : List Item) :
      useOkB T st name args R = true → OkSrc T st (p + (name.length + 1 + argsLenB args)) R items →
      OkSrc T st p ('\\' :: (name ++ (argsStrB args ++ R))) (.use p name args :: items)

theorem OkSrc_text (T : PTables) (st : PState) (R : Str) (items : List Item) :
    ∀ (s : Str) (p : Nat), OkSrc T st (p + s.length) R items → textOk T st s R = true →
      OkSrc T st p (s ++ R) (chrItems p s ++ items)
  | [], _, hR, _ => hR
  | c :: cs, p, hR, h => by
    simp only [textOk, Bool.and_eq_true] at h
    have hR' : OkSrc T st (p + 1 + cs.length) R items := by
      have e : p + 1 + cs.length = p + (c :: cs).length := by simp; omega
      rw [e]; exact hR
    exact OkSrc.chr p c (cs ++ R) _ h.1 (OkSrc_text T st R items cs (p + 1) hR' h.2)

theorem OkSrc_of_segsOk (T : PTables) (st : PState) :
    ∀ (segs : List Seg) (p : Nat), segsOk T st segs = true →
      OkSrc T st p (render segs) (itemsOf p segs)
  | [], p, _ => .nil p
  | .txt s :: rest, p, h => by
    simp only [segsOk, Bool.and_eq_true] at h
    exact OkSrc_text T st _ _ s p (OkSrc_of_segsOk T st rest _ h.2) h.1
  | .defn name n body :: rest, p, h => by
    simp only [segsOk, Bool.and_eq_true] at h
    have := OkSrc.defn p name n body (render rest) _ h.1 (OkSrc_of_segsOk T st rest _ h.2)
    simpa [render, Seg.render, itemsOf] using this
  | .ddef name n body :: rest, p, h => by
    simp only [segsOk, Bool.and_eq_true] at h
    have := OkSrc.ddef p name n body (render rest) _ h.1 (OkSrc_of_segsOk T st rest _ h.2)
    simpa [render, Seg.render, itemsOf] using this
  | .use name args :: rest, p, h => by
    simp only [segsOk, Bool.and_eq_true] at h
    have := OkSrc.use p name args (render rest) _ h.1 (OkSrc_of_segsOk T st rest _ h.2)
    simpa [render, Seg.render, itemsOf] using this

/-- white space in front can be dropped -/
theorem OkSrc_drop_space (T : PTables) (st : PState) :
    ∀ (k : Nat) (p : Nat) (s : Str) (items : List Item), k ≤ s.length → OkSrc T st p s items →
      (∀ x ∈ s.take k, isSpace x = true) →
      ∃ items', items = chrItems p (s.take k) ++ items' ∧ OkSrc T st (p + k) (s.drop k) items'
  | 0, _, _, items, _, h, _ => ⟨items, rfl, h⟩
  | k + 1, _, [], _, hk, _, _ => by simp at hk
  | k + 1, p, c :: cs, _, hk, h, hsp => by
    have hc : isSpace c = true := hsp c (by simp)
    cases h with
    | chr _ _ _ items0 _ h2 =>
      obtain ⟨items', e, h3⟩ := OkSrc_drop_space T st k (p + 1) cs items0 (by simpa using hk) h2
        (fun x hx => hsp x (by simp [hx]))
      refine ⟨items', by simp [chrItems, e], ?_⟩
      have e : p + (k + 1) = p + 1 + k := by omega
      rw [e]; exact h3
    | defn _ name n body R _ _ _ => exact absurd hc (by decide)
    | ddef _ name n body R _ _ _ => exact absurd hc (by decide)
    | use _ name args R _ _ _ => exact absurd hc (by decide)

theorem argsOkB_congr (T : PTables) (st st' : PState) (h : inertChar T st' = inertChar T st)
    (ha : activeChars T st' = activeChars T st) (R : Str) :
    ∀ args : List Arg, argsOkB T st' args R = argsOkB T st args R
  | [] => rfl
  | .br sp s :: as => by simp only [argsOkB, spOk, h, ha, argsOkB_congr T st st' h ha R as]
  | .tk sp c :: as => by simp only [argsOkB, spOk, ha, argsOkB_congr T st st' h ha R as]

theorem bodyOkN_congr (T : PTables) (st st' : PState) (h : inertChar T st' = inertChar T st)
    (hm : st'.macros = st.macros) (n : Nat) : ∀ (body : List NP) (R : Str),
    bodyOkN T st' n body R = bodyOkN T st n body R
  | [], _ => rfl
  | .lit s :: r, R => by simp only [bodyOkN, h, bodyOkN_congr T st st' h hm n r R]
  | .par k :: r, R => by simp only [bodyOkN, bodyOkN_congr T st st' h hm n r R]
  | .cs name :: r, R => by simp only [bodyOkN, cwOk, lookupMacro, hm, bodyOkN_congr T st st' h hm n r R]
  | .lb :: r, R => by simp only [bodyOkN, bodyOkN_congr T st st' h hm n r R]
  | .rb :: r, R => by simp only [bodyOkN, bodyOkN_congr T st st' h hm n r R]

/-- the conditions depend on the state only through the language stack, the macro table and
    the list of protected names -/
theorem OkSrc.congr {T : PTables} {st st' : PState} (hl : st'.langStack = st.langStack)
    (hm : st'.macros = st.macros) (hi : st'.newcommandIgnore = st.newcommandIgnore)
    {p : Nat} {s : Str} {items : List Item} (h : OkSrc T st p s items) : OkSrc T st' p s items := by
  have hinert : inertChar T st' = inertChar T st := by
    funext c; simp only [inertChar, activeChars_congr T st st' hl]
  induction h with
  | nil p => exact .nil p
  | chr p c cs items hat _ ih =>
    refine .chr p c cs items ?_ ih
    rw [← hat]
    simp only [okAt, activeChars_congr T st st' hl, shortKeys_congr T st st' hl]
  | defn p name n body R items hd _ ih =>
    refine .defn p name n body R items ?_ ih
    rw [← hd]
    simp only [defOkN, cwOk, lookupMacro, hm, hi, bodyOkN_congr T st st' hinert hm, activeChars_congr T st st' hl]
  | ddef p name n body R items hd _ ih =>
    refine .ddef p name n body R items ?_ ih
    rw [← hd]
    simp only [ddefOkN, cwOk, lookupMacro, hm, hi, bodyOkN_congr T st st' hinert hm]
  | use p name args R items hu _ ih =>
    refine .use p name args R items ?_ ih
    rw [← hu]
    simp only [useOkB, cwOk, lookupMacro, hm, hi, argsOkB_congr T st st' hinert (activeChars_congr T st st' hl)]

/-! ### token buffers and items -/

/-- the token buffer of a source (items):
    * a plain token that the loop copies ↔ its characters;
    * `\newcommand { \name } [ n ] { body }` ↔ a definition, the body tokens representing the pieces;
    * `\def \name #1 … #n { body }` ↔ a definition;
    * `\name` and the tokens of its arguments ↔ a use -/
inductive LinkN (T : PTables) (st1 : PState) : List Tok → List Item → Prop
  | nil : LinkN T st1 [] []
  | tok (t : Tok) (toks : List Tok) (items : List Item) :
      t.fix = false → Shape t → PlainTok t → PassTok T st1 t toks → LinkN T st1 toks items →
      LinkN T st1 (t :: toks) (chrItems t.pos t.txt ++ items)
  | defn (p q1 q2 q3 q4 q5 q6 q7 q8 : Nat) (name : Str) (n : Nat) (body : List NP) (btoks : List Tok)
      (toks : List Tok) (items : List Item) :
      NameOk st1 name → DigitOk T st1 n → BodyTR T st1 btoks body → btoks ≠ [] → RefsOk n btoks →
      balNP 0 body = true → LinkN T st1 toks items →
      LinkN T st1
        (cwTok p ncName :: lbr q1 :: cwTok q2 name :: rbr q3 :: txtTok q4 '[' :: txtTok q5 (digitChar n) ::
          txtTok q6 ']' :: lbr q7 :: (btoks ++ rbr q8 :: toks))
        (.defn p name n body :: items)
  | ddef (p q2 q q7 q8 : Nat) (name : Str) (n : Nat) (body : List NP) (btoks : List Tok)
      (toks : List Tok) (items : List Item) :
      NameOk st1 name → BodyTR T st1 btoks body → btoks ≠ [] → RefsOk n btoks →
      balNP 0 body = true → LinkN T st1 toks items →
      LinkN T st1
        (cwTok p defName :: cwTok q2 name :: (paramToks q 1 n ++ lbr q7 :: (btoks ++ rbr q8 :: toks)))
        (.ddef p name n body :: items)
  | use (p : Nat) (name : Str) (args : List Arg) (atoks : List Tok) (toks : List Tok) (items : List Item) :
      NameOk st1 name → name ≠ [] → args ≠ [] → TR T st1 atoks (argsPE (p + name.length + 1) args) →
      LinkN T st1 toks items →
      LinkN T st1 (cwTok p name :: (atoks ++ toks)) (.use p name args :: items)

/-- what the scanner loop yields on a well-formed source -/
structure ScanFacts (T : PTables) (st : PState) (rest : Str) (items : List Item)
    (steps : List ScanStep) : Prop where
  ok : ∀ s ∈ steps, s.diag = none ∧ s.extra = []
  link : LinkN T st (steps.map (·.tok)) items
  first : ∀ s ss, steps = s :: ss → s.tok.txt = firstTokTxtM rest
  len : steps.length ≤ rest.length

theorem ScanFacts_nil (T : PTables) (st : PState) : ScanFacts T st [] [] [] :=
  ⟨by simp, .nil, by simp, by simp⟩

structure DefFactsN (T : PTables) (st : PState) (name : Str) (n : Nat) (body : List NP) (R : Str) : Prop where
  ncSpecial : matchSpecial T.toTables
    ('\\' :: (ncName ++ '{' :: '\\' :: (name ++ '}' :: '[' :: digitChar n :: ']' :: '{' ::
      (bodyStrN body ++ '}' :: R)))) = none
  ncAccent : T.toTables.isAccent ('\\' :: ncName) = false
  b1 : braceAt T '{' ('\\' :: (name ++ '}' :: '[' :: digitChar n :: ']' :: '{' :: (bodyStrN body ++ '}' :: R))) = true
  cw : CwFacts T st name ('}' :: '[' :: digitChar n :: ']' :: '{' :: (bodyStrN body ++ '}' :: R))
  ign : st.newcommandIgnore.contains ('\\' :: name) = false
  b2 : braceAt T '}' ('[' :: digitChar n :: ']' :: '{' :: (bodyStrN body ++ '}' :: R)) = true
  t1 : txtAt T '[' (digitChar n :: ']' :: '{' :: (bodyStrN body ++ '}' :: R)) = true
  t2 : txtAt T (digitChar n) (']' :: '{' :: (bodyStrN body ++ '}' :: R)) = true
  t3 : txtAt T ']' ('{' :: (bodyStrN body ++ '}' :: R)) = true
  n9 : n ≤ 9
  dv : decimalValue T.toTables.decimalZeros (digitChar n) = some n
  nAct : (activeChars T st).contains [digitChar n] = false
  b3 : braceAt T '{' (bodyStrN body ++ '}' :: R) = true
  bne : body ≠ []
  bok : bodyOkN T st n body ('}' :: R) = true
  bal : balNP 0 body = true
  b4 : braceAt T '}' R = true

theorem defFactsN {T : PTables} {st : PState} {name : Str} {n : Nat} {body : List NP} {R : Str}
    (h : defOkN T st name n body R = true) : DefFactsN T st name n body R := by
  simp only [defOkN, Bool.and_eq_true, Bool.not_eq_true', Option.isNone_iff_eq_none,
    decide_eq_true_eq, beq_iff_eq] at h
  obtain ⟨⟨⟨⟨⟨⟨⟨⟨⟨⟨⟨⟨⟨⟨⟨⟨h1, h2⟩, h3⟩, h4⟩, h5⟩, h6⟩, h7⟩, h8⟩, h9⟩, h10⟩, h11⟩, h12⟩, h13⟩, h14⟩, h15⟩, h16⟩, h17⟩ := h
  exact ⟨h1, h2, h3, cwFacts h4, h5, h6, h7, h8, h9, h10, h11, h12, h13, by simpa using h14, h15, h16, h17⟩

theorem DefFactsN.digit {T : PTables} {st : PState} {name : Str} {n : Nat} {body : List NP} {R : Str}
    (D : DefFactsN T st name n body R) : DigitOk T st n :=
  ⟨D.dv, digit_ne_rbr n D.n9,
   fun p => plainTok_of_head (txtTok p (digitChar n)) (digitChar n) [] rfl (Or.inl rfl) (txtAt_structural D.t2),
   D.nAct⟩

structure DDefFactsN (T : PTables) (st : PState) (name : Str) (n : Nat) (body : List NP) (R : Str) : Prop where
  dSpecial : matchSpecial T.toTables
    ('\\' :: (defName ++ '\\' :: (name ++ (paramStr 1 n ++ '{' :: (bodyStrN body ++ '}' :: R))))) = none
  dAccent : T.toTables.isAccent ('\\' :: defName) = false
  cw : CwFacts T st name (paramStr 1 n ++ '{' :: (bodyStrN body ++ '}' :: R))
  ign : st.newcommandIgnore.contains ('\\' :: name) = false
  params : ∀ j, 1 ≤ j → j < 1 + n → decimalValue T.toTables.decimalZeros (digitChar j) = some j
  b3 : braceAt T '{' (bodyStrN body ++ '}' :: R) = true
  bne : body ≠ []
  bok : bodyOkN T st n body ('}' :: R) = true
  bal : balNP 0 body = true
  b4 : braceAt T '}' R = true

theorem ddefFactsN {T : PTables} {st : PState} {name : Str} {n : Nat} {body : List NP} {R : Str}
    (h : ddefOkN T st name n body R = true) : DDefFactsN T st name n body R := by
  simp only [ddefOkN, Bool.and_eq_true, Bool.not_eq_true', Option.isNone_iff_eq_none] at h
  obtain ⟨⟨⟨⟨⟨⟨⟨⟨⟨h1, h2⟩, h3⟩, h4⟩, h5⟩, h6⟩, h7⟩, h8⟩, h9⟩, h10⟩ := h
  exact ⟨h1, h2, cwFacts h3, h4, paramsOk_facts T n 1 h5, h6, by simpa using h7, h8, h9, h10⟩

structure UseFactsB (T : PTables) (st : PState) (name : Str) (args : List Arg) (R : Str) : Prop where
  cw : CwFacts T st name (argsStrB args ++ R)
  ign : st.newcommandIgnore.contains ('\\' :: name) = false
  ne : args ≠ []
  args : argsOkB T st args R = true

theorem useFactsB {T : PTables} {st : PState} {name : Str} {args : List Arg} {R : Str}
    (h : useOkB T st name args R = true) : UseFactsB T st name args R := by
  simp only [useOkB, Bool.and_eq_true, Bool.not_eq_true'] at h
  obtain ⟨⟨⟨h1, h2⟩, h3⟩, h4⟩ := h
  exact ⟨cwFacts h1, h2, by simpa using h3, h4⟩

theorem bodyStrN_ne : ∀ {body : List NP} {T : PTables} {st : PState} {n : Nat} {R : Str}, body ≠ [] →
    bodyOkN T st n body R = true → bodyStrN body ≠ []
  | [], _, _, _, _, h, _ => absurd rfl h
  | .lit s :: r, _, _, _, _, _, hok => by
    simp only [bodyOkN, Bool.and_eq_true, Bool.not_eq_true'] at hok
    have : s ≠ [] := by simpa using hok.1.1.1
    cases s with
    | nil => exact absurd rfl this
    | cons c cs => simp [bodyStrN, NP.render]
  | .par _ :: _, _, _, _, _, _, _ => by simp [bodyStrN, NP.render]
  | .cs _ :: _, _, _, _, _, _, _ => by simp [bodyStrN, NP.render]
  | .lb :: _, _, _, _, _, _, _ => by simp [bodyStrN, NP.render]
  | .rb :: _, _, _, _, _, _, _ => by simp [bodyStrN, NP.render]

/-- the scanner loop on a well-formed source -/
theorem scanSteps_macro (T : PTables) (st : PState) (src : Str) :
    ∀ (n fuel pos : Nat) (rest : Str) (items : List Item),
    rest.length ≤ n → rest.length ≤ fuel → OkSrc T st pos rest items →
    (scanSteps T.toTables src fuel pos rest).2 = true ∧
    ScanFacts T st rest items (scanSteps T.toTables src fuel pos rest).1 := by
  intro n
  induction n with
  | zero =>
    intro fuel pos rest items hn _ hok
    cases rest with
    | nil => cases hok; exact ⟨by simp [scanSteps], by simpa [scanSteps] using ScanFacts_nil T st⟩
    | cons c cs => simp at hn
  | succ n ih =>
    intro fuel pos rest items hn hf hok
    cases rest with
    | nil => cases hok; exact ⟨by simp [scanSteps], by simpa [scanSteps] using ScanFacts_nil T st⟩
    | cons c cs =>
      obtain ⟨fuel, rfl⟩ : ∃ f, fuel = f + 1 := ⟨fuel - 1, by simp at hf; omega⟩
      have hok0 := hok
      cases hok with
      | chr _ _ _ items' hat hsub0 =>
        have hsnd := okAt_snd hat
        obtain ⟨hp, hone⟩ := nextToken_text T src pos c cs hsnd
        generalize hs : nextToken T.toTables src pos (c :: cs) = s at hp hone
        have h1 := hp.len_pos
        have h2 := hp.len_le
        have hsub : ∃ items1, Item.chr c pos :: items' = chrItems pos ((c :: cs).take s.len) ++ items1 ∧
            OkSrc T st (pos + s.len) ((c :: cs).drop s.len) items1 := by
          by_cases hsp : isSpace c = true
          · refine OkSrc_drop_space T st s.len pos (c :: cs) _ h2 hok0 ?_
            intro x hx
            rw [← hp.txt, hp.first] at hx
            simp only [firstTokTxt, hsp, if_true] at hx
            exact mem_takeWhile_imp _ _ _ hx
          · have := (hone (by simpa using hsp)).1
            rw [this]
            exact ⟨items', rfl, hsub0⟩
        obtain ⟨items1, hitems1, hsub⟩ := hsub
        rw [scanSteps_step T.toTables src fuel pos c cs s hs (by omega)]
        have hl : ((c :: cs).drop s.len).length ≤ fuel := by
          simp only [List.length_drop]; simp only [List.length_cons] at hf h2 ⊢; omega
        have hl' : ((c :: cs).drop s.len).length ≤ n := by
          simp only [List.length_drop]; simp only [List.length_cons] at hn h2 ⊢; omega
        obtain ⟨i1, I⟩ := ih fuel (pos + s.len) ((c :: cs).drop s.len) items1 hl' hl hsub
        have hlink := I.link
        have hne : s.tok.txt ≠ [] := by
          rw [hp.txt]
          intro h0
          have := congrArg List.length h0
          simp only [List.length_take, List.length_nil] at this
          omega
        refine ⟨i1, ?_, ?_, ?_, ?_⟩
        · intro x hx
          rcases List.mem_cons.mp hx with rfl | hx
          · exact ⟨hp.diag, hp.extra⟩
          · exact I.ok x hx
        · have hpass : PassTok T st s.tok
              ((scanSteps T.toTables src fuel (pos + s.len) ((c :: cs).drop s.len)).1.map (·.tok)) := by
            -- the short-macro branch
            have hact := hat
            simp only [okAt, Bool.and_eq_true, Bool.or_eq_true, Bool.not_eq_true'] at hact
            rcases hact.1 with hna | ⟨hns, hk⟩
            · left
              have : s.tok.txt = c :: (cs.take (s.len - 1)) := by
                rw [hp.txt]
                obtain ⟨k, hk⟩ : ∃ k, s.len = k + 1 := ⟨s.len - 1, by omega⟩
                rw [hk]; simp
              rw [this]
              exact not_active_cons T st c _ hna
            · right
              have hlen := (hone hns).1
              have htxt : s.tok.txt = [c] := by rw [hp.txt, hlen]; rfl
              have i4 := I.first
              rw [hlen] at i4 ⊢
              simp only [List.drop_succ_cons, List.drop_zero] at i4 ⊢
              cases hr : (scanSteps T.toTables src fuel (pos + 1) cs).1 with
              | nil => rfl
              | cons s2 ss =>
                simp only [List.map_cons]
                apply expandShortMacro_none
                rw [htxt, i4 s2 ss hr]
                rcases hk with hk | hk
                · cases cs with
                  | nil => cases fuel <;> simp [scanSteps] at hr
                  | cons => simp at hk
                · simpa using hk
          have e : chrItems pos ((c :: cs).take s.len) = chrItems s.tok.pos s.tok.txt := by
            rw [hp.pos, hp.txt]
          rw [hitems1, e, List.map_cons]
          refine .tok s.tok _ items1 hp.fix ⟨hne, ?_⟩ hp.tok hpass hlink
          · intro hnl
            by_cases hsp : isSpace c = true
            · rw [hp.first]
              simp only [firstTokTxt, hsp, if_true, isBlank, List.all_eq_true]
              exact fun x hx => mem_takeWhile_imp _ _ _ hx
            · have hsp' : isSpace c = false := by simpa using hsp
              have := (hone hsp').1
              rw [hp.txt, this] at hnl
              simp only [List.take_succ_cons, List.take_zero] at hnl
              rw [hasNl_single c hsp'] at hnl; cases hnl
        · intro s' ss' he
          simp only [List.cons.injEq] at he
          rw [← he.1, hp.first]
          refine (firstTokTxtM_of_text c cs ?_).symm
          rcases hsnd with h | h
          · exact Or.inl h
          · exact Or.inr h.1
        · have := I.len
          simp only [List.length_cons, List.length_drop] at this h2 ⊢
          omega
      | defn _ name nn body R items' hd hsub =>
        have D := defFactsN hd
        simp only [List.length_cons, List.length_append, ncName_eq] at hf hn
        obtain ⟨g, hg⟩ : ∃ g, fuel = g + 7 := ⟨fuel - 7, by omega⟩
        -- the eight tokens in front of the body
        have hn1 := nextToken_nc T src pos _ D.ncSpecial D.ncAccent
        have hn2 := nextToken_brace T src (pos + 11) '{' _ (Or.inl rfl) D.b1
        have hn3 := nextToken_cw T st src (pos + 11 + 1) name _ D.cw
        have hn4 := nextToken_brace T src (pos + 11 + 1 + (name.length + 1)) '}' _ (Or.inr rfl) D.b2
        have hn5 := nextToken_txt T src (pos + 11 + 1 + (name.length + 1) + 1) '[' _ D.t1
        have hn6 := nextToken_txt T src (pos + 11 + 1 + (name.length + 1) + 1 + 1) (digitChar nn) _ D.t2
        have hn7 := nextToken_txt T src (pos + 11 + 1 + (name.length + 1) + 1 + 1 + 1) ']' _ D.t3
        have hn8 := nextToken_brace T src (pos + 11 + 1 + (name.length + 1) + 1 + 1 + 1 + 1) '{' _
          (Or.inl rfl) D.b3
        have hn9 := nextToken_brace T src
          (pos + 11 + 1 + (name.length + 1) + 1 + 1 + 1 + 1 + 1 + (bodyStrN body).length) '}' R
          (Or.inr rfl) D.b4
        obtain ⟨bsteps, B, hrun⟩ := scanSteps_bodyN T st src nn R body
          (pos + 11 + 1 + (name.length + 1) + 1 + 1 + 1 + 1 + 1) g (by omega) D.bok
        have hBl := B.len
        obtain ⟨g', hg'⟩ : ∃ g', g - bsteps.length = g' + 1 := ⟨g - bsteps.length - 1, by omega⟩
        have hpos : pos + 11 + 1 + (name.length + 1) + 1 + 1 + 1 + 1 + 1 + (bodyStrN body).length + 1
            = pos + (name.length + (bodyStrN body).length + 19) := by omega
        obtain ⟨i1, I⟩ := ih g' (pos + (name.length + (bodyStrN body).length + 19)) R items'
          (by omega) (by omega) hsub
        have hlink := I.link
        have hd1 : ('\\' :: (ncName ++ '{' :: '\\' :: (name ++ '}' :: '[' :: digitChar nn :: ']' :: '{' ::
              (bodyStrN body ++ '}' :: R)))).drop 11
            = '{' :: '\\' :: (name ++ '}' :: '[' :: digitChar nn :: ']' :: '{' :: (bodyStrN body ++ '}' :: R)) := by
          rw [ncName_eq]; rfl
        have hd3 : ('\\' :: (name ++ '}' :: '[' :: digitChar nn :: ']' :: '{' :: (bodyStrN body ++ '}' :: R))).drop
              (name.length + 1)
            = '}' :: '[' :: digitChar nn :: ']' :: '{' :: (bodyStrN body ++ '}' :: R) := by simp
        have hsteps : scanSteps T.toTables src (fuel + 1) pos
              ('\\' :: (ncName ++ '{' :: '\\' :: (name ++ '}' :: '[' :: digitChar nn :: ']' :: '{' ::
                (bodyStrN body ++ '}' :: R))))
            = ({ tok := cwTok pos ncName, len := 11 } ::
               { tok := { kind := .special, pos := pos + 11, txt := ['{'] }, len := 1 } ::
               { tok := cwTok (pos + 11 + 1) name, len := name.length + 1 } ::
               { tok := { kind := .special, pos := pos + 11 + 1 + (name.length + 1), txt := ['}'] }, len := 1 } ::
               { tok := txtTok (pos + 11 + 1 + (name.length + 1) + 1) '[', len := 1 } ::
               { tok := txtTok (pos + 11 + 1 + (name.length + 1) + 1 + 1) (digitChar nn), len := 1 } ::
               { tok := txtTok (pos + 11 + 1 + (name.length + 1) + 1 + 1 + 1) ']', len := 1 } ::
               { tok := { kind := .special, pos := pos + 11 + 1 + (name.length + 1) + 1 + 1 + 1 + 1,
                          txt := ['{'] }, len := 1 } ::
               (bsteps ++
                 { tok := { kind := .special,
                            pos := pos + 11 + 1 + (name.length + 1) + 1 + 1 + 1 + 1 + 1 + (bodyStrN body).length,
                            txt := ['}'] }, len := 1 } ::
                 (scanSteps T.toTables src g' (pos + (name.length + (bodyStrN body).length + 19)) R).1),
               (scanSteps T.toTables src g' (pos + (name.length + (bodyStrN body).length + 19)) R).2) := by
          rw [hg, scanSteps_step T.toTables src (g + 7) pos _ _ _ hn1 (by simp), hd1]
          simp only []
          rw [scanSteps_step T.toTables src (g + 6) (pos + 11) _ _ _ hn2 (by simp)]
          simp only [List.drop_succ_cons, List.drop_zero]
          rw [scanSteps_step T.toTables src (g + 5) (pos + 11 + 1) _ _ _ hn3 (by simp), hd3]
          simp only []
          rw [scanSteps_step T.toTables src (g + 4) _ _ _ _ hn4 (by simp)]
          simp only [List.drop_succ_cons, List.drop_zero]
          rw [scanSteps_step T.toTables src (g + 3) _ _ _ _ hn5 (by simp)]
          simp only [List.drop_succ_cons, List.drop_zero]
          rw [scanSteps_step T.toTables src (g + 2) _ _ _ _ hn6 (by simp)]
          simp only [List.drop_succ_cons, List.drop_zero]
          rw [scanSteps_step T.toTables src (g + 1) _ _ _ _ hn7 (by simp)]
          simp only [List.drop_succ_cons, List.drop_zero]
          rw [scanSteps_step T.toTables src g _ _ _ _ hn8 (by simp)]
          simp only [List.drop_succ_cons, List.drop_zero]
          rw [hrun, hg', scanSteps_step T.toTables src g' _ _ _ _ hn9 (by simp)]
          simp only [List.drop_succ_cons, List.drop_zero, hpos]
        rw [hsteps]
        refine ⟨i1, ?_, ?_, ?_, ?_⟩
        · intro x hx
          simp only [List.mem_cons, List.mem_append] at hx
          rcases hx with rfl | rfl | rfl | rfl | rfl | rfl | rfl | rfl | hx | rfl | hx
          · exact ⟨rfl, rfl⟩
          · exact ⟨rfl, rfl⟩
          · exact ⟨rfl, rfl⟩
          · exact ⟨rfl, rfl⟩
          · exact ⟨rfl, rfl⟩
          · exact ⟨rfl, rfl⟩
          · exact ⟨rfl, rfl⟩
          · exact ⟨rfl, rfl⟩
          · exact B.ok x hx
          · exact ⟨rfl, rfl⟩
          · exact I.ok x hx
        · simp only [List.map_cons, List.map_append]
          exact .defn _ _ _ _ _ _ _ _ _ name nn body _ _ items' (nameOk_of_cwFacts D.cw D.ign) D.digit
            B.link (by simpa using B.ne D.bne) B.refs D.bal hlink
        · intro s' ss' he
          simp only [List.cons.injEq] at he
          rw [← he.1]
          have htw : (ncName ++ '{' :: '\\' :: (name ++ '}' :: '[' :: digitChar nn :: ']' :: '{' ::
                (bodyStrN body ++ '}' :: R))).takeWhile macroChar
              = ncName := takeWhile_append_stop _ _ _ (by decide) rfl
          simp [firstTokTxtM, cwTok, show isSpace '\\' = false by decide, htw]
        · have := I.len
          simp only [List.length_cons, List.length_append, ncName_eq] at this ⊢
          omega
      | ddef _ name nn body R items' hd hsub =>
        have D := ddefFactsN hd
        simp only [List.length_cons, List.length_append, defName_eq, paramStr_length] at hf hn
        obtain ⟨g, hg⟩ : ∃ g, fuel = g + nn + 2 := ⟨fuel - nn - 2, by omega⟩
        have hn1 := nextToken_def T src pos _ D.dSpecial D.dAccent
        have hn2 := nextToken_cw T st src (pos + 4) name _ D.cw
        have hn3 := nextToken_brace T src (pos + 4 + (name.length + 1) + 2 * nn) '{' _ (Or.inl rfl) D.b3
        have hn4 := nextToken_brace T src
          (pos + 4 + (name.length + 1) + 2 * nn + 1 + (bodyStrN body).length) '}' R (Or.inr rfl) D.b4
        obtain ⟨bsteps, B, hrun⟩ := scanSteps_bodyN T st src nn R body
          (pos + 4 + (name.length + 1) + 2 * nn + 1) g (by omega) D.bok
        have hBl := B.len
        obtain ⟨g', hg'⟩ : ∃ g', g - bsteps.length = g' + 1 := ⟨g - bsteps.length - 1, by omega⟩
        have hpos : pos + 4 + (name.length + 1) + 2 * nn + 1 + (bodyStrN body).length + 1
            = pos + (name.length + (bodyStrN body).length + 2 * nn + 7) := by omega
        obtain ⟨i1, I⟩ := ih g' (pos + (name.length + (bodyStrN body).length + 2 * nn + 7)) R items'
          (by omega) (by omega) hsub
        have hlink := I.link
        have hd1 : ('\\' :: (defName ++ '\\' :: (name ++ (paramStr 1 nn ++ '{' :: (bodyStrN body ++ '}' :: R))))).drop 4
            = '\\' :: (name ++ (paramStr 1 nn ++ '{' :: (bodyStrN body ++ '}' :: R))) := by
          rw [defName_eq]; rfl
        have hd2 : ('\\' :: (name ++ (paramStr 1 nn ++ '{' :: (bodyStrN body ++ '}' :: R)))).drop (name.length + 1)
            = paramStr 1 nn ++ '{' :: (bodyStrN body ++ '}' :: R) := by simp
        have hsteps : scanSteps T.toTables src (fuel + 1) pos
              ('\\' :: (defName ++ '\\' :: (name ++ (paramStr 1 nn ++ '{' :: (bodyStrN body ++ '}' :: R)))))
            = ({ tok := cwTok pos defName, len := 4 } ::
               { tok := cwTok (pos + 4) name, len := name.length + 1 } ::
               ((paramToks (pos + 4 + (name.length + 1)) 1 nn).map (fun t => ({ tok := t, len := 2 } : ScanStep)) ++
               { tok := { kind := .special, pos := pos + 4 + (name.length + 1) + 2 * nn, txt := ['{'] }, len := 1 } ::
               (bsteps ++
                 { tok := { kind := .special,
                            pos := pos + 4 + (name.length + 1) + 2 * nn + 1 + (bodyStrN body).length,
                            txt := ['}'] }, len := 1 } ::
                 (scanSteps T.toTables src g' (pos + (name.length + (bodyStrN body).length + 2 * nn + 7)) R).1)),
               (scanSteps T.toTables src g' (pos + (name.length + (bodyStrN body).length + 2 * nn + 7)) R).2) := by
          rw [hg, scanSteps_step T.toTables src (g + nn + 2) pos _ _ _ hn1 (by simp), hd1]
          simp only []
          rw [scanSteps_step T.toTables src (g + nn + 1) (pos + 4) _ _ _ hn2 (by simp), hd2]
          simp only []
          rw [scanSteps_params T.toTables src _ nn 1 _ (g + nn + 1) (by omega) D.params,
            show g + nn + 1 - nn = g + 1 by omega,
            scanSteps_step T.toTables src g _ _ _ _ hn3 (by simp)]
          simp only [List.drop_succ_cons, List.drop_zero]
          rw [hrun, hg', scanSteps_step T.toTables src g' _ _ _ _ hn4 (by simp)]
          simp only [List.drop_succ_cons, List.drop_zero, hpos]
        have hpm : ∀ q, ((paramToks q 1 nn).map (fun t => ({ tok := t, len := 2 } : ScanStep))).map (·.tok)
            = paramToks q 1 nn := by
          intro q; simp [List.map_map, Function.comp_def]
        rw [hsteps]
        refine ⟨i1, ?_, ?_, ?_, ?_⟩
        · intro x hx
          simp only [List.mem_cons, List.mem_append, List.mem_map] at hx
          rcases hx with rfl | rfl | ⟨t, _, rfl⟩ | rfl | hx | rfl | hx
          · exact ⟨rfl, rfl⟩
          · exact ⟨rfl, rfl⟩
          · exact ⟨rfl, rfl⟩
          · exact ⟨rfl, rfl⟩
          · exact B.ok x hx
          · exact ⟨rfl, rfl⟩
          · exact I.ok x hx
        · simp only [List.map_cons, List.map_append, hpm]
          exact .ddef _ _ _ _ _ name nn body _ _ items' (nameOk_of_cwFacts D.cw D.ign)
            B.link (by simpa using B.ne D.bne) B.refs D.bal hlink
        · intro s' ss' he
          simp only [List.cons.injEq] at he
          rw [← he.1]
          have htw : (defName ++ '\\' :: (name ++ (paramStr 1 nn ++ '{' :: (bodyStrN body ++ '}' :: R)))).takeWhile
              macroChar = defName := takeWhile_append_stop _ _ _ (by decide) rfl
          simp [firstTokTxtM, cwTok, show isSpace '\\' = false by decide, htw]
        · have := I.len
          simp only [List.length_cons, List.length_append, List.length_map, paramToks_length, defName_eq,
            paramStr_length] at this ⊢
          omega
      | use _ name args R items' hu hsub =>
        have U := useFactsB hu
        have hn1 := nextToken_cw T st src pos name _ U.cw
        have hd1 : ('\\' :: (name ++ (argsStrB args ++ R))).drop (name.length + 1) = argsStrB args ++ R := by simp
        have hne := List.length_pos_iff.mpr U.cw.ne
        have hfirst : (cwTok pos name).txt = firstTokTxtM ('\\' :: (name ++ (argsStrB args ++ R))) := by
          simp [firstTokTxtM, cwTok, U.cw.tw, show isSpace '\\' = false by decide]
        simp only [List.length_cons, List.length_append, argsLenB_eq] at hf hn
        obtain ⟨asteps, A, hrun⟩ := scanSteps_argsB T st src R args (pos + (name.length + 1)) fuel (by omega) U.args
        have hAl := A.len
        have hpos : pos + (name.length + 1) + argsLenB args = pos + (name.length + 1 + argsLenB args) := by omega
        obtain ⟨i1, I⟩ := ih (fuel - asteps.length) (pos + (name.length + 1 + argsLenB args)) R items'
          (by omega) (by omega) hsub
        have hlink := I.link
        rw [scanSteps_step T.toTables src fuel pos _ _ _ hn1 (by simp), hd1]
        simp only []
        rw [hrun, hpos]
        refine ⟨i1, ?_, ?_, ?_, ?_⟩
        · intro x hx
          simp only [List.mem_cons, List.mem_append] at hx
          rcases hx with rfl | hx | hx
          · exact ⟨rfl, rfl⟩
          · exact A.ok x hx
          · exact I.ok x hx
        · have e : pos + (name.length + 1) = pos + name.length + 1 := by omega
          simp only [List.map_cons, List.map_append]
          exact .use pos name args _ _ items' (nameOk_of_cwFacts U.cw U.ign) U.cw.ne U.ne
            (by rw [← e]; exact A.tr) hlink
        · intro s' ss' he
          simp only [List.cons.injEq] at he
          rw [← he.1]; exact hfirst
        · have := I.len
          simp only [List.length_cons, List.length_append, argsLenB_eq] at this ⊢
          omega

/-! ### the reference on items -/

def refMarksN (F : Nat) : EnvN → List Item → Option (List Mark)
  | _, [] => some []
  | env, .chr c p :: rest => (refMarksN F env rest).map (some (c, p) :: ·)
  | env, .defn _ name n body :: rest => (refMarksN F ((name, n, body) :: env) rest).map (none :: ·)
  | env, .ddef _ name n body :: rest => (refMarksN F ((name, n, body) :: env) rest).map (none :: ·)
  | env, .use p name args :: rest =>
    match useMarks F env p name args with
    | none => none
    | some m => (refMarksN F env rest).map (m ++ ·)

def refUnknownsN : EnvN → List Item → List Str
  | _, [] => []
  | env, .chr _ _ :: rest => refUnknownsN env rest
  | env, .defn _ name n body :: rest => refUnknownsN ((name, n, body) :: env) rest
  | env, .ddef _ name n body :: rest => refUnknownsN ((name, n, body) :: env) rest
  | env, .use _ name _ :: rest =>
    (if (lookupDefN env name).isNone then [('\\' :: name)] else []) ++ refUnknownsN env rest

theorem refMarksN_chrItems (F : Nat) (env : EnvN) (items : List Item) : ∀ (s : Str) (p : Nat),
    refMarksN F env (chrItems p s ++ items) = (refMarksN F env items).map ((posText p s).map some ++ ·)
  | [], _ => by simp [chrItems, posText]
  | c :: cs, p => by
    simp only [chrItems, List.cons_append, refMarksN, posText, List.map_cons,
      refMarksN_chrItems F env items cs (p + 1), Option.map_map]
    rfl

theorem refUnknownsN_chrItems (env : EnvN) (items : List Item) : ∀ (s : Str) (p : Nat),
    refUnknownsN env (chrItems p s ++ items) = refUnknownsN env items
  | [], _ => rfl
  | c :: cs, p => by
    simp only [chrItems, List.cons_append, refUnknownsN, refUnknownsN_chrItems env items cs (p + 1)]

theorem lookupDefN_cons (env : EnvN) (n' : Str) (k : Nat) (b : List NP) (name : Str) :
    lookupDefN ((n', k, b) :: env) name = if n' == name then some (k, b) else lookupDefN env name := by
  unfold lookupDefN
  rw [List.find?_cons]
  by_cases h : (n' == name) = true
  · simp [h]
  · simp [h]

theorem RelN_init (T : PTables) (st1 st : PState) (h : st.macros = st1.macros) : RelN T st1 st [] := by
  intro name hn
  simp only [lookupDefN, List.find?_nil, Option.map_none]
  simpa [lookupMacro, h] using hn

theorem RelN.defSt {T : PTables} {st1 st : PState} {env : EnvN} (h : RelN T st1 st env) (name : Str) (n : Nat)
    (body : List NP) (btoks : List Tok) (hb : BodyTR T st1 btoks body) (hr : RefsOk n btoks) :
    RelN T st1 (defSt st name n btoks) ((name, n, body) :: env) := by
  intro name' hn
  rw [lookupDefN_cons, PlainDefTexNest.defSt, PlainMacro.lookup_setMacro]
  by_cases e : name = name'
  · subst e
    simp only [beq_self_eq_true, if_true, userMacro]
    exact ⟨btoks, rfl, hb, hr⟩
  · have e1 : (name == name') = false := by simpa using e
    have e2 : ((userMacro ('\\' :: name) n btoks).name == '\\' :: name') = false := by
      simpa [userMacro] using e
    rw [e1, e2]
    exact h name' hn

theorem dropSp_spPE (q : Nat) (sp : Str) (r : List PE) : dropSp (spPE q sp ++ r) = dropSp r := by
  unfold spPE
  split <;> simp [dropSp]

/-- behind the name of a use with arguments there is, after white space, a brace or a character -/
theorem noSkip_argsPE (q : Nat) : ∀ args : List Arg, args ≠ [] → noSkip (dropSp (argsPE q args)) = true
  | [], h => absurd rfl h
  | .br sp s :: as, _ => by simp [argsPE, dropSp_spPE, dropSp, noSkip]
  | .tk sp c :: as, _ => by simp [argsPE, dropSp_spPE, dropSp, noSkip]

/-- **the loop on the token buffer of a well-formed source**, for a state and an environment that
    agree: if the reference machine yields `marks`, the loop emits tokens with these marks (then the
    blank-line removal), records the names used while undefined, and changes nothing else but the
    macro table. -/
theorem run_link (T : PTables) (envStop : Option Str) (st1 : PState) (hnc : NcOk st1)
    (ha : noEmptyActive T st1 = true) (F : Nat) {toks : List Tok} {items : List Item}
    (hl : LinkN T st1 toks items) :
    ∀ (st : PState) (env : EnvN) (marks : List Mark) (fuel : Nat) (out : List Tok),
      StOkN st1 st → RelN T st1 st env → refMarksN F env items = some marks → 2 * marks.length + 5 ≤ fuel →
      ∃ O m', expandSequence T fuel toks envStop out st
          = (match removeLines (out ++ O) with
             | some r => .ok ((r, []), { st with macros := m',
                                                 unknowns := (refUnknownsN env items).foldl addU st.unknowns })
             | none => .outOfFuel) ∧
        marksOf O = marks ∧ (∀ t ∈ O, PlainMacro.Simple t) := by
  induction hl with
  | nil =>
    intro st env marks fuel out _ _ hm hf
    obtain ⟨f, rfl⟩ : ∃ f, fuel = f + 1 := ⟨fuel - 1, by omega⟩
    simp only [refMarksN, Option.some.injEq] at hm
    subst hm
    refine ⟨[], st.macros, ?_, rfl, by simp⟩
    rw [expandSequence.eq_2, List.append_nil]
    cases removeLines out <;> rfl
  | tok t toks items hfix hshape hp hpass _ ih =>
    intro st env marks fuel out hst hrel hm hf
    rw [refMarksN_chrItems] at hm
    obtain ⟨m1, hm1, rfl⟩ := map_eq_some' hm
    have hlen : 1 ≤ (posText t.pos t.txt).length := by
      have := congrArg List.length (posText_fst t.pos t.txt)
      have h1 := List.length_pos_iff.mpr hshape.1
      simp at this; omega
    simp only [List.length_append, List.length_map] at hf
    obtain ⟨f, rfl⟩ : ∃ f, fuel = f + 1 := ⟨fuel - 1, by omega⟩
    obtain ⟨O, m', i1, i2, i3⟩ := ih st env m1 f (out ++ [t]) hst hrel hm1 (by omega)
    refine ⟨t :: O, m', ?_, ?_, ?_⟩
    · rw [seq_plain_step T f t toks envStop out st hp (PlainMacro.PassTok_congr hst.lang hpass), i1,
        refUnknownsN_chrItems]
      simp only [List.append_assoc, List.singleton_append]
    · rw [PlainMacro.marksOf_cons, PlainMacro.tokMarks_nonaction _ hp.notAction,
        PlainMacro.tokChars_nofix t hfix, i2]
    · intro x hx
      rcases List.mem_cons.mp hx with rfl | hx
      · exact PlainMacro.simple_of_plain hp hshape
      · exact i3 x hx
  | defn p q1 q2 q3 q4 q5 q6 q7 q8 name n body btoks toks items hn hd hb hbne hr hbal _ ih =>
    intro st env marks fuel out hst hrel hm hf
    simp only [refMarksN] at hm
    obtain ⟨m1, hm1, rfl⟩ := map_eq_some' hm
    simp only [List.length_cons] at hf
    obtain ⟨f, rfl⟩ : ∃ f, fuel = f + 7 := ⟨fuel - 7, by omega⟩
    have hbt : balToks 0 btoks = true := by rw [balToks_of_BodyTR hb]; exact hbal
    obtain ⟨O, m', i1, i2, i3⟩ := ih (defSt st name n btoks) ((name, n, body) :: env) m1 (f + 5)
      (out ++ [mkAction p]) (hst.defSt name n btoks hn) (hrel.defSt name n body btoks hb hr) hm1 (by omega)
    refine ⟨mkAction p :: O, m', ?_, ?_, ?_⟩
    · rw [seq_defB_step T f p q1 q2 q3 q4 q5 q6 q7 q8 name n btoks toks envStop out st1 st hst hnc hn hd hbt
        hbne hr ha, i1]
      simp only [List.append_assoc, List.singleton_append, refUnknownsN]
      rfl
    · rw [PlainMacro.marksOf_cons, PlainMacro.tokMarks_mkAction, i2]; rfl
    · intro x hx
      rcases List.mem_cons.mp hx with rfl | hx
      · exact PlainMacro.simple_mkAction p
      · exact i3 x hx
  | ddef p q2 q q7 q8 name n body btoks toks items hn hb hbne hr hbal _ ih =>
    intro st env marks fuel out hst hrel hm hf
    simp only [refMarksN] at hm
    obtain ⟨m1, hm1, rfl⟩ := map_eq_some' hm
    simp only [List.length_cons] at hf
    obtain ⟨f, rfl⟩ : ∃ f, fuel = f + 1 := ⟨fuel - 1, by omega⟩
    have hbt : balToks 0 btoks = true := by rw [balToks_of_BodyTR hb]; exact hbal
    obtain ⟨O, m', i1, i2, i3⟩ := ih (defSt st name n btoks) ((name, n, body) :: env) m1 f
      (out ++ [mkAction p]) (hst.defSt name n btoks hn) (hrel.defSt name n body btoks hb hr) hm1 (by omega)
    refine ⟨mkAction p :: O, m', ?_, ?_, ?_⟩
    · rw [seq_ddefB_step T f p q2 q q7 q8 name n btoks toks envStop out st hbt hbne hr, i1]
      simp only [List.append_assoc, List.singleton_append, refUnknownsN]
      rfl
    · rw [PlainMacro.marksOf_cons, PlainMacro.tokMarks_mkAction, i2]; rfl
    · intro x hx
      rcases List.mem_cons.mp hx with rfl | hx
      · exact PlainMacro.simple_mkAction p
      · exact i3 x hx
  | use p name args atoks toks items hn hne hane htr _ ih =>
    intro st env marks fuel out hst hrel hm hf
    simp only [refMarksN] at hm
    cases hum : useMarks F env p name args with
    | none => simp [hum] at hm
    | some mu =>
      simp only [hum] at hm
      obtain ⟨m1, hm1, rfl⟩ := map_eq_some' hm
      simp only [List.length_append] at hf
      have ha' := noEmptyActive_of_StOkN hst ha
      have hR := hrel name hn.undecl
      cases hld : lookupDefN env name with
      | none =>
        rw [hld] at hR
        simp only [] at hR
        simp only [useMarks, hld, Option.isNone_none, if_true] at hum
        obtain ⟨mu', hmu', rfl⟩ := map_eq_some' hum
        have hst2 : StOkN st1 { st with unknowns := addU st.unknowns ('\\' :: name) } :=
          ⟨hst.lang, hst.ign, hst.decl⟩
        have hrel2 : RelN T st1 { st with unknowns := addU st.unknowns ('\\' :: name) } env := hrel
        obtain ⟨toks0, htr0, hskip⟩ := skipAct_dropSp htr (noSkip_argsPE _ args hane)
        obtain ⟨Ou, k, s1, s2, s3, s4⟩ := sim T st1 _ env hst2 hrel2 ha F _ mu' hmu' toks0 htr0
        simp only [List.length_cons] at hf
        obtain ⟨f, hf'⟩ : ∃ f, fuel = (f + 1 + k) + 2 := ⟨fuel - k - 3, by omega⟩
        have hk : (cwTok p name).kind = .xmacro := rfl
        have hdf : txtIs (cwTok p name) "\\def" = false := by
          simpa [txtIs, cwTok, sDef] using hn.nDef
        obtain ⟨O, m', i1, i2, i3⟩ := ih { st with unknowns := addU st.unknowns ('\\' :: name) } env m1 (f + 1)
          (out ++ [mkAction p] ++ Ou) hst2 hrel2 hm1 (by omega)
        refine ⟨mkAction p :: (Ou ++ O), m', ?_, ?_, ?_⟩
        · rw [hf', seq_cw_step T _ (cwTok p name) _ envStop out st ⟨hk, hdf, hR⟩ ha', hskip toks]
          have := s4 f toks envStop (out ++ [mkAction p])
          simp only [show (cwTok p name).pos = p from rfl, show (cwTok p name).txt = '\\' :: name from rfl]
          rw [this, i1]
          simp only [refUnknownsN, hld, Option.isNone_none, if_true, List.singleton_append, List.foldl_cons,
            List.cons_append, List.append_assoc]
          rfl
        · rw [PlainMacro.marksOf_cons, PlainMacro.tokMarks_mkAction, PlainMacro.marksOf_append, s2, i2]
          rfl
        · intro x hx
          simp only [List.mem_cons, List.mem_append] at hx
          rcases hx with rfl | hx | hx
          · exact PlainMacro.simple_mkAction p
          · exact s3 x hx
          · exact i3 x hx
      | some nb =>
        simp only [useMarks, hld, Option.isNone_some, Bool.false_eq_true, if_false] at hum
        have htr' : TR T st1 (cwTok p name :: atoks) (usePE p name args) :=
          TR.cs (cwTok p name) name _ _ rfl rfl (CsOk.of_nameOk hn) htr
        obtain ⟨Ou, k, s1, s2, s3, s4⟩ := sim T st1 st env hst hrel ha F _ mu hum _ htr'
        obtain ⟨f, hf'⟩ : ∃ f, fuel = f + 1 + k := ⟨fuel - 1 - k, by omega⟩
        obtain ⟨O, m', i1, i2, i3⟩ := ih st env m1 (f + 1) (out ++ Ou) hst hrel hm1 (by omega)
        refine ⟨Ou ++ O, m', ?_, ?_, ?_⟩
        · have := s4 f toks envStop out
          simp only [List.cons_append] at this
          rw [hf', this, i1]
          simp only [refUnknownsN, hld, Option.isNone_some, Bool.false_eq_true, if_false, List.nil_append,
            List.append_assoc]
        · rw [PlainMacro.marksOf_append, s2, i2]
        · intro x hx
          rcases List.mem_append.mp hx with hx | hx
          · exact s3 x hx
          · exact i3 x hx

/-! ### `scan`, `parserWork`, `parse`, `tex2txt` -/

/-- `scan` on a well-formed source: no diagnostics; the token buffer corresponds to the items -/
theorem scan_macro (T : PTables) (st : PState) (src : Str) (items : List Item)
    (h : OkSrc T st 0 src items) :
    (scan T.toTables src).diags = [] ∧ LinkN T st (scan T.toTables src).toks items := by
  obtain ⟨_, F⟩ := scanSteps_macro T st src src.length src.length 0 src items (Nat.le_refl _)
    (Nat.le_refl _) h
  have he := flatten_tok_extra (scanSteps T.toTables src src.length 0 src).1 (fun s hs => (F.ok s hs).2)
  have hd := flatten_diag_nil (scanSteps T.toTables src src.length 0 src).1 (fun s hs => (F.ok s hs).1)
  simp only [scan]
  rw [he, hd]
  exact ⟨rfl, F.link⟩

theorem LinkN.notComment {T : PTables} {st : PState} {toks : List Tok} {items : List Item}
    (h : LinkN T st toks items) : ∀ t ∈ toks, t.kind ≠ .comment := by
  induction h with
  | nil => intro t ht; simp at ht
  | tok t toks items _ _ hp _ _ ih =>
    intro x hx
    rcases List.mem_cons.mp hx with rfl | hx
    · exact hp.notComment
    · exact ih x hx
  | defn p q1 q2 q3 q4 q5 q6 q7 q8 name n body btoks toks items _ _ hb _ _ _ _ ih =>
    intro x hx
    simp only [List.mem_cons, List.mem_append] at hx
    rcases hx with rfl | rfl | rfl | rfl | rfl | rfl | rfl | rfl | hx | rfl | hx
    · simp [cwTok]
    · simp [lbr]
    · simp [cwTok]
    · simp [rbr]
    · simp [txtTok]
    · simp [txtTok]
    · simp [txtTok]
    · simp [lbr]
    · exact hb.notComment x hx
    · simp [rbr]
    · exact ih x hx
  | ddef p q2 q q7 q8 name n body btoks toks items _ hb _ _ _ _ ih =>
    intro x hx
    simp only [List.mem_cons, List.mem_append] at hx
    rcases hx with rfl | rfl | hx | rfl | hx | rfl | hx
    · simp [cwTok]
    · simp [cwTok]
    · exact paramToks_notComment _ _ _ x hx
    · simp [lbr]
    · exact hb.notComment x hx
    · simp [rbr]
    · exact ih x hx
  | use p name args atoks toks items _ _ _ htr _ ih =>
    intro x hx
    simp only [List.mem_cons, List.mem_append] at hx
    rcases hx with rfl | hx | hx
    · simp [cwTok]
    · exact htr.notComment x hx
    · exact ih x hx

/-- **`parserWork` on a well-formed source.** -/
theorem parserWork_nested (T : PTables) (st : PState) (src : Str) (fuel : Nat) (items : List Item)
    (F : Nat) (marks : List Mark) (hf : 2 * marks.length + 6 ≤ fuel) (ha : noEmptyActive T st = true)
    (hnc : NcOk st) (h : OkSrc T st 0 src items) (hm : refMarksN F [] items = some marks) :
    ∃ r macros', parserWork T fuel src st
        = .ok (r, { st with macros := macros',
                            unknowns := (refUnknownsN [] items).foldl addU st.unknowns }) ∧
      charsOf r = delLines marks := by
  obtain ⟨f, rfl⟩ : ∃ f, fuel = f + 1 := ⟨fuel - 1, by omega⟩
  obtain ⟨hd, hlink⟩ := scan_macro T st src items h
  have hstok : StOkN st { st with latex := src, nest := st.nest + 1 } := ⟨rfl, rfl, fun _ _ h => h⟩
  obtain ⟨O, m', hs, hmarks, hsimple⟩ := run_link T none st hnc ha F hlink
    { st with latex := src, nest := st.nest + 1 } [] marks f [] hstok (RelN_init T st _ rfl) hm (by omega)
  rw [List.nil_append] at hs
  obtain ⟨r, hr, hchars⟩ := PlainMacro.removeLines_simple _ hsimple
  rw [hr] at hs
  simp only [] at hs
  rw [hmarks] at hchars
  refine ⟨r, m', ?_, hchars⟩
  rw [parserWork.eq_2]
  refine (M.bind_ok _ _ _ _ _ (rfl : M.get st = _)).trans ?_
  refine (M.bind_ok _ _ _ _ _ (rfl : M.modify _ _ = _)).trans ?_
  refine (M.bind_ok _ _ _ _ _ (rfl : M.modify _ _ = _)).trans ?_
  refine (M.bind_ok _ _ _ _ _ (rfl : M.get _ = _)).trans ?_
  simp only [hd, List.append_nil]
  rw [skipPass_nocomment _ _ _ (fun t ht' => hlink.notComment t ht')]
  simp only []
  refine (M.bind_ok _ _ _ _ _ (rfl : (pure _ : M (List Tok)) _ = _)).trans ?_
  refine (M.bind_ok _ _ _ _ _ hs).trans ?_
  refine (M.bind_ok _ _ _ _ _ (rfl : M.modify _ _ = _)).trans ?_
  show Outcome.ok _ = _
  simp only [Nat.add_sub_cancel]

theorem parse_nested (T : PTables) (st : PState) (src : Str) (fuel : Nat) (items : List Item)
    (F : Nat) (marks : List Mark) (hf : 2 * marks.length + 6 ≤ fuel) (ha : noEmptyActive T st = true)
    (hnc : NcOk st) (h : OkSrc T st 0 src items) (hm : refMarksN F [] items = some marks) :
    ∃ r macros', parse T fuel src [] [] st
        = .ok (r, { st with extracted := [], unknowns := (refUnknownsN [] items).eraseDups,
                            foreign := false, nest := 0, macros := macros' }) ∧
      charsOf r = delLines marks := by
  have h' : OkSrc T { st with extracted := [], unknowns := [], foreign := false, nest := 0 } 0 src items :=
    OkSrc.congr (st := st)
      (st' := { st with extracted := [], unknowns := [], foreign := false, nest := 0 }) rfl rfl rfl h
  obtain ⟨r, macros', hw, hc⟩ := parserWork_nested T
    { st with extracted := [], unknowns := [], foreign := false, nest := 0 } src fuel items F marks hf
    ((noEmptyActive_congr T st _ rfl).trans ha) (PlainMacro.NcOk_congr (st := st) rfl hnc) h' hm
  refine ⟨r, macros', ?_, hc⟩
  unfold parse
  simp only [List.isEmpty_nil, Bool.not_true, Bool.false_eq_true, if_false, if_true]
  refine (M.bind_ok _ _ _ _ _ (rfl : M.modify _ _ = _)).trans ?_
  refine (M.bind_ok _ _ _ _ _ (rfl : (pure _ : M (List Tok)) _ = _)).trans ?_
  refine (M.bind_ok _ _ _ _ _ (rfl : M.modify _ _ = _)).trans ?_
  refine (M.bind_ok _ _ _ _ _ hw).trans ?_
  refine (M.bind_ok _ _ _ _ _ (rfl : M.get _ = _)).trans ?_
  show Outcome.ok _ = _
  simp [foldl_addU_nil]

/-- the result record of `tex2txt` on a well-formed source (no `--defs`, `--extr`, `--repl`,
    `--unkn`; single-language mode) -/
theorem tex2txt_nested_src (T : PTables) (o : Options) (fs : FS) (thresh : Nat) (src : Str) (fuel : Nat)
    (st1 : PState) (items : List Item) (F : Nat) (marks : List Mark)
    (hdefs : o.defs = []) (hextr : o.extr = []) (hrepl : o.hasRepl = false) (hunkn : o.unkn = false)
    (hinit : initParser T fuel o (initialState T o false fs) = .ok ((), st1))
    (ha : noEmptyActive T st1 = true) (hnc : NcOk st1) (h : OkSrc T st1 0 src items)
    (hm : refMarksN F [] items = some marks) (hf : 2 * marks.length + 6 ≤ fuel) :
    ∃ toks, tex2txt T fuel src o false thresh fs
        = .ok { toks := toks, txt := (delLines marks).map (·.1),
                pos := (delLines marks).map (·.2 + 1), parts := [],
                unknowns := (refUnknownsN [] items).eraseDups, diags := st1.diags, foreign := false } := by
  obtain ⟨r, macros', hp, hc⟩ := parse_nested T st1 src fuel items F marks hf ha hnc h hm
  refine ⟨r, ?_⟩
  have hrun : (initParser T fuel o >>= fun _ => parse T fuel src o.defs
        (if o.extr.isEmpty then [] else (splitOn ',' o.extr []).map (fun s => '\\' :: s)))
        (initialState T o false fs)
      = .ok (r, { st1 with extracted := [], unknowns := (refUnknownsN [] items).eraseDups,
                           foreign := false, nest := 0, macros := macros' }) := by
    refine (M.bind_ok _ _ _ _ _ hinit).trans ?_
    rw [hdefs, hextr]
    exact hp
  unfold tex2txt
  simp only []
  rw [hrun]
  simp only [hrepl, hunkn, Bool.not_false, if_true, Bool.false_eq_true, if_false,
    PlainMacro.getTxtPos_charsOf, hc, List.map_map]
  rfl

/-! ### the reference on the level of segments -/

theorem refMarksN_itemsOf (F : Nat) : ∀ (segs : List Seg) (env : EnvN) (p : Nat),
    refMarksN F env (itemsOf p segs) = segMarks F env p segs
  | [], _, _ => rfl
  | .txt s :: rest, env, p => by
    simp only [itemsOf, segMarks, refMarksN_chrItems, refMarksN_itemsOf F rest]
  | .defn name n body :: rest, env, p => by
    simp only [itemsOf, segMarks, refMarksN, refMarksN_itemsOf F rest]
  | .ddef name n body :: rest, env, p => by
    simp only [itemsOf, segMarks, refMarksN, refMarksN_itemsOf F rest]
  | .use name args :: rest, env, p => by
    simp only [itemsOf, segMarks, refMarksN, refMarksN_itemsOf F rest]

theorem refUnknownsN_itemsOf : ∀ (segs : List Seg) (env : EnvN) (p : Nat),
    refUnknownsN env (itemsOf p segs) = segUnknowns env segs
  | [], _, _ => rfl
  | .txt s :: rest, env, p => by
    simp only [itemsOf, segUnknowns, refUnknownsN_chrItems, refUnknownsN_itemsOf rest]
  | .defn name n body :: rest, env, p => by
    simp only [itemsOf, segUnknowns, refUnknownsN, refUnknownsN_itemsOf rest]
  | .ddef name n body :: rest, env, p => by
    simp only [itemsOf, segUnknowns, refUnknownsN, refUnknownsN_itemsOf rest]
  | .use name args :: rest, env, p => by
    simp only [itemsOf, segUnknowns, refUnknownsN, refUnknownsN_itemsOf rest]

/-- all side conditions on the tables, the initialised parser state and the document -/
def SegsOk (T : PTables) (st : PState) (segs : List Seg) : Prop :=
  noEmptyActive T st = true ∧ ncOk st = true ∧ segsOk T st segs = true

instance (T : PTables) (st : PState) (segs : List Seg) : Decidable (SegsOk T st segs) := by
  unfold SegsOk; infer_instance

/-- **C09 end to end, nested uses.** -/
theorem tex2txt_nested (T : PTables) (o : Options) (fs : FS) (thresh : Nat) (segs : List Seg)
    (fuel : Nat) (st1 : PState) (F : Nat) (marks : List Mark)
    (hdefs : o.defs = []) (hextr : o.extr = []) (hrepl : o.hasRepl = false) (hunkn : o.unkn = false)
    (hinit : initParser T fuel o (initialState T o false fs) = .ok ((), st1))
    (hok : SegsOk T st1 segs) (hm : segMarks F [] 0 segs = some marks) (hf : 2 * marks.length + 6 ≤ fuel) :
    ∃ r, tex2txt T fuel (render segs) o false thresh fs = .ok r ∧
      r.txt = (delLines marks).map (·.1) ∧
      r.pos = (delLines marks).map (·.2 + 1) ∧
      r.unknowns = (segUnknowns [] segs).eraseDups ∧
      r.diags = st1.diags ∧ r.parts = [] := by
  obtain ⟨ha, hnc, hsegs⟩ := hok
  have hsrc := OkSrc_of_segsOk T st1 segs 0 hsegs
  obtain ⟨toks, ht⟩ := tex2txt_nested_src T o fs thresh (render segs) fuel st1 _ F marks hdefs hextr hrepl hunkn
    hinit ha (NcOk_of_ncOk hnc) hsrc (by rw [refMarksN_itemsOf]; exact hm) hf
  rw [refUnknownsN_itemsOf] at ht
  exact ⟨_, ht, rfl, rfl, rfl, rfl, rfl⟩

end PlainDefTexNest
end Yalafi
