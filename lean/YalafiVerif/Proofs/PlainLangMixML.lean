/-
  Proofs/PlainLangMixML.lean — the multi-language splitter `get_txt_pos_ml` (`utils.py`) on ANY token
  list, as an explicit plan.  (First part of the END-TO-END theorem C12 for documents that mix
  `\selectlanguage`, `\foreignlanguage` and the `otherlanguage` environments; the expander part
  and the file header with all side conditions are in Proofs/PlainLangMix.lean.)

  `get_txt_pos_ml` = section loop + joining loop + grouping.
    * The section loop is `PlainForeign.secsItems` on the items of the token list (characters with
      positions, language tokens): `PlainForeign.sections_secsItems` (general: soft switches push,
      hard switches replace the top, switches back pop).
    * This file gives the JOINING LOOP as a plan that does not mention the language-change
      collections:
        `Comp`      a component of a piece of the result: a section of the input VERBATIM (`own`), or
                    the placeholder that stands for a short inclusion (`ph`)
        `Group`     a piece of the result — its language and its components — together with the
                    short inclusions that were cut out of it (they are pieces of their own and are
                    emitted BEFORE the piece they were cut out of)
        `canJoin`   the test of the loop (the "HEURISTIC" of `get_txt_pos_ml`)
        `joinPlan`, `planOf`   the plan for a list of sections
      and its rendering with the collections:
        `phChars`   what `ml_append_placeholder` appends for a non-blank inclusion
        `addComp`, `renderGroups`
      `joinLoop_plan`: the loop of the model computes `renderGroups lc (planOf thresh secs)` and never
      fails, provided every collection is non-empty and the fallback `en` has one (`lcOk`).
    * `getTxtPosML_plan`: `get_txt_pos_ml` on any token list.
    * what the plan keeps (`planSecs_perm`, `plan_own_lang`, `render_own`): every section of the
      input occurs verbatim exactly once in the plan, under its own language, and its characters
      keep their positions in the rendered piece.
-/
import YalafiVerif.Proofs.PlainForeignCor
namespace Yalafi
namespace PlainLangMix

open LinesLang (Item Mark ch isLg itemsOf)
open PlainLang (addPart groupSecs groupParts_fold shiftParts)
open PlainForeign (secsItems sections_secsItems mkSec emitSec rotate_ne_nil lcSet_keys groupSecs_congr
  proj idxOf_lt not_blank_any)

/-! ### the language-change collections -/

/-- every settings code has a non-empty language-change collection (`lang_change_repl`), and the
    fallback `en` of `check_parser_lang` is a settings code (otherwise Python raises in
    `ml_append_placeholder`) -/
def lcOk (lc : LangChange) : Bool :=
  lc.all (fun e => !e.2.isEmpty) && (lc.map (·.1)).contains "en".toList

theorem checkParserLang_mem (keys : List Str) (lang : Str) (h : keys.contains "en".toList = true) :
    checkParserLang keys lang ∈ keys := by
  unfold checkParserLang
  simp only []
  split
  · rename_i hc; simpa using hc
  · simpa using h

theorem lcOk_get (lc : LangChange) (h : lcOk lc = true) (lang : Str) :
    ∃ repl, lcGet lc (checkParserLang (lc.map (·.1)) lang) = some repl ∧ repl ≠ [] := by
  simp only [lcOk, Bool.and_eq_true, List.all_eq_true, Bool.not_eq_true', List.isEmpty_eq_false_iff] at h
  have hm := checkParserLang_mem (lc.map (·.1)) lang h.2
  obtain ⟨e, he, hk⟩ := List.mem_map.mp hm
  unfold lcGet
  cases hf : lc.find? (·.1 == checkParserLang (lc.map (·.1)) lang) with
  | none =>
    have := List.find?_eq_none.mp hf e he
    simp [hk] at this
  | some x =>
    exact ⟨x.2, rfl, h.1 x (List.mem_of_find?_eq_some hf)⟩

theorem lcOk_set (lc : LangChange) (h : lcOk lc = true) (k : Str) (v : List Str) (hv : v ≠ []) :
    lcOk (lcSet lc k v) = true := by
  simp only [lcOk, Bool.and_eq_true] at h ⊢
  refine ⟨?_, by rw [lcSet_keys]; exact h.2⟩
  rw [List.all_eq_true] at h ⊢
  intro e he
  unfold lcSet at he
  obtain ⟨x, hx, rfl⟩ := List.mem_map.mp he
  split
  · simpa using hv
  · exact h.1 x hx

/-! ### the plan -/

/-- a component of a piece of the result: a section of the input, verbatim; or the placeholder
    that stands for the short inclusion `incl` -/
inductive Comp where
  | own (s : Sec)
  | ph (incl : Sec)
deriving Repr, DecidableEq

/-- a piece of the result (language, components in order) and the short inclusions cut out of it:
    each of them is a piece of its own, emitted before this piece -/
structure Group where
  lang : Str
  comps : List Comp
  incls : List Sec
deriving Repr, DecidableEq

/-- the test of the joining loop for the section `s1` behind a piece of language `lang`, `next` = the
    language of the section behind `s1` (if any): `s1` was not started by a switch that forces a
    break (`\selectlanguage`) nor by a switch back (the end of a scope); the section behind it
    continues in the language of the piece; `s1` has at most `thresh` words -/
def canJoin (thresh : Nat) (lang : Str) (s1 : Sec) (next : Option Str) : Bool :=
  !s1.brk && !s1.back && (match next with | none => true | some l => lang == l) &&
    checkLangSection thresh s1

/-- more components and inclusions for the first group -/
def consHead (c : List Comp) (i : List Sec) : List Group → List Group
  | [] => []
  | g :: gs => { g with comps := c ++ g.comps, incls := i ++ g.incls } :: gs

/-- **the plan for the sections that follow a piece of language `lang`**; the first group is the
    continuation of that piece.  A section that passes `canJoin` is cut out: it becomes an inclusion
    of the current piece, which gets a placeholder and continues with the section behind it;
    any other section ends the current piece and starts the next one. -/
def joinPlan (thresh : Nat) : Str → List Sec → List Group
  | lang, [] => [⟨lang, [], []⟩]
  | lang, s1 :: rest2 =>
    if canJoin thresh lang s1 (rest2.head?.map (·.lang)) then
      match rest2 with
      | [] => [⟨lang, [.ph s1], [s1]⟩]
      | s2 :: rest3 => consHead [.ph s1, .own s2] [s1] (joinPlan thresh lang rest3)
    else ⟨lang, [], []⟩ :: consHead [.own s1] [] (joinPlan thresh s1.lang rest2)

/-- **the plan for a list of sections** -/
def planOf (thresh : Nat) : List Sec → List Group
  | [] => []
  | s0 :: rest => consHead [.own s0] [] (joinPlan thresh s0.lang rest)

theorem joinPlan_cons (thresh : Nat) (lang : Str) (s1 : Sec) (rest2 : List Sec) :
    joinPlan thresh lang (s1 :: rest2) =
      if canJoin thresh lang s1 (rest2.head?.map (·.lang)) then
        match rest2 with
        | [] => [⟨lang, [.ph s1], [s1]⟩]
        | s2 :: rest3 => consHead [.ph s1, .own s2] [s1] (joinPlan thresh lang rest3)
      else ⟨lang, [], []⟩ :: consHead [.own s1] [] (joinPlan thresh s1.lang rest2) := by
  cases rest2 <;> simp only [joinPlan]

/-- **a short inclusion inside a sentence**: three sections `a b c` where `b` passes the test — the
    piece of `a` gets ONE placeholder for `b` and continues with `c`; `b` is a piece of its own,
    emitted before it -/
theorem planOf_short (thresh : Nat) (a b c : Sec) (h : canJoin thresh a.lang b (some c.lang) = true) :
    planOf thresh [a, b, c] = [⟨a.lang, [.own a, .ph b, .own c], [b]⟩] := by
  simp [planOf, joinPlan, h, consHead]

/-- **a long inclusion (or a breaking switch, or a switch back) cuts**: if neither `b` nor `c`
    passes the test the three sections are three pieces -/
theorem planOf_long (thresh : Nat) (a b c : Sec) (h1 : canJoin thresh a.lang b (some c.lang) = false)
    (h2 : canJoin thresh b.lang c none = false) :
    planOf thresh [a, b, c] = [⟨a.lang, [.own a], []⟩, ⟨b.lang, [.own b], []⟩, ⟨c.lang, [.own c], []⟩] := by
  simp [planOf, joinPlan, h1, h2, consHead]

theorem joinPlan_ne (thresh : Nat) : ∀ (rest : List Sec) (lang : Str), joinPlan thresh lang rest ≠ []
  | [], _ => by simp [joinPlan]
  | [s1], lang => by
    simp only [joinPlan]
    split <;> simp
  | s1 :: s2 :: rest3, lang => by
    simp only [joinPlan]
    split
    · have := joinPlan_ne thresh rest3 lang
      cases h : joinPlan thresh lang rest3 with
      | nil => exact absurd h this
      | cons g gs => simp [consHead]
    · simp

theorem consHead_head_lang (c : List Comp) (i : List Sec) (gs : List Group) (g : Group)
    (h : (consHead c i gs).head? = some g) : ∃ g0, gs.head? = some g0 ∧ g.lang = g0.lang := by
  cases gs with
  | nil => simp [consHead] at h
  | cons g0 gs =>
    simp only [consHead, List.head?_cons, Option.some.injEq] at h
    exact ⟨g0, rfl, by rw [← h]⟩

/-- the first group of the plan continues the current piece -/
theorem joinPlan_head_lang (thresh : Nat) : ∀ (rest : List Sec) (lang : Str) (g : Group),
    (joinPlan thresh lang rest).head? = some g → g.lang = lang
  | [], lang, g, h => by
    simp only [joinPlan, List.head?_cons, Option.some.injEq] at h
    rw [← h]
  | [s1], lang, g, h => by
    simp only [joinPlan] at h
    split at h <;> simp only [List.head?_cons, Option.some.injEq] at h <;> rw [← h]
  | s1 :: s2 :: rest3, lang, g, h => by
    simp only [joinPlan] at h
    split at h
    · obtain ⟨g0, h0, hl⟩ := consHead_head_lang _ _ _ g h
      rw [hl]
      exact joinPlan_head_lang thresh rest3 lang g0 h0
    · simp only [List.head?_cons, Option.some.injEq] at h
      rw [← h]

/-! ### the rendering -/

/-- what `ml_append_placeholder` appends to the surrounding section for the NON-BLANK inclusion
    `incl`: the placeholder `r0`, every character of it at the position of the first visible
    character of the inclusion; in front of it the first character of the inclusion if that is
    white space, behind it the last one if that is white space (issue 117), at their own
    positions -/
def phChars (r0 : Str) (incl : Sec) : Str × List Nat :=
  let p := (incl.pos[idxOf (fun c => !isSpace c) incl.txt]?).getD 0
  let c0 := incl.txt.head?.getD ' '
  let cl := incl.txt.getLast?.getD ' '
  ((if isSpace c0 then [c0] else []) ++ r0 ++ (if isSpace cl then [cl] else []),
   (if isSpace c0 then [incl.pos.head?.getD 0] else []) ++ List.replicate r0.length p ++
     (if isSpace cl then [incl.pos.getLast?.getD 0] else []))

/-- a piece while it is rendered: text, positions, the collections in their current rotation -/
structure Acc where
  txt : Str
  pos : List Nat
  lc : LangChange
deriving Repr

/-- one component is appended to a piece of language `lang`: a section verbatim; a blank inclusion
    verbatim; for any other inclusion the collection of (the settings of) `lang` is rotated by one
    FIRST and its new head is the placeholder -/
def addComp (lang : Str) (a : Acc) : Comp → Acc
  | .own s => { a with txt := a.txt ++ s.txt, pos := a.pos ++ s.pos }
  | .ph incl =>
    if isBlank incl.txt then { a with txt := a.txt ++ incl.txt, pos := a.pos ++ incl.pos }
    else
      let key := checkParserLang (a.lc.map (·.1)) lang
      let repl := rotate ((lcGet a.lc key).getD [])
      let t := phChars (repl.headD []) incl
      { txt := a.txt ++ t.1, pos := a.pos ++ t.2, lc := lcSet a.lc key repl }

/-- a rendered piece as a section (the flags do not matter any more) -/
def accSec (lang : Str) (a : Acc) : Sec := { lang := lang, back := false, brk := false, txt := a.txt, pos := a.pos }

/-- the groups rendered in order, the first one continuing the piece `a`: the inclusions of a
    group first, then its piece; the collections are handed on -/
def renderFrom : Acc → List Group → List Sec
  | _, [] => []
  | a, g :: gs =>
    g.incls ++ accSec g.lang (g.comps.foldl (addComp g.lang) a) ::
      renderFrom ⟨[], [], (g.comps.foldl (addComp g.lang) a).lc⟩ gs

/-- **the pieces of the result**, in the order in which `get_txt_pos_ml` produces them -/
def renderGroups (lc : LangChange) (gs : List Group) : List Sec := renderFrom ⟨[], [], lc⟩ gs

theorem renderFrom_consHead (a : Acc) (c : List Comp) (i : List Sec) (g : Group) (gs : List Group) :
    renderFrom a (consHead c i (g :: gs)) = i ++ renderFrom (c.foldl (addComp g.lang) a) (g :: gs) := by
  simp [consHead, renderFrom, List.foldl_append]

/-! ### `ml_append_placeholder` -/

/-- a section as the section loop produces it: not empty, one position per character -/
structure SecWf (s : Sec) : Prop where
  ne : s.txt ≠ []
  len : s.pos.length = s.txt.length

theorem addComp_lcOk (lang : Str) (a : Acc) (c : Comp) (h : lcOk a.lc = true) :
    lcOk (addComp lang a c).lc = true := by
  cases c with
  | own s => exact h
  | ph incl =>
    simp only [addComp]
    split
    · exact h
    · obtain ⟨repl, hg, hne⟩ := lcOk_get a.lc h lang
      simp only [hg, Option.getD_some]
      exact lcOk_set a.lc h _ _ (rotate_ne_nil repl hne)

/-- **`ml_append_placeholder`** never fails on a well-formed inclusion and is `addComp … (.ph incl)` -/
theorem appendPlaceholder_addComp (a : Acc) (s0 incl : Sec) (h : lcOk a.lc = true) (hw : SecWf incl)
    (ht : s0.txt = a.txt) (hp : s0.pos = a.pos) :
    appendPlaceholder a.lc s0 incl
      = some ({ s0 with txt := (addComp s0.lang a (.ph incl)).txt, pos := (addComp s0.lang a (.ph incl)).pos },
              (addComp s0.lang a (.ph incl)).lc) := by
  unfold appendPlaceholder
  simp only [addComp]
  by_cases hb : isBlank incl.txt = true
  · simp only [hb, if_true, ht, hp]
  · have hb' : isBlank incl.txt = false := by simpa using hb
    simp only [hb', Bool.false_eq_true, if_false]
    obtain ⟨repl, hg, hne⟩ := lcOk_get a.lc h s0.lang
    obtain ⟨r0, rt, hrot⟩ : ∃ r0 rt, rotate repl = r0 :: rt := by
      cases hr : rotate repl with
      | nil => exact absurd hr (rotate_ne_nil repl hne)
      | cons x t => exact ⟨x, t, rfl⟩
    have hlt := idxOf_lt (fun c => !isSpace c) incl.txt (not_blank_any incl.txt hb')
    obtain ⟨c0, cs, htxt⟩ : ∃ c0 cs, incl.txt = c0 :: cs := by
      cases hx : incl.txt with
      | nil => exact absurd hx hw.ne
      | cons c cs => exact ⟨c, cs, rfl⟩
    obtain ⟨p0, ps, hpos⟩ : ∃ p0 ps, incl.pos = p0 :: ps := by
      cases hx : incl.pos with
      | nil => have := hw.len; rw [hx, htxt] at this; simp at this
      | cons p ps => exact ⟨p, ps, rfl⟩
    obtain ⟨cl, hcl⟩ : ∃ cl, incl.txt.getLast? = some cl := by
      rw [htxt]; simp [List.getLast?_eq_some_getLast]
    obtain ⟨pl, hpl⟩ : ∃ pl, incl.pos.getLast? = some pl := by
      rw [hpos]; simp [List.getLast?_eq_some_getLast]
    obtain ⟨p, hpp⟩ : ∃ p, incl.pos[idxOf (fun c => !isSpace c) incl.txt]? = some p := by
      rw [List.getElem?_eq_getElem (by rw [hw.len]; exact hlt)]
      exact ⟨_, rfl⟩
    have hh0 : incl.txt.head? = some c0 := by rw [htxt]; rfl
    have hh1 : incl.pos.head? = some p0 := by rw [hpos]; rfl
    simp only [hg, hrot, List.head?_cons, hpp, hh0, hh1, hcl, hpl, Option.getD_some, phChars,
      List.headD_cons, ht, hp]
    cases isSpace c0 <;> cases isSpace cl <;> simp

/-! ### the joining loop -/

theorem canJoin_eq (thresh : Nat) (s0 s1 : Sec) (rest2 : List Sec) :
    (!s1.brk && !s1.back && (match rest2 with | [] => true | s2 :: _ => s0.lang == s2.lang)
      && checkLangSection thresh s1) = canJoin thresh s0.lang s1 (rest2.head?.map (·.lang)) := by
  cases rest2 <;> rfl

theorem proj_accSec (s0 : Sec) (a : Acc) (ht : s0.txt = a.txt) (hp : s0.pos = a.pos) :
    proj s0 = proj (accSec s0.lang a) := by
  simp [proj, accSec, ht, hp]

theorem joinLoop_cons2 (thresh f : Nat) (lc : LangChange) (s0 s1 : Sec) (rest2 out : List Sec) :
    joinLoop thresh (f + 1) lc (s0 :: s1 :: rest2) out =
      if canJoin thresh s0.lang s1 (rest2.head?.map (·.lang)) then
        match appendPlaceholder lc s0 s1 with
        | none => none
        | some (s0', lc') =>
          match rest2 with
          | [] => joinLoop thresh f lc' [s0'] (out ++ [s1])
          | s2 :: rest3 =>
            joinLoop thresh f lc' ({ s0' with txt := s0'.txt ++ s2.txt, pos := s0'.pos ++ s2.pos } :: rest3)
              (out ++ [s1])
      else joinLoop thresh f lc (s1 :: rest2) (out ++ [s0]) := by
  cases rest2 <;> simp only [joinLoop, canJoin, List.head?_cons, List.head?_nil, Option.map_some, Option.map_none]
    <;> split <;> rename_i h <;> simp only [h, if_true, if_false, Bool.false_eq_true]
    <;> cases appendPlaceholder lc s0 s1 <;> rfl

theorem joinLoop_one (thresh f : Nat) (lc : LangChange) (s0 : Sec) (out : List Sec) :
    joinLoop thresh (f + 1) lc [s0] out = some (out ++ [s0], lc) := by
  cases f <;> simp [joinLoop]

/-- **the joining loop of the model follows the plan.**  `s0` is the current piece, rendered so
    far as `a`; `rest` are the sections behind it. -/
theorem joinLoop_plan (thresh : Nat) : ∀ (n : Nat) (rest : List Sec), rest.length ≤ n →
    ∀ (s0 : Sec) (a : Acc) (out : List Sec) (fuel : Nat),
      (∀ s ∈ rest, SecWf s) → lcOk a.lc = true → s0.txt = a.txt → s0.pos = a.pos →
      rest.length + 1 ≤ fuel →
      ∃ res lc', joinLoop thresh fuel a.lc (s0 :: rest) out = some (out ++ res, lc') ∧
        res.map proj = (renderFrom a (joinPlan thresh s0.lang rest)).map proj := by
  intro n
  induction n with
  | zero =>
    intro rest hn s0 a out fuel _ _ ht hp hf
    have : rest = [] := by cases rest <;> simp_all
    subst this
    obtain ⟨f, rfl⟩ : ∃ f, fuel = f + 1 := ⟨fuel - 1, by simp at hf; omega⟩
    exact ⟨[s0], a.lc, joinLoop_one .., by simp [joinPlan, renderFrom, proj_accSec s0 a ht hp]⟩
  | succ n ih =>
    intro rest hn s0 a out fuel hwf hlc ht hp hf
    cases rest with
    | nil =>
      obtain ⟨f, rfl⟩ : ∃ f, fuel = f + 1 := ⟨fuel - 1, by simp at hf; omega⟩
      exact ⟨[s0], a.lc, joinLoop_one .., by simp [joinPlan, renderFrom, proj_accSec s0 a ht hp]⟩
    | cons s1 rest2 =>
      obtain ⟨f, rfl⟩ : ∃ f, fuel = f + 1 := ⟨fuel - 1, by simp at hf; omega⟩
      have hw1 : SecWf s1 := hwf s1 (List.mem_cons_self ..)
      have hwf2 : ∀ s ∈ rest2, SecWf s := fun s hs => hwf s (List.mem_cons_of_mem _ hs)
      simp only [List.length_cons] at hn hf
      rw [joinLoop_cons2]
      by_cases hj : canJoin thresh s0.lang s1 (rest2.head?.map (·.lang)) = true
      · -- a short inclusion
        have hph := appendPlaceholder_addComp a s0 s1 hlc hw1 ht hp
        have hlc' := addComp_lcOk s0.lang a (.ph s1) hlc
        rw [if_pos hj, hph]
        cases rest2 with
        | nil =>
          obtain ⟨g, rfl⟩ : ∃ g, f = g + 1 := ⟨f - 1, by simp at hf; omega⟩
          refine ⟨[s1, { s0 with txt := (addComp s0.lang a (.ph s1)).txt,
                                 pos := (addComp s0.lang a (.ph s1)).pos }],
            (addComp s0.lang a (.ph s1)).lc, ?_, ?_⟩
          · simp only [joinLoop_one]
            simp
          · simp only [joinPlan, hj, if_true, renderFrom, List.foldl_cons, List.foldl_nil,
              List.map_cons, List.map_nil, List.singleton_append]
            simp [proj, accSec]
        | cons s2 rest3 =>
          have hlang : s2.lang = s0.lang := by
            simp only [canJoin, List.head?_cons, Option.map_some, Bool.and_eq_true, beq_iff_eq] at hj
            exact hj.1.2.symm
          obtain ⟨res, lc', h1, h2⟩ := ih rest3 (by simp only [List.length_cons] at hn; omega)
            { s0 with txt := (addComp s0.lang a (.ph s1)).txt ++ s2.txt,
                      pos := (addComp s0.lang a (.ph s1)).pos ++ s2.pos }
            (addComp s0.lang (addComp s0.lang a (.ph s1)) (.own s2)) (out ++ [s1]) f
            (fun s hs => hwf2 s (List.mem_cons_of_mem _ hs)) hlc' rfl rfl
            (by simp only [List.length_cons] at hf; omega)
          refine ⟨s1 :: res, lc', ?_, ?_⟩
          · simp only []
            have e : (addComp s0.lang (addComp s0.lang a (.ph s1)) (.own s2)).lc
                = (addComp s0.lang a (.ph s1)).lc := rfl
            rw [e] at h1
            rw [h1]
            simp
          · obtain ⟨g, gs, hg⟩ : ∃ g gs, joinPlan thresh s0.lang rest3 = g :: gs := by
              cases h : joinPlan thresh s0.lang rest3 with
              | nil => exact absurd h (joinPlan_ne thresh rest3 s0.lang)
              | cons g gs => exact ⟨g, gs, rfl⟩
            have hgl : g.lang = s0.lang := joinPlan_head_lang thresh rest3 s0.lang g (by rw [hg]; rfl)
            simp only [joinPlan, hj, if_true, hg, renderFrom_consHead, List.map_cons,
              List.singleton_append, hgl, List.foldl_cons, List.foldl_nil]
            rw [h2, hg]
      · -- the piece ends
        rw [if_neg hj]
        have hj' : canJoin thresh s0.lang s1 (rest2.head?.map (·.lang)) = false := by simpa using hj
        obtain ⟨res, lc', h1, h2⟩ := ih rest2 (by omega) s1 ⟨s1.txt, s1.pos, a.lc⟩ (out ++ [s0]) f
          hwf2 hlc rfl rfl (by omega)
        refine ⟨s0 :: res, lc', ?_, ?_⟩
        · rw [h1]; simp
        · obtain ⟨g, gs, hg⟩ : ∃ g gs, joinPlan thresh s1.lang rest2 = g :: gs := by
            cases h : joinPlan thresh s1.lang rest2 with
            | nil => exact absurd h (joinPlan_ne thresh rest2 s1.lang)
            | cons g gs => exact ⟨g, gs, rfl⟩
          have hgl : g.lang = s1.lang := joinPlan_head_lang thresh rest2 s1.lang g (by rw [hg]; rfl)
          rw [hg] at h2
          rw [joinPlan_cons, if_neg hj, hg, renderFrom, renderFrom_consHead]
          simp only [List.foldl_nil, List.nil_append, List.map_cons, List.foldl_cons, hgl, addComp, h2]
          rw [proj_accSec s0 a ht hp]

/-! ### `get_txt_pos_ml` on any token list -/

theorem emitSec_wf (l : Str) (b k : Bool) (acc : List (Char × Nat)) : ∀ s ∈ emitSec l b k acc, SecWf s := by
  intro s hs
  unfold emitSec at hs
  split at hs
  · cases hs
  · rename_i hne
    rw [List.mem_singleton] at hs
    subst hs
    refine ⟨?_, by simp [mkSec]⟩
    intro e
    apply hne
    simp only [mkSec, List.map_eq_nil_iff] at e
    simp [e]

/-- the sections of the section loop are well-formed -/
theorem secsItems_wf : ∀ (items : List Item) (stack : List Str) (back brk : Bool) (acc : List (Char × Nat)),
    ∀ s ∈ secsItems stack back brk acc items, SecWf s
  | [], stack, back, brk, acc => emitSec_wf _ _ _ _
  | .inl cp :: xs, stack, back, brk, acc => by
    simp only [secsItems]
    exact secsItems_wf xs stack back brk _
  | .inr t :: xs, stack, back, brk, acc => by
    simp only [secsItems]
    split
    · split
      · exact secsItems_wf xs _ back brk acc
      · intro s hs
        rcases List.mem_append.mp hs with hs | hs
        · exact emitSec_wf _ _ _ _ s hs
        · exact secsItems_wf xs _ _ _ [] s hs
    · exact secsItems_wf xs stack back brk acc

/-- the sections of a token list (`mainLang` = the initial language) -/
def secsOf (main : Str) (items : List Item) : List Sec := secsItems [main] false false [] items

/-- **`get_txt_pos_ml` on ANY token list**: it never fails if `lcOk lc`, and its result is the
    plan of the sections of the items, rendered and grouped by language code -/
theorem getTxtPosML_plan (toks : List Tok) (main : Str) (thresh : Nat) (lc : LangChange)
    (h : lcOk lc = true) :
    ∃ lc', getTxtPosML toks main thresh lc
      = some (groupSecs (renderGroups lc (planOf thresh (secsOf main (itemsOf toks)))), lc') := by
  unfold getTxtPosML secsOf
  simp only [sections_secsItems]
  generalize hS : secsItems [main] false false [] (itemsOf toks) = secs
  have hwf : ∀ s ∈ secs, SecWf s := by rw [← hS]; exact secsItems_wf _ _ _ _ _
  cases secs with
  | nil =>
    refine ⟨lc, ?_⟩
    simp [joinLoop, groupParts, planOf, renderGroups, renderFrom, groupSecs]
  | cons s0 rest =>
    obtain ⟨res, lc', h1, h2⟩ := joinLoop_plan thresh rest.length rest (Nat.le_refl _) s0
      ⟨s0.txt, s0.pos, lc⟩ [] (s0 :: rest).length (fun s hs => hwf s (List.mem_cons_of_mem _ hs)) h rfl rfl
      (by simp)
    refine ⟨lc', ?_⟩
    simp only [] at h1
    rw [h1]
    simp only [List.nil_append, groupParts_fold]
    have : groupSecs res = groupSecs (renderGroups lc (planOf thresh (s0 :: rest))) := by
      apply groupSecs_congr
      rw [h2]
      obtain ⟨g, gs, hg⟩ : ∃ g gs, joinPlan thresh s0.lang rest = g :: gs := by
        cases h : joinPlan thresh s0.lang rest with
        | nil => exact absurd h (joinPlan_ne thresh rest s0.lang)
        | cons g gs => exact ⟨g, gs, rfl⟩
      simp [planOf, renderGroups, hg, renderFrom_consHead, addComp]
    rw [← this]
    rfl

/-! ### what the plan keeps -/

def compOwn : Comp → List Sec
  | .own s => [s]
  | .ph _ => []

/-- the sections of the input that a group holds verbatim: its `own` components and its inclusions -/
def groupOwn (g : Group) : List Sec := g.comps.flatMap compOwn ++ g.incls

def planSecs (gs : List Group) : List Sec := gs.flatMap groupOwn

theorem planSecs_consHead (c : List Comp) (i : List Sec) (g : Group) (gs : List Group) :
    (planSecs (consHead c i (g :: gs))).Perm (c.flatMap compOwn ++ i ++ planSecs (g :: gs)) := by
  simp only [planSecs, consHead, List.flatMap_cons, groupOwn, List.flatMap_append, List.append_assoc]
  refine List.Perm.append_left _ ?_
  have h : ∀ (A B R : List Sec), (A ++ (B ++ R)).Perm (B ++ (A ++ R)) := by
    intro A B R
    rw [← List.append_assoc, ← List.append_assoc]
    exact List.Perm.append_right _ List.perm_append_comm
  exact h _ _ _

theorem joinPlan_perm (thresh : Nat) : ∀ (n : Nat) (rest : List Sec), rest.length ≤ n → ∀ (lang : Str),
    (planSecs (joinPlan thresh lang rest)).Perm rest := by
  intro n
  induction n with
  | zero =>
    intro rest hn lang
    have : rest = [] := by cases rest <;> simp_all
    subst this
    simp [joinPlan, planSecs, groupOwn]
  | succ n ih =>
    intro rest hn lang
    cases rest with
    | nil => simp [joinPlan, planSecs, groupOwn]
    | cons s1 rest2 =>
      simp only [List.length_cons] at hn
      rw [joinPlan_cons]
      split
      · cases rest2 with
        | nil => simp [planSecs, groupOwn, compOwn]
        | cons s2 rest3 =>
          simp only [List.length_cons] at hn
          obtain ⟨g, gs, hg⟩ : ∃ g gs, joinPlan thresh lang rest3 = g :: gs := by
            cases h : joinPlan thresh lang rest3 with
            | nil => exact absurd h (joinPlan_ne thresh rest3 lang)
            | cons g gs => exact ⟨g, gs, rfl⟩
          simp only []
          rw [hg]
          refine (planSecs_consHead _ _ g gs).trans ?_
          rw [← hg]
          have := ih rest3 (by omega) lang
          simp only [List.flatMap_cons, List.flatMap_nil, compOwn, List.nil_append, List.append_nil,
            List.cons_append]
          exact (List.Perm.swap _ _ _).trans ((this.cons _).cons _)
      · obtain ⟨g, gs, hg⟩ : ∃ g gs, joinPlan thresh s1.lang rest2 = g :: gs := by
          cases h : joinPlan thresh s1.lang rest2 with
          | nil => exact absurd h (joinPlan_ne thresh rest2 s1.lang)
          | cons g gs => exact ⟨g, gs, rfl⟩
        rw [hg]
        have h0 : planSecs (⟨lang, [], []⟩ :: consHead [Comp.own s1] [] (g :: gs))
            = planSecs (consHead [Comp.own s1] [] (g :: gs)) := by
          simp [planSecs, groupOwn]
        rw [h0]
        refine (planSecs_consHead _ _ g gs).trans ?_
        rw [← hg]
        have := ih rest2 (by omega) s1.lang
        simp only [List.flatMap_cons, List.flatMap_nil, compOwn, List.append_nil, List.singleton_append]
        exact this.cons _

/-- **every section of the input occurs verbatim exactly once in the plan** (as an `own`
    component of a piece, or as an inclusion, i.e. a piece of its own) -/
theorem planOf_perm (thresh : Nat) (secs : List Sec) : (planSecs (planOf thresh secs)).Perm secs := by
  cases secs with
  | nil => simp [planOf, planSecs]
  | cons s0 rest =>
    obtain ⟨g, gs, hg⟩ : ∃ g gs, joinPlan thresh s0.lang rest = g :: gs := by
      cases h : joinPlan thresh s0.lang rest with
      | nil => exact absurd h (joinPlan_ne thresh rest s0.lang)
      | cons g gs => exact ⟨g, gs, rfl⟩
    simp only [planOf, hg]
    refine (planSecs_consHead _ _ g gs).trans ?_
    rw [← hg]
    simp only [List.flatMap_cons, List.flatMap_nil, compOwn, List.append_nil, List.singleton_append]
    exact (joinPlan_perm thresh rest.length rest (Nat.le_refl _) s0.lang).cons _

theorem mem_consHead {c : List Comp} {i : List Sec} {gs : List Group} {g : Group}
    (h : g ∈ consHead c i gs) :
    (∃ g0 gs', gs = g0 :: gs' ∧ g = { g0 with comps := c ++ g0.comps, incls := i ++ g0.incls }) ∨
    (g ∈ gs.tail) := by
  cases gs with
  | nil => simp [consHead] at h
  | cons g0 gs' =>
    simp only [consHead, List.mem_cons] at h
    rcases h with rfl | h
    · exact Or.inl ⟨g0, gs', rfl, rfl⟩
    · exact Or.inr h

/-- a section that is a verbatim component of a piece has the language of the piece -/
theorem joinPlan_own_lang (thresh : Nat) : ∀ (n : Nat) (rest : List Sec), rest.length ≤ n → ∀ (lang : Str),
    ∀ g ∈ joinPlan thresh lang rest, ∀ s, Comp.own s ∈ g.comps → s.lang = g.lang := by
  intro n
  induction n with
  | zero =>
    intro rest hn lang g hg s hs
    have : rest = [] := by cases rest <;> simp_all
    subst this
    simp only [joinPlan, List.mem_singleton] at hg
    subst hg
    cases hs
  | succ n ih =>
    intro rest hn lang g hg s hs
    cases rest with
    | nil =>
      simp only [joinPlan, List.mem_singleton] at hg
      subst hg
      cases hs
    | cons s1 rest2 =>
      simp only [List.length_cons] at hn
      rw [joinPlan_cons] at hg
      split at hg
      · rename_i hj
        cases rest2 with
        | nil =>
          simp only [List.mem_singleton] at hg
          subst hg
          simp at hs
        | cons s2 rest3 =>
          simp only [List.length_cons] at hn
          have hlang : s2.lang = lang := by
            simp only [canJoin, List.head?_cons, Option.map_some, Bool.and_eq_true, beq_iff_eq] at hj
            exact hj.1.2.symm
          simp only [] at hg
          rcases mem_consHead hg with ⟨g0, gs', hg0, rfl⟩ | hg
          · have hgl : g0.lang = lang := joinPlan_head_lang thresh rest3 lang g0 (by rw [hg0]; rfl)
            simp only [List.mem_append, List.mem_cons, reduceCtorEq, Comp.own.injEq, List.not_mem_nil,
              or_false, false_or] at hs
            rcases hs with rfl | hs
            · rw [hlang, hgl]
            · exact ih rest3 (by omega) lang g0 (by rw [hg0]; exact List.mem_cons_self ..) s hs
          · exact ih rest3 (by omega) lang g (List.mem_of_mem_tail hg) s hs
      · simp only [List.mem_cons] at hg
        rcases hg with rfl | hg
        · cases hs
        · rcases mem_consHead hg with ⟨g0, gs', hg0, rfl⟩ | hg
          · have hgl : g0.lang = s1.lang := joinPlan_head_lang thresh rest2 s1.lang g0 (by rw [hg0]; rfl)
            simp only [List.mem_append, List.mem_cons, Comp.own.injEq, List.not_mem_nil, or_false] at hs
            rcases hs with rfl | hs
            · exact hgl.symm
            · exact ih rest2 (by omega) s1.lang g0 (by rw [hg0]; exact List.mem_cons_self ..) s hs
          · exact ih rest2 (by omega) s1.lang g (List.mem_of_mem_tail hg) s hs

/-- **a section that is a verbatim component of a piece has the language of the piece** -/
theorem planOf_own_lang (thresh : Nat) (secs : List Sec) :
    ∀ g ∈ planOf thresh secs, ∀ s, Comp.own s ∈ g.comps → s.lang = g.lang := by
  intro g hg s hs
  cases secs with
  | nil => simp [planOf] at hg
  | cons s0 rest =>
    simp only [planOf] at hg
    rcases mem_consHead hg with ⟨g0, gs', hg0, rfl⟩ | hg
    · have hgl : g0.lang = s0.lang := joinPlan_head_lang thresh rest s0.lang g0 (by rw [hg0]; rfl)
      simp only [List.mem_append, List.mem_cons, Comp.own.injEq, List.not_mem_nil, or_false] at hs
      rcases hs with rfl | hs
      · exact hgl.symm
      · exact joinPlan_own_lang thresh rest.length rest (Nat.le_refl _) s0.lang g0
          (by rw [hg0]; exact List.mem_cons_self ..) s hs
    · exact joinPlan_own_lang thresh rest.length rest (Nat.le_refl _) s0.lang g
        (List.mem_of_mem_tail hg) s hs

/-! ### the rendering keeps the characters of the verbatim components -/

def secChars (s : Sec) : List (Char × Nat) := s.txt.zip s.pos
def accChars (a : Acc) : List (Char × Nat) := a.txt.zip a.pos

/-- the sections a component mentions are well-formed -/
def CompWf : Comp → Prop
  | .own s => SecWf s
  | .ph s => SecWf s

theorem addComp_chars (lang : Str) (a : Acc) (c : Comp) (ha : a.pos.length = a.txt.length)
    (hc : CompWf c) :
    (addComp lang a c).pos.length = (addComp lang a c).txt.length ∧
    ∃ extra, accChars (addComp lang a c) = accChars a ++ extra ∧ ∀ s, c = .own s → extra = secChars s := by
  cases c with
  | own s =>
    have hl : s.pos.length = s.txt.length := hc.len
    refine ⟨by simp [addComp, ha, hl], secChars s, ?_, fun s' h => by cases h; rfl⟩
    simp only [accChars, addComp, secChars]
    exact List.zip_append ha.symm
  | ph incl =>
    have hl : incl.pos.length = incl.txt.length := hc.len
    simp only [addComp]
    split
    · refine ⟨by simp [ha, hl], incl.txt.zip incl.pos, ?_, fun s h => by cases h⟩
      simp only [accChars]
      exact List.zip_append ha.symm
    · have hlen : ∀ r0, (phChars r0 incl).2.length = (phChars r0 incl).1.length := by
        intro r0
        simp only [phChars]
        split <;> split <;> simp
      exact ⟨by simp [ha, hlen], _, List.zip_append ha.symm, fun s h => by cases h⟩

theorem fold_chars (lang : Str) : ∀ (comps : List Comp) (a : Acc), a.pos.length = a.txt.length →
    (∀ c ∈ comps, CompWf c) →
    (comps.foldl (addComp lang) a).pos.length = (comps.foldl (addComp lang) a).txt.length ∧
    (∀ cp ∈ accChars a, cp ∈ accChars (comps.foldl (addComp lang) a)) ∧
    ∀ s, Comp.own s ∈ comps → ∀ cp ∈ secChars s, cp ∈ accChars (comps.foldl (addComp lang) a)
  | [], a, ha, _ => ⟨ha, fun _ h => h, fun s hs => by cases hs⟩
  | c :: cs, a, ha, hw => by
    obtain ⟨h1, extra, h2, h3⟩ := addComp_chars lang a c ha (hw c (List.mem_cons_self ..))
    obtain ⟨i1, i2, i3⟩ := fold_chars lang cs (addComp lang a c) h1
      (fun x hx => hw x (List.mem_cons_of_mem _ hx))
    refine ⟨i1, ?_, ?_⟩
    · intro cp hcp
      exact i2 cp (by rw [h2]; exact List.mem_append_left _ hcp)
    · intro s hs cp hcp
      rcases List.mem_cons.mp hs with rfl | hs
      · exact i2 cp (by rw [h2, h3 s rfl]; exact List.mem_append_right _ hcp)
      · exact i3 s hs cp hcp

def GroupWf (g : Group) : Prop := ∀ c ∈ g.comps, CompWf c

/-- **the rendered pieces hold the verbatim sections**: an inclusion is a piece of the result as it
    is; an `own` component of a group is part of the rendered piece of the group (same language
    by `planOf_own_lang`), every character with its position -/
theorem renderFrom_own : ∀ (gs : List Group) (a : Acc), a.pos.length = a.txt.length →
    (∀ g ∈ gs, GroupWf g) →
    ∀ g ∈ gs, (∀ s ∈ g.incls, s ∈ renderFrom a gs) ∧
      ∀ s, Comp.own s ∈ g.comps → ∃ sec ∈ renderFrom a gs, sec.lang = g.lang ∧
        ∀ cp ∈ secChars s, cp ∈ secChars sec
  | [], _, _, _ => by intro g hg; cases hg
  | g0 :: gs, a, ha, hw => by
    intro g hg
    rcases List.mem_cons.mp hg with rfl | hg
    · refine ⟨fun s hs => ?_, fun s hs => ?_⟩
      · simp only [renderFrom, List.mem_append, List.mem_cons]
        exact Or.inl hs
      · obtain ⟨_, _, i3⟩ := fold_chars g.lang g.comps a ha (hw g (List.mem_cons_self ..))
        refine ⟨accSec g.lang (g.comps.foldl (addComp g.lang) a), ?_, rfl, i3 s hs⟩
        simp only [renderFrom, List.mem_append, List.mem_cons]
        exact Or.inr (Or.inl trivial)
    · obtain ⟨j1, j2⟩ := renderFrom_own gs ⟨[], [], (g0.comps.foldl (addComp g0.lang) a).lc⟩ rfl
        (fun x hx => hw x (List.mem_cons_of_mem _ hx)) g hg
      refine ⟨fun s hs => ?_, fun s hs => ?_⟩
      · simp only [renderFrom, List.mem_append, List.mem_cons]
        exact Or.inr (Or.inr (j1 s hs))
      · obtain ⟨sec, h1, h2, h3⟩ := j2 s hs
        refine ⟨sec, ?_, h2, h3⟩
        simp only [renderFrom, List.mem_append, List.mem_cons]
        exact Or.inr (Or.inr h1)

/-- the components of a plan only mention sections of the input -/
theorem planSecs_comp_mem (gs : List Group) : ∀ g ∈ gs, ∀ s, Comp.own s ∈ g.comps → s ∈ planSecs gs := by
  intro g hg s hs
  simp only [planSecs, List.mem_flatMap]
  refine ⟨g, hg, ?_⟩
  simp only [groupOwn, List.mem_append, List.mem_flatMap]
  exact Or.inl ⟨.own s, hs, by simp [compOwn]⟩

end PlainLangMix
end Yalafi
