/-
  Proofs/Checks.lean — the accept scan of --single-letters and the scan of
  --equation-punctuation (Model/Checks.lean), for all texts and all lists.

  Part 1 (accept): `splitBar` is `str.split('|')` (joining the pieces with `|` gives the string
  back, no piece contains `|`); a pair `(b, e)` is a hit iff some non-empty alternative, after the
  two substitutions, stands at `plain[b:e]` with the word boundaries the code asks for
  (`AcceptOcc`); the reported letters are the isolated letters not covered by such an occurrence.

  Part 2 (equation punctuation): bounds of a match, every message starts with a placeholder
  occurrence, messages are disjoint and increasing (`eqScan_*`); soundness: for a message none of
  the three excuses holds (`FollowsDot`, `FollowsEqu`, `FollowsLowerWord`); completeness: every
  offset that does not lie strictly inside a match found earlier is a start offset the scan tries,
  so a placeholder there that has no excuse is reported.
-/
import YalafiVerif.Model.Checks
import YalafiVerif.Proofs.Shell
namespace Yalafi

/-! ### Part 1: accepted patterns -/

theorem splitBar_ne_nil (s : Str) : splitBar s ≠ [] := by
  induction s with
  | nil => simp [splitBar]
  | cons c cs ih =>
    simp only [splitBar]
    split
    · simp
    · split <;> simp

/-- joining the pieces with `|` gives the string back -/
theorem splitBar_join (s : Str) : ['|'].intercalate (splitBar s) = s := by
  induction s with
  | nil => simp [splitBar, List.intercalate]
  | cons c cs ih =>
    simp only [splitBar]
    split
    · rename_i h
      have hc : c = '|' := by simpa using h
      cases hs : splitBar cs with
      | nil => exact absurd hs (splitBar_ne_nil cs)
      | cons x xs =>
        rw [hs] at ih
        subst hc
        cases xs <;> simp_all [List.intercalate, List.intersperse]
    · cases hs : splitBar cs with
      | nil => exact absurd hs (splitBar_ne_nil cs)
      | cons x xs =>
        rw [hs] at ih
        cases xs <;> simp_all [List.intercalate, List.intersperse]

/-- no piece contains `|` -/
theorem splitBar_no_bar (s : Str) : ∀ x ∈ splitBar s, '|' ∉ x := by
  induction s with
  | nil => simp [splitBar]
  | cons c cs ih =>
    simp only [splitBar]
    split
    · intro x hx
      simp only [List.mem_cons] at hx
      rcases hx with rfl | hx
      · simp
      · exact ih x hx
    · rename_i h
      have hc : c ≠ '|' := by simpa using h
      cases hs : splitBar cs with
      | nil => exact absurd hs (splitBar_ne_nil cs)
      | cons y ys =>
        rw [hs] at ih
        intro x hx
        simp only [List.mem_cons] at hx
        rcases hx with rfl | hx
        · have := ih y (by simp)
          simp only [List.mem_cons, not_or]
          exact ⟨fun h => hc h.symm, this⟩
        · exact ih x (by simp [hx])

theorem replNarrow_ne_nil (s : Str) (h : s ≠ []) : replNarrow s ≠ [] := by
  fun_cases replNarrow s <;> simp_all

theorem acceptSubst_ne_nil (s : Str) (h : s ≠ []) : acceptSubst s ≠ [] := by
  unfold acceptSubst
  apply replNarrow_ne_nil
  simpa using h

theorem mem_acceptAlts (accept a : Str) :
    a ∈ acceptAlts accept ↔ ∃ s ∈ splitBar accept, s ≠ [] ∧ a = acceptSubst s := by
  simp only [acceptAlts, List.mem_map, List.mem_filter]
  constructor
  · rintro ⟨s, ⟨hs, hne⟩, rfl⟩
    exact ⟨s, hs, by simpa using hne, rfl⟩
  · rintro ⟨s, hs, hne, rfl⟩
    exact ⟨s, ⟨hs, by simpa using hne⟩, rfl⟩

theorem litAt_iff (r plain : Str) (p : Nat) : litAt r plain p = true ↔ (plain.drop p).take r.length = r := by
  simp [litAt]

theorem litAt_bound (r plain : Str) (p : Nat) (h : litAt r plain p = true) (hr : r ≠ []) :
    p + r.length ≤ plain.length := by
  rw [litAt_iff] at h
  have h2 := congrArg List.length h
  simp only [List.length_take, List.length_drop] at h2
  have : 0 < r.length := List.length_pos_iff.mpr hr
  omega

/-- the alternative `a` (after the substitutions) occurs at offset `b`: literally, with a word
    boundary in front if it starts with a letter and behind if it ends with one -/
def AcceptOcc (T : Tables) (a plain : Str) (b : Nat) : Prop :=
  (plain.drop b).take a.length = a ∧
  (optAlpha T a.head? = true → wordBoundaryAt T plain b = true) ∧
  (optAlpha T a.getLast? = true → wordBoundaryAt T plain (b + a.length) = true)

theorem altAt_iff (T : Tables) (a plain : Str) (p : Nat) : altAt T a plain p = true ↔ AcceptOcc T a plain p := by
  simp only [altAt, AcceptOcc, Bool.and_eq_true, Bool.or_eq_true, Bool.not_eq_true', litAt_iff]
  constructor
  · rintro ⟨⟨h1, h2⟩, h3⟩
    refine ⟨h1, ?_, ?_⟩
    · intro h; rcases h2 with h2 | h2 <;> simp_all
    · intro h; rcases h3 with h3 | h3 <;> simp_all
  · rintro ⟨h1, h2, h3⟩
    refine ⟨⟨h1, ?_⟩, ?_⟩
    · cases h : optAlpha T a.head? <;> simp_all
    · cases h : optAlpha T a.getLast? <;> simp_all

theorem mem_altHits (T : Tables) (a plain : Str) (ha : a ≠ []) (b e : Nat) :
    (b, e) ∈ altHits T a plain ↔ e = b + a.length ∧ AcceptOcc T a plain b := by
  simp only [altHits, List.mem_map, List.mem_filter, List.mem_range, altAt_iff, Prod.mk.injEq]
  constructor
  · rintro ⟨p, ⟨_, h⟩, rfl, rfl⟩
    exact ⟨rfl, h⟩
  · rintro ⟨rfl, h⟩
    refine ⟨b, ⟨?_, h⟩, rfl, rfl⟩
    have := litAt_bound a plain b ((litAt_iff a plain b).mpr h.1) ha
    omega

theorem acceptHits_spec (T : Tables) (accept plain : Str) (b e : Nat) :
    (b, e) ∈ acceptHits T accept plain ↔
      ∃ s ∈ splitBar accept, s ≠ [] ∧ e = b + (acceptSubst s).length ∧ AcceptOcc T (acceptSubst s) plain b := by
  simp only [acceptHits, List.mem_flatMap, mem_acceptAlts]
  constructor
  · rintro ⟨a, ⟨s, hs, hne, rfl⟩, h⟩
    rw [mem_altHits T _ plain (acceptSubst_ne_nil s hne)] at h
    exact ⟨s, hs, hne, h.1, h.2⟩
  · rintro ⟨s, hs, hne, he, h⟩
    refine ⟨acceptSubst s, ⟨s, hs, hne, rfl⟩, ?_⟩
    rw [mem_altHits T _ plain (acceptSubst_ne_nil s hne)]
    exact ⟨he, h⟩

theorem singleLetterMessages_spec (T : Tables) (accept plain : Str) (i : Nat) :
    i ∈ singleLetterMessages T accept plain ↔
      (i < plain.length ∧
        singleAt T (if i = 0 then none else plain[i - 1]?) (plain.getD i ' ') (plain[i + 1]?) = true) ∧
      ¬ ∃ s ∈ splitBar accept, s ≠ [] ∧ ∃ b, AcceptOcc T (acceptSubst s) plain b ∧
          b ≤ i ∧ i < b + (acceptSubst s).length := by
  unfold singleLetterMessages
  rw [singleLetterOffsets_spec]
  have h1 := singleLetters_exact T plain none 0 i
  have h1' : i ∈ singleLetters T none 0 plain ↔ (i < plain.length ∧
        singleAt T (if i = 0 then none else plain[i - 1]?) (plain.getD i ' ') (plain[i + 1]?) = true) := by
    simpa using h1
  rw [h1']
  apply and_congr Iff.rfl
  constructor
  · rintro h ⟨s, hs, hne, b, hocc, hb, hi⟩
    exact h (b, b + (acceptSubst s).length) ((acceptHits_spec T accept plain _ _).mpr ⟨s, hs, hne, rfl, hocc⟩) ⟨hb, hi⟩
  · rintro h ⟨b, e⟩ hmem ⟨hb, hi⟩
    obtain ⟨s, hs, hne, he, hocc⟩ := (acceptHits_spec T accept plain b e).mp hmem
    exact h ⟨s, hs, hne, b, hocc, hb, by simpa [he] using hi⟩

/-! ### Part 2: equation punctuation -/

theorem wsRun_le (plain : Str) (p : Nat) : wsRun plain p ≤ plain.length - p := by
  unfold wsRun
  have := length_takeWhile_le' isSpace (plain.drop p)
  simpa using this

theorem wordRun_le (T : Tables) (plain : Str) (p : Nat) : wordRun T plain p ≤ plain.length - p := by
  unfold wordRun
  have := length_takeWhile_le' (isLetterish T) (plain.drop p)
  simpa using this

/-- the characters of the run are white space, the character behind it is not -/
theorem wsRun_spec (plain : Str) (p : Nat) :
    (∀ i, i < wsRun plain p → ∃ c, plain[p + i]? = some c ∧ isSpace c = true) ∧
    (∀ c, plain[p + wsRun plain p]? = some c → isSpace c = false) := by
  unfold wsRun
  generalize hd : plain.drop p = d
  have hget : ∀ i, plain[p + i]? = d[i]? := by intro i; rw [← hd]; simp
  simp only [hget]
  clear hget hd
  induction d with
  | nil => simp
  | cons x xs ih =>
    simp only [List.takeWhile_cons]
    cases hx : isSpace x
    · simp [hx]
    · simp only [if_true, List.length_cons]
      constructor
      · intro i hi
        cases i with
        | zero => exact ⟨x, by simp, hx⟩
        | succ i => simpa using ih.1 i (by omega)
      · intro c hc
        exact ih.2 c (by simpa using hc)

/-- the placeholder `r` occurs at offset `p`: not empty, literally, `\b` on both sides -/
def EquOcc (T : Tables) (plain : Str) (p : Nat) (r : Str) : Prop :=
  r ≠ [] ∧ (plain.drop p).take r.length = r ∧
  wordBoundaryAt T plain p = true ∧ wordBoundaryAt T plain (p + r.length) = true

theorem equAt_iff (T : Tables) (plain : Str) (p : Nat) (r : Str) :
    equAt T plain p r = true ↔ EquOcc T plain p r := by
  simp only [equAt, EquOcc, Bool.and_eq_true, litAt_iff, Bool.not_eq_true', List.isEmpty_eq_false_iff]
  constructor
  · rintro ⟨⟨⟨h1, h2⟩, h3⟩, h4⟩; exact ⟨h1, h2, h3, h4⟩
  · rintro ⟨h1, h2, h3, h4⟩; exact ⟨⟨⟨h1, h2⟩, h3⟩, h4⟩

theorem EquOcc.bound {T : Tables} {plain : Str} {p : Nat} {r : Str} (h : EquOcc T plain p r) :
    p + r.length ≤ plain.length ∧ 0 < r.length :=
  ⟨litAt_bound r plain p ((litAt_iff r plain p).mpr h.2.1) h.1, List.length_pos_iff.mpr h.1⟩

theorem mem_equCands (T : Tables) (repls : List Str) (plain : Str) (p : Nat) (r : Str) :
    r ∈ equCands T repls plain p ↔ r ∈ repls ∧ EquOcc T plain p r := by
  simp [equCands, List.mem_filter, equAt_iff]

theorem optPunct_lt (plain : Str) (q : Nat) (h : optPunct plain[q]? = true) : q < plain.length := by
  cases hq : plain[q]? with
  | none => simp [hq, optPunct] at h
  | some c => exact (List.getElem?_eq_some_iff.mp hq).1

/-- the offset behind white space, an optional `,;:` and white space again -/
def afterSep (plain : Str) (e : Nat) : Nat :=
  let q := e + wsRun plain e
  let q1 := if optPunct plain[q]? then q + 1 else q
  q1 + wsRun plain q1

theorem afterSep_bounds (plain : Str) (e : Nat) (he : e ≤ plain.length) :
    e ≤ afterSep plain e ∧ afterSep plain e ≤ plain.length := by
  unfold afterSep
  have h1 := wsRun_le plain e
  simp only []
  split
  · rename_i hp
    have := optPunct_lt plain _ hp
    have h2 := wsRun_le plain (e + wsRun plain e + 1)
    omega
  · have h2 := wsRun_le plain (e + wsRun plain e)
    omega

theorem tailMatch_eq (T : Tables) (plain : Str) (e : Nat) :
    tailMatch T plain e =
      if plain[e + wsRun plain e]? = some '.' then (e + wsRun plain e + 1, false)
      else if wordRun T plain (afterSep plain e) = 0 then (e + wsRun plain e, true)
      else (afterSep plain e + wordRun T plain (afterSep plain e), !optLower T plain[afterSep plain e]?) := by
  unfold tailMatch afterSep
  simp only [beq_iff_eq]

theorem tailMatch_bounds (T : Tables) (plain : Str) (e : Nat) (he : e ≤ plain.length) :
    e ≤ (tailMatch T plain e).1 ∧ (tailMatch T plain e).1 ≤ plain.length := by
  rw [tailMatch_eq]
  have h1 := wsRun_le plain e
  have h2 := afterSep_bounds plain e he
  have h3 := wordRun_le T plain (afterSep plain e)
  split
  · rename_i hd
    have := (List.getElem?_eq_some_iff.mp hd).1
    simp only []
    omega
  · split <;> simp only [] <;> omega

theorem eqMatchAt_some (T : Tables) (repls : List Str) (plain : Str) (p : Nat) (em : Nat × Bool)
    (h : eqMatchAt T repls plain p = some em) :
    ∃ r ∈ repls, EquOcc T plain p r ∧ p + r.length ≤ em.1 ∧ em.1 ≤ plain.length := by
  unfold eqMatchAt at h
  split at h
  · rename_i r hf
    have hm := (mem_equCands T repls plain p r).mp (List.mem_of_find?_eq_some hf)
    have hb := hm.2.bound
    simp only [Option.some.injEq] at h
    subst h
    exact ⟨r, hm.1, hm.2, by simp, hb.1⟩
  · split at h
    · simp at h
    · rename_i r rest hc
      have hm := (mem_equCands T repls plain p r).mp (by rw [hc]; simp)
      have hb := hm.2.bound
      have ht := tailMatch_bounds T plain (p + r.length) hb.1
      simp only [Option.some.injEq] at h
      subst h
      exact ⟨r, hm.1, hm.2, ht.1, ht.2⟩

theorem eqMatchAt_lt (T : Tables) (repls : List Str) (plain : Str) (p : Nat) (em : Nat × Bool)
    (h : eqMatchAt T repls plain p = some em) : p < em.1 ∧ em.1 ≤ plain.length := by
  obtain ⟨r, _, hocc, h1, h2⟩ := eqMatchAt_some T repls plain p em h
  have := hocc.bound
  omega

/-- every entry of the scan is the match at its start offset -/
theorem eqScan_mem (T : Tables) (repls : List Str) (plain : Str) (fuel p0 : Nat) (m : Nat × Nat × Bool)
    (h : m ∈ eqScan T repls plain fuel p0) :
    p0 ≤ m.1 ∧ eqMatchAt T repls plain m.1 = some (m.2.1, m.2.2) := by
  induction fuel generalizing p0 with
  | zero => simp [eqScan] at h
  | succ fuel ih =>
    simp only [eqScan] at h
    split at h
    · have := ih (p0 + 1) h
      exact ⟨by omega, this.2⟩
    · rename_i em hem
      simp only [List.mem_cons] at h
      rcases h with rfl | h
      · exact ⟨Nat.le_refl _, hem⟩
      · have := ih em.1 h
        have hl := eqMatchAt_lt T repls plain p0 em hem
        exact ⟨by omega, this.2⟩

theorem eqScan_pairwise (T : Tables) (repls : List Str) (plain : Str) (fuel p0 : Nat) :
    (eqScan T repls plain fuel p0).Pairwise (fun a b => a.1 ≤ a.2.1 ∧ a.2.1 ≤ b.1) := by
  induction fuel generalizing p0 with
  | zero => simp [eqScan]
  | succ fuel ih =>
    simp only [eqScan]
    split
    · exact ih (p0 + 1)
    · rename_i em hem
      have hl := eqMatchAt_lt T repls plain p0 em hem
      refine List.Pairwise.cons ?_ (ih em.1)
      intro b hb
      have := eqScan_mem T repls plain fuel em.1 b hb
      exact ⟨by simp only []; omega, this.1⟩

/-- a start offset that is not strictly inside an earlier match is tried by the scan -/
theorem eqScan_reaches (T : Tables) (repls : List Str) (plain : Str) (fuel p0 p : Nat) (em : Nat × Bool)
    (hf : plain.length + 1 ≤ fuel + p0) (hp : p0 ≤ p) (h : eqMatchAt T repls plain p = some em) :
    (p, em.1, em.2) ∈ eqScan T repls plain fuel p0 ∨
      ∃ m ∈ eqScan T repls plain fuel p0, m.1 < p ∧ p < m.2.1 := by
  have hlt := eqMatchAt_lt T repls plain p em h
  induction fuel generalizing p0 with
  | zero => omega
  | succ fuel ih =>
    simp only [eqScan]
    by_cases hpp : p = p0
    · subst hpp
      rw [h]
      simp
    · split
      · exact ih (p0 + 1) (by omega) (by omega)
      · rename_i em0 hem0
        have hl0 := eqMatchAt_lt T repls plain p0 em0 hem0
        by_cases hin : p < em0.1
        · right
          exact ⟨(p0, em0.1, em0.2), by simp, by simp only []; omega, hin⟩
        · rcases ih em0.1 (by omega) (by omega) with h1 | ⟨m, hm, h1⟩
          · left; simp [h1]
          · right; exact ⟨m, by simp [hm], h1⟩

theorem mem_eqPunctMessages (T : Tables) (repls : List Str) (plain : Str) (o l : Nat) :
    (o, l) ∈ eqPunctMessages T repls plain ↔
      ∃ m ∈ eqMatches T repls plain, m.2.2 = true ∧ o = m.1 ∧ l = m.2.1 - m.1 := by
  simp only [eqPunctMessages, List.mem_filterMap]
  constructor
  · rintro ⟨m, hm, h⟩
    split at h
    · rename_i hb
      simp only [Option.some.injEq, Prod.mk.injEq] at h
      exact ⟨m, hm, hb, h.1.symm, h.2.symm⟩
    · simp at h
  · rintro ⟨m, hm, hb, rfl, rfl⟩
    exact ⟨m, hm, by simp [hb]⟩

/-- a message is the match at its offset, and that match has no excuse -/
theorem eqPunct_msg_match (T : Tables) (repls : List Str) (plain : Str) (o l : Nat)
    (h : (o, l) ∈ eqPunctMessages T repls plain) :
    eqMatchAt T repls plain o = some (o + l, true) := by
  obtain ⟨m, hm, hb, rfl, rfl⟩ := (mem_eqPunctMessages T repls plain o l).mp h
  have h1 := (eqScan_mem T repls plain _ 0 m hm).2
  have h2 := eqMatchAt_lt T repls plain m.1 _ h1
  simp only [] at h2
  rw [h1, hb]
  congr 2
  omega

theorem eqPunct_marks_placeholder (T : Tables) (repls : List Str) (plain : Str) (o l : Nat)
    (h : (o, l) ∈ eqPunctMessages T repls plain) :
    ∃ r ∈ repls, EquOcc T plain o r ∧ r.length ≤ l ∧ o + l ≤ plain.length := by
  obtain ⟨r, hr, hocc, h1, h2⟩ := eqMatchAt_some T repls plain o _ (eqPunct_msg_match T repls plain o l h)
  exact ⟨r, hr, hocc, by simp only [] at h1; omega, h2⟩

theorem eqPunct_disjoint (T : Tables) (repls : List Str) (plain : Str) :
    (eqPunctMessages T repls plain).Pairwise (fun a b => a.1 + a.2 ≤ b.1) := by
  unfold eqPunctMessages eqMatches
  refine List.Pairwise.filterMap _ ?_ (eqScan_pairwise T repls plain _ 0)
  intro a a' hR b hb b' hb'
  split at hb <;> simp only [Option.some.injEq, reduceCtorEq] at hb
  split at hb' <;> simp only [Option.some.injEq, reduceCtorEq] at hb'
  subst hb hb'
  simp only []
  omega

/-! #### the three excuses -/

/-- (white space and) a full stop follow at offset `e` -/
def FollowsDot (plain : Str) (e : Nat) : Prop := plain[e + wsRun plain e]? = some '.'

/-- white space, an optional `,;:`, white space and a placeholder follow at offset `e`
    (every way of splitting the white space counts, as in the regular expression) -/
def FollowsEqu (T : Tables) (repls : List Str) (plain : Str) (e : Nat) : Prop :=
  ∃ i, i ≤ wsRun plain e ∧ ∃ k, (k = 0 ∨ (k = 1 ∧ optPunct plain[e + i]? = true)) ∧
    ∃ j, j ≤ wsRun plain (e + i + k) ∧ ∃ r ∈ repls, EquOcc T plain (e + i + k + j) r

/-- white space, an optional `,;:`, white space and a word (`[^\W0-9_]+`) whose first character
    is lower case follow at offset `e` -/
def FollowsLowerWord (T : Tables) (plain : Str) (e : Nat) : Prop :=
  ∃ c, plain[afterSep plain e]? = some c ∧ isLetterish T c = true ∧ T.isLower c = true

theorem wsThenEqu_iff (T : Tables) (repls : List Str) (plain : Str) (a : Nat) :
    wsThenEqu T repls plain a = true ↔
      ∃ j, j ≤ wsRun plain a ∧ ∃ r ∈ repls, EquOcc T plain (a + j) r := by
  simp only [wsThenEqu, List.any_eq_true, List.mem_range, equAt_iff, Nat.lt_succ_iff]

theorem followedByEqu_iff (T : Tables) (repls : List Str) (plain : Str) (e : Nat) :
    followedByEqu T repls plain e = true ↔ FollowsEqu T repls plain e := by
  simp only [followedByEqu, FollowsEqu, List.any_eq_true, List.mem_range, Nat.lt_succ_iff,
    Bool.or_eq_true, Bool.and_eq_true, wsThenEqu_iff]
  constructor
  · rintro ⟨i, hi, h | ⟨hp, h⟩⟩
    · exact ⟨i, hi, 0, Or.inl rfl, h⟩
    · exact ⟨i, hi, 1, Or.inr ⟨rfl, hp⟩, h⟩
  · rintro ⟨i, hi, k, hk | ⟨hk, hp⟩, h⟩
    · subst hk; exact ⟨i, hi, Or.inl h⟩
    · subst hk; exact ⟨i, hi, Or.inr ⟨hp, h⟩⟩

theorem wordRun_eq_zero_iff (T : Tables) (plain : Str) (p : Nat) :
    wordRun T plain p = 0 ↔ ∀ c, plain[p]? = some c → isLetterish T c = false := by
  unfold wordRun
  rw [← List.head?_drop]
  generalize plain.drop p = d
  cases d with
  | nil => simp
  | cons x xs =>
    cases hx : isLetterish T x <;> simp [hx]

theorem tailMatch_msg_iff (T : Tables) (plain : Str) (e : Nat) :
    (tailMatch T plain e).2 = true ↔ ¬ FollowsDot plain e ∧ ¬ FollowsLowerWord T plain e := by
  rw [tailMatch_eq]
  unfold FollowsDot FollowsLowerWord
  by_cases hd : plain[e + wsRun plain e]? = some '.'
  · simp [hd]
  · simp only [hd, if_false, not_false_eq_true, true_and]
    by_cases hw : wordRun T plain (afterSep plain e) = 0
    · simp only [hw, if_true, true_iff]
      rintro ⟨c, hc, hl, _⟩
      have := (wordRun_eq_zero_iff T plain _).mp hw c hc
      simp [this] at hl
    · simp only [hw, if_false]
      have hw' := hw
      rw [wordRun_eq_zero_iff] at hw'
      simp only [Classical.not_forall] at hw'
      obtain ⟨c, hc, hl⟩ := hw'
      have hl : isLetterish T c = true := by simpa using hl
      simp only [hc, optLower, Bool.not_eq_true', Option.some.injEq]
      constructor
      · rintro h ⟨c', rfl, _, hlow⟩
        simp [h] at hlow
      · intro h
        cases hlow : T.isLower c
        · rfl
        · exact absurd ⟨c, rfl, hl, hlow⟩ h

/-- the match at `p` yields a message: there are candidates, none of them is followed by a
    placeholder, and the first one is followed neither by a full stop nor by a lower-case word -/
theorem eqMatchAt_msg_iff (T : Tables) (repls : List Str) (plain : Str) (p e : Nat) :
    eqMatchAt T repls plain p = some (e, true) ↔
      ∃ r rest, equCands T repls plain p = r :: rest ∧
        (∀ r' ∈ equCands T repls plain p, ¬ FollowsEqu T repls plain (p + r'.length)) ∧
        ¬ FollowsDot plain (p + r.length) ∧ ¬ FollowsLowerWord T plain (p + r.length) ∧
        e = (tailMatch T plain (p + r.length)).1 := by
  unfold eqMatchAt
  cases hf : (equCands T repls plain p).find? (fun r => followedByEqu T repls plain (p + r.length)) with
  | some r =>
    simp only [Option.some.injEq, Prod.mk.injEq, Bool.false_eq_true, and_false, false_iff]
    rintro ⟨r0, rest, _, hall, _⟩
    have h1 := List.find?_some hf
    have h2 := List.mem_of_find?_eq_some hf
    exact hall r h2 ((followedByEqu_iff T repls plain _).mp h1)
  | none =>
    have hnone := List.find?_eq_none.mp hf
    simp only []
    cases hc : equCands T repls plain p with
    | nil => simp
    | cons r rest =>
      simp only [Option.some.injEq, List.cons.injEq]
      constructor
      · intro h
        refine ⟨r, rest, ⟨rfl, rfl⟩, ?_, ?_⟩
        · intro r' hr' hfe
          exact hnone r' (by rw [hc]; exact hr') ((followedByEqu_iff T repls plain _).mpr hfe)
        · have h2 : (tailMatch T plain (p + r.length)).2 = true := by rw [h]
          have := (tailMatch_msg_iff T plain _).mp h2
          exact ⟨this.1, this.2, by rw [h]⟩
      · rintro ⟨r0, rest0, ⟨rfl, rfl⟩, _, hd, hl, he⟩
        have := (tailMatch_msg_iff T plain (p + r.length)).mpr ⟨hd, hl⟩
        rw [he, ← this]

/-- the end of a match that yields a message: the placeholder and the white space behind it, or,
    if a word (not lower case) follows, up to the end of that word -/
theorem tailMatch_msg_end (T : Tables) (plain : Str) (e : Nat) (h : (tailMatch T plain e).2 = true) :
    (tailMatch T plain e).1 =
      if wordRun T plain (afterSep plain e) = 0 then e + wsRun plain e
      else afterSep plain e + wordRun T plain (afterSep plain e) := by
  rw [tailMatch_eq] at h ⊢
  by_cases hd : plain[e + wsRun plain e]? = some '.'
  · simp [hd] at h
  · simp only [hd, if_false]
    split <;> rfl

theorem eqPunct_sound (T : Tables) (repls : List Str) (plain : Str) (o l : Nat)
    (h : (o, l) ∈ eqPunctMessages T repls plain) :
    ∃ r ∈ repls, EquOcc T plain o r ∧
      ¬ FollowsDot plain (o + r.length) ∧
      ¬ FollowsEqu T repls plain (o + r.length) ∧
      ¬ FollowsLowerWord T plain (o + r.length) ∧
      (∀ r' ∈ repls, EquOcc T plain o r' → ¬ FollowsEqu T repls plain (o + r'.length)) ∧
      o + l = (if wordRun T plain (afterSep plain (o + r.length)) = 0
                then o + r.length + wsRun plain (o + r.length)
                else afterSep plain (o + r.length) + wordRun T plain (afterSep plain (o + r.length))) := by
  have hm := eqPunct_msg_match T repls plain o l h
  obtain ⟨r, rest, hc, hall, hd, hl, he⟩ := (eqMatchAt_msg_iff T repls plain o (o + l)).mp hm
  have hr := (mem_equCands T repls plain o r).mp (by rw [hc]; simp)
  refine ⟨r, hr.1, hr.2, hd, hall r (by rw [hc]; simp), hl, ?_, ?_⟩
  · intro r' hr' hocc
    exact hall r' ((mem_equCands T repls plain o r').mpr ⟨hr', hocc⟩)
  · rw [he]
    exact tailMatch_msg_end T plain _ ((tailMatch_msg_iff T plain _).mpr ⟨hd, hl⟩)

/-- completeness: at an offset `p` that does not lie strictly inside a match found earlier, a
    placeholder without excuse is reported -/
theorem eqPunct_complete (T : Tables) (repls : List Str) (plain : Str) (p : Nat) (r : Str) (rest : List Str)
    (hc : equCands T repls plain p = r :: rest)
    (hfree : ∀ m ∈ eqMatches T repls plain, ¬ (m.1 < p ∧ p < m.2.1))
    (hequ : ∀ r' ∈ r :: rest, ¬ FollowsEqu T repls plain (p + r'.length))
    (hdot : ¬ FollowsDot plain (p + r.length))
    (hlow : ¬ FollowsLowerWord T plain (p + r.length)) :
    (p, (tailMatch T plain (p + r.length)).1 - p) ∈ eqPunctMessages T repls plain := by
  have hm : eqMatchAt T repls plain p = some ((tailMatch T plain (p + r.length)).1, true) :=
    (eqMatchAt_msg_iff T repls plain p _).mpr ⟨r, rest, hc, by rw [hc]; exact hequ, hdot, hlow, rfl⟩
  rw [mem_eqPunctMessages]
  rcases eqScan_reaches T repls plain (plain.length + 1) 0 p _ (by omega) (by omega) hm with h1 | ⟨m, hmm, h1⟩
  · exact ⟨_, h1, rfl, rfl, rfl⟩
  · exact absurd h1 (hfree m hmm)

/-! #### the excuses in the words of the regular expression

  `FollowsDot` and `FollowsLowerWord` are stated with the maximal runs of white space
  (`wsRun`, `afterSep`).  They coincide with the "there is a way to match" reading of
  `\s*\.` and `\s*[,;:]?\s*[^\W0-9_]…` — for the word under the assumption `checksClassesOk`
  (white space and `, ; : .` are no word characters), a closed fact of the generated tables. -/

/-- the `n` characters from offset `p` on are white space -/
def WsAt (plain : Str) (p n : Nat) : Prop := ∀ t, t < n → ∃ c, plain[p + t]? = some c ∧ isSpace c = true

theorem wsRun_unique (plain : Str) (p k : Nat) (h1 : WsAt plain p k)
    (h2 : ∀ c, plain[p + k]? = some c → isSpace c = false) : k = wsRun plain p := by
  have hs := wsRun_spec plain p
  rcases Nat.lt_trichotomy k (wsRun plain p) with h | h | h
  · obtain ⟨c, hc, hsp⟩ := hs.1 k h
    have := h2 c hc
    simp [this] at hsp
  · exact h
  · obtain ⟨c, hc, hsp⟩ := h1 (wsRun plain p) h
    have := hs.2 c hc
    simp [this] at hsp

theorem wsAt_wsRun (plain : Str) (p : Nat) : WsAt plain p (wsRun plain p) := (wsRun_spec plain p).1

theorem followsDot_iff (plain : Str) (e : Nat) :
    FollowsDot plain e ↔ ∃ k, WsAt plain e k ∧ plain[e + k]? = some '.' := by
  unfold FollowsDot
  constructor
  · intro h
    exact ⟨wsRun plain e, wsAt_wsRun plain e, h⟩
  · rintro ⟨k, hk, hd⟩
    have : k = wsRun plain e := by
      apply wsRun_unique plain e k hk
      intro c hc
      rw [hd] at hc
      have : c = '.' := by simpa using hc.symm
      subst this
      decide
    rw [← this]; exact hd

theorem isSpace_codes (c : Char) (h : isSpace c = true) : c.toNat ∈ spaceCodes := by
  simp only [isSpace, Bool.or_eq_true, Bool.and_eq_true, decide_eq_true_eq, beq_iff_eq] at h
  simp only [spaceCodes, List.mem_cons, List.not_mem_nil, or_false]
  omega

theorem classes_space (T : Tables) (hcls : checksClassesOk T = true) (c : Char) (h : isSpace c = true) :
    T.isWord c = false := by
  simp only [checksClassesOk, List.all_eq_true, List.mem_append, Bool.not_eq_true'] at hcls
  have := hcls c.toNat (Or.inl (isSpace_codes c h))
  simpa using this

theorem punct_cases (c : Char) (h : optPunct (some c) = true) : c = ',' ∨ c = ';' ∨ c = ':' := by
  simpa [optPunct, or_assoc] using h

theorem classes_punct (T : Tables) (hcls : checksClassesOk T = true) (c : Char) (h : optPunct (some c) = true) :
    T.isWord c = false := by
  simp only [checksClassesOk, List.all_eq_true, List.mem_append, Bool.not_eq_true'] at hcls
  rcases punct_cases c h with rfl | rfl | rfl
  · exact hcls 44 (Or.inr (by simp))
  · exact hcls 59 (Or.inr (by simp))
  · exact hcls 58 (Or.inr (by simp))

theorem punct_not_space (c : Char) (h : optPunct (some c) = true) : isSpace c = false := by
  rcases punct_cases c h with rfl | rfl | rfl <;> decide

theorem letterish_word (T : Tables) (c : Char) (h : isLetterish T c = true) : T.isWord c = true := by
  simp only [isLetterish, Bool.and_eq_true] at h
  exact h.1.1

theorem followsLowerWord_iff (T : Tables) (hcls : checksClassesOk T = true) (plain : Str) (e : Nat) :
    FollowsLowerWord T plain e ↔
      ∃ i k j c, WsAt plain e i ∧ (k = 0 ∨ (k = 1 ∧ optPunct plain[e + i]? = true)) ∧
        WsAt plain (e + i + k) j ∧ plain[e + i + k + j]? = some c ∧
        isLetterish T c = true ∧ T.isLower c = true := by
  unfold FollowsLowerWord
  constructor
  · rintro ⟨c, hc, hl, hlow⟩
    unfold afterSep at hc
    simp only [] at hc
    by_cases hp : optPunct plain[e + wsRun plain e]? = true
    · simp only [hp, if_true] at hc
      exact ⟨wsRun plain e, 1, wsRun plain (e + wsRun plain e + 1), c, wsAt_wsRun plain e,
        Or.inr ⟨rfl, hp⟩, wsAt_wsRun plain _, hc, hl, hlow⟩
    · simp only [hp] at hc
      exact ⟨wsRun plain e, 0, wsRun plain (e + wsRun plain e), c, wsAt_wsRun plain e,
        Or.inl rfl, wsAt_wsRun plain _, hc, hl, hlow⟩
  · rintro ⟨i, k, j, c, hi, hk, hj, hc, hl, hlow⟩
    have hcw := letterish_word T c hl
    have hcns : isSpace c = false := by
      cases h : isSpace c
      · rfl
      · have := classes_space T hcls c h; simp [this] at hcw
    have hcnp : optPunct (some c) = false := by
      cases h : optPunct (some c)
      · rfl
      · have := classes_punct T hcls c h; simp [this] at hcw
    refine ⟨c, ?_, hl, hlow⟩
    rcases hk with rfl | ⟨rfl, hp⟩
    · -- no punctuation: the two runs form one run
      have hrun : i + j = wsRun plain e := by
        apply wsRun_unique
        · intro t ht
          by_cases hti : t < i
          · exact hi t hti
          · have := hj (t - i) (by omega)
            have heq : e + i + 0 + (t - i) = e + t := by omega
            rwa [heq] at this
        · intro c' hc'
          have heq : e + (i + j) = e + i + 0 + j := by omega
          rw [heq, hc] at hc'
          have : c' = c := by simpa using hc'.symm
          rw [this]; exact hcns
      have hq : plain[e + wsRun plain e]? = some c := by
        rw [← hrun]
        have heq : e + (i + j) = e + i + 0 + j := by omega
        rw [heq]; exact hc
      have h0 : 0 = wsRun plain (e + wsRun plain e) := by
        apply wsRun_unique
        · intro t ht; omega
        · intro c' hc'
          rw [Nat.add_zero, hq] at hc'
          have : c' = c := by simpa using hc'.symm
          rw [this]; exact hcns
      unfold afterSep
      simp only [hq, hcnp, Bool.false_eq_true, if_false, ← h0, Nat.add_zero]
    · -- punctuation: both runs are maximal
      cases hd : plain[e + i]? with
      | none => simp [hd, optPunct] at hp
      | some d =>
        rw [hd] at hp
        have hi' : i = wsRun plain e := by
          apply wsRun_unique plain e i hi
          intro c' hc'
          rw [hd] at hc'
          have : c' = d := by simpa using hc'.symm
          rw [this]; exact punct_not_space d hp
        have hj' : j = wsRun plain (e + i + 1) := by
          apply wsRun_unique plain _ j hj
          intro c' hc'
          rw [hc] at hc'
          have : c' = c := by simpa using hc'.symm
          rw [this]; exact hcns
        unfold afterSep
        simp only [← hi', hd, hp, if_true, ← hj']
        exact hc

/-! #### the word boundaries of an accepted alternative, in plain words

  On tables where every letter is a word character (`alphaIsWord`, a closed fact of the
  generated tables) the `\b` in front of an alternative that starts with a letter says: the
  character in front is no word character (or the text starts there); likewise behind. -/

/-- every range of `xs` lies inside a range of `ys` (both sorted: one pass) -/
def rangesSubsetGo : Nat → List (Nat × Nat) → List (Nat × Nat) → Bool
  | _, [], _ => true
  | 0, _ :: _, _ => false
  | _ + 1, _ :: _, [] => false
  | fuel + 1, r :: rs, w :: ws =>
    if w.1 ≤ r.1 && r.2 ≤ w.2 then rangesSubsetGo fuel rs (w :: ws) else rangesSubsetGo fuel (r :: rs) ws

def rangesSubset (xs ys : List (Nat × Nat)) : Bool := rangesSubsetGo (xs.length + ys.length) xs ys

theorem rangesSubsetGo_sound (fuel : Nat) (xs ys : List (Nat × Nat)) (h : rangesSubsetGo fuel xs ys = true) :
    ∀ r ∈ xs, ∃ w ∈ ys, w.1 ≤ r.1 ∧ r.2 ≤ w.2 := by
  induction fuel generalizing xs ys with
  | zero =>
    cases xs with
    | nil => simp
    | cons r rs => simp [rangesSubsetGo] at h
  | succ fuel ih =>
    cases xs with
    | nil => simp
    | cons r rs =>
      cases ys with
      | nil => simp [rangesSubsetGo] at h
      | cons w ws =>
        simp only [rangesSubsetGo] at h
        split at h
        · rename_i hc
          simp only [Bool.and_eq_true, decide_eq_true_eq] at hc
          intro r' hr'
          simp only [List.mem_cons] at hr'
          rcases hr' with rfl | hr'
          · exact ⟨w, by simp, hc.1, hc.2⟩
          · exact ih rs (w :: ws) h r' hr'
        · intro r' hr'
          obtain ⟨w', hw', hh⟩ := ih (r :: rs) ws h r' hr'
          exact ⟨w', by simp [hw'], hh⟩

def alphaIsWord (T : Tables) : Bool := rangesSubset T.alphaRanges T.wordRanges

theorem alpha_word (T : Tables) (h : alphaIsWord T = true) (c : Char) (hc : T.isAlpha c = true) :
    T.isWord c = true := by
  have h := rangesSubsetGo_sound _ _ _ h
  simp only [Tables.isAlpha, Tables.isWord, inRanges, List.any_eq_true, Bool.and_eq_true,
    decide_eq_true_eq] at hc ⊢
  obtain ⟨r, hr, h1, h2⟩ := hc
  obtain ⟨w, hw, h3, h4⟩ := h r hr
  exact ⟨w, hw, by omega, by omega⟩

theorem occ_getElem (a plain : Str) (b i : Nat) (h : (plain.drop b).take a.length = a) (hi : i < a.length) :
    plain[b + i]? = a[i]? := by
  have : a[i]? = ((plain.drop b).take a.length)[i]? := by rw [h]
  rw [this, List.getElem?_take]
  simp [hi]

theorem acceptOcc_boundaries (T : Tables) (hT : alphaIsWord T = true) (a plain : Str) (b : Nat)
    (h : (plain.drop b).take a.length = a) :
    (optAlpha T a.head? = true →
      (wordBoundaryAt T plain b = true ↔ optWord T (prevChar plain b) = false)) ∧
    (optAlpha T a.getLast? = true →
      (wordBoundaryAt T plain (b + a.length) = true ↔ optWord T plain[b + a.length]? = false)) := by
  constructor
  · intro ha
    cases a with
    | nil => simp [optAlpha] at ha
    | cons x xs =>
      simp only [List.head?_cons, optAlpha] at ha
      have hx := occ_getElem (x :: xs) plain b 0 h (by simp)
      simp only [Nat.add_zero, List.length_cons, Nat.zero_lt_succ, getElem?_pos,
        List.getElem_cons_zero] at hx
      simp only [wordBoundaryAt, hx, optWord, alpha_word T hT x ha]
      cases optWord T (prevChar plain b) <;> simp
  · intro ha
    have hne : a ≠ [] := by intro h0; simp [h0, optAlpha] at ha
    have hpos : 0 < a.length := List.length_pos_iff.mpr hne
    have hl : a.getLast? = a[a.length - 1]? := List.getLast?_eq_getElem? ..
    have hx := occ_getElem a plain b (a.length - 1) h (by omega)
    have hprev : prevChar plain (b + a.length) = a.getLast? := by
      unfold prevChar
      rw [if_neg (by omega), hl, ← hx]
      congr 1
      omega
    cases hg : a.getLast? with
    | none => simp [hg, optAlpha] at ha
    | some y =>
      rw [hg] at ha hprev
      simp only [optAlpha] at ha
      simp only [wordBoundaryAt, hprev, optWord, alpha_word T hT y ha]
      cases optWord T plain[b + a.length]? <;> simp

end Yalafi
