/-
  Proofs/NoEmptyHandlerB.lean — NoEmpty bundle: one lemma per handler of `callHandler`, part B
  (babel, substack, proof, biblatex, xspace, glossaries).
-/
import YalafiVerif.Proofs.NoEmptyBase1
import YalafiVerif.Proofs.NoEmptyBase2
namespace Yalafi
namespace NoEmpty
open M

set_option linter.unusedVariables false

variable {T : PTables}

/-! ### helpers -/

private theorem HRes_of_ANE {n : Nat} {h : Handler} {r : List Tok} (hr : ANE T n r) : HRes T n h r := by
  refine ⟨fun _ => hr, ?_⟩
  cases r with
  | nil => trivial
  | cons t ts => exact ⟨(hr t (by simp)).1, fun x hx => hr x (by simp [hx])⟩

private theorem hb_argBind {β} (args : List (List Tok)) (k : Nat) (f : List Tok → M β) (st : PState)
    (R : β → PState → Prop)
    (h : ∀ a ∈ args, args[k]? = some a → Post' (f a st) R) :
    Post' (((match args[k]? with
            | some a => pure a
            | none => M.crash "handler:args[k]" : M (List Tok)) >>= f) st) R := by
  apply Post'_bind _ _ _ (fun a s => s = st ∧ a ∈ args ∧ args[k]? = some a)
  · cases he : args[k]? with
    | none => exact Post'_crash _ _ _ (by decide)
    | some a => exact Post'_pure _ _ _ ⟨rfl, List.mem_of_getElem? he, rfl⟩
  · rintro a s ⟨rfl, ha, he⟩
    exact h a ha he

private theorem hb_getBind {β} (f : PState → M β) (st : PState) (R : β → PState → Prop)
    (h : Post' (f st st) R) : Post' ((M.get >>= f) st) R := by
  apply Post'_bind _ _ _ (fun a s => a = st ∧ s = st) _ (Post'_get _ _ ⟨rfl, rfl⟩)
  rintro a s ⟨rfl, rfl⟩
  exact h

private theorem hb_modifyPure {β} (f : PState → PState) (x : β) (st : PState) (R : β → PState → Prop)
    (h : R x (f st)) : Post' ((M.modify f >>= fun _ => (pure x : M β)) st) R := by
  apply Post'_bind _ _ _ (fun _ s => s = f st) _ (Post'_modify _ _ _ rfl)
  rintro _ s rfl
  exact Post'_pure _ _ _ h

private theorem hb_getLast?_mem {α} {l : List α} {a : α} (h : l.getLast? = some a) : a ∈ l := by
  obtain ⟨ys, rfl⟩ := List.getLast?_eq_some_iff.mp h
  simp

private theorem hb_text {fuel : Nat} (IH : AllSpecs T fuel) {st0 s : PState} (h0 : Fr T st0 s) (toks : List Tok)
    (hb : ANE T st0.latex.length toks) :
    Post' (getTextExpanded T fuel toks s) (fun _ s' => Fr T st0 s') := by
  apply Post'_mono _ _ _ (IH.text toks s h0.1 (Buf3_of_ANE (by rw [h0.len]; exact hb)))
  intro _ s' h1
  exact h0.trans h1

private theorem hb_keyvals {fuel : Nat} (IH : AllSpecs T fuel) {st0 s : PState} (h0 : Fr T st0 s) (buf : Buf)
    (hb : ANE T st0.latex.length buf) :
    Post' (parseKeyvals T fuel buf [] s) (fun r s' => Fr T st0 s' ∧ kvOk T st0.latex.length r) := by
  apply Post'_mono _ _ _ (IH.keyvals buf [] s h0.1 (by rw [h0.len]; exact hb)
    (by intro kv hkv; cases hkv))
  intro r s' h1
  exact ⟨h0.trans h1.1, by rw [← h0.len]; exact h1.2⟩

private theorem hb_modDesc {fuel : Nat} (IH : AllSpecs T fuel) {st0 s : PState} (h0 : Fr T st0 s) (toks : List Tok)
    (hb : ANE T st0.latex.length toks) (h : Handler) :
    Post' (modifyDescription T fuel toks s) (fun r s' => Fr T st0 s' ∧ HRes T st0.latex.length h r) := by
  apply Post'_mono _ _ _ (IH.modDesc toks s h0.1 (by rw [h0.len]; exact hb))
  intro r s' h1
  exact ⟨h0.trans h1.1, HRes_of_ANE (by rw [← h0.len]; exact h1.2)⟩

private theorem hb_latexError {st0 s : PState} (h0 : Fr T st0 s) (err : Str) (pos : Nat)
    (hp : pos < st0.latex.length) (h : Handler) :
    Post' (latexError T.toTables err pos s) (fun r s' => Fr T st0 s' ∧ HRes T st0.latex.length h r) := by
  apply Post'_mono _ _ _ (latexError_spec err pos s h0.1)
  intro r s' ⟨h1, _, h3⟩
  exact ⟨h0.trans h1, HRes_of_ANE (by rw [← h0.len]; exact h3 (by rw [h0.len]; exact hp))⟩

/-! ### constructed tokens -/

private theorem NE_mkLang (n p : Nat) (l : Str) (b h k : Bool) (hp : p < n) : NE T n (mkLang p l b h k) := by
  simp [NE, W, NE0, MB, ctlEmpty, mkLang, hp]

private theorem NE_mkFix_text (n p : Nat) (txt : Str) (hp : p < n) (ht : txt ≠ []) : NE T n (mkFix .text p txt) := by
  simp [NE, W, NE0, MB, ctlEmpty, mkFix, hp, ht]

private theorem W_mkFix_text (n p : Nat) (txt : Str) (hp : p < n) : W T n (mkFix .text p txt) := by
  simp [W, MB, ctlEmpty, mkFix, hp]

private theorem NE_mkFix_space (n p : Nat) (txt : Str) (hp : p < n) : NE T n (mkFix .space p txt) := by
  simp [NE, W, NE0, MB, ctlEmpty, mkFix, hp]

private theorem NE_mkTok_space (n p : Nat) (txt : Str) (hp : p < n) : NE T n (mkTok .space p txt) := by
  simp [NE, W, NE0, MB, ctlEmpty, mkTok, hp]

private theorem NE_mkTok_xmacro (n p : Nat) (txt : Str) (hp : p < n) : NE T n (mkTok .xmacro p txt) := by
  simp [NE, W, NE0, MB, ctlEmpty, mkTok, hp]

private theorem NE_mkAct (n p : Nat) (hp : p < n) : NE T n (mkAction p) := by
  simp [NE, W, NE0, MB, ctlEmpty, mkAction, hp]

private theorem NE_mkTok_special (n p : Nat) (txt : Str) (hp : p < n) : NE T n (mkTok .special p txt) := by
  simp [NE, W, NE0, MB, ctlEmpty, mkTok, hp]

private theorem NE_restamp {n p : Nat} {t : Tok} (h : NE0 T t) (hp : p < n) :
    NE T n { t with pos := p, fix := true } := by
  obtain ⟨h1, h2, h3⟩ := h
  refine ⟨⟨hp, ?_, ?_, ?_⟩, h1, ?_, ?_⟩
  · intro _ hf; cases hf
  · exact h2
  · simpa [ctlEmpty] using h3
  · exact h2
  · simpa [ctlEmpty] using h3

private theorem ANE_last_pos {n : Nat} {a : List Tok} {l : Tok} (ha : ANE T n a) (h : a.getLast? = some l) :
    l.pos < n := (ha l (hb_getLast?_mem h)).1.1

private theorem hb_gloss_lookup {g : List (Str × List (Str × Option (List Tok)))} (hg : glossOk T g)
    {p : Str × List (Str × Option (List Tok)) → Bool} {q : Str × Option (List Tok) → Bool}
    {k : Str} {toks : List Tok}
    (h : (g.find? p).bind (fun e => e.2.find? q) = some (k, some toks)) : ANE0 T toks := by
  obtain ⟨e, he, hq⟩ := Option.bind_eq_some_iff.mp h
  exact hg e (List.mem_of_find?_eq_some he) _ (List.mem_of_find?_eq_some hq) toks rfl

private theorem hb_kvOk_description {n : Nat} {kv : List (Str × Option (List Tok))} (h : kvOk T n kv)
    (p : Str × Option (List Tok) → Bool) :
    ANE T n (((kv.reverse.find? p).bind (·.2)).getD []) := by
  cases hf : (kv.reverse.find? p).bind (·.2) with
  | none => exact ANE_nil n
  | some ts =>
    obtain ⟨e, he, hq⟩ := Option.bind_eq_some_iff.mp hf
    exact h e (List.mem_reverse.mp (List.mem_of_find?_eq_some he)) ts hq

private theorem hb_mem_dedup {α β} [BEq α] (kv acc : List (α × β)) :
    ∀ x ∈ kv.foldl (fun acc e =>
        if acc.any (·.1 == e.1) then acc.map (fun x => if x.1 == e.1 then e else x) else acc ++ [e]) acc,
      x ∈ acc ∨ x ∈ kv := by
  induction kv generalizing acc with
  | nil => intro x hx; exact Or.inl hx
  | cons e kv ih =>
    intro x hx
    rw [List.foldl_cons] at hx
    rcases ih _ x hx with h | h
    · split at h
      · rw [List.mem_map] at h
        obtain ⟨y, hy, rfl⟩ := h
        split
        · exact Or.inr (List.mem_cons_self)
        · exact Or.inl hy
      · rcases List.mem_append.mp h with h | h
        · exact Or.inl h
        · exact Or.inr (by simp at h; simp [h])
    · exact Or.inr (List.mem_cons_of_mem _ h)

/-! ### the handlers -/

theorem handler_foreignlanguage (hne : tblOkB T = true) (hw : T.WFInv) (fuel : Nat) (IH : AllSpecs T fuel)
    (buf : Buf) (mac : MacroDef) (args : List (List Tok)) (pos : Nat) (st : PState) (hs : StOk T st)
    (ha : ∀ a ∈ args, ANE T st.latex.length a) (hp : pos < st.latex.length) :
    Post' (callHandler T (fuel + 1) .foreignlanguage buf mac args pos st)
      (fun r st' => Fr T st st' ∧ HRes T st.latex.length .foreignlanguage r) := by
  simp only [callHandler]
  refine hb_argBind args 1 _ st _ (fun a1 h1 _ => ?_)
  refine hb_argBind args 2 _ st _ (fun a2 h2 _ => ?_)
  have hA := ha a2 h2
  refine Post'_bind _ _ _ _ _ (hb_text IH (Fr.refl hs) a1 (ha a1 h1)) (fun l s hfr => ?_)
  cases ht : translateLang T (strip l) with
  | none => exact Post'_crash _ _ _ (by decide)
  | some lt =>
    cases hl : a2.getLast? with
    | none => exact Post'_crash _ _ _ (by decide)
    | some last =>
      dsimp only
      have hlp := ANE_last_pos hA hl
      refine Post'_pure _ _ _ ⟨hfr, HRes_of_ANE ?_⟩
      simp [NE_mkLang, hp, hlp, hA]

theorem handler_selectlanguage (hne : tblOkB T = true) (hw : T.WFInv) (fuel : Nat) (IH : AllSpecs T fuel)
    (buf : Buf) (mac : MacroDef) (args : List (List Tok)) (pos : Nat) (st : PState) (hs : StOk T st)
    (ha : ∀ a ∈ args, ANE T st.latex.length a) (hp : pos < st.latex.length) :
    Post' (callHandler T (fuel + 1) .selectlanguage buf mac args pos st)
      (fun r st' => Fr T st st' ∧ HRes T st.latex.length .selectlanguage r) := by
  simp only [callHandler]
  refine hb_argBind args 0 _ st _ (fun a0 h0 _ => ?_)
  refine Post'_bind _ _ _ _ _ (hb_text IH (Fr.refl hs) a0 (ha a0 h0)) (fun l s hfr => ?_)
  cases ht : translateLang T (strip l) with
  | none => exact Post'_crash _ _ _ (by decide)
  | some lt =>
    refine Post'_pure _ _ _ ⟨hfr, HRes_of_ANE ?_⟩
    simp [NE_mkLang, hp]

theorem handler_beginOtherlang (hne : tblOkB T = true) (hw : T.WFInv) (fuel : Nat) (IH : AllSpecs T fuel)
    (buf : Buf) (mac : MacroDef) (args : List (List Tok)) (pos : Nat) (st : PState) (hs : StOk T st)
    (ha : ∀ a ∈ args, ANE T st.latex.length a) (hp : pos < st.latex.length) :
    Post' (callHandler T (fuel + 1) .beginOtherlang buf mac args pos st)
      (fun r st' => Fr T st st' ∧ HRes T st.latex.length .beginOtherlang r) := by
  simp only [callHandler]
  refine hb_argBind args 0 _ st _ (fun a0 h0 _ => ?_)
  refine Post'_bind _ _ _ _ _ (hb_text IH (Fr.refl hs) a0 (ha a0 h0)) (fun l s hfr => ?_)
  cases ht : translateLang T (strip l) with
  | none => exact Post'_crash _ _ _ (by decide)
  | some lt =>
    refine Post'_pure _ _ _ ⟨hfr, HRes_of_ANE ?_⟩
    simp [NE_mkLang, hp]

theorem handler_endOtherlang (hne : tblOkB T = true) (hw : T.WFInv) (fuel : Nat) (IH : AllSpecs T fuel)
    (buf : Buf) (mac : MacroDef) (args : List (List Tok)) (pos : Nat) (st : PState) (hs : StOk T st)
    (ha : ∀ a ∈ args, ANE T st.latex.length a) (hp : pos < st.latex.length) :
    Post' (callHandler T (fuel + 1) .endOtherlang buf mac args pos st)
      (fun r st' => Fr T st st' ∧ HRes T st.latex.length .endOtherlang r) := by
  simp only [callHandler]
  refine Post'_pure _ _ _ ⟨Fr.refl hs, HRes_of_ANE ?_⟩
  simp [NE_mkLang, NE_mkTok_xmacro, hp]

theorem handler_endOtherlangStar (hne : tblOkB T = true) (hw : T.WFInv) (fuel : Nat) (IH : AllSpecs T fuel)
    (buf : Buf) (mac : MacroDef) (args : List (List Tok)) (pos : Nat) (st : PState) (hs : StOk T st)
    (ha : ∀ a ∈ args, ANE T st.latex.length a) (hp : pos < st.latex.length) :
    Post' (callHandler T (fuel + 1) .endOtherlangStar buf mac args pos st)
      (fun r st' => Fr T st st' ∧ HRes T st.latex.length .endOtherlangStar r) := by
  simp only [callHandler]
  refine Post'_pure _ _ _ ⟨Fr.refl hs, HRes_of_ANE ?_⟩
  simp [NE_mkLang, hp]

theorem handler_substack (hne : tblOkB T = true) (hw : T.WFInv) (fuel : Nat) (IH : AllSpecs T fuel)
    (buf : Buf) (mac : MacroDef) (args : List (List Tok)) (pos : Nat) (st : PState) (hs : StOk T st)
    (ha : ∀ a ∈ args, ANE T st.latex.length a) (hp : pos < st.latex.length) :
    Post' (callHandler T (fuel + 1) .substack buf mac args pos st)
      (fun r st' => Fr T st st' ∧ HRes T st.latex.length .substack r) := by
  simp only [callHandler]
  refine hb_argBind args 0 _ st _ (fun a0 h0 _ => ?_)
  exact Post'_pure _ _ _ ⟨Fr.refl hs, HRes_of_ANE (substackLoop_ANE _ _ _ (ha a0 h0))⟩

theorem handler_proof (hne : tblOkB T = true) (hw : T.WFInv) (fuel : Nat) (IH : AllSpecs T fuel)
    (buf : Buf) (mac : MacroDef) (args : List (List Tok)) (pos : Nat) (st : PState) (hs : StOk T st)
    (ha : ∀ a ∈ args, ANE T st.latex.length a) (hp : pos < st.latex.length) :
    Post' (callHandler T (fuel + 1) .proof buf mac args pos st)
      (fun r st' => Fr T st st' ∧ HRes T st.latex.length .proof r) := by
  simp only [callHandler]
  refine hb_argBind args 0 _ st _ (fun a0 h0 _ => ?_)
  have hA := ha a0 h0
  refine hb_getBind _ st _ ?_
  cases a0 with
  | nil =>
    simp only [List.isEmpty_nil, Bool.not_true, Bool.false_eq_true, if_false, List.getLast?_singleton]
    refine Post'_pure _ _ _ ⟨Fr.refl hs, ?_⟩
    unfold HRes
    refine ⟨fun h => absurd h (by decide), ?_⟩
    simp only [List.cons_append, List.nil_append]
    refine ⟨W_mkFix_text _ _ _ hp, ?_⟩
    have e : ∀ x : Str, (mkFix Kind.text pos x).pos = pos := fun _ => rfl
    rw [e]
    simp [NE_mkFix_text, NE_mkFix_space, hp]
  | cons t ts =>
    simp only [List.isEmpty_cons, Bool.not_false, if_true]
    cases hl : (t :: ts).getLast? with
    | none => exact Post'_crash _ _ _ (by decide)
    | some l =>
      dsimp only
      have hlp := ANE_last_pos hA hl
      refine Post'_pure _ _ _ ⟨Fr.refl hs, ?_⟩
      unfold HRes
      refine ⟨fun h => absurd h (by decide), ?_⟩
      simp only [List.cons_append]
      rw [ANE_cons] at hA
      refine ⟨hA.1.1, ?_⟩
      simp [NE_mkFix_text, NE_mkFix_space, hlp, hA.2]

theorem handler_bibCite (hne : tblOkB T = true) (hw : T.WFInv) (fuel : Nat) (IH : AllSpecs T fuel)
    (buf : Buf) (mac : MacroDef) (args : List (List Tok)) (pos : Nat) (st : PState) (hs : StOk T st)
    (ha : ∀ a ∈ args, ANE T st.latex.length a) (hp : pos < st.latex.length) :
    Post' (callHandler T (fuel + 1) .bibCite buf mac args pos st)
      (fun r st' => Fr T st st' ∧ HRes T st.latex.length .bibCite r) := by
  simp only [callHandler]
  cases h : bibCite T args pos with
  | none => exact Post'_crash _ _ _ (by decide)
  | some o => exact Post'_pure _ _ _ ⟨Fr.refl hs, HRes_of_ANE (bibCite_ANE hne _ args pos o ha hp h)⟩

theorem handler_footcite (hne : tblOkB T = true) (hw : T.WFInv) (fuel : Nat) (IH : AllSpecs T fuel)
    (buf : Buf) (mac : MacroDef) (args : List (List Tok)) (pos : Nat) (st : PState) (hs : StOk T st)
    (ha : ∀ a ∈ args, ANE T st.latex.length a) (hp : pos < st.latex.length) :
    Post' (callHandler T (fuel + 1) .footcite buf mac args pos st)
      (fun r st' => Fr T st st' ∧ HRes T st.latex.length .footcite r) := by
  simp only [callHandler]
  cases h : bibCite T args pos with
  | none => exact Post'_crash _ _ _ (by decide)
  | some o =>
    dsimp only
    have ho := bibCite_ANE hne _ args pos o ha hp h
    have hlp := bibCite_lastPos (T := T) _ args pos o ha hp h
    generalize (Option.map _ o.getLast?).getD pos = lp at hlp
    refine Post'_pure _ _ _ ⟨Fr.refl hs, HRes_of_ANE ?_⟩
    simp [NE_mkFix_text, NE_mkAct, NE_mkTok_xmacro, NE_mkTok_special, hp, hlp, ho]

theorem handler_xspace (hne : tblOkB T = true) (hw : T.WFInv) (fuel : Nat) (IH : AllSpecs T fuel)
    (buf : Buf) (mac : MacroDef) (args : List (List Tok)) (pos : Nat) (st : PState) (hs : StOk T st)
    (ha : ∀ a ∈ args, ANE T st.latex.length a) (hp : pos < st.latex.length) :
    Post' (callHandler T (fuel + 1) .xspace buf mac args pos st)
      (fun r st' => Fr T st st' ∧ HRes T st.latex.length .xspace r) := by
  simp only [callHandler]
  cases hh : buf.head? with
  | none => exact Post'_pure _ _ _ ⟨Fr.refl hs, HRes_of_ANE (ANE_nil _)⟩
  | some t =>
    dsimp only
    split
    · exact Post'_pure _ _ _ ⟨Fr.refl hs, HRes_of_ANE (ANE_nil _)⟩
    · refine Post'_pure _ _ _ ⟨Fr.refl hs, HRes_of_ANE ?_⟩
      simp [NE_mkTok_space, hp]

theorem handler_gls (key : Str) (cf ca : Bool) (hne : tblOkB T = true) (hw : T.WFInv) (fuel : Nat)
    (IH : AllSpecs T fuel)
    (buf : Buf) (mac : MacroDef) (args : List (List Tok)) (pos : Nat) (st : PState) (hs : StOk T st)
    (ha : ∀ a ∈ args, ANE T st.latex.length a) (hp : pos < st.latex.length) :
    Post' (callHandler T (fuel + 1) (.gls key cf ca) buf mac args pos st)
      (fun r st' => Fr T st st' ∧ HRes T st.latex.length (.gls key cf ca) r) := by
  simp only [callHandler]
  refine hb_argBind args 1 _ st _ (fun a1 h1 _ => ?_)
  refine Post'_bind _ _ _ _ _ (hb_text IH (Fr.refl hs) a1 (ha a1 h1)) (fun label s hfr => ?_)
  refine hb_getBind _ s _ ?_
  generalize he : Option.bind (List.find? _ s.glossary) _ = entry
  match entry, he with
  | none, _ => exact hb_latexError hfr _ _ hp _
  | some (_, none), _ => exact hb_latexError hfr _ _ hp _
  | some (k, some toks), he =>
    dsimp only
    have hst : ANE0 T toks := hb_gloss_lookup hfr.1.gloss he
    generalize hc : (if cf = true then capFirst T toks else some toks) = c
    cases c with
    | none =>
      exfalso
      split at hc
      · obtain ⟨r, hr⟩ := capFirst_some (T := T) toks hst
        rw [hr] at hc; cases hc
      · cases hc
    | some t1 =>
      dsimp only
      have h1 : ANE0 T t1 := by
        split at hc
        · exact capFirst_ANE0 hne toks t1 hst hc
        · cases hc; exact hst
      have h2 : ANE0 T (if ca = true then capAll T t1 else t1) := by
        split
        · exact capAll_ANE0 hne t1 h1
        · exact h1
      refine Post'_pure _ _ _ ⟨hfr, HRes_of_ANE ?_⟩
      intro x hx
      obtain ⟨t, ht, rfl⟩ := List.mem_map.1 hx
      exact NE_restamp (h2 t ht) hp

theorem handler_newacronym (hne : tblOkB T = true) (hw : T.WFInv) (fuel : Nat) (IH : AllSpecs T fuel)
    (buf : Buf) (mac : MacroDef) (args : List (List Tok)) (pos : Nat) (st : PState) (hs : StOk T st)
    (ha : ∀ a ∈ args, ANE T st.latex.length a) (hp : pos < st.latex.length) :
    Post' (callHandler T (fuel + 1) .newacronym buf mac args pos st)
      (fun r st' => Fr T st st' ∧ HRes T st.latex.length .newacronym r) := by
  simp only [callHandler]
  refine hb_argBind args 2 _ st _ (fun a2 h2 _ => ?_)
  exact hb_modDesc IH (Fr.refl hs) a2 (ha a2 h2) _

theorem handler_newglossaryentry (hne : tblOkB T = true) (hw : T.WFInv) (fuel : Nat) (IH : AllSpecs T fuel)
    (buf : Buf) (mac : MacroDef) (args : List (List Tok)) (pos : Nat) (st : PState) (hs : StOk T st)
    (ha : ∀ a ∈ args, ANE T st.latex.length a) (hp : pos < st.latex.length) :
    Post' (callHandler T (fuel + 1) .newglossaryentry buf mac args pos st)
      (fun r st' => Fr T st st' ∧ HRes T st.latex.length .newglossaryentry r) := by
  simp only [callHandler]
  refine hb_argBind args 1 _ st _ (fun a1 h1 _ => ?_)
  refine Post'_bind _ _ _ _ _ (hb_keyvals IH (Fr.refl hs) a1 (ha a1 h1)) (fun kv s hk => ?_)
  exact hb_modDesc IH hk.1 _ (hb_kvOk_description hk.2 _) _

theorem handler_parseGlsdefs (hne : tblOkB T = true) (hw : T.WFInv) (fuel : Nat) (IH : AllSpecs T fuel)
    (buf : Buf) (mac : MacroDef) (args : List (List Tok)) (pos : Nat) (st : PState) (hs : StOk T st)
    (ha : ∀ a ∈ args, ANE T st.latex.length a) (hp : pos < st.latex.length) :
    Post' (callHandler T (fuel + 1) .parseGlsdefs buf mac args pos st)
      (fun r st' => Fr T st st' ∧ HRes T st.latex.length .parseGlsdefs r) := by
  simp only [callHandler]
  refine hb_argBind args 0 _ st _ (fun a0 h0 _ => ?_)
  refine hb_argBind args 1 _ st _ (fun a1 h1 _ => ?_)
  refine Post'_bind _ _ _ _ _ (hb_text IH (Fr.refl hs) a0 (ha a0 h0)) (fun label s hfr => ?_)
  refine Post'_bind _ _ _ _ _ (hb_keyvals IH hfr a1 (ha a1 h1)) (fun kv s' hk => ?_)
  refine hb_modifyPure _ _ _ _ ⟨⟨StOk_setGloss s' label _ hk.1.1 ?_, hk.1.2⟩, HRes_of_ANE (ANE_nil _)⟩
  intro e he ts hts
  rcases hb_mem_dedup kv [] e he with h | h
  · cases h
  · exact ANE_ANE0 (hk.2 e h ts hts)

end NoEmpty
end Yalafi
