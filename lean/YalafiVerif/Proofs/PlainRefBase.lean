/-
  Proofs/PlainRefBase.lean — first half of the development of Proofs/PlainRef.lean (see the header
  there): declarations (`refDeclOk`, `citeDeclOk`, `stateOk`), the expander level
  (`collectArg_bracket`, `argBuffer_bracket`, `collectArgs_cite`, `collectArgs_citeN`,
  `callHandler_cite0`, `callHandler_citeN`, `expandMacro_ref`, `expandMacro_cite`,
  `expandMacro_citeN`), the loop (`seq_ref_step`, `seq_cite_step`, `seq_citeN_step`, `Piece`,
  `PiecesOk`, `outP`, `cost`, `seq_ref`), the documents (`Seg`, `render`, `marks`, `refOk`, `citeOk`,
  `citeNOk`, `segsOk`, `SegsOk`, `OkSrc`) and the scanner on the parts of a call
  (`nextToken_bracket`, `scanSteps_braced`, `scanSteps_note`, `marksOf_textrun`, …).
-/
import YalafiVerif.Proofs.PlainVanish
import YalafiVerif.Proofs.PlainFootnote
namespace Yalafi
namespace PlainRef

open M
open PlainMacro
open PlainFootnote (CopyTok seq_copy_prefix lastTokOff)

/-! ### the declarations -/

/-- a placeholder token of a replacement text: a visible text token (no white space), never
    "active", whose text is none of the texts the main loop dispatches on -/
def phTokOk (T : PTables) (st : PState) (t : Tok) : Bool :=
  t.kind == .text && !t.txt.isEmpty && t.txt.all (fun c => !isSpace c) &&
  !(activeChars T st).contains t.txt &&
  !txtIs t "$" && !txtIs t "\\(" && !txtIs t "$$" && !txtIs t "\\[" && !txtIs t "\\\\" &&
  !txtIs t "{" && !txtIs t "}"

/-- a reference macro (`\ref`, `\pageref` of the real tables): one mandatory argument, no handler,
    no extraction, the replacement consists of one or two placeholder tokens -/
def refDeclOk (T : PTables) (st : PState) (m : MacroDef) : Bool :=
  m.args == ['A'] && m.handler == .none && m.extract.isEmpty && m.repl.all (phTokOk T st) &&
  !m.repl.isEmpty && decide (m.repl.length ≤ 2)

/-- a citation macro (`\cite` of the real tables): argument codes `OA`, the handler `h_cite`, no
    extraction, no default value of the optional argument -/
def citeDeclOk (m : MacroDef) : Bool :=
  m.args == ['O', 'A'] && m.handler == .cite && m.extract.isEmpty && m.defaults.isEmpty

structure PhTok (T : PTables) (st : PState) (t : Tok) : Prop where
  kind : t.kind = .text
  ne : t.txt ≠ []
  vis : ∀ c ∈ t.txt, isSpace c = false
  nact : (activeChars T st).contains t.txt = false
  plain : PlainTok t

theorem phTok {T : PTables} {st : PState} {t : Tok} (h : phTokOk T st t = true) : PhTok T st t := by
  simp only [phTokOk, Bool.and_eq_true, beq_iff_eq, Bool.not_eq_true', List.isEmpty_eq_false_iff,
    List.all_eq_true] at h
  obtain ⟨⟨⟨⟨⟨⟨⟨⟨⟨⟨h1, h2⟩, h3⟩, h4⟩, n1⟩, n2⟩, n3⟩, n4⟩, n5⟩, n6⟩, n7⟩ := h
  exact ⟨h1, h2, h3, h4, ⟨Or.inl h1, n1, n2, n3, n4, n5, n6, n7⟩⟩

structure RefDecl (T : PTables) (st : PState) (m : MacroDef) : Prop where
  args : m.args = ['A']
  handler : m.handler = .none
  extract : m.extract = []
  toks : ∀ t ∈ m.repl, PhTok T st t
  ne : m.repl ≠ []
  len : m.repl.length ≤ 2

theorem refDecl {T : PTables} {st : PState} {m : MacroDef} (h : refDeclOk T st m = true) :
    RefDecl T st m := by
  simp only [refDeclOk, Bool.and_eq_true, beq_iff_eq, List.isEmpty_iff, List.all_eq_true,
    decide_eq_true_eq, Bool.not_eq_true', List.isEmpty_eq_false_iff] at h
  obtain ⟨⟨⟨⟨⟨h1, h2⟩, h3⟩, h4⟩, h5⟩, h6⟩ := h
  exact ⟨h1, h2, h3, fun t ht => phTok (h4 t ht), h5, h6⟩

structure CiteDecl (m : MacroDef) : Prop where
  args : m.args = ['O', 'A']
  handler : m.handler = .cite
  extract : m.extract = []
  defaults : m.defaults = []

theorem citeDecl {m : MacroDef} (h : citeDeclOk m = true) : CiteDecl m := by
  simp only [citeDeclOk, Bool.and_eq_true, beq_iff_eq, List.isEmpty_iff] at h
  exact ⟨h.1.1.1, h.1.1.2, h.1.2, h.2⟩

/-- the conditions on the initialised parser state: the empty string, the blank and `]` are no
    "active characters" of the language settings (else the Action tokens, the blank of `[0, ` and
    the closing `]` of a citation would go to `expand_short_macro`) -/
def stateOk (T : PTables) (st : PState) : Bool :=
  noEmptyActive T st && !(activeChars T st).contains [' '] && !(activeChars T st).contains [']']

structure StateFacts (T : PTables) (st : PState) : Prop where
  ne : noEmptyActive T st = true
  sp : (activeChars T st).contains [' '] = false
  rb : (activeChars T st).contains [']'] = false

theorem stateFacts {T : PTables} {st : PState} (h : stateOk T st = true) : StateFacts T st := by
  simp only [stateOk, Bool.and_eq_true, Bool.not_eq_true'] at h
  exact ⟨h.1.1, h.1.2, h.2⟩

theorem StateFacts.congr {T : PTables} {st st' : PState} (hl : st'.langStack = st.langStack)
    (h : StateFacts T st) : StateFacts T st' :=
  ⟨(noEmptyActive_congr T st st' hl).trans h.ne, by rw [activeChars_congr T st st' hl]; exact h.sp,
   by rw [activeChars_congr T st st' hl]; exact h.rb⟩

/-! ### the tokens of a citation -/

/-- the text token of the single character `c` (what the scanner makes of `[` and `]`) -/
def chTok (p : Nat) (c : Char) : Tok := { kind := .text, pos := p, txt := [c] }

/-- the placeholder of a citation without note, at the position of the call -/
def citeToks (p : Nat) : List Tok := [mkFix .text p "[0]".toList, mkAction p]

/-- the position of the last token of a list -/
def lastPos (l : List Tok) : Nat := (l.getLast?.map (·.pos)).getD 0

/-- the output of a citation with a note: `[0,` and a blank at the position of the call, the note
    tokens, `]` and an Action token at the position of the last note token -/
def citeNToks (p : Nat) (note : List Tok) : List Tok :=
  mkFix .text p "[0,".toList :: mkFix .space p [' '] ::
    (note ++ [mkTok .text (lastPos note) [']'], mkAction (lastPos note)])

/-! ### argument collection -/

theorem collectArg_bracket (q : Nat) (rest : Buf) : ∀ (note acc : List Tok),
    (∀ t ∈ note, NoBrace t ∧ t.txt ≠ [']']) →
    collectArg [']'] 0 (note ++ chTok q ']' :: rest) acc = some (acc.reverse ++ note, rest)
  | [], acc, _ => by
    simp [collectArg, chTok, txtIsNV, isVerb]
  | t :: ts, acc, h => by
    obtain ⟨⟨h1, h2⟩, h3⟩ := h t (List.mem_cons_self ..)
    have h4 : (t.txt == [']']) = false := by simpa using h3
    simp only [List.cons_append, collectArg, h1, h2, h4, Bool.false_eq_true, if_false,
      Bool.and_false, Bool.false_and]
    rw [collectArg_bracket q rest ts (t :: acc) (fun x hx => h x (List.mem_cons_of_mem _ hx))]
    simp

/-- `arg_buffer` on `[note]`: the note tokens, the buffer behind `]`; no error -/
theorem argBuffer_bracket (T : Tables) (p q : Nat) (note : List Tok) (rest : Buf) (start : Nat)
    (st : PState) (h : ∀ t ∈ note, NoBrace t ∧ t.txt ≠ [']']) (hne : note ≠ []) :
    argBuffer T (chTok p '[' :: (note ++ chTok q ']' :: rest)) start false st
      = .ok ((note, rest), st) := by
  have hc := collectArg_bracket q rest note [] h
  have he : note.isEmpty = false := by cases note <;> simp_all
  have hp : argBufferPure T.mark (chTok p '[' :: (note ++ chTok q ']' :: rest)) start false
      = { arg := note, buf := rest } := by
    unfold argBufferPure
    rw [skipSpace_cons_of_not _ _ (by rfl)]
    have h1 : ((chTok p '[').kind == Kind.par) = false := by rfl
    have h2 : txtIsNV (chTok p '[') "{" = false := by simp [txtIsNV, chTok]
    simp only [h1, h2, Bool.false_eq_true, if_false, Bool.false_and, hc, he,
      List.reverse_nil, List.nil_append]
  unfold argBuffer
  rw [hp]
  rfl

/-- `collectArgs` on `{key}` for the signature `OA`: no optional argument -/
theorem collectArgs_cite (T : PTables) (mac : MacroDef) (hd : mac.defaults = []) (p q : Nat)
    (key : List Tok) (hkey : ∀ t ∈ key, NoBrace t) (rest : Buf) (start : Nat) (st : PState) :
    ∃ a, collectArgs T mac ['O', 'A'] 0 (lbr p :: (key ++ rbr q :: rest)) start {} st
      = .ok (({ args := [[], a], extr := [[], a], langs := [] }, rest), st) := by
  have hl : isSpaceTok (lbr p) = false := rfl
  obtain ⟨a, ha⟩ := PlainVanish.argBuffer_brace' T.toTables p q key rest p st hkey
  refine ⟨a, ?_⟩
  rw [collectArgs]
  simp only [skippedLangs_cons_of_not _ _ hl, skipSpace_cons_of_not _ _ hl, List.append_nil,
    List.head?_cons, show ('O' == '*') = false by decide, beq_self_eq_true, if_true,
    show txtIsNV (lbr p) "[" = false by rfl, Bool.false_eq_true, if_false, hd,
    List.getElem?_nil]
  rw [collectArgs]
  simp only [skippedLangs_cons_of_not _ _ hl, skipSpace_cons_of_not _ _ hl, List.append_nil,
    List.head?_cons, show ('A' == '*') = false by decide, show ('A' == 'O') = false by decide,
    beq_self_eq_true, if_true, show txtIsNV (lbr p) "}" = false by rfl, Bool.false_eq_true, if_false]
  refine (M.bind_ok _ _ _ _ _ ha).trans ?_
  rw [collectArgs]
  rfl

/-- `collectArgs` on `[note]{key}` for the signature `OA` -/
theorem collectArgs_citeN (T : PTables) (mac : MacroDef) (b1 b2 p q : Nat) (note : List Tok)
    (hnote : ∀ t ∈ note, NoBrace t ∧ t.txt ≠ [']']) (hne : note ≠ [])
    (key : List Tok) (hkey : ∀ t ∈ key, NoBrace t) (rest : Buf) (start : Nat) (st : PState) :
    ∃ a, collectArgs T mac ['O', 'A'] 0
        (chTok b1 '[' :: (note ++ chTok b2 ']' :: lbr p :: (key ++ rbr q :: rest))) start {} st
      = .ok (({ args := [note, a], extr := [note, a], langs := [] }, rest), st) := by
  have hl : isSpaceTok (lbr p) = false := rfl
  have hb : isSpaceTok (chTok b1 '[') = false := rfl
  obtain ⟨a, ha⟩ := PlainVanish.argBuffer_brace' T.toTables p q key rest p st hkey
  have hn := argBuffer_bracket T.toTables b1 b2 note (lbr p :: (key ++ rbr q :: rest)) b1 st hnote hne
  refine ⟨a, ?_⟩
  rw [collectArgs]
  simp only [skippedLangs_cons_of_not _ _ hb, skipSpace_cons_of_not _ _ hb, List.append_nil,
    List.head?_cons, show ('O' == '*') = false by decide, beq_self_eq_true, if_true,
    show txtIsNV (chTok b1 '[') "[" = true by rfl]
  refine (M.bind_ok _ _ _ _ _ hn).trans ?_
  rw [collectArgs]
  simp only [skippedLangs_cons_of_not _ _ hl, skipSpace_cons_of_not _ _ hl, List.append_nil,
    List.head?_cons, show ('A' == '*') = false by decide, show ('A' == 'O') = false by decide,
    beq_self_eq_true, if_true, show txtIsNV (lbr p) "}" = false by rfl, Bool.false_eq_true, if_false]
  refine (M.bind_ok _ _ _ _ _ ha).trans ?_
  rw [collectArgs]
  rfl

/-! ### the handler `h_cite` -/

theorem callHandler_cite0 (T : PTables) (fuel : Nat) (buf : Buf) (mac : MacroDef) (a : List Tok)
    (pos : Nat) (st : PState) :
    callHandler T (fuel + 1) .cite buf mac [[], a] pos st = .ok (citeToks pos, st) := by
  simp only [callHandler]
  rfl

theorem lastPos_of_getLast {note : List Tok} {l : Tok} (h : note.getLast? = some l) :
    lastPos note = l.pos := by
  simp [lastPos, h]

theorem callHandler_citeN (T : PTables) (fuel : Nat) (buf : Buf) (mac : MacroDef) (note a : List Tok)
    (hne : note ≠ []) (pos : Nat) (st : PState) :
    callHandler T (fuel + 1) .cite buf mac [note, a] pos st = .ok (citeNToks pos note, st) := by
  obtain ⟨l, hl⟩ : ∃ l, note.getLast? = some l := by
    cases h : note.getLast? with
    | none => exact absurd (List.getLast?_eq_none_iff.mp h) hne
    | some l => exact ⟨l, rfl⟩
  simp only [callHandler]
  refine (M.bind_ok _ _ _ _ _ (rfl : (pure note : M (List Tok)) st = _)).trans ?_
  simp only [hl, citeNToks, lastPos_of_getLast hl]
  show Outcome.ok _ = _
  simp

/-! ### `expandArguments`, `expandMacro` -/

theorem phTok_argRef {T : PTables} {st : PState} {t : Tok} (h : PhTok T st t) : argRef t = none := by
  simp [argRef, h.kind]

/-- a reference macro: the key is thrown away; an Action token and the placeholder tokens, all at
    the position of the call -/
theorem expandMacro_ref (T : PTables) (st0 : PState) (fuel : Nat) (mac : MacroDef)
    (hmac : RefDecl T st0 mac)
    (p q : Nat) (key : List Tok) (hkey : ∀ t ∈ key, NoBrace t) (rest : Buf) (tok : Tok)
    (st : PState) (hl : lookupMacro st tok.txt = some mac) :
    expandMacro T (fuel + 2) (lbr p :: (key ++ rbr q :: rest)) tok false st
      = .ok ((mkAction tok.pos :: mac.repl.map (restamp tok.pos), rest), st) := by
  rw [expandMacro.eq_2]
  refine (M.bind_ok _ _ _ _ _ (rfl : M.get st = _)).trans ?_
  simp only [hl, skipSpaceStopLang_cons_of_not _ _ (rfl : isSpaceTok (lbr p) = false)]
  obtain ⟨a, ha⟩ := PlainVanish.collectArgs_van T mac p q key hkey rest tok.pos st
  rw [expandArguments.eq_2, hmac.args]
  refine (M.bind_ok _ _ _ _ _ ha).trans ?_
  simp only [hmac.extract, hmac.handler, List.isEmpty_nil, Bool.not_true, Bool.false_eq_true, if_false,
    show (Handler.none != Handler.none) = false by decide,
    genRepl_noref [a] mac.repl tok.pos (fun t ht => phTok_argRef (hmac.toks t ht))]
  simp
  rfl

/-- a citation without note -/
theorem expandMacro_cite (T : PTables) (fuel : Nat) (mac : MacroDef) (hmac : CiteDecl mac)
    (p q : Nat) (key : List Tok) (hkey : ∀ t ∈ key, NoBrace t) (rest : Buf) (tok : Tok)
    (st : PState) (hl : lookupMacro st tok.txt = some mac) :
    expandMacro T (fuel + 3) (lbr p :: (key ++ rbr q :: rest)) tok false st
      = .ok ((mkAction tok.pos :: citeToks tok.pos, rest), st) := by
  rw [expandMacro.eq_2]
  refine (M.bind_ok _ _ _ _ _ (rfl : M.get st = _)).trans ?_
  simp only [hl, skipSpaceStopLang_cons_of_not _ _ (rfl : isSpaceTok (lbr p) = false)]
  obtain ⟨a, ha⟩ := collectArgs_cite T mac hmac.defaults p q key hkey rest tok.pos st
  rw [expandArguments.eq_2, hmac.args]
  refine (M.bind_ok _ _ _ _ _ ha).trans ?_
  simp only [hmac.extract, hmac.handler, List.isEmpty_nil, Bool.not_true, Bool.false_eq_true, if_false,
    show (Handler.cite != Handler.none) = true by decide, if_true]
  refine (M.bind_ok _ _ _ _ _ (callHandler_cite0 T fuel rest mac a tok.pos st)).trans ?_
  show Outcome.ok _ = _
  simp

/-- a citation with a note -/
theorem expandMacro_citeN (T : PTables) (fuel : Nat) (mac : MacroDef) (hmac : CiteDecl mac)
    (b1 b2 p q : Nat) (note : List Tok) (hnote : ∀ t ∈ note, NoBrace t ∧ t.txt ≠ [']'])
    (hne : note ≠ []) (key : List Tok) (hkey : ∀ t ∈ key, NoBrace t) (rest : Buf) (tok : Tok)
    (st : PState) (hl : lookupMacro st tok.txt = some mac) :
    expandMacro T (fuel + 3)
        (chTok b1 '[' :: (note ++ chTok b2 ']' :: lbr p :: (key ++ rbr q :: rest))) tok false st
      = .ok ((mkAction tok.pos :: citeNToks tok.pos note, rest), st) := by
  rw [expandMacro.eq_2]
  refine (M.bind_ok _ _ _ _ _ (rfl : M.get st = _)).trans ?_
  simp only [hl, skipSpaceStopLang_cons_of_not _ _ (rfl : isSpaceTok (chTok b1 '[') = false)]
  obtain ⟨a, ha⟩ := collectArgs_citeN T mac b1 b2 p q note hnote hne key hkey rest tok.pos st
  rw [expandArguments.eq_2, hmac.args]
  refine (M.bind_ok _ _ _ _ _ ha).trans ?_
  simp only [hmac.extract, hmac.handler, List.isEmpty_nil, Bool.not_true, Bool.false_eq_true, if_false,
    show (Handler.cite != Handler.none) = true by decide, if_true]
  refine (M.bind_ok _ _ _ _ _ (callHandler_citeN T fuel rest mac note a hne tok.pos st)).trans ?_
  show Outcome.ok _ = _
  simp

/-! ### steps of `expandSequence` -/

/-- the name of a reference macro in `st` -/
def RefName (T : PTables) (st : PState) (name : Str) : Prop :=
  ('\\' :: name) ≠ sDef ∧ ∃ m, lookupMacro st ('\\' :: name) = some m ∧ refDeclOk T st m = true

/-- the name of a citation macro in `st` -/
def CiteName (st : PState) (name : Str) : Prop :=
  ('\\' :: name) ≠ sDef ∧ ∃ m, lookupMacro st ('\\' :: name) = some m ∧ citeDeclOk m = true

/-- the replacement tokens of `\name` in `st` -/
def replOf (st : PState) (name : Str) : List Tok :=
  match lookupMacro st ('\\' :: name) with
  | some m => m.repl
  | none => []

theorem RefName.repl {T : PTables} {st : PState} {name : Str} (h : RefName T st name) :
    (∀ t ∈ replOf st name, PhTok T st t) ∧ replOf st name ≠ [] ∧ (replOf st name).length ≤ 2 := by
  obtain ⟨_, m, hm, hd⟩ := h
  have D := refDecl hd
  have hr : replOf st name = m.repl := by simp [replOf, hm]
  rw [hr]
  exact ⟨D.toks, D.ne, D.len⟩

theorem cw_head (T : PTables) (fuel : Nat) (p : Nat) (name : Str) (rest : Buf) (envStop : Option Str)
    (out : List Tok) (st : PState) (hnd : ('\\' :: name) ≠ sDef) :
    expandSequence T (fuel + 1) (cwTok p name :: rest) envStop out st
      = (do let r ← expandMacro T fuel rest (cwTok p name) false
            expandSequence T fuel (r.1 ++ r.2) envStop out) st := by
  have hk : (cwTok p name).kind = .xmacro := rfl
  have hd : txtIs (cwTok p name) "\\def" = false := by
    simpa [txtIs, cwTok, sDef] using hnd
  rw [expandSequence.eq_3]
  show M.bind' M.get _ st = _
  simp only [M.bind', M.get]
  simp only [hk, hd, Bool.false_eq_true, if_false, if_true, reduceCtorEq, beq_iff_eq, beq_self_eq_true]

theorem plainTok_restamp' (p : Nat) (t : Tok) (h : PlainTok t) : PlainTok (restamp p t) :=
  ⟨h.kind, h.n1, h.n2, h.n3, h.n4, h.n5, h.n6, h.n7⟩

/-- **a reference**: the macro token, the Action token, the placeholder tokens -/
theorem seq_ref_step (T : PTables) (fuel : Nat) (p q1 q2 : Nat) (name : Str) (key : List Tok)
    (rest : Buf) (envStop : Option Str) (out : List Tok) (st : PState)
    (hn : RefName T st name) (hkey : ∀ t ∈ key, NoBrace t) (ha : noEmptyActive T st = true) :
    expandSequence T (fuel + 1 + (2 + (replOf st name).length))
        (cwTok p name :: lbr q1 :: (key ++ rbr q2 :: rest)) envStop out st
      = expandSequence T (fuel + 1) rest envStop
          (out ++ mkAction p :: (replOf st name).map (restamp p)) st := by
  obtain ⟨hnd, m, hm, hmd⟩ := hn
  have D := refDecl hmd
  have hr : replOf st name = m.repl := by simp [replOf, hm]
  rw [hr]
  have hf : fuel + 1 + (2 + m.repl.length) = (fuel + m.repl.length) + 2 + 1 := by omega
  rw [hf, cw_head T _ p name _ envStop out st hnd]
  refine (M.bind_ok _ _ _ _ _ (expandMacro_ref T st (fuel + m.repl.length) m D q1 q2 key hkey rest
    (cwTok p name) st hm)).trans ?_
  simp only [List.cons_append, show (cwTok p name).pos = p from rfl]
  have hf2 : fuel + m.repl.length + 2 = (fuel + 1 + (m.repl.map (restamp p)).length) + 1 := by
    simp; omega
  rw [hf2, seq_action_step T _ p _ envStop out st ha,
    seq_plain_run T envStop st rest (m.repl.map (restamp p)) (fuel + 1) (out ++ [mkAction p]) (by
      intro t ht
      obtain ⟨u, hu, rfl⟩ := List.mem_map.mp ht
      exact ⟨plainTok_restamp' p u (D.toks u hu).plain, (D.toks u hu).nact⟩)]
  simp

theorem plain_fixtext (p : Nat) (s : Str) (h1 : s ≠ "$".toList) (h2 : s ≠ "\\(".toList)
    (h3 : s ≠ "$$".toList) (h4 : s ≠ "\\[".toList) (h5 : s ≠ "\\\\".toList) (h6 : s ≠ "{".toList)
    (h7 : s ≠ "}".toList) (k : Kind) (hk : k = .text ∨ k = .space ∨ k = .par) (f : Bool) :
    PlainTok ({ kind := k, pos := p, txt := s, fix := f } : Tok) :=
  ⟨hk, by simpa [txtIs] using h1, by simpa [txtIs] using h2, by simpa [txtIs] using h3,
   by simpa [txtIs] using h4, by simpa [txtIs] using h5, by simpa [txtIs] using h6,
   by simpa [txtIs] using h7⟩

theorem plain_cite0 (p : Nat) : PlainTok (mkFix .text p "[0]".toList) :=
  plain_fixtext p _ (by decide) (by decide) (by decide) (by decide) (by decide) (by decide)
    (by decide) _ (Or.inl rfl) true

theorem plain_citeA (p : Nat) : PlainTok (mkFix .text p "[0,".toList) :=
  plain_fixtext p _ (by decide) (by decide) (by decide) (by decide) (by decide) (by decide)
    (by decide) _ (Or.inl rfl) true

theorem plain_citeSp (p : Nat) : PlainTok (mkFix .space p [' ']) :=
  plain_fixtext p _ (by decide) (by decide) (by decide) (by decide) (by decide) (by decide)
    (by decide) _ (Or.inr (Or.inl rfl)) true

theorem plain_citeRb (p : Nat) : PlainTok (mkTok .text p [']']) :=
  plain_fixtext p _ (by decide) (by decide) (by decide) (by decide) (by decide) (by decide)
    (by decide) _ (Or.inl rfl) false

theorem not_active_long (T : PTables) (st : PState) (s : Str) (h : 2 ≤ s.length) :
    (activeChars T st).contains s = false := by
  cases hc : (activeChars T st).contains s with
  | false => rfl
  | true =>
    have := activeChars_length T st _ (List.contains_iff_mem.mp hc)
    omega

/-- **a citation without note**: the macro token, the Action token, `[0]`, an Action token -/
theorem seq_cite_step (T : PTables) (fuel : Nat) (p q1 q2 : Nat) (name : Str) (key : List Tok)
    (rest : Buf) (envStop : Option Str) (out : List Tok) (st : PState)
    (hn : CiteName st name) (hkey : ∀ t ∈ key, NoBrace t) (S : StateFacts T st) :
    expandSequence T (fuel + 1 + 4)
        (cwTok p name :: lbr q1 :: (key ++ rbr q2 :: rest)) envStop out st
      = expandSequence T (fuel + 1) rest envStop (out ++ mkAction p :: citeToks p) st := by
  obtain ⟨hnd, m, hm, hmd⟩ := hn
  have D := citeDecl hmd
  rw [show fuel + 1 + 4 = (fuel + 1) + 3 + 1 by omega, cw_head T _ p name _ envStop out st hnd]
  refine (M.bind_ok _ _ _ _ _ (expandMacro_cite T (fuel + 1) m D q1 q2 key hkey rest
    (cwTok p name) st hm)).trans ?_
  simp only [List.cons_append, show (cwTok p name).pos = p from rfl, citeToks, List.nil_append]
  rw [show fuel + 1 + 3 = (fuel + 1 + 1 + 1) + 1 by omega, seq_action_step T _ p _ envStop out st S.ne,
    seq_plain_step T _ _ _ envStop _ st (plain_cite0 p)
      (Or.inl (not_active_long T st _ (by simp [mkFix]))),
    seq_action_step T _ p _ envStop _ st S.ne]
  simp

/-- **a citation with a note**: the macro token, the Action token, `[0,`, the blank, the note
    tokens, `]`, an Action token -/
theorem seq_citeN_step (T : PTables) (fuel : Nat) (p b1 b2 q1 q2 : Nat) (name : Str)
    (note key : List Tok) (rest : Buf) (envStop : Option Str) (out : List Tok) (st : PState)
    (hn : CiteName st name) (hnote : ∀ t ∈ note, CopyTok T st t ∧ t.txt ≠ [']']) (hne : note ≠ [])
    (hkey : ∀ t ∈ key, NoBrace t) (S : StateFacts T st) :
    expandSequence T (fuel + 1 + (6 + note.length))
        (cwTok p name :: chTok b1 '[' :: (note ++ chTok b2 ']' :: lbr q1 :: (key ++ rbr q2 :: rest)))
        envStop out st
      = expandSequence T (fuel + 1) rest envStop (out ++ mkAction p :: citeNToks p note) st := by
  obtain ⟨hnd, m, hm, hmd⟩ := hn
  have D := citeDecl hmd
  rw [show fuel + 1 + (6 + note.length) = (fuel + 3 + note.length) + 3 + 1 by omega,
    cw_head T _ p name _ envStop out st hnd]
  refine (M.bind_ok _ _ _ _ _ (expandMacro_citeN T (fuel + 3 + note.length) m D b1 b2 q1 q2 note
    (fun t ht => ⟨plainTok_noBrace (hnote t ht).1.plain, (hnote t ht).2⟩) hne key hkey rest
    (cwTok p name) st hm)).trans ?_
  simp only [List.cons_append, show (cwTok p name).pos = p from rfl, citeNToks, List.append_assoc]
  rw [show fuel + 3 + note.length + 3 = (fuel + 1 + 1 + 1 + note.length + 1 + 1) + 1 by omega,
    seq_action_step T _ p _ envStop out st S.ne,
    seq_plain_step T _ _ _ envStop _ st (plain_citeA p)
      (Or.inl (not_active_long T st _ (by simp [mkFix]))),
    seq_plain_step T _ _ _ envStop _ st (plain_citeSp p) (Or.inl S.sp),
    seq_copy_prefix T st envStop _ note _ _ (fun t ht => (hnote t ht).1),
    seq_plain_step T _ _ _ envStop _ st (plain_citeRb _) (Or.inl S.rb),
    seq_action_step T _ _ _ envStop _ st S.ne]
  simp

/-! ### the token buffers -/

/-- the pieces of a token buffer: a token that is copied, a reference `\name { key }`, a citation
    `\name { key }`, a citation with a note `\name [ note ] { key }` -/
inductive Piece where
  | tok (t : Tok)
  | ref (p q1 q2 : Nat) (name : Str) (key : List Tok)
  | cite (p q1 q2 : Nat) (name : Str) (key : List Tok)
  | citeN (p b1 b2 q1 q2 : Nat) (name : Str) (note key : List Tok)

def Piece.toks : Piece → List Tok
  | .tok t => [t]
  | .ref p q1 q2 name key => cwTok p name :: lbr q1 :: (key ++ [rbr q2])
  | .cite p q1 q2 name key => cwTok p name :: lbr q1 :: (key ++ [rbr q2])
  | .citeN p b1 b2 q1 q2 name note key =>
    cwTok p name :: chTok b1 '[' :: (note ++ chTok b2 ']' :: lbr q1 :: (key ++ [rbr q2]))

/-- the token buffer -/
def flat : List Piece → List Tok
  | [] => []
  | p :: ps => p.toks ++ flat ps

def KeyToks (key : List Tok) : Prop := ∀ t ∈ key, NoBrace t ∧ t.kind ≠ .comment

def PiecesOk (T : PTables) (st : PState) : List Piece → Prop
  | [] => True
  | .tok t :: rest => PlainTok t ∧ PassTok T st t (flat rest) ∧ PiecesOk T st rest
  | .ref _ _ _ name key :: rest => RefName T st name ∧ KeyToks key ∧ PiecesOk T st rest
  | .cite _ _ _ name key :: rest => CiteName st name ∧ KeyToks key ∧ PiecesOk T st rest
  | .citeN _ _ _ _ _ name note key :: rest =>
    CiteName st name ∧ note ≠ [] ∧ (∀ t ∈ note, CopyTok T st t ∧ t.txt ≠ [']']) ∧ KeyToks key ∧
      PiecesOk T st rest

/-- what `expandSequence` emits for the pieces before the blank-line removal -/
def outP (st : PState) : List Piece → List Tok
  | [] => []
  | .tok t :: rest => t :: outP st rest
  | .ref p _ _ name _ :: rest => mkAction p :: ((replOf st name).map (restamp p) ++ outP st rest)
  | .cite p _ _ _ _ :: rest => mkAction p :: (citeToks p ++ outP st rest)
  | .citeN p _ _ _ _ _ note _ :: rest => mkAction p :: (citeNToks p note ++ outP st rest)

/-- iterations of `expandSequence` -/
def cost (st : PState) : List Piece → Nat
  | [] => 0
  | .tok _ :: rest => 1 + cost st rest
  | .ref _ _ _ name _ :: rest => 2 + (replOf st name).length + cost st rest
  | .cite _ _ _ _ _ :: rest => 4 + cost st rest
  | .citeN _ _ _ _ _ _ note _ :: rest => 6 + note.length + cost st rest

/-- **the loop on a buffer of plain tokens, references and citations.**  The output is the
    blank-line removal applied to `outP`; the state is unchanged. -/
theorem seq_ref (T : PTables) (envStop : Option Str) (st : PState) (S : StateFacts T st) :
    ∀ (ps : List Piece) (fuel : Nat) (out : List Tok),
      cost st ps + 1 ≤ fuel → PiecesOk T st ps →
      expandSequence T fuel (flat ps) envStop out st
        = match removeLines (out ++ outP st ps) with
          | some r => .ok ((r, []), st)
          | none => .outOfFuel := by
  intro ps
  induction ps with
  | nil =>
    intro fuel out hf _
    obtain ⟨f, rfl⟩ : ∃ f, fuel = f + 1 := ⟨fuel - 1, by omega⟩
    simp only [flat, outP, List.append_nil]
    rw [expandSequence.eq_2]
    cases removeLines out <;> rfl
  | cons pc ps ih =>
    intro fuel out hf hok
    cases pc with
    | tok t =>
      simp only [cost] at hf
      obtain ⟨f, rfl⟩ : ∃ f, fuel = f + 1 := ⟨fuel - 1, by omega⟩
      simp only [flat, Piece.toks, List.singleton_append]
      rw [seq_plain_step T f t (flat ps) envStop out st hok.1 hok.2.1,
        ih f (out ++ [t]) (by omega) hok.2.2]
      simp only [outP, List.append_assoc, List.singleton_append]
    | ref p q1 q2 name key =>
      obtain ⟨hn, hkey, hrest⟩ := hok
      simp only [cost] at hf
      obtain ⟨f, hf'⟩ : ∃ f, fuel = f + 1 + (2 + (replOf st name).length) :=
        ⟨fuel - 1 - (2 + (replOf st name).length), by omega⟩
      have hflat : flat (Piece.ref p q1 q2 name key :: ps)
          = cwTok p name :: lbr q1 :: (key ++ rbr q2 :: flat ps) := by
        simp [flat, Piece.toks]
      rw [hflat, hf', seq_ref_step T f p q1 q2 name key (flat ps) envStop out st hn
          (fun t ht => (hkey t ht).1) S.ne,
        ih (f + 1) _ (by omega) hrest]
      simp only [outP, List.append_assoc, List.cons_append]
    | cite p q1 q2 name key =>
      obtain ⟨hn, hkey, hrest⟩ := hok
      simp only [cost] at hf
      obtain ⟨f, hf'⟩ : ∃ f, fuel = f + 1 + 4 := ⟨fuel - 1 - 4, by omega⟩
      have hflat : flat (Piece.cite p q1 q2 name key :: ps)
          = cwTok p name :: lbr q1 :: (key ++ rbr q2 :: flat ps) := by
        simp [flat, Piece.toks]
      rw [hflat, hf', seq_cite_step T f p q1 q2 name key (flat ps) envStop out st hn
          (fun t ht => (hkey t ht).1) S,
        ih (f + 1) _ (by omega) hrest]
      simp only [outP, List.append_assoc, List.cons_append]
    | citeN p b1 b2 q1 q2 name note key =>
      obtain ⟨hn, hne, hnote, hkey, hrest⟩ := hok
      simp only [cost] at hf
      obtain ⟨f, hf'⟩ : ∃ f, fuel = f + 1 + (6 + note.length) :=
        ⟨fuel - 1 - (6 + note.length), by omega⟩
      have hflat : flat (Piece.citeN p b1 b2 q1 q2 name note key :: ps)
          = cwTok p name :: chTok b1 '[' ::
              (note ++ chTok b2 ']' :: lbr q1 :: (key ++ rbr q2 :: flat ps)) := by
        simp [flat, Piece.toks]
      rw [hflat, hf', seq_citeN_step T f p b1 b2 q1 q2 name note key (flat ps) envStop out st hn
          hnote hne (fun t ht => (hkey t ht).1) S,
        ih (f + 1) _ (by omega) hrest]
      simp only [outP, List.append_assoc, List.cons_append]

theorem chTok_notComment (p : Nat) (c : Char) : (chTok p c).kind ≠ .comment := by simp [chTok]

theorem PiecesOk.notComment {T : PTables} {st : PState} : ∀ {ps : List Piece}, PiecesOk T st ps →
    ∀ t ∈ flat ps, t.kind ≠ .comment
  | [], _, _, h => by simp [flat] at h
  | .tok t :: rest, hok, x, hx => by
    simp only [flat, Piece.toks, List.singleton_append, List.mem_cons] at hx
    rcases hx with rfl | hx
    · exact hok.1.notComment
    · exact PiecesOk.notComment hok.2.2 x hx
  | .ref p q1 q2 name key :: rest, hok, x, hx => by
    obtain ⟨_, hkey, hrest⟩ := hok
    simp only [flat, Piece.toks, List.cons_append, List.append_assoc, List.mem_cons,
      List.mem_append, List.nil_append] at hx
    rcases hx with rfl | rfl | hx | rfl | hx
    · simp [cwTok]
    · simp [lbr]
    · exact (hkey x hx).2
    · simp [rbr]
    · exact PiecesOk.notComment hrest x hx
  | .cite p q1 q2 name key :: rest, hok, x, hx => by
    obtain ⟨_, hkey, hrest⟩ := hok
    simp only [flat, Piece.toks, List.cons_append, List.append_assoc, List.mem_cons,
      List.mem_append, List.nil_append] at hx
    rcases hx with rfl | rfl | hx | rfl | hx
    · simp [cwTok]
    · simp [lbr]
    · exact (hkey x hx).2
    · simp [rbr]
    · exact PiecesOk.notComment hrest x hx
  | .citeN p b1 b2 q1 q2 name note key :: rest, hok, x, hx => by
    obtain ⟨_, _, hnote, hkey, hrest⟩ := hok
    simp only [flat, Piece.toks, List.cons_append, List.append_assoc, List.mem_cons,
      List.mem_append, List.nil_append] at hx
    rcases hx with rfl | rfl | hx | rfl | rfl | hx | rfl | hx
    · simp [cwTok]
    · exact chTok_notComment _ _
    · exact (hnote x hx).1.plain.notComment
    · exact chTok_notComment _ _
    · simp [lbr]
    · exact (hkey x hx).2
    · simp [rbr]
    · exact PiecesOk.notComment hrest x hx

/-! ### the conditions depend on the state only through the language stack and the macro table -/

theorem phTokOk_congr {T : PTables} {st st' : PState} (hl : st'.langStack = st.langStack) (t : Tok) :
    phTokOk T st' t = phTokOk T st t := by
  simp only [phTokOk, activeChars_congr T st st' hl]

theorem refDeclOk_congr {T : PTables} {st st' : PState} (hl : st'.langStack = st.langStack)
    (m : MacroDef) : refDeclOk T st' m = refDeclOk T st m := by
  have : phTokOk T st' = phTokOk T st := funext (phTokOk_congr hl)
  simp only [refDeclOk, this]

theorem RefName.congr {T : PTables} {st st' : PState} (hl : st'.langStack = st.langStack)
    (hm : st'.macros = st.macros) {name : Str} (h : RefName T st name) : RefName T st' name := by
  obtain ⟨h1, m, h2, h3⟩ := h
  exact ⟨h1, m, by simpa [lookupMacro, hm] using h2, by rw [refDeclOk_congr hl]; exact h3⟩

theorem CiteName.congr {st st' : PState} (hm : st'.macros = st.macros) {name : Str}
    (h : CiteName st name) : CiteName st' name := by
  obtain ⟨h1, m, h2, h3⟩ := h
  exact ⟨h1, m, by simpa [lookupMacro, hm] using h2, h3⟩

theorem PiecesOk.congr {T : PTables} {st st' : PState} (hl : st'.langStack = st.langStack)
    (hm : st'.macros = st.macros) : ∀ {ps : List Piece}, PiecesOk T st ps → PiecesOk T st' ps
  | [], _ => trivial
  | .tok _ :: _, h => ⟨h.1, PassTok_congr hl h.2.1, PiecesOk.congr hl hm h.2.2⟩
  | .ref _ _ _ _ _ :: _, h => ⟨h.1.congr hl hm, h.2.1, PiecesOk.congr hl hm h.2.2⟩
  | .cite _ _ _ _ _ :: _, h => ⟨h.1.congr hm, h.2.1, PiecesOk.congr hl hm h.2.2⟩
  | .citeN _ _ _ _ _ _ _ _ :: _, h =>
    ⟨h.1.congr hm, h.2.1, fun t ht => ⟨(h.2.2.1 t ht).1.congr hl, (h.2.2.1 t ht).2⟩, h.2.2.2.1,
      PiecesOk.congr hl hm h.2.2.2.2⟩

theorem replOf_congr {st st' : PState} (hm : st'.macros = st.macros) (name : Str) :
    replOf st' name = replOf st name := by
  simp [replOf, lookupMacro, hm]

theorem outP_congr {st st' : PState} (hm : st'.macros = st.macros) :
    ∀ ps : List Piece, outP st' ps = outP st ps
  | [] => rfl
  | .tok t :: rest => by simp only [outP, outP_congr hm rest]
  | .ref p q1 q2 name key :: rest => by simp only [outP, outP_congr hm rest, replOf_congr hm]
  | .cite p q1 q2 name key :: rest => by simp only [outP, outP_congr hm rest]
  | .citeN p b1 b2 q1 q2 name note key :: rest => by simp only [outP, outP_congr hm rest]

theorem cost_congr {st st' : PState} (hm : st'.macros = st.macros) :
    ∀ ps : List Piece, cost st' ps = cost st ps
  | [] => rfl
  | .tok t :: rest => by simp only [cost, cost_congr hm rest]
  | .ref p q1 q2 name key :: rest => by simp only [cost, cost_congr hm rest, replOf_congr hm]
  | .cite p q1 q2 name key :: rest => by simp only [cost, cost_congr hm rest]
  | .citeN p b1 b2 q1 q2 name note key :: rest => by simp only [cost, cost_congr hm rest]

/-! ### the documents -/

/-- a segment of the source: a run of text, a reference `\name{key}`, a citation `\name{key}` or
    `\name[note]{key}` -/
inductive Seg where
  | txt (s : Str)
  | ref (name key : Str)
  | cite (name : Str) (note : Option Str) (key : Str)
deriving Repr, DecidableEq

def Seg.render : Seg → Str
  | .txt s => s
  | .ref name key => '\\' :: (name ++ '{' :: (key ++ ['}']))
  | .cite name none key => '\\' :: (name ++ '{' :: (key ++ ['}']))
  | .cite name (some note) key => '\\' :: (name ++ '[' :: (note ++ ']' :: '{' :: (key ++ ['}'])))

/-- the source text -/
def render : List Seg → Str
  | [] => []
  | s :: rest => s.render ++ render rest

/-- the number of source characters of `\name{key}` -/
def callLen (name key : Str) : Nat := name.length + key.length + 3
/-- the number of source characters of `\name[note]{key}` -/
def callNLen (name note key : Str) : Nat := name.length + note.length + key.length + 5

def Seg.len : Seg → Nat
  | .txt s => s.length
  | .ref name key => callLen name key
  | .cite name none key => callLen name key
  | .cite name (some note) key => callNLen name note key

theorem Seg.len_eq (s : Seg) : s.len = s.render.length := by
  cases s with
  | txt s => rfl
  | ref name key => simp [Seg.len, Seg.render, callLen]; omega
  | cite name note key =>
    cases note with
    | none => simp [Seg.len, Seg.render, callLen]; omega
    | some note => simp [Seg.len, Seg.render, callNLen]; omega

/-- the placeholder text of the reference macro `\name` in `st` (real tables: `0`) -/
def phOf (st : PState) (name : Str) : Str := bodyTxt (replOf st name)

/-- generated characters, all at position `p` -/
def fixMarks (p : Nat) (s : Str) : List Mark := s.map (fun c => some (c, p))

/-- **the reference on the level of marks**: the document, which starts at position `p` —
    a text character with its position; for a reference an Action mark and the placeholder at the
    backslash; for a citation an Action mark, `[0]` at the backslash and an Action mark, resp.
    `[0, ` at the backslash, the note at its own positions, `]` at the start of the last token of
    the note, and an Action mark -/
def marks (st : PState) : Nat → List Seg → List Mark
  | _, [] => []
  | p, .txt s :: rest => (posText p s).map some ++ marks st (p + s.length) rest
  | p, .ref name key :: rest =>
    none :: (fixMarks p (phOf st name) ++ marks st (p + callLen name key) rest)
  | p, .cite name none key :: rest =>
    none :: (fixMarks p "[0]".toList ++ none :: marks st (p + callLen name key) rest)
  | p, .cite name (some note) key :: rest =>
    none :: (fixMarks p "[0, ".toList ++ ((posText (p + name.length + 2) note).map some ++
      some (']', p + name.length + 2 + lastTokOff note) :: none ::
        marks st (p + callNLen name note key) rest))

/-! ### the side conditions -/

/-- the bracket `c` (one of `[`, `]`), followed by `rest`, is scanned as a one-character text
    token: no special sequence of the tables matches there -/
def bracketAt (T : PTables) (c : Char) (rest : Str) : Bool :=
  (matchSpecial T.toTables (c :: rest)).isNone

/-- `\name`, followed by `X`, is one macro token of the scanner that the loop hands to
    `expand_macro` (`cwOk` of Proofs/PlainUnknown.lean without "undeclared") -/
def nameOk (T : PTables) (name X : Str) : Bool := cwOk T ({ macros := [] } : PState) name X

/-- `{key}`, followed by `R`: the braces are scanned as braces, the key is `PlainVanish.keyOk` -/
def bracedOk (T : PTables) (key R : Str) : Bool :=
  braceAt T '{' (key ++ '}' :: R) && PlainVanish.keyOk T key R && braceAt T '}' R

/-- `\name{key}`, followed by `R`, `\name` a reference macro -/
def refOk (T : PTables) (st : PState) (name key R : Str) : Bool :=
  nameOk T name ('{' :: (key ++ '}' :: R)) &&
  (match lookupMacro st ('\\' :: name) with
   | some m => refDeclOk T st m
   | none => false) &&
  bracedOk T key R

/-- `\name{key}`, followed by `R`, `\name` a citation macro -/
def citeOk (T : PTables) (st : PState) (name key R : Str) : Bool :=
  nameOk T name ('{' :: (key ++ '}' :: R)) &&
  (match lookupMacro st ('\\' :: name) with
   | some m => citeDeclOk m
   | none => false) &&
  bracedOk T key R

/-- `\name[note]{key}`, followed by `R`, `\name` a citation macro: the note is not empty, contains
    no `]` and is inert in front of `]` (`PlainFootnote.textOk`); the brackets are scanned as text -/
def citeNOk (T : PTables) (st : PState) (name note key R : Str) : Bool :=
  nameOk T name ('[' :: (note ++ ']' :: '{' :: (key ++ '}' :: R))) &&
  (match lookupMacro st ('\\' :: name) with
   | some m => citeDeclOk m
   | none => false) &&
  bracketAt T '[' (note ++ ']' :: '{' :: (key ++ '}' :: R)) &&
  !note.isEmpty && !note.contains ']' &&
  PlainFootnote.textOk T st note (']' :: '{' :: (key ++ '}' :: R)) &&
  bracketAt T ']' ('{' :: (key ++ '}' :: R)) &&
  bracedOk T key R

/-- well-formed documents: every segment is fine in front of the rendering of the following ones
    (`textOk` of Proofs/PlainUnknown.lean for the text) -/
def segsOk (T : PTables) (st : PState) : List Seg → Bool
  | [] => true
  | .txt s :: rest => textOk T st s (render rest) && segsOk T st rest
  | .ref name key :: rest => refOk T st name key (render rest) && segsOk T st rest
  | .cite name none key :: rest => citeOk T st name key (render rest) && segsOk T st rest
  | .cite name (some note) key :: rest =>
    citeNOk T st name note key (render rest) && segsOk T st rest

/-- all side conditions on the tables, the initialised parser state and the document -/
def SegsOk (T : PTables) (st : PState) (segs : List Seg) : Prop :=
  stateOk T st = true ∧ segsOk T st segs = true

instance (T : PTables) (st : PState) (segs : List Seg) : Decidable (SegsOk T st segs) := by
  unfold SegsOk; infer_instance

structure BracedFacts (T : PTables) (key R : Str) : Prop where
  b1 : braceAt T '{' (key ++ '}' :: R) = true
  key : PlainVanish.keyOk T key R = true
  b2 : braceAt T '}' R = true

theorem bracedFacts {T : PTables} {key R : Str} (h : bracedOk T key R = true) :
    BracedFacts T key R := by
  simp only [bracedOk, Bool.and_eq_true] at h
  exact ⟨h.1.1, h.1.2, h.2⟩

structure RefFacts (T : PTables) (st : PState) (name key R : Str) : Prop where
  cw : CwFacts T ({ macros := [] } : PState) name ('{' :: (key ++ '}' :: R))
  rn : RefName T st name
  br : BracedFacts T key R

theorem refFacts {T : PTables} {st : PState} {name key R : Str} (h : refOk T st name key R = true) :
    RefFacts T st name key R := by
  simp only [refOk, nameOk, Bool.and_eq_true] at h
  obtain ⟨⟨h1, h2⟩, h3⟩ := h
  have C := cwFacts h1
  refine ⟨C, ⟨C.nDef, ?_⟩, bracedFacts h3⟩
  split at h2
  · exact ⟨_, ‹_›, h2⟩
  · cases h2

structure CiteFacts (T : PTables) (st : PState) (name key R : Str) : Prop where
  cw : CwFacts T ({ macros := [] } : PState) name ('{' :: (key ++ '}' :: R))
  cn : CiteName st name
  br : BracedFacts T key R

theorem citeFacts {T : PTables} {st : PState} {name key R : Str} (h : citeOk T st name key R = true) :
    CiteFacts T st name key R := by
  simp only [citeOk, nameOk, Bool.and_eq_true] at h
  obtain ⟨⟨h1, h2⟩, h3⟩ := h
  have C := cwFacts h1
  refine ⟨C, ⟨C.nDef, ?_⟩, bracedFacts h3⟩
  split at h2
  · exact ⟨_, ‹_›, h2⟩
  · cases h2

structure CiteNFacts (T : PTables) (st : PState) (name note key R : Str) : Prop where
  cw : CwFacts T ({ macros := [] } : PState) name ('[' :: (note ++ ']' :: '{' :: (key ++ '}' :: R)))
  cn : CiteName st name
  lb : bracketAt T '[' (note ++ ']' :: '{' :: (key ++ '}' :: R)) = true
  ne : note ≠ []
  nrb : ']' ∉ note
  txt : PlainFootnote.textOk T st note (']' :: '{' :: (key ++ '}' :: R)) = true
  rb : bracketAt T ']' ('{' :: (key ++ '}' :: R)) = true
  br : BracedFacts T key R

theorem citeNFacts {T : PTables} {st : PState} {name note key R : Str}
    (h : citeNOk T st name note key R = true) : CiteNFacts T st name note key R := by
  simp only [citeNOk, nameOk, Bool.and_eq_true, Bool.not_eq_true', List.isEmpty_eq_false_iff,
    List.contains_eq_mem, decide_eq_false_iff_not] at h
  obtain ⟨⟨⟨⟨⟨⟨⟨h1, h2⟩, h3⟩, h4⟩, h5⟩, h6⟩, h7⟩, h8⟩ := h
  have C := cwFacts h1
  refine ⟨C, ⟨C.nDef, ?_⟩, h3, h4, h5, h6, h7, bracedFacts h8⟩
  split at h2
  · exact ⟨_, ‹_›, h2⟩
  · cases h2

/-- the source text, which starts at position `p`, with its marks -/
inductive OkSrc (T : PTables) (st : PState) : Nat → Str → List Mark → Prop
  | nil (p : Nat) : OkSrc T st p [] []
  | chr (p : Nat) (c : Char) (cs : Str) (ms : List Mark) :
      okAt T st c cs = true → OkSrc T st (p + 1) cs ms →
      OkSrc T st p (c :: cs) (some (c, p) :: ms)
  | ref (p : Nat) (name key R : Str) (ms : List Mark) :
      refOk T st name key R = true → OkSrc T st (p + callLen name key) R ms →
      OkSrc T st p ('\\' :: (name ++ '{' :: (key ++ '}' :: R)))
        (none :: (fixMarks p (phOf st name) ++ ms))
  | cite (p : Nat) (name key R : Str) (ms : List Mark) :
      citeOk T st name key R = true → OkSrc T st (p + callLen name key) R ms →
      OkSrc T st p ('\\' :: (name ++ '{' :: (key ++ '}' :: R)))
        (none :: (fixMarks p "[0]".toList ++ none :: ms))
  | citeN (p : Nat) (name note key R : Str) (ms : List Mark) :
      citeNOk T st name note key R = true → OkSrc T st (p + callNLen name note key) R ms →
      OkSrc T st p ('\\' :: (name ++ '[' :: (note ++ ']' :: '{' :: (key ++ '}' :: R))))
        (none :: (fixMarks p "[0, ".toList ++ ((posText (p + name.length + 2) note).map some ++
          some (']', p + name.length + 2 + lastTokOff note) :: none :: ms)))

theorem OkSrc_text (T : PTables) (st : PState) (R : Str) (ms : List Mark) :
    ∀ (s : Str) (p : Nat), OkSrc T st (p + s.length) R ms → textOk T st s R = true →
      OkSrc T st p (s ++ R) ((posText p s).map some ++ ms)
  | [], _, hR, _ => hR
  | c :: cs, p, hR, h => by
    simp only [textOk, Bool.and_eq_true] at h
    have hR' : OkSrc T st (p + 1 + cs.length) R ms := by
      have e : p + 1 + cs.length = p + (c :: cs).length := by simp; omega
      rw [e]; exact hR
    exact OkSrc.chr p c (cs ++ R) _ h.1 (OkSrc_text T st R ms cs (p + 1) hR' h.2)

theorem OkSrc_of_segsOk (T : PTables) (st : PState) :
    ∀ (segs : List Seg) (p : Nat), segsOk T st segs = true →
      OkSrc T st p (render segs) (marks st p segs)
  | [], p, _ => .nil p
  | .txt s :: rest, p, h => by
    simp only [segsOk, Bool.and_eq_true] at h
    exact OkSrc_text T st _ _ s p (OkSrc_of_segsOk T st rest _ h.2) h.1
  | .ref name key :: rest, p, h => by
    simp only [segsOk, Bool.and_eq_true] at h
    have := OkSrc.ref p name key (render rest) _ h.1 (OkSrc_of_segsOk T st rest _ h.2)
    simpa [render, Seg.render, marks] using this
  | .cite name none key :: rest, p, h => by
    simp only [segsOk, Bool.and_eq_true] at h
    have := OkSrc.cite p name key (render rest) _ h.1 (OkSrc_of_segsOk T st rest _ h.2)
    simpa [render, Seg.render, marks] using this
  | .cite name (some note) key :: rest, p, h => by
    simp only [segsOk, Bool.and_eq_true] at h
    have := OkSrc.citeN p name note key (render rest) _ h.1 (OkSrc_of_segsOk T st rest _ h.2)
    simpa [render, Seg.render, marks] using this

/-- white space in front can be dropped -/
theorem OkSrc_drop_space (T : PTables) (st : PState) :
    ∀ (k : Nat) (p : Nat) (s : Str) (ms : List Mark), k ≤ s.length → OkSrc T st p s ms →
      (∀ x ∈ s.take k, isSpace x = true) →
      ∃ ms', ms = (posText p (s.take k)).map some ++ ms' ∧ OkSrc T st (p + k) (s.drop k) ms'
  | 0, _, _, ms, _, h, _ => ⟨ms, rfl, h⟩
  | k + 1, _, [], _, hk, _, _ => by simp at hk
  | k + 1, p, c :: cs, _, hk, h, hsp => by
    have hc : isSpace c = true := hsp c (by simp)
    cases h with
    | chr _ _ _ ms0 _ h2 =>
      obtain ⟨ms', e, h3⟩ := OkSrc_drop_space T st k (p + 1) cs ms0 (by simpa using hk) h2
        (fun x hx => hsp x (by simp [hx]))
      refine ⟨ms', by simp [posText, e], ?_⟩
      have e : p + (k + 1) = p + 1 + k := by omega
      rw [e]; exact h3
    | ref _ name key R _ _ _ => exact absurd hc (by decide)
    | cite _ name key R _ _ _ => exact absurd hc (by decide)
    | citeN _ name note key R _ _ _ => exact absurd hc (by decide)

theorem phOf_congr {st st' : PState} (hm : st'.macros = st.macros) (name : Str) :
    phOf st' name = phOf st name := by
  simp only [phOf, replOf_congr hm]

/-- the conditions depend on the state only through the language stack and the macro table -/
theorem OkSrc.congr {T : PTables} {st st' : PState} (hl : st'.langStack = st.langStack)
    (hm : st'.macros = st.macros)
    {p : Nat} {s : Str} {ms : List Mark} (h : OkSrc T st p s ms) : OkSrc T st' p s ms := by
  induction h with
  | nil p => exact .nil p
  | chr p c cs ms hat _ ih =>
    refine .chr p c cs ms ?_ ih
    rw [← hat]
    simp only [okAt, activeChars_congr T st st' hl, shortKeys_congr T st st' hl]
  | ref p name key R ms hd _ ih =>
    rw [← phOf_congr hm]
    refine .ref p name key R ms ?_ ih
    rw [← hd]
    have : refDeclOk T st' = refDeclOk T st := funext (refDeclOk_congr hl)
    simp only [refOk, lookupMacro, hm, this]
  | cite p name key R ms hd _ ih =>
    refine .cite p name key R ms ?_ ih
    rw [← hd]
    simp only [citeOk, lookupMacro, hm]
  | citeN p name note key R ms hd _ ih =>
    refine .citeN p name note key R ms ?_ ih
    rw [← hd]
    simp only [citeNOk, lookupMacro, hm, PlainFootnote.textOk_congr T st st' hl]

/-! ### the scanner -/

theorem nextToken_bracket (T : PTables) (src : Str) (pos : Nat) (c : Char) (rest : Str)
    (hc : c = '[' ∨ c = ']') (h : bracketAt T c rest = true) :
    nextToken T.toTables src pos (c :: rest) = { tok := chTok pos c, len := 1 } := by
  have hm : matchSpecial T.toTables (c :: rest) = none := by simpa [bracketAt] using h
  rcases hc with rfl | rfl <;>
    simp [nextToken, hm, chTok, show isSpace '[' = false by decide, show isSpace ']' = false by decide]

/-- the scanner on `{key}` -/
theorem scanSteps_braced (T : PTables) (src : Str) (pos fuel : Nat) (key R : Str)
    (hf : key.length + 2 ≤ fuel) (F : BracedFacts T key R) :
    ∃ ksteps, PlainVanish.KeyRun key ksteps ∧
      scanSteps T.toTables src fuel pos ('{' :: (key ++ '}' :: R))
        = ({ tok := lbr pos, len := 1 } :: (ksteps ++
             { tok := rbr (pos + 1 + key.length), len := 1 } ::
             (scanSteps T.toTables src (fuel - ksteps.length - 2) (pos + (key.length + 2)) R).1),
           (scanSteps T.toTables src (fuel - ksteps.length - 2) (pos + (key.length + 2)) R).2) := by
  obtain ⟨g, rfl⟩ : ∃ g, fuel = g + 1 := ⟨fuel - 1, by omega⟩
  have hn2 := nextToken_brace T src pos '{' _ (Or.inl rfl) F.b1
  obtain ⟨ksteps, B, hrun⟩ := PlainVanish.scanSteps_key T src R key.length key (pos + 1) g
    (Nat.le_refl _) (by omega) F.key
  have hBl := B.len
  obtain ⟨g', hg'⟩ : ∃ g', g - ksteps.length = g' + 1 := ⟨g - ksteps.length - 1, by omega⟩
  have hn3 := nextToken_brace T src (pos + 1 + key.length) '}' R (Or.inr rfl) F.b2
  refine ⟨ksteps, B, ?_⟩
  rw [scanSteps_step T.toTables src g pos _ _ _ hn2 (by simp)]
  simp only [List.drop_succ_cons, List.drop_zero]
  rw [hrun, hg', scanSteps_step T.toTables src g' _ _ _ _ hn3 (by simp)]
  simp only [List.drop_succ_cons, List.drop_zero]
  have e1 : g + 1 - ksteps.length - 2 = g' := by omega
  have e2 : pos + 1 + key.length + 1 = pos + (key.length + 2) := by omega
  rw [e1, e2]
  rfl

/-- the scanner on `[note]` -/
theorem scanSteps_note (T : PTables) (st : PState) (src : Str) (pos fuel : Nat) (note X : Str)
    (hf : note.length + 2 ≤ fuel)
    (b1 : bracketAt T '[' (note ++ ']' :: X) = true)
    (ht : PlainFootnote.textOk T st note (']' :: X) = true)
    (b2 : bracketAt T ']' X = true) :
    ∃ nsteps, PlainFootnote.TextRun T st (pos + 1) note nsteps ∧
      scanSteps T.toTables src fuel pos ('[' :: (note ++ ']' :: X))
        = ({ tok := chTok pos '[', len := 1 } :: (nsteps ++
             { tok := chTok (pos + 1 + note.length) ']', len := 1 } ::
             (scanSteps T.toTables src (fuel - nsteps.length - 2) (pos + (note.length + 2)) X).1),
           (scanSteps T.toTables src (fuel - nsteps.length - 2) (pos + (note.length + 2)) X).2) := by
  obtain ⟨g, rfl⟩ : ∃ g, fuel = g + 1 := ⟨fuel - 1, by omega⟩
  have hn2 := nextToken_bracket T src pos '[' _ (Or.inl rfl) b1
  obtain ⟨nsteps, B, hrun⟩ := PlainFootnote.scanSteps_textrun T st src (']' :: X) (by simp; decide)
    note.length note (pos + 1) g (Nat.le_refl _) (by omega) ht
  have hBl := B.len
  obtain ⟨g', hg'⟩ : ∃ g', g - nsteps.length = g' + 1 := ⟨g - nsteps.length - 1, by omega⟩
  have hn3 := nextToken_bracket T src (pos + 1 + note.length) ']' X (Or.inr rfl) b2
  refine ⟨nsteps, B, ?_⟩
  rw [scanSteps_step T.toTables src g pos _ _ _ hn2 (by simp)]
  simp only [List.drop_succ_cons, List.drop_zero]
  rw [hrun, hg', scanSteps_step T.toTables src g' _ _ _ _ hn3 (by simp)]
  simp only [List.drop_succ_cons, List.drop_zero]
  have e1 : g + 1 - nsteps.length - 2 = g' := by omega
  have e2 : pos + 1 + note.length + 1 = pos + (note.length + 2) := by omega
  rw [e1, e2]

/-! ### what the output tokens mean -/

theorem zip_fst_snd {α β} : ∀ (l : List (α × β)), (l.map (·.1)).zip (l.map (·.2)) = l
  | [] => rfl
  | x :: l => by simp [zip_fst_snd l]

theorem zip_range'_posText : ∀ (s : Str) (p : Nat), s.zip (List.range' p s.length) = posText p s
  | [], _ => rfl
  | c :: cs, p => by
    simp only [List.length_cons, List.range'_succ, List.zip_cons_cons, posText,
      zip_range'_posText cs (p + 1)]

theorem charsOf_of_getTxtPos (ts : List Tok) (s : Str) (p : Nat)
    (h : getTxtPos ts = (s, List.range' p s.length)) : charsOf ts = posText p s := by
  rw [getTxtPos_charsOf] at h
  simp only [Prod.mk.injEq] at h
  rw [← zip_fst_snd (charsOf ts), h.1, h.2, zip_range'_posText]

theorem marksOf_noaction : ∀ (ts : List Tok), (∀ t ∈ ts, isAction t = false) →
    marksOf ts = (charsOf ts).map some
  | [], _ => rfl
  | t :: ts, h => by
    rw [marksOf_cons, charsOf_cons, tokMarks_nonaction _ (h t (List.mem_cons_self ..)),
      marksOf_noaction ts (fun x hx => h x (List.mem_cons_of_mem _ hx)), List.map_append]

theorem marksOf_textrun {T : PTables} {st : PState} {pos : Nat} {s : Str} {steps : List ScanStep}
    (B : PlainFootnote.TextRun T st pos s steps) :
    marksOf (steps.map (·.tok)) = (posText pos s).map some := by
  rw [marksOf_noaction _ (by
    intro t ht
    obtain ⟨x, hx, rfl⟩ := List.mem_map.mp ht
    exact (B.ok x hx).2.2.plain.notAction), charsOf_of_getTxtPos _ _ _ B.txt]

theorem mem_txt_of_getTxtPos {ts : List Tok} {t : Tok} {c : Char} (ht : t ∈ ts) (hc : c ∈ t.txt) :
    c ∈ (getTxtPos ts).1 := by
  rw [getTxtPos_charsOf]
  simp only [charsOf, List.map_flatMap, List.mem_flatMap]
  exact ⟨t, ht, by rw [tokChars_fst]; exact hc⟩

theorem simple_of_copy {T : PTables} {st : PState} {t : Tok} (h : CopyTok T st t) : Simple t := by
  refine ⟨fun ha => absurd ha (by simp [h.plain.notAction]), plainTok_notLang h.plain, ?_⟩
  intro hn
  rcases h.shape.2 with ⟨_, h2⟩ | ⟨_, h2⟩
  · rw [h2] at hn; cases hn
  · exact h2

theorem tokChars_fix (t : Tok) (h : t.fix = true) : tokChars t = t.txt.map (fun c => (c, t.pos)) := by
  have : tokChars t = tokChars (restamp t.pos t) := by
    cases t; simp only at h; subst h; rfl
  rw [this, tokChars_restamp]

theorem tokMarks_mkFix (k : Kind) (p : Nat) (s : Str) (hk : k ≠ .action) :
    tokMarks (mkFix k p s) = fixMarks p s := by
  rw [tokMarks_nonaction _ (by simp [isAction, mkFix, hk]), tokChars_fix _ rfl]
  simp [mkFix, fixMarks]

theorem simple_vis (t : Tok) (hk : t.kind = .text) (hv : ∀ c ∈ t.txt, isSpace c = false) : Simple t := by
  refine ⟨fun ha => absurd ha (by simp [isAction, hk]), by simp [isLang, hk], ?_⟩
  intro hn
  simp only [hasNl, List.contains_eq_mem, decide_eq_true_eq] at hn
  exact absurd (hv nl hn) (by decide)

theorem simple_restamp {T : PTables} {st : PState} {t : Tok} (p : Nat) (h : PhTok T st t) :
    Simple (restamp p t) :=
  simple_vis _ (by simpa [restamp] using h.kind) (by simpa [restamp] using h.vis)

theorem marksOf_citeToks (p : Nat) : marksOf (citeToks p) = fixMarks p "[0]".toList ++ [none] := by
  simp only [citeToks, marksOf_cons, tokMarks_mkFix _ _ _ (by simp : Kind.text ≠ .action),
    tokMarks_mkAction]
  rfl

theorem marksOf_citeNToks (p : Nat) (note : List Tok) (pos : Nat) (s : Str) (lp : Nat)
    (hm : marksOf note = (posText pos s).map some) (hl : lastPos note = lp) :
    marksOf (citeNToks p note)
      = fixMarks p "[0, ".toList ++ ((posText pos s).map some ++ [some (']', lp), none]) := by
  simp only [citeNToks, marksOf_cons, marksOf_append, hm, hl,
    tokMarks_mkFix _ _ _ (by simp : Kind.text ≠ .action),
    tokMarks_mkFix _ _ _ (by simp : Kind.space ≠ .action), tokMarks_mkAction]
  rw [tokMarks_nonaction _ (by simp [isAction, mkTok]), tokChars_nofix _ rfl]
  simp [fixMarks, mkTok, posText, marksOf]

end PlainRef
end Yalafi
