/-
  Proofs/ReplGeneral.lean — C13 on `tex2txt` for EVERY source text: the option `--repl` does
  nothing but apply `replace_phrases` to the text and the position list that the filter returns
  without it.  (`parse` and `initParser` do not look at `repl`.)  Together with
  `replacePhrases_ok` and C01 this gives: with a replacement list, text and positions still have
  equal length and every position is a position of the run without replacements.
-/
import YalafiVerif.Model.Tex2txt
import YalafiVerif.Proofs.Replace
namespace Yalafi

/-- the filter's result before the final `(· + 1)` / replacement step, as `tex2txt` computes it -/
theorem tex2txt_repl_commutes (T : PTables) (fuel : Nat) (latex : Str) (o : Options) (thresh : Nat) (fs : FS)
    (r0 : T2TResult) (hunkn : o.unkn = false)
    (h0 : tex2txt T fuel latex { o with hasRepl := false } false thresh fs = .ok r0) :
    tex2txt T fuel latex { o with hasRepl := true } false thresh fs =
      .ok { r0 with
            txt := (replacePhrases T.toTables r0.txt (r0.pos.map (· - 1)) o.repl).1,
            pos := (replacePhrases T.toTables r0.txt (r0.pos.map (· - 1)) o.repl).2.map (· + 1) } := by
  unfold tex2txt at h0 ⊢
  have hinit : initParser T fuel { o with hasRepl := true } = initParser T fuel { o with hasRepl := false } := rfl
  have hst : initialState T { o with hasRepl := true } false fs = initialState T { o with hasRepl := false } false fs := rfl
  simp only [hinit, hst] at h0 ⊢
  generalize hrun : (do initParser T fuel { o with hasRepl := false }
                        parse T fuel latex o.defs
                          (if o.extr.isEmpty then [] else (splitOn ',' o.extr []).map (fun s => '\\' :: s)) : M (List Tok))
      (initialState T { o with hasRepl := false } false fs) = res at h0 ⊢
  cases res with
  | fatal m => simp at h0
  | crash c => simp at h0
  | outOfFuel => simp at h0
  | ok p =>
    obtain ⟨toks, st⟩ := p
    simp only [Bool.not_false, if_true, hunkn, Bool.false_eq_true, if_false] at h0 ⊢
    injection h0 with h0
    subst h0
    simp [List.map_map, Function.comp_def]

/-- **C13 / C01 for every source**: with a replacement list, text and position list of the result
    have equal length and every reported position is a position reported without the list -/
theorem tex2txt_repl_ok (T : PTables) (fuel : Nat) (latex : Str) (o : Options) (thresh : Nat) (fs : FS)
    (r0 : T2TResult) (hunkn : o.unkn = false)
    (h0 : tex2txt T fuel latex { o with hasRepl := false } false thresh fs = .ok r0)
    (hlen : r0.txt.length = r0.pos.length) :
    ∃ r, tex2txt T fuel latex { o with hasRepl := true } false thresh fs = .ok r ∧
      r.txt.length = r.pos.length ∧ (∀ p ∈ r.pos, p - 1 ∈ r0.pos.map (· - 1)) ∧
      r.unknowns = r0.unknowns ∧ r.diags = r0.diags := by
  refine ⟨_, tex2txt_repl_commutes T fuel latex o thresh fs r0 hunkn h0, ?_, ?_, rfl, rfl⟩
  · have := (replacePhrases_ok T.toTables r0.txt (r0.pos.map (· - 1)) o.repl (by simpa using hlen)).1
    simpa using this
  · intro p hp
    simp only [List.mem_map] at hp
    obtain ⟨q, hq, rfl⟩ := hp
    have := (replacePhrases_ok T.toTables r0.txt (r0.pos.map (· - 1)) o.repl (by simpa using hlen)).2 q hq
    simpa using this

/-- what `--repl` does to one entry of a multi-language result (positions are one-based there): only the parts of
    the MAIN language are rewritten, each piece by `replace_phrases` on its own text and map -/
def replPart (T : PTables) (o : Options) (e : Str × List (Str × List Nat)) : Str × List (Str × List Nat) :=
  if e.1 == o.lang then
    (e.1, e.2.map (fun tp =>
      ((replacePhrases T.toTables tp.1 (tp.2.map (· - 1)) o.repl).1,
       (replacePhrases T.toTables tp.1 (tp.2.map (· - 1)) o.repl).2.map (· + 1))))
  else e

/-- **multi-language mode, every source text**: `--repl` does nothing but apply `replace_phrases` to the pieces of the main
    language of the result obtained without it; the pieces of all other languages, unknowns and diagnostics are the same -/
theorem tex2txt_repl_commutes_ml (T : PTables) (fuel : Nat) (latex : Str) (o : Options) (thresh : Nat) (fs : FS)
    (r0 : T2TResult)
    (h0 : tex2txt T fuel latex { o with hasRepl := false } true thresh fs = .ok r0) :
    tex2txt T fuel latex { o with hasRepl := true } true thresh fs =
      .ok { r0 with parts := r0.parts.map (replPart T o) } := by
  unfold tex2txt at h0 ⊢
  have hinit : initParser T fuel { o with hasRepl := true } = initParser T fuel { o with hasRepl := false } := rfl
  have hst : initialState T { o with hasRepl := true } true fs = initialState T { o with hasRepl := false } true fs := rfl
  simp only [hinit, hst] at h0 ⊢
  generalize hrun : (do initParser T fuel { o with hasRepl := false }
                        parse T fuel latex o.defs
                          (if o.extr.isEmpty then [] else (splitOn ',' o.extr []).map (fun s => '\\' :: s)) : M (List Tok))
      (initialState T { o with hasRepl := false } true fs) = res at h0 ⊢
  cases res with
  | fatal m => simp at h0
  | crash c => simp at h0
  | outOfFuel => simp at h0
  | ok p =>
    obtain ⟨toks, st⟩ := p
    simp only [Bool.not_true, Bool.false_eq_true, if_false] at h0 ⊢
    cases hml : getTxtPosML toks o.lang thresh (st.rots.map (fun r => (r.code, r.chg))) with
    | none => simp [hml] at h0
    | some pr =>
      simp only [hml] at h0 ⊢
      injection h0 with h0
      subst h0
      simp only [Bool.false_and, Bool.true_and, if_false, List.map_map, Outcome.ok.injEq, T2TResult.mk.injEq, true_and, and_true,
        List.map_id']
      apply List.map_congr_left
      intro e _
      by_cases he : e.1 = o.lang
      · simp [replPart, he, List.map_map, Function.comp_def]
      · simp [replPart, he]

end Yalafi
