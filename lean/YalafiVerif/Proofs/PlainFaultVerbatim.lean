/-
  Proofs/PlainFaultVerbatim.lean — C08 at `\begin{verbatim}` WITHOUT `\end{verbatim}`, end to end on
  the model.

  Document: `pre ++ \begin{verbatim} ++ post` — `pre`, `post` inert text, and `\end{verbatim}` does
  not occur in `post` (`findSub sEndVerbatim post = none`; implied by inertness — `post` has no
  backslash — but kept as the defining condition of the fault).

  What the model (= `Scanner.scan_verbatim`) does: the search for `\end{verbatim}` fails;
  `latex_error('missing end of verbatim', start)` with `start` = the backslash of `\begin`; the mark
  tokens REPLACE THE TOKEN `\begin` only (the scanner goes on behind `\begin`): `{verbatim}` and
  everything behind it is scanned as ordinary text.  So the loop copies the mark, turns `{` and `}`
  into Action tokens and copies the word `verbatim` and `post`:
      `pre ++ mark ++ "verbatim" ++ post`
  — no text behind the construct is lost, but the word `verbatim` appears in the plain text (the
  theorem follows the model).  The diagnostic is written by the scanner (before any expansion).

  `nextToken_verbatim_open`, `scanRun_verbatim`   scanner
  `seq_verbatim_open`                             the loop
  `tex2txt_verbatim_unterminated`                 end to end

  Side conditions (reasons)
    `pre`, `post`    inert text in their right context
    no special sequence of the tables matches at the backslash of `\begin`
    `{`, `}`         scanned as special tokens; the word `verbatim` is inert in front of `}` (no
                     active character, no special sequence starts in it: real tables yes)
    blank            no "active character" (mark tokens pass `expand_sequence`)
    `markFine`       the mark is a visible one-line text (Action tokens of the braces)
  NOT covered: white space between `\begin` and `{verbatim}` (allowed by the scanner), a `post` with
  macros, comments or maths (it is scanned and expanded as LaTeX text, so e.g. `%` in the would-be
  verbatim text starts a comment).
-/
import YalafiVerif.Proofs.PlainFaultBase
namespace Yalafi
namespace PlainFault

open M PlainMacro
open PlainFootnote (TextRun CopyTok lineC LinesOf)
open PlainAccent (ScanRun)
open PlainMathOpen (markPos)

/-- the word between the braces -/
def sVerbWord : Str := ['v', 'e', 'r', 'b', 'a', 't', 'i', 'm']

/-- the source of the construct: `\begin{verbatim}` -/
def verbatimSrc : Str := sBegin ++ sVerbatimArg

theorem sBegin_lit : sBegin = ['\\', 'b', 'e', 'g', 'i', 'n'] := by decide
theorem sVerbatimArg_lit : sVerbatimArg = ['{', 'v', 'e', 'r', 'b', 'a', 't', 'i', 'm', '}'] := by decide

theorem verbatimSrc_eq : verbatimSrc = sBegin ++ ('{' :: (sVerbWord ++ ['}'])) := by
  rw [verbatimSrc, sVerbatimArg_lit]; rfl

theorem verbatimSrc_lit : verbatimSrc
    = ['\\', 'b', 'e', 'g', 'i', 'n', '{', 'v', 'e', 'r', 'b', 'a', 't', 'i', 'm', '}'] := by
  rw [verbatimSrc, sVerbatimArg_lit, sBegin_lit]; rfl

/-! ### the scanner -/

/-- the scanner step at `\begin{verbatim}` without `\end{verbatim}` -/
def verbatimErrStep (T : Tables) (src : Str) (pos : Nat) : ScanStep :=
  { tok := (latexErrorToks T errMissingEndVerbatim pos src.length).headD default,
    len := 6, diag := some (latexErrorDiag errMissingEndVerbatim pos src),
    extra := (latexErrorToks T errMissingEndVerbatim pos src.length).tail }

theorem nextToken_verbatim_open (T : Tables) (src : Str) (pos : Nat) (post : Str)
    (hm : matchSpecial T (sBegin ++ (sVerbatimArg ++ post)) = none)
    (hend : findSub sEndVerbatim post = none) :
    nextToken T src pos (sBegin ++ (sVerbatimArg ++ post)) = verbatimErrStep T src pos := by
  have e : sBegin ++ (sVerbatimArg ++ post)
      = '\\' :: 'b' :: 'e' :: 'g' :: 'i' :: 'n' :: '{' :: 'v' :: 'e' :: 'r' :: 'b' :: 'a' :: 't' :: 'i'
          :: 'm' :: '}' :: post := by
    rw [sBegin_lit, sVerbatimArg_lit]; rfl
  rw [e] at hm ⊢
  have hlen : macroLen ('\\' :: 'b' :: 'e' :: 'g' :: 'i' :: 'n' :: '{' :: 'v' :: 'e' :: 'r' :: 'b' :: 'a'
      :: 't' :: 'i' :: 'm' :: '}' :: post) = 6 := by
    simp [macroLen, show macroChar '{' = false by decide,
      show macroChar 'b' = true by decide, show macroChar 'e' = true by decide,
      show macroChar 'g' = true by decide, show macroChar 'i' = true by decide,
      show macroChar 'n' = true by decide]
  have htake : ('\\' :: 'b' :: 'e' :: 'g' :: 'i' :: 'n' :: '{' :: 'v' :: 'e' :: 'r' :: 'b' :: 'a'
      :: 't' :: 'i' :: 'm' :: '}' :: post).take 6 = sBegin := by
    rw [sBegin_lit]; rfl
  have hsw : startsWith ('{' :: 'v' :: 'e' :: 'r' :: 'b' :: 'a' :: 't' :: 'i' :: 'm' :: '}' :: post)
      sVerbatimArg = true := by
    rw [sVerbatimArg_lit]; simp [startsWith]
  unfold nextToken
  simp only [show isSpace '\\' = false by decide, Bool.false_eq_true, if_false,
    show ('\\' == '%') = false by decide, show ('\\' == '#') = false by decide, hm,
    beq_self_eq_true, if_true, scanMacro, hlen, htake]
  unfold scanVerbatim
  simp only [List.drop_succ_cons, List.drop_zero,
    show ('{' :: 'v' :: 'e' :: 'r' :: 'b' :: 'a' :: 't' :: 'i' :: 'm' :: '}' :: post).takeWhile isSpace = []
      by simp [show isSpace '{' = false by decide],
    List.length_nil, Nat.add_zero, List.isEmpty_cons, countNl, List.count_nil, hsw,
    Bool.not_true, Bool.or_self, Bool.false_eq_true, if_false, hend,
    show ¬ (0 > 1) by omega, decide_false]
  rfl

/-- the scanner steps of `\begin{verbatim}` without end -/
def verbatimSteps (T : Tables) (src : Str) (pos : Nat) : List ScanStep :=
  verbatimErrStep T src pos :: ({ tok := lbr (pos + 6), len := 1 } ::
    (wordSteps (pos + 7) sVerbWord ++ [{ tok := rbr (pos + 15), len := 1 }]))

/-- the side conditions on the construct, followed by `post` -/
def verbatimOk (T : PTables) (st : PState) (post : Str) : Bool :=
  (matchSpecial T.toTables (sBegin ++ (sVerbatimArg ++ post))).isNone &&
  (findSub sEndVerbatim post).isNone &&
  braceAt T '{' (sVerbWord ++ '}' :: post) && wordOk T st sVerbWord ('}' :: post) &&
  braceAt T '}' post

structure VerbatimFacts (T : PTables) (st : PState) (post : Str) : Prop where
  ms : matchSpecial T.toTables (sBegin ++ (sVerbatimArg ++ post)) = none
  noEnd : findSub sEndVerbatim post = none
  b1 : braceAt T '{' (sVerbWord ++ '}' :: post) = true
  word : wordOk T st sVerbWord ('}' :: post) = true
  b2 : braceAt T '}' post = true

theorem verbatimFacts {T : PTables} {st : PState} {post : Str} (h : verbatimOk T st post = true) :
    VerbatimFacts T st post := by
  simp only [verbatimOk, Bool.and_eq_true, Option.isNone_iff_eq_none] at h
  exact ⟨h.1.1.1.1, h.1.1.1.2, h.1.1.2, h.1.2, h.2⟩

theorem scanRun_verbatim (T : PTables) (st : PState) (src : Str) (pos : Nat) (post : Str)
    (F : VerbatimFacts T st post) :
    ScanRun T.toTables src (verbatimSteps T.toTables src pos) pos verbatimSrc post := by
  have e0 : sBegin ++ (sVerbatimArg ++ post) = '\\' :: (sBegin.tail ++ (('{' :: (sVerbWord ++ ['}'])) ++ post)) := by
    rw [sBegin_lit, sVerbatimArg_lit]; rfl
  have r1 : ScanRun T.toTables src [verbatimErrStep T.toTables src pos] pos sBegin
      (('{' :: (sVerbWord ++ ['}'])) ++ post) := by
    have := nextToken_verbatim_open T.toTables src pos post F.ms F.noEnd
    rw [e0] at this
    exact ScanRun.one _ _ _ '\\' sBegin.tail _ _ this rfl
  have r2 : ScanRun T.toTables src [{ tok := lbr (pos + 6), len := 1 }] (pos + 6) ['{']
      ((sVerbWord ++ ['}']) ++ post) := by
    have hb := F.b1
    rw [show sVerbWord ++ '}' :: post = (sVerbWord ++ ['}']) ++ post by simp] at hb
    exact ScanRun.one _ _ _ '{' [] _ _ (nextToken_brace T src _ '{' _ (Or.inl rfl) hb) rfl
  have r3 : ScanRun T.toTables src (wordSteps (pos + 7) sVerbWord) (pos + 7) sVerbWord (['}'] ++ post) :=
    scanRun_word T st src _ sVerbWord (pos + 7) F.word
  have r4 : ScanRun T.toTables src [{ tok := rbr (pos + 15), len := 1 }] (pos + 15) ['}'] post :=
    ScanRun.one _ _ _ '}' [] _ _ (nextToken_brace T src _ '}' _ (Or.inr rfl) F.b2) rfl
  have r34 : ScanRun T.toTables src (wordSteps (pos + 7) sVerbWord ++ [{ tok := rbr (pos + 15), len := 1 }])
      (pos + 7) (sVerbWord ++ ['}']) post := ScanRun.append r3 r4
  have r234 := ScanRun.append r2 r34
  have r := ScanRun.append r1 r234
  rw [verbatimSrc_eq]
  exact r

theorem verbatimSteps_toks (T : Tables) (src : Str) (pos : Nat) (_hp : pos < src.length) :
    stepToks (verbatimSteps T src pos)
      = latexErrorToks T errMissingEndVerbatim pos src.length
        ++ (lbr (pos + 6) :: (letToks (pos + 7) sVerbWord ++ [rbr (pos + 15)])) ∧
    stepDiags (verbatimSteps T src pos) = [latexErrorDiag errMissingEndVerbatim pos src] := by
  have hne : latexErrorToks T errMissingEndVerbatim pos src.length ≠ [] := by
    unfold latexErrorToks; simp only []; split <;> simp
  have hht : ∀ l : List Tok, l ≠ [] → l.headD default :: l.tail = l := by
    intro l hl; cases l with
    | nil => exact absurd rfl hl
    | cons a as => rfl
  obtain ⟨w1, w2⟩ := stepToks_wordSteps (pos + 7) sVerbWord
  have e : verbatimSteps T src pos = [verbatimErrStep T src pos] ++ ([{ tok := lbr (pos + 6), len := 1 }] ++
      (wordSteps (pos + 7) sVerbWord ++ [{ tok := rbr (pos + 15), len := 1 }])) := rfl
  constructor
  · rw [e, stepToks_append, stepToks_append, stepToks_append, w1]
    simp only [stepToks, verbatimErrStep, List.map_cons, List.map_nil, List.flatten_cons, List.flatten_nil,
      List.append_nil, hht _ hne, List.cons_append, List.nil_append]
  · rw [e, stepDiags_append, stepDiags_append, stepDiags_append, w2]
    simp [stepDiags, verbatimErrStep]

/-! ### the loop -/

/-- what the loop emits for the tokens of `\begin{verbatim}` without end -/
def verbatimOut (T : Tables) (n pos : Nat) : List Tok :=
  latexErrorToks T errMissingEndVerbatim pos n
    ++ (mkAction (pos + 6) :: (letToks (pos + 7) sVerbWord ++ [mkAction (pos + 15)]))

theorem seq_verbatim_open (T : PTables) (st : PState) (g : Nat) (pos : Nat) (post : Str) (B : List Tok)
    (envStop : Option Str) (out : List Tok)
    (hw : wordOk T st sVerbWord ('}' :: post) = true)
    (hb : (activeChars T st).contains [' '] = false) (hp : pos < st.latex.length) :
    ∃ g', g ≤ g' ∧
      expandSequence T (g + 12)
        (latexErrorToks T.toTables errMissingEndVerbatim pos st.latex.length
          ++ (lbr (pos + 6) :: (letToks (pos + 7) sVerbWord ++ [rbr (pos + 15)])) ++ B) envStop out st
        = expandSequence T g' B envStop (out ++ verbatimOut T.toTables st.latex.length pos) st := by
  obtain ⟨g', hg', hmark⟩ := seq_mark' T st errMissingEndVerbatim pos st.latex.length hp hb envStop
    (lbr (pos + 6) :: (letToks (pos + 7) sVerbWord ++ [rbr (pos + 15)]) ++ B) (g + 10) out
  obtain ⟨x, rfl⟩ : ∃ x, g' = x + 10 := ⟨g' - 10, by omega⟩
  refine ⟨x, by omega, ?_⟩
  rw [List.append_assoc, show g + 12 = (g + 10) + 2 by omega, hmark]
  have hlen : (letToks (pos + 7) sVerbWord).length = 8 := by rw [letToks_length]; rfl
  rw [show x + 10 = (x + 9) + 1 by omega, List.cons_append,
    seq_brace_step T (x + 9) (lbr (pos + 6)) _ envStop _ st rfl (Or.inl rfl),
    List.append_assoc, show x + 9 = (x + 1) + (letToks (pos + 7) sVerbWord).length by rw [hlen],
    PlainFootnote.seq_copy_prefix T st envStop _ (letToks (pos + 7) sVerbWord) (x + 1) _
      (letToks_copy T st _ sVerbWord (pos + 7) hw),
    List.singleton_append,
    seq_brace_step T x (rbr (pos + 15)) _ envStop _ st rfl (Or.inr rfl)]
  simp [verbatimOut, lbr, rbr, List.append_assoc]

/-! ### end to end -/

/-- all side conditions on `pre ++ \begin{verbatim} ++ post` -/
def verbatimFaultOk (T : PTables) (st : PState) (pre post : Str) : Bool :=
  PlainFootnote.textOk T st pre (verbatimSrc ++ post) &&
  PlainFootnote.textOk T st post [] &&
  verbatimOk T st post &&
  !(activeChars T st).contains [' '] && markFine T.toTables errMissingEndVerbatim

/-- **C08 at `\begin{verbatim}` without `\end{verbatim}`, end to end.**
    `src = pre ++ \begin{verbatim} ++ post` (`verbatimFaultOk`).  Then `tex2txt` succeeds and

    * the text is `pre`, the COMPLETE mark `errMark`, the word `verbatim`, `post` (the text behind the
      construct is kept — it is read as ordinary LaTeX text);
    * `pre`, `verbatim` and `post` keep their own positions; the mark is mapped to the backslash of
      `\begin` (1-based `P + 1`; `markPos1`);
    * exactly one diagnostic is added: "missing end of verbatim" at the line and column of the
      backslash; nothing is reported as unknown. -/
theorem tex2txt_verbatim_unterminated (T : PTables) (o : Options) (fs : FS) (thresh : Nat)
    (pre post : Str) (fuel : Nat) (st1 : PState)
    (hdefs : o.defs = []) (hextr : o.extr = []) (hrepl : o.hasRepl = false) (hunkn : o.unkn = false)
    (hinit : initParser T fuel o (initialState T o false fs) = .ok ((), st1))
    (hok : verbatimFaultOk T st1 pre post = true)
    (hf : (pre ++ (verbatimSrc ++ post)).length + 14 ≤ fuel) :
    let src := pre ++ (verbatimSrc ++ post)
    let P := pre.length
    let d := latexErrorDiag errMissingEndVerbatim P src
    ∃ r, tex2txt T fuel src o false thresh fs = .ok r ∧
      r.txt = pre ++ (errMark T.toTables errMissingEndVerbatim ++ (sVerbWord ++ post)) ∧
      r.pos = List.range' 1 pre.length ++ (markPos1 T.toTables errMissingEndVerbatim src.length P
        ++ (List.range' (P + 8) 8 ++ List.range' (P + 17) post.length)) ∧
      r.unknowns = [] ∧ r.diags = st1.diags ++ [d] ∧
      d.msg = errMissingEndVerbatim ∧ d.line = countNl pre + 1 ∧
      d.col = (afterLastNl pre).length + 1 := by
  intro src P d
  simp only [verbatimFaultOk, Bool.and_eq_true, Bool.not_eq_true'] at hok
  obtain ⟨⟨⟨⟨hpre, hpost⟩, hverb⟩, hblank⟩, hmark⟩ := hok
  have F := verbatimFacts hverb
  have hvl : verbatimSrc.length = 16 := by rw [verbatimSrc_lit]; rfl
  have hPn : P < src.length := by
    simp only [src, P, List.length_append, hvl]; omega
  obtain ⟨htk, hdg⟩ := verbatimSteps_toks T.toTables src P hPn
  let stX := workState st1 src [latexErrorDiag errMissingEndVerbatim P src]
  obtain ⟨r, h, h1, h2, h3, h4⟩ := fault_frame T o fs thresh pre verbatimSrc post fuel st1 stX
    (verbatimSteps T.toTables src P) (verbatimOut T.toTables src.length P) 12
    hdefs hextr hrepl hunkn hinit hpre (by rw [verbatimSrc_lit]; simp [show isSpace '\\' = false by decide])
    (scanRun_verbatim T st1 src P post F)
    (by rw [hvl]; simp [verbatimSteps, wordSteps, letToks_length, sVerbWord])
    hpost
    (by
      rw [htk]
      intro t ht
      simp only [List.mem_append, List.mem_cons, List.not_mem_nil, or_false] at ht
      rcases ht with ht | rfl | ht | rfl
      · simp [(PlainMathOpen.latexErrorToks_kind T.toTables _ P src.length t ht).1]
      · simp [lbr]
      · exact (letToks_copy T st1 _ sVerbWord (P + 7) F.word t ht).plain.notComment
      · simp [rbr])
    rfl
    (by
      intro B _ g out
      rw [htk, hdg]
      have hw : wordOk T stX sVerbWord ('}' :: post) = true := by
        have : wordOk T stX sVerbWord ('}' :: post) = wordOk T st1 sVerbWord ('}' :: post) := by
          simp only [wordOk, PlainFootnote.textOk_congr T st1 stX rfl]
        rw [this]; exact F.word
      exact seq_verbatim_open T stX g P post B none out hw
        (by rw [activeChars_congr T st1 stX rfl]; exact hblank) hPn)
    (by
      intro A B a b hA hB hAc hBc
      refine removeLines_vis A _ B a b hA hB (fun t ht => (hAc t ht).ne) (fun t ht => (hBc t ht).ne) ?_
      unfold verbatimOut
      refine Vis.append (Vis.mark T.toTables _ P src.length hmark) (KeepsVis.action _ ?_)
      exact KeepsVis.letToks sVerbWord (P + 7) (by decide) (KeepsVis.action _ KeepsVis.nil))
    (by omega)
  have htp : getTxtPos (verbatimOut T.toTables src.length P)
      = (errMark T.toTables errMissingEndVerbatim ++ sVerbWord,
         markPos T.toTables errMissingEndVerbatim src.length P ++ List.range' (P + 7) 8) := by
    unfold verbatimOut
    rw [getTxtPos_append, PlainMathOpen.latexErrorToks_txtpos,
      show ∀ (x : Tok) (l : List Tok), x :: l = [x] ++ l from fun _ _ => rfl,
      getTxtPos_void_run [mkAction (P + 6)] (by simp [mkAction]),
      getTxtPos_append, letToks_txtpos]
    simp [getTxtPos, tokPositions, mkAction, sVerbWord]
  obtain ⟨hl, hc⟩ := lineCol_after pre (verbatimSrc ++ post)
  refine ⟨r, h, ?_, ?_, h3, ?_, rfl, hl, hc⟩
  · rw [h1, htp]
    simp [flowsToks, stX, workState, rootState, getTxtPos]
  · rw [h2, htp]
    simp only [List.map_append, markPos_map T.toTables errMissingEndVerbatim src.length P hPn,
      range'_succ_map]
    simp [flowsToks, stX, workState, rootState, getTxtPos, P, hvl]
  · rw [h4]
    simp [stX, workState, rootState, d]

end PlainFault
end Yalafi
