/-
  Proofs/PlainPara.lean — C05 "text flow is preserved", the PARAGRAPH-LEVEL reading of the exact
  character-level reference `PlainMacro.delLines` (= `remove_pure_action_lines`), on the level of MARKS
  (`PlainMacro.Mark` = an output character with its position, or `none` for a text-less Action mark).
  Independent of any document grammar; lifted to documents in Proofs/PlainParaSrc.lean.

  Setting.  A mark list `X ++ some a :: (M ++ some b :: Y)` with two VISIBLE characters `a`, `b` (no
  white space).  Both survive (`PlainMix.delLines_words`), and

    `delLines_between`   delLines (X ++ some a :: (M ++ some b :: Y))
                           = pre X ++ a :: (sep M ++ b :: post Y)

  where `sep M` — THE OUTPUT CHARACTERS STRICTLY BETWEEN `a` AND `b` — depends on `M` only:
    `sep`, `pre`, `mid`  `mid cur bl act` = `delGo cur bl act`, except that the last line is kept (a
                         visible character follows); `sep M = mid [] false false M` (the line of `a`
                         is not blank), `pre X = mid [] true false X`
    `sep_nonl`           no line break in `M`: `sep M` = the characters of `M`
    `sep_line`           `M = L ++ nl :: R` (`L` the rest of the line of `a`): `sep M` = the characters
                         of `L`, the line break, `pre R` — the line of `a` is never deleted
    `pre_line`, `pre_last`   a further line is deleted with its line break iff it is pure
                         (`PlainMix.pureLine`: white space only and at least one text-less mark); the
                         last line (in front of `b`) is never deleted
    `sep_sublist`        nothing is added
    `pureLine_iff`, `not_pure_of_vis`, `not_pure_of_nomark`   a deleted line is a pure-mark line; a
                         line with a visible character, or without a text-less mark (e.g. the empty
                         line: a line break that follows another line break), is never deleted

  Classes and blank lines
    `Cls`, `clsC`, `clsM`    a character / a mark is a line break, other white space, or ink
                         (visible; a text-less mark counts as ink: it stands for a construct)
    `hasBlank`, `hasBlank_iff`   a list of classes holds a BLANK LINE: two line breaks with nothing
                         but white space between them

  The three paragraph-level facts (mark level)
    `sep_blank`  (i)+(ii)   `hasBlank (sep M) = hasBlank M`: the output between `a` and `b` holds a
                         blank line IFF the marks between them do — a line that is blank only because
                         its constructs vanished (white space and text-less marks) is NOT a blank line
                         of `M` (a mark is ink) and never becomes one; a line that is blank in `M`
                         (white space only, no mark) stays, and the line break in front of it stays
                         or is replaced by an earlier one
    `sep_space`  (iii)      `sep M` holds white space IFF `M` holds a white-space character
-/
import YalafiVerif.Proofs.PlainMixRead
namespace Yalafi
namespace PlainPara

open PlainMacro
open PlainMix (isNlMark blankMark pureLine)

/-! ### classes, blank lines -/

/-- line break / other white space / visible -/
inductive Cls where
  | nl
  | ws
  | ink
deriving DecidableEq, Repr

/-- the class of a character -/
def clsC (c : Char) : Cls := if c == nl then .nl else if isSpace c then .ws else .ink

/-- the class of a mark: a text-less mark stands for a construct — ink -/
def clsM : Mark → Cls
  | none => .ink
  | some cp => clsC cp.1

/-- the class of an output character -/
def clsP (cp : Char × Nat) : Cls := clsC cp.1

/-- `s` = "a line break has been seen, and nothing but white space since" -/
def blankGo : Bool → List Cls → Bool
  | _, [] => false
  | s, .nl :: r => s || blankGo true r
  | s, .ws :: r => blankGo s r
  | _, .ink :: r => blankGo false r

/-- the list holds a blank line: two line breaks separated by white space only -/
def hasBlank (l : List Cls) : Bool := blankGo false l

/-- the blank-line test on a string -/
def hasBlankLine (s : Str) : Bool := hasBlank (s.map clsC)

theorem blankGo_mono : ∀ (l : List Cls) (s : Bool), blankGo false l = true → blankGo s l = true
  | [], _, h => by simp [blankGo] at h
  | .nl :: r, s, h => by
    simp only [blankGo, Bool.false_or] at h
    simp [blankGo, h]
  | .ws :: r, s, h => by
    simp only [blankGo] at h ⊢
    exact blankGo_mono r s h
  | .ink :: r, s, h => by
    simpa [blankGo] using h

theorem blankGo_ws_prefix : ∀ (L : List Cls) (s : Bool) (r : List Cls), (∀ x ∈ L, x = .ws) →
    blankGo s (L ++ r) = blankGo s r
  | [], _, _, _ => rfl
  | x :: L, s, r, h => by
    have hx : x = .ws := h x (List.mem_cons_self ..)
    subst hx
    simp only [List.cons_append, blankGo]
    exact blankGo_ws_prefix L s r (fun y hy => h y (List.mem_cons_of_mem _ hy))

/-- the state-`true` scanner finds a blank line iff the list starts with white space and a line
    break, or holds a blank line -/
theorem blankGo_iff : ∀ (l : List Cls) (s : Bool), blankGo s l = true ↔
    ((s = true ∧ ∃ L B, l = L ++ .nl :: B ∧ ∀ x ∈ L, x = .ws) ∨
     ∃ A L B, l = A ++ .nl :: (L ++ .nl :: B) ∧ ∀ x ∈ L, x = .ws)
  | [], s => by
    simp [blankGo]
  | .nl :: r, s => by
    simp only [blankGo, Bool.or_eq_true]
    rw [blankGo_iff r true]
    constructor
    · rintro (h | h)
      · exact Or.inl ⟨h, [], r, rfl, by simp⟩
      · rcases h with ⟨_, L, B, e, hL⟩ | ⟨A, L, B, e, hL⟩
        · exact Or.inr ⟨[], L, B, by simp [e], hL⟩
        · exact Or.inr ⟨.nl :: A, L, B, by simp [e], hL⟩
    · rintro (⟨hs, L, B, e, hL⟩ | ⟨A, L, B, e, hL⟩)
      · exact Or.inl hs
      · right
        cases A with
        | nil =>
          simp only [List.nil_append, List.cons.injEq, true_and] at e
          exact Or.inl ⟨rfl, L, B, e, hL⟩
        | cons x A =>
          simp only [List.cons_append, List.cons.injEq] at e
          exact Or.inr ⟨A, L, B, e.2, hL⟩
  | .ws :: r, s => by
    simp only [blankGo]
    rw [blankGo_iff r s]
    constructor
    · rintro (⟨hs, L, B, e, hL⟩ | ⟨A, L, B, e, hL⟩)
      · exact Or.inl ⟨hs, .ws :: L, B, by simp [e], by
          intro x hx
          rcases List.mem_cons.mp hx with rfl | hx
          · rfl
          · exact hL x hx⟩
      · exact Or.inr ⟨.ws :: A, L, B, by simp [e], hL⟩
    · rintro (⟨hs, L, B, e, hL⟩ | ⟨A, L, B, e, hL⟩)
      · cases L with
        | nil => simp at e
        | cons x L =>
          simp only [List.cons_append, List.cons.injEq] at e
          exact Or.inl ⟨hs, L, B, e.2, fun y hy => hL y (List.mem_cons_of_mem _ hy)⟩
      · cases A with
        | nil => simp at e
        | cons x A =>
          simp only [List.cons_append, List.cons.injEq] at e
          exact Or.inr ⟨A, L, B, e.2, hL⟩
  | .ink :: r, s => by
    simp only [blankGo]
    rw [blankGo_iff r false]
    constructor
    · rintro (⟨hs, _⟩ | ⟨A, L, B, e, hL⟩)
      · simp at hs
      · exact Or.inr ⟨.ink :: A, L, B, by simp [e], hL⟩
    · rintro (⟨hs, L, B, e, hL⟩ | ⟨A, L, B, e, hL⟩)
      · cases L with
        | nil => simp at e
        | cons x L =>
          simp only [List.cons_append, List.cons.injEq] at e
          have := hL x (List.mem_cons_self ..)
          rw [← e.1] at this
          cases this
      · cases A with
        | nil => simp at e
        | cons x A =>
          simp only [List.cons_append, List.cons.injEq] at e
          exact Or.inr ⟨A, L, B, e.2, hL⟩

/-- **what `hasBlank` means**: the list contains two line breaks with white space only (no line
    break, no ink) between them -/
theorem hasBlank_iff (l : List Cls) : hasBlank l = true ↔
    ∃ A L B, l = A ++ .nl :: (L ++ .nl :: B) ∧ ∀ x ∈ L, x = .ws := by
  unfold hasBlank
  rw [blankGo_iff]
  simp

/-- a blank line behind a prefix is a blank line -/
theorem blankGo_append_right (x y : List Cls) (s : Bool) (h : blankGo false y = true) :
    blankGo s (x ++ y) = true := by
  induction x generalizing s with
  | nil => exact blankGo_mono y s h
  | cons c x ih =>
    cases c <;> simp [blankGo, ih]

/-! ### the output between two visible characters -/

/-- `delGo`, except that the last line is kept (a visible character follows it) -/
def mid : List (Char × Nat) → Bool → Bool → List Mark → List (Char × Nat)
  | cur, _, _, [] => cur
  | cur, bl, _, none :: xs => mid cur bl true xs
  | cur, bl, act, some cp :: xs =>
    if cp.1 == nl then (if bl && act then [] else cur ++ [cp]) ++ mid [] true false xs
    else mid (cur ++ [cp]) (bl && isSpace cp.1) act xs

/-- **the output characters between two visible characters** whose marks are separated by `M` -/
def sep (M : List Mark) : List (Char × Nat) := mid [] false false M

/-- the output in front of the first visible character, `X` = the marks in front of it -/
def pre (X : List Mark) : List (Char × Nat) := mid [] true false X

/-- the output behind a visible character, `Y` = the marks behind it -/
def post (Y : List Mark) : List (Char × Nat) := delGo [] false false Y

theorem nl_of_vis {c : Char} (h : isSpace c = false) : (c == nl) = false := by
  cases hc : c == nl
  · rfl
  · have : c = nl := by simpa using hc
    rw [this] at h
    exact absurd h (by decide)

theorem delGo_mid : ∀ (M : List Mark) (cur : List (Char × Nat)) (bl act : Bool) (b : Char × Nat)
    (Y : List Mark), isSpace b.1 = false →
    delGo cur bl act (M ++ some b :: Y) = mid cur bl act M ++ b :: post Y
  | [], cur, bl, act, b, Y, hb => by
    simp only [List.nil_append, delGo, nl_of_vis hb, Bool.false_eq_true, if_false, hb, Bool.and_false,
      mid, post]
    rw [delGo_nb]
    simp
  | none :: xs, cur, bl, act, b, Y, hb => by
    simp only [List.cons_append, delGo, mid]
    exact delGo_mid xs cur bl true b Y hb
  | some cp :: xs, cur, bl, act, b, Y, hb => by
    simp only [List.cons_append, delGo, mid]
    split
    · rw [delGo_mid xs [] true false b Y hb]
      simp
    · exact delGo_mid xs _ _ act b Y hb

/-- **the decomposition of the output at two visible characters** -/
theorem delLines_between (X M Y : List Mark) (a b : Char × Nat) (ha : isSpace a.1 = false)
    (hb : isSpace b.1 = false) :
    delLines (X ++ some a :: (M ++ some b :: Y)) = pre X ++ a :: (sep M ++ b :: post Y) := by
  unfold delLines
  rw [delGo_mid X [] true false a _ ha]
  unfold post
  rw [delGo_mid M [] false false b Y hb]
  rfl

/-! ### `sep` line by line -/

theorem mid_nb : ∀ (M : List Mark) (cur : List (Char × Nat)) (act : Bool),
    mid cur false act M = cur ++ mid [] false false M
  | [], cur, act => by simp [mid]
  | none :: xs, cur, act => by
    rw [mid, mid, mid_nb xs cur true, mid_nb xs [] true]; simp
  | some cp :: xs, cur, act => by
    rw [mid, mid]
    by_cases h : (cp.1 == nl) = true
    · simp [h]
    · simp only [h, Bool.false_eq_true, if_false, Bool.false_and]
      rw [mid_nb xs (cur ++ [cp]) act, mid_nb xs ([] ++ [cp]) false]
      simp

theorem mid_line : ∀ (L : List Mark) (cur : List (Char × Nat)) (b a : Bool) (X : List Mark),
    L.any isNlMark = false →
    mid cur b a (L ++ X)
      = mid (cur ++ L.filterMap id) (b && L.all blankMark) (a || L.any Option.isNone) X
  | [], cur, b, a, X, _ => by simp
  | none :: L, cur, b, a, X, h => by
    simp only [List.any_cons, isNlMark, Bool.false_or] at h
    simp only [List.cons_append, mid]
    rw [mid_line L cur b true X h]
    simp [blankMark]
  | some cp :: L, cur, b, a, X, h => by
    simp only [List.any_cons, isNlMark, Bool.or_eq_false_iff] at h
    simp only [List.cons_append, mid, h.1, Bool.false_eq_true, if_false]
    rw [mid_line L _ _ a X h.2]
    simp [blankMark, Bool.and_assoc]

/-- no line break between `a` and `b`: the characters between them are copied -/
theorem sep_nonl (M : List Mark) (h : M.any isNlMark = false) : sep M = M.filterMap id := by
  have := mid_line M [] false false [] h
  rw [List.append_nil] at this
  unfold sep
  rw [this]
  simp [mid]

/-- the rest `L` of the line of `a` and its line break are kept -/
theorem sep_line (L R : List Mark) (nlp : Char × Nat) (hL : L.any isNlMark = false)
    (hn : (nlp.1 == nl) = true) :
    sep (L ++ some nlp :: R) = L.filterMap id ++ nlp :: pre R := by
  unfold sep pre
  rw [mid_line L [] false false _ hL]
  simp [mid, hn]

/-- a further line is deleted, with its line break, iff it is pure -/
theorem pre_line (L R : List Mark) (nlp : Char × Nat) (hL : L.any isNlMark = false)
    (hn : (nlp.1 == nl) = true) :
    pre (L ++ some nlp :: R) = (if pureLine L then [] else L.filterMap id ++ [nlp]) ++ pre R := by
  unfold pre
  rw [mid_line L [] true false _ hL]
  cases h1 : L.all blankMark <;> cases h2 : L.any Option.isNone <;>
    simp [mid, hn, pureLine, h1, h2]

/-- the last line, in front of `b`, is kept -/
theorem pre_last (L : List Mark) (hL : L.any isNlMark = false) : pre L = L.filterMap id := by
  have := mid_line L [] true false [] hL
  rw [List.append_nil] at this
  unfold pre
  rw [this]
  simp [mid]

theorem mid_sublist : ∀ (ms : List Mark) (cur : List (Char × Nat)) (b a : Bool),
    List.Sublist (mid cur b a ms) (cur ++ ms.filterMap id)
  | [], cur, b, a => by simp [mid]
  | none :: xs, cur, b, a => by
    simp only [mid, List.filterMap_cons, id]
    exact mid_sublist xs cur b true
  | some cp :: xs, cur, b, a => by
    simp only [mid, List.filterMap_cons, id]
    split
    · have h1 : List.Sublist (if (b && a) = true then [] else cur ++ [cp]) (cur ++ [cp]) := by
        split
        · exact List.nil_sublist _
        · exact List.Sublist.refl _
      have h2 := mid_sublist xs [] true false
      have := List.Sublist.append h1 h2
      simpa using this
    · have := mid_sublist xs (cur ++ [cp]) (b && isSpace cp.1) a
      simpa using this

/-- nothing is added between `a` and `b` -/
theorem sep_sublist (M : List Mark) : List.Sublist (sep M) (M.filterMap id) := by
  simpa [sep] using mid_sublist M [] false false

/-! ### which lines are deleted -/

/-- a deleted line is a pure-mark line: white space only, and at least one text-less mark -/
theorem pureLine_iff (L : List Mark) : pureLine L = true ↔
    (∀ m ∈ L, m = none ∨ ∃ cp, m = some cp ∧ isSpace cp.1 = true) ∧ none ∈ L := by
  simp only [pureLine, Bool.and_eq_true, List.all_eq_true, List.any_eq_true]
  constructor
  · rintro ⟨h1, m, hm, hn⟩
    refine ⟨fun x hx => ?_, ?_⟩
    · cases x with
      | none => exact Or.inl rfl
      | some cp => exact Or.inr ⟨cp, rfl, by simpa [blankMark] using h1 _ hx⟩
    · cases m with
      | none => exact hm
      | some cp => simp at hn
  · rintro ⟨h1, h2⟩
    refine ⟨fun x hx => ?_, none, h2, rfl⟩
    rcases h1 x hx with rfl | ⟨cp, rfl, hcp⟩
    · rfl
    · simpa [blankMark] using hcp

/-- a line with a visible character is never deleted -/
theorem not_pure_of_vis (L : List Mark) (cp : Char × Nat) (h : some cp ∈ L)
    (hv : isSpace cp.1 = false) : pureLine L = false := by
  cases hp : pureLine L with
  | false => rfl
  | true =>
    rcases ((pureLine_iff L).mp hp).1 _ h with h0 | ⟨cq, hq, hs⟩
    · cases h0
    · cases hq
      rw [hv] at hs
      cases hs

/-- a line without a text-less mark is never deleted — in particular the empty line: a line
    break that directly follows another line break stays -/
theorem not_pure_of_nomark (L : List Mark) (h : none ∉ L) : pureLine L = false := by
  cases hp : pureLine L with
  | false => rfl
  | true => exact absurd ((pureLine_iff L).mp hp).2 h

theorem not_pure_nil : pureLine [] = false := rfl

/-! ### (i) + (ii): blank lines -/

theorem clsC_nl {c : Char} (h : (c == nl) = true) : clsC c = .nl := by simp [clsC, h]

theorem clsC_not_nl {c : Char} (h : ¬ (c == nl) = true) :
    clsC c = if isSpace c then .ws else .ink := by simp [clsC, h]

/-- scanning a line without line break: no blank line inside; the state survives iff the line is
    white space -/
theorem blankGo_nonl : ∀ (cur : List (Char × Nat)) (s : Bool) (r : List Cls), NoNl cur →
    blankGo s (cur.map clsP ++ r) = blankGo (s && cur.all (fun cp => isSpace cp.1)) r
  | [], s, r, _ => by simp
  | cp :: cur, s, r, h => by
    have h1 : ¬ (cp.1 == nl) = true := by simp [h cp (List.mem_cons_self ..)]
    have ih := blankGo_nonl cur
    simp only [List.map_cons, List.cons_append, clsP, clsC_not_nl h1, List.all_cons]
    by_cases hs : isSpace cp.1 = true
    · simp only [hs, if_true, blankGo, Bool.true_and]
      exact ih s r (fun x hx => h x (List.mem_cons_of_mem _ hx))
    · simp only [hs, Bool.false_eq_true, if_false, blankGo, Bool.false_and, Bool.and_false]
      rw [ih false r (fun x hx => h x (List.mem_cons_of_mem _ hx))]
      simp

theorem mid_blank : ∀ (M : List Mark) (cur : List (Char × Nat)) (bl act s : Bool), NoNl cur →
    bl = (s && cur.all (fun cp => isSpace cp.1)) →
    blankGo s ((mid cur bl act M).map clsP) = blankGo (bl && !act) (M.map clsM)
  | [], cur, bl, act, s, hc, _ => by
    have := blankGo_nonl cur s [] hc
    simp only [List.append_nil] at this
    simp [mid, this, blankGo]
  | none :: xs, cur, bl, act, s, hc, hb => by
    simp only [mid, List.map_cons, clsM, blankGo]
    rw [mid_blank xs cur bl true s hc hb]
    simp
  | some cp :: xs, cur, bl, act, s, hc, hb => by
    simp only [mid, List.map_cons, clsM]
    by_cases hn : (cp.1 == nl) = true
    · simp only [hn, if_true, clsC_nl hn, blankGo]
      have ih := mid_blank xs [] true false
      by_cases hd : (bl && act) = true
      · simp only [hd, if_true, List.nil_append]
        simp only [Bool.and_eq_true] at hd
        have hs : s = true := by
          have := hd.1
          rw [hb] at this
          simp only [Bool.and_eq_true] at this
          exact this.1
        rw [ih s (by intro x hx; simp at hx) (by simp [hs])]
        simp [hd.1, hd.2]
      · simp only [hd, Bool.false_eq_true, if_false, List.map_append, List.map_cons,  
          List.append_assoc, List.singleton_append]
        rw [blankGo_nonl cur s _ hc, ← hb]
        simp only [clsP, clsC_nl hn, blankGo]
        rw [ih true (by intro x hx; simp at hx) (by simp)]
        cases bl <;> cases act <;> simp_all
    · simp only [hn, Bool.false_eq_true, if_false, clsC_not_nl hn]
      have hn' : (cp.1 == nl) = false := by simpa using hn
      rw [mid_blank xs (cur ++ [cp]) (bl && isSpace cp.1) act s
        (by
          intro x hx
          rcases List.mem_append.mp hx with hx | hx
          · exact hc x hx
          · simp only [List.mem_singleton] at hx
            rw [hx]; exact hn')
        (by simp [hb, Bool.and_assoc])]
      by_cases hs : isSpace cp.1 = true
      · simp [hs, blankGo]
      · simp [hs, blankGo]

/-- **(i) + (ii), mark level.**  The output between `a` and `b` holds a blank line iff the marks
    between them do (a text-less mark counts as ink). -/
theorem sep_blank (M : List Mark) : hasBlank ((sep M).map clsP) = hasBlank (M.map clsM) := by
  unfold hasBlank sep
  rw [mid_blank M [] false false false (by intro x hx; simp at hx) (by simp)]
  simp

/-! ### (iii): white space -/

/-- a mark that is a white-space character -/
def spaceMark : Mark → Bool
  | none => false
  | some cp => isSpace cp.1

theorem mid_space : ∀ (M : List Mark) (cur : List (Char × Nat)) (act : Bool),
    (mid cur false act M).any (fun cp => isSpace cp.1)
      = (cur.any (fun cp => isSpace cp.1) || M.any spaceMark)
  | [], cur, act => by simp [mid]
  | none :: xs, cur, act => by
    simp only [mid, List.any_cons, spaceMark, Bool.false_or]
    exact mid_space xs cur true
  | some cp :: xs, cur, act => by
    simp only [mid, List.any_cons, spaceMark, Bool.false_and]
    by_cases hn : (cp.1 == nl) = true
    · have hsp : isSpace cp.1 = true := by
        have : cp.1 = nl := by simpa using hn
        rw [this]; decide
      simp [hn, hsp]
    · simp only [hn, Bool.false_eq_true, if_false]
      rw [mid_space xs (cur ++ [cp]) act]
      simp [Bool.or_assoc]

/-- **(iii), mark level.**  The output between `a` and `b` holds white space iff the marks between
    them hold a white-space character. -/
theorem sep_space (M : List Mark) :
    (sep M).any (fun cp => isSpace cp.1) = M.any spaceMark := by
  unfold sep
  rw [mid_space]
  simp

end PlainPara
end Yalafi
