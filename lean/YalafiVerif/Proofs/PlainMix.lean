/-
  Proofs/PlainMix.lean — token level of the UNION grammar (documents that mix seven kinds of
  constructs; header with the end-to-end statement and all side conditions:
  Proofs/PlainMixE2E.lean; documents, side conditions and scanner: Proofs/PlainMixSrc.lean).

  `Piece`, `flat`, `PiecesOk`    a token buffer that is the scan of a mixed document: plain tokens,
                                 special tokens, undeclared control words with the tokens that
                                 `skip_space` drops behind them, calls of vanishing macros,
                                 comment tokens, `\verb` tokens, simple inline formulas
  `outP`, `cost`, `names`, `nMath`   what the loop emits for it (threading the rotating collection of
                                 inline placeholders), its iterations, the unknown names, the
                                 number of formulas
  `dropComs`, `dropComs_facts`   behind a control word `skip_space` drops white space AND comment
                                 tokens; dropping the comment pieces in front changes neither the
                                 output nor the names nor the formulas
  `MathSt`                       what a formula needs from the state (only asked for if there is one)
  `seq_mix`                      ONE loop lemma by induction over the (number of) pieces; it dispatches to the
                                 step lemmas of the single-construct files (`seq_plain_step`,
                                 `seq_special_step`, `seq_cw_step`, `PlainVanish.seq_van_step`,
                                 `Comment.seq_com_step`, `seq_verb_step`, `PlainMath.seq_dollar_step`
                                 with `PlainMath.inlineMath_simple`); state: `unknowns` grows by the
                                 control words, `rots` changes, nothing else
  `PiecesOk.congr`, `PiecesOk.nobegin`   frame lemmas for `parserWork`
-/
import YalafiVerif.Proofs.PlainVanish
import YalafiVerif.Proofs.PlainSpecial
import YalafiVerif.Proofs.PlainComment
import YalafiVerif.Proofs.PlainVerb
import YalafiVerif.Proofs.PlainMath
namespace Yalafi
namespace PlainMix

open M
open PlainMacro

/-! ### the token buffers -/

/-- the tokens `skip_space(stop_lang=True, stop_action=True)` drops behind a macro name -/
def droppable (t : Tok) : Bool := isSpaceTok t && !isLangK t && !(t.kind == .action)

/-- the pieces of a token buffer -/
inductive Piece where
  /-- a plain token (text, white space, paragraph break): copied -/
  | tok (t : Tok)
  /-- a special token that reaches the `.special` branch: Action token + table value -/
  | spc (t : Tok)
  /-- the macro token of an undeclared control word and the tokens dropped behind it -/
  | cw (p : Nat) (name : Str) (skipped : List Tok)
  /-- a call `\name { key }` of a vanishing macro with replacement `repl` -/
  | van (p q1 q2 : Nat) (name : Str) (key repl : List Tok)
  /-- a comment token: dropped -/
  | com (t : Tok)
  /-- the token of a complete `\verb`: Action token + text token with the content -/
  | verb (t : Tok)
  /-- a simple inline formula: `$`, body tokens, `$` -/
  | math (d1 : Tok) (body : List Tok) (d2 : Tok)

def Piece.toks : Piece → List Tok
  | .tok t => [t]
  | .spc t => [t]
  | .cw p name sk => cwTok p name :: sk
  | .van p q1 q2 name key _ => cwTok p name :: lbr q1 :: (key ++ [rbr q2])
  | .com t => [t]
  | .verb t => [t]
  | .math d1 b d2 => d1 :: (b ++ [d2])

/-- the token buffer -/
def flat : List Piece → List Tok
  | [] => []
  | p :: ps => p.toks ++ flat ps

/-- the pieces without the comments in front: `skip_space` behind a control word also drops
    comment tokens -/
def dropComs : List Piece → List Piece
  | .com _ :: rest => dropComs rest
  | ps => ps

def PiecesOk (T : PTables) (st : PState) : List Piece → Prop
  | [] => True
  | .tok t :: rest => PlainTok t ∧ PassTok T st t (flat rest) ∧ PiecesOk T st rest
  | .spc t :: rest => SpecialTok T.toTables t ∧ PiecesOk T st rest
  | .cw p name sk :: rest =>
    CwTokOk st (cwTok p name) ∧ (∀ t ∈ sk, droppable t = true ∧ t.kind ≠ .comment) ∧
    (∀ t ts, flat (dropComs rest) = t :: ts → droppable t = false) ∧ PiecesOk T st rest
  | .van _ _ _ name key repl :: rest =>
    PlainVanish.VanName st name ∧ PlainVanish.replOf st name = repl ∧
    (∀ t ∈ key, NoBrace t ∧ t.kind ≠ .comment) ∧ PiecesOk T st rest
  | .com t :: rest => Comment.ComTok T st t ∧ PiecesOk T st rest
  | .verb t :: rest => t.kind = .verb false ∧ PiecesOk T st rest
  | .math d1 b d2 :: rest =>
    PlainMath.DollarTok d1 ∧ PlainMath.mathToks b ≠ [] ∧ (∀ t ∈ b, PlainMath.BodyItem T t) ∧
    PlainMath.DollarTok d2 ∧ PiecesOk T st rest

/-- what `expandSequence` emits for the pieces before the blank-line removal, `l` being the stored
    collection of inline placeholders: the formulas take the heads of `rotL l`, `rotL (rotL l)`, … -/
def outP (T : PTables) : List Str → List Piece → List Tok
  | _, [] => []
  | l, .tok t :: rest => t :: outP T l rest
  | l, .spc t :: rest => expTok T.toTables t ++ outP T l rest
  | l, .cw p _ _ :: rest => mkAction p :: outP T l rest
  | l, .van p _ _ _ _ repl :: rest => mkAction p :: (repl.map (restamp p) ++ outP T l rest)
  | l, .com _ :: rest => outP T l rest
  | l, .verb t :: rest => expTokV t ++ outP T l rest
  | l, .math d1 b _ :: rest =>
    PlainMath.formulaOut T ((rotL l).headD []) d1.pos (PlainMath.firstPos (PlainMath.mathToks b))
        (PlainMath.bodyTxt (PlainMath.mathToks b))
      ++ outP T (rotL l) rest

/-- iterations of `expandSequence` -/
def cost : List Piece → Nat
  | [] => 0
  | .tok _ :: rest => 1 + cost rest
  | .spc _ :: rest => 1 + cost rest
  | .cw _ _ _ :: rest => 2 + cost rest
  | .van _ _ _ _ _ repl :: rest => 2 + repl.length + cost rest
  | .com _ :: rest => 1 + cost rest
  | .verb _ :: rest => 1 + cost rest
  | .math _ b _ :: rest => b.length + 2 + cost rest

/-- the number of formulas -/
def nMath : List Piece → Nat
  | [] => 0
  | .math .. :: rest => nMath rest + 1
  | _ :: rest => nMath rest

/-- the names of the undeclared control words, with backslash, in order of occurrence -/
def names : List Piece → List Str
  | [] => []
  | .cw _ name _ :: rest => ('\\' :: name) :: names rest
  | _ :: rest => names rest

theorem dropWhile_prefix {α} (p : α → Bool) : ∀ (a b : List α), (∀ x ∈ a, p x = true) →
    (∀ y ys, b = y :: ys → p y = false) → (a ++ b).dropWhile p = b
  | [], [], _, _ => rfl
  | [], y :: ys, _, hb => by simp [hb y ys rfl]
  | x :: a, b, ha, hb => by
    simp only [List.cons_append, List.dropWhile_cons, ha x (List.mem_cons_self ..), if_true]
    exact dropWhile_prefix p a b (fun z hz => ha z (List.mem_cons_of_mem _ hz)) hb

theorem skip_droppable (X : List Tok) : ∀ sk : List Tok, (∀ t ∈ sk, droppable t = true) →
    skipSpaceStopLangAct (sk ++ X) = skipSpaceStopLangAct X
  | [], _ => rfl
  | x :: xs, h => by
    have hx : droppable x = true := h x (List.mem_cons_self ..)
    have ih := skip_droppable X xs (fun y hy => h y (List.mem_cons_of_mem _ hy))
    unfold droppable at hx
    unfold skipSpaceStopLangAct at ih ⊢
    rw [List.cons_append, List.dropWhile_cons, if_pos hx]
    exact ih

theorem dropComs_length : ∀ ps : List Piece, (dropComs ps).length ≤ ps.length
  | [] => Nat.le_refl _
  | .com _ :: rest => by
    have := dropComs_length rest
    simp only [dropComs, List.length_cons]; omega
  | .tok _ :: _ => Nat.le_refl _
  | .spc _ :: _ => Nat.le_refl _
  | .cw .. :: _ => Nat.le_refl _
  | .van .. :: _ => Nat.le_refl _
  | .verb _ :: _ => Nat.le_refl _
  | .math .. :: _ => Nat.le_refl _

theorem dropComs_facts (T : PTables) (st : PState) : ∀ ps : List Piece, PiecesOk T st ps →
    PiecesOk T st (dropComs ps) ∧ (∀ l, outP T l (dropComs ps) = outP T l ps) ∧
    names (dropComs ps) = names ps ∧ nMath (dropComs ps) = nMath ps ∧
    cost (dropComs ps) ≤ cost ps ∧
    skipSpaceStopLangAct (flat ps) = skipSpaceStopLangAct (flat (dropComs ps))
  | [], h => ⟨h, fun _ => rfl, rfl, rfl, Nat.le_refl _, rfl⟩
  | .com t :: rest, h => by
    obtain ⟨h1, h2, h3, h4, h5, h6⟩ := dropComs_facts T st rest h.2
    refine ⟨h1, fun l => by simp only [dropComs, outP, h2], by simp only [dropComs, names, h3],
      by simp only [dropComs, nMath, h4], by simp only [dropComs, cost]; omega, ?_⟩
    have hd : (isSpaceTok t && !isLangK t && !(t.kind == .action)) = true := by
      simp [isSpaceTok, isLangK, h.1.kind]
    simp only [dropComs, flat, Piece.toks, List.singleton_append]
    unfold skipSpaceStopLangAct at h6 ⊢
    rw [List.dropWhile_cons, if_pos hd]
    exact h6
  | .tok _ :: _, h => ⟨h, fun _ => rfl, rfl, rfl, Nat.le_refl _, rfl⟩
  | .spc _ :: _, h => ⟨h, fun _ => rfl, rfl, rfl, Nat.le_refl _, rfl⟩
  | .cw .. :: _, h => ⟨h, fun _ => rfl, rfl, rfl, Nat.le_refl _, rfl⟩
  | .van .. :: _, h => ⟨h, fun _ => rfl, rfl, rfl, Nat.le_refl _, rfl⟩
  | .verb _ :: _, h => ⟨h, fun _ => rfl, rfl, rfl, Nat.le_refl _, rfl⟩
  | .math .. :: _, h => ⟨h, fun _ => rfl, rfl, rfl, Nat.le_refl _, rfl⟩

/-- the conditions depend on the state only through the language stack, the macro table and the
    marker of the skip pre-pass -/
theorem PiecesOk.congr {T : PTables} {st st' : PState} (hl : st'.langStack = st.langStack)
    (hm : st'.macros = st.macros) (hs : st'.skipBegin = st.skipBegin) :
    ∀ {ps : List Piece}, PiecesOk T st ps → PiecesOk T st' ps
  | [], _ => trivial
  | .tok t :: rest, h => ⟨h.1, PassTok_congr hl h.2.1, PiecesOk.congr hl hm hs h.2.2⟩
  | .spc t :: rest, h => ⟨h.1, PiecesOk.congr hl hm hs h.2⟩
  | .cw p name sk :: rest, h => by
    refine ⟨?_, h.2.1, h.2.2.1, PiecesOk.congr hl hm hs h.2.2.2⟩
    exact ⟨h.1.kind, h.1.nDef, by have := h.1.undecl; simpa [lookupMacro, hm] using this⟩
  | .van p q1 q2 name key repl :: rest, h => by
    refine ⟨?_, ?_, h.2.2.1, PiecesOk.congr hl hm hs h.2.2.2⟩
    · obtain ⟨h1, m, h2, h3⟩ := h.1
      exact ⟨h1, m, by simpa [lookupMacro, hm] using h2, h3⟩
    · rw [PlainVanish.replOf_congr hm]; exact h.2.1
  | .com t :: rest, h => by
    refine ⟨?_, PiecesOk.congr hl hm hs h.2⟩
    exact ⟨h.1.kind, h.1.head, by rw [hs]; exact h.1.nskip,
      by rw [activeChars_congr T st st' hl]; exact h.1.nact⟩
  | .verb t :: rest, h => ⟨h.1, PiecesOk.congr hl hm hs h.2⟩
  | .math d1 b d2 :: rest, h => ⟨h.1, h.2.1, h.2.2.1, h.2.2.2.1, PiecesOk.congr hl hm hs h.2.2.2.2⟩

/-- what the formulas need from the state: the inline collection `rot.inl` of the current language
    is stored and not empty, the language settings exist -/
def MathSt (T : PTables) (st : PState) (rot : Rot) (ls : LangSettings) : Prop :=
  rotOf st (curSettings st) = some rot ∧ rot.inl ≠ [] ∧ settingsOf T (curSettings st) = some ls

/-- **the loop on the scan of a mixed document.**  The output is the blank-line removal applied to
    `outP`; the names of the undeclared control words are recorded in order (each once); the
    rotation records change (only if there is a formula: then `MathSt` is needed); nothing else
    in the state changes. -/
theorem seq_mix (T : PTables) (envStop : Option Str) (ls : LangSettings) :
    ∀ (n : Nat) (ps : List Piece), ps.length ≤ n →
      ∀ (fuel : Nat) (out : List Tok) (st : PState) (rot : Rot),
      cost ps + 1 ≤ fuel → PiecesOk T st ps → noEmptyActive T st = true →
      (nMath ps ≠ 0 → MathSt T st rot ls) →
      ∃ st', expandSequence T fuel (flat ps) envStop out st
          = (match removeLines (out ++ outP T rot.inl ps) with
             | some r => .ok ((r, []), st')
             | none => .outOfFuel) ∧
        st' = { st with unknowns := (names ps).foldl addU st.unknowns, rots := st'.rots } := by
  have hnil : ∀ (fuel : Nat) (out : List Tok) (st : PState) (rot : Rot), 0 + 1 ≤ fuel →
      ∃ st', expandSequence T fuel (flat []) envStop out st
          = (match removeLines (out ++ outP T rot.inl []) with
             | some r => .ok ((r, []), st')
             | none => .outOfFuel) ∧
        st' = { st with unknowns := (names []).foldl addU st.unknowns, rots := st'.rots } := by
    intro fuel out st rot hf
    obtain ⟨f, rfl⟩ : ∃ f, fuel = f + 1 := ⟨fuel - 1, by omega⟩
    refine ⟨st, ?_, rfl⟩
    simp only [flat, outP, List.append_nil]
    rw [expandSequence.eq_2]
    cases removeLines out <;> rfl
  intro n
  induction n with
  | zero =>
    intro ps hn fuel out st rot hf _ _ _
    cases ps with
    | nil => exact hnil fuel out st rot hf
    | cons => simp at hn
  | succ n ih0 =>
    intro ps hlenN fuel out st rot hf hok ha hm
    cases ps with
    | nil => exact hnil fuel out st rot hf
    | cons pc ps =>
    have hlen : ps.length ≤ n := by simpa using hlenN
    have ih := ih0 ps hlen
    cases pc with
    | tok t =>
      simp only [cost] at hf
      obtain ⟨f, rfl⟩ : ∃ f, fuel = f + 1 := ⟨fuel - 1, by omega⟩
      simp only [flat, Piece.toks, List.singleton_append]
      rw [seq_plain_step T f t (flat ps) envStop out st hok.1 hok.2.1]
      obtain ⟨st', h1, h2⟩ := ih f (out ++ [t]) st rot (by omega) hok.2.2 ha hm
      refine ⟨st', ?_, h2⟩
      rw [h1]
      simp only [outP, List.append_assoc, List.singleton_append]
    | spc t =>
      simp only [cost] at hf
      obtain ⟨f, rfl⟩ : ∃ f, fuel = f + 1 := ⟨fuel - 1, by omega⟩
      simp only [flat, Piece.toks, List.singleton_append]
      rw [seq_special_step T f t (flat ps) envStop out st hok.1]
      obtain ⟨st', h1, h2⟩ := ih f (out ++ expTok T.toTables t) st rot (by omega) hok.2 ha hm
      refine ⟨st', ?_, h2⟩
      rw [h1]
      simp only [outP, List.append_assoc]
    | cw p name sk =>
      obtain ⟨hcw, hsk, hhead, hrest⟩ := hok
      simp only [cost] at hf
      obtain ⟨f, rfl⟩ : ∃ f, fuel = f + 2 := ⟨fuel - 2, by omega⟩
      have hflat : flat (Piece.cw p name sk :: ps) = cwTok p name :: (sk ++ flat ps) := by
        simp [flat, Piece.toks]
      obtain ⟨d1, d2, d3, d4, d5, d6⟩ := dropComs_facts T st ps hrest
      have hskip : skipSpaceStopLangAct (sk ++ flat ps) = flat (dropComs ps) := by
        rw [skip_droppable (flat ps) sk (fun x hx => (hsk x hx).1), d6]
        unfold skipSpaceStopLangAct
        have := dropWhile_prefix (fun t => isSpaceTok t && !isLangK t && !(t.kind == .action)) []
          (flat (dropComs ps)) (by simp) hhead
        simpa using this
      rw [hflat, seq_cw_step T f (cwTok p name) _ envStop out st hcw ha, hskip]
      obtain ⟨st', h1, h2⟩ := ih0 (dropComs ps) (Nat.le_trans (dropComs_length ps) hlen) f
          (out ++ [mkAction (cwTok p name).pos])
          { st with unknowns := addU st.unknowns (cwTok p name).txt } rot (by omega)
          (PiecesOk.congr (st := st) (st' := { st with unknowns := addU st.unknowns (cwTok p name).txt })
            rfl rfl rfl d1)
          ((noEmptyActive_congr T st _ rfl).trans ha) (by rw [d4]; exact hm)
      refine ⟨st', ?_, by rw [d3] at h2; exact h2.trans rfl⟩
      rw [h1, d2]
      simp only [outP, List.append_assoc, List.singleton_append]
      rfl
    | van p q1 q2 name key repl =>
      obtain ⟨hn, hr, hkey, hrest⟩ := hok
      subst hr
      simp only [cost] at hf
      obtain ⟨f, hf'⟩ : ∃ f, fuel = f + 1 + (2 + (PlainVanish.replOf st name).length) :=
        ⟨fuel - 1 - (2 + (PlainVanish.replOf st name).length), by omega⟩
      have hflat : flat (Piece.van p q1 q2 name key (PlainVanish.replOf st name) :: ps)
          = cwTok p name :: lbr q1 :: (key ++ rbr q2 :: flat ps) := by
        simp [flat, Piece.toks]
      rw [hflat, hf', PlainVanish.seq_van_step T f p q1 q2 name key (flat ps) envStop out st hn
          (fun t ht => (hkey t ht).1) ha]
      obtain ⟨st', h1, h2⟩ := ih (f + 1)
        (out ++ mkAction p :: (PlainVanish.replOf st name).map (restamp p)) st rot (by omega) hrest ha hm
      refine ⟨st', ?_, h2⟩
      rw [h1]
      simp only [outP, List.append_assoc, List.cons_append]
    | com t =>
      simp only [cost] at hf
      obtain ⟨f, rfl⟩ : ∃ f, fuel = f + 1 := ⟨fuel - 1, by omega⟩
      simp only [flat, Piece.toks, List.singleton_append]
      rw [Comment.seq_com_step T f t (flat ps) envStop out st hok.1]
      obtain ⟨st', h1, h2⟩ := ih f out st rot (by omega) hok.2 ha hm
      refine ⟨st', ?_, h2⟩
      rw [h1]
      simp only [outP]
    | verb t =>
      simp only [cost] at hf
      obtain ⟨f, rfl⟩ : ∃ f, fuel = f + 1 := ⟨fuel - 1, by omega⟩
      simp only [flat, Piece.toks, List.singleton_append]
      rw [seq_verb_step T f t (flat ps) envStop out st hok.1]
      obtain ⟨st', h1, h2⟩ := ih f (out ++ expTokV t) st rot (by omega) hok.2 ha hm
      refine ⟨st', ?_, h2⟩
      rw [h1]
      simp only [outP, List.append_assoc]
    | math d1 b d2 =>
      obtain ⟨hd1, hbne, hb, hd2, hrest⟩ := hok
      obtain ⟨hrot, hne, hls⟩ := hm (by simp [nMath])
      have hflat : flat (Piece.math d1 b d2 :: ps) = d1 :: (b ++ d2 :: flat ps) := by
        simp [flat, Piece.toks]
      rw [hflat]
      simp only [cost] at hf
      obtain ⟨f, rfl⟩ : ∃ f, fuel = f + 2 := ⟨fuel - 2, by omega⟩
      have hr := PlainMath.headD_of_ne_nil _ (rotL_ne_nil _ hne)
      have him := PlainMath.inlineMath_simple T st f d1 d2 b (flat ps) rot ls _ hd2 hbne hb (by omega)
        hrot hls hr
      rw [PlainMath.seq_dollar_step T (f + 1) d1 _ envStop out st hd1]
      rw [M.bind_ok _ (fun r => expandSequence T (f + 1) r.2 envStop (out ++ r.1)) _ _ _ him]
      simp only []
      have hrot2 := PlainMath.rotOf_setRot st (curSettings st) rot (rotL rot.inl) hrot
      obtain ⟨st', h1, h2⟩ := ih (f + 1)
        (out ++ PlainMath.formulaOut T ((rotL rot.inl).headD []) d1.pos
          (PlainMath.firstPos (PlainMath.mathToks b)) (PlainMath.bodyTxt (PlainMath.mathToks b)))
        (setRot st { rot with inl := rotL rot.inl }) { rot with inl := rotL rot.inl }
        (by omega)
        (PiecesOk.congr (st := st) (st' := setRot st { rot with inl := rotL rot.inl }) rfl rfl rfl hrest)
        ((noEmptyActive_congr T st _ rfl).trans ha)
        (fun _ => ⟨hrot2, rotL_ne_nil _ hne, hls⟩)
      refine ⟨st', ?_, h2.trans rfl⟩
      rw [h1]
      simp only [outP, List.append_assoc]

/-- the skip pre-pass of `parser_work` sees no begin marker -/
theorem PiecesOk.nobegin {T : PTables} {st : PState} : ∀ {ps : List Piece}, PiecesOk T st ps →
    ∀ t ∈ flat ps, (t.kind == .comment && startsWith t.txt st.skipBegin) = false
  | [], _, _, h => by simp [flat] at h
  | .tok t :: rest, hok, x, hx => by
    simp only [flat, Piece.toks, List.singleton_append, List.mem_cons] at hx
    rcases hx with rfl | hx
    · have := hok.1.notComment
      simp [this]
    · exact PiecesOk.nobegin hok.2.2 x hx
  | .spc t :: rest, hok, x, hx => by
    simp only [flat, Piece.toks, List.singleton_append, List.mem_cons] at hx
    rcases hx with rfl | hx
    · simp [hok.1.1]
    · exact PiecesOk.nobegin hok.2 x hx
  | .cw p name sk :: rest, hok, x, hx => by
    simp only [flat, Piece.toks, List.cons_append, List.mem_cons, List.mem_append] at hx
    rcases hx with rfl | hx | hx
    · simp [cwTok]
    · have := (hok.2.1 x hx).2
      simp [this]
    · exact PiecesOk.nobegin hok.2.2.2 x hx
  | .van p q1 q2 name key repl :: rest, hok, x, hx => by
    obtain ⟨_, _, hkey, hrest⟩ := hok
    simp only [flat, Piece.toks, List.cons_append, List.append_assoc, List.mem_cons,
      List.mem_append, List.nil_append] at hx
    rcases hx with rfl | rfl | hx | rfl | hx
    · simp [cwTok]
    · simp [lbr]
    · have := (hkey x hx).2
      simp [this]
    · simp [rbr]
    · exact PiecesOk.nobegin hrest x hx
  | .com t :: rest, hok, x, hx => by
    simp only [flat, Piece.toks, List.singleton_append, List.mem_cons] at hx
    rcases hx with rfl | hx
    · simp [hok.1.nskip]
    · exact PiecesOk.nobegin hok.2 x hx
  | .verb t :: rest, hok, x, hx => by
    simp only [flat, Piece.toks, List.singleton_append, List.mem_cons] at hx
    rcases hx with rfl | hx
    · simp [hok.1]
    · exact PiecesOk.nobegin hok.2 x hx
  | .math d1 b d2 :: rest, hok, x, hx => by
    obtain ⟨h1, _, hb, h2, hrest⟩ := hok
    simp only [flat, Piece.toks, List.cons_append, List.append_assoc, List.mem_cons,
      List.mem_append, List.nil_append] at hx
    rcases hx with rfl | hx | rfl | hx
    · rcases h1.kind with h | h <;> simp [h]
    · rcases hb x hx with h | h
      · simp [h.kind]
      · simp [h]
    · rcases h2.kind with h | h <;> simp [h]
    · exact PiecesOk.nobegin hrest x hx

end PlainMix
end Yalafi
