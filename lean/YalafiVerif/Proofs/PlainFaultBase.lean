/-
  Proofs/PlainFaultBase.lean — common tools for the end-to-end theorems of C08 at the fault kinds
  of Proofs/PlainFault*.lean (documents `pre ++ F ++ post`: inert text, ONE faulty construct, inert
  text).

  `markToks_plain`, `seq_mark`      the tokens of `latex_error` pass `expandSequence` unchanged
  `lineC_ok`, `Vis`, `removeLines_vis`, `removeLines_noact`
                                    the blank-line removal deletes nothing in `A ++ M ++ B`
  `scan_frame`                      the scanner loop on `pre ++ (F ++ post)`
  `seq_frame`                       `expandSequence` on `A ++ (X ++ B)`
  `parserWork_frame`, `tex2txt_of_work`   the lifts to `parserWork` and `tex2txt`
  `letToks`, `wordOk`, `scanRun_word`   a word of visible inert characters (`verbatim`, a file name)
  `fault_frame`                     the assembly: text, positions, diagnostics of the result record
  `markPos1`, `markPos_map`, `markPos1_head`, `markPos1_length`   the 1-based positions of the mark

  The frame works for any construct `F` for which one supplies (a) the scanner steps on `F` in front of
  `post` (`PlainAccent.ScanRun`), (b) what the loop makes of its tokens in front of the copied tokens
  of `post` (`hX`), (c) that the emitted tokens leave no "pure action line" (`removeLines_vis` via `Vis`,
  or `removeLines_noact`).  `pre` / `post`: `PlainFootnote.textOk` — every character is no "active
  character" of the language settings and is white space or none of `% # \ $ { }` with no special
  sequence of the tables matching there; what follows a text (`F`, or the end) does not start with
  white space (`F` starts with `\` or `%`).
-/
import YalafiVerif.Proofs.PlainFootnote
import YalafiVerif.Proofs.PlainMathOpenTok
import YalafiVerif.Proofs.PlainAccent
import YalafiVerif.Proofs.PlainVerb
namespace Yalafi
namespace PlainFault

open M
open PlainFootnote (TextRun CopyTok lineC LinesOf)
open PlainMathOpen (markPos)

/-! ### the tokens of the error mark in `expandSequence` -/

theorem errMark_head (T : Tables) (err : Str) : ∃ v, errMark T err = ' ' :: v := by
  unfold errMark
  exact ⟨_, rfl⟩

theorem errMark_last (T : Tables) (err : Str) : ∃ u, errMark T err = u ++ [' '] := by
  unfold errMark
  cases T.markVerbose
  · exact ⟨[' '] ++ T.mark, by simp⟩
  · exact ⟨[' '] ++ T.mark ++ [' '] ++ (['('] ++ err ++ [')']), by simp⟩

theorem drop_snoc {α} (u : List α) (x : α) (k : Nat) (h : k < (u ++ [x]).length) :
    ∃ w, (u ++ [x]).drop k = w ++ [x] := by
  have hk : k ≤ u.length := by simp at h; omega
  exact ⟨u.drop k, by rw [List.drop_append_of_le_length hk]⟩

/-- the tokens `latex_error` returns are plain text tokens that are never "active characters"
    (provided the blank is none): `expandSequence` copies them -/
theorem markToks_plain (T : PTables) (st : PState) (err : Str) (p n : Nat) (hp : p < n)
    (hb : (activeChars T st).contains [' '] = false) :
    ∀ t ∈ latexErrorToks T.toTables err p n,
      PlainTok t ∧ (activeChars T st).contains t.txt = false ∧ t.txt ≠ [] := by
  obtain ⟨v, hv⟩ := errMark_head T.toTables err
  obtain ⟨u, hu⟩ := errMark_last T.toTables err
  have hl := errMark_length_pos T.toTables err
  obtain ⟨j, hj⟩ : ∃ j, min (errMark T.toTables err).length (n - p) = j + 1 :=
    ⟨min (errMark T.toTables err).length (n - p) - 1, by omega⟩
  have first : ∀ (q : Nat) (t : Tok), t = { kind := .text, pos := q, txt := (errMark T.toTables err).take (j + 1), fix := true } →
      PlainTok t ∧ (activeChars T st).contains t.txt = false ∧ t.txt ≠ [] := by
    intro q t ht
    have htxt : t.txt = ' ' :: v.take j := by rw [ht, hv]; rfl
    refine ⟨plainTok_of_head t ' ' _ htxt (Or.inl (by rw [ht])) (by decide), ?_, by rw [htxt]; simp⟩
    rw [htxt]; exact not_active_cons T st ' ' _ hb
  intro t ht
  unfold latexErrorToks at ht
  simp only [hj] at ht
  split at ht
  · rename_i hlt
    simp only [List.mem_cons, List.not_mem_nil, or_false] at ht
    rcases ht with rfl | rfl
    · exact first p _ rfl
    · obtain ⟨w, hw⟩ := drop_snoc u ' ' (j + 1) (by rw [← hu]; exact hlt)
      rw [← hu] at hw
      refine ⟨plainTok_of_last _ w hw rfl, ?_, by simp [hw]⟩
      simp only [hw]
      cases w with
      | nil => exact hb
      | cons a w' =>
        cases hc : (activeChars T st).contains (a :: w' ++ [' ']) with
        | false => rfl
        | true =>
          have := activeChars_length T st _ (List.contains_iff_mem.mp hc)
          simp at this
  · simp only [List.mem_cons, List.not_mem_nil, or_false] at ht
    exact first p _ ht

theorem markToks_length (T : Tables) (err : Str) (p n : Nat) : (latexErrorToks T err p n).length ≤ 2 := by
  unfold latexErrorToks
  simp only []
  split <;> simp

/-- the mark tokens are copied by the loop -/
theorem seq_mark (T : PTables) (st : PState) (err : Str) (p n : Nat) (hp : p < n)
    (hb : (activeChars T st).contains [' '] = false) (envStop : Option Str) (rest : Buf)
    (fuel : Nat) (out : List Tok) :
    expandSequence T (fuel + (latexErrorToks T.toTables err p n).length)
        (latexErrorToks T.toTables err p n ++ rest) envStop out st
      = expandSequence T fuel rest envStop (out ++ latexErrorToks T.toTables err p n) st :=
  PlainMacro.seq_plain_run T envStop st rest _ fuel out
    (fun t ht => ⟨(markToks_plain T st err p n hp hb t ht).1, (markToks_plain T st err p n hp hb t ht).2.1⟩)

/-- fuel for the mark tokens, with slack -/
theorem seq_mark' (T : PTables) (st : PState) (err : Str) (p n : Nat) (hp : p < n)
    (hb : (activeChars T st).contains [' '] = false) (envStop : Option Str) (rest : Buf)
    (fuel : Nat) (out : List Tok) :
    ∃ g, fuel ≤ g ∧ expandSequence T (fuel + 2) (latexErrorToks T.toTables err p n ++ rest) envStop out st
      = expandSequence T g rest envStop (out ++ latexErrorToks T.toTables err p n) st := by
  have hl := markToks_length T.toTables err p n
  refine ⟨fuel + 2 - (latexErrorToks T.toTables err p n).length, by omega, ?_⟩
  have := seq_mark T st err p n hp hb envStop rest
    (fuel + 2 - (latexErrorToks T.toTables err p n).length) out
  rw [← this]
  congr 1
  omega

/-! ### the blank-line removal -/

/-- without an Action token in the line the automaton never fails -/
theorem lineC_ok : ∀ (s : Str) (σ : Option Bool), σ ≠ some true →
    ∃ σ', lineC σ s = some σ' ∧ σ' ≠ some true
  | [], σ, h => ⟨σ, rfl, h⟩
  | c :: cs, σ, h => by
    cases hn : c == nl with
    | true =>
      have hσ : (σ == some true) = false := by
        cases σ with
        | none => rfl
        | some a => cases a <;> simp at h ⊢
      simp only [lineC, hn, if_true, hσ, Bool.false_eq_true, if_false]
      exact lineC_ok cs (some false) (by simp)
    | false =>
      cases hs : isSpace c with
      | true =>
        simp only [lineC, hn, hs, Bool.false_eq_true, if_false, if_true]
        exact lineC_ok cs σ h
      | false =>
        simp only [lineC, hn, hs, Bool.false_eq_true, if_false]
        exact lineC_ok cs none (by simp)

/-- a token list behind which the line automaton has seen visible text in the current line -/
def Vis (M : List Tok) : Prop :=
  ∀ σ tail, tail ≠ [] → lineRun σ ((M.filter keepIn).map evalTok ++ tail) = lineRun none tail

/-- a token list that keeps the line automaton behind visible text -/
def KeepsVis (N : List Tok) : Prop :=
  ∀ tail, tail ≠ [] → lineRun none ((N.filter keepIn).map evalTok ++ tail) = lineRun none tail

theorem Vis.append {M N : List Tok} (hM : Vis M) (hN : KeepsVis N) : Vis (M ++ N) := by
  intro σ tail ht
  rw [List.filter_append, List.map_append, List.append_assoc, hM σ _ (by simp [ht]), hN tail ht]

theorem Vis.action (p : Nat) {M : List Tok} (hM : Vis M) : Vis (mkAction p :: M) := by
  intro σ tail ht
  have hk : keepIn (mkAction p) = true := rfl
  simp only [List.filter_cons, hk, if_true, List.map_cons, List.cons_append]
  rw [lineRun_action (mkAction p) rfl σ _ (by simp [ht])]
  exact hM _ tail ht

theorem KeepsVis.nil : KeepsVis [] := by
  intro tail _; rfl

theorem KeepsVis.action (p : Nat) {N : List Tok} (hN : KeepsVis N) : KeepsVis (mkAction p :: N) := by
  intro tail ht
  have hk : keepIn (mkAction p) = true := rfl
  simp only [List.filter_cons, hk, if_true, List.map_cons, List.cons_append]
  rw [lineRun_action (mkAction p) rfl none _ (by simp [ht])]
  exact hN tail ht

theorem KeepsVis.text (t : Tok) (hk : t.kind = .text) (hn : hasNl t.txt = false) {N : List Tok}
    (hN : KeepsVis N) : KeepsVis (t :: N) := by
  intro tail ht
  by_cases hki : keepIn t = true
  · simp only [List.filter_cons, hki, if_true, List.map_cons, List.cons_append]
    rw [lineRun_txt t hk hn none _ (by simp [ht])]
    simp only [ite_self]
    exact hN tail ht
  · have hki' : keepIn t = false := by simpa using hki
    simp only [List.filter_cons, hki', Bool.false_eq_true, if_false]
    exact hN tail ht

theorem KeepsVis.append {M N : List Tok} (hM : KeepsVis M) (hN : KeepsVis N) : KeepsVis (M ++ N) := by
  intro tail ht
  rw [List.filter_append, List.map_append, List.append_assoc, hM _ (by simp [ht]), hN tail ht]

/-- the mark is a visible one-line text -/
def markFine (T : Tables) (err : Str) : Bool := !hasNl (errMark T err) && !isBlank (errMark T err)

theorem Vis.mark (T : Tables) (err : Str) (p n : Nat) (hm : markFine T err = true) :
    Vis (latexErrorToks T err p n) := by
  simp only [markFine, Bool.and_eq_true, Bool.not_eq_true'] at hm
  intro σ tail ht
  exact PlainMathOpen.lineRun_mark T err p n hm.1 hm.2 σ tail ht

theorem filter_keepIn_id (l : List Tok) (h : ∀ t ∈ l, t.txt ≠ []) : l.filter keepIn = l := by
  rw [List.filter_eq_self]
  intro t ht
  have := h t ht
  cases hx : t.txt with
  | nil => exact absurd hx this
  | cons => simp [keepIn, hx]

/-- text, something that makes its line visible, text: nothing but empty tokens is deleted -/
theorem removeLines_vis (A M B : List Tok) (a b : Str) (hA : LinesOf A a) (hB : LinesOf B b)
    (hAne : ∀ t ∈ A, t.txt ≠ []) (hBne : ∀ t ∈ B, t.txt ≠ []) (hM : Vis M) :
    removeLines (A ++ (M ++ B)) = some ((A ++ (M ++ B)).filter keepOut) := by
  apply removeLines_safe_id
  apply lineRun_linesInit
  intro p
  rw [List.filter_append, List.filter_append, filter_keepIn_id A hAne, filter_keepIn_id B hBne,
    List.map_append, List.map_append, List.append_assoc, List.append_assoc]
  rw [hA (some false) _ (by simp)]
  obtain ⟨σ1, h1, _⟩ := lineC_ok a (some false) (by simp)
  rw [h1]
  simp only []
  rw [hM σ1 _ (by simp), hB none _ (by simp)]
  obtain ⟨σ2, h2, h3⟩ := lineC_ok b none (by simp)
  rw [h2]
  simp only []
  rw [lineRun_lastItem]
  cases σ2 with
  | none => rfl
  | some x => cases x <;> simp at h3 ⊢

/-- without Action tokens nothing but empty tokens is deleted -/
theorem removeLines_noact (A M B : List Tok) (hA : ∀ t ∈ A, isAction t = false)
    (hM : ∀ t ∈ M, isAction t = false) (hB : ∀ t ∈ B, isAction t = false) :
    removeLines (A ++ (M ++ B)) = some ((A ++ (M ++ B)).filter keepOut) := by
  apply removeLines_noaction_id
  intro t ht
  simp only [List.mem_append] at ht
  rcases ht with h | h | h
  · exact hA t h
  · exact hM t h
  · exact hB t h

theorem _root_.Yalafi.PlainFootnote.CopyTok.notAction {T : PTables} {st : PState} {t : Tok} (h : CopyTok T st t) :
    isAction t = false := h.plain.notAction

theorem _root_.Yalafi.PlainFootnote.CopyTok.ne {T : PTables} {st : PState} {t : Tok} (h : CopyTok T st t) : t.txt ≠ [] := h.shape.1

/-! ### the scanner loop on `pre ++ (F ++ post)` -/

theorem scanSteps_empty (T : Tables) (src : Str) (fuel pos : Nat) :
    scanSteps T src fuel pos [] = ([], true) := by
  cases fuel <;> rfl

/-- the scanner loop on inert text, a construct with the scanner steps `stepsF`, inert text -/
theorem scan_frame (T : PTables) (st : PState) (pre F post : Str) (stepsF : List ScanStep)
    (hpre : PlainFootnote.textOk T st pre (F ++ post) = true)
    (hhead : (F ++ post).head?.all (fun d => !isSpace d) = true)
    (hF : PlainAccent.ScanRun T.toTables (pre ++ (F ++ post)) stepsF pre.length F post)
    (hlenF : stepsF.length ≤ F.length)
    (hpost : PlainFootnote.textOk T st post [] = true) :
    ∃ s1 s2, TextRun T st 0 pre s1 ∧ TextRun T st (pre.length + F.length) post s2 ∧
      scanSteps T.toTables (pre ++ (F ++ post)) (pre ++ (F ++ post)).length 0 (pre ++ (F ++ post))
        = (s1 ++ (stepsF ++ s2), true) := by
  generalize hsrc : pre ++ (F ++ post) = src at hF
  have hlen : src.length = pre.length + (F.length + post.length) := by
    rw [← hsrc]; simp
  obtain ⟨s1, R1, h1⟩ := PlainFootnote.scanSteps_textrun T st src (F ++ post) hhead pre.length pre 0
    src.length (Nat.le_refl _) (by omega) hpre
  have hl1 := R1.len
  obtain ⟨g, hg⟩ : ∃ g, src.length - s1.length = g + stepsF.length :=
    ⟨src.length - s1.length - stepsF.length, by omega⟩
  have h2 := hF g
  obtain ⟨s2, R2, h3⟩ := PlainFootnote.scanSteps_textrun T st src [] (by simp) post.length post
    (pre.length + F.length) g (Nat.le_refl _) (by omega) hpost
  rw [List.append_nil, scanSteps_empty] at h3
  refine ⟨s1, s2, R1, R2, ?_⟩
  rw [hsrc] at h1
  rw [h1, hg, Nat.zero_add, h2, h3]
  simp

/-- tokens and diagnostics of `scan` for a list of steps -/
theorem stepToks_text (s : List ScanStep) (h : ∀ x ∈ s, x.diag = none ∧ x.extra = []) :
    stepToks s = s.map (·.tok) ∧ stepDiags s = [] :=
  ⟨flatten_tok_extra s (fun x hx => (h x hx).2), flatten_diag_nil s (fun x hx => (h x hx).1)⟩

theorem scan_of_steps (T : Tables) (src : Str) (s1 sF s2 : List ScanStep)
    (h : scanSteps T src src.length 0 src = (s1 ++ (sF ++ s2), true))
    (h1 : ∀ x ∈ s1, x.diag = none ∧ x.extra = []) (h2 : ∀ x ∈ s2, x.diag = none ∧ x.extra = []) :
    (scan T src).toks = s1.map (·.tok) ++ (stepToks sF ++ s2.map (·.tok)) ∧
    (scan T src).diags = stepDiags sF := by
  have a1 := stepToks_text s1 h1
  have a2 := stepToks_text s2 h2
  unfold stepToks stepDiags at a1 a2
  simp only [scan, h, List.map_append, List.flatten_append, a1.1, a1.2, a2.1, a2.2, stepToks, stepDiags,
    List.nil_append, List.append_nil, and_self]

/-! ### `expandSequence` on `A ++ (X ++ B)` -/

/-- copied tokens, a construct `X` (whose expansion in front of `B` is given), copied tokens -/
theorem seq_frame (T : PTables) (st stX : PState) (A X B outX r : List Tok) (kX : Nat) (fuel : Nat)
    (hA : ∀ t ∈ A, CopyTok T st t) (hB : ∀ t ∈ B, CopyTok T stX t)
    (hX : ∀ g out, ∃ g', g ≤ g' ∧ expandSequence T (g + kX) (X ++ B) none out st
        = expandSequence T g' B none (out ++ outX) stX)
    (hrl : removeLines (A ++ (outX ++ B)) = some r)
    (hf : A.length + (kX + (B.length + 1)) ≤ fuel) :
    expandSequence T fuel (A ++ (X ++ B)) none [] st = .ok ((r, []), stX) := by
  obtain ⟨g, rfl⟩ : ∃ g, fuel = (g + kX) + A.length := ⟨fuel - kX - A.length, by omega⟩
  rw [PlainFootnote.seq_copy_prefix T st none (X ++ B) A _ [] hA]
  obtain ⟨g', hg', h⟩ := hX g ([] ++ A)
  rw [h]
  obtain ⟨h', rfl⟩ : ∃ h', g' = (h' + 1) + B.length := ⟨g' - B.length - 1, by omega⟩
  have := PlainFootnote.seq_copy_prefix T stX none [] B (h' + 1) ([] ++ A ++ outX) hB
  rw [List.append_nil] at this
  rw [this, expandSequence.eq_2]
  simp only [List.nil_append, List.append_assoc, hrl]
  rfl

/-! ### `parserWork` and `tex2txt` -/

/-- `parserWork` on a source without comment tokens: scanner diagnostics, the loop, restoring of
    the bookkeeping fields -/
theorem parserWork_frame (T : PTables) (st st' : PState) (src : Str) (fuel : Nat) (toks out : List Tok)
    (ds : List Diag)
    (hscan : (scan T.toTables src).toks = toks) (hd : (scan T.toTables src).diags = ds)
    (hnc : ∀ t ∈ toks, t.kind ≠ .comment)
    (hseq : expandSequence T fuel toks none []
        { st with latex := src, nest := st.nest + 1, diags := st.diags ++ ds } = .ok ((out, []), st')) :
    parserWork T (fuel + 1) src st
      = .ok (out, { st' with latex := st.latex, nest := st'.nest - 1 }) := by
  rw [parserWork.eq_2]
  refine (M.bind_ok _ _ _ _ _ (rfl : M.get st = _)).trans ?_
  refine (M.bind_ok _ _ _ _ _ (rfl : M.modify _ _ = _)).trans ?_
  refine (M.bind_ok _ _ _ _ _ (rfl : M.modify _ _ = _)).trans ?_
  refine (M.bind_ok _ _ _ _ _ (rfl : M.get _ = _)).trans ?_
  simp only [hd, hscan]
  rw [skipPass_nocomment _ _ _ hnc]
  simp only []
  refine (M.bind_ok _ _ _ _ _ (rfl : (pure _ : M (List Tok)) _ = _)).trans ?_
  refine (M.bind_ok _ _ _ _ _ hseq).trans ?_
  refine (M.bind_ok _ _ _ _ _ (rfl : M.modify _ _ = _)).trans ?_
  rfl

/-- the state in which `parse` calls `parserWork` for the root document -/
def rootState (st1 : PState) : PState :=
  { st1 with extracted := [], unknowns := [], foreign := false, nest := 0 }

/-- what `parse` appends for the extracted flows -/
def flowsToks (ex : List (List Tok)) : List Tok := (ex.map PlainFootnote.flowToks).flatten

/-- from `parserWork` on the root document to the result record of `tex2txt` (no `--defs`, `--extr`,
    `--repl`, `--unkn`; single-language mode) -/
theorem tex2txt_of_work (T : PTables) (o : Options) (fs : FS) (thresh : Nat) (src : Str) (fuel : Nat)
    (st1 st2 : PState) (body : List Tok)
    (hdefs : o.defs = []) (hextr : o.extr = []) (hrepl : o.hasRepl = false) (hunkn : o.unkn = false)
    (hinit : initParser T fuel o (initialState T o false fs) = .ok ((), st1))
    (hw : parserWork T fuel src (rootState st1) = .ok (body, st2)) :
    tex2txt T fuel src o false thresh fs
      = .ok { toks := body ++ flowsToks st2.extracted,
              txt := (getTxtPos (body ++ flowsToks st2.extracted)).1,
              pos := (getTxtPos (body ++ flowsToks st2.extracted)).2.map (· + 1),
              parts := [], unknowns := st2.unknowns, diags := st2.diags, foreign := st2.foreign } := by
  have hp : parse T fuel src [] [] st1 = .ok (body ++ flowsToks st2.extracted, st2) := by
    unfold parse
    simp only [List.isEmpty_nil, Bool.not_true, Bool.false_eq_true, if_false, if_true]
    refine (M.bind_ok _ _ _ _ _ (rfl : M.modify _ _ = _)).trans ?_
    refine (M.bind_ok _ _ _ _ _ (rfl : (pure _ : M (List Tok)) _ = _)).trans ?_
    refine (M.bind_ok _ _ _ _ _ (rfl : M.modify _ _ = _)).trans ?_
    refine (M.bind_ok _ _ _ _ _ hw).trans ?_
    refine (M.bind_ok _ _ _ _ _ (rfl : M.get _ = _)).trans ?_
    rfl
  have hrun : (initParser T fuel o >>= fun _ => parse T fuel src o.defs
        (if o.extr.isEmpty then [] else (splitOn ',' o.extr []).map (fun s => '\\' :: s)))
        (initialState T o false fs)
      = .ok (body ++ flowsToks st2.extracted, st2) := by
    refine (M.bind_ok _ _ _ _ _ hinit).trans ?_
    rw [hdefs, hextr]
    exact hp
  unfold tex2txt
  simp only []
  rw [hrun]
  simp only [hrepl, hunkn, Bool.not_false, if_true, Bool.false_eq_true, if_false]

/-! ### positions -/

theorem range'_succ_map (a n : Nat) : (List.range' a n).map (· + 1) = List.range' (a + 1) n := by
  induction n generalizing a with
  | zero => rfl
  | succ n ih => simp [List.range'_succ, ih]

/-- the positions of the mark, 1-based -/
def markPos1 (T : Tables) (err : Str) (n p : Nat) : List Nat :=
  List.replicate (min (errMark T err).length (n - p)) (p + 1)
    ++ List.replicate ((errMark T err).length - min (errMark T err).length (n - p))
        (p + min (errMark T err).length (n - p))

theorem markPos_map (T : Tables) (err : Str) (n p : Nat) (hp : p < n) :
    (markPos T err n p).map (· + 1) = markPos1 T err n p := by
  have h2 := errMark_length_pos T err
  have hmx : 1 ≤ min (errMark T err).length (n - p) := by omega
  unfold markPos markPos1
  generalize min (errMark T err).length (n - p) = mx at hmx
  simp only [List.map_append, List.map_replicate]
  congr 2
  omega

theorem markPos1_head (T : Tables) (err : Str) (n p : Nat) (hp : p < n) :
    (markPos1 T err n p).head? = some (p + 1) := by
  have h2 := errMark_length_pos T err
  obtain ⟨m, hm⟩ : ∃ m, min (errMark T err).length (n - p) = m + 1 :=
    ⟨min (errMark T err).length (n - p) - 1, by omega⟩
  unfold markPos1
  rw [hm]
  simp [List.replicate_succ]

theorem markPos1_length (T : Tables) (err : Str) (n p : Nat) :
    (markPos1 T err n p).length = (errMark T err).length := by
  unfold markPos1
  have : min (errMark T err).length (n - p) ≤ (errMark T err).length := Nat.min_le_left _ _
  simp only [List.length_append, List.length_replicate]
  omega

/-! ### tokens without text -/

theorem getTxtPos_void_run : ∀ (vs : List Tok), (∀ t ∈ vs, t.txt = []) → ∀ rest,
    getTxtPos (vs ++ rest) = getTxtPos rest
  | [], _, _ => rfl
  | v :: vs, h, rest => by
    have hv := h v (List.mem_cons_self ..)
    simp only [List.cons_append, getTxtPos, tokPositions, hv, List.length_nil, List.replicate_zero,
      List.range_zero, List.map_nil, ite_self, List.nil_append,
      getTxtPos_void_run vs (fun x hx => h x (List.mem_cons_of_mem _ hx)) rest]

theorem Vis.void_run : ∀ (vs : List Tok), (∀ t ∈ vs, keepIn t = false) → ∀ {M : List Tok}, Vis M →
    Vis (vs ++ M)
  | [], _, _, hM => hM
  | v :: vs, h, M, hM => by
    intro σ tail ht
    have hv := h v (List.mem_cons_self ..)
    simp only [List.cons_append, List.filter_cons, hv, Bool.false_eq_true, if_false]
    exact Vis.void_run vs (fun x hx => h x (List.mem_cons_of_mem _ hx)) hM σ tail ht

/-! ### a word of visible inert characters -/

/-- the text tokens of a word that starts at `p`: one per character -/
def letToks : Nat → Str → List Tok
  | _, [] => []
  | p, c :: cs => PlainAccent.letTok p c :: letToks (p + 1) cs

def wordSteps (p : Nat) (w : Str) : List ScanStep := (letToks p w).map (fun t => { tok := t, len := 1 })

/-- the word `w`, followed by `R`: inert characters, none of them white space -/
def wordOk (T : PTables) (st : PState) (w R : Str) : Bool :=
  PlainFootnote.textOk T st w R && w.all (fun c => !isSpace c)

theorem wordOk_cons {T : PTables} {st : PState} {c : Char} {cs R : Str}
    (h : wordOk T st (c :: cs) R = true) :
    PlainFootnote.ChrFacts T st c (cs ++ R) ∧ isSpace c = false ∧ wordOk T st cs R = true := by
  simp only [wordOk, PlainFootnote.textOk, List.all_cons, Bool.and_eq_true, Bool.not_eq_true'] at h
  exact ⟨PlainFootnote.chrFacts h.1.1, h.2.1, by simp [wordOk, h.1.2, h.2.2]⟩

theorem scanRun_word (T : PTables) (st : PState) (src : Str) (R : Str) : ∀ (w : Str) (pos : Nat),
    wordOk T st w R = true → PlainAccent.ScanRun T.toTables src (wordSteps pos w) pos w R
  | [], pos, _ => PlainAccent.ScanRun.nil _ _ _ _
  | c :: cs, pos, h => by
    obtain ⟨F, hsp, hrest⟩ := wordOk_cons h
    obtain ⟨hst, hms⟩ : structuralChar c = false ∧ matchSpecial T.toTables (c :: (cs ++ R)) = none := by
      rcases F.snd with h' | h'
      · rw [hsp] at h'; cases h'
      · exact h'
    have r1 : PlainAccent.ScanRun T.toTables src [{ tok := PlainAccent.letTok pos c, len := 1 }] pos [c] (cs ++ R) :=
      PlainAccent.ScanRun.one _ _ _ c [] _ _ (PlainAccent.nextToken_char T src pos c _ ⟨hsp, hst, hms⟩) rfl
    have r2 := scanRun_word T st src R cs (pos + 1) hrest
    exact PlainAccent.ScanRun.append r1 r2

theorem letToks_copy (T : PTables) (st : PState) (R : Str) : ∀ (w : Str) (pos : Nat),
    wordOk T st w R = true → ∀ t ∈ letToks pos w, CopyTok T st t
  | [], _, _, t, ht => by simp [letToks] at ht
  | c :: cs, pos, h, t, ht => by
    obtain ⟨F, hsp, hrest⟩ := wordOk_cons h
    simp only [letToks, List.mem_cons] at ht
    rcases ht with rfl | ht
    · have hst : structuralChar c = false := by
        rcases F.snd with h' | h'
        · rw [hsp] at h'; cases h'
        · exact h'.1
      exact ⟨PlainAccent.plainTok_letTok pos c hst, F.nact, by simp [PlainAccent.letTok],
        Or.inl ⟨rfl, PlainMath.hasNl_single c hsp⟩⟩
    · exact letToks_copy T st R cs (pos + 1) hrest t ht

theorem letToks_txtpos : ∀ (w : Str) (p : Nat), getTxtPos (letToks p w) = (w, List.range' p w.length)
  | [], _ => rfl
  | c :: cs, p => by
    simp [letToks, getTxtPos, tokPositions, PlainAccent.letTok, letToks_txtpos cs (p + 1), List.range'_succ]

theorem letToks_length : ∀ (w : Str) (p : Nat), (letToks p w).length = w.length
  | [], _ => rfl
  | c :: cs, p => by simp [letToks, letToks_length cs (p + 1)]

theorem stepToks_wordSteps (p : Nat) (w : Str) :
    stepToks (wordSteps p w) = letToks p w ∧ stepDiags (wordSteps p w) = [] := by
  obtain ⟨h1, h2⟩ := stepToks_text (wordSteps p w) (by
    intro x hx
    simp only [wordSteps, List.mem_map] at hx
    obtain ⟨t, _, rfl⟩ := hx
    exact ⟨rfl, rfl⟩)
  refine ⟨?_, h2⟩
  rw [h1]
  simp [wordSteps, Function.comp_def]

theorem KeepsVis.letToks : ∀ (w : Str) (p : Nat), (∀ c ∈ w, isSpace c = false) → ∀ {N : List Tok},
    KeepsVis N → KeepsVis (letToks p w ++ N)
  | [], _, _, _, hN => hN
  | c :: cs, p, h, N, hN => by
    simp only [PlainFault.letToks, List.cons_append]
    exact KeepsVis.text _ rfl (PlainMath.hasNl_single c (h c (List.mem_cons_self ..)))
      (KeepsVis.letToks cs (p + 1) (fun x hx => h x (List.mem_cons_of_mem _ hx)) hN)

theorem stepToks_append (a b : List ScanStep) : stepToks (a ++ b) = stepToks a ++ stepToks b := by
  simp [stepToks]

theorem stepDiags_append (a b : List ScanStep) : stepDiags (a ++ b) = stepDiags a ++ stepDiags b := by
  simp [stepDiags]

/-! ### the assembly -/

/-- the state in which the expander loop of `parserWork` starts on the root document `src` with the
    scanner diagnostics `ds` -/
def workState (st1 : PState) (src : Str) (ds : List Diag) : PState :=
  { rootState st1 with latex := src, nest := (rootState st1).nest + 1,
                       diags := (rootState st1).diags ++ ds }

/-- **the frame of the fault theorems.**  `src = pre ++ (F ++ post)`: `pre` and `post` inert text,
    the scanner runs over `F` in the steps `stepsF`; the expander loop turns the tokens of `F`, in
    front of the (copied) tokens `B` of `post`, into `outX` and the state `stX`; the blank-line
    removal deletes nothing.  Then the plain text is `pre`, the text of `outX`, `post`, and the
    extracted flows; `pre` and `post` keep their own positions. -/
theorem fault_frame (T : PTables) (o : Options) (fs : FS) (thresh : Nat) (pre F post : Str)
    (fuel : Nat) (st1 stX : PState) (stepsF : List ScanStep) (outX : List Tok) (kX : Nat)
    (hdefs : o.defs = []) (hextr : o.extr = []) (hrepl : o.hasRepl = false) (hunkn : o.unkn = false)
    (hinit : initParser T fuel o (initialState T o false fs) = .ok ((), st1))
    (hpre : PlainFootnote.textOk T st1 pre (F ++ post) = true)
    (hhead : (F ++ post).head?.all (fun d => !isSpace d) = true)
    (hF : PlainAccent.ScanRun T.toTables (pre ++ (F ++ post)) stepsF pre.length F post)
    (hlenF : stepsF.length ≤ F.length)
    (hpost : PlainFootnote.textOk T st1 post [] = true)
    (hnc : ∀ t ∈ stepToks stepsF, t.kind ≠ .comment)
    (hlang : stX.langStack = st1.langStack)
    (hX : ∀ (B : List Tok), (∀ t ∈ B, CopyTok T st1 t) → ∀ g out, ∃ g', g ≤ g' ∧
      expandSequence T (g + kX) (stepToks stepsF ++ B) none out
          (workState st1 (pre ++ (F ++ post)) (stepDiags stepsF))
        = expandSequence T g' B none (out ++ outX) stX)
    (hrl : ∀ A B a b, LinesOf A a → LinesOf B b → (∀ t ∈ A, CopyTok T st1 t) →
      (∀ t ∈ B, CopyTok T st1 t) →
      removeLines (A ++ (outX ++ B)) = some ((A ++ (outX ++ B)).filter keepOut))
    (hf : (pre ++ (F ++ post)).length + kX + 2 ≤ fuel) :
    ∃ r, tex2txt T fuel (pre ++ (F ++ post)) o false thresh fs = .ok r ∧
      r.txt = pre ++ ((getTxtPos outX).1 ++ (post ++ (getTxtPos (flowsToks stX.extracted)).1)) ∧
      r.pos = List.range' 1 pre.length ++ ((getTxtPos outX).2.map (· + 1)
        ++ (List.range' (pre.length + F.length + 1) post.length
        ++ (getTxtPos (flowsToks stX.extracted)).2.map (· + 1))) ∧
      r.unknowns = stX.unknowns ∧ r.diags = stX.diags := by
  obtain ⟨s1, s2, R1, R2, hsc⟩ := scan_frame T st1 pre F post stepsF hpre hhead hF hlenF hpost
  obtain ⟨htoks, hdiags⟩ := scan_of_steps T.toTables _ s1 stepsF s2 hsc
    (fun x hx => ⟨(R1.ok x hx).1, (R1.ok x hx).2.1⟩) (fun x hx => ⟨(R2.ok x hx).1, (R2.ok x hx).2.1⟩)
  have hA : ∀ t ∈ s1.map (·.tok), CopyTok T st1 t := by
    intro t ht
    obtain ⟨x, hx, rfl⟩ := List.mem_map.mp ht
    exact (R1.ok x hx).2.2
  have hB : ∀ t ∈ s2.map (·.tok), CopyTok T st1 t := by
    intro t ht
    obtain ⟨x, hx, rfl⟩ := List.mem_map.mp ht
    exact (R2.ok x hx).2.2
  obtain ⟨f, rfl⟩ : ∃ f, fuel = f + 1 := ⟨fuel - 1, by omega⟩
  have hl1 := R1.len
  have hl2 := R2.len
  have hlen : (pre ++ (F ++ post)).length = pre.length + (F.length + post.length) := by simp
  have hseq := seq_frame T (workState st1 (pre ++ (F ++ post)) (stepDiags stepsF)) stX
    (s1.map (·.tok)) (stepToks stepsF) (s2.map (·.tok)) outX _ kX f
    (fun t ht => CopyTok.congr (st := st1)
      (st' := workState st1 (pre ++ (F ++ post)) (stepDiags stepsF)) rfl (hA t ht))
    (fun t ht => CopyTok.congr (st := st1) (st' := stX) hlang (hB t ht))
    (hX _ hB)
    (hrl _ _ pre post R1.lines R2.lines hA hB)
    (by simp only [List.length_map]; omega)
  have hw := parserWork_frame T (rootState st1) stX (pre ++ (F ++ post)) f _ _ _ htoks hdiags
    (by
      intro t ht
      simp only [List.mem_append] at ht
      rcases ht with h | h | h
      · exact (hA t h).plain.notComment
      · exact hnc t h
      · exact (hB t h).plain.notComment)
    hseq
  have h := tex2txt_of_work T o fs thresh _ (f + 1) st1 _ _ hdefs hextr hrepl hunkn hinit hw
  refine ⟨_, h, ?_, ?_, rfl, rfl⟩
  · simp only [getTxtPos_append, getTxtPos_filter_keepOut, R1.txt, R2.txt, List.append_assoc]
  · simp only [getTxtPos_append, getTxtPos_filter_keepOut, R1.txt, R2.txt, List.map_append,
      range'_succ_map, List.append_assoc, Nat.zero_add]

end PlainFault
end Yalafi
