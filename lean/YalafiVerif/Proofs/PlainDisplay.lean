/-
  Proofs/PlainDisplay.lean — C11 "displayed equations follow the documented scheme and keep their
  punctuation", end to end on the model, for documents that consist of inert text (as in
  Proofs/Plain.lean / Proofs/PlainUnknown.lean) and *simple* displayed equations

      \[ body \]        or        \begin{name} body \end{name}

  where `name` is declared as an equation environment (real tables: `equation`, `displaymath`,
  `eqnarray`, `eqnarray*`) and `body` is a simple formula in the sense of Proofs/PlainMath.lean:
  characters that the maths parser turns into maths tokens one by one (letters, digits, `+ - = < > ( )
  / * , . ; :` …) and white space without paragraph break; no `&`, no `\\`, no macro (so no `\text`):
  one row, one section, one maths part.

  What the model (and `mathparser.py`) does with such an equation — found by `#eval`, then proved:
    * NO line break and no paragraph token is generated (the equation environments of the tables
      have `add_pars = False`); the line structure around the equation is that of the source;
    * the output is:  two blanks (the indentation `'  '` of `expand_display_math`), the placeholder,
      the closing punctuation mark; nothing else — in particular no character of the body but the
      closing punctuation mark;
    * placeholder: the display collection of the language (`math_repl_display`) is rotated ONCE per
      equation, BEFORE the placeholder is taken: the k-th equation of the document (k = 1, 2, …) gets
      entry `k mod length` (`placeholder repls k`; real tables, 'en': V-V-V, W-W-W, X-X-X, Y-Y-Y, Z-Z-Z,
      U-U-U, V-V-V, …); `next_repl` / `first_section` are reset for every equation, the rotated
      collection is kept in the parser state (`rots[..].disp`); `\[…\]` and `\begin{…}…\end{…}` share it;
    * closing punctuation: the last character of the body that is no white space, if it is one of
      `math_punctuation` (`. , ; :`): `punctOf T body`;
    * positions (0-based; `p` = offset of the `\` of `\[` / `\begin`, the body starts at `p + o`,
      `o = 2` resp. `name.length + 8`):
        - the two blanks map to `p` (position-fixed);
        - every character of the placeholder maps to the first *element* character of the body — the
          first character that is no white space, no operator (`math_operators`: `+ - / = < > :` …)
          and no punctuation mark: `p + o + elemOff T ops body`;
        - the punctuation mark maps to the first character of the body that is no white space:
          `p + o + leadBlanks body`.
      So for `\[= a.\]` the placeholder maps to `a` and the full stop to `=`: the position list
      `1 1 5 5 5 5 5 3` is NOT monotone (recorded in the report as a candidate defect).
    * the Action tokens around the equation have no effect on the text; the line of the equation
      always holds visible text (the placeholder), so `remove_pure_action_lines` deletes nothing.

  Token level
    `dispStops`, `DTok`, `DItem`, `mathSection_run`, `mathSection_close`, `mathSection_body_d`,
    `mathSection_end`            the section parser on the body (closing `\]` resp. `\end{name}`)
    `replaceStep_display_part`, `replaceSection_display_single`   `replace_section` in display mode on
                                 one part: placeholder at the first element, punctuation at the
                                 first token, collection rotated once
    `displayLoop_simple`, `expandDisplayMath_simple`, `dispOut`   what `expand_display_math` returns
    `equEnvOk`, `beginEnvironment_equ`, `endEnvironment_equ`, `seq_beg_equ`, `seq_mathBegin_step`,
    `seq_open_step`              the loop at `\begin{name}` / `\[`
    `Piece`, `PiecesOk`, `outD`, `cost`, `seq_disp`   `expandSequence` on plain tokens and equations
    `lineRun_dispOut`, `removeLines_outD`   the blank-line removal only drops the Action tokens
  Source level
    `Seg`, `render`, `okAtD`, `textOkD`, `dispOk`, `envOk`, `segsOk`, `SegsOk`   documents, conditions
    `OkSrc`, `scanSteps_bodyrun`, `scanSteps_disp`, `scan_disp`   the scanner
    `parserWork_disp`, `parse_disp`, `tex2txt_disp_src`           the lifts
    `eqnOut`, `refOut`           the reference output (characters with positions)
    `tex2txt_display`            the end-to-end statement
    `refOut_txt`/`outText`, `eqnOut_span`, `eqnOut_span_lt`, `eqnOut_txt`, `punctOf_snoc`,
    `refOut_single`              what the reference says (corollaries)

  Side conditions of `tex2txt_display` (all computable; reasons)
    options / initialisation   as in `tex2txt_plain_text`: no --defs, --extr, --repl, --unkn,
                               single-language mode, `st1` = state after `Parser.__init__`
    `st1.displayedSimple = false`   not `--seqs` (simple mode renders differently; not covered)
    text segments `textOkD`    `textOk` of PlainUnknown (inert in the full right context), except that
                               the token behind an active character may be `\[`
    `dispOk` (`\[ body \]`)    * `defEnvOk`: `math_default_env` is declared as an equation environment
                                 that is not removed (Python: fatal error / other branch otherwise);
                               * `openAt`: `\[` is scanned as the special token `\[` (as a macro token
                                 it would be expanded as a macro);  `closeAt`: `\]` is scanned as a token
                                 with the text `\]` (special, macro or accent token);
                               * `bodyOk` (PlainMath): every character is admissible in its right
                                 context — no white space, none of `% # \ $ { }`, not in `math_ignore`
                                 / `math_space`, no special sequence matches there — or it is white
                                 space in a run with at most one line break (two make a paragraph
                                 token: "missing end of maths");
                               * no `&` (ends a section; in the real tables already excluded as a
                                 special sequence);
                               * `body.any elemChar`: the body holds an element character — without one
                                 NO placeholder is written and the collection is NOT rotated
                                 (`a\[.\]b` ↦ `"a  .b"`, `a\[+\]b` and `a\[ \]b` ↦ `"a  b"`; alone on
                                 a line the latter two vanish with their line).
    `envOk` (`\begin{name}…`)  * `noEmptyActive`: the empty string is no active character (the Action
                                 tokens `begin_environment` pushes back go through the loop);
                               * `\begin` / `\end` are scanned as such (no special sequence at the
                                 backslash, not `\begin{verbatim}`), the braces as braces, the name is a
                                 non-empty string of `inertChar`s;
                               * `equEnvAt`: the name is declared with `equEnvOk` — equation
                                 environment, not removed, no `add_pars`, no arguments, no
                                 replacement / extraction text, no item labels, no handlers (all four
                                 equation environments of the real tables);
                               * the body as for `\[ … \]`.
    `rotOf st1 (curSettings st1) = some rot`, `rot.disp = repls`, `repls ≠ []`
                               the display collection of the current language (Python: `IndexError`
                               on an empty collection)
    `VisibleRepls repls`       no placeholder is blank or contains a line break (else the line of an
                               equation could be deleted by `remove_pure_action_lines`)
    `(settingsOf T (curSettings st1)).isSome`   the language settings exist
    fuel                       `(render segs).length + 2 ≤ fuel` (`\[a\]`, 5 characters: 6 suffice, 5 do not)

  NOT covered: `$$ … $$`; `&`, `\\` (several sections / rows, operator words of `math_op_text`);
  `\text`, macros and braces in the body; maths space (`~`, `\,` …); environments with arguments or
  `remove` / `add_pars`; `--seqs`; equations inside macro arguments; multi-language mode.
-/
import YalafiVerif.Proofs.PlainMath
import YalafiVerif.Proofs.PlainItem
namespace Yalafi
namespace PlainDisplay

open M
open PlainMath (BodyTok BodyItem mathTokOf isMathTok_mathTokOf mathTokOf_notSpace finFilter_math
  mathToks mathToks_cons_space mathToks_cons_body mathToks_body mathSection_space_step firstPos bodyTxt
  punctChar getTextDirect_mathToks bodyTxt_nonspace partPunct_mathToks rotOf_code curSettings_setRot
  TokShape rotN nMath headD_of_ne_nil VisibleRepls mem_rotL punctChar_mem hasNl_single
  bodyOk mathAt mathAtFacts MathAtFacts bodyTokAt nextToken_body bodyTok_bodyTokAt bodyOk_drop
  takeWhile_dropWhile_nil takeWhile_append_stop' filter_nonspace_of_space punctOf leadBlanks
  placeholder rotN_succ rotN_headD)
open PlainMacro (lbr rbr braceAt nextToken_brace scanSteps_step)
open PlainItem (begTok endTok NameToks getEnvironmentName_braced expandArguments_noargs nBegin nEnd
  nextToken_begin nextToken_end nameToks_of_bodyRun)

/-! ### the rotation record of the current language -/

theorem rotOf_setRot_disp (st : PState) (code : Str) (rot : Rot) (l : List Str)
    (h : rotOf st code = some rot) :
    rotOf (setRot st { rot with disp := l }) code = some { rot with disp := l } := by
  have hc := rotOf_code st code rot h
  unfold rotOf setRot at *
  simp only []
  generalize st.rots = rs at h
  induction rs with
  | nil => simp at h
  | cons x xs ih =>
    rw [List.find?_cons] at h
    rw [List.map_cons, List.find?_cons]
    by_cases hx : (x.code == code) = true
    · simp only [hx] at h
      have hxr : x = rot := by simpa using h
      subst hxr
      simp [hc]
    · have hx' : (x.code == code) = false := by simpa using hx
      simp only [hx'] at h
      have hne : (x.code == rot.code) = false := by rw [hc]; exact hx'
      simp only [hne, Bool.false_eq_true, if_false, hx']
      exact ih h

/-! ### the maths section of a simple displayed equation -/

/-- the tokens that end a section of a displayed equation -/
def dispStops : List Str := ["&".toList, "\\\\".toList, "$$".toList, "\\]".toList]

/-- the scanner token of an admissible body character of a displayed equation: as for inline
    formulas, and not `&` (which ends a section) -/
structure DTok (T : PTables) (t : Tok) : Prop where
  body : BodyTok T t
  namp : t.txt ≠ ['&']

/-- a body token or a white-space token -/
def DItem (T : PTables) (t : Tok) : Prop := DTok T t ∨ t.kind = .space

theorem DItem.bodyItem {T : PTables} {t : Tok} (h : DItem T t) : BodyItem T t := by
  rcases h with h | h
  · exact Or.inl h.body
  · exact Or.inr h

theorem mathSection_step_d (T : PTables) (fuel : Nat) (t : Tok) (rest : Buf) (start : Nat)
    (envStop : Option Str) (out : List Tok) (st : PState) (h : DTok T t) :
    expandMathSection T (fuel + 1) (t :: rest) start dispStops envStop out st
      = expandMathSection T fuel rest start dispStops envStop (out ++ [mathTokOf st t]) st := by
  obtain ⟨⟨hk, ⟨c, hc, hd, _⟩, hi, hs⟩, hamp⟩ := h
  have hsk : skipSpace (t :: rest) = t :: rest := by
    simp [skipSpace, isSpaceTok, hk]
  have hstop : dispStops.contains t.txt = false := by
    rw [hc] at hamp ⊢
    have : c ≠ '&' := fun e => hamp (by rw [e])
    simp [dispStops, this]
  have hv : isVerb t = false := by simp [isVerb, hk]
  rw [expandMathSection.eq_2, hsk]
  simp only [hk, hv, hstop, hi, hs, reduceCtorEq, beq_iff_eq, Bool.false_eq_true, if_false]
  show M.bind' M.get _ st = _
  simp only [M.bind', M.get]
  have hm : isMathTok t = false := by simp [isMathTok, hk]
  have hl : isLang t = false := by simp [isLang, hk]
  have hsp : mathSpecialTxt T t = some t.txt := by simp [mathSpecialTxt, hk]
  simp only [hm, hl, hsp, Bool.false_eq_true, if_false, mathTokOf]
  split <;> rfl

/-- the section parser runs through the body: one unit of fuel and one maths token per body token
    that is no white space -/
theorem mathSection_run (T : PTables) (st : PState) (start : Nat) (envStop : Option Str) (tail : Buf) :
    ∀ (body : List Tok) (fuel : Nat) (out : List Tok), (∀ t ∈ body, DItem T t) →
      expandMathSection T (fuel + (mathToks body).length) (body ++ tail) start dispStops envStop out st
        = expandMathSection T fuel tail start dispStops envStop
            (out ++ (mathToks body).map (mathTokOf st)) st := by
  intro body
  induction body with
  | nil => intro fuel out _; simp [mathToks]
  | cons t ts ih =>
    intro fuel out hb
    rcases hb t (by simp) with hbt | hsp
    · rw [mathToks_cons_body T t ts hbt.body, List.length_cons, ← Nat.add_assoc, List.cons_append,
        mathSection_step_d T _ t _ start envStop out st hbt,
        ih fuel _ (fun x hx => hb x (by simp [hx]))]
      simp
    · rw [mathToks_cons_space t ts hsp, List.cons_append,
        mathSection_space_step T _ t _ start _ envStop out hsp,
        ih fuel out (fun x hx => hb x (by simp [hx]))]

/-- the closing token `\]` as the scanner makes it -/
structure CloseTok (t : Tok) : Prop where
  kind : t.kind = .special ∨ t.kind = .xmacro ∨ t.kind = .accent
  txt : t.txt = ['\\', ']']

theorem mathSection_close (T : PTables) (st : PState) (fuel : Nat) (start : Nat) (envStop : Option Str)
    (d2 : Tok) (rest : Buf) (out : List Tok) (hd : CloseTok d2) (ho : ∀ t ∈ out, isMathTok t = true) :
    expandMathSection T (fuel + 1) (d2 :: rest) start dispStops envStop out st
      = .ok ({ out := out, term := some d2, buf := rest }, st) := by
  have hsk : skipSpace (d2 :: rest) = d2 :: rest := by
    rcases hd.kind with hk | hk | hk <;> simp [skipSpace, isSpaceTok, hk]
  have hstop : dispStops.contains d2.txt = true := by
    rw [hd.txt]; decide
  have hp : (d2.kind == Kind.par) = false := by
    rcases hd.kind with hk | hk | hk <;> simp [hk]
  have hv : isVerb d2 = false := by
    rcases hd.kind with hk | hk | hk <;> simp [isVerb, hk]
  rw [expandMathSection.eq_2, hsk]
  simp only [hp, hv, hstop, Bool.false_eq_true, if_false, if_true]
  rw [finFilter_math out ho]
  rfl

theorem mathSection_body_d (T : PTables) (st : PState) (start : Nat) (envStop : Option Str) (d2 : Tok)
    (rest : Buf) (hd : CloseTok d2) (body : List Tok) (fuel : Nat)
    (hf : (mathToks body).length + 1 ≤ fuel) (hb : ∀ t ∈ body, DItem T t) :
    expandMathSection T fuel (body ++ d2 :: rest) start dispStops envStop [] st
      = .ok ({ out := (mathToks body).map (mathTokOf st), term := some d2, buf := rest }, st) := by
  obtain ⟨f, rfl⟩ : ∃ f, fuel = (f + 1) + (mathToks body).length :=
    ⟨fuel - (mathToks body).length - 1, by omega⟩
  rw [mathSection_run T st start envStop _ body (f + 1) [] hb, List.nil_append,
    mathSection_close T st f start envStop d2 rest _ hd]
  intro t ht
  obtain ⟨u, _, rfl⟩ := List.mem_map.mp ht
  exact isMathTok_mathTokOf st u

/-! ### `replace_section` in display mode on a single maths part -/

/-- an element token that may carry the placeholder: a maths element that is no punctuation mark -/
def isElemTok (T : PTables) (t : Tok) : Bool :=
  t.kind == .mathElem && !T.mathPunctuation.contains t.txt

/-- what `replace_section` makes of the single part of a simple displayed equation: the placeholder
    `r0` at the position `q1` of the first element token, the closing punctuation mark at the position
    `q2` of the first token -/
def partOut (r0 : Str) (q1 q2 : Nat) (pc : Option Char) : List Tok :=
  mkFix .text q1 r0 :: (match pc with | some c => [mkFix .text q2 [c]] | none => [])

theorem replaceStep_display_part (T : PTables) (opText : List (Str × Str)) (opDefault : Option Str)
    (s : RsState) (ts : List Tok) (t0 tl e : Tok) (r0 : Str)
    (h0 : ts.head? = some t0) (hl : ts.getLast? = some tl)
    (hk0 : t0.kind ≠ .mathSpace) (hkl : tl.kind ≠ .mathSpace)
    (he : ts.find? (isElemTok T) = some e)
    (hfp : s.firstPart = false) (hnr : s.nextRepl = true)
    (hr : (rotL s.repls).head? = some r0) :
    replaceStep T opText opDefault false s (.part ts) =
      some { firstPart := false, nextRepl := (partPunct T ts).isSome, repls := rotL s.repls,
             out := s.out ++ partOut r0 e.pos t0.pos (partPunct T ts) } := by
  have hns : ts.all (·.kind == .mathSpace) = false := by
    cases ts with
    | nil => simp at h0
    | cons a as =>
      simp only [List.head?_cons, Option.some.injEq] at h0
      subst h0
      simp [hk0]
  have he' : ts.find? (fun t => t.kind == .mathElem && !T.mathPunctuation.contains t.txt) = some e := he
  have hk0' : (t0.kind == Kind.mathSpace) = false := by simpa using hk0
  have hkl' : (tl.kind == Kind.mathSpace) = false := by simpa using hkl
  simp only [replaceStep, h0, hl, hns, he', hfp, hnr, hk0', hkl', Bool.false_eq_true, if_false,
    Bool.not_false, Bool.and_false, Bool.true_or, Bool.or_true,
    Option.isSome_some, if_true, hr, strip_getLast?, Option.map_some, Option.getD_some,
    Bool.and_true]
  have hsplit : ∀ o : Option Tok, o = none ∨ ∃ t, o = some t := by
    intro o; cases o <;> simp
  unfold partOut partPunct
  rcases hsplit (List.find? (fun x => x.kind != Kind.mathSpace) ts) with hfo | ⟨t, hfo⟩
  · simp only [hfo]
    cases hc : lastNonBlank (getTextDirect ts) with
    | none => simp
    | some c => by_cases hp : [c] ∈ T.mathPunctuation <;> simp [hp]
  · by_cases hk : (t.kind == Kind.mathOper) = true
    · simp only [hfo, hk, if_true]
      cases hc : lastNonBlank (getTextDirect ts) with
      | none => simp
      | some c => by_cases hp : [c] ∈ T.mathPunctuation <;> simp [hp]
    · simp only [hfo, hk, if_false, Bool.false_eq_true]
      cases hc : lastNonBlank (getTextDirect ts) with
      | none => simp
      | some c => by_cases hp : [c] ∈ T.mathPunctuation <;> simp [hp]

theorem replaceSection_display_single (T : PTables) (opText : List (Str × Str)) (opDefault : Option Str)
    (ts : List Tok) (repls : List Str) (t0 tl e : Tok) (r0 : Str)
    (h0 : ts.head? = some t0) (hl : ts.getLast? = some tl)
    (hk0 : t0.kind ≠ .mathSpace) (hkl : tl.kind ≠ .mathSpace)
    (he : ts.find? (isElemTok T) = some e)
    (hr : (rotL repls).head? = some r0) :
    ∃ rs, replaceSection T opText opDefault false [.part ts] true true repls = some rs ∧
      rs.repls = rotL repls ∧
      rs.out = partOut r0 e.pos t0.pos (partPunct T ts) := by
  have h := replaceStep_display_part T opText opDefault
    { firstPart := !true, nextRepl := true, repls := repls, out := [] } ts t0 tl e r0 h0 hl hk0 hkl he
    rfl rfl hr
  refine ⟨{ firstPart := false, nextRepl := (partPunct T ts).isSome, repls := rotL repls,
            out := [] ++ partOut r0 e.pos t0.pos (partPunct T ts) }, ?_, rfl, by simp⟩
  unfold replaceSection
  simp only [List.foldlM_cons, List.foldlM_nil, h]
  rfl

/-! ### `expandDisplayMath` on a simple equation -/

/-- a body token that becomes an element token which may carry the placeholder: no operator, no
    punctuation mark -/
def isElemSrc (T : PTables) (ops : List Str) (t : Tok) : Bool :=
  !ops.contains t.txt && !T.mathPunctuation.contains t.txt

theorem isElemTok_mathTokOf (T : PTables) (st : PState) (t : Tok) :
    isElemTok T (mathTokOf st t) = isElemSrc T st.mathOperators t := by
  unfold isElemTok isElemSrc mathTokOf mkTok
  cases st.mathOperators.contains t.txt <;> simp

theorem find_elem_map (T : PTables) (st : PState) : ∀ mb : List Tok,
    (mb.map (mathTokOf st)).find? (isElemTok T) = (mb.find? (isElemSrc T st.mathOperators)).map (mathTokOf st)
  | [] => rfl
  | t :: ts => by
    simp only [List.map_cons, List.find?_cons, isElemTok_mathTokOf, find_elem_map T st ts]
    cases isElemSrc T st.mathOperators t <;> rfl

/-- what `expand_display_math` returns for a simple equation: an Action token and the two blanks of
    the indentation at the position `p` of the opening token, the placeholder `ph` at the position
    `q1` of the first element of the body, the closing punctuation mark at the position `q2` of the
    first token of the body, an Action token at the position of the last of these -/
def dispOut (T : PTables) (ph : Str) (p q1 q2 : Nat) (s : Str) : List Tok :=
  [mkAction p, mkFix .space p [' ', ' ']] ++ partOut ph q1 q2 (punctChar T s)
    ++ [mkAction (match punctChar T s with | some _ => q2 | none => q1)]

theorem displayLoop_simple (T : PTables) (st : PState) (fuel : Nat) (buf : Buf) (start : Nat)
    (envName : Str) (out0 : List Tok) (mb : List Tok) (e : Tok) (rest : Buf) (rot : Rot)
    (ls : LangSettings) (r0 : Str) (el : Tok)
    (hsec : expandMathSection T fuel buf start dispStops (some envName) [] st
      = .ok ({ out := mb.map (mathTokOf st), term := some e, buf := rest }, st))
    (he1 : txtIs e "&" = false) (he2 : txtIs e "\\\\" = false) (he3 : (e.kind == Kind.par) = false)
    (hmb : ∀ t ∈ mb, BodyTok T t) (hel : mb.find? (isElemSrc T st.mathOperators) = some el)
    (hrot : rotOf st (curSettings st) = some rot) (hls : settingsOf T (curSettings st) = some ls)
    (hr : (rotL rot.disp).head? = some r0) :
    displayLoop T (fuel + 1) buf start envName true true out0 st
      = .ok ((out0 ++ partOut r0 el.pos (firstPos mb) (punctChar T (bodyTxt mb)), rest, []),
             setRot st { rot with disp := rotL rot.disp }) := by
  have hne : mb ≠ [] := by
    intro e0; rw [e0] at hel; simp at hel
  have hmne : mb.map (mathTokOf st) ≠ [] := by simpa using hne
  have hmath : ∀ t ∈ mb.map (mathTokOf st), isMathTok t = true := by
    intro t ht
    obtain ⟨u, _, rfl⟩ := List.mem_map.mp ht
    exact isMathTok_mathTokOf st u
  have h0k : ((mb.map (mathTokOf st)).head hmne).kind ≠ .mathSpace := by
    cases mb with
    | nil => exact absurd rfl hne
    | cons t ts => exact mathTokOf_notSpace st t
  have hlk : ((mb.map (mathTokOf st)).getLast hmne).kind ≠ .mathSpace := by
    obtain ⟨u, _, hu⟩ := List.mem_map.mp (List.getLast_mem hmne)
    rw [← hu]; exact mathTokOf_notSpace st u
  have hpos : ((mb.map (mathTokOf st)).head hmne).pos = firstPos mb := by
    cases mb with
    | nil => exact absurd rfl hne
    | cons t ts => rfl
  have hfe : (mb.map (mathTokOf st)).find? (isElemTok T) = some (mathTokOf st el) := by
    rw [find_elem_map, hel]; rfl
  obtain ⟨rs, hrs, hrepls, hout⟩ := replaceSection_display_single T ls.opText ls.opDefault
    (mb.map (mathTokOf st)) rot.disp ((mb.map (mathTokOf st)).head hmne)
    ((mb.map (mathTokOf st)).getLast hmne) (mathTokOf st el) r0 (List.head?_eq_some_head hmne)
    (List.getLast?_eq_some_getLast hmne) h0k hlk hfe hr
  rw [← detectMathParts_single _ hmath hmne] at hrs
  rw [partPunct_mathToks T st mb hmb, hpos] at hout
  rw [displayLoop.eq_2]
  refine (M.bind_ok _ _ _ _ _ hsec).trans ?_
  refine (M.bind_ok _ _ _ _ _ (rfl : M.get st = _)).trans ?_
  simp only [hrot, hls, hrs]
  refine (M.bind_ok _ _ _ _ _ (rfl : M.modify _ _ = _)).trans ?_
  simp only [he1, he2, he3, Bool.false_eq_true, if_false]
  show Outcome.ok _ = _
  rw [hrepls, hout]
  rfl

theorem expandDisplayMath_simple (T : PTables) (st : PState) (fuel : Nat) (buf : Buf) (tok : Tok)
    (envName : Str) (mb : List Tok) (e : Tok) (rest : Buf) (rot : Rot)
    (ls : LangSettings) (r0 : Str) (el : Tok)
    (hsec : expandMathSection T fuel buf tok.pos dispStops (some envName) [] st
      = .ok ({ out := mb.map (mathTokOf st), term := some e, buf := rest }, st))
    (he1 : txtIs e "&" = false) (he2 : txtIs e "\\\\" = false) (he3 : (e.kind == Kind.par) = false)
    (hmb : ∀ t ∈ mb, BodyTok T t) (hel : mb.find? (isElemSrc T st.mathOperators) = some el)
    (hds : st.displayedSimple = false)
    (hrot : rotOf st (curSettings st) = some rot) (hls : settingsOf T (curSettings st) = some ls)
    (hr : (rotL rot.disp).head? = some r0) :
    expandDisplayMath T (fuel + 2) buf tok envName false st
      = .ok ((dispOut T r0 tok.pos el.pos (firstPos mb) (bodyTxt mb), rest),
             setRot st { rot with disp := rotL rot.disp }) := by
  have hl := displayLoop_simple T st fuel buf tok.pos envName
    [mkAction tok.pos, mkFix .space tok.pos [' ', ' ']] mb e rest rot ls r0 el hsec he1 he2 he3 hmb hel
    hrot hls hr
  rw [expandDisplayMath.eq_2]
  refine (M.bind_ok _ _ _ _ _ hl).trans ?_
  simp only [Bool.false_eq_true, if_false]
  refine (M.bind_ok _ _ _ _ _ (rfl : M.get _ = _)).trans ?_
  have hds' : (setRot st { rot with disp := rotL rot.disp }).displayedSimple = false := hds
  simp only [hds', Bool.false_eq_true, if_false]
  show Outcome.ok _ = _
  unfold dispOut partOut
  cases punctChar T (bodyTxt mb) <;> simp [mkFix, mkAction]

/-! ### `\begin{name}` … `\end{name}` for an equation environment -/

/-- the declaration of an equation environment the development relies on (as `equation`,
    `displaymath`, `eqnarray`, `eqnarray*` in the real tables): an equation environment that is not
    removed, without paragraph breaks around it, without arguments, replacement text, extraction
    text, item labels and handlers -/
def equEnvOk (env : MacroDef) : Bool :=
  env.isEqu && !env.remove && !env.addPars && env.items.isNone && env.args.isEmpty &&
  env.repl.isEmpty && env.extract.isEmpty && env.handler == .none && env.endFunc == .none

structure EquEnvFacts (env : MacroDef) : Prop where
  isEqu : env.isEqu = true
  remove : env.remove = false
  addPars : env.addPars = false
  items : env.items = none
  args : env.args = []
  repl : env.repl = []
  extract : env.extract = []
  handler : env.handler = .none
  endFunc : env.endFunc = .none

theorem equEnvFacts {env : MacroDef} (h : equEnvOk env = true) : EquEnvFacts env := by
  simp only [equEnvOk, Bool.and_eq_true, beq_iff_eq, List.isEmpty_iff, Bool.not_eq_true',
    Option.isNone_iff_eq_none] at h
  obtain ⟨⟨⟨⟨⟨⟨⟨⟨h1, h2⟩, h3⟩, h4⟩, h5⟩, h6⟩, h7⟩, h8⟩, h9⟩ := h
  exact ⟨h1, h2, h3, h4, h5, h6, h7, h8, h9⟩

/-- `name` is declared as such an equation environment -/
def equEnvAt (st : PState) (name : Str) : Bool :=
  match lookupEnv st name with
  | some env => equEnvOk env
  | none => false

/-- the token `begin_environment` pushes back for an equation environment -/
def mbTok (p : Nat) (name : Str) : Tok := { kind := .mathBegin false, pos := p, txt := name }

theorem beginEnvironment_equ (T : PTables) (fuel : Nat) (p q : Nat) (nt : List Tok) (rest : Buf)
    (tok : Tok) (st : PState) (env : MacroDef)
    (h : NameToks T st nt) (hf : nt.length + 1 ≤ fuel)
    (hl : lookupEnv st (PlainMacro.bodyTxt nt) = some env) (hok : equEnvOk env = true) :
    beginEnvironment T (fuel + 3) (lbr p :: (nt ++ rbr q :: rest)) tok false st
      = .ok (([mkAction tok.pos, mkAction tok.pos, mbTok tok.pos (PlainMacro.bodyTxt nt)], rest), st) := by
  have F := equEnvFacts hok
  rw [beginEnvironment.eq_2]
  refine (M.bind_ok _ _ _ _ _ (getEnvironmentName_braced T fuel p q nt rest tok st h hf)).trans ?_
  refine (M.bind_ok _ _ _ _ _ (rfl : M.get st = _)).trans ?_
  simp only [hl, F.items]
  refine (M.bind_ok _ _ _ _ _ (expandArguments_noargs T (fuel + 1) rest env tok.pos _ F.args F.repl
    F.extract F.handler)).trans ?_
  simp only [F.isEqu, F.remove, F.addPars, Bool.false_eq_true, if_false, if_true]
  rfl

theorem endEnvironment_equ (T : PTables) (fuel : Nat) (p q : Nat) (nt : List Tok) (rest : Buf)
    (tok : Tok) (st : PState) (env : MacroDef)
    (h : NameToks T st nt) (hf : nt.length + 1 ≤ fuel)
    (hl : lookupEnv st (PlainMacro.bodyTxt nt) = some env) (hok : equEnvOk env = true) :
    endEnvironment T (fuel + 3) (lbr p :: (nt ++ rbr q :: rest)) tok (some (PlainMacro.bodyTxt nt)) st
      = .ok ((([mkAction tok.pos], true), rest), st) := by
  have F := equEnvFacts hok
  rw [endEnvironment.eq_2]
  refine (M.bind_ok _ _ _ _ _ (getEnvironmentName_braced T fuel p q nt rest tok st h hf)).trans ?_
  refine (M.bind_ok _ _ _ _ _ (rfl : M.get st = _)).trans ?_
  simp only [hl, F.items, F.endFunc, F.addPars, Option.isSome_none, Bool.false_and, beq_self_eq_true,
    if_true, Bool.false_eq_true, if_false]
  rfl

/-- the section parser at `\end{name}`: the section ends, the buffer stands behind the `}` -/
theorem mathSection_end (T : PTables) (st : PState) (fuel : Nat) (start : Nat) (p q1 q2 : Nat)
    (nt : List Tok) (rest : Buf) (out : List Tok) (env : MacroDef)
    (h : NameToks T st nt) (hf : nt.length + 1 ≤ fuel)
    (hl : lookupEnv st (PlainMacro.bodyTxt nt) = some env) (hok : equEnvOk env = true)
    (ho : ∀ t ∈ out, isMathTok t = true) :
    expandMathSection T (fuel + 4) (endTok p :: lbr q1 :: (nt ++ rbr q2 :: rest)) start dispStops
        (some (PlainMacro.bodyTxt nt)) out st
      = .ok ({ out := out, term := some (endTok p), buf := rest }, st) := by
  have hsk : skipSpace (endTok p :: lbr q1 :: (nt ++ rbr q2 :: rest))
      = endTok p :: lbr q1 :: (nt ++ rbr q2 :: rest) := by
    simp [skipSpace, isSpaceTok, endTok]
  have hstop : dispStops.contains (endTok p).txt = false := show dispStops.contains sEnd = false by decide
  have hk : (endTok p).kind = .xend := rfl
  rw [expandMathSection.eq_2, hsk]
  simp only [hk, hstop, reduceCtorEq, beq_iff_eq, Bool.false_eq_true, if_false, beq_self_eq_true,
    if_true]
  refine (M.bind_ok _ _ _ _ _ (endEnvironment_equ T fuel q1 q2 nt rest (endTok p) st env h hf hl
    hok)).trans ?_
  simp only [if_true]
  show Outcome.ok _ = _
  have : (out ++ [mkAction (endTok p).pos]).filter
      (fun t => !(t.kind == Kind.void || t.kind == Kind.action)) = out := by
    rw [List.filter_append, finFilter_math out ho]
    simp [mkAction]
  rw [this]

/-! ### `expandSequence` on plain tokens and simple displayed equations -/

/-- the opening token `\[` as the scanner makes it (a special token: a macro token would be
    expanded as a macro) -/
structure OpenTok (t : Tok) : Prop where
  kind : t.kind = .special
  txt : t.txt = ['\\', '[']

theorem seq_open_step (T : PTables) (fuel : Nat) (d1 : Tok) (rest : Buf) (envStop : Option Str)
    (out : List Tok) (st : PState) (env : MacroDef) (hd1 : OpenTok d1)
    (henv : lookupEnv st T.mathDefaultEnv = some env) (hequ : env.isEqu = true) :
    expandSequence T (fuel + 1) (d1 :: rest) envStop out st
      = (expandDisplayMath T fuel rest d1 env.name env.remove >>= fun r =>
          expandSequence T fuel r.2 envStop (out ++ r.1)) st := by
  rw [expandSequence.eq_3]
  show M.bind' M.get _ st = _
  simp only [M.bind', M.get]
  have h1 : txtIs d1 "$" = false := by simp [txtIs, hd1.txt]
  have h2 : txtIs d1 "\\(" = false := by simp [txtIs, hd1.txt]
  have h3 : txtIs d1 "\\[" = true := by simp [txtIs, hd1.txt]
  simp only [hd1.kind, h1, h2, h3, henv, hequ, Bool.or_true, Bool.or_self, if_true, Bool.false_eq_true,
    if_false, reduceCtorEq, beq_iff_eq, Bool.not_true]

/-- the token `begin_environment` pushes back for an equation environment opens the equation -/
theorem seq_mathBegin_step (T : PTables) (fuel : Nat) (p : Nat) (name : Str) (rest : Buf)
    (envStop : Option Str) (out : List Tok) (st : PState)
    (h1 : name ≠ "$".toList) (h2 : name ≠ "\\(".toList) :
    expandSequence T (fuel + 1) (mbTok p name :: rest) envStop out st
      = (expandDisplayMath T fuel rest (mbTok p name) name false >>= fun r =>
          expandSequence T fuel r.2 envStop (out ++ r.1)) st := by
  rw [expandSequence.eq_3]
  show M.bind' M.get _ st = _
  simp only [M.bind', M.get]
  have hk : (mbTok p name).kind = .mathBegin false := rfl
  have n1 : txtIs (mbTok p name) "$" = false := by simpa [txtIs, mbTok] using h1
  have n2 : txtIs (mbTok p name) "\\(" = false := by simpa [txtIs, mbTok] using h2
  simp only [hk, n1, n2, Bool.or_self, if_true, Bool.false_eq_true, if_false, reduceCtorEq, beq_iff_eq]
  rfl

/-- **`\begin{name}` of an equation environment in the loop**: four iterations (the `\begin`
    token, the two Action tokens it leaves, …) lead to the pushed-back equation token -/
theorem seq_beg_equ (T : PTables) (fuel : Nat) (p q1 q2 : Nat) (nt : List Tok) (rest : Buf)
    (envStop : Option Str) (out : List Tok) (st : PState) (env : MacroDef)
    (h : NameToks T st nt) (hf : nt.length + 1 ≤ fuel)
    (hl : lookupEnv st (PlainMacro.bodyTxt nt) = some env) (hok : equEnvOk env = true)
    (ha : noEmptyActive T st = true) :
    expandSequence T (fuel + 4) (begTok p :: lbr q1 :: (nt ++ rbr q2 :: rest)) envStop out st
      = expandSequence T (fuel + 1) (mbTok p (PlainMacro.bodyTxt nt) :: rest) envStop
          (out ++ [mkAction p, mkAction p]) st := by
  rw [expandSequence.eq_3]
  show M.bind' M.get _ st = _
  simp only [M.bind', M.get]
  have hk : (begTok p).kind = .xbegin := rfl
  simp only [hk, beq_self_eq_true, if_true]
  refine (M.bind_ok _ _ _ _ _ (beginEnvironment_equ T fuel q1 q2 nt rest (begTok p) st env h hf hl
    hok)).trans ?_
  show expandSequence T (fuel + 2 + 1)
    (mkAction p :: mkAction p :: mbTok p (PlainMacro.bodyTxt nt) :: rest) envStop out _ = _
  rw [seq_action_step T (fuel + 2) p _ envStop out _ ha,
    seq_action_step T (fuel + 1) p _ envStop _ _ ha]
  simp

/-- `\[` opens the default equation environment (`math_default_env`), which is declared as an
    equation environment that is not removed -/
def defEnvOk (T : PTables) (st : PState) : Bool :=
  match lookupEnv st T.mathDefaultEnv with
  | some env => env.isEqu && !env.remove
  | none => false

/-- the pieces of a token buffer: a token that is copied, a simple displayed equation `\[ … \]`, or
    a simple displayed equation `\begin{name} … \end{name}` -/
inductive Piece where
  | tok (t : Tok)
  | disp (d1 : Tok) (body : List Tok) (d2 : Tok)
  | env (p q1 q2 : Nat) (nt : List Tok) (body : List Tok) (p' q1' q2' : Nat) (nt' : List Tok)

def Piece.toks : Piece → List Tok
  | .tok t => [t]
  | .disp d1 b d2 => d1 :: (b ++ [d2])
  | .env p q1 q2 nt b p' q1' q2' nt' =>
    begTok p :: lbr q1 :: (nt ++ rbr q2 :: (b ++ endTok p' :: lbr q1' :: (nt' ++ [rbr q2'])))

/-- the token buffer -/
def flat : List Piece → List Tok
  | [] => []
  | p :: ps => p.toks ++ flat ps

/-- fuel the loop needs -/
def cost : List Piece → Nat
  | [] => 0
  | .tok _ :: ps => cost ps + 1
  | .disp _ b _ :: ps => cost ps + (b.length + 3)
  | .env _ _ _ nt b _ _ _ nt' :: ps => cost ps + (b.length + nt.length + nt'.length + 11)

/-- the body holds an element that can carry the placeholder -/
def HasElem (T : PTables) (ops : List Str) (b : List Tok) : Prop :=
  ((mathToks b).find? (isElemSrc T ops)).isSome = true

/-- position of the first element of the body -/
def elemPos (T : PTables) (ops : List Str) (b : List Tok) : Nat :=
  (((mathToks b).find? (isElemSrc T ops)).map (·.pos)).getD 0

/-- a buffer of plain tokens (copied by `expandSequence`) and simple displayed equations -/
def PiecesOk (T : PTables) (st : PState) : List Piece → Prop
  | [] => True
  | .tok t :: rest => PlainTok t ∧ PassTok T st t (flat rest) ∧ TokShape t ∧ PiecesOk T st rest
  | .disp d1 b d2 :: rest =>
    defEnvOk T st = true ∧
    OpenTok d1 ∧ HasElem T st.mathOperators b ∧ (∀ t ∈ b, DItem T t) ∧ CloseTok d2 ∧ PiecesOk T st rest
  | .env _ _ _ nt b _ _ _ nt' :: rest =>
    noEmptyActive T st = true ∧ NameToks T st nt ∧ NameToks T st nt' ∧ PlainMacro.bodyTxt nt' = PlainMacro.bodyTxt nt ∧
    equEnvAt st (PlainMacro.bodyTxt nt) = true ∧
    PlainMacro.bodyTxt nt ≠ "$".toList ∧ PlainMacro.bodyTxt nt ≠ "\\(".toList ∧
    HasElem T st.mathOperators b ∧ (∀ t ∈ b, DItem T t) ∧ PiecesOk T st rest

/-- what `expandSequence` emits for the pieces before the blank-line removal, `l` being the stored
    placeholder collection: the equations take the heads of `rotL l`, `rotL (rotL l)`, … -/
def outD (T : PTables) (ops : List Str) : List Str → List Piece → List Tok
  | _, [] => []
  | l, .tok t :: rest => t :: outD T ops l rest
  | l, .disp d1 b _ :: rest =>
    dispOut T ((rotL l).headD []) d1.pos (elemPos T ops b) (firstPos (mathToks b)) (bodyTxt (mathToks b))
      ++ outD T ops (rotL l) rest
  | l, .env p _ _ _ b _ _ _ _ :: rest =>
    mkAction p :: mkAction p ::
      (dispOut T ((rotL l).headD []) p (elemPos T ops b) (firstPos (mathToks b)) (bodyTxt (mathToks b))
        ++ outD T ops (rotL l) rest)

/-- number of equations -/
def nDisp : List Piece → Nat
  | [] => 0
  | .tok _ :: rest => nDisp rest
  | .disp .. :: rest => nDisp rest + 1
  | .env .. :: rest => nDisp rest + 1

theorem NameToks.congr {T : PTables} {st st' : PState} (hl : st'.langStack = st.langStack)
    {nt : List Tok} (h : NameToks T st nt) : NameToks T st' nt :=
  ⟨h.1, fun t ht => ⟨(h.2 t ht).1, by rw [activeChars_congr T st st' hl]; exact (h.2 t ht).2.1,
    (h.2 t ht).2.2⟩⟩

theorem PiecesOk.congr {T : PTables} {st st' : PState} (hl : st'.langStack = st.langStack)
    (hm : st'.mathOperators = st.mathOperators) (he : st'.envs = st.envs) :
    ∀ {ps : List Piece}, PiecesOk T st ps → PiecesOk T st' ps
  | [], _ => trivial
  | .tok t :: rest, h => by
    refine ⟨h.1, ?_, h.2.2.1, PiecesOk.congr hl hm he h.2.2.2⟩
    unfold PassTok
    rw [activeChars_congr T st st' hl, expandShortMacro_congr T st st' hl]
    exact h.2.1
  | .disp d1 b d2 :: rest, h => by
    obtain ⟨h0, h⟩ := h
    refine ⟨?_, h.1, by rw [hm]; exact h.2.1, h.2.2.1, h.2.2.2.1, PiecesOk.congr hl hm he h.2.2.2.2⟩
    rw [← h0]
    simp only [defEnvOk, lookupEnv, he]
  | .env _ _ _ nt b _ _ _ nt' :: rest, h => by
    obtain ⟨h0, h1, h2, h3, h4, h5, h6, h7, h8, h9⟩ := h
    refine ⟨(noEmptyActive_congr T st st' hl).trans h0, h1.congr hl, h2.congr hl, h3, ?_, h5, h6,
      by rw [hm]; exact h7, h8, PiecesOk.congr hl hm he h9⟩
    rw [← h4]
    simp only [equEnvAt, lookupEnv, he]

theorem length_mathToks_le (b : List Tok) : (mathToks b).length ≤ b.length :=
  List.length_filter_le _ _

/-- the loop on a buffer of plain tokens and simple displayed equations: the output is the
    blank-line removal applied to `outD`; the state changes only in the rotation records, and the
    record of the current language holds the display collection rotated once per equation. -/
theorem seq_disp (T : PTables) (envStop : Option Str) (ls : LangSettings) :
    ∀ (ps : List Piece) (fuel : Nat) (out : List Tok) (st : PState) (rot : Rot),
      cost ps + 1 ≤ fuel → PiecesOk T st ps →
      rotOf st (curSettings st) = some rot → rot.disp ≠ [] →
      settingsOf T (curSettings st) = some ls → st.displayedSimple = false →
      ∃ st', expandSequence T fuel (flat ps) envStop out st
          = (match removeLines (out ++ outD T st.mathOperators rot.disp ps) with
             | some r => .ok ((r, []), st')
             | none => .outOfFuel) ∧
        st' = { st with rots := st'.rots } ∧
        rotOf st' (curSettings st) = some { rot with disp := rotN (nDisp ps) rot.disp } := by
  intro ps
  induction ps with
  | nil =>
    intro fuel out st rot hf _ hrot _ _ _
    obtain ⟨f, rfl⟩ : ∃ f, fuel = f + 1 := ⟨fuel - 1, by omega⟩
    refine ⟨st, ?_, rfl, hrot⟩
    simp only [flat, outD, List.append_nil]
    rw [expandSequence.eq_2]
    cases removeLines out <;> rfl
  | cons p ps ih =>
    intro fuel out st rot hf hok hrot hne hls hds
    cases p with
    | tok t =>
      simp only [flat, Piece.toks, List.singleton_append, cost] at hf ⊢
      obtain ⟨f, rfl⟩ : ∃ f, fuel = f + 1 := ⟨fuel - 1, by omega⟩
      rw [seq_plain_step T f t (flat ps) envStop out st hok.1 hok.2.1]
      obtain ⟨st', h1, h2, h3⟩ := ih f (out ++ [t]) st rot (by omega) hok.2.2.2 hrot hne hls hds
      refine ⟨st', ?_, h2, h3⟩
      rw [h1]
      simp only [outD, List.append_assoc, List.singleton_append]
    | disp d1 b d2 =>
      obtain ⟨hdef, hd1, hel, hb, hd2, hrest⟩ := hok
      obtain ⟨env, henv, hequ, hrem⟩ : ∃ env, lookupEnv st T.mathDefaultEnv = some env ∧
          env.isEqu = true ∧ env.remove = false := by
        unfold defEnvOk at hdef
        cases hq : lookupEnv st T.mathDefaultEnv with
        | none => rw [hq] at hdef; cases hdef
        | some e =>
          rw [hq] at hdef
          simp only [Bool.and_eq_true, Bool.not_eq_true'] at hdef
          exact ⟨e, rfl, hdef.1, hdef.2⟩
      have hflat : flat (Piece.disp d1 b d2 :: ps) = d1 :: (b ++ d2 :: flat ps) := by
        simp [flat, Piece.toks]
      rw [hflat]
      simp only [cost] at hf
      have hml := length_mathToks_le b
      obtain ⟨f, rfl⟩ : ∃ f, fuel = f + 3 := ⟨fuel - 3, by omega⟩
      have hr := headD_of_ne_nil _ (rotL_ne_nil _ hne)
      obtain ⟨el, hel'⟩ := Option.isSome_iff_exists.mp hel
      have hsec := mathSection_body_d T st d1.pos (some env.name) d2 (flat ps) hd2 b f (by omega) hb
      have hmb : ∀ t ∈ mathToks b, BodyTok T t := mathToks_body T b (fun t ht => (hb t ht).bodyItem)
      have he1 : txtIs d2 "&" = false := by simp [txtIs, hd2.txt]
      have he2 : txtIs d2 "\\\\" = false := by simp [txtIs, hd2.txt]
      have he3 : (d2.kind == Kind.par) = false := by
        rcases hd2.kind with hk | hk | hk <;> simp [hk]
      have him := expandDisplayMath_simple T st f (b ++ d2 :: flat ps) d1 env.name (mathToks b) d2
        (flat ps) rot ls _ el hsec he1 he2 he3 hmb hel' hds hrot hls hr
      rw [seq_open_step T (f + 2) d1 _ envStop out st env hd1 henv hequ, hrem]
      rw [M.bind_ok _ (fun r => expandSequence T (f + 2) r.2 envStop (out ++ r.1)) _ _ _ him]
      simp only []
      have hrot2 := rotOf_setRot_disp st (curSettings st) rot (rotL rot.disp) hrot
      obtain ⟨st', h1, h2, h3⟩ := ih (f + 2)
        (out ++ dispOut T ((rotL rot.disp).headD []) d1.pos el.pos (firstPos (mathToks b))
          (bodyTxt (mathToks b)))
        (setRot st { rot with disp := rotL rot.disp }) { rot with disp := rotL rot.disp }
        (by omega)
        (PiecesOk.congr (st := st) (st' := setRot st { rot with disp := rotL rot.disp }) rfl rfl rfl
          hrest)
        hrot2 (rotL_ne_nil _ hne) hls hds
      refine ⟨st', ?_, h2.trans rfl, ?_⟩
      · rw [h1]
        have hep : elemPos T st.mathOperators b = el.pos := by
          simp [elemPos, hel']
        simp only [outD, List.append_assoc, hep]
        rfl
      · rw [show curSettings st = curSettings (setRot st { rot with disp := rotL rot.disp }) from rfl, h3]
        simp only [nDisp, rotN]
    | env p q1 q2 nt b p' q1' q2' nt' =>
      obtain ⟨hnea, hn1, hn2, hnn, hea, hx1, hx2, hel, hb, hrest⟩ := hok
      have hflat : flat (Piece.env p q1 q2 nt b p' q1' q2' nt' :: ps)
          = begTok p :: lbr q1 :: (nt ++ rbr q2 :: (b ++ endTok p' :: lbr q1' :: (nt' ++ rbr q2' :: flat ps))) := by
        simp [flat, Piece.toks]
      rw [hflat]
      simp only [cost] at hf
      have hml := length_mathToks_le b
      obtain ⟨f, rfl⟩ : ∃ f, fuel = f + (mathToks b).length + nt.length + nt'.length + 11 :=
        ⟨fuel - ((mathToks b).length + nt.length + nt'.length + 11), by omega⟩
      have hr := headD_of_ne_nil _ (rotL_ne_nil _ hne)
      obtain ⟨el, hel'⟩ := Option.isSome_iff_exists.mp hel
      obtain ⟨env', hle, hoke⟩ : ∃ env', lookupEnv st (PlainMacro.bodyTxt nt) = some env' ∧
          equEnvOk env' = true := by
        unfold equEnvAt at hea
        cases hq : lookupEnv st (PlainMacro.bodyTxt nt) with
        | none => rw [hq] at hea; cases hea
        | some e => rw [hq] at hea; exact ⟨e, rfl, hea⟩
      have hmb : ∀ t ∈ mathToks b, BodyTok T t := mathToks_body T b (fun t ht => (hb t ht).bodyItem)
      -- the `\begin{name}` part
      rw [show f + (mathToks b).length + nt.length + nt'.length + 11
          = (f + (mathToks b).length + nt.length + nt'.length + 7) + 4 by omega,
        seq_beg_equ T _ p q1 q2 nt _ envStop out st env' hn1 (by omega) hle hoke hnea,
        seq_mathBegin_step T _ p (PlainMacro.bodyTxt nt) _ envStop _ st hx1 hx2]
      -- the section
      have hsec : expandMathSection T (f + (mathToks b).length + nt.length + nt'.length + 5)
          (b ++ endTok p' :: lbr q1' :: (nt' ++ rbr q2' :: flat ps)) p dispStops
          (some (PlainMacro.bodyTxt nt)) [] st
          = .ok ({ out := (mathToks b).map (mathTokOf st), term := some (endTok p'), buf := flat ps }, st) := by
        rw [show f + (mathToks b).length + nt.length + nt'.length + 5
            = (f + nt.length + nt'.length + 5) + (mathToks b).length by omega,
          mathSection_run T st p _ _ b _ [] hb, List.nil_append, ← hnn]
        rw [← hnn] at hle
        exact mathSection_end T st (f + nt.length + nt'.length + 1) p p' q1' q2' nt' (flat ps) _ env'
          hn2 (by omega) hle hoke (by
            intro t ht
            obtain ⟨u, _, rfl⟩ := List.mem_map.mp ht
            exact isMathTok_mathTokOf st u)
      have him := expandDisplayMath_simple T st _ _ (mbTok p (PlainMacro.bodyTxt nt))
        (PlainMacro.bodyTxt nt) (mathToks b) (endTok p') (flat ps) rot ls _ el hsec rfl rfl rfl hmb hel'
        hds hrot hls hr
      rw [M.bind_ok _ (fun r => expandSequence T _ r.2 envStop (_ ++ r.1)) _ _ _ him]
      simp only []
      have hrot2 := rotOf_setRot_disp st (curSettings st) rot (rotL rot.disp) hrot
      obtain ⟨st', h1, h2, h3⟩ := ih (f + (mathToks b).length + nt.length + nt'.length + 7)
        (out ++ [mkAction p, mkAction p] ++ dispOut T ((rotL rot.disp).headD []) p el.pos
          (firstPos (mathToks b)) (bodyTxt (mathToks b)))
        (setRot st { rot with disp := rotL rot.disp }) { rot with disp := rotL rot.disp }
        (by omega)
        (PiecesOk.congr (st := st) (st' := setRot st { rot with disp := rotL rot.disp }) rfl rfl rfl
          hrest)
        hrot2 (rotL_ne_nil _ hne) hls hds
      refine ⟨st', ?_, h2.trans rfl, ?_⟩
      · refine Eq.trans h1 ?_
        have hep : elemPos T st.mathOperators b = el.pos := by
          simp [elemPos, hel']
        simp only [outD, List.append_assoc, hep]
        rfl
      · rw [show curSettings st = curSettings (setRot st { rot with disp := rotL rot.disp }) from rfl, h3]
        simp only [nDisp, rotN]

/-! ### the blank-line removal deletes nothing: every equation leaves visible text -/

/-- the line automaton passes an equation and is behind visible text afterwards -/
theorem lineRun_dispOut (T : PTables) (ph : Str) (p q1 q2 : Nat) (s : Str)
    (hph : hasNl ph = false ∧ isBlank ph = false) (hs : ∀ c ∈ s, isSpace c = false)
    (σ : Option Bool) (tail : List LItem) (ht : tail ≠ []) :
    lineRun σ (((dispOut T ph p q1 q2 s).filter keepIn).map evalTok ++ tail) = lineRun none tail := by
  have hphne : ph ≠ [] := by
    intro e; rw [e] at hph; simp [isBlank] at hph
  have hk1 : keepIn (mkAction p) = true := rfl
  have hk0 : keepIn (mkFix .space p [' ', ' ']) = true := rfl
  have hk2 : keepIn (mkFix .text q1 ph) = true := by
    cases ph with
    | nil => exact absurd rfl hphne
    | cons => rfl
  have hk3 : ∀ c, keepIn (mkFix .text q2 [c]) = true := fun _ => rfl
  have hk4 : ∀ q, keepIn (mkAction q) = true := fun _ => rfl
  have hA2 : ∀ q, lineRun none (evalTok (mkAction q) :: tail) = lineRun none tail := by
    intro q
    rw [lineRun_action (mkAction q) rfl none tail ht]; rfl
  have hsp : ∀ σ' tl, tl ≠ [] →
      lineRun σ' (evalTok (mkFix .space p [' ', ' ']) :: tl) = lineRun σ' tl := by
    intro σ' tl htl
    rw [lineRun_ws (mkFix .space p [' ', ' ']) (Or.inl rfl) (show isBlank [' ', ' '] = true by decide) σ' tl htl]
    have : hasNl (mkFix .space p [' ', ' ']).txt = false := show hasNl [' ', ' '] = false by decide
    simp only [this, Bool.false_eq_true, if_false]
  unfold dispOut partOut
  cases hp : punctChar T s with
  | none =>
    simp only [List.cons_append, List.nil_append, List.filter_cons, hk0, hk1, hk2, hk4,
      if_true, List.filter_nil, List.map_cons, List.map_nil]
    rw [lineRun_action (mkAction p) rfl σ _ (by simp), hsp _ _ (by simp),
      lineRun_txt (mkFix .text q1 ph) rfl hph.1 _ _ (by simp)]
    simp only [mkFix, hph.2, Bool.false_eq_true, if_false]
    exact hA2 _
  | some c =>
    have hc : hasNl [c] = false := hasNl_single c (hs c (punctChar_mem T s c hp))
    simp only [List.cons_append, List.nil_append, List.filter_cons, hk0, hk1, hk2, hk3, hk4,
      if_true, List.filter_nil, List.map_cons, List.map_nil]
    rw [lineRun_action (mkAction p) rfl σ _ (by simp), hsp _ _ (by simp),
      lineRun_txt (mkFix .text q1 ph) rfl hph.1 _ _ (by simp)]
    simp only [mkFix, hph.2, Bool.false_eq_true, if_false]
    rw [lineRun_txt { kind := .text, pos := q2, txt := [c], fix := true } rfl hc _ _ (by simp)]
    simp only [ite_self]
    exact hA2 _

theorem lineRun_outD (T : PTables) (st : PState) (ops : List Str) :
    ∀ (ps : List Piece) (l : List Str) (σ : Option Bool) (tail : List LItem),
      PiecesOk T st ps → VisibleRepls l → l ≠ [] → tail ≠ [] → σ ≠ some true →
      ∃ σ', σ' ≠ some true ∧
        lineRun σ (((outD T ops l ps).filter keepIn).map evalTok ++ tail) = lineRun σ' tail := by
  intro ps
  induction ps with
  | nil =>
    intro l σ tail _ _ _ _ hσ
    exact ⟨σ, hσ, by simp [outD]⟩
  | cons p ps ih =>
    intro l σ tail hok hl hne ht hσ
    cases p with
    | tok t =>
      obtain ⟨hp, _, ⟨htne, hshape⟩, hrest⟩ := hok
      have hk : keepIn t = true := by
        cases hx : t.txt with
        | nil => exact absurd hx htne
        | cons => simp [keepIn, hx]
      simp only [outD, List.filter_cons, hk, if_true, List.map_cons, List.cons_append]
      have hne2 : ((outD T ops l ps).filter keepIn).map evalTok ++ tail ≠ [] := by simp [ht]
      rcases hshape with ⟨hkind, hnl⟩ | ⟨hkind, hbl⟩
      · rw [lineRun_txt t hkind hnl σ _ hne2]
        refine ih l _ tail hrest hl hne ht ?_
        split
        · exact hσ
        · simp
      · rw [lineRun_ws t hkind hbl σ _ hne2]
        have hσ' : (σ == some true) = false := by
          cases σ with
          | none => rfl
          | some a => cases a <;> simp at hσ ⊢
        simp only [hσ', Bool.false_eq_true, if_false]
        split
        · exact ih l _ tail hrest hl hne ht (by simp)
        · exact ih l _ tail hrest hl hne ht hσ
    | disp d1 b d2 =>
      obtain ⟨_, _, _, hb, _, hrest⟩ := hok
      simp only [outD, List.filter_append, List.map_append, List.append_assoc]
      have hne2 : ((outD T ops (rotL l) ps).filter keepIn).map evalTok ++ tail ≠ [] := by simp [ht]
      have hmem : (rotL l).headD [] ∈ rotL l := by
        have := headD_of_ne_nil _ (rotL_ne_nil l hne)
        exact List.mem_of_mem_head? (by rw [this]; rfl)
      rw [lineRun_dispOut T _ d1.pos _ (firstPos (mathToks b)) (bodyTxt (mathToks b)) (hl.rotL _ hmem)
        (bodyTxt_nonspace T _ (mathToks_body T b (fun t ht => (hb t ht).bodyItem))) σ _ hne2]
      exact ih (rotL l) none tail hrest hl.rotL (rotL_ne_nil l hne) ht (by simp)
    | env p q1 q2 nt b p' q1' q2' nt' =>
      obtain ⟨_, _, _, _, _, _, _, _, hb, hrest⟩ := hok
      have hk : ∀ q, keepIn (mkAction q) = true := fun _ => rfl
      simp only [outD, List.filter_cons, hk, if_true, List.map_cons, List.cons_append,
        List.filter_append, List.map_append, List.append_assoc]
      have hne2 : ((outD T ops (rotL l) ps).filter keepIn).map evalTok ++ tail ≠ [] := by simp [ht]
      have hmem : (rotL l).headD [] ∈ rotL l := by
        have := headD_of_ne_nil _ (rotL_ne_nil l hne)
        exact List.mem_of_mem_head? (by rw [this]; rfl)
      rw [lineRun_action (mkAction p) rfl σ _ (by simp),
        lineRun_action (mkAction p) rfl _ _ (by simp [ht]),
        lineRun_dispOut T _ p _ (firstPos (mathToks b)) (bodyTxt (mathToks b)) (hl.rotL _ hmem)
          (bodyTxt_nonspace T _ (mathToks_body T b (fun t ht => (hb t ht).bodyItem))) _ _ hne2]
      exact ih (rotL l) none tail hrest hl.rotL (rotL_ne_nil l hne) ht (by simp)

/-- the blank-line removal only drops the (empty) Action tokens -/
theorem removeLines_outD (T : PTables) (st : PState) (ops : List Str) (ps : List Piece) (l : List Str)
    (hok : PiecesOk T st ps) (hl : VisibleRepls l) (hne : l ≠ []) :
    removeLines (outD T ops l ps) = some ((outD T ops l ps).filter keepOut) := by
  apply removeLines_safe_id
  apply lineRun_linesInit
  intro p
  obtain ⟨σ', h1, h2⟩ := lineRun_outD T st ops ps l (some false) [lastItem p] hok hl hne (by simp) (by simp)
  rw [h2, lineRun_lastItem]
  cases σ' with
  | none => rfl
  | some a => cases a <;> simp at h1 ⊢

/-! ### the documents -/

/-- a segment of the source: a run of text, a simple displayed equation `\[body\]`, or a simple
    displayed equation `\begin{name}body\end{name}` -/
inductive Seg where
  | txt (s : Str)
  | disp (body : Str)
  | env (name body : Str)
deriving Repr, DecidableEq

def sOpen : Str := ['\\', '[']
def sClose : Str := ['\\', ']']

def Seg.render : Seg → Str
  | .txt s => s
  | .disp body => '\\' :: '[' :: (body ++ ['\\', ']'])
  | .env name body =>
    '\\' :: (nBegin ++ '{' :: (name ++ '}' :: (body ++ '\\' :: (nEnd ++ '{' :: (name ++ ['}'])))))

/-- the source text -/
def render : List Seg → Str
  | [] => []
  | s :: rest => s.render ++ render rest

/-- the text of the first scanner token of a well-formed source: `\[`, a run of white space, or one
    character -/
def firstTokTxtD (s : Str) : Str :=
  if startsWith s sOpen then sOpen else firstTokTxtM s

/-- the text character `c`, followed by `cs` (the whole rest of the source), is inert: `okAt` of
    Proofs/PlainUnknown.lean, except that the token behind `c` may be `\[` -/
def okAtD (T : PTables) (st : PState) (c : Char) (cs : Str) : Bool :=
  (!(activeChars T st).contains [c] ||
    (!isSpace c && (cs.isEmpty || !(shortKeys T st).contains (c :: firstTokTxtD cs)))) &&
  (isSpace c || (!structuralChar c && (matchSpecial T.toTables (c :: cs)).isNone))

/-- the text `s`, followed by `R`, is inert -/
def textOkD (T : PTables) (st : PState) : Str → Str → Bool
  | [], _ => true
  | c :: cs, R => okAtD T st c (cs ++ R) && textOkD T st cs R

/-- a body character that becomes an element which may carry the placeholder: no white space, no
    operator (`math_operators`), no punctuation mark (`math_punctuation`) -/
def elemChar (T : PTables) (ops : List Str) (c : Char) : Bool :=
  !isSpace c && !ops.contains [c] && !T.mathPunctuation.contains [c]

/-- offset of the first element character of a body -/
def elemOff (T : PTables) (ops : List Str) (body : Str) : Nat :=
  (body.takeWhile (fun c => !elemChar T ops c)).length

/-- `\[`, followed by `rest`, is scanned as the special token `\[` -/
def openAt (T : PTables) (rest : Str) : Bool :=
  matchSpecial T.toTables ('\\' :: '[' :: rest) == some sOpen

/-- `\]`, followed by `R`, is scanned as a token with the text `\]` -/
def closeAt (T : PTables) (R : Str) : Bool :=
  match matchSpecial T.toTables ('\\' :: ']' :: R) with
  | none => true
  | some t => t == sClose

/-- the equation `\[body\]`, followed by `R`: `\[` and `\]` are scanned as such; the body is
    admissible as for inline formulas (`bodyOk` of Proofs/PlainMath.lean), contains no `&` and at
    least one element character -/
def dispOk (T : PTables) (st : PState) (body R : Str) : Bool :=
  let ops := st.mathOperators
  defEnvOk T st && openAt T (body ++ '\\' :: ']' :: R) && bodyOk T body ('\\' :: ']' :: R) &&
  body.all (fun c => c != '&') && body.any (elemChar T ops) && closeAt T R

/-- `\end{name}` followed by `R` -/
def endSrc (name R : Str) : Str := '\\' :: (nEnd ++ '{' :: (name ++ '}' :: R))

/-- the equation `\begin{name}body\end{name}`, followed by `R`:
    * `\begin` and `\end` are scanned as such (no special sequence matches at the backslash, it is
      not `\begin{verbatim}`), the four braces are scanned as braces;
    * the name is a non-empty string of inert characters (`inertChar` of Proofs/Plain.lean) and is
      declared as an equation environment (`equEnvAt`);
    * the body is admissible as for `\[ … \]` -/
def envOk (T : PTables) (st : PState) (name body R : Str) : Bool :=
  noEmptyActive T st &&
  (matchSpecial T.toTables ('\\' :: (nBegin ++ '{' :: (name ++ '}' :: (body ++ endSrc name R))))).isNone &&
  !startsWith ('{' :: (name ++ '}' :: (body ++ endSrc name R))) sVerbatimArg &&
  braceAt T '{' (name ++ '}' :: (body ++ endSrc name R)) &&
  !name.isEmpty && name.all (inertChar T st) &&
  braceAt T '}' (body ++ endSrc name R) && equEnvAt st name &&
  bodyOk T body (endSrc name R) && body.all (fun c => c != '&') &&
  body.any (elemChar T st.mathOperators) &&
  (matchSpecial T.toTables (endSrc name R)).isNone &&
  braceAt T '{' (name ++ '}' :: R) && braceAt T '}' R

/-- well-formed documents: every segment is fine in front of the rendering of the following ones -/
def segsOk (T : PTables) (st : PState) : List Seg → Bool
  | [] => true
  | .txt s :: rest => textOkD T st s (render rest) && segsOk T st rest
  | .disp body :: rest => dispOk T st body (render rest) && segsOk T st rest
  | .env name body :: rest => envOk T st name body (render rest) && segsOk T st rest

/-- the source as a list of text characters (with their positions) and equations (with the position
    `p` of the opening `\[` / `\begin` and the offset `o` of the body from there) -/
inductive Item where
  | chr (c : Char) (p : Nat)
  | eqn (p o : Nat) (body : Str)

def chrItems : Nat → Str → List Item
  | _, [] => []
  | p, c :: cs => .chr c p :: chrItems (p + 1) cs

def itemsOf : Nat → List Seg → List Item
  | _, [] => []
  | p, .txt s :: rest => chrItems p s ++ itemsOf (p + s.length) rest
  | p, .disp body :: rest => .eqn p 2 body :: itemsOf (p + (body.length + 4)) rest
  | p, .env name body :: rest =>
    .eqn p (name.length + 8) body :: itemsOf (p + (2 * name.length + body.length + 14)) rest

/-- text and 0-based positions of the rendering of one equation whose opening command stands at `p`
    and whose body starts at `p + o`: two blanks at `p`, the placeholder `ph` at the first element
    character of the body, the closing punctuation mark at the first character of the body that is
    no white space -/
def eqnRef (T : PTables) (ops : List Str) (ph : Str) (p o : Nat) (body : Str) : Str × List Nat :=
  ([' ', ' '] ++ ph ++ punctOf T body,
   [p, p] ++ List.replicate ph.length (p + o + elemOff T ops body)
     ++ List.replicate (punctOf T body).length (p + o + leadBlanks body))

/-- the reference output (text, 0-based positions) for a list of items, `l` being the stored
    display collection -/
def refItems (T : PTables) (ops : List Str) : List Str → List Item → Str × List Nat
  | _, [] => ([], [])
  | l, .chr c p :: rest => (c :: (refItems T ops l rest).1, p :: (refItems T ops l rest).2)
  | l, .eqn p o body :: rest =>
    ((eqnRef T ops ((rotL l).headD []) p o body).1 ++ (refItems T ops (rotL l) rest).1,
     (eqnRef T ops ((rotL l).headD []) p o body).2 ++ (refItems T ops (rotL l) rest).2)

/-- number of equations -/
def nEqns : List Item → Nat
  | [] => 0
  | .chr .. :: rest => nEqns rest
  | .eqn .. :: rest => nEqns rest + 1

theorem nEqns_chrItems (items : List Item) : ∀ (s : Str) (p : Nat),
    nEqns (chrItems p s ++ items) = nEqns items
  | [], _ => rfl
  | c :: cs, p => by simp only [chrItems, List.cons_append, nEqns, nEqns_chrItems items cs (p + 1)]

theorem refItems_chrItems (T : PTables) (ops : List Str) (l : List Str) (items : List Item) :
    ∀ (s : Str) (p : Nat), refItems T ops l (chrItems p s ++ items)
      = (s ++ (refItems T ops l items).1, List.range' p s.length ++ (refItems T ops l items).2)
  | [], _ => rfl
  | c :: cs, p => by
    simp only [chrItems, List.cons_append, refItems, refItems_chrItems T ops l items cs (p + 1),
      List.length_cons, List.range'_succ]

/-- the same on the source text (which starts at position `p`) -/
inductive OkSrc (T : PTables) (st : PState) : Nat → Str → List Item → Prop
  | nil (p : Nat) : OkSrc T st p [] []
  | chr (p : Nat) (c : Char) (cs : Str) (items : List Item) :
      okAtD T st c cs = true → OkSrc T st (p + 1) cs items →
      OkSrc T st p (c :: cs) (.chr c p :: items)
  | disp (p : Nat) (body R : Str) (items : List Item) :
      dispOk T st body R = true → OkSrc T st (p + (body.length + 4)) R items →
      OkSrc T st p ('\\' :: '[' :: (body ++ '\\' :: ']' :: R)) (.eqn p 2 body :: items)
  | env (p : Nat) (name body R : Str) (items : List Item) :
      envOk T st name body R = true →
      OkSrc T st (p + (2 * name.length + body.length + 14)) R items →
      OkSrc T st p ('\\' :: (nBegin ++ '{' :: (name ++ '}' :: (body ++ endSrc name R))))
        (.eqn p (name.length + 8) body :: items)

theorem OkSrc_text (T : PTables) (st : PState) (R : Str) (items : List Item) :
    ∀ (s : Str) (p : Nat), OkSrc T st (p + s.length) R items → textOkD T st s R = true →
      OkSrc T st p (s ++ R) (chrItems p s ++ items)
  | [], _, hR, _ => hR
  | c :: cs, p, hR, h => by
    simp only [textOkD, Bool.and_eq_true] at h
    have hR' : OkSrc T st (p + 1 + cs.length) R items := by
      have e : p + 1 + cs.length = p + (c :: cs).length := by simp; omega
      rw [e]; exact hR
    exact OkSrc.chr p c (cs ++ R) _ h.1 (OkSrc_text T st R items cs (p + 1) hR' h.2)

theorem OkSrc_of_segsOk (T : PTables) (st : PState) :
    ∀ (segs : List Seg) (p : Nat), segsOk T st segs = true →
      OkSrc T st p (render segs) (itemsOf p segs)
  | [], p, _ => .nil p
  | .txt s :: rest, p, h => by
    simp only [segsOk, Bool.and_eq_true] at h
    exact OkSrc_text T st _ _ s p (OkSrc_of_segsOk T st rest _ h.2) h.1
  | .disp body :: rest, p, h => by
    simp only [segsOk, Bool.and_eq_true] at h
    have := OkSrc.disp p body (render rest) _ h.1 (OkSrc_of_segsOk T st rest _ h.2)
    simpa [render, Seg.render, itemsOf] using this
  | .env name body :: rest, p, h => by
    simp only [segsOk, Bool.and_eq_true] at h
    have := OkSrc.env p name body (render rest) _ h.1 (OkSrc_of_segsOk T st rest _ h.2)
    simpa [render, Seg.render, itemsOf, endSrc] using this

theorem inertChar_congr (T : PTables) (st st' : PState) (h : st'.langStack = st.langStack) (c : Char) :
    inertChar T st' c = inertChar T st c := by
  simp only [inertChar, activeChars_congr T st st' h]

/-- the conditions depend on the state only through the language stack, the operator list and the
    environment table -/
theorem OkSrc.congr {T : PTables} {st st' : PState} (hl : st'.langStack = st.langStack)
    (hm : st'.mathOperators = st.mathOperators) (he : st'.envs = st.envs)
    {p : Nat} {s : Str} {items : List Item}
    (h : OkSrc T st p s items) : OkSrc T st' p s items := by
  induction h with
  | nil p => exact .nil p
  | chr p c cs items hat _ ih =>
    refine .chr p c cs items ?_ ih
    rw [← hat]
    simp only [okAtD, activeChars_congr T st st' hl, shortKeys_congr T st st' hl]
  | disp p body R items hm' _ ih =>
    refine .disp p body R items ?_ ih
    rw [← hm']
    simp only [dispOk, hm, defEnvOk, lookupEnv, he]
  | env p name body R items hm' _ ih =>
    refine .env p name body R items ?_ ih
    rw [← hm']
    have hi : (name.all (inertChar T st')) = (name.all (inertChar T st)) := by
      congr 1; funext c; exact inertChar_congr T st st' hl c
    simp only [envOk, hm, hi, equEnvAt, lookupEnv, he, noEmptyActive_congr T st st' hl]

/-- white space in front can be dropped -/
theorem OkSrc_drop_space (T : PTables) (st : PState) :
    ∀ (k : Nat) (p : Nat) (s : Str) (items : List Item), k ≤ s.length → OkSrc T st p s items →
      (∀ x ∈ s.take k, isSpace x = true) →
      ∃ items', items = chrItems p (s.take k) ++ items' ∧ OkSrc T st (p + k) (s.drop k) items'
  | 0, _, _, items, _, h, _ => ⟨items, rfl, h⟩
  | k + 1, _, [], _, hk, _, _ => by simp at hk
  | k + 1, p, c :: cs, _, hk, h, hsp => by
    have hc : isSpace c = true := hsp c (by simp)
    cases h with
    | chr _ _ _ items0 _ h2 =>
      obtain ⟨items', e, h3⟩ := OkSrc_drop_space T st k (p + 1) cs items0 (by simpa using hk) h2
        (fun x hx => hsp x (by simp [hx]))
      refine ⟨items', by simp [chrItems, e], ?_⟩
      have e : p + (k + 1) = p + 1 + k := by omega
      rw [e]; exact h3
    | disp _ body R _ _ _ => exact absurd hc (by decide)
    | env _ name body R _ _ _ => exact absurd hc (by decide)

/-! ### the scanner -/

theorem okAtD_snd {T : PTables} {st : PState} {c : Char} {cs : Str} (h : okAtD T st c cs = true) :
    isSpace c = true ∨ (structuralChar c = false ∧ matchSpecial T.toTables (c :: cs) = none) := by
  simp only [okAtD, Bool.and_eq_true, Bool.or_eq_true] at h
  rcases h.2 with h | ⟨h1, h2⟩
  · exact Or.inl h
  · refine Or.inr ⟨by simpa using h1, ?_⟩
    cases hx : matchSpecial T.toTables (c :: cs) with
    | none => rfl
    | some _ => rw [hx] at h2; simp at h2

theorem firstTokTxtD_of_text (c : Char) (cs : Str) (h : isSpace c = true ∨ structuralChar c = false) :
    firstTokTxtD (c :: cs) = firstTokTxt (c :: cs) := by
  have hc : c ≠ '\\' := by
    intro e; subst e
    rcases h with h | h <;> exact absurd h (by decide)
  unfold firstTokTxtD
  rw [firstTokTxtM_of_text c cs h]
  simp [sOpen, startsWith, hc]

theorem nextToken_open (T : PTables) (src : Str) (pos : Nat) (rest : Str)
    (h : openAt T rest = true) :
    nextToken T.toTables src pos ('\\' :: '[' :: rest)
      = { tok := { kind := .special, pos := pos, txt := sOpen }, len := 2 } := by
  have hm : matchSpecial T.toTables ('\\' :: '[' :: rest) = some sOpen := by
    simpa [openAt] using h
  unfold nextToken
  simp only [show isSpace '\\' = false by decide, show ('\\' == '%') = false by decide,
    show ('\\' == '#') = false by decide, Bool.false_eq_true, if_false, hm]
  rfl

theorem nextToken_close (T : PTables) (src : Str) (pos : Nat) (R : Str)
    (h : closeAt T R = true) :
    ∃ k, (k = Kind.special ∨ k = Kind.xmacro ∨ k = Kind.accent) ∧
      nextToken T.toTables src pos ('\\' :: ']' :: R)
        = { tok := { kind := k, pos := pos, txt := sClose }, len := 2 } := by
  unfold closeAt at h
  unfold nextToken
  simp only [show isSpace '\\' = false by decide, show ('\\' == '%') = false by decide,
    show ('\\' == '#') = false by decide, Bool.false_eq_true, if_false]
  cases hm : matchSpecial T.toTables ('\\' :: ']' :: R) with
  | some t =>
    rw [hm] at h
    have : t = sClose := by simpa using h
    subst this
    exact ⟨.special, Or.inl rfl, rfl⟩
  | none =>
    have hlen : macroLen ('\\' :: ']' :: R) = 2 := by
      simp [macroLen, show macroChar ']' = false by decide]
    have htake : ('\\' :: ']' :: R).take 2 = sClose := rfl
    simp only [beq_self_eq_true, if_true, scanMacro, hlen, htake,
      show (sClose == sBegin) = false by decide, show (sClose == sEnd) = false by decide,
      show (sClose == sItem) = false by decide, show (sClose == sVerb) = false by decide,
      Bool.false_eq_true, if_false]
    split
    · exact ⟨.accent, Or.inr (Or.inr rfl), rfl⟩
    · exact ⟨.xmacro, Or.inr (Or.inl rfl), rfl⟩

/-! ### the scanner on the body of an equation -/

/-- the maths-relevant tokens of a body that starts at `p`: one text token per character that is no
    white space -/
def bodyToksOf : Nat → Str → List Tok
  | _, [] => []
  | p, c :: cs => if isSpace c then bodyToksOf (p + 1) cs else bodyTokAt p c :: bodyToksOf (p + 1) cs

theorem bodyToksOf_space : ∀ (w s : Str) (p : Nat), (∀ c ∈ w, isSpace c = true) →
    bodyToksOf p (w ++ s) = bodyToksOf (p + w.length) s
  | [], _, _, _ => rfl
  | c :: w, s, p, h => by
    simp only [List.cons_append, bodyToksOf, h c (by simp), if_true, List.length_cons]
    rw [bodyToksOf_space w s (p + 1) (fun d hd => h d (by simp [hd]))]
    congr 1; omega

theorem bodyTxt_bodyToksOf : ∀ (s : Str) (p : Nat),
    bodyTxt (bodyToksOf p s) = s.filter (fun c => !isSpace c)
  | [], _ => rfl
  | c :: cs, p => by
    have ih := bodyTxt_bodyToksOf cs (p + 1)
    simp only [bodyTxt] at ih ⊢
    by_cases h : isSpace c = true
    · simp [bodyToksOf, h, ih]
    · simp [bodyToksOf, h, ih, bodyTokAt]

theorem firstPos_bodyToksOf : ∀ (s : Str) (p : Nat), s.any (fun c => !isSpace c) = true →
    firstPos (bodyToksOf p s) = p + leadBlanks s
  | [], _, h => by simp at h
  | c :: cs, p, h => by
    by_cases hc : isSpace c = true
    · have h' : cs.any (fun c => !isSpace c) = true := by simpa [hc] using h
      simp only [bodyToksOf, hc, if_true, firstPos_bodyToksOf cs (p + 1) h', leadBlanks,
        List.takeWhile_cons, List.length_cons]
      omega
    · simp [bodyToksOf, hc, firstPos, bodyTokAt, leadBlanks]

theorem elemPos_bodyToksOf (T : PTables) (ops : List Str) : ∀ (s : Str) (p : Nat),
    s.any (elemChar T ops) = true →
    ∃ el, (bodyToksOf p s).find? (isElemSrc T ops) = some el ∧ el.pos = p + elemOff T ops s
  | [], _, h => by simp at h
  | c :: cs, p, h => by
    by_cases hc : isSpace c = true
    · have he : elemChar T ops c = false := by simp [elemChar, hc]
      have h' : cs.any (elemChar T ops) = true := by simpa [he] using h
      obtain ⟨el, h1, h2⟩ := elemPos_bodyToksOf T ops cs (p + 1) h'
      refine ⟨el, by simp only [bodyToksOf, hc, if_true, h1], ?_⟩
      simp only [h2, elemOff, List.takeWhile_cons, he, Bool.not_false, if_true, List.length_cons]
      omega
    · have hc' : isSpace c = false := by simpa using hc
      have hs : isElemSrc T ops (bodyTokAt p c) = elemChar T ops c := by
        simp [isElemSrc, elemChar, bodyTokAt, hc']
      by_cases he : elemChar T ops c = true
      · refine ⟨bodyTokAt p c, by simp [bodyToksOf, hc', hs, he], ?_⟩
        simp [elemOff, he, bodyTokAt]
      · have he' : elemChar T ops c = false := by simpa using he
        have h' : cs.any (elemChar T ops) = true := by simpa [he'] using h
        obtain ⟨el, h1, h2⟩ := elemPos_bodyToksOf T ops cs (p + 1) h'
        refine ⟨el, by simp [bodyToksOf, hc', hs, he', h1], ?_⟩
        simp only [h2, elemOff, List.takeWhile_cons, he', Bool.not_false, if_true, List.length_cons]
        omega

/-- what the scanner loop yields on an equation body that starts at `pos` -/
structure BodyRun (T : PTables) (pos : Nat) (s : Str) (steps : List ScanStep) : Prop where
  ok : ∀ x ∈ steps, x.diag = none ∧ x.extra = [] ∧ DItem T x.tok
  len : steps.length ≤ s.length
  toks : mathToks (steps.map (·.tok)) = bodyToksOf pos s

theorem dTok_bodyTokAt (T : PTables) (pos : Nat) (c : Char) (cs : Str) (h : MathAtFacts T c cs)
    (ha : c ≠ '&') : DTok T (bodyTokAt pos c) :=
  ⟨bodyTok_bodyTokAt T pos c cs h, by simp [bodyTokAt, ha]⟩

/-- the scanner loop runs through an equation body (which is followed by a character `x` that is
    no white space): one text token per character that is no white space, one space token per run of
    white space; every token costs one unit of fuel -/
theorem scanSteps_bodyrun (T : PTables) (src : Str) (x : Char) (R : Str) (hx : isSpace x = false) :
    ∀ (n : Nat) (s : Str) (pos fuel : Nat), s.length ≤ n → s.length ≤ fuel →
      bodyOk T s (x :: R) = true → s.all (fun c => c != '&') = true →
      ∃ steps, BodyRun T pos s steps ∧
        scanSteps T.toTables src fuel pos (s ++ x :: R)
          = (steps ++ (scanSteps T.toTables src (fuel - steps.length) (pos + s.length) (x :: R)).1,
             (scanSteps T.toTables src (fuel - steps.length) (pos + s.length) (x :: R)).2) := by
  intro n
  induction n with
  | zero =>
    intro s pos fuel hn _ _ _
    have : s = [] := by cases s <;> simp_all
    subst this
    exact ⟨[], ⟨by simp, by simp, rfl⟩, by simp⟩
  | succ n ih =>
    intro s pos fuel hn hf hok hamp
    cases s with
    | nil => exact ⟨[], ⟨by simp, by simp, rfl⟩, by simp⟩
    | cons c cs =>
      obtain ⟨f, rfl⟩ : ∃ f, fuel = f + 1 := ⟨fuel - 1, by simp at hf; omega⟩
      have hok0 := hok
      simp only [bodyOk, Bool.and_eq_true] at hok
      by_cases hsp : isSpace c = true
      · -- a run of white space
        simp only [hsp, if_true, decide_eq_true_eq] at hok
        have hwe : (c :: (cs ++ x :: R)).takeWhile isSpace = (c :: cs).takeWhile isSpace :=
          takeWhile_append_stop' isSpace x hx (c :: cs) R
        generalize hw : (c :: cs).takeWhile isSpace = w at hwe
        have hw' : w = c :: cs.takeWhile isSpace := by rw [← hw]; simp [hsp]
        have hall : ∀ d ∈ w, isSpace d = true := by
          intro d hd; rw [← hw] at hd; exact mem_takeWhile_imp _ _ _ hd
        have hsplit : w ++ (c :: cs).dropWhile isSpace = c :: cs := by
          rw [← hw]; exact List.takeWhile_append_dropWhile
        generalize hs' : (c :: cs).dropWhile isSpace = s' at hsplit
        have hlen : w.length + s'.length = cs.length + 1 := by
          rw [← List.length_append, hsplit]; rfl
        simp only [List.length_cons] at hn hf
        have hwpos : 1 ≤ w.length := by rw [hw']; simp
        have hnt : nextToken T.toTables src pos (c :: (cs ++ x :: R))
            = { tok := { kind := .space, pos := pos, txt := w }, len := w.length } := by
          have h1 : nextToken T.toTables src pos (c :: (cs ++ x :: R))
              = scanSpace pos (c :: (cs ++ x :: R)) := by simp [nextToken, hsp]
          rw [h1]
          simp only [scanSpace, hwe]
          rw [hwe] at hok
          simp [hok.1]
        have hdrop : (c :: (cs ++ x :: R)).drop w.length = s' ++ x :: R := by
          have : c :: (cs ++ x :: R) = w ++ (s' ++ x :: R) := by
            rw [← List.append_assoc, hsplit]; rfl
          rw [this, List.drop_left]
        have hoks' : bodyOk T s' (x :: R) = true := by
          have := bodyOk_drop T (x :: R) w.length (c :: cs) hok0
          rw [← hsplit, List.drop_left] at this
          exact this
        have hamp' : s'.all (fun c => c != '&') = true := by
          rw [← hsplit, List.all_append, Bool.and_eq_true] at hamp
          exact hamp.2
        obtain ⟨steps', B, hsc⟩ := ih s' (pos + w.length) f (by omega) (by omega) hoks' hamp'
        refine ⟨{ tok := { kind := .space, pos := pos, txt := w }, len := w.length } :: steps', ?_, ?_⟩
        · refine ⟨?_, ?_, ?_⟩
          · intro y hy
            rcases List.mem_cons.mp hy with rfl | hy
            · exact ⟨rfl, rfl, Or.inr rfl⟩
            · exact B.ok y hy
          · have := B.len
            simp only [List.length_cons] at ⊢
            omega
          · rw [List.map_cons, mathToks_cons_space _ _ rfl, B.toks, ← hsplit,
              bodyToksOf_space w s' pos hall]
        · show scanSteps T.toTables src (f + 1) pos (c :: (cs ++ x :: R)) = _
          simp only [scanSteps, hnt]
          rw [if_neg (by rw [hw']; simp), hdrop, hsc]
          simp only [List.cons_append, List.length_cons]
          have e1 : pos + w.length + s'.length = pos + (cs.length + 1) := by omega
          have e2 : f + 1 - (steps'.length + 1) = f - steps'.length := by omega
          rw [e1, e2]
      · -- a body character
        have hsp' : isSpace c = false := by simpa using hsp
        simp only [hsp', Bool.false_eq_true, if_false] at hok
        have facts := mathAtFacts hok.1
        have hnt := nextToken_body T src pos c (cs ++ x :: R) facts
        simp only [List.all_cons, Bool.and_eq_true, bne_iff_ne, ne_eq] at hamp
        obtain ⟨steps', B, hsc⟩ := ih cs (pos + 1) f (by simp at hn; omega) (by simp at hf; omega) hok.2
          (by simpa using hamp.2)
        have hbt := dTok_bodyTokAt T pos c _ facts hamp.1
        refine ⟨{ tok := bodyTokAt pos c, len := 1 } :: steps', ?_, ?_⟩
        · refine ⟨?_, ?_, ?_⟩
          · intro y hy
            rcases List.mem_cons.mp hy with rfl | hy
            · exact ⟨rfl, rfl, Or.inl hbt⟩
            · exact B.ok y hy
          · have := B.len
            simp only [List.length_cons]
            omega
          · rw [List.map_cons, mathToks_cons_body T _ _ hbt.body, B.toks]
            simp [bodyToksOf, hsp']
        · show scanSteps T.toTables src (f + 1) pos (c :: (cs ++ x :: R)) = _
          simp only [scanSteps, hnt]
          rw [if_neg (by simp)]
          simp only [List.drop_succ_cons, List.drop_zero]
          rw [hsc]
          simp only [List.cons_append, List.length_cons]
          have e1 : pos + 1 + cs.length = pos + (cs.length + 1) := by omega
          have e2 : f + 1 - (steps'.length + 1) = f - steps'.length := by omega
          rw [e1, e2]

/-! ### the scanner on a well-formed source -/

theorem getTxtPos_dispOut (T : PTables) (ph : Str) (p q1 q2 : Nat) (s : Str) (rest : List Tok) :
    getTxtPos (dispOut T ph p q1 q2 s ++ rest)
      = (([' ', ' '] ++ ph ++ (punctChar T s).toList) ++ (getTxtPos rest).1,
         ([p, p] ++ List.replicate ph.length q1 ++ List.replicate (punctChar T s).toList.length q2)
           ++ (getTxtPos rest).2) := by
  unfold dispOut partOut
  cases punctChar T s <;>
    simp [getTxtPos, tokPositions, mkAction, mkFix, List.append_assoc]

theorem getTxtPos_action_cons (p : Nat) (ts : List Tok) : getTxtPos (mkAction p :: ts) = getTxtPos ts := by
  simp [getTxtPos, tokPositions, mkAction]

structure EnvFacts (T : PTables) (st : PState) (name body R : Str) : Prop where
  nea : noEmptyActive T st = true
  special : matchSpecial T.toTables ('\\' :: (nBegin ++ '{' :: (name ++ '}' :: (body ++ endSrc name R)))) = none
  noverb : startsWith ('{' :: (name ++ '}' :: (body ++ endSrc name R))) sVerbatimArg = false
  b1 : braceAt T '{' (name ++ '}' :: (body ++ endSrc name R)) = true
  ne : name ≠ []
  inert : ∀ c ∈ name, inertChar T st c = true
  b2 : braceAt T '}' (body ++ endSrc name R) = true
  env : equEnvAt st name = true
  bok : bodyOk T body ('\\' :: (nEnd ++ '{' :: (name ++ '}' :: R))) = true
  amp : body.all (fun c => c != '&') = true
  elem : body.any (elemChar T st.mathOperators) = true
  special2 : matchSpecial T.toTables ('\\' :: (nEnd ++ '{' :: (name ++ '}' :: R))) = none
  b3 : braceAt T '{' (name ++ '}' :: R) = true
  b4 : braceAt T '}' R = true
  n1 : name ≠ "$".toList
  n2 : name ≠ "\\(".toList

theorem envFacts {T : PTables} {st : PState} {name body R : Str} (h : envOk T st name body R = true) :
    EnvFacts T st name body R := by
  simp only [envOk, Bool.and_eq_true, Bool.not_eq_true', Option.isNone_iff_eq_none,
    List.all_eq_true] at h
  obtain ⟨⟨⟨⟨⟨⟨⟨⟨⟨⟨⟨⟨⟨h0, h1⟩, h2⟩, h3⟩, h4⟩, h5⟩, h6⟩, h7⟩, h8⟩, h9⟩, h10⟩, h11⟩, h12⟩, h13⟩ := h
  have hne : name ≠ [] := by simpa using h4
  refine ⟨h0, h1, h2, h3, hne, h5, h6, h7, h8, by simpa using h9, h10, h11, h12, h13, ?_, ?_⟩
  · intro e
    have := h5 '$' (by rw [e]; simp)
    simp [inertChar, structuralChar, isSpace] at this
  · intro e
    have := h5 '\\' (by rw [e]; simp)
    simp [inertChar, structuralChar, isSpace] at this

/-- what the scanner loop yields on a well-formed source -/
structure ScanFacts (T : PTables) (st : PState) (rest : Str) (items : List Item)
    (steps : List ScanStep) : Prop where
  ok : ∀ s ∈ steps, s.diag = none ∧ s.extra = []
  pieces : ∃ ps, steps.map (·.tok) = flat ps ∧ PiecesOk T st ps ∧
    (∀ l, getTxtPos (outD T st.mathOperators l ps) = refItems T st.mathOperators l items) ∧
    nDisp ps = nEqns items ∧ cost ps ≤ rest.length
  first : ∀ s ss, steps = s :: ss → s.tok.txt = firstTokTxtD rest
  len : steps.length ≤ rest.length

theorem scanSteps_disp (T : PTables) (st : PState) (src : Str) :
    ∀ (n fuel pos : Nat) (rest : Str) (items : List Item),
    rest.length ≤ n → rest.length ≤ fuel → OkSrc T st pos rest items →
    (scanSteps T.toTables src fuel pos rest).2 = true ∧
    ScanFacts T st rest items (scanSteps T.toTables src fuel pos rest).1 := by
  intro n
  induction n with
  | zero =>
    intro fuel pos rest items hn _ hok
    cases rest with
    | nil =>
      cases hok
      exact ⟨by simp [scanSteps], by simp [scanSteps], ⟨[], by simp [scanSteps, flat], trivial,
        fun l => rfl, rfl, by simp [cost]⟩, by simp [scanSteps], by simp [scanSteps]⟩
    | cons c cs => simp at hn
  | succ n ih =>
    intro fuel pos rest items hn hf hok
    cases rest with
    | nil =>
      cases hok
      exact ⟨by simp [scanSteps], by simp [scanSteps], ⟨[], by simp [scanSteps, flat], trivial,
        fun l => rfl, rfl, by simp [cost]⟩, by simp [scanSteps], by simp [scanSteps]⟩
    | cons c cs =>
      obtain ⟨fuel, rfl⟩ : ∃ f, fuel = f + 1 := ⟨fuel - 1, by simp at hf; omega⟩
      have hok0 := hok
      cases hok with
      | chr _ _ _ items' hat hsub0 =>
        have hsnd := okAtD_snd hat
        obtain ⟨hp, hone⟩ := nextToken_text T src pos c cs hsnd
        generalize hs : nextToken T.toTables src pos (c :: cs) = s at hp hone
        have h1 := hp.len_pos
        have h2 := hp.len_le
        have hsub : ∃ items1, Item.chr c pos :: items' = chrItems pos ((c :: cs).take s.len) ++ items1 ∧
            OkSrc T st (pos + s.len) ((c :: cs).drop s.len) items1 := by
          by_cases hsp : isSpace c = true
          · refine OkSrc_drop_space T st s.len pos (c :: cs) _ h2 hok0 ?_
            intro x hx
            rw [← hp.txt, hp.first] at hx
            simp only [firstTokTxt, hsp, if_true] at hx
            exact mem_takeWhile_imp _ _ _ hx
          · have := (hone (by simpa using hsp)).1
            rw [this]
            exact ⟨items', rfl, hsub0⟩
        obtain ⟨items1, hitems1, hsub⟩ := hsub
        simp only [scanSteps, hs]
        rw [if_neg (by simp; omega)]
        have hl : ((c :: cs).drop s.len).length ≤ fuel := by
          simp only [List.length_drop]; simp only [List.length_cons] at hf h2 ⊢; omega
        have hl' : ((c :: cs).drop s.len).length ≤ n := by
          simp only [List.length_drop]; simp only [List.length_cons] at hn h2 ⊢; omega
        obtain ⟨i1, I⟩ := ih fuel (pos + s.len) ((c :: cs).drop s.len) items1 hl' hl hsub
        obtain ⟨ps', hflat, hpok, hout, hnm, hcost⟩ := I.pieces
        refine ⟨i1, ?_, ?_, ?_, ?_⟩
        · intro x hx
          rcases List.mem_cons.mp hx with rfl | hx
          · exact ⟨hp.diag, hp.extra⟩
          · exact I.ok x hx
        · refine ⟨.tok s.tok :: ps', by simp [flat, Piece.toks, hflat], ⟨hp.tok, ?_, ?_, hpok⟩, ?_,
            by rw [hitems1, nEqns_chrItems]; exact hnm, ?_⟩
          · -- the short-macro branch
            rw [← hflat]
            have hact := hat
            simp only [okAtD, Bool.and_eq_true, Bool.or_eq_true, Bool.not_eq_true'] at hact
            rcases hact.1 with hna | ⟨hns, hk⟩
            · left
              have : s.tok.txt = c :: (cs.take (s.len - 1)) := by
                rw [hp.txt]
                obtain ⟨k, hk⟩ : ∃ k, s.len = k + 1 := ⟨s.len - 1, by omega⟩
                rw [hk]; simp
              rw [this]
              exact not_active_cons T st c _ hna
            · right
              have hlen := (hone hns).1
              have htxt : s.tok.txt = [c] := by rw [hp.txt, hlen]; rfl
              have i4 := I.first
              rw [hlen] at i4 ⊢
              simp only [List.drop_succ_cons, List.drop_zero] at i4 ⊢
              cases hr : (scanSteps T.toTables src fuel (pos + 1) cs).1 with
              | nil => rfl
              | cons s2 ss =>
                simp only [List.map_cons]
                apply expandShortMacro_none
                rw [htxt, i4 s2 ss hr]
                rcases hk with hk | hk
                · cases cs with
                  | nil => cases fuel <;> simp [scanSteps] at hr
                  | cons => simp at hk
                · simpa using hk
          · -- the shape of the token
            refine ⟨?_, ?_⟩
            · rw [hp.txt]
              intro h0
              have := congrArg List.length h0
              simp only [List.length_take, List.length_nil] at this
              omega
            · by_cases hsp : isSpace c = true
              · right
                refine ⟨?_, ?_⟩
                · have hk := hp.tok.kind
                  have hs' : s = scanSpace pos (c :: cs) := by
                    rw [← hs]; simp [nextToken, hsp]
                  rw [hs']
                  simp only [scanSpace]; split
                  · exact Or.inl rfl
                  · exact Or.inr rfl
                · rw [hp.first]
                  simp only [firstTokTxt, hsp, if_true, isBlank, List.all_eq_true]
                  exact fun x hx => mem_takeWhile_imp _ _ _ hx
              · left
                have hsp' : isSpace c = false := by simpa using hsp
                have := hone hsp'
                refine ⟨this.2, ?_⟩
                rw [hp.txt, this.1]
                exact hasNl_single c hsp'
          · intro l
            rw [hitems1, refItems_chrItems]
            simp only [outD]
            rw [getTxtPos_cons_plain _ _ hp.fix, hout l, hp.pos, hp.txt]
          · simp only [cost, List.length_drop, List.length_cons] at hcost h2 ⊢
            omega
        · intro s' ss' he
          simp only [List.cons.injEq] at he
          rw [← he.1, hp.first]
          refine (firstTokTxtD_of_text c cs ?_).symm
          rcases hsnd with h | h
          · exact Or.inl h
          · exact Or.inr h.1
        · have := I.len
          simp only [List.length_cons, List.length_drop] at this h2 ⊢
          omega
      | disp _ body R items' hm hsub =>
        simp only [dispOk, Bool.and_eq_true] at hm
        obtain ⟨⟨⟨⟨⟨hdef, hopen⟩, hbody⟩, hamp⟩, helem⟩, hclose⟩ := hm
        have hn1 := nextToken_open T src pos (body ++ '\\' :: ']' :: R) hopen
        obtain ⟨k2, hk2, hn2⟩ := nextToken_close T src (pos + 2 + body.length) R hclose
        simp only [List.length_cons, List.length_append] at hf hn
        obtain ⟨bsteps, B, hrun⟩ := scanSteps_bodyrun T src '\\' (']' :: R) (by decide) body.length body
          (pos + 2) fuel (Nat.le_refl _) (by omega) hbody hamp
        have hBl := B.len
        obtain ⟨g, hg⟩ : ∃ g, fuel - bsteps.length = g + 1 := ⟨fuel - bsteps.length - 1, by omega⟩
        have hRn : R.length ≤ n := by omega
        have hRg : R.length ≤ g := by omega
        obtain ⟨i1, I⟩ := ih g (pos + (body.length + 4)) R items' hRn hRg hsub
        obtain ⟨ps', hflat, hpok, hout, hnm, hcost⟩ := I.pieces
        have hpos2 : pos + 2 + body.length + 2 = pos + (body.length + 4) := by omega
        have hsteps : scanSteps T.toTables src (fuel + 1) pos ('\\' :: '[' :: (body ++ '\\' :: ']' :: R))
            = ({ tok := { kind := .special, pos := pos, txt := sOpen }, len := 2 } ::
                (bsteps ++
                  { tok := { kind := k2, pos := pos + 2 + body.length, txt := sClose }, len := 2 } ::
                  (scanSteps T.toTables src g (pos + (body.length + 4)) R).1),
               (scanSteps T.toTables src g (pos + (body.length + 4)) R).2) := by
          simp only [scanSteps, hn1]
          rw [if_neg (by simp)]
          simp only [List.drop_succ_cons, List.drop_zero]
          rw [hrun, hg]
          simp only [scanSteps, hn2]
          rw [if_neg (by simp)]
          simp only [List.drop_succ_cons, List.drop_zero, hpos2]
        rw [hsteps]
        obtain ⟨el, hel1, hel2⟩ := elemPos_bodyToksOf T st.mathOperators body (pos + 2) helem
        have hbne : body.any (fun c => !isSpace c) = true := by
          obtain ⟨c, hc, hcs⟩ := List.any_eq_true.mp helem
          refine List.any_eq_true.mpr ⟨c, hc, ?_⟩
          simp only [elemChar, Bool.and_eq_true] at hcs
          exact hcs.1.1
        refine ⟨i1, ?_, ?_, ?_, ?_⟩
        · intro x hx
          simp only [List.mem_cons, List.mem_append] at hx
          rcases hx with rfl | hx | rfl | hx
          · exact ⟨rfl, rfl⟩
          · exact ⟨(B.ok x hx).1, (B.ok x hx).2.1⟩
          · exact ⟨rfl, rfl⟩
          · exact I.ok x hx
        · refine ⟨.disp { kind := .special, pos := pos, txt := sOpen } (bsteps.map (·.tok))
              { kind := k2, pos := pos + 2 + body.length, txt := sClose } :: ps', ?_, ?_, ?_,
              by simp only [nDisp, nEqns, hnm], ?_⟩
          · simp [flat, Piece.toks, hflat]
          · refine ⟨hdef, ⟨rfl, rfl⟩, ?_, ?_, ⟨hk2, rfl⟩, hpok⟩
            · unfold HasElem
              rw [B.toks, hel1]; rfl
            · intro t ht
              obtain ⟨x, hx, rfl⟩ := List.mem_map.mp ht
              exact (B.ok x hx).2.2
          · intro l
            simp only [outD, refItems, eqnRef]
            rw [getTxtPos_dispOut, hout (rotL l)]
            simp only [elemPos, B.toks, hel1, Option.map_some, Option.getD_some, hel2,
              bodyTxt_bodyToksOf, firstPos_bodyToksOf body (pos + 2) hbne, punctOf]
          · simp only [cost, List.length_map, List.length_cons, List.length_append]
            omega
        · intro s' ss' he
          simp only [List.cons.injEq] at he
          rw [← he.1]
          simp [firstTokTxtD, sOpen, startsWith]
        · have := I.len
          simp only [List.length_cons, List.length_append] at this ⊢
          omega
      | env _ name body R items' hm hsub =>
        have D := envFacts hm
        have hname := List.length_pos_iff.mpr D.ne
        simp only [endSrc, List.length_cons, List.length_append, nBegin, nEnd] at hf hn
        obtain ⟨g1, hg1⟩ : ∃ g, fuel = g + 1 := ⟨fuel - 1, by omega⟩
        have hn1 := nextToken_begin T src pos _ D.special D.noverb
        have hn2 := nextToken_brace T src (pos + 6) '{' _ (Or.inl rfl) D.b1
        obtain ⟨s1, B1, hrun1⟩ := PlainMacro.scanSteps_body T st src (body ++ endSrc name R) name.length
          name (pos + 6 + 1) g1 (Nat.le_refl _) (by omega) D.inert
        have hB1 := B1.len
        obtain ⟨g2, hg2⟩ : ∃ g, g1 - s1.length = g + 1 := ⟨g1 - s1.length - 1, by omega⟩
        have hn3 := nextToken_brace T src (pos + 6 + 1 + name.length) '}' _ (Or.inr rfl) D.b2
        obtain ⟨bsteps, B, hrun⟩ := scanSteps_bodyrun T src '\\' (nEnd ++ '{' :: (name ++ '}' :: R))
          (by decide) body.length body (pos + 6 + 1 + name.length + 1) g2 (Nat.le_refl _) (by omega)
          D.bok D.amp
        have hBl := B.len
        obtain ⟨g3, hg3⟩ : ∃ g, g2 - bsteps.length = g + 1 := ⟨g2 - bsteps.length - 1, by omega⟩
        have hn4 := nextToken_end T src (pos + 6 + 1 + name.length + 1 + body.length) _ D.special2
        obtain ⟨g4, hg4⟩ : ∃ g, g3 = g + 1 := ⟨g3 - 1, by omega⟩
        have hn5 := nextToken_brace T src (pos + 6 + 1 + name.length + 1 + body.length + 4) '{' _
          (Or.inl rfl) D.b3
        obtain ⟨s2, B2, hrun2⟩ := PlainMacro.scanSteps_body T st src R name.length
          name (pos + 6 + 1 + name.length + 1 + body.length + 4 + 1) g4 (Nat.le_refl _) (by omega) D.inert
        have hB2 := B2.len
        obtain ⟨g5, hg5⟩ : ∃ g, g4 - s2.length = g + 1 := ⟨g4 - s2.length - 1, by omega⟩
        have hn6 := nextToken_brace T src (pos + 6 + 1 + name.length + 1 + body.length + 4 + 1 + name.length)
          '}' R (Or.inr rfl) D.b4
        have hpos : pos + 6 + 1 + name.length + 1 + body.length + 4 + 1 + name.length + 1
            = pos + (2 * name.length + body.length + 14) := by omega
        obtain ⟨i1, I⟩ := ih g5 (pos + (2 * name.length + body.length + 14)) R items' (by omega)
          (by omega) hsub
        obtain ⟨ps', hflat, hpok, hout, hnm, hcost⟩ := I.pieces
        have hsteps : scanSteps T.toTables src (fuel + 1) pos
              ('\\' :: (nBegin ++ '{' :: (name ++ '}' :: (body ++ endSrc name R))))
            = ({ tok := begTok pos, len := 6 } ::
               { tok := { kind := .special, pos := pos + 6, txt := ['{'] }, len := 1 } ::
               (s1 ++
                 { tok := { kind := .special, pos := pos + 6 + 1 + name.length, txt := ['}'] }, len := 1 } ::
                 (bsteps ++
                   { tok := endTok (pos + 6 + 1 + name.length + 1 + body.length), len := 4 } ::
                   { tok := { kind := .special, pos := pos + 6 + 1 + name.length + 1 + body.length + 4,
                              txt := ['{'] }, len := 1 } ::
                   (s2 ++
                     { tok := { kind := .special,
                                pos := pos + 6 + 1 + name.length + 1 + body.length + 4 + 1 + name.length,
                                txt := ['}'] }, len := 1 } ::
                     (scanSteps T.toTables src g5 (pos + (2 * name.length + body.length + 14)) R).1))),
               (scanSteps T.toTables src g5 (pos + (2 * name.length + body.length + 14)) R).2) := by
          rw [scanSteps_step T.toTables src fuel pos _ _ _ hn1 (by simp),
            show ('\\' :: (nBegin ++ '{' :: (name ++ '}' :: (body ++ endSrc name R)))).drop 6
              = '{' :: (name ++ '}' :: (body ++ endSrc name R)) from rfl]
          simp only []
          rw [hg1, scanSteps_step T.toTables src g1 (pos + 6) _ _ _ hn2 (by simp)]
          simp only [List.drop_succ_cons, List.drop_zero]
          rw [hrun1, hg2, scanSteps_step T.toTables src g2 _ _ _ _ hn3 (by simp)]
          simp only [List.drop_succ_cons, List.drop_zero]
          rw [show endSrc name R = '\\' :: (nEnd ++ '{' :: (name ++ '}' :: R)) from rfl, hrun, hg3,
            scanSteps_step T.toTables src g3 _ _ _ _ hn4 (by simp),
            show ('\\' :: (nEnd ++ '{' :: (name ++ '}' :: R))).drop 4 = '{' :: (name ++ '}' :: R) from rfl]
          simp only []
          rw [hg4, scanSteps_step T.toTables src g4 _ _ _ _ hn5 (by simp)]
          simp only [List.drop_succ_cons, List.drop_zero]
          rw [hrun2, hg5, scanSteps_step T.toTables src g5 _ _ _ _ hn6 (by simp)]
          simp only [List.drop_succ_cons, List.drop_zero, hpos]
        rw [hsteps]
        obtain ⟨el, hel1, hel2⟩ := elemPos_bodyToksOf T st.mathOperators body
          (pos + 6 + 1 + name.length + 1) D.elem
        have hbne : body.any (fun c => !isSpace c) = true := by
          obtain ⟨c, hc, hcs⟩ := List.any_eq_true.mp D.elem
          refine List.any_eq_true.mpr ⟨c, hc, ?_⟩
          simp only [elemChar, Bool.and_eq_true] at hcs
          exact hcs.1.1
        have hbt1 : PlainMacro.bodyTxt (s1.map (·.tok)) = name := B1.txt
        have hbt2 : PlainMacro.bodyTxt (s2.map (·.tok)) = name := B2.txt
        refine ⟨i1, ?_, ?_, ?_, ?_⟩
        · intro x hx
          simp only [List.mem_cons, List.mem_append] at hx
          rcases hx with rfl | rfl | hx | rfl | hx | rfl | rfl | hx | rfl | hx
          · exact ⟨rfl, rfl⟩
          · exact ⟨rfl, rfl⟩
          · exact ⟨(B1.ok x hx).1, (B1.ok x hx).2.1⟩
          · exact ⟨rfl, rfl⟩
          · exact ⟨(B.ok x hx).1, (B.ok x hx).2.1⟩
          · exact ⟨rfl, rfl⟩
          · exact ⟨rfl, rfl⟩
          · exact ⟨(B2.ok x hx).1, (B2.ok x hx).2.1⟩
          · exact ⟨rfl, rfl⟩
          · exact I.ok x hx
        · refine ⟨.env pos (pos + 6) (pos + 6 + 1 + name.length) (s1.map (·.tok)) (bsteps.map (·.tok))
              (pos + 6 + 1 + name.length + 1 + body.length)
              (pos + 6 + 1 + name.length + 1 + body.length + 4)
              (pos + 6 + 1 + name.length + 1 + body.length + 4 + 1 + name.length) (s2.map (·.tok)) :: ps',
              ?_, ?_, ?_, by simp only [nDisp, nEqns, hnm], ?_⟩
          · simp [flat, Piece.toks, hflat, lbr, rbr]
          · refine ⟨D.nea, nameToks_of_bodyRun B1 D.ne, nameToks_of_bodyRun B2 D.ne, by rw [hbt1, hbt2],
              by rw [hbt1]; exact D.env, by rw [hbt1]; exact D.n1, by rw [hbt1]; exact D.n2, ?_, ?_, hpok⟩
            · unfold HasElem
              rw [B.toks, hel1]; rfl
            · intro t ht
              obtain ⟨x, hx, rfl⟩ := List.mem_map.mp ht
              exact (B.ok x hx).2.2
          · intro l
            simp only [outD, refItems, eqnRef]
            rw [getTxtPos_action_cons, getTxtPos_action_cons, getTxtPos_dispOut, hout (rotL l)]
            simp only [elemPos, B.toks, hel1, Option.map_some, Option.getD_some, hel2,
              bodyTxt_bodyToksOf, firstPos_bodyToksOf body _ hbne, punctOf]
            have e1 : pos + 6 + 1 + name.length + 1 = pos + (name.length + 8) := by omega
            rw [e1]
          · simp only [cost, List.length_map, endSrc, List.length_cons, List.length_append, nBegin, nEnd]
            omega
        · intro s' ss' he
          simp only [List.cons.injEq] at he
          rw [← he.1]
          have htw : (nBegin ++ '{' :: (name ++ '}' :: (body ++ endSrc name R))).takeWhile macroChar
              = nBegin := takeWhile_append_stop _ _ _ (by decide) rfl
          simp [firstTokTxtD, sOpen, startsWith, nBegin, firstTokTxtM, begTok,
            show sBegin = ['\\', 'b', 'e', 'g', 'i', 'n'] from rfl, macroChar, isSpace]
        · have := I.len
          simp only [List.length_cons, List.length_append, endSrc, nBegin, nEnd] at this ⊢
          omega

theorem PiecesOk.notComment {T : PTables} {st : PState} : ∀ {ps : List Piece}, PiecesOk T st ps →
    ∀ t ∈ flat ps, t.kind ≠ .comment
  | [], _, _, h => by simp [flat] at h
  | .tok t :: rest, hok, x, hx => by
    simp only [flat, Piece.toks, List.singleton_append, List.mem_cons] at hx
    rcases hx with rfl | hx
    · exact hok.1.notComment
    · exact PiecesOk.notComment hok.2.2.2 x hx
  | .disp d1 b d2 :: rest, hok, x, hx => by
    obtain ⟨_, h1, _, hb, h2, hrest⟩ := hok
    simp only [flat, Piece.toks, List.cons_append, List.append_assoc, List.mem_cons,
      List.mem_append, List.nil_append] at hx
    rcases hx with rfl | hx | rfl | hx
    · rw [h1.kind]; simp
    · rcases hb x hx with k | k
      · rw [k.body.kind]; simp
      · rw [k]; simp
    · rcases h2.kind with k | k | k <;> simp [k]
    · exact PiecesOk.notComment hrest x hx
  | .env p q1 q2 nt b p' q1' q2' nt' :: rest, hok, x, hx => by
    obtain ⟨_, h1, h2, _, _, _, _, _, hb, hrest⟩ := hok
    simp only [flat, Piece.toks, List.cons_append, List.append_assoc, List.mem_cons,
      List.mem_append, List.nil_append] at hx
    rcases hx with rfl | rfl | hx | rfl | hx | rfl | rfl | hx | rfl | hx
    · simp [begTok]
    · simp [lbr]
    · exact (h1.2 x hx).1.notComment
    · simp [rbr]
    · rcases hb x hx with k | k
      · rw [k.body.kind]; simp
      · rw [k]; simp
    · simp [endTok]
    · simp [lbr]
    · exact (h2.2 x hx).1.notComment
    · simp [rbr]
    · exact PiecesOk.notComment hrest x hx

/-- `scan` on a well-formed source: no diagnostics; the token buffer consists of plain tokens and
    simple equations; what the expander loop emits for it spells the reference output -/
theorem scan_disp (T : PTables) (st : PState) (src : Str) (items : List Item)
    (h : OkSrc T st 0 src items) :
    (scan T.toTables src).diags = [] ∧
    ∃ ps, (scan T.toTables src).toks = flat ps ∧ PiecesOk T st ps ∧
      (∀ l, getTxtPos (outD T st.mathOperators l ps) = refItems T st.mathOperators l items) ∧
      nDisp ps = nEqns items ∧ cost ps ≤ src.length := by
  obtain ⟨_, F⟩ := scanSteps_disp T st src src.length src.length 0 src items (Nat.le_refl _)
    (Nat.le_refl _) h
  have he := flatten_tok_extra (scanSteps T.toTables src src.length 0 src).1 (fun s hs => (F.ok s hs).2)
  have hd := flatten_diag_nil (scanSteps T.toTables src src.length 0 src).1 (fun s hs => (F.ok s hs).1)
  obtain ⟨ps, h1, h2, h3, h4, h5⟩ := F.pieces
  simp only [scan]
  rw [he, hd]
  exact ⟨rfl, ps, h1, h2, h3, h4, h5⟩

/-! ### `parserWork`, `parse`, `tex2txt` -/

/-- **C11 on `parserWork`.** -/
theorem parserWork_disp (T : PTables) (st : PState) (src : Str) (fuel : Nat) (items : List Item)
    (rot : Rot) (ls : LangSettings)
    (hf : src.length + 2 ≤ fuel) (h : OkSrc T st 0 src items) (hst : st.displayedSimple = false)
    (hrot : rotOf st (curSettings st) = some rot) (hne : rot.disp ≠ []) (hvis : VisibleRepls rot.disp)
    (hls : settingsOf T (curSettings st) = some ls) :
    ∃ toks rots', parserWork T fuel src st = .ok (toks, { st with rots := rots' }) ∧
      getTxtPos toks = refItems T st.mathOperators rot.disp items ∧
      rotOf { st with rots := rots' } (curSettings st)
        = some { rot with disp := rotN (nEqns items) rot.disp } := by
  obtain ⟨f, rfl⟩ : ∃ f, fuel = f + 1 := ⟨fuel - 1, by omega⟩
  obtain ⟨hd, ps, hflat, hpok, hout, hnm, hlen⟩ := scan_disp T st src items h
  have hpok' : PiecesOk T { st with latex := src, nest := st.nest + 1 } ps :=
    PiecesOk.congr (st := st) (st' := { st with latex := src, nest := st.nest + 1 }) rfl rfl rfl hpok
  obtain ⟨st', h1, h2, h3⟩ := seq_disp T none ls ps f []
    { st with latex := src, nest := st.nest + 1 } rot (by omega) hpok' hrot hne hls hst
  rw [List.nil_append, removeLines_outD T _ _ ps rot.disp hpok' hvis hne] at h1
  simp only [] at h1
  refine ⟨(outD T st.mathOperators rot.disp ps).filter keepOut, st'.rots, ?_, ?_, ?_⟩
  · rw [parserWork.eq_2]
    refine (M.bind_ok _ _ _ _ _ (rfl : M.get st = _)).trans ?_
    refine (M.bind_ok _ _ _ _ _ (rfl : M.modify _ _ = _)).trans ?_
    refine (M.bind_ok _ _ _ _ _ (rfl : M.modify _ _ = _)).trans ?_
    refine (M.bind_ok _ _ _ _ _ (rfl : M.get _ = _)).trans ?_
    simp only [hd, List.append_nil]
    rw [skipPass_nocomment _ _ _ (fun t ht' => hpok.notComment t (by rw [← hflat]; exact ht'))]
    simp only []
    refine (M.bind_ok _ _ _ _ _ (rfl : (pure _ : M (List Tok)) _ = _)).trans ?_
    rw [hflat]
    refine (M.bind_ok _ _ _ _ _ h1).trans ?_
    refine (M.bind_ok _ _ _ _ _ (rfl : M.modify _ _ = _)).trans ?_
    show Outcome.ok _ = _
    rw [h2]
    simp only [Nat.add_sub_cancel]
  · rw [getTxtPos_filter_keepOut, hout]
  · rw [← hnm, ← h3, h2]
    rfl

theorem parse_disp (T : PTables) (st : PState) (src : Str) (fuel : Nat) (items : List Item)
    (rot : Rot) (ls : LangSettings)
    (hf : src.length + 2 ≤ fuel) (h : OkSrc T st 0 src items) (hst : st.displayedSimple = false)
    (hrot : rotOf st (curSettings st) = some rot) (hne : rot.disp ≠ []) (hvis : VisibleRepls rot.disp)
    (hls : settingsOf T (curSettings st) = some ls) :
    ∃ toks rots', parse T fuel src [] [] st
        = .ok (toks, { st with extracted := [], unknowns := [], foreign := false, nest := 0,
                               rots := rots' }) ∧
      getTxtPos toks = refItems T st.mathOperators rot.disp items := by
  have h' : OkSrc T { st with extracted := [], unknowns := [], foreign := false, nest := 0 } 0 src items :=
    OkSrc.congr (st := st)
      (st' := { st with extracted := [], unknowns := [], foreign := false, nest := 0 }) rfl rfl rfl h
  obtain ⟨toks, rots', hw, ht, _⟩ := parserWork_disp T
    { st with extracted := [], unknowns := [], foreign := false, nest := 0 } src fuel items rot ls hf h'
    hst hrot hne hvis hls
  refine ⟨toks, rots', ?_, ht⟩
  unfold parse
  simp only [List.isEmpty_nil, Bool.not_true, Bool.false_eq_true, if_false, if_true]
  refine (M.bind_ok _ _ _ _ _ (rfl : M.modify _ _ = _)).trans ?_
  refine (M.bind_ok _ _ _ _ _ (rfl : (pure _ : M (List Tok)) _ = _)).trans ?_
  refine (M.bind_ok _ _ _ _ _ (rfl : M.modify _ _ = _)).trans ?_
  refine (M.bind_ok _ _ _ _ _ hw).trans ?_
  refine (M.bind_ok _ _ _ _ _ (rfl : M.get _ = _)).trans ?_
  show Outcome.ok _ = _
  simp

/-- the result record of `tex2txt` on a well-formed source -/
theorem tex2txt_disp_src (T : PTables) (o : Options) (fs : FS) (thresh : Nat) (src : Str) (fuel : Nat)
    (st1 : PState) (items : List Item) (rot : Rot)
    (hdefs : o.defs = []) (hextr : o.extr = []) (hrepl : o.hasRepl = false) (hunkn : o.unkn = false)
    (hinit : initParser T fuel o (initialState T o false fs) = .ok ((), st1))
    (h : OkSrc T st1 0 src items) (hst : st1.displayedSimple = false)
    (hrot : rotOf st1 (curSettings st1) = some rot) (hne : rot.disp ≠ []) (hvis : VisibleRepls rot.disp)
    (hls : (settingsOf T (curSettings st1)).isSome = true)
    (hf : src.length + 2 ≤ fuel) :
    ∃ toks, tex2txt T fuel src o false thresh fs
        = .ok { toks := toks, txt := (refItems T st1.mathOperators rot.disp items).1,
                pos := (refItems T st1.mathOperators rot.disp items).2.map (· + 1), parts := [],
                unknowns := [], diags := st1.diags, foreign := false } := by
  obtain ⟨ls, hls⟩ := Option.isSome_iff_exists.mp hls
  obtain ⟨toks, rots', hp, ht⟩ := parse_disp T st1 src fuel items rot ls hf h hst hrot hne hvis hls
  refine ⟨toks, ?_⟩
  have hrun : (initParser T fuel o >>= fun _ => parse T fuel src o.defs
        (if o.extr.isEmpty then [] else (splitOn ',' o.extr []).map (fun s => '\\' :: s)))
        (initialState T o false fs)
      = .ok (toks, { st1 with extracted := [], unknowns := [], foreign := false, nest := 0,
                              rots := rots' }) := by
    refine (M.bind_ok _ _ _ _ _ hinit).trans ?_
    rw [hdefs, hextr]
    exact hp
  unfold tex2txt
  simp only []
  rw [hrun]
  simp only [hrepl, hunkn, Bool.not_false, if_true, Bool.false_eq_true, if_false, ht]

/-! ### the reference output of a document -/

/-- the rendering of the `k`-th equation of the document (`k` = 1, 2, …) whose opening command (`\[`
    or `\begin`) stands at the (0-based) offset `p` and whose body starts at `p + o`, as characters
    with their source positions:
    two blanks mapped to the opening command; the placeholder `placeholder repls k` (entry
    `k mod length` of the display collection), every character mapped to the first element character
    of the body; the closing punctuation mark `punctOf T body` (if any) mapped to the first character
    of the body that is no white space.  No character of the body appears. -/
def eqnOut (T : PTables) (ops : List Str) (repls : List Str) (k p o : Nat) (body : Str) :
    List (Char × Nat) :=
  [(' ', p), (' ', p)]
    ++ (placeholder repls k).map (fun c => (c, p + o + elemOff T ops body))
    ++ (punctOf T body).map (fun c => (c, p + o + leadBlanks body))

/-- the reference output (characters with 0-based source positions) of the segments that start at
    offset `p`, `k` equations having been rendered before: text is copied with its positions, the
    next equation is rendered as `eqnOut … (k + 1) p o body`, where the body starts `o = 2`
    characters behind the `\` of `\[`, and `o = name.length + 8` characters behind the `\` of
    `\begin{name}` -/
def refOut (T : PTables) (ops : List Str) (repls : List Str) : Nat → Nat → List Seg → List (Char × Nat)
  | _, _, [] => []
  | k, p, .txt s :: rest => posText p s ++ refOut T ops repls k (p + s.length) rest
  | k, p, .disp body :: rest =>
    eqnOut T ops repls (k + 1) p 2 body ++ refOut T ops repls (k + 1) (p + (body.length + 4)) rest
  | k, p, .env name body :: rest =>
    eqnOut T ops repls (k + 1) p (name.length + 8) body
      ++ refOut T ops repls (k + 1) (p + (2 * name.length + body.length + 14)) rest

theorem eqnOut_unzip (T : PTables) (ops : List Str) (repls : List Str) (k p o : Nat) (body : Str) :
    ((eqnOut T ops repls k p o body).map (·.1), (eqnOut T ops repls k p o body).map (·.2))
      = eqnRef T ops (placeholder repls k) p o body := by
  simp [eqnOut, eqnRef, List.map_const', Function.comp_def]

theorem refItems_itemsOf (T : PTables) (ops : List Str) (repls : List Str) (hne : repls ≠ []) :
    ∀ (segs : List Seg) (k p : Nat),
      refItems T ops (rotN k repls) (itemsOf p segs)
        = ((refOut T ops repls k p segs).map (·.1), (refOut T ops repls k p segs).map (·.2))
  | [], _, _ => rfl
  | .txt s :: rest, k, p => by
    simp only [itemsOf, refItems_chrItems, refOut, refItems_itemsOf T ops repls hne rest k,
      List.map_append, posText_fst, posText_snd]
  | .disp body :: rest, k, p => by
    have h := eqnOut_unzip T ops repls (k + 1) p 2 body
    rw [Prod.ext_iff] at h
    simp only [itemsOf, refItems, refOut, ← rotN_succ, rotN_headD repls hne,
      refItems_itemsOf T ops repls hne rest (k + 1), List.map_append, ← h.1, ← h.2]
  | .env name body :: rest, k, p => by
    have h := eqnOut_unzip T ops repls (k + 1) p (name.length + 8) body
    rw [Prod.ext_iff] at h
    simp only [itemsOf, refItems, refOut, ← rotN_succ, rotN_headD repls hne,
      refItems_itemsOf T ops repls hne rest (k + 1), List.map_append, ← h.1, ← h.2]

/-- the placeholders are visible one-line texts, computable -/
def visibleRepls (l : List Str) : Bool := l.all (fun r => !hasNl r && !isBlank r)

theorem visibleRepls_iff (l : List Str) (h : visibleRepls l = true) : VisibleRepls l := by
  intro r hr
  have := List.all_eq_true.mp h r hr
  simpa using this

/-- well-formedness of a document as a proposition -/
def SegsOk (T : PTables) (st : PState) (segs : List Seg) : Prop :=
  st.displayedSimple = false ∧ segsOk T st segs = true

instance (T : PTables) (st : PState) (segs : List Seg) : Decidable (SegsOk T st segs) := by
  unfold SegsOk; infer_instance

/-- **C11 end to end.**  The document is a sequence of inert text segments and simple displayed
    equations `\[body\]` / `\begin{name}body\end{name}` (`SegsOk`); `st1` is the state after
    `Parser.__init__`; no `--defs`, `--extr`, `--repl`, `--unkn`, `--seqs`; single-language mode;
    `repls` is the display placeholder collection stored for the current language, not empty, every
    entry a visible one-line text; the language settings exist.  With one unit of fuel per source
    character plus two, `tex2txt` succeeds and

    * output text and position map are `refOut T st1.mathOperators repls 0 0 segs`: the text segments
      with their own positions, the `k`-th equation (k = 1, 2, …) replaced by `eqnOut … k p o body` —
      two blanks mapped to the `\` of `\[` / `\begin`, `placeholder repls k` (entry `k mod length`)
      mapped to the first element character of the body, the closing punctuation mark `punctOf T body`
      mapped to the first character of the body that is no white space; no line break is added and
      no other character of the body appears (positions reported 1-based);
    * nothing is reported as unknown and no diagnostic is added. -/
theorem tex2txt_display (T : PTables) (o : Options) (fs : FS) (thresh : Nat)
    (segs : List Seg) (fuel : Nat) (st1 : PState) (rot : Rot) (repls : List Str)
    (hdefs : o.defs = []) (hextr : o.extr = []) (hrepl : o.hasRepl = false) (hunkn : o.unkn = false)
    (hinit : initParser T fuel o (initialState T o false fs) = .ok ((), st1))
    (hok : SegsOk T st1 segs)
    (hrot : rotOf st1 (curSettings st1) = some rot) (hrepls : rot.disp = repls)
    (hne : repls ≠ []) (hvis : VisibleRepls repls)
    (hls : (settingsOf T (curSettings st1)).isSome = true)
    (hf : (render segs).length + 2 ≤ fuel) :
    ∃ r, tex2txt T fuel (render segs) o false thresh fs = .ok r ∧
      r.txt = (refOut T st1.mathOperators repls 0 0 segs).map (·.1) ∧
      r.pos = (refOut T st1.mathOperators repls 0 0 segs).map (·.2 + 1) ∧
      r.unknowns = [] ∧ r.diags = st1.diags := by
  subst hrepls
  obtain ⟨toks, ht⟩ := tex2txt_disp_src T o fs thresh (render segs) fuel st1 (itemsOf 0 segs) rot
    hdefs hextr hrepl hunkn hinit (OkSrc_of_segsOk T st1 segs 0 hok.2) hok.1 hrot hne hvis hls hf
  have href := refItems_itemsOf T st1.mathOperators rot.disp hne segs 0 0
  simp only [rotN] at href
  refine ⟨_, ht, by rw [href], ?_, rfl, rfl⟩
  simp only [href, List.map_map]
  rfl

/-! ### what the reference says -/

/-- the text of the rendering of an equation: two blanks, the placeholder, the punctuation mark -/
theorem eqnOut_txt (T : PTables) (ops : List Str) (repls : List Str) (k p o : Nat) (body : Str) :
    (eqnOut T ops repls k p o body).map (·.1) = [' ', ' '] ++ placeholder repls k ++ punctOf T body := by
  simp [eqnOut, Function.comp_def]

/-- the output text of a document, written without the equation bodies: it depends on a body only
    through its closing punctuation mark -/
def outText (T : PTables) (repls : List Str) : Nat → List Seg → Str
  | _, [] => []
  | k, .txt s :: rest => s ++ outText T repls k rest
  | k, .disp body :: rest =>
    [' ', ' '] ++ placeholder repls (k + 1) ++ punctOf T body ++ outText T repls (k + 1) rest
  | k, .env _ body :: rest =>
    [' ', ' '] ++ placeholder repls (k + 1) ++ punctOf T body ++ outText T repls (k + 1) rest

theorem refOut_txt (T : PTables) (ops : List Str) (repls : List Str) :
    ∀ (segs : List Seg) (k p : Nat), (refOut T ops repls k p segs).map (·.1) = outText T repls k segs
  | [], _, _ => rfl
  | .txt s :: rest, k, p => by
    simp only [refOut, outText, List.map_append, posText_fst, refOut_txt T ops repls rest]
  | .disp body :: rest, k, p => by
    simp only [refOut, outText, List.map_append, eqnOut_txt, refOut_txt T ops repls rest]
  | .env name body :: rest, k, p => by
    simp only [refOut, outText, List.map_append, eqnOut_txt, refOut_txt T ops repls rest]

theorem elemOff_le (T : PTables) (ops : List Str) (body : Str) : elemOff T ops body ≤ body.length := by
  unfold elemOff
  exact (List.takeWhile_sublist _).length_le

theorem leadBlanks_le (body : Str) : leadBlanks body ≤ body.length := by
  unfold leadBlanks
  exact (List.takeWhile_sublist _).length_le

/-- every position generated for an equation lies in its source span: from the `\` of the opening
    command (offset `p`) to the end of the body (which starts at `p + o`) -/
theorem eqnOut_span (T : PTables) (ops : List Str) (repls : List Str) (k p o : Nat) (body : Str) :
    ∀ cq ∈ eqnOut T ops repls k p o body, p ≤ cq.2 ∧ cq.2 ≤ p + o + body.length := by
  intro cq h
  have h1 := elemOff_le T ops body
  have h2 := leadBlanks_le body
  simp only [eqnOut, List.mem_append, List.mem_cons, List.mem_map, List.not_mem_nil, or_false] at h
  rcases h with ((rfl | rfl) | ⟨c, _, rfl⟩) | ⟨c, _, rfl⟩ <;> simp <;> omega

theorem takeWhile_not_lt {α} (q : α → Bool) : ∀ l : List α, l.any q = true →
    (l.takeWhile (fun c => !q c)).length < l.length
  | [], h => by simp at h
  | a :: l, h => by
    by_cases ha : q a = true
    · simp [ha]
    · have ha' : q a = false := by simpa using ha
      have h' : l.any q = true := by simpa [ha'] using h
      have := takeWhile_not_lt q l h'
      simp only [List.takeWhile_cons, ha', Bool.not_false, if_true, List.length_cons]
      omega

theorem elemOff_lt (T : PTables) (ops : List Str) (body : Str) (h : body.any (elemChar T ops) = true) :
    elemOff T ops body < body.length :=
  takeWhile_not_lt _ body h

theorem leadBlanks_lt (T : PTables) (ops : List Str) (body : Str) (h : body.any (elemChar T ops) = true) :
    leadBlanks body < body.length := by
  have h' : body.any (fun c => !isSpace c) = true := by
    obtain ⟨c, hc, hcs⟩ := List.any_eq_true.mp h
    refine List.any_eq_true.mpr ⟨c, hc, ?_⟩
    simp only [elemChar, Bool.and_eq_true] at hcs
    exact hcs.1.1
  have := takeWhile_not_lt (fun c => !isSpace c) body h'
  simpa [leadBlanks] using this

/-- for a body with an element character (as `segsOk` demands) every generated position lies on a
    character of the equation: on the `\` of the opening command or on a character of the body -/
theorem eqnOut_span_lt (T : PTables) (ops : List Str) (repls : List Str) (k p o : Nat) (body : Str)
    (h : body.any (elemChar T ops) = true) :
    ∀ cq ∈ eqnOut T ops repls k p o body,
      cq.2 = p ∨ (p + o ≤ cq.2 ∧ cq.2 < p + o + body.length) := by
  intro cq hm
  have h1 := elemOff_lt T ops body h
  have h2 := leadBlanks_lt T ops body h
  simp only [eqnOut, List.mem_append, List.mem_cons, List.mem_map, List.not_mem_nil, or_false] at hm
  rcases hm with ((rfl | rfl) | ⟨c, _, rfl⟩) | ⟨c, _, rfl⟩
  · exact Or.inl rfl
  · exact Or.inl rfl
  · exact Or.inr ⟨by simp, by simp; omega⟩
  · exact Or.inr ⟨by simp, by simp; omega⟩

/-- the document `a \[ b \] c` with one equation: the explicit output -/
theorem refOut_single (T : PTables) (ops : List Str) (repls : List Str) (a b c : Str) :
    refOut T ops repls 0 0 [.txt a, .disp b, .txt c]
      = posText 0 a ++ eqnOut T ops repls 1 a.length 2 b ++ posText (a.length + (b.length + 4)) c := by
  simp [refOut]

/-- a body that ends (up to white space) with a punctuation mark: the mark is kept -/
theorem punctOf_snoc (T : PTables) (b w : Str) (c : Char) (hc : isSpace c = false)
    (hp : T.mathPunctuation.contains [c] = true) (hw : ∀ d ∈ w, isSpace d = true) :
    punctOf T (b ++ c :: w) = [c] := by
  have hwf : w.filter (fun c => !isSpace c) = [] := by
    rw [List.filter_eq_nil_iff]
    intro a ha
    simp [hw a ha]
  have hp' : [c] ∈ T.mathPunctuation := by simpa using hp
  unfold punctOf punctChar
  simp [List.filter_append, hc, hwf, hp']

/-- a body whose last character that is no white space is no punctuation mark: nothing is added -/
theorem punctOf_none (T : PTables) (b w : Str) (c : Char) (hc : isSpace c = false)
    (hp : T.mathPunctuation.contains [c] = false) (hw : ∀ d ∈ w, isSpace d = true) :
    punctOf T (b ++ c :: w) = [] := by
  have hwf : w.filter (fun c => !isSpace c) = [] := by
    rw [List.filter_eq_nil_iff]
    intro a ha
    simp [hw a ha]
  have hp' : ¬ [c] ∈ T.mathPunctuation := by simpa using hp
  unfold punctOf punctChar
  simp [List.filter_append, hc, hwf, hp']

end PlainDisplay
end Yalafi
