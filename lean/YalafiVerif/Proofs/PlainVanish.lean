/-
  Proofs/PlainVanish.lean — C05 "text flow is preserved" and C03 "labels and keys never leak", end
  to end on the model, for documents that consist of inert text (as in Proofs/PlainUnknown.lean) and
  calls `\name{key}` of VANISHING MACROS: declared macros with one mandatory argument that produce
  nothing (`\label`, `\index`, `\pagestyle`, `\bibliographystyle`, `\thispagestyle`,
  `\pagenumbering`, `\include`, `\input`, `\vphantom`, `\LTskip` in the tables of /repo).

  What the model does with such a call (found with `#eval`, then proved): the tables declare e.g.
  `\label` with argument code `A`, no Python handler, no extraction and a replacement that consists
  of ONE VOID TOKEN (kind `void`, no text; `\LTskip`: the empty replacement).  `expand_macro`
  collects `{key}`, throws it away and returns an Action token at the backslash plus the void
  token(s), re-stamped at the backslash.  The main loop copies both to the output; neither has
  text.  `remove_pure_action_lines` (`removeLines`) then deletes a line that consists only of white
  space and Action tokens (at least one), together with its line break, and drops the text-less
  tokens.  So on the level of characters the call leaves exactly one *mark* (`none`) and the output
  is `PlainMacro.delLines` of the marks — the reference that Proofs/PlainMacro.lean built for
  `\newcommand` definitions that vanish.

  Documents
    `Seg`, `render`            text | `.van name key ↦ \name{key}`
    `marks p segs`             the source as a list of `Mark`s: `some (c, pos)` for a text character,
                               `none` for a call
    `vanDeclOk`, `vanOk`, `segsOk`, `SegsOk`   the side conditions (computable)
  Expander level
    `argBuffer_brace'`, `collectArgs_van`, `expandArguments_van`, `expandMacro_van`
                               the call: `[Action p] ++ voids p`, the buffer behind `}`, state unchanged
    `seq_void_step`, `seq_van_step`, `Piece`, `PiecesOk`, `outP`, `cost`, `seq_van`   the loop
  Source level
    `OkSrc`, `nextToken_key`, `scanSteps_key`, `scanSteps_van`, `scan_van`
                               the scanner: one macro token for `\name`, `{`, tokens for the key that
                               are neither braces nor comments, `}`; plain tokens for the text; and what the token
                               buffer means (`marksOf (outP …) = marks`, all tokens `Simple`, cost)
    `parserWork_van`, `parse_van`, `tex2txt_van_src`, `tex2txt_vanish`   the lifts
  Readings of the reference
    `plain`, `marks_chars`, `delLines_text`   the source with the calls cut out; text without calls is unchanged
    `delLines_cut_same_line`, `marks_same_line`   a call behind visible text is cut out of its line
    `delLines_cut_own_line`, `marks_own_line`     a call alone on its line disappears with ONE line break
    `delLines_mem`, `spans`, `marks_pos_outside`  no output position lies inside a call
    (general: `PlainMacro.delLines_kept` / `linesKept`, `PlainMacro.delLines_drop_line`)

  Model behaviour that differs from the expectation "empty replacement": in the tables of /repo only
  `\LTskip` has an empty replacement; `\label`, `\index`, `\pagestyle`, … are declared with the
  replacement text `''`, which the scanner of `Parser.__init__` turns into ONE VOID TOKEN.  The
  theorem covers both (`vanDeclOk`: up to two void tokens).  Consequences seen with `#eval` and
  implied by the theorem (not defects, but worth knowing): `Alpha \label{k} beta` gives
  `Alpha  beta` (both blanks survive); an indented call alone on its line disappears with its
  indentation and its line break; a call on the last line without a final line break deletes that
  line and leaves the line break in front of it.

  The end-to-end statement `tex2txt_vanish`.  `tex2txt` succeeds; text and (1-based) positions are
  `delLines (marks 0 segs)`: every text character is copied with its own position, a call leaves
  nothing, and then every line is deleted (with its line break) that consists of white space only
  and holds at least one call; every other line break, every blank line without a call and every
  character of a line with visible text survives.  `unknowns = []`, no diagnostic is added.

  Side conditions (all in `SegsOk T st1 segs`, decidable; `st1` = state after `Parser.__init__`)
    `noEmptyActive T st1`      the empty string is no "active character" (else the text-less Action
                               and void tokens would go to `expand_short_macro`); real tables: yes
    text segments              `textOk` of Proofs/PlainUnknown.lean: inert in their right context
                               (the text in front of a call may end with anything inert, the text
                               behind `}` may start with anything inert, also white space: nothing is
                               skipped behind the closing brace)
    calls (`vanOk`)            * `\name` is scanned as one macro token: `name` is a non-empty string of
                                 ASCII letters / `@`, no special sequence of the tables matches at the
                                 backslash, it is none of `\begin \end \item \verb \def`, no accent macro;
                               * `\name` is declared in `st1` with `vanDeclOk`: argument codes exactly
                                 `A`, no handler, no extraction text, the replacement consists of at
                                 most two void tokens without text (real tables: one, or none) — "at
                                 most two" keeps the fuel bound free of the tables: a call costs
                                 `2 + #voids` iterations and has at least four source characters;
                               * `{` stands directly behind the name and is scanned as `{`, the `}` as `}`;
                               * `key` (`keyOk`): every character is white space, or none of `% # \ { }`
                                 and a special sequence of the tables that matches there is not
                                 empty and contains no `}`; so the key may be empty, contain blanks,
                                 line breaks, `_ ^ ~ & $ -- '' :` … (whatever tokens the scanner makes
                                 of it are collected and thrown away)
    options                    no --defs, --extr, --repl, --unkn; single-language mode
    fuel                       `(render segs).length + 2 ≤ fuel`

  NOT covered: white space or a line break between the name and `{`; an argument without braces
  (`\label x`); keys with braces, backslashes (macros, `\_`), `%` or `#`; macros with optional or several
  arguments (`\footnotemark[1]`), with a handler or with a non-void replacement; multi-language mode.
-/
import YalafiVerif.Proofs.PlainMacro
namespace Yalafi
namespace PlainVanish

open M
open PlainMacro

/-! ### the declaration of a vanishing macro -/

/-- a void token without text -/
def isVoidTok (t : Tok) : Bool := t.kind == .void && t.txt.isEmpty

/-- a vanishing macro: one mandatory argument, no handler, no extraction, the replacement is at
    most two void tokens (`\label`, `\index`, … of the real tables: one) -/
def vanDeclOk (m : MacroDef) : Bool :=
  m.args == ['A'] && m.handler == .none && m.extract.isEmpty && m.repl.all isVoidTok &&
  decide (m.repl.length ≤ 2)

structure VanDecl (m : MacroDef) : Prop where
  args : m.args = ['A']
  handler : m.handler = .none
  extract : m.extract = []
  voids : ∀ t ∈ m.repl, t.kind = .void ∧ t.txt = []
  len : m.repl.length ≤ 2

theorem vanDecl {m : MacroDef} (h : vanDeclOk m = true) : VanDecl m := by
  simp only [vanDeclOk, Bool.and_eq_true, beq_iff_eq, List.isEmpty_iff, List.all_eq_true,
    decide_eq_true_eq] at h
  obtain ⟨⟨⟨⟨h1, h2⟩, h3⟩, h4⟩, h5⟩ := h
  refine ⟨h1, h2, h3, ?_, h5⟩
  intro t ht
  have := h4 t ht
  simp only [isVoidTok, Bool.and_eq_true, beq_iff_eq, List.isEmpty_iff] at this
  exact this

/-! ### argument collection -/

/-- `arg_buffer` on `{ arg }`: whatever the (brace-free) tokens are, they are consumed up to the
    closing brace; no error (the argument may be empty: then a void token is returned) -/
theorem argBuffer_brace' (T : Tables) (p q : Nat) (arg : List Tok) (rest : Buf) (start : Nat)
    (st : PState) (h : ∀ t ∈ arg, NoBrace t) :
    ∃ a, argBuffer T (lbr p :: (arg ++ rbr q :: rest)) start true st = .ok ((a, rest), st) := by
  have hc := collectArg_brace q rest arg [] h
  have hp : ∃ a, argBufferPure T.mark (lbr p :: (arg ++ rbr q :: rest)) start true
      = { arg := a, buf := rest } := by
    unfold argBufferPure
    rw [skipSpace_cons_of_not _ _ (by rfl)]
    have h1 : ((lbr p).kind == Kind.par) = false := by rfl
    have h2 : txtIsNV (lbr p) "{" = true := by simp [txtIsNV, lbr, isVerb]
    simp only [h1, h2, Bool.false_eq_true, if_false, Bool.not_true, Bool.and_false, if_true, hc,
      List.reverse_nil, List.nil_append]
    exact ⟨_, rfl⟩
  obtain ⟨a, ha⟩ := hp
  refine ⟨a, ?_⟩
  unfold argBuffer
  rw [ha]
  rfl

/-- `collectArgs` on `{key}` for the signature `A` -/
theorem collectArgs_van (T : PTables) (mac : MacroDef) (p q : Nat) (key : List Tok)
    (hkey : ∀ t ∈ key, NoBrace t) (rest : Buf) (start : Nat) (st : PState) :
    ∃ a, collectArgs T mac ['A'] 0 (lbr p :: (key ++ rbr q :: rest)) start {} st
      = .ok (({ args := [a], extr := [a], langs := [] }, rest), st) := by
  have hl : isSpaceTok (lbr p) = false := rfl
  obtain ⟨a, ha⟩ := argBuffer_brace' T.toTables p q key rest p st hkey
  refine ⟨a, ?_⟩
  rw [collectArgs]
  simp only [skippedLangs_cons_of_not _ _ hl, skipSpace_cons_of_not _ _ hl, List.append_nil,
    List.head?_cons, show ('A' == '*') = false by decide, show ('A' == 'O') = false by decide,
    beq_self_eq_true, if_true, show txtIsNV (lbr p) "}" = false by rfl, Bool.false_eq_true, if_false]
  refine (M.bind_ok _ _ _ _ _ ha).trans ?_
  rw [collectArgs]
  rfl

theorem void_argRef {t : Tok} (h : t.kind = .void) : argRef t = none := by
  simp [argRef, h]

/-- `expand_arguments` for a vanishing macro: the argument is thrown away; an Action token and the
    void tokens of the replacement, all at the position of the call -/
theorem expandArguments_van (T : PTables) (fuel : Nat) (mac : MacroDef) (hmac : VanDecl mac)
    (p q : Nat) (key : List Tok) (hkey : ∀ t ∈ key, NoBrace t) (rest : Buf) (start : Nat)
    (st : PState) :
    expandArguments T (fuel + 1) (lbr p :: (key ++ rbr q :: rest)) mac start st
      = .ok ((mkAction start :: mac.repl.map (restamp start), rest), st) := by
  obtain ⟨a, ha⟩ := collectArgs_van T mac p q key hkey rest start st
  rw [expandArguments.eq_2, hmac.args]
  refine (M.bind_ok _ _ _ _ _ ha).trans ?_
  simp only [hmac.extract, hmac.handler, List.isEmpty_nil, Bool.not_true, Bool.false_eq_true, if_false,
    show (Handler.none != Handler.none) = false by decide,
    genRepl_noref [a] mac.repl start (fun t ht => void_argRef (hmac.voids t ht).1)]
  simp
  rfl

/-- **the call step of `expandMacro`** -/
theorem expandMacro_van (T : PTables) (fuel : Nat) (mac : MacroDef) (hmac : VanDecl mac)
    (p q : Nat) (key : List Tok) (hkey : ∀ t ∈ key, NoBrace t) (rest : Buf) (tok : Tok)
    (st : PState) (hl : lookupMacro st tok.txt = some mac) :
    expandMacro T (fuel + 2) (lbr p :: (key ++ rbr q :: rest)) tok false st
      = .ok ((mkAction tok.pos :: mac.repl.map (restamp tok.pos), rest), st) := by
  rw [expandMacro.eq_2]
  refine (M.bind_ok _ _ _ _ _ (rfl : M.get st = _)).trans ?_
  simp only [hl, skipSpaceStopLang_cons_of_not _ _ (rfl : isSpaceTok (lbr p) = false)]
  exact expandArguments_van T fuel mac hmac p q key hkey rest tok.pos st

/-! ### steps of `expandSequence` -/

/-- a void token without text is copied -/
theorem seq_void_step (T : PTables) (fuel : Nat) (t : Tok) (rest : Buf) (envStop : Option Str)
    (out : List Tok) (st : PState) (hk : t.kind = .void) (ht : t.txt = [])
    (ha : noEmptyActive T st = true) :
    expandSequence T (fuel + 1) (t :: rest) envStop out st
      = expandSequence T fuel rest envStop (out ++ [t]) st := by
  rw [expandSequence.eq_3]
  show M.bind' M.get _ st = _
  simp only [M.bind', M.get]
  have hc : (activeChars T st).contains t.txt = false := by
    rw [ht]; simpa [noEmptyActive] using ha
  have n1 : txtIs t "$" = false := by simp [txtIs, ht]
  have n2 : txtIs t "\\(" = false := by simp [txtIs, ht]
  have n3 : txtIs t "$$" = false := by simp [txtIs, ht]
  have n4 : txtIs t "\\[" = false := by simp [txtIs, ht]
  have n5 : txtIs t "\\\\" = false := by simp [txtIs, ht]
  have n6 : txtIs t "{" = false := by simp [txtIs, ht]
  have n7 : txtIs t "}" = false := by simp [txtIs, ht]
  simp only [hk, n1, n2, n3, n4, n5, n6, n7, hc, Bool.or_self, Bool.false_eq_true, if_false,
    reduceCtorEq, beq_iff_eq]

theorem seq_void_run (T : PTables) (envStop : Option Str) (st : PState) (rest : Buf)
    (ha : noEmptyActive T st = true) :
    ∀ (vs : List Tok) (fuel : Nat) (out : List Tok), (∀ t ∈ vs, t.kind = .void ∧ t.txt = []) →
      expandSequence T (fuel + vs.length) (vs ++ rest) envStop out st
        = expandSequence T fuel rest envStop (out ++ vs) st
  | [], fuel, out, _ => by simp
  | t :: ts, fuel, out, h => by
    obtain ⟨h1, h2⟩ := h t (List.mem_cons_self ..)
    rw [List.length_cons, ← Nat.add_assoc, List.cons_append,
      seq_void_step T (fuel + ts.length) t (ts ++ rest) envStop out st h1 h2 ha,
      seq_void_run T envStop st rest ha ts fuel (out ++ [t]) (fun x hx => h x (List.mem_cons_of_mem _ hx))]
    simp

/-- the name of a vanishing macro in `st` -/
def VanName (st : PState) (name : Str) : Prop :=
  ('\\' :: name) ≠ sDef ∧ ∃ m, lookupMacro st ('\\' :: name) = some m ∧ vanDeclOk m = true

/-- the replacement tokens of `\name` in `st` -/
def replOf (st : PState) (name : Str) : List Tok :=
  match lookupMacro st ('\\' :: name) with
  | some m => m.repl
  | none => []

/-- **the call step of `expandSequence`**: the macro token, the Action token, the void tokens; the
    state is unchanged.  One unit of fuel must remain. -/
theorem seq_van_step (T : PTables) (fuel : Nat) (p q1 q2 : Nat) (name : Str) (key : List Tok)
    (rest : Buf) (envStop : Option Str) (out : List Tok) (st : PState)
    (hn : VanName st name) (hkey : ∀ t ∈ key, NoBrace t) (ha : noEmptyActive T st = true) :
    expandSequence T (fuel + 1 + (2 + (replOf st name).length))
        (cwTok p name :: lbr q1 :: (key ++ rbr q2 :: rest)) envStop out st
      = expandSequence T (fuel + 1) rest envStop
          (out ++ mkAction p :: (replOf st name).map (restamp p)) st := by
  obtain ⟨hnd, m, hm, hmd⟩ := hn
  have D := vanDecl hmd
  have hr : replOf st name = m.repl := by simp [replOf, hm]
  rw [hr]
  have hk : (cwTok p name).kind = .xmacro := rfl
  have hd : txtIs (cwTok p name) "\\def" = false := by
    simpa [txtIs, cwTok, sDef] using hnd
  have hf : fuel + 1 + (2 + m.repl.length) = (fuel + m.repl.length) + 2 + 1 := by omega
  rw [hf, expandSequence.eq_3]
  show M.bind' M.get _ st = _
  simp only [M.bind', M.get]
  simp only [hk, hd, Bool.false_eq_true, if_false, if_true, reduceCtorEq, beq_iff_eq, beq_self_eq_true]
  refine (M.bind_ok _ _ _ _ _ (expandMacro_van T (fuel + m.repl.length) m D q1 q2 key hkey rest
    (cwTok p name) st hm)).trans ?_
  simp only [List.cons_append, show (cwTok p name).pos = p from rfl]
  have hf2 : fuel + m.repl.length + 2 = (fuel + 1 + (m.repl.map (restamp p)).length) + 1 := by
    simp; omega
  rw [hf2, seq_action_step T _ p _ envStop out st ha,
    seq_void_run T envStop st rest ha (m.repl.map (restamp p)) (fuel + 1) (out ++ [mkAction p]) (by
      intro t ht
      obtain ⟨u, hu, rfl⟩ := List.mem_map.mp ht
      exact D.voids u hu)]
  simp

/-! ### the token buffers -/

/-- the pieces of a token buffer: a token that is copied, a call `\name { key }` -/
inductive Piece where
  | tok (t : Tok)
  | van (p q1 q2 : Nat) (name : Str) (key : List Tok)

def Piece.toks : Piece → List Tok
  | .tok t => [t]
  | .van p q1 q2 name key => cwTok p name :: lbr q1 :: (key ++ [rbr q2])

/-- the token buffer -/
def flat : List Piece → List Tok
  | [] => []
  | p :: ps => p.toks ++ flat ps

def PiecesOk (T : PTables) (st : PState) : List Piece → Prop
  | [] => True
  | .tok t :: rest => PlainTok t ∧ PassTok T st t (flat rest) ∧ PiecesOk T st rest
  | .van _ _ _ name key :: rest =>
    VanName st name ∧ (∀ t ∈ key, NoBrace t ∧ t.kind ≠ .comment) ∧ PiecesOk T st rest

/-- what `expandSequence` emits for the pieces before the blank-line removal -/
def outP (st : PState) : List Piece → List Tok
  | [] => []
  | .tok t :: rest => t :: outP st rest
  | .van p _ _ name _ :: rest => mkAction p :: ((replOf st name).map (restamp p) ++ outP st rest)

/-- iterations of `expandSequence` -/
def cost (st : PState) : List Piece → Nat
  | [] => 0
  | .tok _ :: rest => 1 + cost st rest
  | .van _ _ _ name _ :: rest => 2 + (replOf st name).length + cost st rest

/-- **the loop on a buffer of plain tokens and calls of vanishing macros.**  The output is the
    blank-line removal applied to `outP`; the state is unchanged.  Fuel: one iteration per plain
    token, two plus the number of void tokens per call, one for the end of the buffer. -/
theorem seq_van (T : PTables) (envStop : Option Str) (st : PState) (ha : noEmptyActive T st = true) :
    ∀ (ps : List Piece) (fuel : Nat) (out : List Tok),
      cost st ps + 1 ≤ fuel → PiecesOk T st ps →
      expandSequence T fuel (flat ps) envStop out st
        = match removeLines (out ++ outP st ps) with
          | some r => .ok ((r, []), st)
          | none => .outOfFuel := by
  intro ps
  induction ps with
  | nil =>
    intro fuel out hf _
    obtain ⟨f, rfl⟩ : ∃ f, fuel = f + 1 := ⟨fuel - 1, by omega⟩
    simp only [flat, outP, List.append_nil]
    rw [expandSequence.eq_2]
    cases removeLines out <;> rfl
  | cons pc ps ih =>
    intro fuel out hf hok
    cases pc with
    | tok t =>
      simp only [cost] at hf
      obtain ⟨f, rfl⟩ : ∃ f, fuel = f + 1 := ⟨fuel - 1, by omega⟩
      simp only [flat, Piece.toks, List.singleton_append]
      rw [seq_plain_step T f t (flat ps) envStop out st hok.1 hok.2.1,
        ih f (out ++ [t]) (by omega) hok.2.2]
      simp only [outP, List.append_assoc, List.singleton_append]
    | van p q1 q2 name key =>
      obtain ⟨hn, hkey, hrest⟩ := hok
      simp only [cost] at hf
      obtain ⟨f, hf'⟩ : ∃ f, fuel = f + 1 + (2 + (replOf st name).length) :=
        ⟨fuel - 1 - (2 + (replOf st name).length), by omega⟩
      have hflat : flat (Piece.van p q1 q2 name key :: ps)
          = cwTok p name :: lbr q1 :: (key ++ rbr q2 :: flat ps) := by
        simp [flat, Piece.toks]
      rw [hflat, hf', seq_van_step T f p q1 q2 name key (flat ps) envStop out st hn
          (fun t ht => (hkey t ht).1) ha,
        ih (f + 1) _ (by omega) hrest]
      simp only [outP, List.append_assoc, List.cons_append]

theorem PiecesOk.notComment {T : PTables} {st : PState} : ∀ {ps : List Piece}, PiecesOk T st ps →
    ∀ t ∈ flat ps, t.kind ≠ .comment
  | [], _, _, h => by simp [flat] at h
  | .tok t :: rest, hok, x, hx => by
    simp only [flat, Piece.toks, List.singleton_append, List.mem_cons] at hx
    rcases hx with rfl | hx
    · exact hok.1.notComment
    · exact PiecesOk.notComment hok.2.2 x hx
  | .van p q1 q2 name key :: rest, hok, x, hx => by
    obtain ⟨_, hkey, hrest⟩ := hok
    simp only [flat, Piece.toks, List.cons_append, List.append_assoc, List.mem_cons,
      List.mem_append, List.nil_append] at hx
    rcases hx with rfl | rfl | hx | rfl | hx
    · simp [cwTok]
    · simp [lbr]
    · exact (hkey x hx).2
    · simp [rbr]
    · exact PiecesOk.notComment hrest x hx

/-- the conditions depend on the state only through the language stack and the macro table -/
theorem PiecesOk.congr {T : PTables} {st st' : PState} (hl : st'.langStack = st.langStack)
    (hm : st'.macros = st.macros) : ∀ {ps : List Piece}, PiecesOk T st ps → PiecesOk T st' ps
  | [], _ => trivial
  | .tok t :: rest, h => ⟨h.1, PassTok_congr hl h.2.1, PiecesOk.congr hl hm h.2.2⟩
  | .van p q1 q2 name key :: rest, h => by
    refine ⟨?_, h.2.1, PiecesOk.congr hl hm h.2.2⟩
    obtain ⟨h1, m, h2, h3⟩ := h.1
    exact ⟨h1, m, by simpa [lookupMacro, hm] using h2, h3⟩

theorem replOf_congr {st st' : PState} (hm : st'.macros = st.macros) (name : Str) :
    replOf st' name = replOf st name := by
  simp [replOf, lookupMacro, hm]

theorem outP_congr {st st' : PState} (hm : st'.macros = st.macros) :
    ∀ ps : List Piece, outP st' ps = outP st ps
  | [] => rfl
  | .tok t :: rest => by simp only [outP, outP_congr hm rest]
  | .van p q1 q2 name key :: rest => by simp only [outP, outP_congr hm rest, replOf_congr hm]

theorem cost_congr {st st' : PState} (hm : st'.macros = st.macros) :
    ∀ ps : List Piece, cost st' ps = cost st ps
  | [] => rfl
  | .tok t :: rest => by simp only [cost, cost_congr hm rest]
  | .van p q1 q2 name key :: rest => by simp only [cost, cost_congr hm rest, replOf_congr hm]

/-! ### the documents -/

/-- a segment of the source: a run of text, or a call `\name{key}` of a vanishing macro -/
inductive Seg where
  | txt (s : Str)
  | van (name key : Str)
deriving Repr, DecidableEq

def Seg.render : Seg → Str
  | .txt s => s
  | .van name key => '\\' :: (name ++ '{' :: (key ++ ['}']))

/-- the source text -/
def render : List Seg → Str
  | [] => []
  | s :: rest => s.render ++ render rest

/-- the number of source characters of `\name{key}` -/
def vanLen (name key : Str) : Nat := name.length + key.length + 3

/-- **the reference**: the document, which starts at position `p`, as a list of marks —
    a text character with its position, `none` for a call `\name{key}` -/
def marks : Nat → List Seg → List Mark
  | _, [] => []
  | p, .txt s :: rest => (posText p s).map some ++ marks (p + s.length) rest
  | p, .van name key :: rest => none :: marks (p + vanLen name key) rest

/-! ### the side conditions -/

/-- the key character `c`, followed by `rest` (the whole rest of the source): white space, or none
    of `% # \ { }` and, if a special sequence of the tables matches here, it is not empty and does
    not swallow a `}`.  (Whatever the scanner makes of the key — text, white space, special tokens
    like `_ ^ ~ & $ --` — is collected up to the closing brace and thrown away.) -/
def keyAt (T : PTables) (c : Char) (rest : Str) : Bool :=
  isSpace c ||
  (c != '%' && c != '#' && c != '\\' && c != '{' && c != '}' &&
    match matchSpecial T.toTables (c :: rest) with
    | none => true
    | some t => !t.isEmpty && !t.contains '}')

/-- the key `s`, followed by `}` and `R` -/
def keyOk (T : PTables) : Str → Str → Bool
  | [], _ => true
  | c :: cs, R => keyAt T c (cs ++ '}' :: R) && keyOk T cs R

/-- `\name{key}`, followed by `R`:
    * `\name` is one macro token of the scanner (a non-empty string of macro characters — the
      `{` behind it ends the name —, no special sequence matches at the backslash, none of
      `\begin \end \item \verb`, no accent macro) and not `\def`;
    * it is declared in `st` as a vanishing macro (`vanDeclOk`);
    * the two braces are scanned as `{` / `}`;
    * the key: `keyOk` -/
def vanOk (T : PTables) (st : PState) (name key R : Str) : Bool :=
  !name.isEmpty && name.all macroChar &&
  (matchSpecial T.toTables ('\\' :: (name ++ '{' :: (key ++ '}' :: R)))).isNone &&
  ('\\' :: name) != sBegin && ('\\' :: name) != sEnd && ('\\' :: name) != sItem &&
  ('\\' :: name) != sVerb && !T.toTables.isAccent ('\\' :: name) && ('\\' :: name) != sDef &&
  (match lookupMacro st ('\\' :: name) with
   | some m => vanDeclOk m
   | none => false) &&
  braceAt T '{' (key ++ '}' :: R) && keyOk T key R && braceAt T '}' R

/-- well-formed documents: every segment is fine in front of the rendering of the following ones
    (`textOk` of Proofs/PlainUnknown.lean for the text) -/
def segsOk (T : PTables) (st : PState) : List Seg → Bool
  | [] => true
  | .txt s :: rest => textOk T st s (render rest) && segsOk T st rest
  | .van name key :: rest => vanOk T st name key (render rest) && segsOk T st rest

/-- all side conditions on the tables, the initialised parser state and the document -/
def SegsOk (T : PTables) (st : PState) (segs : List Seg) : Prop :=
  noEmptyActive T st = true ∧ segsOk T st segs = true

instance (T : PTables) (st : PState) (segs : List Seg) : Decidable (SegsOk T st segs) := by
  unfold SegsOk; infer_instance

structure VanFacts (T : PTables) (st : PState) (name key R : Str) : Prop where
  cw : CwFacts T ({ macros := [] } : PState) name ('{' :: (key ++ '}' :: R))
  vn : VanName st name
  b1 : braceAt T '{' (key ++ '}' :: R) = true
  key : keyOk T key R = true
  b2 : braceAt T '}' R = true

theorem vanFacts {T : PTables} {st : PState} {name key R : Str} (h : vanOk T st name key R = true) :
    VanFacts T st name key R := by
  simp only [vanOk, Bool.and_eq_true, bne_iff_ne, ne_eq, Bool.not_eq_true', Option.isNone_iff_eq_none,
    List.all_eq_true] at h
  obtain ⟨⟨⟨⟨⟨⟨⟨⟨⟨⟨⟨⟨h1, h2⟩, h3⟩, h4⟩, h5⟩, h6⟩, h7⟩, h8⟩, h9⟩, h10⟩, h11⟩, h12⟩, h13⟩ := h
  refine ⟨⟨by simpa using h1, ?_, h3, h4, h5, h6, h7, h8, h9, rfl⟩, ⟨h9, ?_⟩, h11, h12, h13⟩
  · exact takeWhile_append_stop _ _ _ (by rw [List.all_eq_true]; exact h2) rfl
  · split at h10
    · exact ⟨_, ‹_›, h10⟩
    · cases h10

/-- the source text, which starts at position `p`, with its marks -/
inductive OkSrc (T : PTables) (st : PState) : Nat → Str → List Mark → Prop
  | nil (p : Nat) : OkSrc T st p [] []
  | chr (p : Nat) (c : Char) (cs : Str) (ms : List Mark) :
      okAt T st c cs = true → OkSrc T st (p + 1) cs ms →
      OkSrc T st p (c :: cs) (some (c, p) :: ms)
  | van (p : Nat) (name key R : Str) (ms : List Mark) :
      vanOk T st name key R = true → OkSrc T st (p + vanLen name key) R ms →
      OkSrc T st p ('\\' :: (name ++ '{' :: (key ++ '}' :: R))) (none :: ms)

theorem OkSrc_text (T : PTables) (st : PState) (R : Str) (ms : List Mark) :
    ∀ (s : Str) (p : Nat), OkSrc T st (p + s.length) R ms → textOk T st s R = true →
      OkSrc T st p (s ++ R) ((posText p s).map some ++ ms)
  | [], _, hR, _ => hR
  | c :: cs, p, hR, h => by
    simp only [textOk, Bool.and_eq_true] at h
    have hR' : OkSrc T st (p + 1 + cs.length) R ms := by
      have e : p + 1 + cs.length = p + (c :: cs).length := by simp; omega
      rw [e]; exact hR
    exact OkSrc.chr p c (cs ++ R) _ h.1 (OkSrc_text T st R ms cs (p + 1) hR' h.2)

theorem OkSrc_of_segsOk (T : PTables) (st : PState) :
    ∀ (segs : List Seg) (p : Nat), segsOk T st segs = true →
      OkSrc T st p (render segs) (marks p segs)
  | [], p, _ => .nil p
  | .txt s :: rest, p, h => by
    simp only [segsOk, Bool.and_eq_true] at h
    exact OkSrc_text T st _ _ s p (OkSrc_of_segsOk T st rest _ h.2) h.1
  | .van name key :: rest, p, h => by
    simp only [segsOk, Bool.and_eq_true] at h
    have := OkSrc.van p name key (render rest) _ h.1 (OkSrc_of_segsOk T st rest _ h.2)
    simpa [render, Seg.render, marks] using this

/-- white space in front can be dropped -/
theorem OkSrc_drop_space (T : PTables) (st : PState) :
    ∀ (k : Nat) (p : Nat) (s : Str) (ms : List Mark), k ≤ s.length → OkSrc T st p s ms →
      (∀ x ∈ s.take k, isSpace x = true) →
      ∃ ms', ms = (posText p (s.take k)).map some ++ ms' ∧ OkSrc T st (p + k) (s.drop k) ms'
  | 0, _, _, ms, _, h, _ => ⟨ms, rfl, h⟩
  | k + 1, _, [], _, hk, _, _ => by simp at hk
  | k + 1, p, c :: cs, _, hk, h, hsp => by
    have hc : isSpace c = true := hsp c (by simp)
    cases h with
    | chr _ _ _ ms0 _ h2 =>
      obtain ⟨ms', e, h3⟩ := OkSrc_drop_space T st k (p + 1) cs ms0 (by simpa using hk) h2
        (fun x hx => hsp x (by simp [hx]))
      refine ⟨ms', by simp [posText, e], ?_⟩
      have e : p + (k + 1) = p + 1 + k := by omega
      rw [e]; exact h3
    | van _ name key R _ _ _ => exact absurd hc (by decide)

/-- the conditions depend on the state only through the language stack and the macro table -/
theorem OkSrc.congr {T : PTables} {st st' : PState} (hl : st'.langStack = st.langStack)
    (hm : st'.macros = st.macros)
    {p : Nat} {s : Str} {ms : List Mark} (h : OkSrc T st p s ms) : OkSrc T st' p s ms := by
  induction h with
  | nil p => exact .nil p
  | chr p c cs ms hat _ ih =>
    refine .chr p c cs ms ?_ ih
    rw [← hat]
    simp only [okAt, activeChars_congr T st st' hl, shortKeys_congr T st st' hl]
  | van p name key R ms hd _ ih =>
    refine .van p name key R ms ?_ ih
    rw [← hd]
    simp only [vanOk, lookupMacro, hm]

/-! ### the scanner -/

theorem marksOf_voids (p : Nat) : ∀ (vs : List Tok), (∀ t ∈ vs, t.kind = .void ∧ t.txt = []) →
    marksOf (vs.map (restamp p)) = []
  | [], _ => rfl
  | t :: vs, h => by
    obtain ⟨h1, h2⟩ := h t (List.mem_cons_self ..)
    rw [List.map_cons, marksOf_cons, marksOf_voids p vs (fun x hx => h x (List.mem_cons_of_mem _ hx)),
      tokMarks_nil _ (by simpa [restamp] using h2) (by simp [isAction, restamp, h1])]
    rfl

theorem simple_void (p : Nat) (t : Tok) (h : t.kind = .void ∧ t.txt = []) : Simple (restamp p t) :=
  Simple_of_nil _ (by simpa [restamp] using h.2) (by simp [isLang, restamp, h.1])

theorem VanName.repl {st : PState} {name : Str} (h : VanName st name) :
    (∀ t ∈ replOf st name, t.kind = .void ∧ t.txt = []) ∧ (replOf st name).length ≤ 2 := by
  obtain ⟨_, m, hm, hd⟩ := h
  have D := vanDecl hd
  have hr : replOf st name = m.repl := by simp [replOf, hm]
  rw [hr]
  exact ⟨D.voids, D.len⟩

theorem keyOk_drop (T : PTables) (R : Str) : ∀ (k : Nat) (s : Str), keyOk T s R = true →
    keyOk T (s.drop k) R = true
  | 0, _, h => h
  | _ + 1, [], h => h
  | k + 1, c :: cs, h => by
    simp only [keyOk, Bool.and_eq_true] at h
    exact keyOk_drop T R k cs h.2

theorem keyAt_noClose {T : PTables} {c : Char} {rest : Str} (h : keyAt T c rest = true) : c ≠ '}' := by
  intro e
  subst e
  simp [keyAt, show isSpace '}' = false by decide] at h

theorem keyOk_noClose (T : PTables) (R : Str) : ∀ (s : Str), keyOk T s R = true → '}' ∉ s
  | [], _ => by simp
  | c :: cs, h => by
    simp only [keyOk, Bool.and_eq_true] at h
    have := keyOk_noClose T R cs h.2
    have hc := keyAt_noClose h.1
    simp only [List.mem_cons, not_or]
    exact ⟨fun e => hc e.symm, this⟩

/-- a prefix without `x` of `a ++ x :: b`, `x ∉ a`, is a prefix of `a` -/
theorem startsWith_len_le (x : Char) (b : Str) : ∀ (a t : Str), startsWith (a ++ x :: b) t = true →
    x ∉ t → t.length ≤ a.length
  | _, [], _, _ => by simp
  | [], d :: t, h, hx => by
    simp only [List.nil_append, startsWith, Bool.and_eq_true, beq_iff_eq] at h
    exact absurd (by simp [h.1]) hx
  | c :: a, d :: t, h, hx => by
    simp only [List.cons_append, startsWith, Bool.and_eq_true] at h
    have := startsWith_len_le x b a t h.2 (fun e => hx (List.mem_cons_of_mem _ e))
    simp only [List.length_cons]; omega

theorem matchSpecial_startsWith {T : Tables} {rest t : Str} (h : matchSpecial T rest = some t) :
    startsWith rest t = true := by
  unfold matchSpecial at h
  exact List.find?_some h

/-- one scanner step inside a key: the token stays inside the key, it is no brace and no comment -/
theorem nextToken_key (T : PTables) (src : Str) (pos : Nat) (c : Char) (cs R : Str)
    (h : keyAt T c (cs ++ '}' :: R) = true) :
    ∃ s, nextToken T.toTables src pos (c :: (cs ++ '}' :: R)) = s ∧ s.diag = none ∧ s.extra = [] ∧
      1 ≤ s.len ∧ s.len ≤ (c :: cs).length ∧ NoBrace s.tok ∧ s.tok.kind ≠ .comment := by
  have hcl := keyAt_noClose h
  unfold nextToken
  by_cases hsp : isSpace c = true
  · simp only [hsp, if_true]
    have htw : (c :: (cs ++ '}' :: R)).takeWhile isSpace = (c :: cs).takeWhile isSpace := by
      rw [show c :: (cs ++ '}' :: R) = (c :: cs) ++ '}' :: R from rfl,
        takeWhile_append_stop1 isSpace '}' (by decide) (c :: cs) R]
    have hne : (c :: cs).takeWhile isSpace = c :: cs.takeWhile isSpace := by simp [hsp]
    refine ⟨_, rfl, rfl, rfl, ?_, ?_, ⟨?_, ?_⟩, ?_⟩
    · simp [scanSpace, htw, hne]
    · simp only [scanSpace, htw]; exact ScannerAux.length_takeWhile_le' _ _
    · have : c ≠ '{' := by intro e; rw [e] at hsp; exact absurd hsp (by decide)
      simp [scanSpace, txtIsNV, htw, hne, this]
    · simp [scanSpace, txtIsNV, htw, hne, hcl]
    · simp only [scanSpace]; split <;> simp
  · have hsp' : isSpace c = false := by simpa using hsp
    simp only [keyAt, hsp', Bool.false_or, Bool.and_eq_true, bne_iff_ne, ne_eq] at h
    obtain ⟨⟨⟨⟨⟨h1, h2⟩, h3⟩, h4⟩, _⟩, h6⟩ := h
    simp only [hsp', Bool.false_eq_true, if_false, beq_iff_eq, h1, h2, h3]
    cases hm : matchSpecial T.toTables (c :: (cs ++ '}' :: R)) with
    | none =>
      refine ⟨_, rfl, rfl, rfl, Nat.le_refl _, by simp, ⟨?_, ?_⟩, by simp⟩
      · simp [txtIsNV, h4]
      · simp [txtIsNV, hcl]
    | some t =>
      rw [hm] at h6
      simp only [Bool.and_eq_true, Bool.not_eq_true', List.isEmpty_eq_false_iff,
        List.contains_eq_mem, decide_eq_false_iff_not] at h6
      obtain ⟨hne, hnc⟩ := h6
      have hsw := matchSpecial_startsWith hm
      have hlen := startsWith_len_le '}' R (c :: cs) t hsw hnc
      obtain ⟨d, t', rfl⟩ : ∃ d t', t = d :: t' := by
        cases t with
        | nil => exact absurd rfl hne
        | cons d t' => exact ⟨d, t', rfl⟩
      have hd : d = c := by
        simp only [startsWith, Bool.and_eq_true, beq_iff_eq] at hsw
        exact hsw.1.symm
      subst hd
      refine ⟨_, rfl, rfl, rfl, by simp, hlen, ⟨?_, ?_⟩, by simp⟩
      · simp [txtIsNV, h4]
      · simp [txtIsNV, hcl]

/-- what the scanner loop yields on a key -/
structure KeyRun (s : Str) (steps : List ScanStep) : Prop where
  ok : ∀ x ∈ steps, x.diag = none ∧ x.extra = [] ∧ NoBrace x.tok ∧ x.tok.kind ≠ .comment
  len : steps.length ≤ s.length

/-- the scanner loop runs through a key in front of `}` -/
theorem scanSteps_key (T : PTables) (src : Str) (R : Str) :
    ∀ (n : Nat) (s : Str) (pos fuel : Nat), s.length ≤ n → s.length ≤ fuel →
      keyOk T s R = true →
      ∃ steps, KeyRun s steps ∧
        scanSteps T.toTables src fuel pos (s ++ '}' :: R)
          = (steps ++ (scanSteps T.toTables src (fuel - steps.length) (pos + s.length) ('}' :: R)).1,
             (scanSteps T.toTables src (fuel - steps.length) (pos + s.length) ('}' :: R)).2) := by
  intro n
  induction n with
  | zero =>
    intro s pos fuel hn _ _
    have : s = [] := by cases s <;> simp_all
    subst this
    exact ⟨[], ⟨by simp, by simp⟩, by simp⟩
  | succ n ih =>
    intro s pos fuel hn hf hok
    cases s with
    | nil => exact ⟨[], ⟨by simp, by simp⟩, by simp⟩
    | cons c cs =>
      obtain ⟨f, rfl⟩ : ∃ f, fuel = f + 1 := ⟨fuel - 1, by simp at hf; omega⟩
      have hok' := hok
      simp only [keyOk, Bool.and_eq_true] at hok'
      obtain ⟨x, hx, h1, h2, h3, h4, h5, h6⟩ :=
        nextToken_key T src pos c cs R hok'.1
      simp only [List.length_cons] at hn hf h4
      have hdrop : (c :: (cs ++ '}' :: R)).drop x.len = (c :: cs).drop x.len ++ '}' :: R := by
        rw [show c :: (cs ++ '}' :: R) = (c :: cs) ++ '}' :: R from rfl,
          List.drop_append_of_le_length (by simpa using h4)]
      have hl' : ((c :: cs).drop x.len).length = cs.length + 1 - x.len := by simp
      obtain ⟨steps', B, hsc⟩ := ih ((c :: cs).drop x.len) (pos + x.len) f (by omega) (by omega)
        (keyOk_drop T R x.len (c :: cs) hok)
      refine ⟨x :: steps', ⟨?_, ?_⟩, ?_⟩
      · intro y hy
        rcases List.mem_cons.mp hy with rfl | hy
        · exact ⟨h1, h2, h5, h6⟩
        · exact B.ok y hy
      · have := B.len
        simp only [List.length_cons]; omega
      · rw [show (c :: cs) ++ '}' :: R = c :: (cs ++ '}' :: R) from rfl,
          scanSteps_step T.toTables src f pos c _ x hx (by omega), hdrop, hsc]
        simp only [List.cons_append, List.length_cons]
        have e1 : pos + x.len + ((c :: cs).drop x.len).length = pos + (cs.length + 1) := by omega
        have e2 : f + 1 - (steps'.length + 1) = f - steps'.length := by omega
        rw [e1, e2]

/-- what the scanner loop yields on a well-formed source, and what the token buffer means -/
structure ScanFacts (T : PTables) (st : PState) (rest : Str) (ms : List Mark)
    (steps : List ScanStep) : Prop where
  ok : ∀ s ∈ steps, s.diag = none ∧ s.extra = []
  pieces : ∃ ps, steps.map (·.tok) = flat ps ∧ PiecesOk T st ps ∧ marksOf (outP st ps) = ms ∧
    (∀ t ∈ outP st ps, Simple t) ∧ cost st ps ≤ rest.length
  first : ∀ s ss, steps = s :: ss → s.tok.txt = firstTokTxtM rest

theorem ScanFacts_nil (T : PTables) (st : PState) : ScanFacts T st [] [] [] :=
  ⟨by simp, ⟨[], rfl, trivial, rfl, by simp [outP], by simp [cost]⟩, by simp⟩

/-- the scanner loop on a well-formed source -/
theorem scanSteps_van (T : PTables) (st : PState) (src : Str) :
    ∀ (n fuel pos : Nat) (rest : Str) (ms : List Mark),
    rest.length ≤ n → rest.length ≤ fuel → OkSrc T st pos rest ms →
    (scanSteps T.toTables src fuel pos rest).2 = true ∧
    ScanFacts T st rest ms (scanSteps T.toTables src fuel pos rest).1 := by
  intro n
  induction n with
  | zero =>
    intro fuel pos rest ms hn _ hok
    cases rest with
    | nil => cases hok; exact ⟨by simp [scanSteps], by simpa [scanSteps] using ScanFacts_nil T st⟩
    | cons c cs => simp at hn
  | succ n ih =>
    intro fuel pos rest ms hn hf hok
    cases rest with
    | nil => cases hok; exact ⟨by simp [scanSteps], by simpa [scanSteps] using ScanFacts_nil T st⟩
    | cons c cs =>
      obtain ⟨fuel, rfl⟩ : ∃ f, fuel = f + 1 := ⟨fuel - 1, by simp at hf; omega⟩
      have hok0 := hok
      cases hok with
      | chr _ _ _ ms' hat hsub0 =>
        have hsnd := okAt_snd hat
        obtain ⟨hp, hone⟩ := nextToken_text T src pos c cs hsnd
        generalize hs : nextToken T.toTables src pos (c :: cs) = s at hp hone
        have h1 := hp.len_pos
        have h2 := hp.len_le
        have hsub : ∃ ms1, some (c, pos) :: ms' = (posText pos ((c :: cs).take s.len)).map some ++ ms1 ∧
            OkSrc T st (pos + s.len) ((c :: cs).drop s.len) ms1 := by
          by_cases hsp : isSpace c = true
          · refine OkSrc_drop_space T st s.len pos (c :: cs) _ h2 hok0 ?_
            intro x hx
            rw [← hp.txt, hp.first] at hx
            simp only [firstTokTxt, hsp, if_true] at hx
            exact mem_takeWhile_imp _ _ _ hx
          · have := (hone (by simpa using hsp)).1
            rw [this]
            exact ⟨ms', rfl, hsub0⟩
        obtain ⟨ms1, hms1, hsub⟩ := hsub
        rw [scanSteps_step T.toTables src fuel pos c cs s hs (by omega)]
        have hl : ((c :: cs).drop s.len).length ≤ fuel := by
          simp only [List.length_drop]; simp only [List.length_cons] at hf h2 ⊢; omega
        have hl' : ((c :: cs).drop s.len).length ≤ n := by
          simp only [List.length_drop]; simp only [List.length_cons] at hn h2 ⊢; omega
        obtain ⟨i1, I⟩ := ih fuel (pos + s.len) ((c :: cs).drop s.len) ms1 hl' hl hsub
        obtain ⟨ps', hflat, hpok, hmarks, hsimple, hcost⟩ := I.pieces
        have hne : s.tok.txt ≠ [] := by
          rw [hp.txt]
          intro h0
          have := congrArg List.length h0
          simp only [List.length_take, List.length_nil] at this
          omega
        have hshape : Shape s.tok := by
          refine ⟨hne, ?_⟩
          intro hnl
          by_cases hsp : isSpace c = true
          · rw [hp.first]
            simp only [firstTokTxt, hsp, if_true, isBlank, List.all_eq_true]
            exact fun x hx => mem_takeWhile_imp _ _ _ hx
          · have hsp' : isSpace c = false := by simpa using hsp
            have := (hone hsp').1
            rw [hp.txt, this] at hnl
            simp only [List.take_succ_cons, List.take_zero] at hnl
            rw [hasNl_single c hsp'] at hnl; cases hnl
        refine ⟨i1, ?_, ?_, ?_⟩
        · intro x hx
          rcases List.mem_cons.mp hx with rfl | hx
          · exact ⟨hp.diag, hp.extra⟩
          · exact I.ok x hx
        · refine ⟨.tok s.tok :: ps', by simp [flat, Piece.toks, hflat], ⟨hp.tok, ?_, hpok⟩, ?_, ?_, ?_⟩
          · -- the short-macro branch
            rw [← hflat]
            have hact := hat
            simp only [okAt, Bool.and_eq_true, Bool.or_eq_true, Bool.not_eq_true'] at hact
            rcases hact.1 with hna | ⟨hns, hk⟩
            · left
              have : s.tok.txt = c :: (cs.take (s.len - 1)) := by
                rw [hp.txt]
                obtain ⟨k, hk⟩ : ∃ k, s.len = k + 1 := ⟨s.len - 1, by omega⟩
                rw [hk]; simp
              rw [this]
              exact not_active_cons T st c _ hna
            · right
              have hlen := (hone hns).1
              have htxt : s.tok.txt = [c] := by rw [hp.txt, hlen]; rfl
              have i4 := I.first
              rw [hlen] at i4 ⊢
              simp only [List.drop_succ_cons, List.drop_zero] at i4 ⊢
              cases hr : (scanSteps T.toTables src fuel (pos + 1) cs).1 with
              | nil => rfl
              | cons s2 ss =>
                simp only [List.map_cons]
                apply expandShortMacro_none
                rw [htxt, i4 s2 ss hr]
                rcases hk with hk | hk
                · cases cs with
                  | nil => cases fuel <;> simp [scanSteps] at hr
                  | cons => simp at hk
                · simpa using hk
          · simp only [outP]
            rw [marksOf_cons, tokMarks_nonaction _ hp.tok.notAction, tokChars_nofix _ hp.fix, hmarks,
              hp.txt, hp.pos, hms1]
          · intro x hx
            simp only [outP, List.mem_cons] at hx
            rcases hx with rfl | hx
            · exact simple_of_plain hp.tok hshape
            · exact hsimple x hx
          · simp only [cost, List.length_cons, List.length_drop] at hcost h2 ⊢
            omega
        · intro s' ss' he
          simp only [List.cons.injEq] at he
          rw [← he.1, hp.first]
          refine (firstTokTxtM_of_text c cs ?_).symm
          rcases hsnd with h | h
          · exact Or.inl h
          · exact Or.inr h.1
      | van _ name key R ms' hd hsub =>
        have V := vanFacts hd
        have hname := List.length_pos_iff.mpr V.cw.ne
        simp only [List.length_cons, List.length_append] at hf hn
        obtain ⟨g, hg⟩ : ∃ g, fuel = g + 1 := ⟨fuel - 1, by omega⟩
        have hn1 := nextToken_cw T _ src pos name _ V.cw
        have hn2 := nextToken_brace T src (pos + (name.length + 1)) '{' _ (Or.inl rfl) V.b1
        have hn3 := nextToken_brace T src (pos + (name.length + 1) + 1 + key.length) '}' R
          (Or.inr rfl) V.b2
        obtain ⟨bsteps, B, hrun⟩ := scanSteps_key T src R key.length key
          (pos + (name.length + 1) + 1) g (Nat.le_refl _) (by omega) V.key
        have hBl := B.len
        obtain ⟨g', hg'⟩ : ∃ g', g - bsteps.length = g' + 1 := ⟨g - bsteps.length - 1, by omega⟩
        have hpos : pos + (name.length + 1) + 1 + key.length + 1 = pos + vanLen name key := by
          simp only [vanLen]; omega
        obtain ⟨i1, I⟩ := ih g' (pos + vanLen name key) R ms' (by omega) (by omega) hsub
        obtain ⟨ps', hflat, hpok, hmarks, hsimple, hcost⟩ := I.pieces
        have hd1 : ('\\' :: (name ++ '{' :: (key ++ '}' :: R))).drop (name.length + 1)
            = '{' :: (key ++ '}' :: R) := by simp
        have hsteps : scanSteps T.toTables src (fuel + 1) pos
              ('\\' :: (name ++ '{' :: (key ++ '}' :: R)))
            = ({ tok := cwTok pos name, len := name.length + 1 } ::
               { tok := { kind := .special, pos := pos + (name.length + 1), txt := ['{'] }, len := 1 } ::
               (bsteps ++
                 { tok := { kind := .special, pos := pos + (name.length + 1) + 1 + key.length,
                            txt := ['}'] }, len := 1 } ::
                 (scanSteps T.toTables src g' (pos + vanLen name key) R).1),
               (scanSteps T.toTables src g' (pos + vanLen name key) R).2) := by
          rw [hg, scanSteps_step T.toTables src (g + 1) pos _ _ _ hn1 (by simp), hd1]
          simp only []
          rw [scanSteps_step T.toTables src g _ _ _ _ hn2 (by simp)]
          simp only [List.drop_succ_cons, List.drop_zero]
          rw [hrun, hg', scanSteps_step T.toTables src g' _ _ _ _ hn3 (by simp)]
          simp only [List.drop_succ_cons, List.drop_zero, hpos]
        rw [hsteps]
        obtain ⟨hvoid, hvlen⟩ := V.vn.repl
        refine ⟨i1, ?_, ?_, ?_⟩
        · intro x hx
          simp only [List.mem_cons, List.mem_append] at hx
          rcases hx with rfl | rfl | hx | rfl | hx
          · exact ⟨rfl, rfl⟩
          · exact ⟨rfl, rfl⟩
          · exact ⟨(B.ok x hx).1, (B.ok x hx).2.1⟩
          · exact ⟨rfl, rfl⟩
          · exact I.ok x hx
        · refine ⟨.van pos (pos + (name.length + 1)) (pos + (name.length + 1) + 1 + key.length) name
              (bsteps.map (·.tok)) :: ps', ?_, ⟨V.vn, ?_, hpok⟩, ?_, ?_, ?_⟩
          · simp [flat, Piece.toks, hflat, lbr, rbr]
          · intro t ht
            obtain ⟨x, hx, rfl⟩ := List.mem_map.mp ht
            exact (B.ok x hx).2.2
          · simp only [outP]
            rw [marksOf_cons, tokMarks_mkAction, marksOf_append, marksOf_voids _ _ hvoid, hmarks]
            rfl
          · intro x hx
            simp only [outP, List.mem_cons, List.mem_append] at hx
            rcases hx with rfl | hx | hx
            · exact simple_mkAction pos
            · obtain ⟨u, hu, rfl⟩ := List.mem_map.mp hx
              exact simple_void pos u (hvoid u hu)
            · exact hsimple x hx
          · simp only [cost, List.length_cons, List.length_append]
            omega
        · intro s' ss' he
          simp only [List.cons.injEq] at he
          rw [← he.1]
          simp [firstTokTxtM, cwTok, V.cw.tw, show isSpace '\\' = false by decide]

/-- `scan` on a well-formed source: no diagnostics; the token buffer consists of plain tokens and
    calls, and its output tokens spell the marks of the source -/
theorem scan_van (T : PTables) (st : PState) (src : Str) (ms : List Mark)
    (h : OkSrc T st 0 src ms) :
    (scan T.toTables src).diags = [] ∧
    ∃ ps, (scan T.toTables src).toks = flat ps ∧ PiecesOk T st ps ∧ marksOf (outP st ps) = ms ∧
      (∀ t ∈ outP st ps, Simple t) ∧ cost st ps ≤ src.length := by
  obtain ⟨_, F⟩ := scanSteps_van T st src src.length src.length 0 src ms (Nat.le_refl _)
    (Nat.le_refl _) h
  have he := flatten_tok_extra (scanSteps T.toTables src src.length 0 src).1 (fun s hs => (F.ok s hs).2)
  have hd := flatten_diag_nil (scanSteps T.toTables src src.length 0 src).1 (fun s hs => (F.ok s hs).1)
  obtain ⟨ps, h1, h2, h3, h4, h5⟩ := F.pieces
  simp only [scan]
  rw [he, hd]
  exact ⟨rfl, ps, h1, h2, h3, h4, h5⟩

/-! ### `parserWork`, `parse`, `tex2txt` -/

/-- **`parserWork` on a well-formed source.**  The characters of the result tokens, with their
    positions, are the reference output: the marks of the document with the pure Action lines
    deleted.  The state is unchanged. -/
theorem parserWork_van (T : PTables) (st : PState) (src : Str) (fuel : Nat) (ms : List Mark)
    (hf : src.length + 2 ≤ fuel) (ha : noEmptyActive T st = true) (h : OkSrc T st 0 src ms) :
    ∃ r, parserWork T fuel src st = .ok (r, st) ∧ charsOf r = delLines ms := by
  obtain ⟨f, rfl⟩ : ∃ f, fuel = f + 1 := ⟨fuel - 1, by omega⟩
  obtain ⟨hd, ps, hflat, hpok, hmarks, hsimple, hcost⟩ := scan_van T st src ms h
  let st' : PState := { st with latex := src, nest := st.nest + 1 }
  have hpok' : PiecesOk T st' ps := PiecesOk.congr (st := st) (st' := st') rfl rfl hpok
  have hout : outP st' ps = outP st ps := outP_congr (st := st) (st' := st') rfl ps
  have hc : cost st' ps = cost st ps := cost_congr (st := st) (st' := st') rfl ps
  have hs := seq_van T none st' ((noEmptyActive_congr T st st' rfl).trans ha) ps f [] (by omega) hpok'
  rw [List.nil_append, hout] at hs
  obtain ⟨r, hr, hchars⟩ := removeLines_simple _ hsimple
  rw [hr] at hs
  simp only [] at hs
  rw [hmarks] at hchars
  refine ⟨r, ?_, hchars⟩
  rw [parserWork.eq_2]
  refine (M.bind_ok _ _ _ _ _ (rfl : M.get st = _)).trans ?_
  refine (M.bind_ok _ _ _ _ _ (rfl : M.modify _ _ = _)).trans ?_
  refine (M.bind_ok _ _ _ _ _ (rfl : M.modify _ _ = _)).trans ?_
  refine (M.bind_ok _ _ _ _ _ (rfl : M.get _ = _)).trans ?_
  simp only [hd, List.append_nil]
  rw [skipPass_nocomment _ _ _ (fun t ht' => hpok.notComment t (by rw [← hflat]; exact ht'))]
  simp only []
  refine (M.bind_ok _ _ _ _ _ (rfl : (pure _ : M (List Tok)) _ = _)).trans ?_
  rw [hflat]
  refine (M.bind_ok _ _ _ _ _ hs).trans ?_
  refine (M.bind_ok _ _ _ _ _ (rfl : M.modify _ _ = _)).trans ?_
  show Outcome.ok _ = _
  simp only [st', Nat.add_sub_cancel]

theorem parse_van (T : PTables) (st : PState) (src : Str) (fuel : Nat) (ms : List Mark)
    (hf : src.length + 2 ≤ fuel) (ha : noEmptyActive T st = true) (h : OkSrc T st 0 src ms) :
    ∃ r, parse T fuel src [] [] st
        = .ok (r, { st with extracted := [], unknowns := [], foreign := false, nest := 0 }) ∧
      charsOf r = delLines ms := by
  have h' : OkSrc T { st with extracted := [], unknowns := [], foreign := false, nest := 0 } 0 src ms :=
    OkSrc.congr (st := st)
      (st' := { st with extracted := [], unknowns := [], foreign := false, nest := 0 }) rfl rfl h
  obtain ⟨r, hw, hc⟩ := parserWork_van T
    { st with extracted := [], unknowns := [], foreign := false, nest := 0 } src fuel ms hf
    ((noEmptyActive_congr T st _ rfl).trans ha) h'
  refine ⟨r, ?_, hc⟩
  unfold parse
  simp only [List.isEmpty_nil, Bool.not_true, Bool.false_eq_true, if_false, if_true]
  refine (M.bind_ok _ _ _ _ _ (rfl : M.modify _ _ = _)).trans ?_
  refine (M.bind_ok _ _ _ _ _ (rfl : (pure _ : M (List Tok)) _ = _)).trans ?_
  refine (M.bind_ok _ _ _ _ _ (rfl : M.modify _ _ = _)).trans ?_
  refine (M.bind_ok _ _ _ _ _ hw).trans ?_
  refine (M.bind_ok _ _ _ _ _ (rfl : M.get _ = _)).trans ?_
  show Outcome.ok _ = _
  simp

/-- the result record of `tex2txt` on a well-formed source (no `--defs`, `--extr`, `--repl`,
    `--unkn`; single-language mode) -/
theorem tex2txt_van_src (T : PTables) (o : Options) (fs : FS) (thresh : Nat) (src : Str) (fuel : Nat)
    (st1 : PState) (ms : List Mark)
    (hdefs : o.defs = []) (hextr : o.extr = []) (hrepl : o.hasRepl = false) (hunkn : o.unkn = false)
    (hinit : initParser T fuel o (initialState T o false fs) = .ok ((), st1))
    (ha : noEmptyActive T st1 = true) (h : OkSrc T st1 0 src ms)
    (hf : src.length + 2 ≤ fuel) :
    ∃ toks, tex2txt T fuel src o false thresh fs
        = .ok { toks := toks, txt := (delLines ms).map (·.1),
                pos := (delLines ms).map (·.2 + 1), parts := [],
                unknowns := [], diags := st1.diags, foreign := false } := by
  obtain ⟨r, hp, hc⟩ := parse_van T st1 src fuel ms hf ha h
  refine ⟨r, ?_⟩
  have hrun : (initParser T fuel o >>= fun _ => parse T fuel src o.defs
        (if o.extr.isEmpty then [] else (splitOn ',' o.extr []).map (fun s => '\\' :: s)))
        (initialState T o false fs)
      = .ok (r, { st1 with extracted := [], unknowns := [], foreign := false, nest := 0 }) := by
    refine (M.bind_ok _ _ _ _ _ hinit).trans ?_
    rw [hdefs, hextr]
    exact hp
  unfold tex2txt
  simp only []
  rw [hrun]
  simp only [hrepl, hunkn, Bool.not_false, if_true, Bool.false_eq_true, if_false,
    getTxtPos_charsOf, hc, List.map_map]
  rfl

/-- **C05 / C03 end to end.**  The document consists of inert text and calls `\name{key}` of
    vanishing macros (`SegsOk`: all side conditions); `st1` is the state after
    `Parser.__init__`; no `--defs`, `--extr`, `--repl`, `--unkn`; single-language mode.  With one
    unit of fuel per source character and two more, `tex2txt` succeeds and

    * the output text with its (1-based) positions is `delLines (marks 0 segs)`: every text
      character with its own position, nothing for a call, and then every line deleted (with its
      line break) that consists of white space only and holds at least one call
      (`remove_pure_action_lines`);
    * there are no unknowns and no diagnostic is added. -/
theorem tex2txt_vanish (T : PTables) (o : Options) (fs : FS) (thresh : Nat) (segs : List Seg)
    (fuel : Nat) (st1 : PState)
    (hdefs : o.defs = []) (hextr : o.extr = []) (hrepl : o.hasRepl = false) (hunkn : o.unkn = false)
    (hinit : initParser T fuel o (initialState T o false fs) = .ok ((), st1))
    (hok : SegsOk T st1 segs) (hf : (render segs).length + 2 ≤ fuel) :
    ∃ r, tex2txt T fuel (render segs) o false thresh fs = .ok r ∧
      r.txt = (delLines (marks 0 segs)).map (·.1) ∧
      r.pos = (delLines (marks 0 segs)).map (·.2 + 1) ∧
      r.unknowns = [] ∧ r.diags = st1.diags ∧ r.parts = [] := by
  obtain ⟨ha, hsegs⟩ := hok
  have hsrc := OkSrc_of_segsOk T st1 segs 0 hsegs
  obtain ⟨toks, ht⟩ := tex2txt_van_src T o fs thresh (render segs) fuel st1 _ hdefs hextr hrepl hunkn
    hinit ha hsrc hf
  exact ⟨_, ht, rfl, rfl, rfl, rfl, rfl⟩

/-! ### readings of the reference -/

/-- the text characters of the document with their positions: the source with the calls cut out -/
def plain : Nat → List Seg → List (Char × Nat)
  | _, [] => []
  | p, .txt s :: rest => posText p s ++ plain (p + s.length) rest
  | p, .van name key :: rest => plain (p + vanLen name key) rest

theorem marks_chars : ∀ (segs : List Seg) (p : Nat), (marks p segs).filterMap id = plain p segs
  | [], _ => rfl
  | .txt s :: rest, p => by
    simp only [marks, plain, List.filterMap_append, filterMap_map_some, marks_chars rest]
  | .van name key :: rest, p => by
    simp only [marks, plain, List.filterMap_cons, id, marks_chars rest]

/-- no line is deleted as long as no blank line is marked -/
theorem linesKept_text : ∀ (l : List (Char × Nat)) (b a : Bool), (b && a) = false →
    linesKept b a (l.map some) = true
  | [], b, a, h => by simp [linesKept, h]
  | cp :: l, b, a, h => by
    simp only [List.map_cons, linesKept]
    split
    · simp [h, linesKept_text l true false rfl]
    · exact linesKept_text l _ a (by rw [Bool.and_right_comm, h]; rfl)

/-- text without calls is not changed -/
theorem delLines_text (l : List (Char × Nat)) : delLines (l.map some) = l := by
  rw [delLines_kept _ (linesKept_text l true false rfl), filterMap_map_some]

theorem linesKept_visible (cp : Char × Nat) (hv : isSpace cp.1 = false) (X : List Mark)
    (hX : linesKept false true X = true) :
    ∀ (A : List (Char × Nat)) (b : Bool), linesKept b false (A.map some ++ some cp :: none :: X) = true
  | [], b => by
    have hn : (cp.1 == nl) = false := by
      cases hb : cp.1 == nl with
      | false => rfl
      | true => rw [beq_iff_eq] at hb; rw [hb] at hv; exact absurd hv (by decide)
    simp [linesKept, hn, hv, hX]
  | x :: A, b => by
    simp only [List.map_cons, List.cons_append, linesKept]
    split
    · simp [linesKept_visible cp hv X hX A true]
    · exact linesKept_visible cp hv X hX A _

/-- **a call behind visible text**: it is cut out, nothing else changes (no line break is added or
    removed, whatever follows) -/
theorem delLines_cut_same_line (A B : List (Char × Nat)) (cp : Char × Nat) (hv : isSpace cp.1 = false) :
    delLines ((A ++ [cp]).map some ++ none :: B.map some) = A ++ cp :: B := by
  have h : linesKept true false (A.map some ++ some cp :: none :: B.map some) = true :=
    linesKept_visible cp hv _ (linesKept_text B false true rfl) A true
  have e : (A ++ [cp]).map some ++ none :: B.map some = A.map some ++ some cp :: none :: B.map some := by
    simp
  rw [e, delLines_kept _ h]
  simp

/-- **a call alone on its line**, between a line break and a line break: the call and the second
    line break are deleted — no blank line (paragraph break) appears -/
theorem delLines_cut_own_line (A B : List (Char × Nat)) (q1 q2 : Nat) :
    delLines ((A ++ [(nl, q1)]).map some ++ none :: ((nl, q2) :: B).map some) = A ++ (nl, q1) :: B := by
  have h := delLines_drop_line ((A ++ [(nl, q1)]).map some) [none] (B.map some) (nl, q2)
    (Or.inr ⟨A.map some, (nl, q1), by simp, by simp⟩)
    (by intro m hm; left; simpa using hm) rfl (by simp)
  have e : (A ++ [(nl, q1)]).map some ++ none :: ((nl, q2) :: B).map some
      = (A ++ [(nl, q1)]).map some ++ ([none] ++ some (nl, q2) :: B.map some) := by simp
  rw [e, h, ← List.map_append, delLines_text]
  simp

/-- the reference only deletes: every output character is a character of the marks -/
theorem delGo_mem (cp : Char × Nat) : ∀ (ms : List Mark) (cur : List (Char × Nat)) (b a : Bool),
    cp ∈ delGo cur b a ms → cp ∈ cur ∨ some cp ∈ ms
  | [], cur, b, a, h => by
    simp only [delGo] at h
    split at h
    · simp at h
    · exact Or.inl h
  | none :: xs, cur, b, a, h => by
    simp only [delGo] at h
    rcases delGo_mem cp xs cur b true h with h | h
    · exact Or.inl h
    · exact Or.inr (List.mem_cons_of_mem _ h)
  | some x :: xs, cur, b, a, h => by
    simp only [delGo] at h
    split at h
    · rcases List.mem_append.mp h with h | h
      · split at h
        · simp at h
        · rcases List.mem_append.mp h with h | h
          · exact Or.inl h
          · right; simp at h; simp [h]
      · rcases delGo_mem cp xs [] true false h with h | h
        · simp at h
        · exact Or.inr (List.mem_cons_of_mem _ h)
    · rcases delGo_mem cp xs _ _ a h with h | h
      · rcases List.mem_append.mp h with h | h
        · exact Or.inl h
        · right; simp at h; simp [h]
      · exact Or.inr (List.mem_cons_of_mem _ h)

theorem delLines_mem {cp : Char × Nat} {ms : List Mark} (h : cp ∈ delLines ms) : some cp ∈ ms := by
  rcases delGo_mem cp ms [] true false h with h | h
  · simp at h
  · exact h

/-- the spans `(start, length)` of the calls `\name{key}` of a document that starts at position `p` -/
def spans : Nat → List Seg → List (Nat × Nat)
  | _, [] => []
  | p, .txt s :: rest => spans (p + s.length) rest
  | p, .van name key :: rest => (p, vanLen name key) :: spans (p + vanLen name key) rest

theorem mem_posText {cp : Char × Nat} : ∀ {s : Str} {p : Nat}, cp ∈ posText p s →
    p ≤ cp.2 ∧ cp.2 < p + s.length
  | [], _, h => by simp [posText] at h
  | c :: cs, p, h => by
    simp only [posText, List.mem_cons] at h
    rcases h with rfl | h
    · simp
    · have := mem_posText h
      simp only [List.length_cons]; omega

theorem marks_ge {cp : Char × Nat} : ∀ {segs : List Seg} {p : Nat}, some cp ∈ marks p segs → p ≤ cp.2
  | [], _, h => by simp [marks] at h
  | .txt s :: rest, p, h => by
    simp only [marks, List.mem_append, List.mem_map] at h
    rcases h with ⟨x, hx, e⟩ | h
    · cases e; exact (mem_posText hx).1
    · have := marks_ge h; omega
  | .van name key :: rest, p, h => by
    simp only [marks, List.mem_cons, reduceCtorEq, false_or] at h
    have := marks_ge h; omega

theorem spans_ge {q : Nat × Nat} : ∀ {segs : List Seg} {p : Nat}, q ∈ spans p segs → p ≤ q.1
  | [], _, h => by simp [spans] at h
  | .txt s :: rest, p, h => by
    simp only [spans] at h
    have := spans_ge h; omega
  | .van name key :: rest, p, h => by
    simp only [spans, List.mem_cons] at h
    rcases h with rfl | h
    · simp
    · have := spans_ge h; omega

/-- no character of the marks lies inside a call -/
theorem marks_pos_outside {cp : Char × Nat} {q : Nat × Nat} : ∀ {segs : List Seg} {p : Nat},
    some cp ∈ marks p segs → q ∈ spans p segs → cp.2 < q.1 ∨ q.1 + q.2 ≤ cp.2
  | [], _, h, _ => by simp [marks] at h
  | .txt s :: rest, p, h, hq => by
    simp only [marks, List.mem_append, List.mem_map] at h
    simp only [spans] at hq
    rcases h with ⟨x, hx, e⟩ | h
    · cases e
      have := (mem_posText hx).2
      have := spans_ge hq
      left; omega
    · exact marks_pos_outside h hq
  | .van name key :: rest, p, h, hq => by
    simp only [marks, List.mem_cons, reduceCtorEq, false_or] at h
    simp only [spans, List.mem_cons] at hq
    rcases hq with rfl | hq
    · have := marks_ge h
      right; simpa using this
    · exact marks_pos_outside h hq

theorem posText_pos1 : ∀ (s : Str) (p : Nat), (posText p s).map (·.2 + 1) = List.range' (p + 1) s.length
  | [], _ => rfl
  | c :: cs, p => by
    simp only [posText, List.map_cons, List.length_cons, List.range'_succ, posText_pos1 cs (p + 1)]

/-- the reference for `a c \name{key} b`, `c` visible: the call is cut out of its line -/
theorem marks_same_line (a b : Str) (c : Char) (n k : Str) (hc : isSpace c = false) :
    delLines (marks 0 [.txt (a ++ [c]), .van n k, .txt b])
      = posText 0 (a ++ [c]) ++ posText (a.length + 1 + vanLen n k) b := by
  have e : marks 0 [.txt (a ++ [c]), .van n k, .txt b]
      = (posText 0 a ++ [(c, a.length)]).map some ++ none :: (posText (a.length + 1 + vanLen n k) b).map some := by
    simp [marks, posText_append, posText]
  rw [e, delLines_cut_same_line _ _ (c, a.length) hc, posText_append]
  simp [posText]

/-- the reference for `a ⏎ \name{key} ⏎ b`: the call disappears with its line, no blank line is left -/
theorem marks_own_line (a b n k : Str) :
    delLines (marks 0 [.txt (a ++ [nl]), .van n k, .txt (nl :: b)])
      = posText 0 (a ++ [nl]) ++ posText (a.length + 1 + vanLen n k + 1) b := by
  have e : marks 0 [.txt (a ++ [nl]), .van n k, .txt (nl :: b)]
      = (posText 0 a ++ [(nl, a.length)]).map some
        ++ none :: ((nl, a.length + 1 + vanLen n k) :: posText (a.length + 1 + vanLen n k + 1) b).map some := by
    simp [marks, posText_append, posText]
  rw [e, delLines_cut_own_line, posText_append]
  simp [posText]

end PlainVanish
end Yalafi
