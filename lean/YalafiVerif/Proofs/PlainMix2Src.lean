/-
  Proofs/PlainMix2Src.lean — source level of the ENLARGED union grammar (header with the end-to-end
  statement and all side conditions: Proofs/PlainMix2E2E.lean).

  `Seg`, `render`, `cwNames`, `nFormulas`, `grp`, `mac`   the documents (braces are flat atoms `opn` /
                                  `cls`; `grp body` = `{body}`, `mac name args` = `\name{a1}…{an}`)
  `marks`, `flows`                the reference: the main flow as a list of `PlainMacro.Mark`s, the
                                  detached flows (footnotes) as characters with positions;
                                  `marksL` = `marks` with the rotating collection as the model keeps it
  `segsOk`                        the side conditions (computable): those of Proofs/PlainMixSrc.lean
                                  for the seven old kinds, `braceAt`, `PlainRef.refOk / citeOk /
                                  citeNOk`, `PlainFootnote.footOk`, `PlainHeading.headOk` (+ the
                                  conditions on the state the respective construct needs)
  `OkSrc`                         the same on the source text (what the proofs use)
-/
import YalafiVerif.Proofs.PlainMix2
namespace Yalafi
namespace PlainMix2

open M
open PlainMacro
open PlainMix (firstTokTxtU okAtU textOkU spcOk cwOkU comOk verbOkU mathMarks spcOk_ne spcOk_head)
open PlainFootnote (lastTokOff flowOut)

/-! ### the documents -/

/-- a segment of the source -/
inductive Seg where
  /-- a run of inert text -/
  | txt (s : Str)
  /-- a special sequence `k` of the table -/
  | spc (k : Str)
  /-- an opening brace -/
  | opn
  /-- a closing brace -/
  | cls
  /-- an undeclared control word `\name` and the white space `sp` that is dropped behind it -/
  | cw (name sp : Str)
  /-- a call `\name{key}` of a vanishing macro -/
  | van (name key : Str)
  /-- a comment `%body` (`body`: everything the scanner takes) -/
  | com (body : Str)
  /-- a complete `\verb d s d` -/
  | verb (d : Char) (s : Str)
  /-- a simple inline formula `$body$` -/
  | math (body : Str)
  /-- a reference `\name{key}` (`\ref`, `\pageref`, …) -/
  | ref (name key : Str)
  /-- a citation `\name{key}` -/
  | cite (name key : Str)
  /-- a citation with a note `\name[note]{key}` -/
  | citeN (name note key : Str)
  /-- `\footnote{body}` -/
  | foot (body : Str)
  /-- a heading `\name{title}` -/
  | head (name title : Str)
deriving Repr, DecidableEq

def Seg.render : Seg → Str
  | .txt s => s
  | .spc k => k
  | .opn => ['{']
  | .cls => ['}']
  | .cw name sp => '\\' :: (name ++ sp)
  | .van name key => '\\' :: (name ++ '{' :: (key ++ ['}']))
  | .com body => '%' :: body
  | .verb d s => '\\' :: 'v' :: 'e' :: 'r' :: 'b' :: d :: (s ++ [d])
  | .math body => '$' :: (body ++ ['$'])
  | .ref name key => '\\' :: (name ++ '{' :: (key ++ ['}']))
  | .cite name key => '\\' :: (name ++ '{' :: (key ++ ['}']))
  | .citeN name note key => '\\' :: (name ++ '[' :: (note ++ ']' :: '{' :: (key ++ ['}'])))
  | .foot body => '\\' :: 'f' :: 'o' :: 'o' :: 't' :: 'n' :: 'o' :: 't' :: 'e' :: '{' :: (body ++ ['}'])
  | .head name title => '\\' :: (name ++ '{' :: (title ++ ['}']))

/-- the source text -/
def render : List Seg → Str
  | [] => []
  | s :: rest => s.render ++ render rest

/-- a brace group `{body}` -/
def grp (body : List Seg) : List Seg := .opn :: (body ++ [.cls])

/-- an undeclared control word with braced arguments `\name{a1}…{an}` -/
def mac (name : Str) (args : List (List Seg)) : List Seg := .cw name [] :: (args.map grp).flatten

/-- the number of source characters of a segment -/
def Seg.len (s : Seg) : Nat := s.render.length

/-- the undeclared control words of the document, with backslash, in order of occurrence -/
def cwNames : List Seg → List Str
  | [] => []
  | .cw name _ :: rest => ('\\' :: name) :: cwNames rest
  | _ :: rest => cwNames rest

/-- the number of formulas of the document -/
def nFormulas : List Seg → Nat
  | [] => 0
  | .math _ :: rest => nFormulas rest + 1
  | _ :: rest => nFormulas rest

/-- the full stop `h_heading` appends to a title that starts at position `q` -/
def dotMarks (T : PTables) (q : Nat) (title : Str) : List Mark :=
  if PlainHeading.needsDot T title then [some ('.', q + lastTokOff title)] else []

/-- **the reference for the main flow**: the document, which starts at position `p`, as a list of
    marks — `some (c, pos)` for an output character with its position, `none` where the model
    leaves an Action token; `repls` = the inline placeholders of the language, `k` = the number of
    formulas in front; `st` = the initialised parser state (for the placeholder of `\ref`):
    * text, special sequences, control words, vanishing calls, comments, `\verb`, formulas:
      as in `PlainMix.marks`;
    * a brace: a mark;
    * a reference: a mark, the placeholder `PlainRef.phOf st name` at the backslash;
    * a citation: a mark, `[0]` at the backslash, a mark; with a note: a mark, `[0, ` at the
      backslash, the note at its own positions, `]` at the start of the last token of the note,
      a mark;
    * a footnote: a mark (the body goes to `flows`);
    * a heading: a mark, the title at its own positions, a full stop (`PlainHeading.needsDot`)
      at the start of the last token of the title. -/
def marks (T : PTables) (st : PState) (repls : List Str) : Nat → Nat → List Seg → List Mark
  | _, _, [] => []
  | k, p, .txt s :: rest => (posText p s).map some ++ marks T st repls k (p + s.length) rest
  | k, p, .spc key :: rest =>
    none :: ((posText p (specialValD T.toTables key)).map some
      ++ marks T st repls k (p + key.length) rest)
  | k, p, .opn :: rest => none :: marks T st repls k (p + 1) rest
  | k, p, .cls :: rest => none :: marks T st repls k (p + 1) rest
  | k, p, .cw name sp :: rest => none :: marks T st repls k (p + (name.length + 1 + sp.length)) rest
  | k, p, .van name key :: rest => none :: marks T st repls k (p + PlainVanish.vanLen name key) rest
  | k, p, .com body :: rest => marks T st repls k (p + (body.length + 1)) rest
  | k, p, .verb _ s :: rest =>
    none :: ((posText (p + 6) s).map some ++ marks T st repls k (p + (s.length + 7)) rest)
  | k, p, .math body :: rest =>
    mathMarks T (PlainMath.placeholder repls (k + 1)) p body
      ++ marks T st repls (k + 1) (p + (body.length + 2)) rest
  | k, p, .ref name key :: rest =>
    none :: (PlainRef.fixMarks p (PlainRef.phOf st name)
      ++ marks T st repls k (p + PlainRef.callLen name key) rest)
  | k, p, .cite name key :: rest =>
    none :: (PlainRef.fixMarks p "[0]".toList
      ++ none :: marks T st repls k (p + PlainRef.callLen name key) rest)
  | k, p, .citeN name note key :: rest =>
    none :: (PlainRef.fixMarks p "[0, ".toList ++ ((posText (p + name.length + 2) note).map some ++
      some (']', p + name.length + 2 + lastTokOff note) :: none ::
        marks T st repls k (p + PlainRef.callNLen name note key) rest))
  | k, p, .foot body :: rest => none :: marks T st repls k (p + (body.length + 11)) rest
  | k, p, .head name title :: rest =>
    none :: ((posText (p + name.length + 2) title).map some ++ (dotMarks T (p + name.length + 2) title
      ++ marks T st repls k (p + (name.length + title.length + 3)) rest))

/-- the same with the rotating collection `l` as the model keeps it -/
def marksL (T : PTables) (st : PState) : List Str → Nat → List Seg → List Mark
  | _, _, [] => []
  | l, p, .txt s :: rest => (posText p s).map some ++ marksL T st l (p + s.length) rest
  | l, p, .spc key :: rest =>
    none :: ((posText p (specialValD T.toTables key)).map some ++ marksL T st l (p + key.length) rest)
  | l, p, .opn :: rest => none :: marksL T st l (p + 1) rest
  | l, p, .cls :: rest => none :: marksL T st l (p + 1) rest
  | l, p, .cw name sp :: rest => none :: marksL T st l (p + (name.length + 1 + sp.length)) rest
  | l, p, .van name key :: rest => none :: marksL T st l (p + PlainVanish.vanLen name key) rest
  | l, p, .com body :: rest => marksL T st l (p + (body.length + 1)) rest
  | l, p, .verb _ s :: rest =>
    none :: ((posText (p + 6) s).map some ++ marksL T st l (p + (s.length + 7)) rest)
  | l, p, .math body :: rest =>
    mathMarks T ((rotL l).headD []) p body ++ marksL T st (rotL l) (p + (body.length + 2)) rest
  | l, p, .ref name key :: rest =>
    none :: (PlainRef.fixMarks p (PlainRef.phOf st name)
      ++ marksL T st l (p + PlainRef.callLen name key) rest)
  | l, p, .cite name key :: rest =>
    none :: (PlainRef.fixMarks p "[0]".toList
      ++ none :: marksL T st l (p + PlainRef.callLen name key) rest)
  | l, p, .citeN name note key :: rest =>
    none :: (PlainRef.fixMarks p "[0, ".toList ++ ((posText (p + name.length + 2) note).map some ++
      some (']', p + name.length + 2 + lastTokOff note) :: none ::
        marksL T st l (p + PlainRef.callNLen name note key) rest))
  | l, p, .foot body :: rest => none :: marksL T st l (p + (body.length + 11)) rest
  | l, p, .head name title :: rest =>
    none :: ((posText (p + name.length + 2) title).map some ++ (dotMarks T (p + name.length + 2) title
      ++ marksL T st l (p + (name.length + title.length + 3)) rest))

/-- **the reference for the detached flows**: for every footnote, in order, three line breaks at
    the position of the first body character, the body at its own positions, a line break at the
    start of the last token of the body (`PlainFootnote.flowOut`); `p` = position of the document -/
def flows : Nat → List Seg → List (Char × Nat)
  | _, [] => []
  | p, .foot body :: rest => flowOut (p + 10) body ++ flows (p + (body.length + 11)) rest
  | p, s :: rest => flows (p + s.len) rest

theorem marksL_eq (T : PTables) (st : PState) (repls : List Str) (hne : repls ≠ []) :
    ∀ (segs : List Seg) (k p : Nat),
      marksL T st (PlainMath.rotN k repls) p segs = marks T st repls k p segs
  | [], _, _ => rfl
  | .txt s :: rest, k, p => by simp only [marksL, marks, marksL_eq T st repls hne rest k]
  | .spc key :: rest, k, p => by simp only [marksL, marks, marksL_eq T st repls hne rest k]
  | .opn :: rest, k, p => by simp only [marksL, marks, marksL_eq T st repls hne rest k]
  | .cls :: rest, k, p => by simp only [marksL, marks, marksL_eq T st repls hne rest k]
  | .cw name sp :: rest, k, p => by simp only [marksL, marks, marksL_eq T st repls hne rest k]
  | .van name key :: rest, k, p => by simp only [marksL, marks, marksL_eq T st repls hne rest k]
  | .com body :: rest, k, p => by simp only [marksL, marks, marksL_eq T st repls hne rest k]
  | .verb d s :: rest, k, p => by simp only [marksL, marks, marksL_eq T st repls hne rest k]
  | .math body :: rest, k, p => by
    simp only [marksL, marks, ← PlainMath.rotN_succ, PlainMath.rotN_headD repls hne,
      marksL_eq T st repls hne rest (k + 1)]
  | .ref name key :: rest, k, p => by simp only [marksL, marks, marksL_eq T st repls hne rest k]
  | .cite name key :: rest, k, p => by simp only [marksL, marks, marksL_eq T st repls hne rest k]
  | .citeN name note key :: rest, k, p => by
    simp only [marksL, marks, marksL_eq T st repls hne rest k]
  | .foot body :: rest, k, p => by simp only [marksL, marks, marksL_eq T st repls hne rest k]
  | .head name title :: rest, k, p => by simp only [marksL, marks, marksL_eq T st repls hne rest k]

/-- without formulas the collection does not matter -/
theorem marksL_nomath (T : PTables) (st : PState) (l repls : List Str) :
    ∀ (segs : List Seg) (k p : Nat), nFormulas segs = 0 →
      marksL T st l p segs = marks T st repls k p segs
  | [], _, _, _ => rfl
  | .txt s :: rest, k, p, h => by simp only [marksL, marks, marksL_nomath T st l repls rest k _ h]
  | .spc key :: rest, k, p, h => by simp only [marksL, marks, marksL_nomath T st l repls rest k _ h]
  | .opn :: rest, k, p, h => by simp only [marksL, marks, marksL_nomath T st l repls rest k _ h]
  | .cls :: rest, k, p, h => by simp only [marksL, marks, marksL_nomath T st l repls rest k _ h]
  | .cw name sp :: rest, k, p, h => by simp only [marksL, marks, marksL_nomath T st l repls rest k _ h]
  | .van name key :: rest, k, p, h => by simp only [marksL, marks, marksL_nomath T st l repls rest k _ h]
  | .com body :: rest, k, p, h => by simp only [marksL, marks, marksL_nomath T st l repls rest k _ h]
  | .verb d s :: rest, k, p, h => by simp only [marksL, marks, marksL_nomath T st l repls rest k _ h]
  | .math body :: rest, k, p, h => by simp [nFormulas] at h
  | .ref name key :: rest, k, p, h => by simp only [marksL, marks, marksL_nomath T st l repls rest k _ h]
  | .cite name key :: rest, k, p, h => by simp only [marksL, marks, marksL_nomath T st l repls rest k _ h]
  | .citeN name note key :: rest, k, p, h => by
    simp only [marksL, marks, marksL_nomath T st l repls rest k _ h]
  | .foot body :: rest, k, p, h => by simp only [marksL, marks, marksL_nomath T st l repls rest k _ h]
  | .head name title :: rest, k, p, h => by
    simp only [marksL, marks, marksL_nomath T st l repls rest k _ h]

/-! ### the side conditions -/

/-- well-formed documents: every segment is fine in front of the rendering of the following ones -/
def segsOk (T : PTables) (st : PState) : List Seg → Bool
  | [] => true
  | .txt s :: rest => textOkU T st s (render rest) && segsOk T st rest
  | .spc k :: rest => spcOk T k (render rest) && segsOk T st rest
  | .opn :: rest => braceAt T '{' (render rest) && segsOk T st rest
  | .cls :: rest => braceAt T '}' (render rest) && segsOk T st rest
  | .cw name sp :: rest => cwOkU T st name sp (render rest) && segsOk T st rest
  | .van name key :: rest => PlainVanish.vanOk T st name key (render rest) && segsOk T st rest
  | .com body :: rest => comOk T st body (render rest) && segsOk T st rest
  | .verb d s :: rest => verbOkU T d s (render rest) && segsOk T st rest
  | .math body :: rest => PlainMath.mathOk T body (render rest) && segsOk T st rest
  | .ref name key :: rest => PlainRef.refOk T st name key (render rest) && segsOk T st rest
  | .cite name key :: rest =>
    (PlainRef.citeOk T st name key (render rest) && PlainRef.stateOk T st) && segsOk T st rest
  | .citeN name note key :: rest =>
    (PlainRef.citeNOk T st name note key (render rest) && PlainRef.stateOk T st) && segsOk T st rest
  | .foot body :: rest =>
    (PlainFootnote.footOk T st body (render rest) && PlainFootnote.stateOk T st) && segsOk T st rest
  | .head name title :: rest =>
    (PlainHeading.headOk T st name title (render rest) && PlainHeading.stateOk T st)
      && segsOk T st rest

/-! ### the same on the source text -/

/-- the source text, which starts at position `p`, with its marks (as a function of the stored
    placeholder collection), its unknown names, its number of formulas and its flows -/
inductive OkSrc (T : PTables) (st : PState) :
    Nat → Str → (List Str → List Mark) → List Str → Nat → List (Char × Nat) → Prop
  | nil (p : Nat) : OkSrc T st p [] (fun _ => []) [] 0 []
  | chr (p : Nat) (c : Char) (cs : Str) (ms : List Str → List Mark) (nms : List Str) (nf : Nat)
      (fl : List (Char × Nat)) :
      okAtU T st c cs = true → OkSrc T st (p + 1) cs ms nms nf fl →
      OkSrc T st p (c :: cs) (fun l => some (c, p) :: ms l) nms nf fl
  | spc (p : Nat) (c : Char) (tl R : Str) (ms : List Str → List Mark) (nms : List Str) (nf : Nat)
      (fl : List (Char × Nat)) :
      spcOk T (c :: tl) R = true → OkSrc T st (p + (tl.length + 1)) R ms nms nf fl →
      OkSrc T st p (c :: (tl ++ R))
        (fun l => none :: ((posText p (specialValD T.toTables (c :: tl))).map some ++ ms l)) nms nf fl
  | br (p : Nat) (c : Char) (R : Str) (ms : List Str → List Mark) (nms : List Str) (nf : Nat)
      (fl : List (Char × Nat)) :
      (c = '{' ∨ c = '}') → braceAt T c R = true → OkSrc T st (p + 1) R ms nms nf fl →
      OkSrc T st p (c :: R) (fun l => none :: ms l) nms nf fl
  | cw (p : Nat) (name sp R : Str) (ms : List Str → List Mark) (nms : List Str) (nf : Nat)
      (fl : List (Char × Nat)) :
      cwOkU T st name sp R = true → OkSrc T st (p + (name.length + 1 + sp.length)) R ms nms nf fl →
      OkSrc T st p ('\\' :: (name ++ (sp ++ R))) (fun l => none :: ms l) (('\\' :: name) :: nms) nf fl
  | van (p : Nat) (name key R : Str) (ms : List Str → List Mark) (nms : List Str) (nf : Nat)
      (fl : List (Char × Nat)) :
      PlainVanish.vanOk T st name key R = true →
      OkSrc T st (p + PlainVanish.vanLen name key) R ms nms nf fl →
      OkSrc T st p ('\\' :: (name ++ '{' :: (key ++ '}' :: R))) (fun l => none :: ms l) nms nf fl
  | com (p : Nat) (body R : Str) (ms : List Str → List Mark) (nms : List Str) (nf : Nat)
      (fl : List (Char × Nat)) :
      comOk T st body R = true → OkSrc T st (p + (body.length + 1)) R ms nms nf fl →
      OkSrc T st p ('%' :: (body ++ R)) ms nms nf fl
  | verb (p : Nat) (d : Char) (s R : Str) (ms : List Str → List Mark) (nms : List Str) (nf : Nat)
      (fl : List (Char × Nat)) :
      verbOkU T d s R = true → OkSrc T st (p + (s.length + 7)) R ms nms nf fl →
      OkSrc T st p ('\\' :: 'v' :: 'e' :: 'r' :: 'b' :: d :: (s ++ d :: R))
        (fun l => none :: ((posText (p + 6) s).map some ++ ms l)) nms nf fl
  | math (p : Nat) (body R : Str) (ms : List Str → List Mark) (nms : List Str) (nf : Nat)
      (fl : List (Char × Nat)) :
      PlainMath.mathOk T body R = true → OkSrc T st (p + (body.length + 2)) R ms nms nf fl →
      OkSrc T st p ('$' :: (body ++ '$' :: R))
        (fun l => mathMarks T ((rotL l).headD []) p body ++ ms (rotL l)) nms (nf + 1) fl
  | ref (p : Nat) (name key R : Str) (ms : List Str → List Mark) (nms : List Str) (nf : Nat)
      (fl : List (Char × Nat)) :
      PlainRef.refOk T st name key R = true →
      OkSrc T st (p + PlainRef.callLen name key) R ms nms nf fl →
      OkSrc T st p ('\\' :: (name ++ '{' :: (key ++ '}' :: R)))
        (fun l => none :: (PlainRef.fixMarks p (PlainRef.phOf st name) ++ ms l)) nms nf fl
  | cite (p : Nat) (name key R : Str) (ms : List Str → List Mark) (nms : List Str) (nf : Nat)
      (fl : List (Char × Nat)) :
      PlainRef.citeOk T st name key R = true → PlainRef.stateOk T st = true →
      OkSrc T st (p + PlainRef.callLen name key) R ms nms nf fl →
      OkSrc T st p ('\\' :: (name ++ '{' :: (key ++ '}' :: R)))
        (fun l => none :: (PlainRef.fixMarks p "[0]".toList ++ none :: ms l)) nms nf fl
  | citeN (p : Nat) (name note key R : Str) (ms : List Str → List Mark) (nms : List Str) (nf : Nat)
      (fl : List (Char × Nat)) :
      PlainRef.citeNOk T st name note key R = true → PlainRef.stateOk T st = true →
      OkSrc T st (p + PlainRef.callNLen name note key) R ms nms nf fl →
      OkSrc T st p ('\\' :: (name ++ '[' :: (note ++ ']' :: '{' :: (key ++ '}' :: R))))
        (fun l => none :: (PlainRef.fixMarks p "[0, ".toList ++
          ((posText (p + name.length + 2) note).map some ++
            some (']', p + name.length + 2 + lastTokOff note) :: none :: ms l))) nms nf fl
  | foot (p : Nat) (body R : Str) (ms : List Str → List Mark) (nms : List Str) (nf : Nat)
      (fl : List (Char × Nat)) :
      PlainFootnote.footOk T st body R = true → PlainFootnote.stateOk T st = true →
      OkSrc T st (p + (body.length + 11)) R ms nms nf fl →
      OkSrc T st p
        ('\\' :: 'f' :: 'o' :: 'o' :: 't' :: 'n' :: 'o' :: 't' :: 'e' :: '{' :: (body ++ '}' :: R))
        (fun l => none :: ms l) nms nf (flowOut (p + 10) body ++ fl)
  | head (p : Nat) (name title R : Str) (ms : List Str → List Mark) (nms : List Str) (nf : Nat)
      (fl : List (Char × Nat)) :
      PlainHeading.headOk T st name title R = true → PlainHeading.stateOk T st = true →
      OkSrc T st (p + (name.length + title.length + 3)) R ms nms nf fl →
      OkSrc T st p ('\\' :: (name ++ '{' :: (title ++ '}' :: R)))
        (fun l => none :: ((posText (p + name.length + 2) title).map some ++
          (dotMarks T (p + name.length + 2) title ++ ms l))) nms nf fl

theorem OkSrc_text (T : PTables) (st : PState) (R : Str) (ms : List Str → List Mark) (nms : List Str)
    (nf : Nat) (fl : List (Char × Nat)) :
    ∀ (s : Str) (p : Nat), OkSrc T st (p + s.length) R ms nms nf fl → textOkU T st s R = true →
      OkSrc T st p (s ++ R) (fun l => (posText p s).map some ++ ms l) nms nf fl
  | [], _, hR, _ => hR
  | c :: cs, p, hR, h => by
    simp only [textOkU, Bool.and_eq_true] at h
    have hR' : OkSrc T st (p + 1 + cs.length) R ms nms nf fl := by
      have e : p + 1 + cs.length = p + (c :: cs).length := by simp; omega
      rw [e]; exact hR
    exact OkSrc.chr p c (cs ++ R) _ _ _ _ h.1 (OkSrc_text T st R ms nms nf fl cs (p + 1) hR' h.2)

theorem flows_text (s : Str) (rest : List Seg) (p : Nat) :
    flows p (.txt s :: rest) = flows (p + s.length) rest := by
  simp [flows, Seg.len, Seg.render]

theorem OkSrc_of_segsOk (T : PTables) (st : PState) :
    ∀ (segs : List Seg) (p : Nat), segsOk T st segs = true →
      OkSrc T st p (render segs) (fun l => marksL T st l p segs) (cwNames segs) (nFormulas segs)
        (flows p segs)
  | [], p, _ => .nil p
  | .txt s :: rest, p, h => by
    simp only [segsOk, Bool.and_eq_true] at h
    rw [flows_text]
    exact OkSrc_text T st _ _ _ _ _ s p (OkSrc_of_segsOk T st rest _ h.2) h.1
  | .spc k :: rest, p, h => by
    simp only [segsOk, Bool.and_eq_true] at h
    cases k with
    | nil => exact absurd rfl (spcOk_ne h.1)
    | cons c tl =>
      have := OkSrc.spc p c tl (render rest) _ _ _ _ h.1 (OkSrc_of_segsOk T st rest _ h.2)
      simpa [render, Seg.render, marksL, cwNames, nFormulas, flows, Seg.len] using this
  | .opn :: rest, p, h => by
    simp only [segsOk, Bool.and_eq_true] at h
    have := OkSrc.br p '{' (render rest) _ _ _ _ (Or.inl rfl) h.1 (OkSrc_of_segsOk T st rest _ h.2)
    simpa [render, Seg.render, marksL, cwNames, nFormulas, flows, Seg.len] using this
  | .cls :: rest, p, h => by
    simp only [segsOk, Bool.and_eq_true] at h
    have := OkSrc.br p '}' (render rest) _ _ _ _ (Or.inr rfl) h.1 (OkSrc_of_segsOk T st rest _ h.2)
    simpa [render, Seg.render, marksL, cwNames, nFormulas, flows, Seg.len] using this
  | .cw name sp :: rest, p, h => by
    simp only [segsOk, Bool.and_eq_true] at h
    have := OkSrc.cw p name sp (render rest) _ _ _ _ h.1 (OkSrc_of_segsOk T st rest _ h.2)
    have e : p + (name.length + sp.length + 1) = p + (name.length + 1 + sp.length) := by omega
    simpa [render, Seg.render, marksL, cwNames, nFormulas, flows, Seg.len, e] using this
  | .van name key :: rest, p, h => by
    simp only [segsOk, Bool.and_eq_true] at h
    have := OkSrc.van p name key (render rest) _ _ _ _ h.1 (OkSrc_of_segsOk T st rest _ h.2)
    have e : p + (name.length + (key.length + 1 + 1) + 1) = p + PlainVanish.vanLen name key := by
      simp only [PlainVanish.vanLen]; omega
    simpa [render, Seg.render, marksL, cwNames, nFormulas, flows, Seg.len, e] using this
  | .com body :: rest, p, h => by
    simp only [segsOk, Bool.and_eq_true] at h
    have := OkSrc.com p body (render rest) _ _ _ _ h.1 (OkSrc_of_segsOk T st rest _ h.2)
    simpa [render, Seg.render, marksL, cwNames, nFormulas, flows, Seg.len] using this
  | .verb d s :: rest, p, h => by
    simp only [segsOk, Bool.and_eq_true] at h
    have := OkSrc.verb p d s (render rest) _ _ _ _ h.1 (OkSrc_of_segsOk T st rest _ h.2)
    have e : p + (s.length + 1 + 1 + 1 + 1 + 1 + 1 + 1) = p + (s.length + 7) := by omega
    simpa [render, Seg.render, marksL, cwNames, nFormulas, flows, Seg.len, e] using this
  | .math body :: rest, p, h => by
    simp only [segsOk, Bool.and_eq_true] at h
    have := OkSrc.math p body (render rest) _ _ _ _ h.1 (OkSrc_of_segsOk T st rest _ h.2)
    have e : p + (body.length + 1 + 1) = p + (body.length + 2) := by omega
    simpa [render, Seg.render, marksL, cwNames, nFormulas, flows, Seg.len, e] using this
  | .ref name key :: rest, p, h => by
    simp only [segsOk, Bool.and_eq_true] at h
    have := OkSrc.ref p name key (render rest) _ _ _ _ h.1 (OkSrc_of_segsOk T st rest _ h.2)
    have e : p + (name.length + (key.length + 1 + 1) + 1) = p + PlainRef.callLen name key := by
      simp only [PlainRef.callLen]; omega
    simpa [render, Seg.render, marksL, cwNames, nFormulas, flows, Seg.len, e] using this
  | .cite name key :: rest, p, h => by
    simp only [segsOk, Bool.and_eq_true] at h
    have := OkSrc.cite p name key (render rest) _ _ _ _ h.1.1 h.1.2 (OkSrc_of_segsOk T st rest _ h.2)
    have e : p + (name.length + (key.length + 1 + 1) + 1) = p + PlainRef.callLen name key := by
      simp only [PlainRef.callLen]; omega
    simpa [render, Seg.render, marksL, cwNames, nFormulas, flows, Seg.len, e] using this
  | .citeN name note key :: rest, p, h => by
    simp only [segsOk, Bool.and_eq_true] at h
    have := OkSrc.citeN p name note key (render rest) _ _ _ _ h.1.1 h.1.2
      (OkSrc_of_segsOk T st rest _ h.2)
    have e : p + (name.length + (note.length + (key.length + 1 + 1 + 1) + 1) + 1)
        = p + PlainRef.callNLen name note key := by
      simp only [PlainRef.callNLen]; omega
    simpa [render, Seg.render, marksL, cwNames, nFormulas, flows, Seg.len, e] using this
  | .foot body :: rest, p, h => by
    simp only [segsOk, Bool.and_eq_true] at h
    have := OkSrc.foot p body (render rest) _ _ _ _ h.1.1 h.1.2 (OkSrc_of_segsOk T st rest _ h.2)
    simpa [render, Seg.render, marksL, cwNames, nFormulas, flows] using this
  | .head name title :: rest, p, h => by
    simp only [segsOk, Bool.and_eq_true] at h
    have := OkSrc.head p name title (render rest) _ _ _ _ h.1.1 h.1.2
      (OkSrc_of_segsOk T st rest _ h.2)
    have e : p + (name.length + (title.length + 1 + 1) + 1) = p + (name.length + title.length + 3) := by
      omega
    simpa [render, Seg.render, marksL, cwNames, nFormulas, flows, Seg.len, e] using this

/-- white space in front can be dropped -/
theorem OkSrc_drop_space (T : PTables) (st : PState) (nms : List Str) (nf : Nat)
    (fl : List (Char × Nat)) :
    ∀ (k : Nat) (p : Nat) (s : Str) (ms : List Str → List Mark), k ≤ s.length →
      OkSrc T st p s ms nms nf fl → (∀ x ∈ s.take k, isSpace x = true) →
      ∃ ms', (∀ l, ms l = (posText p (s.take k)).map some ++ ms' l) ∧
        OkSrc T st (p + k) (s.drop k) ms' nms nf fl
  | 0, _, _, ms, _, h, _ => ⟨ms, fun _ => rfl, h⟩
  | k + 1, _, [], _, hk, _, _ => by simp at hk
  | k + 1, p, c :: cs, _, hk, h, hsp => by
    have hc : isSpace c = true := hsp c (by simp)
    cases h with
    | chr _ _ _ ms0 _ _ _ _ h2 =>
      obtain ⟨ms', e, h3⟩ := OkSrc_drop_space T st nms nf fl k (p + 1) cs ms0 (by simpa using hk) h2
        (fun x hx => hsp x (by simp [hx]))
      refine ⟨ms', fun l => by simp [posText, e l], ?_⟩
      have e : p + (k + 1) = p + 1 + k := by omega
      rw [e]; exact h3
    | spc _ _ tl R _ _ _ _ hd _ => exact absurd hc (by rw [(spcOk_head hd).1]; simp)
    | br _ _ R _ _ _ _ hb _ _ =>
      rcases hb with rfl | rfl <;> exact absurd hc (by decide)
    | cw _ name sp R _ _ _ _ _ _ => exact absurd hc (by decide)
    | van _ name key R _ _ _ _ _ _ => exact absurd hc (by decide)
    | com _ body R _ _ _ _ _ _ => exact absurd hc (by decide)
    | verb _ d s R _ _ _ _ _ _ => exact absurd hc (by decide)
    | math _ body R _ _ _ _ _ _ => exact absurd hc (by decide)
    | ref _ name key R _ _ _ _ _ _ => exact absurd hc (by decide)
    | cite _ name key R _ _ _ _ _ _ _ => exact absurd hc (by decide)
    | citeN _ name note key R _ _ _ _ _ _ _ => exact absurd hc (by decide)
    | foot _ body R _ _ _ _ _ _ _ => exact absurd hc (by decide)
    | head _ name title R _ _ _ _ _ _ _ => exact absurd hc (by decide)

/-- the conditions depend on the state only through the language stack, the macro table, the
    marker of the skip pre-pass and the multi-language flag -/
theorem OkSrc.congr {T : PTables} {st st' : PState} (hl : st'.langStack = st.langStack)
    (hm : st'.macros = st.macros) (hs : st'.skipBegin = st.skipBegin)
    (hml : st'.multiLanguage = st.multiLanguage)
    {p : Nat} {s : Str} {ms : List Str → List Mark} {nms : List Str} {nf : Nat}
    {fl : List (Char × Nat)} (h : OkSrc T st p s ms nms nf fl) :
    OkSrc T st' p s ms nms nf fl := by
  induction h with
  | nil p => exact .nil p
  | chr p c cs ms nms nf fl hat _ ih =>
    refine .chr p c cs ms nms nf fl ?_ ih
    rw [← hat]
    simp only [okAtU, activeChars_congr T st st' hl, shortKeys_congr T st st' hl]
  | spc p c tl R ms nms nf fl hd _ ih => exact .spc p c tl R ms nms nf fl hd ih
  | br p c R ms nms nf fl hc hd _ ih => exact .br p c R ms nms nf fl hc hd ih
  | cw p name sp R ms nms nf fl hd _ ih =>
    refine .cw p name sp R ms nms nf fl ?_ ih
    rw [← hd]
    simp only [cwOkU, cwOk, lookupMacro, hm]
  | van p name key R ms nms nf fl hd _ ih =>
    refine .van p name key R ms nms nf fl ?_ ih
    rw [← hd]
    simp only [PlainVanish.vanOk, lookupMacro, hm]
  | com p body R ms nms nf fl hd _ ih =>
    refine .com p body R ms nms nf fl ?_ ih
    rw [← hd]
    simp only [comOk, Comment.comTokOk, hs, activeChars_congr T st st' hl]
  | verb p d s R ms nms nf fl hd _ ih => exact .verb p d s R ms nms nf fl hd ih
  | math p body R ms nms nf fl hd _ ih => exact .math p body R ms nms nf fl hd ih
  | ref p name key R ms nms nf fl hd _ ih =>
    rw [← PlainRef.phOf_congr hm]
    refine .ref p name key R ms nms nf fl ?_ ih
    rw [← hd]
    have : PlainRef.refDeclOk T st' = PlainRef.refDeclOk T st := funext (PlainRef.refDeclOk_congr hl)
    simp only [PlainRef.refOk, lookupMacro, hm, this]
  | cite p name key R ms nms nf fl hd hS _ ih =>
    refine .cite p name key R ms nms nf fl ?_ ?_ ih
    · rw [← hd]
      simp only [PlainRef.citeOk, lookupMacro, hm]
    · rw [← hS]
      simp only [PlainRef.stateOk, noEmptyActive_congr T st st' hl, activeChars_congr T st st' hl]
  | citeN p name note key R ms nms nf fl hd hS _ ih =>
    refine .citeN p name note key R ms nms nf fl ?_ ?_ ih
    · rw [← hd]
      simp only [PlainRef.citeNOk, lookupMacro, hm, PlainFootnote.textOk_congr T st st' hl]
    · rw [← hS]
      simp only [PlainRef.stateOk, noEmptyActive_congr T st st' hl, activeChars_congr T st st' hl]
  | foot p body R ms nms nf fl hd hS _ ih =>
    refine .foot p body R ms nms nf fl ?_ ?_ ih
    · rw [← hd]
      simp only [PlainFootnote.footOk, PlainFootnote.textOk_congr T st st' hl]
    · rw [← hS]
      exact PlainFootnote.stateOk_congr T st st' hm hl hml
  | head p name title R ms nms nf fl hd hS _ ih =>
    refine .head p name title R ms nms nf fl ?_ ?_ ih
    · rw [← hd]
      simp only [PlainHeading.headOk, lookupMacro, hm, PlainFootnote.textOk_congr T st st' hl]
    · rw [← hS]
      exact PlainHeading.stateOk_congr T st st' hl

end PlainMix2
end Yalafi
